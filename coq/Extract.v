(* Extract.v — extraction of every executable model run by the correspondence driver.
   ExtrOcamlBasic only: bool, option, unit, list, prod, sumbool map to OCaml's; nat, positive, N, Z
   stay the extracted inductive datatypes (no Extract Constant to OCaml integers).

   Names.  Everything is extracted into ONE file; when two Coq modules define the same identifier
   (PLE.radix / TRSM.radix, Ops.write_bit / IO.write_bit, Ops.set_row / IO.set_row ...) the
   extraction renames the later one.  The models of Lin/ and Alg/Gauss.v come first and keep their
   names (ocaml/driver.ml uses them directly); everything added later is reached through the
   wrappers [x_...] below, whose names are unique. *)
From Coq Require Import Extraction ExtrOcamlBasic List NArith ZArith Arith Bool.
From M4 Require Import Base.Bits Lin.Mat Lin.Ops Alg.Gauss.
From M4 Require Lin.Spec Alg.PLE Alg.PLESpec Alg.TRSM Alg.Mul Alg.Solve Sys.IO.
Import ListNotations.
Extraction Blacklist List String Nat Int.

(* ---- C03: models and VERIFIED checkers (Alg/PLEProofs.v: ple_ok_spec, pluq_ok_spec) ---- *)
Definition x_ple_naive := PLE.ple_naive.
Definition x_pluq_naive := PLE.pluq_naive.
Definition x_pluq_of_ple := PLE.pluq_of_ple.
Definition x_ple_rec := PLE.ple_rec.
Definition x_pluq_rec := PLE.pluq_rec.
Definition x_compress_l := PLE.compress_l.
Definition x_ple_ok := PLESpec.ple_ok.
Definition x_pluq_ok := PLESpec.pluq_ok.
Definition x_crp_of := PLESpec.crp_of.

(* ---- C04 / C05: unique solutions and inverses (Alg/TRSMProofs.v, Alg/InvProofs.v) ---- *)
Definition x_trsm_lower_left := TRSM.trsm_lower_left.
Definition x_trsm_upper_left := TRSM.trsm_upper_left.
Definition x_trsm_upper_right := TRSM.trsm_upper_right.
Definition x_trsm_lower_right := TRSM.trsm_lower_right.
Definition x_trsm_lower_left_rec := TRSM.trsm_lower_left_rec.
Definition x_trsm_upper_left_rec := TRSM.trsm_upper_left_rec.
Definition x_trsm_upper_right_rec := TRSM.trsm_upper_right_rec.
Definition x_trsm_lower_right_rec := TRSM.trsm_lower_right_rec.
Definition x_mkcfg := TRSM.mkcfg.
Definition x_trtri_upper_simple := TRSM.trtri_upper_simple.
Definition x_trtri_upper_rec := TRSM.trtri_upper_rec.
Definition x_inv_m4ri_model := TRSM.inv_m4ri_model.
Definition x_inv_m4ri_faithful := TRSM.inv_m4ri_faithful.
Definition x_invert_naive_model := TRSM.invert_naive_model.

(* ---- C01 (Tier B): faithful models of the cubic and the M4RM route ---- *)
Definition x_m4rm_run := Mul.m4rm_run.
Definition x_naive_run := Mul.naive_run.

(* ---- C18 ---- *)
Definition x_png_case := IO.png_case.
Definition x_png_read_case := IO.png_read_case.
Definition x_png_header_case := IO.png_header_case.
Definition x_jcf_case := IO.jcf_case.
Definition x_str_case := IO.str_case.
Definition x_png_write := IO.png_write.
Definition x_z_of_N := Z.of_N.
Definition x_z_opp := Z.opp.
Definition x_z_abs_N := Z.abs_N.
Definition x_z_ltb := Z.ltb.

(* ---- C06 / C07 (Tier B): faithful models of solve.c, PLUQ = _mzd_pluq with the build's PLE cut-off ---- *)
Definition x_solve_left_cfg := Solve.solve_left_cfg.
Definition x_pluq_solve_left_model := Solve.pluq_solve_left_model.
Definition x_kernel_left_cfg := Solve.kernel_left_cfg.
Definition x_solve_left_pinned := Solve.solve_left_pinned.

(* ---- C06 / C07: Tier-A checkers.
   HOOK.  These are plain compositions of verified pieces (Gauss.rank / rref: rank_canonical,
   rref_canonical; mmul; mequal; is_zero), independent of any solver code.  Alg/Solve.v has no
   executable [solve_ok] / [kernel_ok] of its own yet; when it gets them (proven to reflect the C06 /
   C07 statements), re-point [x_solve_ok] / [x_kernel_ok] at them — nothing else changes. ---- *)

(* A padded with zero rows up to the number of rows of B (= max(m, n)) *)
Definition x_pad_rows (A : mat) (rows_total : nat) : mat :=
  mstack A (mzero (rows_total - nr A) (nc A)).

(* the system  A_pad * X = B  has a solution  <->  rank [A_pad | B] = rank A_pad  (Rouche-Capelli) *)
Definition x_consistent (A B : mat) : bool :=
  let Ap := x_pad_rows A (nr B) in
  rank (mconcat Ap B) =? rank Ap.

(* C06: [ret0] = "the routine returned 0", X = B after the call (max(m,n) rows, the first n are read) *)
Definition x_solve_ok (A B0 X : mat) (ret0 check : bool) : bool :=
  let Ap := x_pad_rows A (nr B0) in
  let cons := x_consistent A B0 in
  let shape := wfb X && (nr X =? nr B0) && (nc X =? nc B0) in
  let sol := mequal (mmul Ap (msub X 0 0 (nc A) (nc X))) B0 in
  if check then (if ret0 then cons && shape && sol else negb cons)
  else ret0 && shape && (if cons then sol else true).

(* C07 *)
Definition x_kernel_ok (A : mat) (K : option mat) : bool :=
  let r := rank A in
  match K with
  | None => r =? nc A
  | Some K => negb (r =? nc A) && wfb K && (nr K =? nc A) && (nc K =? nc A - r) &&
              is_zero (mmul A K) && (rank (mtrans K) =? nc A - r)
  end.

(* Canonical forms used for one-pass comparison (catalogue scripts, C09..C12).
   The pivot columns of A and the unique solution of A X = B that vanishes on the non-pivot rows
   (what solve.c computes: X = Q^T [U^-1 L^-1 (P B)_top ; 0]); B may have more rows than A. *)
Definition x_pivots (R : mat) (r : nat) : list nat :=
  map (fun i => match lowbit (row R i) with Some j => j | None => 0 end) (seq 0 r).
Fixpoint x_index_of (j : nat) (l : list nat) (i : nat) : option nat :=
  match l with [] => None | x :: t => if x =? j then Some i else x_index_of j t (S i) end.
Definition x_canon_solve (A B : mat) : mat :=
  let n := nc A in
  let Bm := msub B 0 0 (nr A) (nc B) in
  let R := rref (mconcat A Bm) in
  let piv := x_pivots R (rank A) in
  mk (nr B) (nc B)
     (map (fun j => match x_index_of j piv 0 with
                    | Some i => N.shiftr (row R i) (N.of_nat n)
                    | None => 0%N end) (seq 0 (nr B))).

(* a basis of the right null space of A as the ROWS of the result: one vector per non-pivot column f,
   with a one at f and, at pivot column p_i, the entry (i, f) of the reduced row echelon form *)
Definition x_kernel_rows (A : mat) : mat :=
  let R := rref A in
  let r := rank A in
  let piv := x_pivots R r in
  let free := filter (fun j => match x_index_of j piv 0 with Some _ => false | None => true end) (seq 0 (nc A)) in
  mk (length free) (nc A)
     (map (fun f => fold_left (fun v ip => if get R (fst ip) f then N.lor v (N.shiftl 1 (N.of_nat (snd ip))) else v)
                              (combine (seq 0 r) piv) (N.shiftl 1 (N.of_nat f))) free).

Cd "extracted".
Extraction "m4model.ml"
  (* Mat *) mk wfb mzero mid madd mmul mtrans msub mstack mconcat get row
  (* Ops *) set_row row_swap row_add_offset row_add row_clear_offset copy_row read_bits xor_bits clear_bits
            write_bit col_swap_in_rows col_swap apply_p_left apply_p_left_trans apply_p_right
            apply_p_right_trans apply_p_right_trans_tri mequal mcmp is_zero first_zero_row find_pivot
            mcopy_into set_ui extract_u extract_l mpaste
  (* Gauss *) gauss_delayed echelonize rref rank
  (* C03 *) x_ple_naive x_pluq_naive x_pluq_of_ple x_ple_rec x_pluq_rec x_compress_l x_ple_ok x_pluq_ok x_crp_of
  (* C04/C05 *) x_trsm_lower_left x_trsm_upper_left x_trsm_upper_right x_trsm_lower_right
            x_trsm_lower_left_rec x_trsm_upper_left_rec x_trsm_upper_right_rec x_trsm_lower_right_rec x_mkcfg
            x_trtri_upper_simple x_trtri_upper_rec x_inv_m4ri_model x_inv_m4ri_faithful x_invert_naive_model
  (* C01 Tier B *) x_m4rm_run x_naive_run
  (* C06/C07 *) x_solve_left_cfg x_pluq_solve_left_model x_kernel_left_cfg x_solve_left_pinned x_pad_rows x_consistent x_solve_ok x_kernel_ok x_canon_solve x_kernel_rows
  (* C18 *) x_png_case x_png_read_case x_png_header_case x_jcf_case x_str_case x_png_write
            x_z_of_N x_z_opp x_z_abs_N x_z_ltb.
Cd "..".
