(* Extract.v — extraction of every executable model run by the correspondence driver.
   ExtrOcamlBasic only: bool, option, unit, list, prod, sumbool map to OCaml's; nat, positive, N, Z
   stay the extracted inductive datatypes (no Extract Constant to OCaml integers). *)
From Coq Require Import Extraction ExtrOcamlBasic List NArith.
From M4 Require Import Base.Bits Lin.Mat Lin.Ops Alg.Gauss.
Extraction Blacklist List String Nat Int.
Cd "extracted".
Extraction "m4model.ml"
  (* Mat *) mk wfb mzero mid madd mmul mtrans msub mstack mconcat get row
  (* Ops *) set_row row_swap row_add_offset row_add row_clear_offset copy_row read_bits xor_bits clear_bits
            write_bit col_swap_in_rows col_swap apply_p_left apply_p_left_trans apply_p_right
            apply_p_right_trans apply_p_right_trans_tri mequal mcmp is_zero first_zero_row find_pivot
            mcopy_into set_ui extract_u extract_l mpaste
  (* Gauss *) gauss_delayed echelonize rref rank.
Cd "..".
