(* Extract.v — extraction of every executable model run by the correspondence driver.
   ExtrOcamlBasic: bool, option, unit, list, prod, sumbool map to OCaml's; nat, positive, N, Z
   stay the extracted inductive datatypes (no Extract Constant to OCaml integers).  ExtrOcamlString:
   the instruction / window names of the generated Strassen schedules (Alg/StrassenGen.v) become
   char lists, so that the extracted file defines no type called [string].

   Names.  Everything is extracted into ONE file; when two Coq modules define the same identifier
   (PLE.radix / TRSM.radix, Ops.write_bit / IO.write_bit, Ops.set_row / IO.set_row ...) the
   extraction renames the later one.  The models of Lin/ and Alg/Gauss.v come first and keep their
   names (ocaml/driver.ml uses them directly); everything added later is reached through the
   wrappers [x_...] below, whose names are unique. *)
From Coq Require Import Extraction ExtrOcamlBasic ExtrOcamlString List NArith ZArith Arith Bool.
From M4 Require Import Base.Bits Lin.Mat Lin.Ops Alg.Gauss.
From M4 Require Lin.Spec Alg.PLE Alg.PLESpec Alg.TRSM Alg.Mul Alg.Solve Sys.IO.
From M4 Require Alg.PLERussian Lin.Combine Alg.TrtriRussian.
From M4 Require Word.WMat Alg.Gray Alg.Strassen Alg.StrassenGen Alg.M4RI Alg.EchelonPLUQ Alg.TRSMRec Alg.DJB.
Import ListNotations.
Extraction Blacklist List String Nat Int.

(* ---- C03: models and VERIFIED checkers (Alg/PLEProofs.v: ple_ok_spec, pluq_ok_spec) ---- *)
Definition x_ple_naive := PLE.ple_naive.
Definition x_pluq_naive := PLE.pluq_naive.
Definition x_pluq_of_ple := PLE.pluq_of_ple.
Definition x_ple_rec := PLE.ple_rec.
Definition x_pluq_rec := PLE.pluq_rec.
Definition x_compress_l := PLE.compress_l.
Definition x_ple_ok := PLESpec.ple_ok.
Definition x_pluq_ok := PLESpec.pluq_ok.
Definition x_crp_of := PLESpec.crp_of.

(* ---- C04 / C05: unique solutions and inverses (Alg/TRSMProofs.v, Alg/InvProofs.v) ---- *)
Definition x_trsm_lower_left := TRSM.trsm_lower_left.
Definition x_trsm_upper_left := TRSM.trsm_upper_left.
Definition x_trsm_upper_right := TRSM.trsm_upper_right.
Definition x_trsm_lower_right := TRSM.trsm_lower_right.
Definition x_trsm_lower_left_rec := TRSM.trsm_lower_left_rec.
Definition x_trsm_upper_left_rec := TRSM.trsm_upper_left_rec.
Definition x_trsm_upper_right_rec := TRSM.trsm_upper_right_rec.
Definition x_trsm_lower_right_rec := TRSM.trsm_lower_right_rec.
Definition x_mkcfg := TRSM.mkcfg.
Definition x_trtri_upper_simple := TRSM.trtri_upper_simple.
Definition x_trtri_upper_rec := TRSM.trtri_upper_rec.
Definition x_inv_m4ri_model := TRSM.inv_m4ri_model.
Definition x_inv_m4ri_faithful := TRSM.inv_m4ri_faithful.
Definition x_invert_naive_model := TRSM.invert_naive_model.

(* ---- C01 (Tier B): faithful models of the cubic and the M4RM route ---- *)
Definition x_m4rm_run := Mul.m4rm_run.
Definition x_naive_run := Mul.naive_run.

(* ---- C18 ---- *)
Definition x_png_case := IO.png_case.
Definition x_png_read_case := IO.png_read_case.
Definition x_png_header_case := IO.png_header_case.
Definition x_jcf_case := IO.jcf_case.
Definition x_str_case := IO.str_case.
Definition x_png_write := IO.png_write.
Definition x_z_of_N := Z.of_N.
Definition x_z_opp := Z.opp.
Definition x_z_abs_N := Z.abs_N.
Definition x_z_ltb := Z.ltb.

(* ---- C06 / C07 (Tier B): faithful models of solve.c, PLUQ = _mzd_pluq with the build's PLE cut-off ---- *)
Definition x_solve_left_cfg := Solve.solve_left_cfg.
Definition x_pluq_solve_left_model := Solve.pluq_solve_left_model.
Definition x_kernel_left_cfg := Solve.kernel_left_cfg.
Definition x_solve_left_pinned := Solve.solve_left_pinned.

(* ---- C06 / C07: Tier-A checkers.
   HOOK.  These are plain compositions of verified pieces (Gauss.rank / rref: rank_canonical,
   rref_canonical; mmul; mequal; is_zero), independent of any solver code.  Alg/Solve.v has no
   executable [solve_ok] / [kernel_ok] of its own yet; when it gets them (proven to reflect the C06 /
   C07 statements), re-point [x_solve_ok] / [x_kernel_ok] at them — nothing else changes. ---- *)

(* A padded with zero rows up to the number of rows of B (= max(m, n)) *)
Definition x_pad_rows (A : mat) (rows_total : nat) : mat :=
  mstack A (mzero (rows_total - nr A) (nc A)).

(* the system  A_pad * X = B  has a solution  <->  rank [A_pad | B] = rank A_pad  (Rouche-Capelli) *)
Definition x_consistent (A B : mat) : bool :=
  let Ap := x_pad_rows A (nr B) in
  rank (mconcat Ap B) =? rank Ap.

(* C06: [ret0] = "the routine returned 0", X = B after the call (max(m,n) rows, the first n are read) *)
Definition x_solve_ok (A B0 X : mat) (ret0 check : bool) : bool :=
  let Ap := x_pad_rows A (nr B0) in
  let cons := x_consistent A B0 in
  let shape := wfb X && (nr X =? nr B0) && (nc X =? nc B0) in
  let sol := mequal (mmul Ap (msub X 0 0 (nc A) (nc X))) B0 in
  if check then (if ret0 then cons && shape && sol else negb cons)
  else ret0 && shape && (if cons then sol else true).

(* C07 *)
Definition x_kernel_ok (A : mat) (K : option mat) : bool :=
  let r := rank A in
  match K with
  | None => r =? nc A
  | Some K => negb (r =? nc A) && wfb K && (nr K =? nc A) && (nc K =? nc A - r) &&
              is_zero (mmul A K) && (rank (mtrans K) =? nc A - r)
  end.

(* Canonical forms used for one-pass comparison (catalogue scripts, C09..C12).
   The pivot columns of A and the unique solution of A X = B that vanishes on the non-pivot rows
   (what solve.c computes: X = Q^T [U^-1 L^-1 (P B)_top ; 0]); B may have more rows than A. *)
Definition x_pivots (R : mat) (r : nat) : list nat :=
  map (fun i => match lowbit (row R i) with Some j => j | None => 0 end) (seq 0 r).
Fixpoint x_index_of (j : nat) (l : list nat) (i : nat) : option nat :=
  match l with [] => None | x :: t => if x =? j then Some i else x_index_of j t (S i) end.
Definition x_canon_solve (A B : mat) : mat :=
  let n := nc A in
  let Bm := msub B 0 0 (nr A) (nc B) in
  let R := rref (mconcat A Bm) in
  let piv := x_pivots R (rank A) in
  mk (nr B) (nc B)
     (map (fun j => match x_index_of j piv 0 with
                    | Some i => N.shiftr (row R i) (N.of_nat n)
                    | None => 0%N end) (seq 0 (nr B))).

(* a basis of the right null space of A as the ROWS of the result: one vector per non-pivot column f,
   with a one at f and, at pivot column p_i, the entry (i, f) of the reduced row echelon form *)
Definition x_kernel_rows (A : mat) : mat :=
  let R := rref A in
  let r := rank A in
  let piv := x_pivots R r in
  let free := filter (fun j => match x_index_of j piv 0 with Some _ => false | None => true end) (seq 0 (nc A)) in
  mk (length free) (nc A)
     (map (fun f => fold_left (fun v ip => if get R (fst ip) f then N.lor v (N.shiftl 1 (N.of_nat (snd ip))) else v)
                              (combine (seq 0 r) piv) (N.shiftl 1 (N.of_nat f))) free).


(* ---------------------------------------------------------------------------------------------
   Tier B: the ALGORITHM-FAITHFUL models, run against the library by tools/props/tierb.py (commands
   tb_* of ocaml/ext.ml).  Every build-dependent constant is an argument and comes from the build under
   test (harness command [consts]):
     blk   = __M4RI_MUL_BLOCKSIZE            (mzd.h:59)       row-block loops, TRSM recursion threshold
     dflt  = __M4RI_STRASSEN_MUL_CUTOFF      (strassen.h:134) cutoff 0 of mzd_mul / mzd_addmul
     pcut  = __M4RI_PLE_CUTOFF               (ple.h:40)       base case of the PLE block recursion
     cfg   = (blk, 2 * L3, SSE2)             (triangular.c)   mzd_trtri_upper recursion / split
   [kf A B] = the table parameter _mzd_mul_m4rm computes for k = 0 from the L2 size and the shape with
   floating point log2/round (brilliantrussian.c:1094-1103): an OCaml closure (ext.ml [m4rm_auto_k]).
   Results: [WMat.res] (Ok | Err Die | Err OOB | Err UB | Err Fuel); the [option]-valued models of
   Alg/Mul.v etc. answer None for "the C call does not return normally". *)
(* [res] as a pair for the driver (the extracted constructor names depend on the extraction order):
   0 = Ok, 1 = Err Die, 2 = Err OOB, 3 = Err UB, 4 = Err Fuel *)
Definition x_tb_unres {T} (r : WMat.res T) : nat * option T :=
  match r with
  | WMat.Ok x => (0, Some x)
  | WMat.Err WMat.Die => (1, None) | WMat.Err WMat.OOB => (2, None)
  | WMat.Err WMat.UB => (3, None) | WMat.Err WMat.Fuel => (4, None)
  end.
Definition x_tb_base (blk : nat) (kf : mat -> mat -> nat) (C A B : mat) (clear : bool) : WMat.res mat :=
  let ka := Z.of_nat (kf A B) in
  match Mul.mul_m4rm_core blk ka 0%Z (Mul.tables_init (Mul.choose_k ka 0%Z)) C A B clear with
  | Some r => WMat.Ok r
  | None => WMat.Err WMat.UB
  end.
Definition x_tb_mul_naive (blk : nat) (Copt : option mat) (A B : mat) : option mat := Mul.mul_naive blk Copt A B.
Definition x_tb_addmul_naive (blk : nat) (C A B : mat) : option mat := Mul.addmul_naive blk C A B.
Definition x_tb_mul_m4rm (blk : nat) (kf : mat -> mat -> nat) (k : nat) (Copt : option mat) (A B : mat) : option mat :=
  let ka := Z.of_nat (kf A B) in let kz := Z.of_nat k in
  Mul.mul_m4rm blk ka kz (Mul.tables_init (Mul.choose_k ka kz)) Copt A B.
Definition x_tb_addmul_m4rm (blk : nat) (kf : mat -> mat -> nat) (k : nat) (C A B : mat) : option mat :=
  let ka := Z.of_nat (kf A B) in let kz := Z.of_nat k in
  Mul.addmul_m4rm blk ka kz (Mul.tables_init (Mul.choose_k ka kz)) C A B.
(* strassen.c with the schedules regenerated from the source by T2 (Alg/StrassenGen.v), base = the M4RM model *)
Definition x_tb_mul (blk : nat) (kf : mat -> mat -> nat) (dflt : nat) (cutoff : Z) (same win : bool)
    (Copt : option mat) (A B : mat) : nat * option mat :=
  x_tb_unres (StrassenGen.mzd_mul_gen (x_tb_base blk kf) dflt cutoff same win Copt A B).
Definition x_tb_addmul (blk : nat) (kf : mat -> mat -> nat) (dflt : nat) (cutoff : Z) (same win : bool)
    (Copt : option mat) (A B : mat) : nat * option mat :=
  x_tb_unres (StrassenGen.mzd_addmul_gen (x_tb_base blk kf) dflt cutoff same win Copt A B).
Definition x_tb_addmul_raw (blk : nat) (kf : mat -> mat -> nat) (dflt : nat) (cutoff : nat) (same win : bool)
    (C A B : mat) : nat * option mat :=
  x_tb_unres (StrassenGen._mzd_addmul_gen (x_tb_base blk kf) dflt cutoff same win C A B).
(* mp.c: the section tasks in program order (one interleaving; MPProofs.mp4_spec: every interleaving agrees) *)
Definition x_tb_mul_mp (blk : nat) (kf : mat -> mat -> nat) (dflt : nat) (cutoff : Z) (Copt : option mat) (A B : mat)
    : nat * option mat :=
  x_tb_unres (StrassenGen.mzd_mul_mp_gen (x_tb_base blk kf) dflt
    (List.concat (Strassen.mp_sections (StrassenGen.gen_mp false))) cutoff Copt A B).
Definition x_tb_addmul_mp (blk : nat) (kf : mat -> mat -> nat) (dflt : nat) (cutoff : Z) (Copt : option mat) (A B : mat)
    : nat * option mat :=
  x_tb_unres (StrassenGen.mzd_addmul_mp_gen (x_tb_base blk kf) dflt
    (List.concat (Strassen.mp_sections (StrassenGen.gen_mp true))) cutoff Copt A B).
(* djb.c: the op list (target, source, srctyp = source_source) and its application *)
Definition x_tb_djb_compile (A : mat) : option (list (nat * nat * bool)) := DJB.djb_compile_run A.
Definition x_tb_djb_apply (ops : list (nat * nat * bool)) (W V : mat) : option mat := DJB.djb_apply_run ops W V.
(* mzd_make_table from arbitrary previous contents of T (rows incl. the padding of the last word) and L *)
Definition x_tb_make_table (M : mat) (r c k : nat) (T0 : list N) (L0 : list nat) : list N * list nat :=
  Gray.make_table M r c k T0 L0.
(* C02: brilliantrussian.c / echelonform.c *)
Definition x_tb_m4ri (k : nat) (full : bool) (A : mat) : option (nat * mat) := M4RI.m4ri_run k full A.
Definition x_tb_top (k : nat) (A : mat) : option mat := M4RI.top_run k A.
Definition x_tb_echelon_pluq (pcut : nat) (full : bool) (A : mat) : nat * mat :=
  EchelonPLUQ.echelon_pluq
    (fun A => PLE.pluq_rec PLE.ple_naive pcut A (seq 0 (nr A)) (seq 0 (nc A)))
    (fun A => PLE.ple_rec PLE.ple_naive pcut A (seq 0 (nr A)) (seq 0 (nc A)))
    TRSM.trsm_upper_left full A.
Definition x_tb_hybrid (pcut k ktop : nat) (oracle : nat -> bool) (full : bool) (A : mat) : option (nat * mat) :=
  M4RI.m4ri_model (x_tb_echelon_pluq pcut) k ktop oracle full A.
(* C04 / C05: triangular.c, triangular_russian.c with the word base cases and the Four-Russians middle regime *)
Definition x_tb_trsm_lower_left := TRSMRec.trsm_lower_left_rec_f.
Definition x_tb_trsm_upper_left := TRSMRec.trsm_upper_left_rec_f.
Definition x_tb_trsm_upper_right := TRSMRec.trsm_upper_right_rec_f.
Definition x_tb_trsm_lower_right := TRSMRec.trsm_lower_right_rec_f.
Definition x_tb_trtri := TRSMRec.trtri_upper_rec_f.
(* mzd_inv_m4ri as the code runs it (TRSM.inv_m4ri_faithful), the echelon form by the M4RI model with the k the
   library chooses for the n x 2*64*width work matrix *)
Definition x_tb_inv_m4ri (k : nat) (A : mat) : option mat :=
  let n := nr A in
  let w := TRSM.pad64 (nc A) in
  let AW := mconcat A (mzero n (w - nc A)) in
  let IW := mconcat (mid n) (mzero n (w - n)) in
  match M4RI.m4ri_run k true (mconcat AW IW) with
  | Some (_, R) => Some (msub R 0 w n n)
  | None => None
  end.
Definition x_z_of_nat := Z.of_nat.

(* ---- Tier B, C05: the Four-Russians base routine of triangular inversion (Alg/TrtriRussian.v; Properties_C05.v) ---- *)
Definition x_tb_trtri_russian := TrtriRussian.trtri_upper_russian.
Definition x_tb_trtri_fr := TrtriRussian.trtri_upper_rec_fr.

(* ---- C13: row combination from word offsets (Lin/Combine.v; theorems in Properties_C13.v) ---- *)
Definition x_combine := Combine.combine.

(* ---- Tier B, C03: the Four-Russians base case ple_russian.c (Alg/PLERussian.v; theorems in Properties_C03r.v) ---- *)
Definition x_tb_ple_russian := PLERussian.ple_russian.
Definition x_tb_pluq_russian := PLERussian.pluq_russian.

Cd "extracted".
Extraction "m4model.ml"
  (* Mat *) mk wfb mzero mid madd mmul mtrans msub mstack mconcat get row
  (* Ops *) set_row row_swap row_add_offset row_add row_clear_offset copy_row read_bits xor_bits clear_bits
            write_bit col_swap_in_rows col_swap apply_p_left apply_p_left_trans apply_p_right
            apply_p_right_trans apply_p_right_trans_tri mequal mcmp is_zero first_zero_row find_pivot
            mcopy_into set_ui extract_u extract_l mpaste
  (* Gauss *) gauss_delayed echelonize rref rank
  (* C03 *) x_ple_naive x_pluq_naive x_pluq_of_ple x_ple_rec x_pluq_rec x_compress_l x_ple_ok x_pluq_ok x_crp_of
  (* C04/C05 *) x_trsm_lower_left x_trsm_upper_left x_trsm_upper_right x_trsm_lower_right
            x_trsm_lower_left_rec x_trsm_upper_left_rec x_trsm_upper_right_rec x_trsm_lower_right_rec x_mkcfg
            x_trtri_upper_simple x_trtri_upper_rec x_inv_m4ri_model x_inv_m4ri_faithful x_invert_naive_model
  (* C01 Tier B *) x_m4rm_run x_naive_run
  (* C06/C07 *) x_solve_left_cfg x_pluq_solve_left_model x_kernel_left_cfg x_solve_left_pinned x_pad_rows x_consistent x_solve_ok x_kernel_ok x_canon_solve x_kernel_rows
  (* C18 *) x_png_case x_png_read_case x_png_header_case x_jcf_case x_str_case x_png_write
            x_z_of_N x_z_opp x_z_abs_N x_z_ltb
  (* Tier B *) x_tb_base x_tb_mul_naive x_tb_addmul_naive x_tb_mul_m4rm x_tb_addmul_m4rm x_tb_mul x_tb_addmul x_tb_addmul_raw
            x_tb_mul_mp x_tb_addmul_mp x_tb_djb_compile x_tb_djb_apply x_tb_make_table x_tb_m4ri x_tb_top
            x_tb_echelon_pluq x_tb_hybrid x_tb_trsm_lower_left x_tb_trsm_upper_left x_tb_trsm_upper_right
            x_tb_trsm_lower_right x_tb_trtri x_tb_inv_m4ri x_z_of_nat x_tb_ple_russian x_tb_pluq_russian x_combine x_tb_trtri_russian x_tb_trtri_fr.
Cd "..".
