(* Lin/Span.v — theory of [vmul] and the row space of a [mat] (Lin/Spec.v definitions):
   linearity, row-space inclusion as a preorder, [row_equiv] as an equivalence relation,
   invariance of the row space under the elementary row operations of Lin/Ops.v and under
   the elimination step of Alg/Gauss.v, and under left multiplication by an invertible matrix.
   Part of property C02. *)
From Coq Require Import List NArith Arith Lia Bool Sorted.
From M4 Require Import Base.Bits Lin.Mat Lin.MatAlg Lin.Ops Lin.Spec Alg.Gauss.
Import ListNotations.
Local Open Scope nat_scope.

(** * Small boolean / xsum helpers *)
Lemma xsum_true_ex n f : xsum n f = true -> exists k, k < n /\ f k = true.
Proof.
  induction n as [|n IH]; cbn [xsum]; intros H; [discriminate|].
  destruct (f n) eqn:Hf.
  - exists n. split; [lia|assumption].
  - rewrite xorb_false_r in H. destruct (IH H) as [k [Hk Hfk]]. exists k. split; [lia|assumption].
Qed.

(** least witness of a decidable predicate below a bound *)
Lemma least_witness (P : nat -> bool) n :
  (exists k0, k0 < n /\ P k0 = true /\ forall k, k < k0 -> P k = false) \/
  (forall k, k < n -> P k = false).
Proof.
  induction n as [|n IH].
  - right. intros k Hk. lia.
  - destruct IH as [[k0 [Hk0 [Hp Hmin]]]|Hnone].
    + left. exists k0. repeat split; [lia|assumption|assumption].
    + destruct (P n) eqn:Hn.
      * left. exists n. repeat split; [lia|assumption|assumption].
      * right. intros k Hk. destruct (Nat.eq_dec k n) as [->|Hne]; [assumption|apply Hnone; lia].
Qed.

(** * list update, [set_row], [map_rows] *)
Lemma upd_length {A} i (x : A) l : length (upd i x l) = length l.
Proof.
  revert i; induction l as [|h t IH]; intros [|i]; cbn [upd length]; try reflexivity.
  now rewrite IH.
Qed.

Lemma nth_upd {A} i k (x d : A) l :
  nth i (upd k x l) d = if (i =? k) && (k <? length l) then x else nth i l d.
Proof.
  revert i k; induction l as [|h t IH]; intros i k.
  - assert (E : upd k x (@nil A) = []) by (destruct k; reflexivity). rewrite E. cbn [length].
    destruct (Nat.ltb_spec k 0); [lia|]. now rewrite andb_false_r.
  - destruct k as [|k]; cbn [upd length].
    + destruct i as [|i]; cbn [nth].
      * destruct (Nat.eqb_spec 0 0); [|lia]. destruct (Nat.ltb_spec 0 (S (length t))); [reflexivity|lia].
      * destruct (Nat.eqb_spec (S i) 0); [lia|reflexivity].
    + destruct i as [|i]; cbn [nth].
      * destruct (Nat.eqb_spec 0 (S k)); [lia|reflexivity].
      * rewrite IH. destruct (Nat.eqb_spec i k), (Nat.eqb_spec (S i) (S k)); try lia;
        destruct (Nat.ltb_spec k (length t)), (Nat.ltb_spec (S k) (S (length t))); try lia; reflexivity.
Qed.

Lemma row_set_row M k r i :
  row (set_row M k r) i = if (i =? k) && (k <? length (rows M)) then r else row M i.
Proof. unfold row, set_row. cbn [rows]. apply nth_upd. Qed.

Lemma rows_set_row_length M k r : length (rows (set_row M k r)) = length (rows M).
Proof. unfold set_row. cbn [rows]. apply upd_length. Qed.

Lemma nr_set_row M k r : nr (set_row M k r) = nr M. Proof. reflexivity. Qed.
Lemma nc_set_row M k r : nc (set_row M k r) = nc M. Proof. reflexivity. Qed.

Lemma wf_of_rows M : length (rows M) = nr M -> (forall i, bounded (nc M) (row M i)) -> wf M.
Proof.
  intros Hl Hb. split; [exact Hl|]. apply Forall_forall. intros x Hx.
  destruct (In_nth _ _ 0%N Hx) as [i [_ <-]]. apply Hb.
Qed.

Lemma wf_set_row M k r : wf M -> bounded (nc M) r -> wf (set_row M k r).
Proof.
  intros HM Hr. apply wf_of_rows.
  - rewrite rows_set_row_length. cbn [nr set_row]. now apply wf_len.
  - intros i. rewrite row_set_row. cbn [nc set_row].
    destruct ((i =? k) && (k <? length (rows M))); [assumption|now apply wf_row_bounded].
Qed.

Lemma mapi_from_length {A B} (f : nat -> A -> B) s l : length (mapi_from f s l) = length l.
Proof. revert s; induction l as [|h t IH]; intros s; cbn [mapi_from length]; [reflexivity|now rewrite IH]. Qed.

Lemma nth_mapi_from {A B} (f : nat -> A -> B) s l i d d' :
  i < length l -> nth i (mapi_from f s l) d' = f (s + i) (nth i l d).
Proof.
  revert s i; induction l as [|h t IH]; intros s i Hi; cbn [length] in Hi; [lia|].
  cbn [mapi_from]. destruct i as [|i]; cbn [nth].
  - now rewrite Nat.add_0_r.
  - rewrite (IH (S s) i) by lia. f_equal. lia.
Qed.

Lemma rows_map_rows_length f M : length (rows (map_rows f M)) = length (rows M).
Proof. unfold map_rows. cbn [rows]. apply mapi_from_length. Qed.

Lemma row_map_rows f M i :
  row (map_rows f M) i = if i <? length (rows M) then f i (row M i) else 0%N.
Proof.
  unfold row, map_rows. cbn [rows]. destruct (Nat.ltb_spec i (length (rows M))) as [Hi|Hi].
  - now rewrite (nth_mapi_from f 0 (rows M) i 0%N 0%N Hi).
  - apply nth_overflow. now rewrite mapi_from_length.
Qed.

Lemma wf_map_rows f M : wf M -> (forall i r, bounded (nc M) r -> bounded (nc M) (f i r)) ->
  wf (map_rows f M).
Proof.
  intros HM Hf. apply wf_of_rows.
  - rewrite rows_map_rows_length. cbn [nr map_rows]. now apply wf_len.
  - intros i. rewrite row_map_rows. cbn [nc map_rows].
    destruct (i <? length (rows M)); [apply Hf; now apply wf_row_bounded|apply bounded_0].
Qed.

Lemma row_overflow M i : length (rows M) <= i -> row M i = 0%N.
Proof. intros H. unfold row. now apply nth_overflow. Qed.

Lemma row_nonzero_lt M i : row M i <> 0%N -> i < length (rows M).
Proof.
  intros H. destruct (Nat.lt_ge_cases i (length (rows M))); [assumption|].
  exfalso. apply H. now apply row_overflow.
Qed.

(** * [colmask] *)
Lemma testbit_colmask c0 c1 j :
  N.testbit (colmask c0 c1) (N.of_nat j) = (c0 <=? j) && (j <? c1).
Proof.
  unfold colmask. rewrite testbit_shiftl_nat, testbit_ones_nat.
  destruct (Nat.leb_spec c0 j); cbn [andb]; [|reflexivity].
  destruct (Nat.ltb_spec (j - c0) (c1 - c0)), (Nat.ltb_spec j c1); try lia; reflexivity.
Qed.

Lemma land_colmask_id n c r : bounded n r ->
  (forall j, j < c -> N.testbit r (N.of_nat j) = false) -> N.land r (colmask c n) = r.
Proof.
  intros Hb Hz. apply bits_ext_nat. intros j. rewrite N.land_spec, testbit_colmask.
  destruct (Nat.leb_spec c j); cbn [andb].
  - destruct (Nat.ltb_spec j n); [apply andb_true_r|]. rewrite Hb by assumption. reflexivity.
  - rewrite Hz by assumption. reflexivity.
Qed.

(** * [vmul]: linearity and bit characterisation *)
Lemma vmul_0 M : vmul 0 M = 0%N.
Proof. apply mul_row_0. Qed.

Lemma vmul_lxor a b M : vmul (N.lxor a b) M = N.lxor (vmul a M) (vmul b M).
Proof. apply mul_row_lxor. Qed.

Lemma testbit_vmul c M j :
  N.testbit (vmul c M) (N.of_nat j) =
  xsum (length (rows M)) (fun k => N.testbit c (N.of_nat k) && get M k j).
Proof. apply testbit_mul_row. Qed.

Lemma mul_row_pow2 rs i : mul_row (2 ^ N.of_nat i) rs = nth i rs 0%N.
Proof.
  apply bits_ext_nat. intros j. rewrite testbit_mul_row.
  destruct (Nat.lt_ge_cases i (length rs)) as [Hi|Hi].
  - rewrite (xsum_single _ _ i Hi).
    + rewrite testbit_pow2_nat, Nat.eqb_refl. reflexivity.
    + intros k _ Hne. rewrite testbit_pow2_nat. destruct (Nat.eqb_spec i k); [congruence|reflexivity].
  - rewrite nth_overflow by assumption. rewrite N.bits_0. apply xsum_zero. intros k Hk.
    rewrite testbit_pow2_nat. destruct (Nat.eqb_spec i k); [lia|reflexivity].
Qed.

(** the combination selecting the single row i is that row *)
Lemma vmul_pow2 M i : vmul (2 ^ N.of_nat i) M = row M i.
Proof. apply mul_row_pow2. Qed.

Lemma bounded_vmul c M : wf M -> bounded (nc M) (vmul c M).
Proof. intros [_ Hb]. now apply bounded_mul_row. Qed.

(** coefficients beyond the number of rows do not matter *)
Lemma vmul_ext c c' M :
  (forall k, k < length (rows M) -> N.testbit c (N.of_nat k) = N.testbit c' (N.of_nat k)) ->
  vmul c M = vmul c' M.
Proof.
  intros H. apply bits_ext_nat. intros j. rewrite !testbit_vmul. apply xsum_ext.
  intros k Hk. now rewrite H.
Qed.

Lemma vmul_truncate c M : vmul c M = vmul (N.land c (N.ones (N.of_nat (length (rows M))))) M.
Proof.
  apply vmul_ext. intros k Hk. rewrite N.land_spec, testbit_ones_nat.
  destruct (Nat.ltb_spec k (length (rows M))); [now rewrite andb_true_r|lia].
Qed.

(** a GF(2)-linear functional that vanishes on all rows vanishes on every combination *)
Lemma mul_row_linear (F : N -> bool) :
  F 0%N = false -> (forall a b, F (N.lxor a b) = xorb (F a) (F b)) ->
  forall rs c, (forall r, In r rs -> F r = false) -> F (mul_row c rs) = false.
Proof.
  intros F0 Fx rs. induction rs as [|r rs IH]; intros c H; cbn [mul_row]; [exact F0|].
  rewrite Fx, IH by (intros r' Hr'; apply H; now right).
  destruct (N.odd c); [|now rewrite F0]. rewrite H by now left. reflexivity.
Qed.

(** the same for a property closed under xor *)
Lemma mul_row_closed (P : N -> Prop) :
  P 0%N -> (forall a b, P a -> P b -> P (N.lxor a b)) ->
  forall rs c, (forall r, In r rs -> P r) -> P (mul_row c rs).
Proof.
  intros P0 Px rs. induction rs as [|r rs IH]; intros c H; cbn [mul_row]; [exact P0|].
  apply Px.
  - destruct (N.odd c); [apply H; now left|exact P0].
  - apply IH. intros r' Hr'. apply H. now right.
Qed.

(** * Row space *)
Lemma in_rowspace_0 M : in_rowspace 0%N M.
Proof. exists 0%N. apply vmul_0. Qed.

Lemma in_rowspace_lxor M u v : in_rowspace u M -> in_rowspace v M -> in_rowspace (N.lxor u v) M.
Proof. intros [a <-] [b <-]. exists (N.lxor a b). apply vmul_lxor. Qed.

Lemma in_rowspace_vmul c M : in_rowspace (vmul c M) M.
Proof. now exists c. Qed.

Lemma in_rowspace_row M i : in_rowspace (row M i) M.
Proof. exists (2 ^ N.of_nat i)%N. apply vmul_pow2. Qed.

Lemma in_rowspace_mul_row rs c M :
  (forall r, In r rs -> in_rowspace r M) -> in_rowspace (mul_row c rs) M.
Proof.
  apply (mul_row_closed (fun v => in_rowspace v M)); [apply in_rowspace_0|apply in_rowspace_lxor].
Qed.

Lemma in_rowspace_bounded v M : wf M -> in_rowspace v M -> bounded (nc M) v.
Proof. intros HM [c <-]. now apply bounded_vmul. Qed.

(** [rs_incl A M] iff every row of A lies in the row space of M *)
Lemma rs_incl_rows A M : (forall i, i < length (rows A) -> in_rowspace (row A i) M) -> rs_incl A M.
Proof.
  intros H c. unfold vmul at 1. apply in_rowspace_mul_row. intros r Hr.
  destruct (In_nth _ _ 0%N Hr) as [i [Hi <-]]. now apply H.
Qed.

Lemma rs_incl_row A M i : rs_incl A M -> in_rowspace (row A i) M.
Proof. intros H. rewrite <- vmul_pow2. apply H. Qed.

Lemma rs_incl_rows_iff A M :
  rs_incl A M <-> (forall i, i < length (rows A) -> in_rowspace (row A i) M).
Proof. split; [intros H i _; now apply rs_incl_row|apply rs_incl_rows]. Qed.

Lemma rs_incl_rows_iff_wf A M : wf A ->
  (rs_incl A M <-> (forall i, i < nr A -> in_rowspace (row A i) M)).
Proof. intros HA. rewrite rs_incl_rows_iff, (wf_len A HA). reflexivity. Qed.

Lemma in_rowspace_incl v A M : in_rowspace v A -> rs_incl A M -> in_rowspace v M.
Proof. intros [c <-] H. apply H. Qed.

(** inclusion of row spaces is a preorder *)
Lemma rs_incl_refl A : rs_incl A A.
Proof. intros c. apply in_rowspace_vmul. Qed.

Lemma rs_incl_trans A B C : rs_incl A B -> rs_incl B C -> rs_incl A C.
Proof. intros HAB HBC c. apply (in_rowspace_incl _ B); [apply HAB|exact HBC]. Qed.

(** [rs_incl] really is inclusion of the sets of row-space vectors *)
Lemma rs_incl_spec A M : rs_incl A M <-> (forall v, in_rowspace v A -> in_rowspace v M).
Proof.
  split.
  - intros H v Hv. now apply (in_rowspace_incl v A).
  - intros H c. apply H, in_rowspace_vmul.
Qed.

(** [row_equiv] is an equivalence relation *)
Lemma row_equiv_refl A : row_equiv A A.
Proof. repeat split; apply rs_incl_refl. Qed.

Lemma row_equiv_sym A B : row_equiv A B -> row_equiv B A.
Proof. intros [Hr [Hc [H1 H2]]]. repeat split; auto. Qed.

Lemma row_equiv_trans A B C : row_equiv A B -> row_equiv B C -> row_equiv A C.
Proof.
  intros [Hr [Hc [H1 H2]]] [Hr' [Hc' [H1' H2']]]. repeat split; try congruence.
  - now apply (rs_incl_trans A B C).
  - now apply (rs_incl_trans C B A).
Qed.

Lemma row_equiv_in_rowspace A B v : row_equiv A B -> (in_rowspace v A <-> in_rowspace v B).
Proof.
  intros [_ [_ [H1 H2]]]. split; intros H; [now apply (in_rowspace_incl v A)|now apply (in_rowspace_incl v B)].
Qed.

(** * Products: the row space of X*A lies in that of A, with equality for invertible X *)
Lemma vmul_mmul c X A : vmul c (mmul X A) = vmul (vmul c X) A.
Proof. unfold vmul, mmul. cbn [rows]. symmetry. apply mul_row_mul_row. Qed.

Lemma rs_incl_mmul X A : rs_incl (mmul X A) A.
Proof. intros c. rewrite vmul_mmul. apply in_rowspace_vmul. Qed.

Lemma rs_incl_mmul_inv X A : wf A -> invertible X -> nc X = nr A -> rs_incl A (mmul X A).
Proof.
  intros HA [Hsq [B [HB [HrB [HcB [_ HBX]]]]]] Hd c.
  assert (E : A = mmul B (mmul X A)).
  { rewrite <- mmul_assoc, HBX, Hsq, Hd. symmetry. now apply mmul_id_l. }
  rewrite E at 1. rewrite vmul_mmul. apply in_rowspace_vmul.
Qed.

Lemma row_equiv_mmul_inv X A : wf A -> invertible X -> nc X = nr A -> row_equiv A (mmul X A).
Proof.
  intros HA HX Hd. pose proof HX as [Hsq _]. repeat split.
  - cbn [nr mmul]. congruence.
  - now apply rs_incl_mmul_inv.
  - apply rs_incl_mmul.
Qed.

(** * Row operations preserve the row space *)

(** adding (or not, as [b i] says) row p to row i, for all i at once *)
Lemma rs_incl_addrows M M' p (b : nat -> bool) :
  (forall i, row M' i = N.lxor (row M i) (if b i then row M p else 0%N)) -> rs_incl M' M.
Proof.
  intros H. apply rs_incl_rows. intros i _. rewrite H. apply in_rowspace_lxor.
  - apply in_rowspace_row.
  - destruct (b i); [apply in_rowspace_row|apply in_rowspace_0].
Qed.

Lemma lxor_cancel_r a b : N.lxor (N.lxor a b) b = a.
Proof. now rewrite N.lxor_assoc, N.lxor_nilpotent, N.lxor_0_r. Qed.

Lemma row_equiv_addrows M M' p (b : nat -> bool) :
  nr M = nr M' -> nc M = nc M' -> b p = false ->
  (forall i, row M' i = N.lxor (row M i) (if b i then row M p else 0%N)) -> row_equiv M M'.
Proof.
  intros Hr Hc Hbp H. repeat split; try assumption.
  - apply (rs_incl_addrows M' M p b). intros i.
    assert (Hp : row M' p = row M p) by (rewrite H, Hbp; apply N.lxor_0_r).
    rewrite Hp, H. symmetry. apply lxor_cancel_r.
  - now apply (rs_incl_addrows M M' p b).
Qed.

(** replacing a row *)
Lemma rs_incl_set_row M k r : in_rowspace r M -> rs_incl (set_row M k r) M.
Proof.
  intros Hr. apply rs_incl_rows. intros i _. rewrite row_set_row.
  destruct ((i =? k) && (k <? length (rows M))); [assumption|apply in_rowspace_row].
Qed.

Lemma row_equiv_set_row M k r :
  in_rowspace r M -> in_rowspace (row M k) (set_row M k r) -> row_equiv M (set_row M k r).
Proof.
  intros Hr Hk. repeat split.
  - apply rs_incl_rows. intros i _. destruct (Nat.eq_dec i k) as [->|Hne]; [assumption|].
    replace (row M i) with (row (set_row M k r) i); [apply in_rowspace_row|].
    rewrite row_set_row. destruct (Nat.eqb_spec i k); [contradiction|reflexivity].
  - now apply rs_incl_set_row.
Qed.

(** adding a row-space vector to a row *)
Lemma row_equiv_set_row_add M k v :
  (exists c, N.testbit c (N.of_nat k) = false /\ vmul c M = v) ->
  row_equiv M (set_row M k (N.lxor (row M k) v)).
Proof.
  intros [c [Hck Hv]].
  destruct (Nat.lt_ge_cases k (length (rows M))) as [Hk|Hk].
  - apply row_equiv_set_row.
    + apply in_rowspace_lxor; [apply in_rowspace_row|now exists c].
    + (* row M k = new row k + v, and v only uses the unchanged rows *)
      set (M' := set_row M k (N.lxor (row M k) v)).
      assert (Hv' : vmul c M' = v).
      { rewrite <- Hv. apply bits_ext_nat. intros j. rewrite !testbit_vmul.
        unfold M'. rewrite rows_set_row_length. apply xsum_ext. intros i Hi.
        destruct (Nat.eq_dec i k) as [->|Hne]; [now rewrite Hck|].
        unfold get. rewrite row_set_row. destruct (Nat.eqb_spec i k); [contradiction|reflexivity]. }
      replace (row M k) with (N.lxor (row M' k) v).
      * apply in_rowspace_lxor; [apply in_rowspace_row|now exists c].
      * unfold M'. rewrite row_set_row, Nat.eqb_refl.
        destruct (Nat.ltb_spec k (length (rows M))); [|lia]. cbn [andb]. apply lxor_cancel_r.
  - (* out of range: nothing changes *)
    assert (E : rows (set_row M k (N.lxor (row M k) v)) = rows M).
    { apply (list_ext_nth 0%N); [apply upd_length|]. intros i _.
      change (row (set_row M k (N.lxor (row M k) v)) i = row M i). rewrite row_set_row.
      destruct (Nat.ltb_spec k (length (rows M))); [lia|]. now rewrite andb_false_r. }
    repeat split; intros x; exists x; unfold vmul; now rewrite E.
Qed.

(** row swap *)
Lemma row_row_swap M a b i : a < length (rows M) -> b < length (rows M) ->
  row (row_swap M a b) i = if i =? b then row M a else if i =? a then row M b else row M i.
Proof.
  intros Ha Hb. unfold row_swap. rewrite row_set_row, rows_set_row_length, row_set_row.
  destruct (Nat.ltb_spec b (length (rows M))); [|lia].
  destruct (Nat.ltb_spec a (length (rows M))); [|lia].
  now rewrite !andb_true_r.
Qed.

Lemma rows_row_swap_length M a b : length (rows (row_swap M a b)) = length (rows M).
Proof. unfold row_swap. now rewrite !rows_set_row_length. Qed.

Lemma nr_row_swap M a b : nr (row_swap M a b) = nr M. Proof. reflexivity. Qed.
Lemma nc_row_swap M a b : nc (row_swap M a b) = nc M. Proof. reflexivity. Qed.

Lemma wf_row_swap M a b : wf M -> wf (row_swap M a b).
Proof.
  intros HM. unfold row_swap. apply wf_set_row; [apply wf_set_row; [assumption|]|];
    cbn [nc set_row]; now apply wf_row_bounded.
Qed.

Lemma row_equiv_row_swap M a b : a < length (rows M) -> b < length (rows M) ->
  row_equiv M (row_swap M a b).
Proof.
  intros Ha Hb. repeat split.
  - apply rs_incl_rows. intros i _.
    destruct (Nat.eq_dec i a) as [->|Hna].
    + replace (row M a) with (row (row_swap M a b) b); [apply in_rowspace_row|].
      rewrite row_row_swap by assumption. now rewrite Nat.eqb_refl.
    + destruct (Nat.eq_dec i b) as [->|Hnb].
      * replace (row M b) with (row (row_swap M a b) a); [apply in_rowspace_row|].
        rewrite row_row_swap by assumption. rewrite Nat.eqb_refl.
        destruct (Nat.eqb_spec a b); [now subst|reflexivity].
      * replace (row M i) with (row (row_swap M a b) i); [apply in_rowspace_row|].
        rewrite row_row_swap by assumption.
        destruct (Nat.eqb_spec i b); [contradiction|]. destruct (Nat.eqb_spec i a); [contradiction|reflexivity].
  - apply rs_incl_rows. intros i _. rewrite row_row_swap by assumption.
    destruct (i =? b); [|destruct (i =? a)]; apply in_rowspace_row.
Qed.

(** mzd_row_add_offset: the masked source row is the whole source row when it vanishes before c0 *)
Lemma row_equiv_row_add_offset M dst src c0 : wf M -> dst <> src ->
  (forall j, j < c0 -> get M src j = false) ->
  row_equiv M (row_add_offset M dst src c0).
Proof.
  intros HM Hne Hz. unfold row_add_offset.
  rewrite (land_colmask_id (nc M) c0 (row M src)); [|now apply wf_row_bounded|exact Hz].
  apply row_equiv_set_row_add. exists (2 ^ N.of_nat src)%N. split; [|apply vmul_pow2].
  rewrite testbit_pow2_nat. destruct (Nat.eqb_spec src dst); [congruence|reflexivity].
Qed.

(** * The elimination step of Alg/Gauss.v *)
Definition elim_cond (full : bool) (M : mat) (p c i : nat) : bool :=
  (i <? length (rows M)) && (negb (i =? p) && (full || (p <? i)) && get M i c).

Lemma row_eliminate full M p c i :
  row (eliminate full M p c) i =
  N.lxor (row M i) (if elim_cond full M p c i then N.land (row M p) (colmask c (nc M)) else 0%N).
Proof.
  unfold eliminate, elim_cond. rewrite row_map_rows.
  destruct (Nat.ltb_spec i (length (rows M))) as [Hi|Hi]; cbn [andb].
  - unfold get. destruct (negb (i =? p) && (full || (p <? i)) && N.testbit (row M i) (N.of_nat c));
      [reflexivity|now rewrite N.lxor_0_r].
  - now rewrite row_overflow, N.lxor_0_r by assumption.
Qed.

Lemma elim_cond_pivot full M p c : elim_cond full M p c p = false.
Proof. unfold elim_cond. rewrite Nat.eqb_refl. cbn [negb andb]. apply andb_false_r. Qed.

Lemma rows_eliminate_length full M p c : length (rows (eliminate full M p c)) = length (rows M).
Proof. unfold eliminate. apply rows_map_rows_length. Qed.

Lemma nr_eliminate full M p c : nr (eliminate full M p c) = nr M. Proof. reflexivity. Qed.
Lemma nc_eliminate full M p c : nc (eliminate full M p c) = nc M. Proof. reflexivity. Qed.

Lemma wf_eliminate full M p c : wf M -> wf (eliminate full M p c).
Proof.
  intros HM. unfold eliminate. apply wf_map_rows; [assumption|]. intros i r Hr.
  destruct (negb (i =? p) && (full || (p <? i)) && N.testbit r (N.of_nat c)); [|assumption].
  apply bounded_lxor; [assumption|]. apply bounded_land_l. now apply wf_row_bounded.
Qed.

(** when the pivot row vanishes before column c (as it does whenever the model calls it) the
    masked row addition of [eliminate] is a genuine row addition: the row space is unchanged *)
Lemma row_equiv_eliminate full M p c : wf M ->
  (forall j, j < c -> get M p j = false) -> row_equiv M (eliminate full M p c).
Proof.
  intros HM Hz. apply (row_equiv_addrows M _ p (elim_cond full M p c)); try reflexivity.
  - apply elim_cond_pivot.
  - intros i. rewrite row_eliminate.
    rewrite (land_colmask_id (nc M) c (row M p)); [reflexivity|now apply wf_row_bounded|exact Hz].
Qed.
