(* Lin/Perm.v — C13 (matrix level): LAPACK-style permutation application.
   (a) the four applications are swap loops in the stated order;
   (b) left and right application multiply by the SAME permutation matrix [pmat n P];
   (c) each application is undone by its transposed counterpart;
   (d) the 'triangular' transposed right application performs swap i only on the rows above row i;
   (e) the gather kernel of _mzd_apply_p_right_even (explicit index array + write mask of fixed
       points + gather of the columns < length) implements the column-swap semantics — exactly
       when every P[i] < MIN(length P, ncols); otherwise it loses columns (finding, see
       [gather_short_refuted]).
   No axioms. *)
From Coq Require Import List NArith Arith Lia Bool.
From M4 Require Import Base.Bits Lin.Mat Lin.MatAlg Lin.Ops Lin.Spec Lin.OpsProofs.
Import ListNotations.
Local Open Scope nat_scope.

Ltac splits := repeat match goal with |- _ /\ _ => split end.

(** * generic fold lemmas *)
Lemma fold_left_ind {X I} (Q : X -> Prop) (f : X -> I -> X) l :
  (forall x i, In i l -> Q x -> Q (f x i)) -> forall x, Q x -> Q (fold_left f l x).
Proof.
  induction l as [|a l IH]; intros H x Hx; cbn [fold_left]; [assumption|].
  apply IH; [intros; apply H; [now right|assumption]|apply H; [now left|assumption]].
Qed.

Lemma fold_left_rel {X Y I} (R : X -> Y -> Prop) (f : X -> I -> X) (g : Y -> I -> Y) l :
  (forall x y i, In i l -> R x y -> R (f x i) (g y i)) ->
  forall x y, R x y -> R (fold_left f l x) (fold_left g l y).
Proof.
  induction l as [|a l IH]; intros H x y Hxy; cbn [fold_left]; [assumption|].
  apply IH; [intros; apply H; [now right|assumption]|apply H; [now left|assumption]].
Qed.

Lemma fold_left_ext_in {X I} (f g : X -> I -> X) l :
  (forall x i, In i l -> f x i = g x i) -> forall x, fold_left f l x = fold_left g l x.
Proof.
  induction l as [|a l IH]; intros H x; cbn [fold_left]; [reflexivity|].
  rewrite H by now left. apply IH. intros; apply H; now right.
Qed.

(** a fold of involutions is undone by the fold in the reverse order *)
Lemma fold_undo {X I} (Q : X -> Prop) (f : X -> I -> X) l :
  (forall x i, In i l -> Q x -> Q (f x i) /\ f (f x i) i = x) ->
  forall x, Q x -> fold_left f (rev l) (fold_left f l x) = x.
Proof.
  induction l as [|a l IH]; intros H x Hx; [reflexivity|].
  cbn [fold_left rev]. rewrite fold_left_app. cbn [fold_left]. rewrite IH.
  - apply H; [now left|assumption].
  - intros; apply H; [now right|assumption].
  - apply H; [now left|assumption].
Qed.

Lemma fold_undo_rev {X I} (Q : X -> Prop) (f : X -> I -> X) l :
  (forall x i, In i l -> Q x -> Q (f x i) /\ f (f x i) i = x) ->
  forall x, Q x -> fold_left f l (fold_left f (rev l) x) = x.
Proof.
  intros H x Hx. rewrite <- (rev_involutive l) at 1. apply (fold_undo Q); [|assumption].
  intros y i Hi. apply H. now apply in_rev.
Qed.

(** ascending loop: the LAST swap performed is the one with the highest index;
    descending loop: the FIRST swap performed is the one with the highest index *)
Lemma fold_ascending_step {X} (f : X -> nat -> X) k x :
  fold_left f (seq 0 (S k)) x = f (fold_left f (seq 0 k) x) k.
Proof. rewrite seq_S, fold_left_app. reflexivity. Qed.

Lemma fold_descending_step {X} (f : X -> nat -> X) k x :
  fold_left f (rev (seq 0 (S k))) x = fold_left f (rev (seq 0 k)) (f x k).
Proof. rewrite seq_S, rev_app_distr. reflexivity. Qed.

(** * LAPACK permutations *)
Lemma lapack_length P n : lapack P n -> length P <= n.
Proof.
  intros H. destruct (length P) as [|k] eqn:E; [lia|].
  specialize (H k). rewrite E in H. specialize (H (Nat.lt_succ_diag_r k)). lia.
Qed.

Lemma lapackb_spec P n : lapackb P n = true <-> lapack P n.
Proof.
  unfold lapackb, lapack. rewrite forallb_forall. split.
  - intros H i Hi. specialize (H i). rewrite in_seq, andb_true_iff, Nat.leb_le, Nat.ltb_lt in H.
    apply H. lia.
  - intros H i Hi. apply in_seq in Hi. rewrite andb_true_iff, Nat.leb_le, Nat.ltb_lt. apply H. lia.
Qed.

Lemma pval_in P i : i < length P -> pval P i = nth i P 0.
Proof. intros H. unfold pval. now apply nth_indep. Qed.

Lemma pval_out P i : length P <= i -> pval P i = i.
Proof. intros H. unfold pval. now apply nth_overflow. Qed.

Lemma lapack_pval P n i : lapack P n -> i < n -> i <= pval P i < n.
Proof.
  intros H Hi. destruct (Nat.lt_ge_cases i (length P)) as [Hl|Hl].
  - rewrite pval_in by assumption. now apply H.
  - rewrite pval_out by assumption. lia.
Qed.

(** every swap addressed by the list stays inside [0, n) *)
Definition inrange (P : list nat) (n : nat) (l : list nat) : Prop :=
  forall i, In i l -> i < n /\ pval P i < n.

Lemma inrange_rev P n l : inrange P n l -> inrange P n (rev l).
Proof. intros H i Hi. apply H. now apply in_rev. Qed.

Lemma inrange_seq P n s k : lapack P n -> s + k <= n -> inrange P n (seq s k).
Proof. intros H Hk i Hi. apply in_seq in Hi. split; [lia|]. apply lapack_pval; [assumption|lia]. Qed.

Lemma lapack_inrange P n : lapack P n -> inrange P n (seq 0 (Nat.min (length P) n)).
Proof. intros H. apply inrange_seq; [assumption|lia]. Qed.

(** * (a) the four applications as swap loops *)
Definition rswaps (P : list nat) (l : list nat) (A : mat) : mat :=
  fold_left (fun M i => row_swap M i (pval P i)) l A.
Definition cswaps (P : list nat) (l : list nat) (A : mat) : mat :=
  fold_left (fun M i => col_swap M i (pval P i)) l A.

(** left: row swaps i <-> P[i], ascending i *)
Lemma apply_p_left_swaps A P :
  apply_p_left A P =
  fold_left (fun M i => row_swap M i (nth i P i)) (seq 0 (Nat.min (length P) (nr A))) A.
Proof. reflexivity. Qed.
(** transposed left: the same row swaps, descending i *)
Lemma apply_p_left_trans_swaps A P :
  apply_p_left_trans A P =
  fold_left (fun M i => row_swap M i (nth i P i)) (rev (seq 0 (Nat.min (length P) (nr A)))) A.
Proof. reflexivity. Qed.
(** right: column swaps i <-> P[i], descending i *)
Lemma apply_p_right_swaps A P :
  apply_p_right A P =
  fold_left (fun M i => col_swap M i (nth i P i)) (rev (seq 0 (Nat.min (length P) (nc A)))) A.
Proof. reflexivity. Qed.
(** transposed right: the same column swaps, ascending i *)
Lemma apply_p_right_trans_swaps A P :
  apply_p_right_trans A P =
  fold_left (fun M i => col_swap M i (nth i P i)) (seq 0 (Nat.min (length P) (nc A))) A.
Proof. reflexivity. Qed.

(** the order, spelled out: ascending = swap k comes last, descending = swap k comes first *)
Lemma apply_p_left_order P k A : k < nr A -> length P = S k ->
  apply_p_left A P = row_swap (apply_p_left A (firstn k P)) k (nth k P k).
Proof.
  intros Hk Hl. unfold apply_p_left. rewrite firstn_length, Hl.
  replace (Nat.min (S k) (nr A)) with (S k) by lia.
  replace (Nat.min (Nat.min k (S k)) (nr A)) with k by lia.
  rewrite fold_ascending_step. unfold pval at 1. f_equal.
  apply fold_left_ext_in. intros M i Hi. apply in_seq in Hi. unfold pval. f_equal.
  rewrite (nth_indep (firstn k P) i 0) by (rewrite firstn_length; lia).
  rewrite (nth_indep P i 0) by lia. now rewrite nth_firstn_lt by lia.
Qed.

Lemma apply_p_right_order P k A : k < nc A -> length P = S k ->
  apply_p_right A P = apply_p_right (col_swap A k (nth k P k)) (firstn k P).
Proof.
  intros Hk Hl. unfold apply_p_right. rewrite firstn_length, Hl, nc_col_swap.
  replace (Nat.min (S k) (nc A)) with (S k) by lia.
  replace (Nat.min (Nat.min k (S k)) (nc A)) with k by lia.
  rewrite fold_descending_step. unfold pval at 2.
  apply fold_left_ext_in. intros M i Hi. apply in_rev, in_seq in Hi. unfold pval. f_equal.
  rewrite (nth_indep (firstn k P) i 0) by (rewrite firstn_length; lia).
  rewrite (nth_indep P i 0) by lia. now rewrite nth_firstn_lt by lia.
Qed.

(** dimensions and well-formedness *)
Lemma nr_rswaps P l A : nr (rswaps P l A) = nr A.
Proof. unfold rswaps. apply (fold_left_ind (fun M => nr M = nr A)); auto. Qed.
Lemma nc_rswaps P l A : nc (rswaps P l A) = nc A.
Proof. unfold rswaps. apply (fold_left_ind (fun M => nc M = nc A)); auto. Qed.
Lemma wf_rswaps P l A : wf A -> wf (rswaps P l A).
Proof. unfold rswaps. apply (fold_left_ind wf). intros; now apply wf_row_swap. Qed.
Lemma nr_cswaps P l A : nr (cswaps P l A) = nr A.
Proof.
  unfold cswaps. apply (fold_left_ind (fun M => nr M = nr A)); auto.
  intros M i _ H. now rewrite nr_col_swap.
Qed.
Lemma nc_cswaps P l A : nc (cswaps P l A) = nc A.
Proof.
  unfold cswaps. apply (fold_left_ind (fun M => nc M = nc A)); auto.
  intros M i _ H. now rewrite nc_col_swap.
Qed.
Lemma wf_cswaps P l A : wf A -> inrange P (nc A) l -> wf (cswaps P l A).
Proof.
  intros HA Hl. unfold cswaps.
  apply (fold_left_ind (fun M => wf M /\ nc M = nc A)); [|now split].
  intros M i Hi [HM Hc]. destruct (Hl i Hi). split; [apply wf_col_swap; auto; lia|].
  now rewrite nc_col_swap.
Qed.

Lemma wf_apply_p_left A P : wf A -> wf (apply_p_left A P).
Proof. apply wf_rswaps. Qed.
Lemma wf_apply_p_left_trans A P : wf A -> wf (apply_p_left_trans A P).
Proof. apply wf_rswaps. Qed.
Lemma wf_apply_p_right A P : wf A -> lapack P (nc A) -> wf (apply_p_right A P).
Proof. intros HA HP. apply wf_cswaps; [assumption|]. now apply inrange_rev, lapack_inrange. Qed.
Lemma wf_apply_p_right_trans A P : wf A -> lapack P (nc A) -> wf (apply_p_right_trans A P).
Proof. intros HA HP. apply wf_cswaps; [assumption|]. now apply lapack_inrange. Qed.

(** * (b) swaps are products with transposition matrices *)
Lemma set_row_mmul X A a x :
  set_row (mmul X A) a (mul_row x (rows A)) = mmul (set_row X a x) A.
Proof.
  unfold set_row, mmul. cbn [nr nc rows]. f_equal.
  apply (upd_map (fun a => mul_row a (rows A))).
Qed.

Lemma row_swap_mmul X A a b : row_swap (mmul X A) a b = mmul (row_swap X a b) A.
Proof. unfold row_swap. now rewrite !row_mmul, !set_row_mmul. Qed.

Lemma rswaps_mmul P l X A : rswaps P l (mmul X A) = mmul (rswaps P l X) A.
Proof.
  unfold rswaps. revert X. induction l as [|i l IH]; intros X; cbn [fold_left]; [reflexivity|].
  now rewrite row_swap_mmul, IH.
Qed.

Lemma col_swap_mmul A X a b : wf A -> wf X -> a < nc X -> b < nc X ->
  col_swap (mmul A X) a b = mmul A (col_swap X a b).
Proof.
  intros HA HX Ha Hb.
  assert (wf (col_swap X a b)) by now apply wf_col_swap.
  assert (wf (mmul A X)) by now apply wf_mmul.
  apply mat_ext.
  - now apply wf_col_swap.
  - now apply wf_mmul.
  - now rewrite nr_col_swap.
  - now rewrite nc_col_swap, !nc_mmul, nc_col_swap.
  - intros i j _ _. rewrite get_col_swap, !get_mmul by assumption. rewrite nr_col_swap.
    apply xsum_ext. intros k _. now rewrite get_col_swap.
Qed.

Lemma cswaps_mmul P l A X : wf A -> wf X -> inrange P (nc X) l ->
  cswaps P l (mmul A X) = mmul A (cswaps P l X).
Proof.
  intros HA. unfold cswaps. revert X. induction l as [|i l IH]; intros X HX Hl; cbn [fold_left]; [reflexivity|].
  destruct (Hl i (or_introl eq_refl)).
  rewrite col_swap_mmul by assumption. apply IH.
  - now apply wf_col_swap.
  - rewrite nc_col_swap. intros k Hk. apply Hl. now right.
Qed.

(** the transposition matrix is symmetric: row swap of the identity = column swap of the identity *)
Lemma row_swap_mid_col_swap n a b : a < n -> b < n -> row_swap (mid n) a b = col_swap (mid n) a b.
Proof.
  intros Ha Hb. pose proof (wf_mid n) as HI. apply mat_ext.
  - now apply wf_row_swap.
  - now apply wf_col_swap.
  - now rewrite nr_col_swap.
  - now rewrite nc_col_swap.
  - intros i j Hi _. rewrite nr_row_swap in Hi. cbn [nr mid] in Hi.
    rewrite get_row_swap, get_col_swap by assumption. fold (transp a b i).
    rewrite !get_mid, transp_eqb.
    destruct (Nat.ltb_spec (transp a b i) n) as [H|H], (Nat.ltb_spec i n); try lia; try reflexivity.
    pose proof (transp_lt a b i n Ha Hb). lia.
Qed.

Lemma row_swap_as_mul X a b : wf X -> row_swap X a b = mmul (row_swap (mid (nr X)) a b) X.
Proof. intros HX. now rewrite <- row_swap_mmul, mmul_id_l. Qed.

Lemma col_swap_as_mul X a b : wf X -> a < nc X -> b < nc X ->
  col_swap X a b = mmul X (col_swap (mid (nc X)) a b).
Proof.
  intros HX Ha Hb. rewrite <- col_swap_mmul; auto using wf_mid. now rewrite mmul_id_r.
Qed.

Lemma rswaps_as_mul P l X : wf X -> rswaps P l X = mmul (rswaps P l (mid (nr X))) X.
Proof. intros HX. now rewrite <- rswaps_mmul, mmul_id_l. Qed.

Lemma cswaps_as_mul P l X : wf X -> inrange P (nc X) l ->
  cswaps P l X = mmul X (cswaps P l (mid (nc X))).
Proof.
  intros HX Hl. rewrite <- cswaps_mmul; auto using wf_mid. now rewrite mmul_id_r.
Qed.

(** key fact: column swaps on the identity in the REVERSE order = row swaps on the identity *)
Lemma cswaps_rev_mid P n l : inrange P n l -> cswaps P (rev l) (mid n) = rswaps P l (mid n).
Proof.
  induction l as [|i l IH]; intros Hl; [reflexivity|].
  destruct (Hl i (or_introl eq_refl)) as [Hi Hp].
  assert (Hl' : inrange P n l) by (intros k Hk; apply Hl; now right).
  cbn [rev]. unfold cswaps. rewrite fold_left_app. cbn [fold_left]. fold (cswaps P (rev l) (mid n)).
  rewrite IH by assumption.
  assert (HW : wf (rswaps P l (mid n))) by apply wf_rswaps, wf_mid.
  rewrite col_swap_as_mul; rewrite ?nc_rswaps; cbn [nc mid]; try assumption.
  rewrite <- row_swap_mid_col_swap by assumption.
  unfold rswaps at 2. cbn [fold_left]. fold (rswaps P l (row_swap (mid n) i (pval P i))).
  rewrite (rswaps_as_mul P l (row_swap (mid n) i (pval P i))) by apply wf_row_swap, wf_mid.
  reflexivity.
Qed.

(** the permutation matrix of a LAPACK swap sequence *)
Definition pmat (n : nat) (P : list nat) : mat := apply_p_left (mid n) P.

Lemma wf_pmat n P : wf (pmat n P).
Proof. apply wf_apply_p_left, wf_mid. Qed.
Lemma nr_pmat n P : nr (pmat n P) = n. Proof. apply nr_rswaps. Qed.
Lemma nc_pmat n P : nc (pmat n P) = n. Proof. apply nc_rswaps. Qed.

(** C13: application from the left is multiplication from the left by [pmat] *)
Theorem apply_left_is_mul A P : wf A -> apply_p_left A P = mmul (pmat (nr A) P) A.
Proof. intros HA. apply (rswaps_as_mul P _ A HA). Qed.

(** C13: application from the right is multiplication from the right by the SAME [pmat] *)
Theorem apply_right_is_mul A P : wf A -> lapack P (nc A) ->
  apply_p_right A P = mmul A (pmat (nc A) P).
Proof.
  intros HA HP. pose proof (lapack_inrange P (nc A) HP) as Hl.
  unfold apply_p_right. fold (cswaps P (rev (seq 0 (Nat.min (length P) (nc A)))) A).
  rewrite cswaps_as_mul by (auto using inrange_rev). rewrite cswaps_rev_mid by assumption.
  reflexivity.
Qed.

Lemma mtrans_row_swap X a b : wf X -> a < nr X -> b < nr X ->
  mtrans (row_swap X a b) = col_swap (mtrans X) a b.
Proof.
  intros HX Ha Hb. assert (wf (row_swap X a b)) by now apply wf_row_swap.
  assert (wf (mtrans X)) by now apply wf_mtrans.
  apply mat_ext.
  - now apply wf_mtrans.
  - now apply wf_col_swap.
  - now rewrite nr_col_swap.
  - now rewrite nc_col_swap.
  - intros i j _ _. rewrite get_mtrans, get_col_swap, get_mtrans, get_row_swap by assumption.
    reflexivity.
Qed.

Lemma mtrans_rswaps P l X : wf X -> inrange P (nr X) l -> mtrans (rswaps P l X) = cswaps P l (mtrans X).
Proof.
  unfold rswaps, cswaps. revert X. induction l as [|i l IH]; intros X HX Hl; cbn [fold_left]; [reflexivity|].
  destruct (Hl i (or_introl eq_refl)).
  rewrite IH; [now rewrite mtrans_row_swap|now apply wf_row_swap|].
  rewrite nr_row_swap. intros k Hk. apply Hl. now right.
Qed.

Lemma mtrans_pmat n P : lapack P n -> mtrans (pmat n P) = apply_p_left_trans (mid n) P.
Proof.
  intros HP. pose proof (lapack_inrange P n HP) as Hl. unfold pmat, apply_p_left, apply_p_left_trans.
  cbn [nr mid]. fold (rswaps P (seq 0 (Nat.min (length P) n)) (mid n)).
  rewrite mtrans_rswaps by (auto using wf_mid). rewrite mtrans_mid.
  rewrite <- (rev_involutive (seq 0 (Nat.min (length P) n))) at 1.
  rewrite cswaps_rev_mid by now apply inrange_rev. reflexivity.
Qed.

Lemma mtrans_pmat_cols n P : lapack P n -> mtrans (pmat n P) = apply_p_right_trans (mid n) P.
Proof.
  intros HP. pose proof (lapack_inrange P n HP) as Hl. unfold pmat, apply_p_left, apply_p_right_trans.
  cbn [nr nc mid]. fold (rswaps P (seq 0 (Nat.min (length P) n)) (mid n)).
  rewrite mtrans_rswaps by (auto using wf_mid). now rewrite mtrans_mid.
Qed.

(** C13: the transposed applications multiply by the transposed permutation matrix *)
Theorem apply_left_trans_is_mul A P : wf A -> lapack P (nr A) ->
  apply_p_left_trans A P = mmul (mtrans (pmat (nr A) P)) A.
Proof.
  intros HA HP. rewrite mtrans_pmat by assumption.
  apply (rswaps_as_mul P _ A HA).
Qed.

Theorem apply_right_trans_is_mul A P : wf A -> lapack P (nc A) ->
  apply_p_right_trans A P = mmul A (mtrans (pmat (nc A) P)).
Proof.
  intros HA HP. rewrite mtrans_pmat_cols by assumption.
  apply (cswaps_as_mul P _ A HA). now apply lapack_inrange.
Qed.

(** * (c) each application is undone by its transposed counterpart *)
Lemma rswaps_undo P l A : wf A -> inrange P (nr A) l -> rswaps P (rev l) (rswaps P l A) = A.
Proof.
  intros HA Hl. unfold rswaps. apply (fold_undo (fun M => wf M /\ nr M = nr A)); [|now split].
  intros M i Hi [HM Hr]. destruct (Hl i Hi). splits.
  - now apply wf_row_swap.
  - exact Hr.
  - apply row_swap_invol; auto; lia.
Qed.

Lemma rswaps_undo_rev P l A : wf A -> inrange P (nr A) l -> rswaps P l (rswaps P (rev l) A) = A.
Proof.
  intros HA Hl. rewrite <- (rev_involutive l) at 1. apply rswaps_undo; [assumption|now apply inrange_rev].
Qed.

Lemma cswaps_undo P l A : wf A -> inrange P (nc A) l -> cswaps P (rev l) (cswaps P l A) = A.
Proof.
  intros HA Hl. unfold cswaps. apply (fold_undo (fun M => wf M /\ nc M = nc A)); [|now split].
  intros M i Hi [HM Hc]. destruct (Hl i Hi). splits.
  - apply wf_col_swap; auto; lia.
  - now rewrite nc_col_swap.
  - apply col_swap_invol; auto; lia.
Qed.

Lemma cswaps_undo_rev P l A : wf A -> inrange P (nc A) l -> cswaps P l (cswaps P (rev l) A) = A.
Proof.
  intros HA Hl. rewrite <- (rev_involutive l) at 1. apply cswaps_undo; [assumption|now apply inrange_rev].
Qed.

Theorem trans_undoes_left A P : wf A -> lapack P (nr A) ->
  apply_p_left_trans (apply_p_left A P) P = A.
Proof.
  intros HA HP. unfold apply_p_left_trans. fold (rswaps P (seq 0 (Nat.min (length P) (nr A))) A).
  unfold apply_p_left at 1. fold (rswaps P (seq 0 (Nat.min (length P) (nr A))) A). rewrite nr_rswaps.
  apply rswaps_undo; [assumption|now apply lapack_inrange].
Qed.

Theorem left_undoes_trans A P : wf A -> lapack P (nr A) ->
  apply_p_left (apply_p_left_trans A P) P = A.
Proof.
  intros HA HP. unfold apply_p_left. fold (rswaps P (rev (seq 0 (Nat.min (length P) (nr A)))) A).
  unfold apply_p_left_trans at 1. fold (rswaps P (rev (seq 0 (Nat.min (length P) (nr A)))) A).
  rewrite nr_rswaps. apply rswaps_undo_rev; [assumption|now apply lapack_inrange].
Qed.

Theorem trans_undoes_right A P : wf A -> lapack P (nc A) ->
  apply_p_right_trans (apply_p_right A P) P = A.
Proof.
  intros HA HP. unfold apply_p_right_trans. fold (cswaps P (rev (seq 0 (Nat.min (length P) (nc A)))) A).
  unfold apply_p_right at 1. fold (cswaps P (rev (seq 0 (Nat.min (length P) (nc A)))) A).
  rewrite nc_cswaps. apply cswaps_undo_rev; [assumption|now apply lapack_inrange].
Qed.

Theorem right_undoes_trans A P : wf A -> lapack P (nc A) ->
  apply_p_right (apply_p_right_trans A P) P = A.
Proof.
  intros HA HP. unfold apply_p_right. fold (cswaps P (seq 0 (Nat.min (length P) (nc A))) A).
  unfold apply_p_right_trans at 1. fold (cswaps P (seq 0 (Nat.min (length P) (nc A))) A).
  rewrite nc_cswaps. apply cswaps_undo; [assumption|now apply lapack_inrange].
Qed.

(** the four facts in one statement *)
Theorem trans_undoes A P : wf A ->
  (lapack P (nr A) -> apply_p_left_trans (apply_p_left A P) P = A /\
                      apply_p_left (apply_p_left_trans A P) P = A) /\
  (lapack P (nc A) -> apply_p_right_trans (apply_p_right A P) P = A /\
                      apply_p_right (apply_p_right_trans A P) P = A).
Proof.
  intros HA. split; intros HP; split;
    auto using trans_undoes_left, left_undoes_trans, trans_undoes_right, right_undoes_trans.
Qed.

(** consequently [pmat] is orthogonal: a genuine permutation matrix *)
Corollary pmat_orthogonal n P : lapack P n ->
  mmul (mtrans (pmat n P)) (pmat n P) = mid n /\ mmul (pmat n P) (mtrans (pmat n P)) = mid n.
Proof.
  intros HP. pose proof (wf_mid n) as HI. split.
  - pose proof (trans_undoes_left (mid n) P HI HP) as H. fold (pmat n P) in H.
    rewrite apply_left_trans_is_mul in H; [|apply wf_pmat|now rewrite nr_pmat].
    rewrite nr_pmat in H. exact H.
  - pose proof (left_undoes_trans (mid n) P HI HP) as H.
    rewrite apply_left_is_mul in H by now apply wf_apply_p_left_trans.
    rewrite <- mtrans_pmat in H by assumption.
    rewrite nr_mtrans, nc_pmat in H. exact H.
Qed.

(** * (d) the triangular transposed right application *)
Lemma row_fold_col_swap_in_rows (p lo hi : nat -> nat) l A i0 :
  row (fold_left (fun M i => col_swap_in_rows M i (p i) (lo i) (hi i)) l A) i0 =
  fold_left (fun r i => if (lo i <=? i0) && (i0 <? hi i) then bit_swap r i (p i) else r) l (row A i0).
Proof.
  revert A. induction l as [|i l IH]; intros A; cbn [fold_left]; [reflexivity|].
  now rewrite IH, row_col_swap_in_rows.
Qed.

Lemma row_cswaps P l A i0 : i0 < nr A ->
  row (cswaps P l A) i0 = fold_left (fun r i => bit_swap r i (pval P i)) l (row A i0).
Proof.
  unfold cswaps. revert A. induction l as [|i l IH]; intros A Hi; cbn [fold_left]; [reflexivity|].
  rewrite IH by now rewrite nr_col_swap. unfold col_swap at 1. rewrite row_col_swap_in_rows.
  destruct (Nat.leb_spec 0 i0), (Nat.ltb_spec i0 (nr A)); try lia. reflexivity.
Qed.

Lemma fold_cond_false {X} (c : nat -> bool) (g : X -> nat -> X) l x :
  (forall i, In i l -> c i = false) -> fold_left (fun r i => if c i then g r i else r) l x = x.
Proof.
  revert x; induction l as [|i l IH]; intros x H; cbn [fold_left]; [reflexivity|].
  rewrite (H i) by now left. apply IH. intros; apply H; now right.
Qed.

Lemma fold_cond_true {X} (c : nat -> bool) (g : X -> nat -> X) l x :
  (forall i, In i l -> c i = true) ->
  fold_left (fun r i => if c i then g r i else r) l x = fold_left g l x.
Proof.
  revert x; induction l as [|i l IH]; intros x H; cbn [fold_left]; [reflexivity|].
  rewrite (H i) by now left. apply IH. intros; apply H; now right.
Qed.

(** C13: row i0 of the triangular application receives exactly the column swaps i > i0
    (ascending), i.e. swap i acts only on the rows above row i. *)
Theorem tri_spec_row A P i0 : i0 < nr A ->
  row (apply_p_right_trans_tri A P) i0 =
  fold_left (fun r i => bit_swap r i (pval P i)) (seq (S i0) (nc A - S i0)) (row A i0).
Proof.
  intros Hi. unfold apply_p_right_trans_tri.
  rewrite (row_fold_col_swap_in_rows (pval P) (fun _ => 0) (fun i => Nat.min i (nr A))).
  destruct (Nat.le_gt_cases (S i0) (nc A)) as [Hle|Hgt].
  - replace (nc A) with (S i0 + (nc A - S i0)) at 1 by lia.
    rewrite seq_app, fold_left_app. cbn [Nat.add].
    rewrite (fold_cond_false _ _ (seq 0 (S i0))).
    + apply fold_cond_true. intros i Hin. apply in_seq in Hin.
      destruct (Nat.leb_spec 0 i0), (Nat.ltb_spec i0 (Nat.min i (nr A))); try lia; reflexivity.
    + intros i Hin. apply in_seq in Hin.
      destruct (Nat.leb_spec 0 i0), (Nat.ltb_spec i0 (Nat.min i (nr A))); try lia; reflexivity.
  - replace (nc A - S i0) with 0 by lia. cbn [seq fold_left].
    apply fold_cond_false. intros i Hin. apply in_seq in Hin.
    destruct (Nat.leb_spec 0 i0), (Nat.ltb_spec i0 (Nat.min i (nr A))); try lia; reflexivity.
Qed.

(** the same, against the whole-matrix column swaps of [apply_p_right_trans] restricted to i > i0 *)
Theorem tri_spec A P i0 : i0 < nr A ->
  row (apply_p_right_trans_tri A P) i0 =
  row (fold_left (fun M i => col_swap M i (pval P i)) (seq (S i0) (nc A - S i0)) A) i0.
Proof.
  intros Hi. rewrite tri_spec_row by assumption. symmetry. now apply (row_cswaps P).
Qed.

Lemma nr_tri A P : nr (apply_p_right_trans_tri A P) = nr A.
Proof.
  unfold apply_p_right_trans_tri. apply (fold_left_ind (fun M => nr M = nr A)); auto.
  intros M i _ H. now rewrite nr_col_swap_in_rows.
Qed.
Lemma nc_tri A P : nc (apply_p_right_trans_tri A P) = nc A.
Proof.
  unfold apply_p_right_trans_tri. apply (fold_left_ind (fun M => nc M = nc A)); auto.
  intros M i _ H. now rewrite nc_col_swap_in_rows.
Qed.
Lemma wf_tri A P : wf A -> lapack P (nc A) -> wf (apply_p_right_trans_tri A P).
Proof.
  intros HA HP. unfold apply_p_right_trans_tri.
  apply (fold_left_ind (fun M => wf M /\ nc M = nc A)); [|now split].
  intros M i Hi [HM Hc]. apply in_seq in Hi. pose proof (lapack_pval P (nc A) i HP).
  split; [apply wf_col_swap_in_rows; auto; lia|now rewrite nc_col_swap_in_rows].
Qed.

(** pointwise form; rows at or below the last column are untouched *)
Corollary tri_spec_get A P i0 j : i0 < nr A ->
  get (apply_p_right_trans_tri A P) i0 j =
  get (fold_left (fun M i => col_swap M i (pval P i)) (seq (S i0) (nc A - S i0)) A) i0 j.
Proof. intros Hi. unfold get. now rewrite tri_spec. Qed.

Corollary tri_low_rows A P i0 : i0 < nr A -> nc A <= S i0 ->
  row (apply_p_right_trans_tri A P) i0 = row A i0.
Proof.
  intros Hi Hc. rewrite tri_spec_row by assumption. now replace (nc A - S i0) with 0 by lia.
Qed.

(** with a full-length P: full transposed application = the first i0+1 swaps, then what the
    triangular form does on row i0 *)
Corollary tri_vs_full A P i0 : i0 < nr A -> S i0 <= nc A -> length P = nc A ->
  row (apply_p_right_trans A P) i0 =
  fold_left (fun r i => bit_swap r i (pval P i)) (seq (S i0) (nc A - S i0))
            (row (cswaps P (seq 0 (S i0)) A) i0).
Proof.
  intros Hi Hc Hl. unfold apply_p_right_trans. rewrite Hl, Nat.min_id.
  replace (nc A) with (S i0 + (nc A - S i0)) at 1 by lia.
  rewrite seq_app, fold_left_app. cbn [Nat.add]. fold (cswaps P (seq 0 (S i0)) A).
  apply (row_cswaps P (seq (S i0) (nc A - S i0)) (cswaps P (seq 0 (S i0)) A)). now rewrite nr_cswaps.
Qed.

(** * (e) the gather kernel _mzd_apply_p_right_even *)
(** [t = perm[a]; perm[a] = perm[b]; perm[b] = t] *)
Definition swap_idx (l : list nat) (a b : nat) : list nat :=
  upd b (nth a l 0) (upd a (nth b l 0) l).

(** the N with bit c set iff c < n and h c *)
Fixpoint bits_of (n : nat) (h : nat -> bool) : N :=
  match n with
  | 0 => 0%N
  | S m => if h m then N.lor (bits_of m h) (2 ^ N.of_nat m) else bits_of m h
  end.

(** order in which the kernel swaps entries of the index array (mzp.c:206-218) *)
Definition gather_swap_order (notrans : bool) (len start_col : nat) : list nat :=
  if notrans then rev (seq 0 (len - start_col)) else seq start_col (len - start_col).

Definition build_perm (notrans : bool) (n len start_col : nat) (P : list nat) : list nat :=
  fold_left (fun l i => swap_idx l i (pval P i)) (gather_swap_order notrans len start_col) (seq 0 n).

(** one row: keep the fixed points ("Arow & write_mask"), then OR in, for every column
    c < len, the old bit at column perm[c] (mzd_write_col_to_rows_blockd) *)
Definition gather_row (perm : list nat) (len ncols : nat) (r : N) : N :=
  N.lor (N.land r (bits_of ncols (fun c => nth c perm 0 =? c)))
        (bits_of len (fun c => N.testbit r (N.of_nat (nth c perm 0)))).

Definition apply_p_right_even (A : mat) (P : list nat) (start_row start_col : nat) (notrans : bool) : mat :=
  let len := Nat.min (length P) (nc A) in
  let perm := build_perm notrans (nc A) len start_col P in
  map_rows (fun i r => if start_row <=? i then gather_row perm len (nc A) r else r) A.

(** mzd_apply_p_right (notrans = true) / mzd_apply_p_right_trans (notrans = false) *)
Definition apply_p_right_gather (notrans : bool) (A : mat) (P : list nat) : mat :=
  apply_p_right_even A P 0 0 notrans.

Lemma testbit_bits_of n h j : N.testbit (bits_of n h) (N.of_nat j) = (j <? n) && h j.
Proof.
  induction n as [|n IH]; cbn [bits_of].
  - rewrite N.bits_0. bsolve.
  - destruct (h n) eqn:E; rewrite ?N.lor_spec, IH, ?testbit_pow2_nat;
      destruct (Nat.ltb_spec j n), (Nat.ltb_spec j (S n)); try lia; cbn [andb orb];
      destruct (Nat.eqb_spec n j); subst; try lia; rewrite ?E, ?orb_false_r; try reflexivity.
Qed.

Lemma bounded_bits_of n h : bounded n (bits_of n h).
Proof. intros j Hj. rewrite testbit_bits_of. bsolve. Qed.

Lemma swap_idx_length l a b : length (swap_idx l a b) = length l.
Proof. unfold swap_idx. now rewrite !upd_length. Qed.

Lemma nth_swap_idx l a b c : a < length l -> b < length l ->
  nth c (swap_idx l a b) 0 = nth (transp a b c) l 0.
Proof.
  intros Ha Hb. unfold swap_idx, transp. rewrite !nth_upd, upd_length. bsolve.
Qed.

Lemma testbit_gather_row perm len n r c : bounded n r ->
  N.testbit (gather_row perm len n r) (N.of_nat c) =
  if c <? len then N.testbit r (N.of_nat (nth c perm 0))
  else (nth c perm 0 =? c) && N.testbit r (N.of_nat c).
Proof.
  intros Hr. unfold gather_row. rewrite N.lor_spec, N.land_spec, !testbit_bits_of.
  destruct (Nat.ltb_spec c len); cbn [andb].
  - destruct (Nat.eqb_spec (nth c perm 0) c) as [->|]; rewrite ?andb_false_r, ?andb_true_r; cbn [orb andb].
    + destruct (Nat.ltb_spec c n); cbn [andb]; rewrite ?andb_true_r, ?andb_false_r; cbn [orb];
        [apply orb_diag|reflexivity].
    + reflexivity.
  - rewrite orb_false_r. destruct (Nat.ltb_spec c n); cbn [andb]; [apply andb_comm|].
    rewrite Hr by assumption. now rewrite !andb_false_r.
Qed.

(** exact pointwise behaviour of the kernel, no hypothesis on P beyond what the model needs *)
Lemma get_apply_p_right_even A P sr sc notrans i c : wf A ->
  let len := Nat.min (length P) (nc A) in
  let perm := build_perm notrans (nc A) len sc P in
  get (apply_p_right_even A P sr sc notrans) i c =
  if (sr <=? i) then
    (if c <? len then get A i (nth c perm 0) else (nth c perm 0 =? c) && get A i c)
  else get A i c.
Proof.
  intros HA len perm. unfold apply_p_right_even. fold len. fold perm. unfold get at 1.
  rewrite row_map_rows. destruct (Nat.ltb_spec i (length (rows A))) as [Hi|Hi].
  - destruct (sr <=? i); [|reflexivity]. apply testbit_gather_row. now apply wf_row_bounded.
  - rewrite N.bits_0, !(get_overflow A i) by assumption.
    rewrite andb_false_r. now destruct (sr <=? i), (c <? len).
Qed.

Lemma wf_apply_p_right_even A P sr sc notrans : wf A -> wf (apply_p_right_even A P sr sc notrans).
Proof.
  intros HA. apply wf_map_rows; [assumption|]. intros i r _ Hr.
  destruct (sr <=? i); [|assumption]. unfold gather_row. apply bounded_lor.
  - now apply bounded_land_l.
  - apply (bounded_mono (Nat.min (length P) (nc A))); [lia|apply bounded_bits_of].
Qed.

(** relation between the index array and the matrix under the same list of swaps *)
Lemma gather_invariant A P sr l : wf A -> inrange P (nc A) l ->
  let perm := fold_left (fun l i => swap_idx l i (pval P i)) l (seq 0 (nc A)) in
  let M := fold_left (fun M i => col_swap_in_rows M i (pval P i) sr (nr M)) l A in
  length perm = nc A /\ wf M /\ nr M = nr A /\ nc M = nc A /\
  (forall c, c < nc A -> nth c perm 0 < nc A) /\
  forall i c, c < nc A -> get M i c = if sr <=? i then get A i (nth c perm 0) else get A i c.
Proof.
  intros HA Hl perm M. subst perm M.
  apply (fold_left_rel (fun perm M =>
    length perm = nc A /\ wf M /\ nr M = nr A /\ nc M = nc A /\
    (forall c, c < nc A -> nth c perm 0 < nc A) /\
    forall i c, c < nc A -> get M i c = if sr <=? i then get A i (nth c perm 0) else get A i c)).
  - intros perm M k Hk (Hlen & HM & Hr & Hc & Hlt & Hg). destruct (Hl k Hk) as [Hk1 Hk2].
    splits.
    + now rewrite swap_idx_length.
    + apply wf_col_swap_in_rows; auto; lia.
    + now rewrite nr_col_swap_in_rows.
    + now rewrite nc_col_swap_in_rows.
    + intros c Hc'. rewrite nth_swap_idx by lia. apply Hlt. now apply transp_lt.
    + intros i c Hc'. rewrite get_col_swap_in_rows, nth_swap_idx by lia.
      pose proof (transp_lt _ _ _ _ Hk1 Hk2 Hc') as Ht.
      destruct (Nat.leb_spec sr i); cbn [andb].
      * destruct (Nat.ltb_spec i (nr M)); [now rewrite Hg, (proj2 (Nat.leb_le sr i)) by assumption|].
        rewrite !(get_out_row A) by (auto; lia). rewrite Hg by assumption.
        rewrite (proj2 (Nat.leb_le sr i)) by assumption. apply get_out_row; auto; lia.
      * rewrite Hg by assumption. now rewrite (proj2 (Nat.leb_gt sr i)) by assumption.
  - splits; auto.
    + apply seq_length.
    + intros c Hc. now rewrite seq_nth.
    + intros i c Hc. rewrite seq_nth by assumption. now destruct (sr <=? i).
Qed.

(** swaps confined to [0, len) leave the index array fixed from len on *)
Lemma perm_fixed_above P n len l : len <= n ->
  (forall i, In i l -> i < len /\ pval P i < len) ->
  forall c, len <= c -> nth c (fold_left (fun l i => swap_idx l i (pval P i)) l (seq 0 n)) 0 = nth c (seq 0 n) 0.
Proof.
  intros Hlen Hl.
  apply (fold_left_ind (fun perm => length perm = n /\
           forall c, len <= c -> nth c perm 0 = nth c (seq 0 n) 0)); [|split; [apply seq_length|auto]].
  intros perm i Hi [Hp H]. destruct (Hl i Hi). split; [now rewrite swap_idx_length|].
  intros c Hc. rewrite nth_swap_idx by lia. rewrite (transp_ge _ _ _ len) by assumption. now apply H.
Qed.

Lemma in_gather_swap_order notrans len sc i :
  In i (gather_swap_order notrans len sc) -> i < len.
Proof.
  unfold gather_swap_order. destruct notrans; intros H.
  - apply in_rev, in_seq in H. lia.
  - apply in_seq in H. lia.
Qed.

(** the swap-loop reading of the kernel: the same swaps, on the rows >= start_row *)
Definition apply_p_right_even_swaps (A : mat) (P : list nat) (start_row start_col : nat) (notrans : bool) : mat :=
  fold_left (fun M i => col_swap_in_rows M i (pval P i) start_row (nr M))
            (gather_swap_order notrans (Nat.min (length P) (nc A)) start_col) A.

(** general relation: the kernel computes the swaps and then CLEARS every column c >= len whose
    final index differs from c *)
Theorem gather_general A P sr sc notrans i c : wf A -> lapack P (nc A) -> c < nc A ->
  let len := Nat.min (length P) (nc A) in
  let perm := build_perm notrans (nc A) len sc P in
  get (apply_p_right_even A P sr sc notrans) i c =
  get (apply_p_right_even_swaps A P sr sc notrans) i c &&
  ((i <? sr) || (c <? len) || (nth c perm 0 =? c)).
Proof.
  intros HA HP Hc len perm.
  assert (Hl : inrange P (nc A) (gather_swap_order notrans len sc)).
  { intros k Hk. apply in_gather_swap_order in Hk. split; [subst len; lia|].
    apply lapack_pval; [assumption|subst len; lia]. }
  destruct (gather_invariant A P sr _ HA Hl) as (_ & _ & _ & _ & _ & Hg).
  rewrite get_apply_p_right_even by assumption. fold len. fold perm.
  unfold apply_p_right_even_swaps. fold len. rewrite Hg by assumption.
  fold (build_perm notrans (nc A) len sc P). fold perm.
  destruct (Nat.leb_spec sr i), (Nat.ltb_spec i sr); try lia; cbn [orb]; [|now rewrite andb_true_r].
  destruct (c <? len); cbn [orb]; [now rewrite andb_true_r|].
  destruct (Nat.eqb_spec (nth c perm 0) c) as [->|]; [now rewrite andb_true_r|now rewrite andb_false_r].
Qed.

(** C13: the fast kernel implements the swap semantics when the swap targets stay below length *)
Theorem gather_even_eq_swaps A P sr sc notrans : wf A -> lapack P (nc A) -> lapack P (length P) ->
  apply_p_right_even A P sr sc notrans = apply_p_right_even_swaps A P sr sc notrans.
Proof.
  intros HA HP HPl. pose proof (lapack_length P (nc A) HP) as Hlen.
  set (len := Nat.min (length P) (nc A)).
  assert (Hl : inrange P (nc A) (gather_swap_order notrans len sc)).
  { intros k Hk. apply in_gather_swap_order in Hk. split; [subst len; lia|].
    apply lapack_pval; [assumption|subst len; lia]. }
  destruct (gather_invariant A P sr _ HA Hl) as (_ & HM & Hr & Hc & _ & _).
  apply mat_ext.
  - now apply wf_apply_p_right_even.
  - exact HM.
  - symmetry. exact Hr.
  - symmetry. exact Hc.
  - intros i c _ Hc'. cbn [nc apply_p_right_even map_rows] in Hc'.
    rewrite gather_general by assumption. fold len.
    destruct (Nat.ltb_spec c len); [now rewrite orb_true_r, andb_true_r|].
    replace (nth c (build_perm notrans (nc A) len sc P) 0 =? c) with true;
      [now rewrite !orb_true_r, andb_true_r|].
    symmetry. apply Nat.eqb_eq. unfold build_perm.
    rewrite (perm_fixed_above P (nc A) len); [now apply seq_nth|subst len; lia| |assumption].
    intros k Hk. apply in_gather_swap_order in Hk. split; [assumption|].
    replace len with (length P) in * by (subst len; lia). now apply lapack_pval.
Qed.

Lemma apply_p_right_even_swaps_notrans A P : apply_p_right_even_swaps A P 0 0 true = apply_p_right A P.
Proof.
  unfold apply_p_right_even_swaps, apply_p_right, gather_swap_order. now rewrite Nat.sub_0_r.
Qed.
Lemma apply_p_right_even_swaps_trans A P : apply_p_right_even_swaps A P 0 0 false = apply_p_right_trans A P.
Proof.
  unfold apply_p_right_even_swaps, apply_p_right_trans, gather_swap_order. now rewrite Nat.sub_0_r.
Qed.

Theorem gather_eq_swaps A P : wf A -> lapack P (nc A) -> lapack P (length P) ->
  apply_p_right_gather true A P = apply_p_right A P.
Proof.
  intros. unfold apply_p_right_gather. rewrite gather_even_eq_swaps by assumption.
  apply apply_p_right_even_swaps_notrans.
Qed.

Theorem gather_eq_swaps_trans A P : wf A -> lapack P (nc A) -> lapack P (length P) ->
  apply_p_right_gather false A P = apply_p_right_trans A P.
Proof.
  intros. unfold apply_p_right_gather. rewrite gather_even_eq_swaps by assumption.
  apply apply_p_right_even_swaps_trans.
Qed.

(** the case m4ri itself uses for Q: full-length permutations *)
Corollary gather_eq_swaps_full A P notrans : wf A -> lapack P (nc A) -> length P = nc A ->
  apply_p_right_gather notrans A P = if notrans then apply_p_right A P else apply_p_right_trans A P.
Proof.
  intros HA HP Hl. assert (lapack P (length P)) by now rewrite Hl.
  destruct notrans; [now apply gather_eq_swaps|now apply gather_eq_swaps_trans].
Qed.

(** FINDING.  Without [lapack P (length P)] the statement is false: for a permutation SHORTER than
    the number of columns with an entry P[i] >= length P the kernel clears column P[i]
    (mzp.c: write_mask is computed over all ncols, the gather only runs over i < length).
    Witness: the 1 x 5 all-ones row, P = [4; 1]. *)
Theorem gather_short_refuted :
  exists A P, wf A /\ lapack P (nc A) /\
    apply_p_right_gather false A P <> apply_p_right_trans A P /\
    apply_p_right_gather true A P <> apply_p_right A P.
Proof.
  exists (mk 1 5 [31%N]), [4; 1]. splits.
  - now rewrite <- wfb_spec.
  - intros i Hi. cbn [length] in Hi.
    destruct i as [|[|i]]; cbn [nth nc]; lia.
  - vm_compute. discriminate.
  - vm_compute. discriminate.
Qed.
