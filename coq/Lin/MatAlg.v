(* Lin/MatAlg.v — ring laws, transpose laws and block-product lemmas for Lin/Mat.v *)
From Coq Require Import List NArith Arith Lia Bool.
From M4 Require Import Base.Bits Lin.Mat.
Import ListNotations.
Local Open Scope nat_scope.

Create HintDb wf.
#[export] Hint Resolve wf_mzero wf_mid wf_madd wf_mmul wf_mtrans wf_mstack wf_mconcat : wf.

Lemma wf_len M : wf M -> length (rows M) = nr M. Proof. now intros [H _]. Qed.

(** * Addition *)
Lemma madd_comm A B : wf A -> wf B -> nr A = nr B -> nc A = nc B -> madd A B = madd B A.
Proof.
  intros HA HB Hr Hc. apply mat_ext; auto with wf.
  intros i j _ _. rewrite !get_madd by (rewrite !wf_len; auto). apply xorb_comm.
Qed.

Lemma madd_assoc A B C : wf A -> wf B -> wf C -> nr A = nr B -> nc A = nc B -> nr B = nr C -> nc B = nc C ->
  madd (madd A B) C = madd A (madd B C).
Proof.
  intros HA HB HC Hr Hc Hr' Hc'.
  assert (wf (madd A B)) by auto with wf. assert (wf (madd B C)) by auto with wf.
  apply mat_ext; auto with wf; try solve [apply wf_madd; auto; cbn; congruence].
  intros i j _ _. rewrite !get_madd; try (rewrite !wf_len; auto; cbn; congruence).
  apply xorb_assoc.
Qed.

Lemma madd_self A : wf A -> madd A A = mzero (nr A) (nc A).
Proof.
  intros HA. apply mat_ext; auto with wf. intros i j _ _.
  rewrite get_madd, get_mzero by reflexivity. apply xorb_nilpotent.
Qed.

Lemma madd_zero_r A : wf A -> madd A (mzero (nr A) (nc A)) = A.
Proof.
  intros HA. apply mat_ext; auto with wf. intros i j _ _.
  rewrite get_madd, get_mzero by (rewrite wf_len by assumption; cbn; now rewrite repeat_length).
  apply xorb_false_r.
Qed.

Lemma madd_zero_l A : wf A -> madd (mzero (nr A) (nc A)) A = A.
Proof.
  intros HA. apply mat_ext; auto with wf. intros i j _ _.
  rewrite get_madd, get_mzero by (rewrite (wf_len A) by assumption; cbn; now rewrite repeat_length).
  apply xorb_false_l.
Qed.

Lemma madd_cancel A B : wf A -> wf B -> nr A = nr B -> nc A = nc B -> madd (madd A B) B = A.
Proof.
  intros HA HB Hr Hc. rewrite madd_assoc, madd_self, <- Hr, <- Hc; auto. now apply madd_zero_r.
Qed.

(** * Product *)
Lemma mul_row_mul_row a bs cs :
  mul_row (mul_row a bs) cs = mul_row a (map (fun b => mul_row b cs) bs).
Proof.
  revert a; induction bs as [|b bs IH]; intros a; cbn [mul_row map]; [apply mul_row_0|].
  rewrite mul_row_lxor, IH. f_equal. destruct (N.odd a); [reflexivity|apply mul_row_0].
Qed.

Theorem mmul_assoc A B C : mmul (mmul A B) C = mmul A (mmul B C).
Proof.
  unfold mmul. cbn [nr nc rows]. f_equal. rewrite map_map. apply map_ext. intros a.
  apply mul_row_mul_row.
Qed.

Lemma mmul_madd_l A B C : wf A -> wf B -> wf C -> nr A = nr B -> nc A = nc B ->
  mmul (madd A B) C = madd (mmul A C) (mmul B C).
Proof.
  intros HA HB HC Hr Hc.
  assert (wf (madd A B)) by auto with wf.
  apply mat_ext; auto with wf; try solve [apply wf_madd; auto with wf].
  intros i j _ _. rewrite get_madd by (cbn; rewrite !map_length, !wf_len; auto).
    rewrite !get_mmul by assumption. rewrite <- xsum_xor. apply xsum_ext. intros k _.
    rewrite get_madd by (rewrite !wf_len; auto).
    destruct (get A i k), (get B i k), (get C k j); reflexivity.
Qed.

Lemma mmul_madd_r A B C : wf A -> wf B -> wf C -> nr B = nr C -> nc B = nc C ->
  mmul A (madd B C) = madd (mmul A B) (mmul A C).
Proof.
  intros HA HB HC Hr Hc.
  assert (wf (madd B C)) by auto with wf.
  apply mat_ext; auto with wf; try solve [apply wf_madd; auto with wf].
  intros i j _ _. rewrite get_madd by (cbn; now rewrite !map_length).
    rewrite !get_mmul by assumption. cbn [nr madd]. rewrite <- Hr, <- xsum_xor. apply xsum_ext. intros k _.
    rewrite get_madd by (rewrite !wf_len; auto).
    destruct (get A i k), (get B k j), (get C k j); reflexivity.
Qed.

Lemma mmul_id_l A : wf A -> mmul (mid (nr A)) A = A.
Proof.
  intros HA. apply mat_ext; auto with wf. intros i j Hi Hj. cbn [nr mmul mid] in Hi.
  rewrite get_mmul by assumption.
  rewrite (xsum_single _ _ i); [|assumption|intros k Hk Hne; rewrite get_mid;
    destruct (Nat.eqb_spec i k); [congruence|now rewrite andb_false_r]].
  rewrite get_mid, Nat.eqb_refl. destruct (Nat.ltb_spec i (nr A)); [reflexivity|lia].
Qed.

Lemma mmul_id_r A : wf A -> mmul A (mid (nc A)) = A.
Proof.
  intros HA. apply mat_ext; auto with wf. intros i j Hi Hj. cbn [nc mmul mid] in Hj.
  rewrite get_mmul by auto with wf. cbn [nr mid].
  rewrite (xsum_single _ _ j); [|assumption|intros k Hk Hne; rewrite get_mid;
    destruct (Nat.eqb_spec k j); [congruence|now rewrite !andb_false_r]].
  rewrite get_mid, Nat.eqb_refl. destruct (Nat.ltb_spec j (nc A)); [now rewrite andb_true_r|lia].
Qed.

Lemma mmul_zero_l r A : wf A -> mmul (mzero r (nr A)) A = mzero r (nc A).
Proof.
  intros HA. apply mat_ext; auto with wf. intros i j _ _.
  rewrite get_mmul, get_mzero by assumption. apply xsum_zero. intros k _. now rewrite get_mzero.
Qed.

Lemma mmul_zero_r A c : wf A -> mmul A (mzero (nc A) c) = mzero (nr A) c.
Proof.
  intros HA. apply mat_ext; auto with wf. intros i j _ _.
  rewrite get_mmul, get_mzero by auto with wf. apply xsum_zero. intros k _. now rewrite get_mzero, andb_false_r.
Qed.

(** * Transpose *)
Lemma mtrans_involutive A : wf A -> mtrans (mtrans A) = A.
Proof.
  intros HA. apply mat_ext; auto with wf. intros i j _ _. rewrite !get_mtrans; auto with wf.
Qed.

Lemma mtrans_madd A B : wf A -> wf B -> nr A = nr B -> nc A = nc B ->
  mtrans (madd A B) = madd (mtrans A) (mtrans B).
Proof.
  intros HA HB Hr Hc. apply mat_ext; auto with wf; try solve [apply wf_madd; auto with wf].
  intros i j _ _. rewrite get_mtrans by auto with wf.
    rewrite !get_madd; try (cbn; rewrite ?map_length, ?seq_length, ?wf_len; auto).
    now rewrite !get_mtrans.
Qed.

Lemma mtrans_mmul A B : wf A -> wf B -> nc A = nr B ->
  mtrans (mmul A B) = mmul (mtrans B) (mtrans A).
Proof.
  intros HA HB Hd. apply mat_ext; auto with wf. intros i j _ _.
  rewrite get_mtrans by auto with wf. rewrite !get_mmul by auto with wf.
  cbn [nr mtrans]. rewrite Hd. apply xsum_ext. intros k _.
  rewrite !get_mtrans by assumption. apply andb_comm.
Qed.

Lemma mtrans_mid n : mtrans (mid n) = mid n.
Proof.
  apply mat_ext; auto with wf. intros i j Hi Hj. cbn [nr nc mtrans mid] in *.
  rewrite get_mtrans by auto with wf. rewrite !get_mid.
  destruct (Nat.ltb_spec i n), (Nat.ltb_spec j n); try lia. cbn. apply Nat.eqb_sym.
Qed.

(** * Blocks *)
Lemma mmul_mstack_l A1 A2 B : mmul (mstack A1 A2) B = mstack (mmul A1 B) (mmul A2 B).
Proof. unfold mmul, mstack. cbn [nr nc rows]. now rewrite map_app. Qed.

Lemma mmul_mconcat_r A B1 B2 : wf A -> wf B1 -> wf B2 -> nr B1 = nr B2 ->
  mmul A (mconcat B1 B2) = mconcat (mmul A B1) (mmul A B2).
Proof.
  intros HA H1 H2 Hr. assert (wf (mconcat B1 B2)) by auto with wf.
  apply mat_ext; auto with wf.
  intros i j _ _. rewrite get_mconcat by auto with wf. rewrite !get_mmul by assumption.
  cbn [nr nc mconcat mmul]. destruct (Nat.ltb_spec j (nc B1)) as [Hj|Hj].
  - apply xsum_ext. intros k _. rewrite get_mconcat by assumption.
    destruct (Nat.ltb_spec j (nc B1)); [reflexivity|lia].
  - rewrite <- Hr. apply xsum_ext. intros k _. rewrite get_mconcat by assumption.
    destruct (Nat.ltb_spec j (nc B1)); [lia|reflexivity].
Qed.

Lemma mmul_concat_stack A1 A2 B1 B2 : wf A1 -> wf A2 -> wf B1 -> wf B2 ->
  nr A1 = nr A2 -> nc A1 = nr B1 -> nc B1 = nc B2 ->
  mmul (mconcat A1 A2) (mstack B1 B2) = madd (mmul A1 B1) (mmul A2 B2).
Proof.
  intros HA1 HA2 HB1 HB2 Hr Hd Hc.
  assert (wf (mconcat A1 A2)) by auto with wf. assert (wf (mstack B1 B2)) by auto with wf.
  apply mat_ext; auto with wf; try solve [apply wf_madd; auto with wf].
  intros i j _ _. rewrite get_madd by (cbn; rewrite !map_length, !wf_len; auto).
    rewrite !get_mmul by assumption. cbn [nr mstack]. rewrite xsum_app. f_equal.
    + apply xsum_ext. intros k Hk. rewrite get_mconcat, get_mstack by assumption.
      destruct (Nat.ltb_spec k (nc A1)), (Nat.ltb_spec k (nr B1)); try lia. reflexivity.
    + apply xsum_ext. intros k Hk. rewrite get_mconcat, get_mstack by assumption.
      destruct (Nat.ltb_spec (nr B1 + k) (nc A1)), (Nat.ltb_spec (nr B1 + k) (nr B1)); try lia.
      rewrite Hd. now replace (nr B1 + k - nr B1) with k by lia.
Qed.

(** decomposition of a matrix into sub-blocks *)
Lemma msub_full A : wf A -> msub A 0 0 (nr A) (nc A) = A.
Proof.
  intros HA. apply mat_ext; auto.
  - apply wf_msub. rewrite wf_len; auto.
  - intros i j Hi Hj. cbn [nr nc msub] in *. rewrite get_msub by (rewrite wf_len; auto).
    destruct (Nat.ltb_spec i (nr A)), (Nat.ltb_spec j (nc A)); try lia. reflexivity.
Qed.

Lemma mstack_msub A r0 c0 r1 r2 c : r0 + r1 + r2 <= nr A -> wf A ->
  mstack (msub A r0 c0 r1 c) (msub A (r0 + r1) c0 r2 c) = msub A r0 c0 (r1 + r2) c.
Proof.
  intros Hr HA. pose proof (wf_len A HA) as Hl.
  apply mat_ext.
  - apply wf_mstack; try apply wf_msub; try reflexivity; lia.
  - apply wf_msub; lia.
  - reflexivity.
  - reflexivity.
  - intros i j _ _. rewrite get_mstack by (apply wf_msub; lia). cbn [nr msub].
    rewrite !get_msub by lia.
    destruct (Nat.ltb_spec i r1), (Nat.ltb_spec i (r1 + r2)), (Nat.ltb_spec (i - r1) r2); try lia; cbn [andb]; try reflexivity.
    + now replace (r0 + r1 + (i - r1)) with (r0 + i) by lia.
Qed.

Lemma mconcat_msub A r0 c0 r c1 c2 : r0 + r <= nr A -> wf A ->
  mconcat (msub A r0 c0 r c1) (msub A r0 (c0 + c1) r c2) = msub A r0 c0 r (c1 + c2).
Proof.
  intros Hr HA. pose proof (wf_len A HA) as Hl.
  apply mat_ext.
  - apply wf_mconcat; try apply wf_msub; try reflexivity; lia.
  - apply wf_msub; lia.
  - reflexivity.
  - reflexivity.
  - intros i j _ _. rewrite get_mconcat; try apply wf_msub; try reflexivity; try lia. cbn [nc msub].
    rewrite !get_msub by lia.
    destruct (Nat.ltb_spec j c1), (Nat.ltb_spec j (c1 + c2)), (Nat.ltb_spec (j - c1) c2); try lia;
      destruct (i <? r); cbn [andb]; try reflexivity.
    + now replace (c0 + c1 + (j - c1)) with (c0 + j) by lia.
Qed.

(** product of sub-blocks: rows of the product come from rows of the left factor,
    columns from columns of the right factor *)
Lemma msub_mmul_rows A B r0 r : wf A -> wf B -> r0 + r <= nr A ->
  msub (mmul A B) r0 0 r (nc B) = mmul (msub A r0 0 r (nc A)) B.
Proof.
  intros HA HB Hr. pose proof (wf_len A HA) as Hl.
  apply mat_ext.
  - apply wf_msub. cbn. rewrite map_length. lia.
  - apply wf_mmul; [apply wf_msub; lia|assumption].
  - reflexivity.
  - reflexivity.
  - intros i j Hi Hj. cbn [nr nc msub mmul] in *.
    rewrite get_msub by (cbn; rewrite map_length; lia).
    rewrite !get_mmul by assumption.
    destruct (Nat.ltb_spec i r), (Nat.ltb_spec j (nc B)); try lia. cbn [andb].
    apply xsum_ext. intros k Hk. rewrite get_msub by lia.
    destruct (Nat.ltb_spec i r); try lia. cbn [andb Nat.add].
    destruct (Nat.ltb_spec k (nc A)); [reflexivity|].
    cbn [andb]. rewrite (get_out_col A) by (auto; lia). reflexivity.
Qed.

Lemma msub_mmul_cols A B c0 c : wf A -> wf B -> nc A = nr B ->
  msub (mmul A B) 0 c0 (nr A) c = mmul A (msub B 0 c0 (nr B) c).
Proof.
  intros HA HB Hd. pose proof (wf_len A HA) as Hl. pose proof (wf_len B HB) as HlB.
  assert (wf (msub B 0 c0 (nr B) c)) by (apply wf_msub; lia).
  apply mat_ext.
  - apply wf_msub. cbn. rewrite map_length. lia.
  - apply wf_mmul; assumption.
  - reflexivity.
  - reflexivity.
  - intros i j Hi Hj. cbn [nr nc msub mmul] in *.
    rewrite get_msub by (cbn; rewrite map_length; lia).
    rewrite !get_mmul by assumption. cbn [nr msub].
    destruct (Nat.ltb_spec i (nr A)), (Nat.ltb_spec j c); try lia. cbn [andb Nat.add].
    apply xsum_ext. intros k Hk. rewrite get_msub by lia.
    destruct (Nat.ltb_spec k (nr B)), (Nat.ltb_spec j c); try lia. reflexivity.
Qed.
