(* Lin/Mat.v — abstract dense GF(2) matrices: a row is an N (column j = bit j).
   These are the very functions that are extracted and run against the C library. *)
From Coq Require Import List NArith Arith Lia Bool.
From M4 Require Import Base.Bits.
Import ListNotations.
Local Open Scope nat_scope.

Record mat := mk { nr : nat; nc : nat; rows : list N }.

Definition row (M : mat) (i : nat) : N := nth i (rows M) 0%N.
Definition get (M : mat) (i j : nat) : bool := N.testbit (row M i) (N.of_nat j).

Definition wf (M : mat) : Prop :=
  length (rows M) = nr M /\ Forall (bounded (nc M)) (rows M).
Definition wfb (M : mat) : bool :=
  Nat.eqb (length (rows M)) (nr M) && forallb (boundedb (nc M)) (rows M).

Lemma wfb_spec M : wfb M = true <-> wf M.
Proof.
  unfold wfb, wf. rewrite andb_true_iff, Nat.eqb_eq, forallb_forall, Forall_forall.
  split; intros [H1 H2]; split; auto; intros x Hx; apply boundedb_spec; auto.
Qed.

Lemma wf_row_bounded M i : wf M -> bounded (nc M) (row M i).
Proof.
  intros [Hl Hb]. unfold row. destruct (Nat.lt_ge_cases i (length (rows M))) as [Hlt|Hge].
  - rewrite Forall_forall in Hb. apply Hb, nth_In, Hlt.
  - rewrite nth_overflow by assumption. apply bounded_0.
Qed.

Lemma get_out_row M i j : wf M -> nr M <= i -> get M i j = false.
Proof.
  intros [Hl _] Hi. unfold get, row. rewrite nth_overflow by lia. apply N.bits_0.
Qed.

Lemma get_out_col M i j : wf M -> nc M <= j -> get M i j = false.
Proof. intros Hw Hj. unfold get. now apply wf_row_bounded. Qed.

Lemma get_in M i j : wf M -> get M i j = true -> i < nr M /\ j < nc M.
Proof.
  intros Hw Hg. split.
  - destruct (Nat.lt_ge_cases i (nr M)); [assumption|]. rewrite get_out_row in Hg; [discriminate|assumption..].
  - destruct (Nat.lt_ge_cases j (nc M)); [assumption|]. rewrite get_out_col in Hg; [discriminate|assumption..].
Qed.

(** * Extensionality *)
Lemma row_ext n a b : bounded n a -> bounded n b ->
  (forall j, j < n -> N.testbit a (N.of_nat j) = N.testbit b (N.of_nat j)) -> a = b.
Proof. apply bounded_ext. Qed.

Lemma mat_ext A B : wf A -> wf B -> nr A = nr B -> nc A = nc B ->
  (forall i j, i < nr A -> j < nc A -> get A i j = get B i j) -> A = B.
Proof.
  destruct A as [ra ca la], B as [rb cb lb]. unfold wf; cbn [nr nc rows].
  intros [Hla Hba] [Hlb Hbb] Hr Hc H. rewrite <- Hr, <- Hc in *. clear Hr Hc rb cb.
  f_equal. apply (list_ext_nth 0%N); [congruence|]. intros i Hi.
  apply (bounded_ext ca).
  - rewrite Forall_forall in Hba. apply Hba, nth_In, Hi.
  - rewrite Forall_forall in Hbb. apply Hbb, nth_In. congruence.
  - intros j Hj. apply (H i j); [congruence|assumption].
Qed.

Lemma wf_mk r c l : length l = r -> (forall i, i < r -> bounded c (nth i l 0%N)) -> wf (mk r c l).
Proof.
  intros Hl Hb. split; [exact Hl|]. cbn. apply Forall_forall. intros x Hx.
  destruct (In_nth _ _ 0%N Hx) as [i [Hi <-]]. apply Hb. lia.
Qed.

(** * Constructors *)
Definition mzero (r c : nat) : mat := mk r c (repeat 0%N r).
Definition mid (n : nat) : mat := mk n n (map (fun i => (2 ^ N.of_nat i)%N) (seq 0 n)).

Fixpoint zipx (a b : list N) : list N :=
  match a, b with
  | x :: a', y :: b' => N.lxor x y :: zipx a' b'
  | _, _ => []
  end.
Definition madd (A B : mat) : mat := mk (nr A) (nc A) (zipx (rows A) (rows B)).

(** [mul_row a rs] = xor of the rows [rs_k] with bit k of [a] set: what every m4ri route computes. *)
Fixpoint mul_row (a : N) (rs : list N) : N :=
  match rs with
  | [] => 0%N
  | r :: rs' => N.lxor (if N.odd a then r else 0%N) (mul_row (N.div2 a) rs')
  end.
Definition mmul (A B : mat) : mat :=
  mk (nr A) (nc B) (map (fun a => mul_row a (rows B)) (rows A)).

Fixpoint col (rs : list N) (j : nat) : N :=
  match rs with
  | [] => 0%N
  | r :: rs' => (2 * col rs' j + N.b2n (N.testbit r (N.of_nat j)))%N
  end.
Definition mtrans (A : mat) : mat :=
  mk (nc A) (nr A) (map (col (rows A)) (seq 0 (nc A))).

(** sub-block of [r] rows and [c] columns starting at (r0,c0) *)
Definition msub (A : mat) (r0 c0 r c : nat) : mat :=
  mk r c (map (fun x => N.land (N.shiftr x (N.of_nat c0)) (N.ones (N.of_nat c)))
              (firstn r (skipn r0 (rows A)))).

Definition mstack (A B : mat) : mat := mk (nr A + nr B) (nc A) (rows A ++ rows B).

Fixpoint zipcat (c : nat) (a b : list N) : list N :=
  match a, b with
  | x :: a', y :: b' => N.lor x (N.shiftl y (N.of_nat c)) :: zipcat c a' b'
  | _, _ => []
  end.
Definition mconcat (A B : mat) : mat := mk (nr A) (nc A + nc B) (zipcat (nc A) (rows A) (rows B)).

(** * Characterisations *)
Lemma get_mzero r c i j : get (mzero r c) i j = false.
Proof.
  unfold get, row, mzero. cbn. destruct (Nat.lt_ge_cases i r).
  - rewrite nth_repeat. apply N.bits_0.
  - rewrite nth_overflow; [apply N.bits_0|]. now rewrite repeat_length.
Qed.

Lemma wf_mzero r c : wf (mzero r c).
Proof.
  apply wf_mk; [apply repeat_length|]. intros i _.
  destruct (Nat.lt_ge_cases i r); [rewrite nth_repeat|rewrite nth_overflow by now rewrite repeat_length]; apply bounded_0.
Qed.

Lemma row_mid n i : i < n -> row (mid n) i = (2 ^ N.of_nat i)%N.
Proof.
  intros Hi. unfold row, mid. cbn.
  rewrite (nth_map_default _ _ _ 0) by now rewrite seq_length. now rewrite seq_nth.
Qed.

Lemma get_mid n i j : get (mid n) i j = (i <? n) && (i =? j).
Proof.
  unfold get. destruct (Nat.ltb_spec i n) as [Hi|Hi]; cbn [andb].
  - rewrite row_mid by assumption. apply testbit_pow2_nat.
  - unfold row, mid. cbn. rewrite nth_overflow; [apply N.bits_0|]. now rewrite map_length, seq_length.
Qed.

Lemma wf_mid n : wf (mid n).
Proof.
  apply wf_mk; [now rewrite map_length, seq_length|]. intros i Hi.
  rewrite (nth_map_default _ _ _ 0) by now rewrite seq_length.
  rewrite seq_nth by assumption. now apply bounded_pow2.
Qed.

Lemma zipx_length a b : length (zipx a b) = Nat.min (length a) (length b).
Proof. revert b; induction a as [|x a IH]; intros [|y b]; cbn; auto. Qed.

Lemma zipx_nth a b i : nth i (zipx a b) 0%N =
  if (i <? Nat.min (length a) (length b)) then N.lxor (nth i a 0%N) (nth i b 0%N) else 0%N.
Proof.
  revert b i; induction a as [|x a IH]; intros [|y b] [|i]; cbn; try reflexivity.
  rewrite IH. reflexivity.
Qed.

Lemma row_madd A B i : length (rows A) = length (rows B) ->
  row (madd A B) i = N.lxor (row A i) (row B i).
Proof.
  intros Hl. unfold row, madd. cbn. rewrite zipx_nth, <- Hl, Nat.min_id.
  destruct (Nat.ltb_spec i (length (rows A))); [reflexivity|].
  rewrite !nth_overflow by lia. reflexivity.
Qed.

Lemma get_madd A B i j : length (rows A) = length (rows B) ->
  get (madd A B) i j = xorb (get A i j) (get B i j).
Proof. intros Hl. unfold get. rewrite row_madd by assumption. apply N.lxor_spec. Qed.

Lemma wf_madd A B : wf A -> wf B -> nr A = nr B -> nc A = nc B -> wf (madd A B).
Proof.
  intros HA HB Hr Hc. pose proof HA as [HlA _]. pose proof HB as [HlB _].
  apply wf_mk; [rewrite zipx_length; lia|]. intros i Hi.
  change (nth i (zipx (rows A) (rows B)) 0%N) with (row (madd A B) i).
  rewrite row_madd by congruence. apply bounded_lxor; [now apply wf_row_bounded|].
  rewrite Hc. now apply wf_row_bounded.
Qed.

(** mul_row *)
Lemma testbit_div2_nat a k : N.testbit (N.div2 a) (N.of_nat k) = N.testbit a (N.of_nat (S k)).
Proof. rewrite Nat2N.inj_succ, N.div2_div. apply N.div2_bits. Qed.

Lemma testbit_mul_row a rs j :
  N.testbit (mul_row a rs) (N.of_nat j) =
  xsum (length rs) (fun k => N.testbit a (N.of_nat k) && N.testbit (nth k rs 0%N) (N.of_nat j)).
Proof.
  revert a; induction rs as [|r rs IH]; intros a; [apply N.bits_0|].
  cbn [mul_row length]. rewrite xsum_shift, N.lxor_spec, IH. cbn [nth].
  f_equal.
  - change (N.of_nat 0) with 0%N. rewrite N.bit0_odd. destruct (N.odd a); [reflexivity|apply N.bits_0].
  - apply xsum_ext. intros k _. now rewrite testbit_div2_nat.
Qed.

Lemma mul_row_0 rs : mul_row 0 rs = 0%N.
Proof. induction rs as [|r rs IH]; cbn [mul_row]; [reflexivity|]. change (N.div2 0) with 0%N. now rewrite IH. Qed.

Lemma mul_row_lxor a b rs : mul_row (N.lxor a b) rs = N.lxor (mul_row a rs) (mul_row b rs).
Proof.
  apply bits_ext_nat. intros j. rewrite N.lxor_spec, !testbit_mul_row, <- xsum_xor.
  apply xsum_ext. intros k _. rewrite N.lxor_spec.
  destruct (N.testbit a _), (N.testbit b _), (N.testbit (nth k rs 0%N) _); reflexivity.
Qed.

Lemma bounded_mul_row n a rs : Forall (bounded n) rs -> bounded n (mul_row a rs).
Proof.
  intros H. revert a. induction H as [|r rs Hr _ IH]; intros a; cbn; [apply bounded_0|].
  apply bounded_lxor; [destruct (N.odd a); [assumption|apply bounded_0]|apply IH].
Qed.

Lemma row_mmul A B i : row (mmul A B) i = mul_row (row A i) (rows B).
Proof.
  unfold row, mmul. cbn. destruct (Nat.lt_ge_cases i (length (rows A))).
  - now rewrite (nth_map_default _ _ _ 0%N).
  - rewrite !nth_overflow by (rewrite ?map_length; lia). now rewrite mul_row_0.
Qed.

Lemma get_mmul A B i j : wf B ->
  get (mmul A B) i j = xsum (nr B) (fun k => get A i k && get B k j).
Proof.
  intros [HlB _]. unfold get. rewrite row_mmul, testbit_mul_row, HlB. reflexivity.
Qed.

Lemma wf_mmul A B : wf A -> wf B -> wf (mmul A B).
Proof.
  intros [HlA _] [_ HbB]. split; cbn; [now rewrite map_length|].
  apply Forall_forall. intros x Hx. apply in_map_iff in Hx as [a [<- _]]. now apply bounded_mul_row.
Qed.

(** transpose *)
Lemma testbit_col rs j i : N.testbit (col rs j) (N.of_nat i) = N.testbit (nth i rs 0%N) (N.of_nat j).
Proof.
  revert i; induction rs as [|r rs IH]; intros i; cbn [col].
  - destruct i; cbn; now rewrite ?N.bits_0.
  - destruct i as [|i].
    + cbn [nth]. change (N.of_nat 0) with 0%N. apply N.testbit_0_r.
    + cbn [nth]. rewrite Nat2N.inj_succ, N.testbit_succ_r. apply IH.
Qed.

Lemma bounded_col rs j : bounded (length rs) (col rs j).
Proof.
  intros i Hi. rewrite testbit_col, nth_overflow by assumption. apply N.bits_0.
Qed.

Lemma get_mtrans A i j : wf A -> get (mtrans A) i j = get A j i.
Proof.
  intros HA. unfold get at 1, row, mtrans. cbn.
  destruct (Nat.lt_ge_cases i (nc A)) as [Hi|Hi].
  - rewrite (nth_map_default _ _ _ 0) by now rewrite seq_length. rewrite seq_nth by assumption.
    cbn. apply testbit_col.
  - rewrite nth_overflow by now rewrite map_length, seq_length.
    rewrite N.bits_0. symmetry. now apply get_out_col.
Qed.

Lemma wf_mtrans A : wf A -> wf (mtrans A).
Proof.
  intros [HlA _]. split; cbn; [now rewrite map_length, seq_length|].
  apply Forall_forall. intros x Hx. apply in_map_iff in Hx as [j [<- _]].
  rewrite <- HlA. apply bounded_col.
Qed.

(** sub-block *)
Lemma get_msub A r0 c0 r c i j : r0 + r <= length (rows A) ->
  get (msub A r0 c0 r c) i j = (i <? r) && (j <? c) && get A (r0 + i) (c0 + j).
Proof.
  intros Hr. unfold get at 1, row, msub. cbn [rows].
  destruct (Nat.ltb_spec i r) as [Hi|Hi]; cbn [andb].
  - rewrite (nth_map_default _ _ _ 0%N) by (rewrite firstn_length, skipn_length; lia).
    rewrite nth_firstn_lt by assumption. rewrite nth_skipn_add.
    rewrite N.land_spec, testbit_ones_nat, testbit_shiftr_nat, andb_comm.
    unfold get, row. now rewrite (Nat.add_comm j c0).
  - rewrite nth_overflow; [apply N.bits_0|]. rewrite map_length, firstn_length. lia.
Qed.

Lemma wf_msub A r0 c0 r c : r0 + r <= length (rows A) -> wf (msub A r0 c0 r c).
Proof.
  intros Hr. split; cbn; [rewrite map_length, firstn_length, skipn_length; lia|].
  apply Forall_forall. intros x Hx. apply in_map_iff in Hx as [y [<- _]].
  apply bounded_land_r, bounded_ones.
Qed.

(** stack *)
Lemma get_mstack A B i j : wf A ->
  get (mstack A B) i j = if i <? nr A then get A i j else get B (i - nr A) j.
Proof.
  intros [HlA _]. unfold get, row, mstack. cbn.
  destruct (Nat.ltb_spec i (nr A)).
  - now rewrite app_nth1 by lia.
  - rewrite app_nth2 by lia. now rewrite HlA.
Qed.

Lemma wf_mstack A B : wf A -> wf B -> nc A = nc B -> wf (mstack A B).
Proof.
  intros [HlA HbA] [HlB HbB] Hc. split; cbn; [rewrite app_length; lia|].
  apply Forall_app. split; [assumption|now rewrite Hc].
Qed.

(** concat *)
Lemma zipcat_length c a b : length (zipcat c a b) = Nat.min (length a) (length b).
Proof. revert b; induction a as [|x a IH]; intros [|y b]; cbn; auto. Qed.

Lemma zipcat_nth c a b i : i < Nat.min (length a) (length b) ->
  nth i (zipcat c a b) 0%N = N.lor (nth i a 0%N) (N.shiftl (nth i b 0%N) (N.of_nat c)).
Proof.
  revert b i; induction a as [|x a IH]; intros [|y b] [|i] Hi; cbn in *; try lia; try reflexivity.
  apply IH. lia.
Qed.

Lemma get_mconcat A B i j : wf A -> wf B -> nr A = nr B ->
  get (mconcat A B) i j = if j <? nc A then get A i j else get B i (j - nc A).
Proof.
  intros HA HB Hr. pose proof HA as [HlA _]. pose proof HB as [HlB _].
  unfold get at 1, row, mconcat. cbn.
  destruct (Nat.lt_ge_cases i (nr A)) as [Hi|Hi].
  - rewrite zipcat_nth by lia. rewrite N.lor_spec, testbit_shiftl_nat.
    destruct (Nat.ltb_spec j (nc A)) as [Hj|Hj].
    + destruct (Nat.leb_spec (nc A) j); [lia|]. cbn. now rewrite orb_false_r.
    + destruct (Nat.leb_spec (nc A) j); [|lia]. cbn.
      change (N.testbit (nth i (rows A) 0%N) (N.of_nat j)) with (get A i j).
      rewrite (get_out_col A) by assumption. reflexivity.
  - rewrite nth_overflow by (rewrite zipcat_length; lia). rewrite N.bits_0.
    destruct (j <? nc A); symmetry; apply get_out_row; auto; lia.
Qed.

Lemma wf_mconcat A B : wf A -> wf B -> nr A = nr B -> wf (mconcat A B).
Proof.
  intros HA HB Hr. pose proof HA as [HlA _]. pose proof HB as [HlB _].
  apply wf_mk; [rewrite zipcat_length; lia|]. intros i Hi. rewrite zipcat_nth by lia.
  apply bounded_lor.
  - apply (bounded_mono (nc A)); [lia|]. now apply (wf_row_bounded A i).
  - rewrite (Nat.add_comm (nc A)). apply bounded_shiftl. now apply (wf_row_bounded B i).
Qed.

(** * dimension lemmas (all by computation) *)
Lemma nr_mmul A B : nr (mmul A B) = nr A. Proof. reflexivity. Qed.
Lemma nc_mmul A B : nc (mmul A B) = nc B. Proof. reflexivity. Qed.
Lemma nr_madd A B : nr (madd A B) = nr A. Proof. reflexivity. Qed.
Lemma nc_madd A B : nc (madd A B) = nc A. Proof. reflexivity. Qed.
Lemma nr_mtrans A : nr (mtrans A) = nc A. Proof. reflexivity. Qed.
Lemma nc_mtrans A : nc (mtrans A) = nr A. Proof. reflexivity. Qed.
