(* Lin/Combine.v — C13: row combination from given word offsets (m4ri/mzd.h:920 mzd_combine_even_in_place,
   :994 mzd_combine_even, :1069 mzd_combine).  Models (executable, run by the correspondence driver) and their
   POINTWISE characterisation through [get]: exactly the addressed entries change, with the stated effect.

   Domain (the documented use): the destination segment — columns 64*csb .. nc C - 1 of row cr — and the
   source segments — columns from 64*asb in row ar of A, from 64*bsb in row br of B — have the same length
   n = nc A - 64*asb (= nc C - 64*csb), and B has at least n columns from 64*bsb on.  No axioms. *)
From Coq Require Import List NArith Arith Lia Bool.
From M4 Require Import Base.Bits Lin.Mat Lin.MatAlg Lin.Ops Lin.OpsProofs.
Import ListNotations.
Local Open Scope nat_scope.

(** the columns of a row from word [sb] on, moved down to column 0 *)
Definition seg (x : N) (sb : nat) : N := N.shiftr x (N.of_nat (64 * sb)).

(** mzd_combine_even_in_place(A, ar, asb, B, br, bsb):  A[ar, 64 asb + j] ^= B[br, 64 bsb + j], j < n *)
Definition combine_in_place (A B : mat) (ar asb br bsb : nat) : mat :=
  let n := nc A - 64 * asb in
  let v := N.land (seg (row B br) bsb) (N.ones (N.of_nat n)) in
  set_row A ar (N.lxor (row A ar) (N.shiftl v (N.of_nat (64 * asb)))).

(** mzd_combine_even(C, cr, csb, A, ar, asb, B, br, bsb):  C[cr, 64 csb + j] = A[ar, 64 asb + j] ^ B[br, 64 bsb + j] *)
Definition combine_even (C A B : mat) (cr csb ar asb br bsb : nat) : mat :=
  let n := nc A - 64 * asb in
  let m := N.ones (N.of_nat n) in
  let v := N.land (N.lxor (seg (row A ar) asb) (seg (row B br) bsb)) m in
  set_row C cr (N.lor (N.ldiff (row C cr) (N.shiftl m (N.of_nat (64 * csb)))) (N.shiftl v (N.of_nat (64 * csb)))).

(** mzd_combine: the in-place kernel when destination and first source are the same object, row and start word
    ([same] = the pointer comparison C == A of the C code) *)
Definition combine (same : bool) (C A B : mat) (cr csb ar asb br bsb : nat) : mat :=
  if same && (ar =? cr) && (asb =? csb) then combine_in_place C B cr csb br bsb
  else combine_even C A B cr csb ar asb br bsb.

Lemma testbit_seg x sb j : N.testbit (seg x sb) (N.of_nat j) = N.testbit x (N.of_nat (64 * sb + j)).
Proof.
  unfold seg. rewrite N.shiftr_spec by lia. f_equal. lia.
Qed.

Lemma testbit_ones_nat n j : N.testbit (N.ones (N.of_nat n)) (N.of_nat j) = (j <? n).
Proof.
  destruct (Nat.ltb_spec j n).
  - apply N.ones_spec_low. lia.
  - apply N.ones_spec_high. lia.
Qed.

Lemma testbit_shiftl_nat v s j :
  N.testbit (N.shiftl v (N.of_nat s)) (N.of_nat j) = (s <=? j) && N.testbit v (N.of_nat (j - s)).
Proof.
  destruct (Nat.leb_spec s j).
  - rewrite N.shiftl_spec_high by lia. cbn [andb]. f_equal. lia.
  - rewrite N.shiftl_spec_low by lia. reflexivity.
Qed.

(** C13: the in-place combination adds the source segment to the destination segment and changes nothing else *)
Lemma get_combine_in_place A B ar asb br bsb i j : ar < length (rows A) ->
  get (combine_in_place A B ar asb br bsb) i j =
  if (i =? ar) && (64 * asb <=? j) && (j <? nc A)
  then xorb (get A ar j) (get B br (64 * bsb + (j - 64 * asb))) else get A i j.
Proof.
  intros Ha. unfold combine_in_place. rewrite get_set_row.
  destruct (Nat.eqb_spec i ar) as [->|]; cbn [andb]; [|reflexivity].
  destruct (Nat.ltb_spec ar (length (rows A))); [|lia].
  rewrite N.lxor_spec, testbit_shiftl_nat, N.land_spec, testbit_seg, testbit_ones_nat. unfold get.
  destruct (Nat.leb_spec (64 * asb) j); cbn [andb].
  - destruct (Nat.ltb_spec j (nc A)); destruct (Nat.ltb_spec (j - 64 * asb) (nc A - 64 * asb)); try lia.
    + rewrite andb_true_r. reflexivity.
    + rewrite andb_false_r, xorb_false_r. reflexivity.
  - rewrite xorb_false_r. reflexivity.
Qed.

(** C13: the three-operand combination writes A-segment + B-segment over the destination segment, nothing else *)
Lemma get_combine_even C A B cr csb ar asb br bsb i j : cr < length (rows C) ->
  let n := nc A - 64 * asb in
  get (combine_even C A B cr csb ar asb br bsb) i j =
  if (i =? cr) && (64 * csb <=? j) && (j <? 64 * csb + n)
  then xorb (get A ar (64 * asb + (j - 64 * csb))) (get B br (64 * bsb + (j - 64 * csb))) else get C i j.
Proof.
  intros Hc n. unfold combine_even. fold n. rewrite get_set_row.
  destruct (Nat.eqb_spec i cr) as [->|]; cbn [andb]; [|reflexivity].
  destruct (Nat.ltb_spec cr (length (rows C))); [|lia].
  rewrite N.lor_spec, N.ldiff_spec, !testbit_shiftl_nat, N.land_spec, N.lxor_spec, !testbit_seg, !testbit_ones_nat.
  unfold get.
  destruct (Nat.leb_spec (64 * csb) j); cbn [andb].
  - destruct (Nat.ltb_spec (j - 64 * csb) n); destruct (Nat.ltb_spec j (64 * csb + n)); try lia.
    + cbn [negb]. rewrite andb_false_r, andb_true_r. reflexivity.
    + cbn [negb]. rewrite andb_true_r, andb_false_r, orb_false_r. reflexivity.
  - cbn [negb]. rewrite andb_true_r, orb_false_r. reflexivity.
Qed.

Lemma wf_combine_in_place A B ar asb br bsb : wf A -> wf (combine_in_place A B ar asb br bsb).
Proof.
  intros HA. unfold combine_in_place. apply wf_set_row; [assumption|].
  apply bounded_lxor; [apply wf_row_bounded; assumption|].
  destruct (Nat.le_gt_cases (64 * asb) (nc A)) as [Hle|Hgt].
  - replace (nc A) with ((nc A - 64 * asb) + 64 * asb) at 1 by lia.
    apply bounded_shiftl, bounded_land_r, bounded_ones.
  - replace (nc A - 64 * asb) with 0 by lia. cbn [N.of_nat N.ones]. rewrite N.land_0_r, N.shiftl_0_l. apply bounded_0.
Qed.

(** the dispatch of mzd_combine: on its in-place branch the two kernels agree wherever both are defined, i.e. the
    result does not depend on which branch is taken *)
Lemma combine_branches_agree C B cr csb br bsb i j : wf C -> cr < nr C -> j < nc C ->
  get (combine_even C C B cr csb cr csb br bsb) i j = get (combine_in_place C B cr csb br bsb) i j.
Proof.
  intros HC Hr Hj. assert (Hl : cr < length (rows C)) by (rewrite wf_len; assumption).
  rewrite get_combine_even, get_combine_in_place by assumption.
  destruct (Nat.eqb_spec i cr) as [->|]; cbn [andb]; [|reflexivity].
  destruct (Nat.leb_spec (64 * csb) j); cbn [andb]; [|reflexivity].
  destruct (Nat.ltb_spec j (64 * csb + (nc C - 64 * csb))); destruct (Nat.ltb_spec j (nc C)); try lia.
  replace (64 * csb + (j - 64 * csb)) with j by lia. reflexivity.
Qed.
