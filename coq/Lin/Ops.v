(* Lin/Ops.v — executable matrix-level models (definitions only) of the elementary m4ri operations:
   row/column operations, LAPACK-style permutation application, observers, data movement.
   Proofs about them live in Lin/OpsProofs.v, Lin/Perm.v, Word/.  These definitions are extracted
   and run against the C library by the correspondence harness. *)
From Coq Require Import List NArith Arith Bool.
From M4 Require Import Base.Bits Lin.Mat.
Import ListNotations.
Local Open Scope nat_scope.

(** * list update *)
Fixpoint upd {A} (i : nat) (x : A) (l : list A) : list A :=
  match l, i with
  | [], _ => []
  | _ :: t, 0 => x :: t
  | h :: t, S i' => h :: upd i' x t
  end.

Definition set_row (M : mat) (i : nat) (r : N) : mat := mk (nr M) (nc M) (upd i r (rows M)).

(** map over rows with their index *)
Fixpoint mapi_from {A B} (f : nat -> A -> B) (i : nat) (l : list A) : list B :=
  match l with [] => [] | x :: t => f i x :: mapi_from f (S i) t end.
Definition map_rows (f : nat -> N -> N) (M : mat) : mat := mk (nr M) (nc M) (mapi_from f 0 (rows M)).

(** * masks: columns [c0, c1) as a row value *)
Definition colmask (c0 c1 : nat) : N := N.shiftl (N.ones (N.of_nat (c1 - c0))) (N.of_nat c0).

(** * row operations *)
Definition row_swap (M : mat) (a b : nat) : mat :=
  set_row (set_row M a (row M b)) b (row M a).

(** dst ^= src on columns >= c0 (mzd_row_add_offset) *)
Definition row_add_offset (M : mat) (dst src c0 : nat) : mat :=
  set_row M dst (N.lxor (row M dst) (N.land (row M src) (colmask c0 (nc M)))).
Definition row_add (M : mat) (src dst : nat) : mat := row_add_offset M dst src 0.

(** clear row r from column c0 on (documented behaviour of mzd_row_clear_offset) *)
Definition row_clear_offset (M : mat) (r c0 : nat) : mat :=
  set_row M r (N.land (row M r) (N.ones (N.of_nat c0))).

Definition copy_row (B : mat) (i : nat) (A : mat) (j : nat) : mat :=
  set_row B i (N.lor (N.ldiff (row B i) (N.ones (N.of_nat (nc A)))) (row A j)).

(** * bit ranges *)
Definition read_bits (M : mat) (x y n : nat) : N :=
  N.land (N.shiftr (row M x) (N.of_nat y)) (N.ones (N.of_nat n)).
Definition xor_bits (M : mat) (x y n : nat) (v : N) : mat :=
  set_row M x (N.lxor (row M x) (N.shiftl (N.land v (N.ones (N.of_nat n))) (N.of_nat y))).
Definition clear_bits (M : mat) (x y n : nat) : mat :=
  set_row M x (N.ldiff (row M x) (colmask y (y + n))).
Definition write_bit (M : mat) (i j : nat) (b : bool) : mat :=
  set_row M i (if b then N.lor (row M i) (2 ^ N.of_nat j) else N.ldiff (row M i) (2 ^ N.of_nat j)).

(** * column swaps *)
Definition bit_swap (r : N) (a b : nat) : N :=
  if Bool.eqb (N.testbit r (N.of_nat a)) (N.testbit r (N.of_nat b)) then r
  else N.lxor r (N.lor (2 ^ N.of_nat a) (2 ^ N.of_nat b)).
Definition col_swap_in_rows (M : mat) (a b r0 r1 : nat) : mat :=
  if a =? b then M else
  map_rows (fun i r => if (r0 <=? i) && (i <? r1) then bit_swap r a b else r) M.
Definition col_swap (M : mat) (a b : nat) : mat := col_swap_in_rows M a b 0 (nr M).

(** * LAPACK-style permutations: P is the swap sequence, entry i says "swap i with P[i]" *)
Definition pval (P : list nat) (i : nat) : nat := nth i P i.

Definition apply_p_left (A : mat) (P : list nat) : mat :=
  fold_left (fun M i => row_swap M i (pval P i)) (seq 0 (Nat.min (length P) (nr A))) A.
Definition apply_p_left_trans (A : mat) (P : list nat) : mat :=
  fold_left (fun M i => row_swap M i (pval P i)) (rev (seq 0 (Nat.min (length P) (nr A)))) A.
(** from the right: column swaps, descending for the plain and ascending for the transposed form *)
Definition apply_p_right (A : mat) (P : list nat) : mat :=
  fold_left (fun M i => col_swap M i (pval P i)) (rev (seq 0 (Nat.min (length P) (nc A)))) A.
Definition apply_p_right_trans (A : mat) (P : list nat) : mat :=
  fold_left (fun M i => col_swap M i (pval P i)) (seq 0 (Nat.min (length P) (nc A))) A.
(** 'triangular' transposed right application: swap i only on the rows above row i *)
Definition apply_p_right_trans_tri (A : mat) (P : list nat) : mat :=
  fold_left (fun M i => col_swap_in_rows M i (pval P i) 0 (Nat.min i (nr A))) (seq 0 (nc A)) A.

(** * observers *)
Fixpoint list_eqb (a b : list N) : bool :=
  match a, b with
  | [], [] => true
  | x :: a', y :: b' => N.eqb x y && list_eqb a' b'
  | _, _ => false
  end.
Definition mequal (A B : mat) : bool :=
  (nr A =? nr B) && (nc A =? nc B) && list_eqb (rows A) (rows B).

Fixpoint list_cmp (a b : list N) : comparison :=
  match a, b with
  | x :: a', y :: b' => match N.compare x y with Eq => list_cmp a' b' | c => c end
  | _, _ => Eq
  end.
(** mzd_cmp: dimensions first, then rows top to bottom, each row compared from its last
    (masked) word down = comparison of the row values *)
Definition mcmp (A B : mat) : comparison :=
  match Nat.compare (nr A) (nr B) with
  | Eq => match Nat.compare (nc A) (nc B) with
          | Eq => list_cmp (rows A) (rows B)
          | c => c end
  | c => c end.

Definition is_zero (A : mat) : bool := forallb (N.eqb 0%N) (rows A).

(** index one past the last non-zero row *)
Fixpoint first_zero_row_aux (rs : list N) (i : nat) (acc : nat) : nat :=
  match rs with
  | [] => acc
  | r :: t => first_zero_row_aux t (S i) (if N.eqb r 0 then acc else S i)
  end.
Definition first_zero_row (A : mat) : nat := first_zero_row_aux (rows A) 0 0.

(** index of the lowest set bit *)
Fixpoint ctz_pos (p : positive) : nat :=
  match p with xO q => S (ctz_pos q) | _ => 0 end.
Definition lowbit (r : N) : option nat :=
  match r with N0 => None | Npos p => Some (ctz_pos p) end.

(** pivot search in rows >= r0, columns >= c0: left-most non-zero column of the region and the
    first row holding a one there *)
Fixpoint find_pivot_aux (rs : list N) (i r0 c0 : nat) (best : option (nat * nat)) : option (nat * nat) :=
  match rs with
  | [] => best
  | r :: t =>
    let best' :=
      if i <? r0 then best else
      match lowbit (N.shiftr r (N.of_nat c0)) with
      | None => best
      | Some l => match best with
                  | None => Some (i, c0 + l)
                  | Some (_, cb) => if c0 + l <? cb then Some (i, c0 + l) else best
                  end
      end in
    find_pivot_aux t (S i) r0 c0 best'
  end.
Definition find_pivot (A : mat) (r0 c0 : nat) : option (nat * nat) :=
  find_pivot_aux (rows A) 0 r0 c0 None.

(** * data movement *)
Definition mcopy (A : mat) : mat := A.
(** copy of P into the top-left corner of a (possibly larger) destination N (mzd_copy) *)
Definition mcopy_into (D P : mat) : mat :=
  map_rows (fun i r => if i <? nr P then N.lor (N.ldiff r (N.ones (N.of_nat (nc P)))) (row P i) else r) D.
(** likewise for mzd_submatrix with a supplied (possibly larger) destination *)
Definition msub_into (D : mat) (S : mat) : mat := mcopy_into D S.

Definition set_ui (r c : nat) (v : nat) : mat :=
  if Nat.even v then mzero r c
  else mk r c (map (fun i => if i <? c then (2 ^ N.of_nat i)%N else 0%N) (seq 0 r)).

(** keep the upper triangle incl. diagonal (mzd_extract_u) / lower incl. diagonal (mzd_extract_l)
    of the leading k x k block, k = min(nrows, ncols) *)
Definition extract_u (A : mat) : mat :=
  let k := Nat.min (nr A) (nc A) in
  map_rows (fun i r => N.ldiff r (N.ones (N.of_nat i))) (msub A 0 0 k k).
Definition extract_l (A : mat) : mat :=
  let k := Nat.min (nr A) (nc A) in
  map_rows (fun i r => N.land r (N.ones (N.of_nat (S i)))) (msub A 0 0 k k).

(** paste block B into A at (r0, c0) — the write-back of a window *)
Definition mpaste (A : mat) (r0 c0 : nat) (B : mat) : mat :=
  map_rows (fun i r =>
    if (r0 <=? i) && (i <? r0 + nr B) then
      N.lor (N.ldiff r (colmask c0 (c0 + nc B))) (N.shiftl (row B (i - r0)) (N.of_nat c0))
    else r) A.
