(* Lin/Observers.v — C17 (matrix level): the observers of Lin/Ops.v agree with the abstract
   matrix: mequal, mcmp, is_zero, first_zero_row, lowbit, find_pivot.  No axioms. *)
From Coq Require Import List NArith Arith Lia Bool.
From M4 Require Import Base.Bits Lin.Mat Lin.MatAlg Lin.Ops Lin.OpsProofs.
Import ListNotations.
Local Open Scope nat_scope.

(** * mequal *)
Lemma list_eqb_eq a b : list_eqb a b = true <-> a = b.
Proof.
  revert b; induction a as [|x a IH]; intros [|y b]; cbn [list_eqb]; split; intros H;
    try reflexivity; try discriminate.
  - apply andb_true_iff in H as [H1 H2]. apply N.eqb_eq in H1. apply IH in H2. congruence.
  - injection H as -> ->. rewrite N.eqb_refl. now apply IH.
Qed.

(** equality test = Leibniz equality of the abstract matrices (no hypothesis) *)
Theorem mequal_eq A B : mequal A B = true <-> A = B.
Proof.
  destruct A as [ra ca la], B as [rb cb lb]. unfold mequal. cbn [nr nc rows].
  rewrite !andb_true_iff, !Nat.eqb_eq, list_eqb_eq. split.
  - intros [[-> ->] ->]. reflexivity.
  - intros H. injection H as -> -> ->. auto.
Qed.

(** C17: equality holds exactly when dimensions and all entries coincide *)
Theorem mequal_spec A B : wf A -> wf B ->
  (mequal A B = true <-> nr A = nr B /\ nc A = nc B /\ forall i j, get A i j = get B i j).
Proof.
  intros HA HB. rewrite mequal_eq. split.
  - intros ->. auto.
  - intros (Hr & Hc & Hg). apply mat_ext; auto.
Qed.

Corollary mequal_refl A : mequal A A = true.
Proof. now apply mequal_eq. Qed.

Corollary mequal_sym A B : mequal A B = mequal B A.
Proof.
  destruct (mequal A B) eqn:E1, (mequal B A) eqn:E2; try reflexivity.
  - apply mequal_eq in E1. subst. now rewrite mequal_refl in E2.
  - apply mequal_eq in E2. subst. now rewrite mequal_refl in E1.
Qed.

(** a single differing entry is detected, wherever it is *)
Corollary mequal_detects A B i j : get A i j <> get B i j -> mequal A B = false.
Proof.
  intros H. destruct (mequal A B) eqn:E; [|reflexivity]. apply mequal_eq in E. now subst.
Qed.

(** * mcmp *)
Lemma list_cmp_refl a : list_cmp a a = Eq.
Proof. induction a as [|x a IH]; cbn [list_cmp]; [reflexivity|]. now rewrite N.compare_refl. Qed.

Lemma list_cmp_eq a b : length a = length b -> list_cmp a b = Eq -> a = b.
Proof.
  revert b; induction a as [|x a IH]; intros [|y b] Hl H; cbn [list_cmp length] in *;
    try reflexivity; try discriminate.
  destruct (N.compare x y) eqn:E; try discriminate. apply N.compare_eq in E. subst.
  f_equal. apply IH; [lia|assumption].
Qed.

Lemma list_cmp_antisym a b : list_cmp a b = CompOpp (list_cmp b a).
Proof.
  revert b; induction a as [|x a IH]; intros [|y b]; cbn [list_cmp]; try reflexivity.
  rewrite (N.compare_antisym y x). destruct (N.compare y x); cbn [CompOpp]; auto.
Qed.

Lemma list_cmp_lt_trans a b c : list_cmp a b = Lt -> list_cmp b c = Lt -> list_cmp a c = Lt.
Proof.
  revert b c; induction a as [|x a IH]; intros [|y b] [|z c]; cbn [list_cmp]; try discriminate.
  destruct (N.compare x y) eqn:E1; try discriminate; destruct (N.compare y z) eqn:E2; try discriminate.
  - apply N.compare_eq in E1, E2. subst. rewrite N.compare_refl. apply IH.
  - apply N.compare_eq in E1. subst. now rewrite E2.
  - apply N.compare_eq in E2. subst. now rewrite E1.
  - intros _ _. rewrite N.compare_lt_iff in *. replace (N.compare x z) with Lt; [reflexivity|].
    symmetry. apply N.compare_lt_iff. now apply N.lt_trans with y.
Qed.

Theorem mcmp_refl A : mcmp A A = Eq.
Proof. unfold mcmp. rewrite !Nat.compare_refl. apply list_cmp_refl. Qed.

(** C17: the three-way comparison returns 0 exactly for equal matrices *)
Theorem mcmp_eq A B : wf A -> wf B -> (mcmp A B = Eq <-> A = B).
Proof.
  intros HA HB. split; [|intros ->; apply mcmp_refl].
  unfold mcmp. destruct (Nat.compare (nr A) (nr B)) eqn:Er; try discriminate.
  destruct (Nat.compare (nc A) (nc B)) eqn:Ec; try discriminate.
  apply Nat.compare_eq in Er, Ec. intros H.
  apply list_cmp_eq in H; [|rewrite !wf_len; assumption].
  destruct A as [ra ca la], B as [rb cb lb]; cbn [nr nc rows] in *; congruence.
Qed.

Theorem mcmp_eq_mequal A B : wf A -> wf B -> (mcmp A B = Eq <-> mequal A B = true).
Proof. intros HA HB. rewrite mequal_eq. now apply mcmp_eq. Qed.

(** C17: antisymmetry *)
Theorem mcmp_antisym A B : mcmp A B = CompOpp (mcmp B A).
Proof.
  unfold mcmp. rewrite (Nat.compare_antisym (nr B) (nr A)), (Nat.compare_antisym (nc B) (nc A)).
  destruct (Nat.compare (nr B) (nr A)); cbn [CompOpp]; try reflexivity.
  destruct (Nat.compare (nc B) (nc A)); cbn [CompOpp]; try reflexivity.
  apply list_cmp_antisym.
Qed.

Lemma nat_compare_lt_trans a b c : Nat.compare a b = Lt -> Nat.compare b c = Lt -> Nat.compare a c = Lt.
Proof. rewrite !Nat.compare_lt_iff. lia. Qed.

(** C17: transitivity of the strict order *)
Theorem mcmp_lt_trans A B C : mcmp A B = Lt -> mcmp B C = Lt -> mcmp A C = Lt.
Proof.
  unfold mcmp.
  destruct (Nat.compare (nr A) (nr B)) eqn:E1; try discriminate;
  destruct (Nat.compare (nr B) (nr C)) eqn:E2; try discriminate;
    try (apply Nat.compare_eq in E1); try (apply Nat.compare_eq in E2).
  - rewrite E1, E2, Nat.compare_refl.
    destruct (Nat.compare (nc A) (nc B)) eqn:F1; try discriminate;
    destruct (Nat.compare (nc B) (nc C)) eqn:F2; try discriminate;
      try (apply Nat.compare_eq in F1); try (apply Nat.compare_eq in F2).
    + rewrite F1, F2, Nat.compare_refl. apply list_cmp_lt_trans.
    + intros _ _. now rewrite F1, F2.
    + intros _ _. now rewrite <- F2, F1.
    + intros _ _. now rewrite (nat_compare_lt_trans _ _ _ F1 F2).
  - intros _ _. now rewrite E1, E2.
  - intros _ _. now rewrite <- E2, E1.
  - intros _ _. now rewrite (nat_compare_lt_trans _ _ _ E1 E2).
Qed.

Theorem mcmp_gt_trans A B C : mcmp A B = Gt -> mcmp B C = Gt -> mcmp A C = Gt.
Proof.
  intros H1 H2. rewrite mcmp_antisym in H1, H2 |- *.
  destruct (mcmp B A) eqn:E1; try discriminate. destruct (mcmp C B) eqn:E2; try discriminate.
  now rewrite (mcmp_lt_trans C B A E2 E1).
Qed.

(** C17: transitivity of the non-strict order (cmp <= 0) *)
Theorem mcmp_le_trans A B C : wf A -> wf B -> wf C ->
  mcmp A B <> Gt -> mcmp B C <> Gt -> mcmp A C <> Gt.
Proof.
  intros HA HB HC H1 H2.
  destruct (mcmp A B) eqn:E1; try congruence; destruct (mcmp B C) eqn:E2; try congruence.
  - apply mcmp_eq in E1; auto. subst. now rewrite E2.
  - apply mcmp_eq in E1; auto. subst. now rewrite E2.
  - apply mcmp_eq in E2; auto. subst. now rewrite E1.
  - now rewrite (mcmp_lt_trans A B C E1 E2).
Qed.

(** what decides the comparison: number of rows, then number of columns, then the first
    differing row compared as an integer (high column = more significant) *)
Theorem mcmp_same_dims A B : nr A = nr B -> nc A = nc B -> mcmp A B = list_cmp (rows A) (rows B).
Proof. intros Hr Hc. unfold mcmp. now rewrite Hr, Hc, !Nat.compare_refl. Qed.

(** * is_zero *)
(** C17: the zero test holds exactly for all-zero matrices (no hypothesis needed) *)
Theorem is_zero_spec A : is_zero A = true <-> forall i j, get A i j = false.
Proof.
  unfold is_zero. rewrite forallb_forall. split.
  - intros H i j. unfold get, row. destruct (Nat.lt_ge_cases i (length (rows A))) as [Hi|Hi].
    + specialize (H _ (nth_In _ 0%N Hi)). apply N.eqb_eq in H. rewrite <- H. apply N.bits_0.
    + rewrite nth_overflow by assumption. apply N.bits_0.
  - intros H r Hr. apply N.eqb_eq. destruct (In_nth _ _ 0%N Hr) as [i [Hi <-]].
    symmetry. apply bits_ext_nat. intros j. rewrite N.bits_0. apply (H i j).
Qed.

Corollary is_zero_mzero A : wf A -> (is_zero A = true <-> A = mzero (nr A) (nc A)).
Proof.
  intros HA. rewrite is_zero_spec. split.
  - intros H. apply mat_ext; auto using wf_mzero. intros i j _ _. now rewrite H, get_mzero.
  - intros -> i j. apply get_mzero.
Qed.

(** * first_zero_row *)
Lemma first_zero_row_aux_spec rs i acc : acc <= i ->
  let k := first_zero_row_aux rs i acc in
  acc <= k /\ k <= i + length rs /\
  (k = acc \/ (i < k /\ nth (k - 1 - i) rs 0%N <> 0%N)) /\
  (forall m, m < length rs -> k <= i + m -> nth m rs 0%N = 0%N).
Proof.
  revert i acc. induction rs as [|r t IH]; intros i acc Hacc; cbn [first_zero_row_aux length].
  - repeat split; try lia.
  - set (acc' := if N.eqb r 0 then acc else S i).
    assert (Hacc' : acc' <= S i) by (subst acc'; destruct (N.eqb r 0); lia).
    assert (Hle : acc <= acc') by (subst acc'; destruct (N.eqb r 0); lia).
    destruct (IH (S i) acc' Hacc') as (H1 & H2 & H3 & H4).
    set (k := first_zero_row_aux t (S i) acc') in *.
    split; [lia|]. split; [lia|]. split.
    + destruct H3 as [H3|[H3 H3']].
      * subst acc'. destruct (N.eqb_spec r 0) as [Hr|Hr]; [now left|right].
        split; [lia|]. replace (k - 1 - i) with 0 by lia. exact Hr.
      * right. split; [lia|]. replace (k - 1 - i) with (S (k - 1 - S i)) by lia. exact H3'.
    + intros [|m] Hm Hk.
      * cbn [nth]. subst acc'. destruct (N.eqb_spec r 0); [assumption|lia].
      * cbn [nth]. apply H4; lia.
Qed.

(** C17: the zero-row query returns the index one past the last non-zero row *)
Theorem first_zero_row_spec A : wf A -> let k := first_zero_row A in
  (forall i, k <= i -> row A i = 0%N) /\ (k > 0 -> row A (k - 1) <> 0%N) /\ k <= nr A.
Proof.
  intros HA k. pose proof (wf_len A HA) as Hl.
  destruct (first_zero_row_aux_spec (rows A) 0 0 (le_n 0)) as (_ & H2 & H3 & H4).
  fold (first_zero_row A) in H2, H3, H4. fold k in H2, H3, H4. cbn [Nat.add] in *.
  split; [|split].
  - intros i Hi. destruct (Nat.lt_ge_cases i (length (rows A))).
    + now apply H4.
    + now apply row_overflow.
  - intros Hk. destruct H3 as [H3|[_ H3]]; [lia|]. now rewrite Nat.sub_0_r in H3.
  - lia.
Qed.

(** equivalently, in terms of entries *)
Corollary first_zero_row_entries A : wf A -> let k := first_zero_row A in
  (forall i j, k <= i -> get A i j = false) /\
  (k > 0 -> exists j, j < nc A /\ get A (k - 1) j = true) /\ k <= nr A.
Proof.
  intros HA k. destruct (first_zero_row_spec A HA) as (H1 & H2 & H3). fold k in H1, H2, H3.
  split; [|split; [|assumption]].
  - intros i j Hi. unfold get. rewrite H1 by assumption. apply N.bits_0.
  - intros Hk. specialize (H2 Hk).
    destruct (N.eq_dec (row A (k - 1)) 0) as [E|E]; [contradiction|].
    exists (N.to_nat (N.log2 (row A (k - 1)))).
    assert (Hb : get A (k - 1) (N.to_nat (N.log2 (row A (k - 1)))) = true).
    { unfold get. rewrite N2Nat.id. now apply N.bit_log2. }
    split; [|exact Hb]. now apply (get_in A (k - 1)).
Qed.

(** * lowbit *)
Lemma ctz_pos_spec p :
  N.testbit (Npos p) (N.of_nat (ctz_pos p)) = true /\
  forall j, j < ctz_pos p -> N.testbit (Npos p) (N.of_nat j) = false.
Proof.
  induction p as [q IH|q IH|]; cbn [ctz_pos].
  - split; [reflexivity|intros j Hj; lia].
  - destruct IH as [IH1 IH2]. change (Npos q~0) with (2 * Npos q)%N. split.
    + rewrite Nat2N.inj_succ, N.testbit_even_succ by lia. exact IH1.
    + intros [|j] Hj.
      * apply N.testbit_even_0.
      * rewrite Nat2N.inj_succ, N.testbit_even_succ by lia. apply IH2. lia.
  - split; [reflexivity|intros j Hj; lia].
Qed.

(** [lowbit r] = index of the least significant set bit = left-most column of the row *)
Theorem lowbit_spec r :
  match lowbit r with
  | None => r = 0%N
  | Some l => N.testbit r (N.of_nat l) = true /\ forall j, j < l -> N.testbit r (N.of_nat j) = false
  end.
Proof. destruct r as [|p]; cbn [lowbit]; [reflexivity|apply ctz_pos_spec]. Qed.

Corollary lowbit_none r : lowbit r = None <-> r = 0%N.
Proof. destruct r; cbn [lowbit]; split; congruence. Qed.

Corollary lowbit_unique r l : N.testbit r (N.of_nat l) = true ->
  (forall j, j < l -> N.testbit r (N.of_nat j) = false) -> lowbit r = Some l.
Proof.
  intros H1 H2. pose proof (lowbit_spec r) as H. destruct (lowbit r) as [l'|].
  - destruct H as [H3 H4]. f_equal.
    destruct (Nat.lt_trichotomy l l') as [Hlt|[->|Hlt]]; [|reflexivity|].
    + rewrite H4 in H1 by assumption. discriminate.
    + rewrite H2 in H3 by assumption. discriminate.
  - subst. rewrite N.bits_0 in H1. discriminate.
Qed.

(** lowbit of a row shifted right by c0, read back in the coordinates of the row *)
Lemma lowbit_shiftr_spec r c0 :
  match lowbit (N.shiftr r (N.of_nat c0)) with
  | None => forall j, c0 <= j -> N.testbit r (N.of_nat j) = false
  | Some l => N.testbit r (N.of_nat (c0 + l)) = true /\
              forall j, c0 <= j -> j < c0 + l -> N.testbit r (N.of_nat j) = false
  end.
Proof.
  pose proof (lowbit_spec (N.shiftr r (N.of_nat c0))) as H.
  destruct (lowbit (N.shiftr r (N.of_nat c0))) as [l|].
  - destruct H as [H1 H2]. rewrite testbit_shiftr_nat in H1. split.
    + now rewrite Nat.add_comm.
    + intros j Hj1 Hj2. specialize (H2 (j - c0)). rewrite testbit_shiftr_nat in H2.
      replace (j - c0 + c0) with j in H2 by lia. apply H2. lia.
  - intros j Hj. replace j with (j - c0 + c0) by lia. rewrite <- testbit_shiftr_nat, H. apply N.bits_0.
Qed.

(** * find_pivot *)
Ltac fp_fin i :=
  repeat split; auto; try lia; intros;
  try match goal with |- _ ?m _ = false => destruct (Nat.eq_dec m i); subst end;
  match goal with
  | H : forall _, _ |- _ => solve [apply H; lia]
  end.

Section FindPivot.
  Variable L : list N.       (* all rows *)
  Variables r0 c0 : nat.
  Let bit (m j : nat) : bool := N.testbit (nth m L 0%N) (N.of_nat j).

  (** what is known after the rows < i have been scanned *)
  Definition fp_inv (i : nat) (best : option (nat * nat)) : Prop :=
    match best with
    | None => forall m j, r0 <= m -> m < i -> c0 <= j -> bit m j = false
    | Some (rb, cb) =>
        r0 <= rb /\ rb < i /\ c0 <= cb /\ bit rb cb = true /\
        (forall m j, r0 <= m -> m < i -> c0 <= j -> j < cb -> bit m j = false) /\
        (forall m, r0 <= m -> m < rb -> bit m cb = false)
    end.

  Lemma find_pivot_aux_inv rs i best :
    (forall m, m < length rs -> nth m rs 0%N = nth (i + m) L 0%N) ->
    fp_inv i best -> fp_inv (i + length rs) (find_pivot_aux rs i r0 c0 best).
  Proof.
    revert i best. induction rs as [|r t IH]; intros i best Hrs Hinv; cbn [find_pivot_aux length].
    - now rewrite Nat.add_0_r.
    - replace (i + S (length t)) with (S i + length t) by lia. apply IH.
      + intros m Hm. replace (S i + m) with (i + S m) by lia. apply (Hrs (S m)). cbn [length]. lia.
      + assert (Hr : r = nth i L 0%N).
        { specialize (Hrs 0). cbn [nth length] in Hrs. rewrite Nat.add_0_r in Hrs. apply Hrs. lia. }
        pose proof (lowbit_shiftr_spec r c0) as Hlow.
        destruct (Nat.ltb_spec i r0) as [Hlt|Hge];
          [|destruct (lowbit (N.shiftr r (N.of_nat c0))) as [l|]; rewrite Hr in Hlow;
            [destruct Hlow as [Hl1 Hl2]|]];
          (destruct best as [[rb cb]|];
           [destruct Hinv as (H1 & H2 & H3 & H4 & H5 & H6); try destruct (Nat.ltb_spec (c0 + l) cb)|]);
          cbn [fp_inv] in *; fp_fin i.
  Qed.
End FindPivot.

Lemma find_pivot_inv A r0 c0 : fp_inv (rows A) r0 c0 (length (rows A)) (find_pivot A r0 c0).
Proof.
  unfold find_pivot.
  apply (find_pivot_aux_inv (rows A) r0 c0 (rows A) 0 None); [reflexivity|].
  cbn [fp_inv]. intros; lia.
Qed.

(** C17: pivot search fails exactly when the region (rows >= r0, columns >= c0) is zero;
    otherwise it returns a one in the left-most non-zero column of the region — and, among the
    rows holding a one there, the first *)
Theorem find_pivot_spec A r0 c0 : wf A ->
  (find_pivot A r0 c0 = None <-> forall i j, r0 <= i -> c0 <= j -> get A i j = false) /\
  (forall r c, find_pivot A r0 c0 = Some (r, c) ->
     get A r c = true /\ r0 <= r < nr A /\ c0 <= c < nc A /\
     (forall i j, r0 <= i -> c0 <= j -> j < c -> get A i j = false) /\
     (forall i, r0 <= i -> i < r -> get A i c = false)).
Proof.
  intros HA. pose proof (wf_len A HA) as Hl. pose proof (find_pivot_inv A r0 c0) as Hinv.
  assert (HSome : forall r c, find_pivot A r0 c0 = Some (r, c) ->
     get A r c = true /\ r0 <= r < nr A /\ c0 <= c < nc A /\
     (forall i j, r0 <= i -> c0 <= j -> j < c -> get A i j = false) /\
     (forall i, r0 <= i -> i < r -> get A i c = false)).
  { intros r c E. rewrite E in Hinv. cbn [fp_inv] in Hinv.
    destruct Hinv as (H1 & H2 & H3 & H4 & H5 & H6).
    change (get A r c = true) in H4. destruct (get_in A r c HA H4) as [Hr Hc].
    repeat split; auto; try lia.
    intros i j Hi Hj1 Hj2. destruct (Nat.lt_ge_cases i (length (rows A))).
    - now apply H5.
    - now apply get_overflow. }
  split; [|exact HSome].
  split.
  - intros E. rewrite E in Hinv. cbn [fp_inv] in Hinv. intros i j Hi Hj.
    destruct (Nat.lt_ge_cases i (length (rows A))).
    + now apply Hinv.
    + now apply get_overflow.
  - intros Hz. destruct (find_pivot A r0 c0) as [[r c]|] eqn:E; [|reflexivity].
    destruct (HSome r c eq_refl) as (H1 & H2 & H3 & _). rewrite Hz in H1 by lia. discriminate.
Qed.

(** the result is determined by the abstract matrix: column = left-most non-zero column of the
    region, row = first row of the region with a one in that column *)
Corollary find_pivot_unique A r0 c0 r c : wf A ->
  get A r c = true -> r0 <= r -> c0 <= c ->
  (forall i j, r0 <= i -> c0 <= j -> j < c -> get A i j = false) ->
  (forall i, r0 <= i -> i < r -> get A i c = false) ->
  find_pivot A r0 c0 = Some (r, c).
Proof.
  intros HA Hg Hr Hc Hleft Habove. destruct (find_pivot_spec A r0 c0 HA) as [HN HS].
  destruct (find_pivot A r0 c0) as [[r' c']|] eqn:E.
  - destruct (HS r' c' eq_refl) as (G1 & G2 & G3 & G4 & G5).
    assert (c' = c).
    { destruct (Nat.lt_trichotomy c' c) as [Hlt|[->|Hlt]]; [|reflexivity|].
      - rewrite Hleft in G1 by lia. discriminate.
      - rewrite G4 in Hg by lia. discriminate. }
    subst c'. assert (r' = r); [|now subst].
    destruct (Nat.lt_trichotomy r' r) as [Hlt|[->|Hlt]]; [|reflexivity|].
    + rewrite Habove in G1 by lia. discriminate.
    + rewrite G5 in Hg by lia. discriminate.
  - rewrite (proj1 HN eq_refl) in Hg by assumption. discriminate.
Qed.
