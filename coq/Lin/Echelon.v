(* Lin/Echelon.v — echelon forms over GF(2) (definitions of Lin/Spec.v):
   characterisation of [lead], the leading-position lemma ("the leads of the non-zero vectors of
   the row space of an echelon form are exactly its pivot columns"), uniqueness of the pivot
   list of a row echelon form and of the reduced row echelon form within a row-equivalence class,
   and the link between pivots and the column rank profile / rank of Spec.v.
   Part of property C02. *)
From Coq Require Import List NArith Arith Lia Bool Sorted.
From M4 Require Import Base.Bits Lin.Mat Lin.MatAlg Lin.Ops Lin.Spec Lin.Span.
Import ListNotations.
Local Open Scope nat_scope.

(** * [lowbit] / [lead] *)
Lemma testbit_pos_xO p n :
  N.testbit (N.pos p~0) (N.of_nat (S n)) = N.testbit (N.pos p) (N.of_nat n).
Proof.
  rewrite Nat2N.inj_succ. change (N.pos p~0) with (2 * N.pos p)%N. apply N.double_bits_succ.
Qed.

Lemma ctz_pos_spec p :
  N.testbit (N.pos p) (N.of_nat (ctz_pos p)) = true /\
  forall j, j < ctz_pos p -> N.testbit (N.pos p) (N.of_nat j) = false.
Proof.
  induction p as [p IH|p IH|]; cbn [ctz_pos].
  - split; [reflexivity|intros j Hj; lia].
  - destruct IH as [H1 H2]. split; [now rewrite testbit_pos_xO|].
    intros [|j] Hj; [reflexivity|]. rewrite testbit_pos_xO. apply H2. lia.
  - split; [reflexivity|intros j Hj; lia].
Qed.

Theorem lead_Some r j :
  lead r = Some j <->
  N.testbit r (N.of_nat j) = true /\ forall j', j' < j -> N.testbit r (N.of_nat j') = false.
Proof.
  unfold lead, lowbit. destruct r as [|p].
  - split; [discriminate|]. intros [H _]. rewrite N.bits_0 in H. discriminate.
  - destruct (ctz_pos_spec p) as [H1 H2]. split.
    + intros [= <-]. now split.
    + intros [H3 H4]. f_equal.
      destruct (Nat.lt_trichotomy (ctz_pos p) j) as [Hlt|[Heq|Hgt]]; [|assumption|].
      * rewrite H4 in H1 by assumption. discriminate.
      * rewrite H2 in H3 by assumption. discriminate.
Qed.

Theorem lead_None r : lead r = None <-> r = 0%N.
Proof. unfold lead, lowbit. destruct r; split; intros H; try reflexivity; discriminate. Qed.

Lemma lead_0 : lead 0 = None.
Proof. reflexivity. Qed.

Lemma lead_nonzero r j : lead r = Some j -> r <> 0%N.
Proof. intros H ->. discriminate. Qed.

Lemma lead_exists r : r <> 0%N -> exists j, lead r = Some j.
Proof. destruct r as [|p]; [congruence|]. intros _. now exists (ctz_pos p). Qed.

Lemma lead_bit r j : lead r = Some j -> N.testbit r (N.of_nat j) = true.
Proof. intros H. now apply lead_Some in H. Qed.

Lemma lead_before r j j' : lead r = Some j -> j' < j -> N.testbit r (N.of_nat j') = false.
Proof. intros H. apply lead_Some in H. now apply H. Qed.

(** adding something that vanishes up to and including the lead does not move the lead *)
Lemma lead_lxor_above r x j : lead r = Some j ->
  (forall j', j' <= j -> N.testbit x (N.of_nat j') = false) -> lead (N.lxor r x) = Some j.
Proof.
  intros H Hx. apply lead_Some in H as [H1 H2]. apply lead_Some. split.
  - now rewrite N.lxor_spec, H1, Hx.
  - intros j' Hj'. rewrite N.lxor_spec, H2, Hx by lia. reflexivity.
Qed.

(** * strictly sorted lists of naturals *)
Lemma sorted_nth_lt l i k : StronglySorted lt l -> i < k -> k < length l -> nth i l 0 < nth k l 0.
Proof.
  intros H; revert i k; induction H as [|a l Hs IH Hall]; intros i k Hik Hk; cbn [length] in Hk; [lia|].
  destruct k as [|k]; [lia|]. destruct i as [|i]; cbn [nth].
  - rewrite Forall_forall in Hall. apply Hall, nth_In. lia.
  - apply IH; lia.
Qed.

Lemma sorted_nth_le l i k : StronglySorted lt l -> i <= k -> k < length l -> nth i l 0 <= nth k l 0.
Proof.
  intros H Hik Hk. destruct (Nat.eq_dec i k) as [->|Hne]; [lia|].
  apply Nat.lt_le_incl, sorted_nth_lt; [assumption|lia|assumption].
Qed.

Lemma sorted_nth_inj l i k : StronglySorted lt l -> i < length l -> k < length l ->
  nth i l 0 = nth k l 0 -> i = k.
Proof.
  intros H Hi Hk E. destruct (Nat.lt_trichotomy i k) as [Hlt|[Heq|Hgt]]; [|assumption|].
  - pose proof (sorted_nth_lt l i k H Hlt Hk). lia.
  - pose proof (sorted_nth_lt l k i H Hgt Hi). lia.
Qed.

Lemma sorted_lt_ext p q : StronglySorted lt p -> StronglySorted lt q ->
  (forall j, In j p <-> In j q) -> p = q.
Proof.
  intros Hp; revert q; induction Hp as [|a p Hsp IH Ha]; intros q Hq H.
  - destruct q as [|b q]; [reflexivity|]. exfalso. apply (proj2 (H b)). now left.
  - destruct Hq as [|b q Hsq Hb].
    + exfalso. apply (proj1 (H a)). now left.
    + rewrite Forall_forall in Ha, Hb.
      assert (Hab : a = b).
      { destruct (proj1 (H a) (or_introl eq_refl)) as [E|Hin]; [now symmetry|].
        destruct (proj2 (H b) (or_introl eq_refl)) as [E|Hin']; [assumption|].
        pose proof (Hb a Hin). pose proof (Ha b Hin'). lia. }
      subst b. f_equal. apply IH; [assumption|]. intros j. split; intros Hj.
      * destruct (proj1 (H j) (or_intror Hj)) as [E|Hin]; [|assumption].
        pose proof (Ha j Hj). lia.
      * destruct (proj2 (H j) (or_intror Hj)) as [E|Hin]; [|assumption].
        pose proof (Hb j Hj). lia.
Qed.

Lemma sorted_app_single l c : StronglySorted lt l -> (forall j, In j l -> j < c) ->
  StronglySorted lt (l ++ [c]).
Proof.
  intros H; induction H as [|a l Hs IH Hall]; intros Hc; cbn [app].
  - constructor; constructor.
  - constructor.
    + apply IH. intros j Hj. apply Hc. now right.
    + apply Forall_app. split; [assumption|]. constructor; [|constructor]. apply Hc. now left.
Qed.

(** * Row echelon forms: basic consequences of [is_ref] *)
Lemma ref_sorted M piv : is_ref M piv -> StronglySorted lt piv.
Proof. now intros [H _]. Qed.

Lemma ref_lead M piv i : is_ref M piv -> i < length piv -> lead (row M i) = Some (nth i piv 0).
Proof. intros [_ [_ [H _]]]. apply H. Qed.

Lemma ref_row_zero M piv i : is_ref M piv -> length piv <= i -> row M i = 0%N.
Proof. intros [_ [_ [_ H]]]. apply H. Qed.

Lemma ref_get_zero M piv i j : is_ref M piv -> length piv <= i -> get M i j = false.
Proof. intros H Hi. unfold get. rewrite (ref_row_zero M piv i H Hi). apply N.bits_0. Qed.

Lemma ref_get_pivot M piv i : is_ref M piv -> i < length piv -> get M i (nth i piv 0) = true.
Proof. intros H Hi. unfold get. apply lead_bit. now apply (ref_lead M piv). Qed.

Lemma ref_get_before M piv i j : is_ref M piv -> i < length piv -> j < nth i piv 0 -> get M i j = false.
Proof. intros H Hi Hj. unfold get. apply (lead_before _ (nth i piv 0)); [now apply (ref_lead M piv)|assumption]. Qed.

Lemma ref_lt_rows M piv i : is_ref M piv -> i < length piv -> i < length (rows M).
Proof.
  intros H Hi. apply row_nonzero_lt. apply (lead_nonzero _ (nth i piv 0)). now apply (ref_lead M piv).
Qed.

Lemma ref_piv_lt_nc M piv j : wf M -> is_ref M piv -> In j piv -> j < nc M.
Proof.
  intros HM H Hj. destruct (In_nth _ _ 0 Hj) as [i [Hi <-]].
  apply (get_in M i); [assumption|]. now apply (ref_get_pivot M piv).
Qed.

(** * The leading-position lemma *)
(** a combination that uses none of the non-zero rows is zero *)
Lemma ref_vmul_zero M piv c : is_ref M piv ->
  (forall k, k < length piv -> N.testbit c (N.of_nat k) = false) -> vmul c M = 0%N.
Proof.
  intros Href Hc. apply bits_ext_nat. intros j. rewrite testbit_vmul, N.bits_0.
  apply xsum_zero. intros k _. destruct (Nat.lt_ge_cases k (length piv)) as [Hk|Hk].
  - now rewrite Hc.
  - rewrite (ref_get_zero M piv) by assumption. apply andb_false_r.
Qed.

(** the lead of a combination is the pivot of the first non-zero row it uses *)
Lemma ref_vmul_lead M piv c i : is_ref M piv -> i < length piv ->
  N.testbit c (N.of_nat i) = true -> (forall k, k < i -> N.testbit c (N.of_nat k) = false) ->
  lead (vmul c M) = Some (nth i piv 0).
Proof.
  intros Href Hi Hci Hmin. pose proof (ref_sorted M piv Href) as Hs. apply lead_Some. split.
  - rewrite testbit_vmul. rewrite (xsum_single _ _ i).
    + now rewrite Hci, (ref_get_pivot M piv).
    + now apply (ref_lt_rows M piv).
    + intros k _ Hne. destruct (Nat.lt_ge_cases k i) as [Hk|Hk]; [now rewrite Hmin|].
      destruct (Nat.lt_ge_cases k (length piv)) as [Hk'|Hk'].
      * rewrite (ref_get_before M piv k); [apply andb_false_r|assumption..|].
        apply sorted_nth_lt; [assumption|lia|assumption].
      * rewrite (ref_get_zero M piv) by assumption. apply andb_false_r.
  - intros j' Hj'. rewrite testbit_vmul. apply xsum_zero. intros k _.
    destruct (Nat.lt_ge_cases k i) as [Hk|Hk]; [now rewrite Hmin|].
    destruct (Nat.lt_ge_cases k (length piv)) as [Hk'|Hk'].
    + rewrite (ref_get_before M piv k); [apply andb_false_r|assumption..|].
      pose proof (sorted_nth_le piv i k Hs Hk Hk'). lia.
    + rewrite (ref_get_zero M piv) by assumption. apply andb_false_r.
Qed.

(** every non-zero vector of the row space of an echelon form leads at a pivot column ... *)
Theorem ref_lead_in_piv M piv v : is_ref M piv -> in_rowspace v M -> v <> 0%N ->
  exists i, i < length piv /\ lead v = Some (nth i piv 0).
Proof.
  intros Href [c <-] Hv.
  destruct (least_witness (fun k => N.testbit c (N.of_nat k)) (length piv)) as [[i [Hi [Hci Hmin]]]|Hnone].
  - exists i. split; [assumption|]. now apply (ref_vmul_lead M piv c i).
  - exfalso. apply Hv. now apply (ref_vmul_zero M piv).
Qed.

(** ... and every pivot column is the lead of a row-space vector (its own row) *)
Theorem ref_piv_is_lead M piv i : is_ref M piv -> i < length piv ->
  in_rowspace (row M i) M /\ lead (row M i) = Some (nth i piv 0).
Proof. intros Href Hi. split; [apply in_rowspace_row|now apply (ref_lead M piv)]. Qed.

Corollary ref_lead_iff M piv : is_ref M piv ->
  forall j, In j piv <-> exists v, in_rowspace v M /\ lead v = Some j.
Proof.
  intros Href j. split.
  - intros Hj. destruct (In_nth _ _ 0 Hj) as [i [Hi <-]]. exists (row M i).
    now apply ref_piv_is_lead.
  - intros [v [Hv Hl]]. destruct (ref_lead_in_piv M piv v Href Hv (lead_nonzero v j Hl)) as [i [Hi Hl']].
    rewrite Hl in Hl'. injection Hl' as ->. now apply nth_In.
Qed.

(** the non-zero rows of an echelon form are linearly independent *)
Corollary ref_rows_independent M piv c : is_ref M piv -> vmul c M = 0%N ->
  forall k, k < length piv -> N.testbit c (N.of_nat k) = false.
Proof.
  intros Href Hz.
  destruct (least_witness (fun k => N.testbit c (N.of_nat k)) (length piv)) as [[i [Hi [Hci Hmin]]]|Hnone];
    [|assumption].
  pose proof (ref_vmul_lead M piv c i Href Hi Hci Hmin) as Hl. rewrite Hz in Hl. discriminate.
Qed.

(** * Uniqueness of the pivots of a row echelon form (no well-formedness needed) *)
Theorem ref_pivots_unique R S p q : is_ref R p -> is_ref S q -> row_equiv R S -> p = q.
Proof.
  intros HR HS Heq. apply sorted_lt_ext; [now apply (ref_sorted R)|now apply (ref_sorted S)|].
  intros j. rewrite (ref_lead_iff R p HR), (ref_lead_iff S q HS).
  split; intros [v [Hv Hl]]; exists v; (split; [|assumption]);
    now apply (row_equiv_in_rowspace R S v Heq).
Qed.

Corollary ref_npivots_unique R S p q : is_ref R p -> is_ref S q -> row_equiv R S -> length p = length q.
Proof. intros HR HS Heq. now rewrite (ref_pivots_unique R S p q). Qed.

(** * Uniqueness of the reduced row echelon form *)
Lemma rref_ref M piv : is_rref M piv -> is_ref M piv.
Proof. now intros [H _]. Qed.

Lemma rref_get_other M piv i i' : is_rref M piv -> i < length piv -> i' <> i ->
  get M i' (nth i piv 0) = false.
Proof. intros [_ H]. apply H. Qed.

Lemma rref_get_pivcol M piv i i' : is_rref M piv -> i < length piv -> i' < length piv ->
  get M i' (nth i piv 0) = (i' =? i).
Proof.
  intros H Hi Hi'. destruct (Nat.eqb_spec i' i) as [->|Hne].
  - apply (ref_get_pivot M piv); [now apply rref_ref|assumption].
  - now apply (rref_get_other M piv).
Qed.

Theorem rref_unique R S p q : wf R -> wf S -> is_rref R p -> is_rref S q -> row_equiv R S ->
  R = S /\ p = q.
Proof.
  intros HR HS HrR HrS Heq.
  pose proof (rref_ref R p HrR) as HrefR. pose proof (rref_ref S q HrS) as HrefS.
  assert (Hpq : p = q) by now apply (ref_pivots_unique R S).
  subst q. split; [|reflexivity].
  destruct Heq as [Hnr [Hnc [HRS HSR]]].
  assert (Hrows : forall i, row R i = row S i).
  { intros i. destruct (Nat.lt_ge_cases i (length p)) as [Hi|Hi].
    - destruct (N.eq_dec (N.lxor (row R i) (row S i)) 0) as [Hv|Hv]; [now apply N.lxor_eq|].
      exfalso.
      assert (Hin : in_rowspace (N.lxor (row R i) (row S i)) R).
      { apply in_rowspace_lxor; [apply in_rowspace_row|].
        apply (in_rowspace_incl _ S); [apply in_rowspace_row|exact HSR]. }
      destruct (ref_lead_in_piv R p _ HrefR Hin Hv) as [k [Hk Hlead]].
      apply lead_bit in Hlead. rewrite N.lxor_spec in Hlead.
      change (xorb (get R i (nth k p 0)) (get S i (nth k p 0)) = true) in Hlead.
      rewrite (rref_get_pivcol R p k i), (rref_get_pivcol S p k i) in Hlead by assumption.
      rewrite xorb_nilpotent in Hlead. discriminate.
    - now rewrite (ref_row_zero R p), (ref_row_zero S p). }
  apply mat_ext; try assumption. intros i j _ _. unfold get. now rewrite Hrows.
Qed.

(** * Column rank profile and rank *)
(** [cdep n x j a] : does row [a] violate "column j = combination x of the columns < j"? *)
Definition dotn (n : nat) (a b : N) : bool :=
  xsum n (fun k => N.testbit a (N.of_nat k) && N.testbit b (N.of_nat k)).
Definition cdep (n : nat) (x : N) (j : nat) (a : N) : bool :=
  xorb (dotn n x a) (N.testbit a (N.of_nat j)).

Lemma dotn_0_r n x : dotn n x 0 = false.
Proof. unfold dotn. apply xsum_zero. intros k _. rewrite N.bits_0. apply andb_false_r. Qed.

Lemma dotn_lxor_r n x a b : dotn n x (N.lxor a b) = xorb (dotn n x a) (dotn n x b).
Proof.
  unfold dotn. rewrite <- xsum_xor. apply xsum_ext. intros k _. rewrite N.lxor_spec.
  destruct (N.testbit x _), (N.testbit a _), (N.testbit b _); reflexivity.
Qed.

Lemma cdep_0 n x j : cdep n x j 0 = false.
Proof. unfold cdep. now rewrite dotn_0_r, N.bits_0. Qed.

Lemma cdep_lxor n x j a b : cdep n x j (N.lxor a b) = xorb (cdep n x j a) (cdep n x j b).
Proof.
  unfold cdep. rewrite dotn_lxor_r, N.lxor_spec.
  destruct (dotn n x a), (dotn n x b), (N.testbit a _), (N.testbit b _); reflexivity.
Qed.

Lemma testbit_mul_row_mtrans A x i : wf A ->
  N.testbit (mul_row x (rows (mtrans A))) (N.of_nat i) = dotn (nc A) x (row A i).
Proof.
  intros HA. rewrite testbit_mul_row.
  assert (Hl : length (rows (mtrans A)) = nc A) by (cbn [rows mtrans]; now rewrite map_length, seq_length).
  rewrite Hl. unfold dotn. apply xsum_ext. intros k _. f_equal.
  change (get (mtrans A) k i = get A i k). now apply get_mtrans.
Qed.

(** [col_dependent] read row by row *)
Lemma col_dependent_iff A j : wf A ->
  (col_dependent A j <-> exists x, bounded j x /\ forall i, cdep (nc A) x j (row A i) = false).
Proof.
  intros HA. unfold col_dependent. split; intros [x [Hb H]]; exists x; (split; [assumption|]).
  - intros i. unfold cdep. rewrite <- testbit_mul_row_mtrans by assumption. rewrite H.
    change (xorb (get (mtrans A) j i) (get A i j) = false). rewrite get_mtrans by assumption.
    apply xorb_nilpotent.
  - apply bits_ext_nat. intros i. rewrite testbit_mul_row_mtrans by assumption.
    change (dotn (nc A) x (row A i) = get (mtrans A) j i). rewrite get_mtrans by assumption.
    apply xorb_eq. apply H.
Qed.

(** dependence of a column on the earlier ones only depends on the row space *)
Lemma col_dependent_rs_incl A M j : wf A -> wf M -> nc A = nc M -> rs_incl M A ->
  col_dependent A j -> col_dependent M j.
Proof.
  intros HA HM Hnc Hincl. rewrite (col_dependent_iff A j HA), (col_dependent_iff M j HM).
  intros [x [Hb H]]. exists x. split; [assumption|]. intros i. rewrite <- Hnc.
  destruct (rs_incl_row M A i Hincl) as [c <-]. unfold vmul.
  apply mul_row_linear; [apply cdep_0|apply cdep_lxor|].
  intros r Hr. destruct (In_nth _ _ 0%N Hr) as [i' [_ <-]]. apply H.
Qed.

Lemma col_dependent_row_equiv A M j : wf A -> wf M -> row_equiv A M ->
  (col_dependent A j <-> col_dependent M j).
Proof.
  intros HA HM [_ [Hnc [H1 H2]]]. split; apply col_dependent_rs_incl; auto.
Qed.

(** pivot columns of an echelon form do not depend on the earlier columns *)
Lemma ref_col_independent M piv j : wf M -> is_ref M piv -> In j piv -> ~ col_dependent M j.
Proof.
  intros HM Href Hj. rewrite (col_dependent_iff M j HM). intros [x [Hb H]].
  destruct (In_nth _ _ 0 Hj) as [i [Hi <-]]. specialize (H i). unfold cdep in H.
  change (N.testbit (row M i) (N.of_nat (nth i piv 0))) with (get M i (nth i piv 0)) in H.
  rewrite (ref_get_pivot M piv) in H by assumption.
  assert (Hd : dotn (nc M) x (row M i) = false).
  { unfold dotn. apply xsum_zero. intros k _.
    destruct (Nat.lt_ge_cases k (nth i piv 0)) as [Hk|Hk].
    - change (N.testbit (row M i) (N.of_nat k)) with (get M i k).
      rewrite (ref_get_before M piv) by assumption. apply andb_false_r.
    - now rewrite Hb. }
  rewrite Hd in H. discriminate.
Qed.

(** in a reduced echelon form every other column is the combination of the earlier pivot
    columns given by its own entries *)
Definition pivcomb (M : mat) (piv : list nat) (j : nat) : N :=
  mul_row (col (rows M) j) (map (fun p => (2 ^ N.of_nat p)%N) piv).

Lemma testbit_pivcomb M piv j k :
  N.testbit (pivcomb M piv j) (N.of_nat k) =
  xsum (length piv) (fun i => get M i j && (nth i piv 0 =? k)).
Proof.
  unfold pivcomb. rewrite testbit_mul_row, map_length. apply xsum_ext. intros i Hi.
  rewrite testbit_col. rewrite (nth_map_default _ _ _ 0) by assumption.
  now rewrite testbit_pow2_nat.
Qed.

Lemma rref_col_dependent M piv j : wf M -> is_rref M piv -> j < nc M -> ~ In j piv ->
  col_dependent M j.
Proof.
  intros HM Hrr Hj Hnin. pose proof (rref_ref M piv Hrr) as Href.
  pose proof (ref_sorted M piv Href) as Hs.
  rewrite (col_dependent_iff M j HM). exists (pivcomb M piv j). split.
  - intros k Hk. destruct (N.testbit (pivcomb M piv j) (N.of_nat k)) eqn:E; [exfalso|reflexivity].
    rewrite testbit_pivcomb in E. apply xsum_true_ex in E as [i [Hi E]].
    apply andb_true_iff in E as [Hg E]. apply Nat.eqb_eq in E. subst k.
    destruct (Nat.lt_ge_cases j (nth i piv 0)) as [Hlt|Hge].
    + rewrite (ref_get_before M piv) in Hg by assumption. discriminate.
    + assert (j = nth i piv 0) by lia. subst j. apply Hnin. now apply nth_In.
  - intros i0. destruct (Nat.lt_ge_cases i0 (length piv)) as [Hi0|Hi0];
      [|rewrite (ref_row_zero M piv) by assumption; apply cdep_0].
    unfold cdep. change (N.testbit (row M i0) (N.of_nat j)) with (get M i0 j).
    assert (Hd : dotn (nc M) (pivcomb M piv j) (row M i0) = get M i0 j); [|rewrite Hd; apply xorb_nilpotent].
    unfold dotn.
    rewrite (xsum_ext _ _ (fun k => xsum (length piv)
               (fun i => get M i j && (nth i piv 0 =? k) && get M i0 k))).
    2:{ intros k _. rewrite testbit_pivcomb. symmetry. apply xsum_and_r. }
    rewrite xsum_exchange.
    rewrite (xsum_ext _ _ (fun i => get M i j && (i =? i0))).
    2:{ intros i Hi. rewrite (xsum_single _ _ (nth i piv 0)).
        - rewrite Nat.eqb_refl, andb_true_r. f_equal.
          rewrite (rref_get_pivcol M piv i i0) by assumption. apply Nat.eqb_sym.
        - apply (ref_piv_lt_nc M piv); [assumption..|now apply nth_In].
        - intros k _ Hne. destruct (Nat.eqb_spec (nth i piv 0) k); [congruence|].
          now rewrite andb_false_r. }
    rewrite (xsum_single _ _ i0 Hi0).
    + now rewrite Nat.eqb_refl, andb_true_r.
    + intros i _ Hne. destruct (Nat.eqb_spec i i0); [contradiction|apply andb_false_r].
Qed.

(** the pivots of a reduced echelon form of A are the column rank profile of A *)
Theorem crp_of_rref A M piv : wf A -> wf M -> is_rref M piv -> row_equiv A M -> is_crp A piv.
Proof.
  intros HA HM Hrr Heq. pose proof (rref_ref M piv Hrr) as Href.
  pose proof Heq as [_ [Hnc _]]. split; [now apply (ref_sorted M)|]. split.
  - intros j Hj. rewrite Hnc. now apply (ref_piv_lt_nc M piv).
  - intros j Hj. rewrite (col_dependent_row_equiv A M j HA HM Heq). split.
    + now apply ref_col_independent.
    + intros Hnd. destruct (in_dec Nat.eq_dec j piv) as [Hin|Hnin]; [assumption|].
      exfalso. apply Hnd. apply (rref_col_dependent M piv); [assumption..|lia|assumption].
Qed.

(** the column rank profile, hence the rank, is unique *)
Theorem is_crp_unique A l l' : is_crp A l -> is_crp A l' -> l = l'.
Proof.
  intros [Hs [Hlt H]] [Hs' [Hlt' H']]. apply sorted_lt_ext; [assumption..|].
  intros j. split; intros Hj.
  - apply H'; [now apply Hlt|]. apply H; [now apply Hlt|assumption].
  - apply H; [now apply Hlt'|]. apply H'; [now apply Hlt'|assumption].
Qed.

Theorem has_rank_unique A r r' : has_rank A r -> has_rank A r' -> r = r'.
Proof.
  intros [l [Hl <-]] [l' [Hl' <-]]. now rewrite (is_crp_unique A l l').
Qed.

Corollary rank_of_rref A M piv : wf A -> wf M -> is_rref M piv -> row_equiv A M ->
  has_rank A (length piv).
Proof. intros HA HM Hrr Heq. exists piv. split; [now apply (crp_of_rref A M)|reflexivity]. Qed.

(** row-equivalent matrices have the same rank profile and rank *)
Lemma is_crp_row_equiv A B l : wf A -> wf B -> row_equiv A B -> is_crp A l -> is_crp B l.
Proof.
  intros HA HB Heq [Hs [Hlt H]]. pose proof Heq as [_ [Hnc _]].
  split; [assumption|]. split.
  - intros j Hj. rewrite <- Hnc. now apply Hlt.
  - intros j Hj. rewrite <- (col_dependent_row_equiv A B j HA HB Heq). apply H. now rewrite Hnc.
Qed.

Lemma has_rank_row_equiv A B r : wf A -> wf B -> row_equiv A B -> has_rank A r -> has_rank B r.
Proof.
  intros HA HB Heq [l [Hl Hr]]. exists l. split; [now apply (is_crp_row_equiv A B)|assumption].
Qed.
