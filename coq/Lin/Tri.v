(* Lin/Tri.v — unit triangular matrices: entries of [unit_lower]/[unit_upper] (Lin/Spec.v),
   well-formedness, characteristic equations of products with a unit triangular factor,
   closure under product, 2 x 2 block decompositions, irrelevance of the other triangle. *)
From Coq Require Import List NArith Arith Lia Bool.
From M4 Require Import Base.Bits Lin.Mat Lin.MatAlg Lin.Ops Lin.Spec.
Import ListNotations.
Local Open Scope nat_scope.

(** * helpers *)
Lemma row_mk_map n c f i : i < n -> row (mk n c (map f (seq 0 n))) i = f i.
Proof.
  intros Hi. unfold row. cbn [rows]. rewrite (nth_map_default _ _ _ 0) by now rewrite seq_length.
  now rewrite seq_nth.
Qed.

Lemma row_mk_map_out n c f i : n <= i -> row (mk n c (map f (seq 0 n))) i = 0%N.
Proof. intros Hi. unfold row. cbn [rows]. apply nth_overflow. now rewrite map_length, seq_length. Qed.

Lemma wf_mk_map n c f : (forall i, i < n -> bounded c (f i)) -> wf (mk n c (map f (seq 0 n))).
Proof.
  intros H. apply wf_mk; [now rewrite map_length, seq_length|]. intros i Hi.
  rewrite (nth_map_default _ _ _ 0) by now rewrite seq_length. rewrite seq_nth by assumption. now apply H.
Qed.

Lemma testbit_ldiff_ones a i j :
  N.testbit (N.ldiff a (N.ones (N.of_nat i))) (N.of_nat j) = N.testbit a (N.of_nat j) && negb (j <? i).
Proof. now rewrite N.ldiff_spec, testbit_ones_nat. Qed.

Lemma testbit_land_ones a i j :
  N.testbit (N.land a (N.ones (N.of_nat i))) (N.of_nat j) = N.testbit a (N.of_nat j) && (j <? i).
Proof. now rewrite N.land_spec, testbit_ones_nat. Qed.

Lemma xsum_split3 n i f : i < n ->
  xsum n f = xorb (xorb (xsum i f) (f i)) (xsum (n - S i) (fun k => f (S i + k))).
Proof.
  intros Hi. replace n with (S i + (n - S i)) at 1 by lia. now rewrite xsum_app.
Qed.

(** * entries *)
Lemma get_unit_lower n L i j :
  get (unit_lower n L) i j = (i <? n) && ((i =? j) || ((j <? i) && get L i j)).
Proof.
  unfold get at 1. destruct (Nat.ltb_spec i n) as [Hi|Hi]; cbn [andb].
  - unfold unit_lower. rewrite row_mk_map by assumption.
    rewrite N.lor_spec, testbit_pow2_nat, testbit_land_ones. unfold get. now rewrite (andb_comm (j <? i)).
  - unfold unit_lower. rewrite row_mk_map_out by assumption. apply N.bits_0.
Qed.

Lemma get_unit_upper n U i j :
  get (unit_upper n U) i j = (i <? n) && ((i =? j) || ((i <? j) && (j <? n) && get U i j)).
Proof.
  unfold get at 1. destruct (Nat.ltb_spec i n) as [Hi|Hi]; cbn [andb].
  - unfold unit_upper. rewrite row_mk_map by assumption.
    rewrite N.lor_spec, testbit_pow2_nat, testbit_land_ones, testbit_ldiff_ones. unfold get.
    f_equal. destruct (Nat.ltb_spec j (S i)), (Nat.ltb_spec i j); try lia;
      destruct (N.testbit (row U i) (N.of_nat j)), (j <? n); reflexivity.
  - unfold unit_upper. rewrite row_mk_map_out by assumption. apply N.bits_0.
Qed.

Lemma wf_unit_lower n L : wf (unit_lower n L).
Proof.
  apply wf_mk_map. intros i Hi. apply bounded_lor; [now apply bounded_pow2|].
  apply bounded_land_r. apply (bounded_mono i); [lia|apply bounded_ones].
Qed.

Lemma wf_unit_upper n U : wf (unit_upper n U).
Proof.
  apply wf_mk_map. intros i Hi. apply bounded_lor; [now apply bounded_pow2|].
  apply bounded_land_r, bounded_ones.
Qed.

#[export] Hint Resolve wf_unit_lower wf_unit_upper : wf.

Lemma nr_unit_lower n L : nr (unit_lower n L) = n. Proof. reflexivity. Qed.
Lemma nc_unit_lower n L : nc (unit_lower n L) = n. Proof. reflexivity. Qed.
Lemma nr_unit_upper n U : nr (unit_upper n U) = n. Proof. reflexivity. Qed.
Lemma nc_unit_upper n U : nc (unit_upper n U) = n. Proof. reflexivity. Qed.

(** * the predicates "is a unit upper/lower triangular n x n matrix" *)
Definition is_unit_upper (n : nat) (M : mat) : Prop :=
  wf M /\ nr M = n /\ nc M = n /\ (forall i, i < n -> get M i i = true) /\
  (forall i j, j < i -> get M i j = false).
Definition is_unit_lower (n : nat) (M : mat) : Prop :=
  wf M /\ nr M = n /\ nc M = n /\ (forall i, i < n -> get M i i = true) /\
  (forall i j, i < j -> get M i j = false).

Lemma unit_upper_is n U : is_unit_upper n (unit_upper n U).
Proof.
  refine (conj _ (conj _ (conj _ (conj _ _)))); auto with wf.
  - intros i Hi. rewrite get_unit_upper, Nat.eqb_refl. destruct (Nat.ltb_spec i n); [reflexivity|lia].
  - intros i j Hji. rewrite get_unit_upper.
    destruct (Nat.eqb_spec i j), (Nat.ltb_spec i j); try lia; try (cbn [andb orb]; apply andb_false_r).
Qed.

Lemma unit_lower_is n L : is_unit_lower n (unit_lower n L).
Proof.
  refine (conj _ (conj _ (conj _ (conj _ _)))); auto with wf.
  - intros i Hi. rewrite get_unit_lower, Nat.eqb_refl. destruct (Nat.ltb_spec i n); [reflexivity|lia].
  - intros i j Hij. rewrite get_unit_lower.
    destruct (Nat.eqb_spec i j), (Nat.ltb_spec j i); try lia; try (cbn [andb orb]; apply andb_false_r).
Qed.

(** a unit triangular matrix is the unit triangular matrix read from itself *)
Lemma is_unit_upper_fix n M : is_unit_upper n M -> unit_upper n M = M.
Proof.
  intros (Hw & Hr & Hc & Hd & Hz). apply mat_ext; auto with wf.
  intros i j Hi Hj. cbn [nr nc unit_upper] in Hi, Hj. rewrite get_unit_upper.
  destruct (Nat.ltb_spec i n); [|lia]. destruct (Nat.ltb_spec j n); [|lia]. cbn [andb].
  destruct (Nat.eqb_spec i j) as [->|Hne]; [now rewrite Hd|].
  destruct (Nat.ltb_spec i j); cbn [orb andb]; [reflexivity|]. symmetry. apply Hz. lia.
Qed.

Lemma is_unit_lower_fix n M : is_unit_lower n M -> unit_lower n M = M.
Proof.
  intros (Hw & Hr & Hc & Hd & Hz). apply mat_ext; auto with wf.
  intros i j Hi Hj. cbn [nr nc unit_lower] in Hi, Hj. rewrite get_unit_lower.
  destruct (Nat.ltb_spec i n); [|lia]. cbn [andb].
  destruct (Nat.eqb_spec i j) as [->|Hne]; [now rewrite Hd|].
  destruct (Nat.ltb_spec j i); cbn [orb andb]; [reflexivity|]. symmetry. apply Hz. lia.
Qed.

Lemma mid_is_unit_upper n : is_unit_upper n (mid n).
Proof.
  refine (conj _ (conj _ (conj _ (conj _ _)))); auto with wf.
  - intros i Hi. rewrite get_mid, Nat.eqb_refl. destruct (Nat.ltb_spec i n); [reflexivity|lia].
  - intros i j Hji. rewrite get_mid. destruct (Nat.eqb_spec i j); [lia|apply andb_false_r].
Qed.

Lemma mid_is_unit_lower n : is_unit_lower n (mid n).
Proof.
  refine (conj _ (conj _ (conj _ (conj _ _)))); auto with wf.
  - intros i Hi. rewrite get_mid, Nat.eqb_refl. destruct (Nat.ltb_spec i n); [reflexivity|lia].
  - intros i j Hji. rewrite get_mid. destruct (Nat.eqb_spec i j); [lia|apply andb_false_r].
Qed.

(** * only the named triangle matters *)
Lemma unit_lower_ext n L L' :
  (forall i j, j < i -> i < n -> get L i j = get L' i j) -> unit_lower n L = unit_lower n L'.
Proof.
  intros H. apply mat_ext; auto with wf. intros i j Hi Hj. cbn [nr nc unit_lower] in Hi, Hj.
  rewrite !get_unit_lower. destruct (Nat.ltb_spec j i); [|reflexivity]. now rewrite H.
Qed.

Lemma unit_upper_ext n U U' :
  (forall i j, i < j -> j < n -> get U i j = get U' i j) -> unit_upper n U = unit_upper n U'.
Proof.
  intros H. apply mat_ext; auto with wf. intros i j Hi Hj. cbn [nr nc unit_upper] in Hi, Hj.
  rewrite !get_unit_upper. destruct (Nat.ltb_spec i j); [|reflexivity].
  destruct (Nat.ltb_spec j n); [|lia]. now rewrite H.
Qed.

(** * characteristic equations of a product with a unit triangular factor *)
Lemma get_mmul_unit_lower n L X i j : wf X -> nr X = n -> i < n ->
  get (mmul (unit_lower n L) X) i j = xorb (get X i j) (xsum i (fun k => get L i k && get X k j)).
Proof.
  intros HX Hr Hi. rewrite get_mmul, Hr by assumption. rewrite (xsum_split3 n i) by assumption.
  rewrite (xsum_zero (n - S i)).
  2:{ intros k _. rewrite get_unit_lower.
      destruct (Nat.eqb_spec i (S i + k)), (Nat.ltb_spec (S i + k) i); try lia; try (now rewrite andb_false_r). }
  rewrite xorb_false_r, get_unit_lower, Nat.eqb_refl.
  destruct (Nat.ltb_spec i n); [|lia]. cbn [andb orb]. rewrite xorb_comm. f_equal.
  apply xsum_ext. intros k Hk. rewrite get_unit_lower.
  destruct (Nat.ltb_spec i n), (Nat.eqb_spec i k), (Nat.ltb_spec k i); try lia; try reflexivity.
Qed.

Lemma get_mmul_unit_upper n U X i j : wf X -> nr X = n -> i < n ->
  get (mmul (unit_upper n U) X) i j =
  xorb (get X i j) (xsum (n - S i) (fun k => get U i (S i + k) && get X (S i + k) j)).
Proof.
  intros HX Hr Hi. rewrite get_mmul, Hr by assumption. rewrite (xsum_split3 n i) by assumption.
  rewrite (xsum_zero i).
  2:{ intros k Hk. rewrite get_unit_upper.
      destruct (Nat.eqb_spec i k), (Nat.ltb_spec i k); try lia; try (now rewrite andb_false_r). }
  rewrite xorb_false_l, get_unit_upper, Nat.eqb_refl.
  destruct (Nat.ltb_spec i n); [|lia]. cbn [andb orb]. f_equal.
  apply xsum_ext. intros k Hk. rewrite get_unit_upper.
  destruct (Nat.ltb_spec i n), (Nat.eqb_spec i (S i + k)), (Nat.ltb_spec i (S i + k)),
    (Nat.ltb_spec (S i + k) n); try lia; try reflexivity.
Qed.

Lemma get_mmul_r_unit_upper n U X i j : j < n ->
  get (mmul X (unit_upper n U)) i j = xorb (get X i j) (xsum j (fun k => get X i k && get U k j)).
Proof.
  intros Hj. rewrite get_mmul by auto with wf. cbn [nr unit_upper].
  rewrite (xsum_split3 n j) by assumption.
  rewrite (xsum_zero (n - S j)).
  2:{ intros k _. rewrite get_unit_upper.
      destruct (Nat.eqb_spec (S j + k) j), (Nat.ltb_spec (S j + k) j); try lia; try (now rewrite andb_false_r, andb_false_r). }
  rewrite xorb_false_r, get_unit_upper, Nat.eqb_refl.
  destruct (Nat.ltb_spec j n); [|lia]. cbn [andb orb]. rewrite andb_true_r, xorb_comm. f_equal.
  apply xsum_ext. intros k Hk. rewrite get_unit_upper.
  destruct (Nat.ltb_spec k n), (Nat.eqb_spec k j), (Nat.ltb_spec k j), (Nat.ltb_spec j n); try lia; try reflexivity.
Qed.

Lemma get_mmul_r_unit_lower n L X i j : j < n ->
  get (mmul X (unit_lower n L)) i j =
  xorb (get X i j) (xsum (n - S j) (fun k => get X i (S j + k) && get L (S j + k) j)).
Proof.
  intros Hj. rewrite get_mmul by auto with wf. cbn [nr unit_lower].
  rewrite (xsum_split3 n j) by assumption.
  rewrite (xsum_zero j).
  2:{ intros k Hk. rewrite get_unit_lower.
      destruct (Nat.eqb_spec k j), (Nat.ltb_spec j k); try lia; try (now rewrite andb_false_r, andb_false_r). }
  rewrite xorb_false_l, get_unit_lower, Nat.eqb_refl.
  destruct (Nat.ltb_spec j n); [|lia]. cbn [andb orb]. rewrite andb_true_r. f_equal.
  apply xsum_ext. intros k Hk. rewrite get_unit_lower.
  destruct (Nat.ltb_spec (S j + k) n), (Nat.eqb_spec (S j + k) j), (Nat.ltb_spec j (S j + k)); try lia; try reflexivity.
Qed.

(** * closure under product *)
Lemma is_unit_upper_mmul n A B : is_unit_upper n A -> is_unit_upper n B -> is_unit_upper n (mmul A B).
Proof.
  intros (HwA & HrA & HcA & HdA & HzA) (HwB & HrB & HcB & HdB & HzB).
  refine (conj _ (conj _ (conj _ (conj _ _)))); auto with wf.
  - intros i Hi. rewrite get_mmul, HrB by assumption. rewrite (xsum_single n _ i Hi).
    + now rewrite HdA, HdB.
    + intros k Hk Hne. destruct (Nat.lt_ge_cases k i); [now rewrite HzA|].
      rewrite (HzB k i) by lia. apply andb_false_r.
  - intros i j Hji. rewrite get_mmul, HrB by assumption. apply xsum_zero. intros k Hk.
    destruct (Nat.lt_ge_cases k i); [now rewrite HzA|]. rewrite (HzB k j) by lia. apply andb_false_r.
Qed.

Lemma is_unit_lower_mmul n A B : is_unit_lower n A -> is_unit_lower n B -> is_unit_lower n (mmul A B).
Proof.
  intros (HwA & HrA & HcA & HdA & HzA) (HwB & HrB & HcB & HdB & HzB).
  refine (conj _ (conj _ (conj _ (conj _ _)))); auto with wf.
  - intros i Hi. rewrite get_mmul, HrB by assumption. rewrite (xsum_single n _ i Hi).
    + now rewrite HdA, HdB.
    + intros k Hk Hne. destruct (Nat.lt_ge_cases i k); [now rewrite HzA|].
      rewrite (HzB k i) by lia. apply andb_false_r.
  - intros i j Hij. rewrite get_mmul, HrB by assumption. apply xsum_zero. intros k Hk.
    destruct (Nat.lt_ge_cases i k); [now rewrite HzA|]. rewrite (HzB k j) by lia. apply andb_false_r.
Qed.

(** * 2 x 2 block algebra *)
Lemma madd_mconcat A B C D : wf A -> wf B -> wf C -> wf D ->
  nr A = nr B -> nr C = nr D -> nr A = nr C -> nc A = nc C -> nc B = nc D ->
  madd (mconcat A B) (mconcat C D) = mconcat (madd A C) (madd B D).
Proof.
  intros HA HB HC HD H1 H2 H3 H4 H5.
  assert (wf (mconcat A B)) by auto with wf. assert (wf (mconcat C D)) by auto with wf.
  assert (wf (madd A C)) by auto with wf. assert (wf (madd B D)) by (apply wf_madd; auto; congruence).
  apply mat_ext.
  - apply wf_madd; auto; cbn [nr nc mconcat]; congruence.
  - apply wf_mconcat; auto; cbn [nr madd]; congruence.
  - reflexivity.
  - reflexivity.
  - intros i j _ _. rewrite get_madd by (rewrite !wf_len by assumption; cbn [nr mconcat]; congruence).
    rewrite !get_mconcat; auto; try (cbn [nr madd]; congruence). cbn [nc madd]. rewrite <- H4.
    destruct (Nat.ltb_spec j (nc A)); rewrite get_madd; try reflexivity; rewrite !wf_len by assumption; congruence.
Qed.

Section Blocks.
  Variables (n1 n2 : nat) (T00 T01 T10 T11 : mat).
  Hypotheses (W00 : wf T00) (W01 : wf T01) (W10 : wf T10) (W11 : wf T11).
  Hypotheses (R00 : nr T00 = n1) (C00 : nc T00 = n1) (R01 : nr T01 = n1) (C01 : nc T01 = n2).
  Hypotheses (R10 : nr T10 = n2) (C10 : nc T10 = n1) (R11 : nr T11 = n2) (C11 : nc T11 = n2).

  Let lowerT := mstack (mconcat T00 (mzero n1 n2)) (mconcat T10 T11).
  Let upperT := mstack (mconcat T00 T01) (mconcat (mzero n2 n1) T11).

  Lemma wf_lowerT : wf lowerT.
  Proof using W00 W10 W11 R00 C00 R10 C10 R11 C11.
    clear W01 R01 C01.
    unfold lowerT. apply wf_mstack; [apply wf_mconcat|apply wf_mconcat|]; auto with wf;
      cbn [nr nc mconcat mzero]; congruence.
  Qed.
  Lemma wf_upperT : wf upperT.
  Proof using W00 W01 W11 R00 C00 R01 C01 R11 C11.
    clear W10 R10 C10.
    unfold upperT. apply wf_mstack; [apply wf_mconcat|apply wf_mconcat|]; auto with wf;
      cbn [nr nc mconcat mzero]; congruence.
  Qed.

  (** left products: X = [X0; X1] *)
  Lemma mmul_lower_block X0 X1 : wf X0 -> wf X1 -> nr X0 = n1 -> nr X1 = n2 -> nc X0 = nc X1 ->
    mmul lowerT (mstack X0 X1) = mstack (mmul T00 X0) (madd (mmul T10 X0) (mmul T11 X1)).
  Proof using W00 W10 W11 R00 C00 R10 C10 R11 C11.
    clear W01 R01 C01.
    intros H0 H1 Hr0 Hr1 Hc. unfold lowerT. rewrite mmul_mstack_l. f_equal.
    - rewrite mmul_concat_stack; auto with wf; try (cbn [nr nc mzero]; congruence).
      rewrite <- Hr1, mmul_zero_l by assumption.
      replace (mzero n1 (nc X1)) with (mzero (nr (mmul T00 X0)) (nc (mmul T00 X0)))
        by (cbn [nr nc mmul]; congruence).
      apply madd_zero_r. auto with wf.
    - apply mmul_concat_stack; auto; congruence.
  Qed.

  Lemma mmul_upper_block X0 X1 : wf X0 -> wf X1 -> nr X0 = n1 -> nr X1 = n2 -> nc X0 = nc X1 ->
    mmul upperT (mstack X0 X1) = mstack (madd (mmul T00 X0) (mmul T01 X1)) (mmul T11 X1).
  Proof using W00 W01 W11 R00 C00 R01 C01 R11 C11.
    clear W10 R10 C10.
    intros H0 H1 Hr0 Hr1 Hc. unfold upperT. rewrite mmul_mstack_l. f_equal.
    - apply mmul_concat_stack; auto; congruence.
    - rewrite mmul_concat_stack; auto with wf; try (cbn [nr nc mzero]; congruence).
      rewrite <- Hr0, mmul_zero_l by assumption.
      replace (mzero n2 (nc X0)) with (mzero (nr (mmul T11 X1)) (nc (mmul T11 X1)))
        by (cbn [nr nc mmul]; congruence).
      apply madd_zero_l. auto with wf.
  Qed.

  (** right products: X = [X0 | X1] *)
  Lemma mmul_r_upper_block X0 X1 : wf X0 -> wf X1 -> nr X0 = nr X1 -> nc X0 = n1 -> nc X1 = n2 ->
    mmul (mconcat X0 X1) upperT = mconcat (mmul X0 T00) (madd (mmul X0 T01) (mmul X1 T11)).
  Proof using W00 W01 W11 R00 C00 R01 C01 R11 C11.
    clear W10 R10 C10.
    intros H0 H1 Hr Hc0 Hc1. unfold upperT.
    assert (wf (mconcat T00 T01)) by (apply wf_mconcat; auto; congruence).
    assert (wf (mconcat (mzero n2 n1) T11)) by (apply wf_mconcat; auto with wf; cbn [nr mzero]; congruence).
    rewrite mmul_concat_stack; auto with wf; try (cbn [nr nc mconcat mzero]; congruence).
    rewrite !mmul_mconcat_r; auto with wf; try (cbn [nr mzero]; congruence).
    rewrite <- Hc1, mmul_zero_r by assumption.
    rewrite madd_mconcat; auto with wf; try (cbn [nr nc mmul mzero]; congruence).
    f_equal.
    replace (mzero (nr X1) n1) with (mzero (nr (mmul X0 T00)) (nc (mmul X0 T00)))
      by (cbn [nr nc mmul]; congruence).
    apply madd_zero_r. auto with wf.
  Qed.

  Lemma mmul_r_lower_block X0 X1 : wf X0 -> wf X1 -> nr X0 = nr X1 -> nc X0 = n1 -> nc X1 = n2 ->
    mmul (mconcat X0 X1) lowerT = mconcat (madd (mmul X0 T00) (mmul X1 T10)) (mmul X1 T11).
  Proof using W00 W10 W11 R00 C00 R10 C10 R11 C11.
    clear W01 R01 C01.
    intros H0 H1 Hr Hc0 Hc1. unfold lowerT.
    assert (wf (mconcat T00 (mzero n1 n2))) by (apply wf_mconcat; auto with wf; cbn [nr mzero]; congruence).
    assert (wf (mconcat T10 T11)) by (apply wf_mconcat; auto; congruence).
    rewrite mmul_concat_stack; auto with wf; try (cbn [nr nc mconcat mzero]; congruence).
    rewrite !mmul_mconcat_r; auto with wf; try (cbn [nr mzero]; congruence).
    rewrite <- Hc0, mmul_zero_r by assumption.
    rewrite madd_mconcat; auto with wf; try (cbn [nr nc mmul mzero]; congruence).
    f_equal.
    replace (mzero (nr X0) n2) with (mzero (nr (mmul X1 T11)) (nc (mmul X1 T11)))
      by (cbn [nr nc mmul]; congruence).
    apply madd_zero_l. auto with wf.
  Qed.
End Blocks.

(** * block decomposition of the unit triangular matrices read from a storage matrix *)
Ltac bsolve :=
  repeat match goal with
  | |- context [?a <? ?b] => destruct (Nat.ltb_spec a b)
  | |- context [?a =? ?b] => destruct (Nat.eqb_spec a b)
  end; cbn [andb orb negb]; try reflexivity; try lia.

Ltac shift_index i n1 i' :=
  let E := fresh "E" in
  assert (E : i = n1 + (i - n1)) by lia; set (i' := i - n1) in *; clearbody i'; subst i.

Lemma unit_lower_blocks n1 n2 L : n1 + n2 <= length (rows L) ->
  unit_lower (n1 + n2) L =
  mstack (mconcat (unit_lower n1 (msub L 0 0 n1 n1)) (mzero n1 n2))
         (mconcat (msub L n1 0 n2 n1) (unit_lower n2 (msub L n1 n1 n2 n2))).
Proof.
  intros Hlen.
  assert (W10 : wf (msub L n1 0 n2 n1)) by (apply wf_msub; lia).
  assert (Wt : wf (mconcat (unit_lower n1 (msub L 0 0 n1 n1)) (mzero n1 n2))) by (apply wf_mconcat; auto with wf).
  assert (Wb : wf (mconcat (msub L n1 0 n2 n1) (unit_lower n2 (msub L n1 n1 n2 n2)))) by (apply wf_mconcat; auto with wf).
  apply mat_ext; auto with wf.
  intros i j Hi Hj. cbn [nr nc unit_lower] in Hi, Hj.
  rewrite get_mstack by assumption. cbn [nr mconcat unit_lower].
  destruct (Nat.ltb_spec i n1) as [Hi1|Hi1].
  - rewrite get_mconcat by auto with wf. cbn [nc unit_lower].
    rewrite !get_unit_lower, get_msub, get_mzero by lia. cbn [Nat.add]. bsolve.
  - shift_index i n1 i'. rewrite get_mconcat by auto with wf. cbn [nc msub].
    rewrite !get_unit_lower, !get_msub by lia. cbn [Nat.add].
    destruct (Nat.ltb_spec j n1) as [Hj1|Hj1].
    + bsolve.
    + shift_index j n1 j'. replace (n1 + j' - n1) with j' by lia. bsolve.
Qed.

Lemma unit_upper_blocks n1 n2 U : n1 + n2 <= length (rows U) ->
  unit_upper (n1 + n2) U =
  mstack (mconcat (unit_upper n1 (msub U 0 0 n1 n1)) (msub U 0 n1 n1 n2))
         (mconcat (mzero n2 n1) (unit_upper n2 (msub U n1 n1 n2 n2))).
Proof.
  intros Hlen.
  assert (W01 : wf (msub U 0 n1 n1 n2)) by (apply wf_msub; lia).
  assert (Wt : wf (mconcat (unit_upper n1 (msub U 0 0 n1 n1)) (msub U 0 n1 n1 n2))) by (apply wf_mconcat; auto with wf).
  assert (Wb : wf (mconcat (mzero n2 n1) (unit_upper n2 (msub U n1 n1 n2 n2)))) by (apply wf_mconcat; auto with wf).
  apply mat_ext; auto with wf.
  intros i j Hi Hj. cbn [nr nc unit_upper] in Hi, Hj.
  rewrite get_mstack by assumption. cbn [nr mconcat unit_upper].
  destruct (Nat.ltb_spec i n1) as [Hi1|Hi1].
  - rewrite get_mconcat by auto with wf. cbn [nc unit_upper].
    rewrite !get_unit_upper, !get_msub by lia. cbn [Nat.add].
    destruct (Nat.ltb_spec j n1) as [Hj1|Hj1].
    + bsolve.
    + shift_index j n1 j'. replace (n1 + j' - n1) with j' by lia. bsolve.
  - shift_index i n1 i'. rewrite get_mconcat by auto with wf. cbn [nc mzero].
    rewrite !get_unit_upper, get_msub, get_mzero by lia. cbn [Nat.add].
    destruct (Nat.ltb_spec j n1) as [Hj1|Hj1].
    + bsolve.
    + shift_index j n1 j'. replace (n1 + j' - n1) with j' by lia. bsolve.
Qed.
