(* Lin/Spec.v — shared *specification-level* definitions (Prop) used by the property theorems:
   row space, echelon forms, rank profile, LAPACK permutations, triangular parts.
   Definitions only: every component proves its theorems against these same definitions. *)
From Coq Require Import List NArith Arith Bool Sorted.
From M4 Require Import Base.Bits Lin.Mat Lin.Ops.
Import ListNotations.
Local Open Scope nat_scope.

(** * Row space *)
(** [vmul c M] = linear combination of the rows of M selected by the bits of c *)
Definition vmul (c : N) (M : mat) : N := mul_row c (rows M).
Definition in_rowspace (v : N) (M : mat) : Prop := exists c, vmul c M = v.
Definition rs_incl (A M : mat) : Prop := forall c, in_rowspace (vmul c A) M.
Definition row_equiv (A M : mat) : Prop :=
  nr A = nr M /\ nc A = nc M /\ rs_incl A M /\ rs_incl M A.

(** * Echelon forms *)
(** leading (= left-most, lowest-index) column of a row *)
Definition lead (r : N) : option nat := lowbit r.

(** [piv] lists the pivot columns of the non-zero rows, which come first *)
Definition is_ref (M : mat) (piv : list nat) : Prop :=
  StronglySorted lt piv /\ length piv <= nr M /\
  (forall i, i < length piv -> lead (row M i) = Some (nth i piv 0)) /\
  (forall i, length piv <= i -> row M i = 0%N).
Definition is_rref (M : mat) (piv : list nat) : Prop :=
  is_ref M piv /\
  forall i i', i < length piv -> i' <> i -> get M i' (nth i piv 0) = false.

(** * Column rank profile (mathematical definition, independent of any algorithm):
    column j belongs to the profile iff it is NOT a combination of the columns before it *)
Definition col_dependent (A : mat) (j : nat) : Prop :=
  exists x, bounded j x /\ mul_row x (rows (mtrans A)) = row (mtrans A) j.
Definition is_crp (A : mat) (l : list nat) : Prop :=
  StronglySorted lt l /\ (forall j, In j l -> j < nc A) /\
  forall j, j < nc A -> (In j l <-> ~ col_dependent A j).
(** rank, mathematically: size of the column rank profile *)
Definition has_rank (A : mat) (r : nat) : Prop := exists l, is_crp A l /\ length l = r.

(** * LAPACK-style permutations *)
Definition lapack (P : list nat) (n : nat) : Prop :=
  forall i, i < length P -> i <= nth i P 0 < n.
Definition lapackb (P : list nat) (n : nat) : bool :=
  forallb (fun i => (i <=? nth i P 0) && (nth i P 0 <? n)) (seq 0 (length P)).

(** * Triangular parts of a square-ish matrix.  Only the named triangle is read. *)
(** unit upper triangular n x n matrix read from the strict upper triangle of U *)
Definition unit_upper (n : nat) (U : mat) : mat :=
  mk n n (map (fun i => N.lor (2 ^ N.of_nat i) (N.land (N.ldiff (row U i) (N.ones (N.of_nat (S i))))
                                                     (N.ones (N.of_nat n)))) (seq 0 n)).
(** unit lower triangular n x n matrix read from the strict lower triangle of L *)
Definition unit_lower (n : nat) (L : mat) : mat :=
  mk n n (map (fun i => N.lor (2 ^ N.of_nat i) (N.land (row L i) (N.ones (N.of_nat i)))) (seq 0 n)).
(** m x r unit lower trapezoidal factor (PLE/PLUQ): strict lower triangle of the first r columns *)
Definition unit_lower_rect (m r : nat) (L : mat) : mat :=
  mk m r (map (fun i => if i <? r then N.lor (2 ^ N.of_nat i) (N.land (row L i) (N.ones (N.of_nat i)))
                        else N.land (row L i) (N.ones (N.of_nat r))) (seq 0 m)).
(** r x n upper trapezoidal factor: rows < r, columns >= row index (diagonal included as stored) *)
Definition upper_rect (r n : nat) (U : mat) : mat :=
  mk r n (map (fun i => N.land (N.ldiff (row U i) (N.ones (N.of_nat i))) (N.ones (N.of_nat n))) (seq 0 r)).

Definition invertible (A : mat) : Prop :=
  nr A = nc A /\ exists B, wf B /\ nr B = nr A /\ nc B = nr A /\ mmul A B = mid (nr A) /\ mmul B A = mid (nr A).
