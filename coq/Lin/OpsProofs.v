(* Lin/OpsProofs.v — C13 (matrix level): every elementary operation of Lin/Ops.v preserves
   well-formedness and is characterised POINTWISE through [get]: it affects exactly the addressed
   entries with the stated effect.  No axioms. *)
From Coq Require Import List NArith Arith Lia Bool.
From M4 Require Import Base.Bits Lin.Mat Lin.MatAlg Lin.Ops.
Import ListNotations.
Local Open Scope nat_scope.

(** destruct every nat comparison in the goal through its spec lemma *)
Ltac noif t := lazymatch t with context [if _ then _ else _] => fail | _ => idtac end.
Ltac bdestr :=
  repeat match goal with
  | |- context [Nat.eqb ?a ?b] => noif a; noif b; destruct (Nat.eqb_spec a b)
  | |- context [Nat.ltb ?a ?b] => noif a; noif b; destruct (Nat.ltb_spec a b)
  | |- context [Nat.leb ?a ?b] => noif a; noif b; destruct (Nat.leb_spec a b)
  end.
Ltac bsolve := bdestr; cbn [andb orb negb xorb]; subst; try lia; try reflexivity; try congruence.

(** * bit helpers *)
Lemma testbit_ldiff_nat a b j :
  N.testbit (N.ldiff a b) (N.of_nat j) = N.testbit a (N.of_nat j) && negb (N.testbit b (N.of_nat j)).
Proof. apply N.ldiff_spec. Qed.

Lemma bounded_ldiff n a b : bounded n a -> bounded n (N.ldiff a b).
Proof. intros Ha j Hj. now rewrite testbit_ldiff_nat, Ha. Qed.

Lemma testbit_colmask c0 c1 j : N.testbit (colmask c0 c1) (N.of_nat j) = (c0 <=? j) && (j <? c1).
Proof. unfold colmask. rewrite testbit_shiftl_nat, testbit_ones_nat. bsolve. Qed.

Lemma bounded_colmask c0 c1 : bounded c1 (colmask c0 c1).
Proof. intros j Hj. rewrite testbit_colmask. bsolve. Qed.

Lemma row_overflow M i : length (rows M) <= i -> row M i = 0%N.
Proof. intros H. unfold row. now apply nth_overflow. Qed.

Lemma get_overflow M i j : length (rows M) <= i -> get M i j = false.
Proof. intros H. unfold get. rewrite row_overflow by assumption. apply N.bits_0. Qed.

(** * list update *)
Lemma upd_length {A} i (x : A) l : length (upd i x l) = length l.
Proof. revert i; induction l as [|h t IH]; intros [|i]; cbn; auto. Qed.

Lemma nth_upd {A} i (x : A) l k d :
  nth k (upd i x l) d = if (k =? i) && (i <? length l) then x else nth k l d.
Proof.
  revert i k; induction l as [|h t IH]; intros i k.
  - destruct i; cbn [upd length]; bsolve.
  - destruct i as [|i], k as [|k]; cbn [upd nth length]; try rewrite IH; bsolve.
Qed.

Lemma upd_map {A B} (f : A -> B) i x l : upd i (f x) (map f l) = map f (upd i x l).
Proof. revert i; induction l as [|h t IH]; intros [|i]; cbn; try rewrite IH; reflexivity. Qed.

(** * set_row *)
Lemma nr_set_row M i r : nr (set_row M i r) = nr M. Proof. reflexivity. Qed.
Lemma nc_set_row M i r : nc (set_row M i r) = nc M. Proof. reflexivity. Qed.
Lemma len_set_row M i r : length (rows (set_row M i r)) = length (rows M).
Proof. apply upd_length. Qed.

Lemma row_set_row M i r k :
  row (set_row M i r) k = if (k =? i) && (i <? length (rows M)) then r else row M k.
Proof. unfold row, set_row. cbn [rows]. apply nth_upd. Qed.

Lemma get_set_row M i r k j :
  get (set_row M i r) k j =
  if (k =? i) && (i <? length (rows M)) then N.testbit r (N.of_nat j) else get M k j.
Proof. unfold get. rewrite row_set_row. now destruct (_ && _). Qed.

Lemma wf_set_row M i r : wf M -> bounded (nc M) r -> wf (set_row M i r).
Proof.
  intros HM Hr. unfold set_row. apply wf_mk.
  - rewrite upd_length. now apply wf_len.
  - intros k Hk. rewrite nth_upd. destruct (_ && _); [assumption|]. now apply (wf_row_bounded M k).
Qed.

(** * map_rows *)
Lemma mapi_from_length {A B} (f : nat -> A -> B) i l : length (mapi_from f i l) = length l.
Proof. revert i; induction l as [|h t IH]; intros i; cbn; auto. Qed.

Lemma nth_mapi_from {A B} (f : nat -> A -> B) i l k d d' :
  k < length l -> nth k (mapi_from f i l) d' = f (i + k) (nth k l d).
Proof.
  revert i k; induction l as [|h t IH]; intros i [|k] Hk; cbn [mapi_from nth length] in *; try lia.
  - now rewrite Nat.add_0_r.
  - rewrite IH by lia. f_equal. lia.
Qed.

Lemma nr_map_rows f M : nr (map_rows f M) = nr M. Proof. reflexivity. Qed.
Lemma nc_map_rows f M : nc (map_rows f M) = nc M. Proof. reflexivity. Qed.
Lemma len_map_rows f M : length (rows (map_rows f M)) = length (rows M).
Proof. apply mapi_from_length. Qed.

Lemma row_map_rows f M k :
  row (map_rows f M) k = if k <? length (rows M) then f k (row M k) else 0%N.
Proof.
  unfold row, map_rows. cbn [rows]. destruct (Nat.ltb_spec k (length (rows M))).
  - now rewrite (nth_mapi_from _ _ _ _ 0%N) by assumption.
  - apply nth_overflow. now rewrite mapi_from_length.
Qed.

Lemma wf_map_rows f M : wf M ->
  (forall i r, i < nr M -> bounded (nc M) r -> bounded (nc M) (f i r)) -> wf (map_rows f M).
Proof.
  intros HM Hf. pose proof (wf_len M HM) as Hl. unfold map_rows. apply wf_mk.
  - now rewrite mapi_from_length.
  - intros k Hk. rewrite (nth_mapi_from _ _ _ _ 0%N) by lia. cbn [Nat.add].
    apply Hf; [assumption|]. now apply (wf_row_bounded M k).
Qed.

(** * transpositions of indices *)
Definition transp (a b i : nat) : nat := if i =? a then b else if i =? b then a else i.

Lemma transp_same a i : transp a a i = i.
Proof. unfold transp. bsolve. Qed.
Lemma transp_invol a b i : transp a b (transp a b i) = i.
Proof. unfold transp. bsolve. Qed.
Lemma transp_lt a b i n : a < n -> b < n -> i < n -> transp a b i < n.
Proof. unfold transp. intros. bsolve. Qed.
Lemma transp_ge a b i n : a < n -> b < n -> n <= i -> transp a b i = i.
Proof. unfold transp. intros. bsolve. Qed.
Lemma transp_sym a b i : transp a b i = transp b a i.
Proof. unfold transp. bsolve. Qed.
Lemma transp_eq_iff a b i j : transp a b i = j <-> i = transp a b j.
Proof. split; intros H; [rewrite <- H|rewrite H]; now rewrite transp_invol. Qed.
Lemma transp_eqb a b i j : (transp a b i =? j) = (i =? transp a b j).
Proof.
  destruct (Nat.eqb_spec (transp a b i) j) as [H|H], (Nat.eqb_spec i (transp a b j)) as [H'|H'];
    try reflexivity; exfalso; apply transp_eq_iff in H || apply transp_eq_iff in H'; congruence.
Qed.

(** * row swap *)
Lemma nr_row_swap M a b : nr (row_swap M a b) = nr M. Proof. reflexivity. Qed.
Lemma nc_row_swap M a b : nc (row_swap M a b) = nc M. Proof. reflexivity. Qed.
Lemma len_row_swap M a b : length (rows (row_swap M a b)) = length (rows M).
Proof. unfold row_swap. now rewrite !len_set_row. Qed.

Lemma row_row_swap M a b i : a < length (rows M) -> b < length (rows M) ->
  row (row_swap M a b) i = row M (transp a b i).
Proof.
  intros Ha Hb. unfold row_swap. rewrite !row_set_row, len_set_row. unfold transp. bsolve.
Qed.

(** C13: a row swap exchanges exactly the two addressed rows *)
Lemma get_row_swap M a b i j : wf M -> a < nr M -> b < nr M ->
  get (row_swap M a b) i j = get M (if i =? a then b else if i =? b then a else i) j.
Proof.
  intros HM Ha Hb. unfold get. rewrite row_row_swap by (rewrite wf_len; assumption). reflexivity.
Qed.

Lemma wf_row_swap M a b : wf M -> wf (row_swap M a b).
Proof.
  intros HM. unfold row_swap. apply wf_set_row; [apply wf_set_row; [assumption|]|];
    rewrite ?nc_set_row; now apply wf_row_bounded.
Qed.

Lemma row_swap_invol M a b : wf M -> a < nr M -> b < nr M -> row_swap (row_swap M a b) a b = M.
Proof.
  intros HM Ha Hb. pose proof (wf_len M HM) as Hl.
  apply mat_ext; auto using wf_row_swap. intros i j _ _. unfold get.
  rewrite !row_row_swap by (rewrite ?len_row_swap; lia). now rewrite transp_invol.
Qed.

Lemma row_swap_same M a : wf M -> row_swap M a a = M.
Proof.
  intros HM. apply mat_ext; auto using wf_row_swap. intros i j _ _. unfold get, row_swap.
  rewrite !row_set_row. bsolve.
Qed.

(** * column swap *)
Lemma testbit_bit_swap r a b j :
  N.testbit (bit_swap r a b) (N.of_nat j) = N.testbit r (N.of_nat (transp a b j)).
Proof.
  unfold bit_swap, transp. destruct (Bool.eqb _ _) eqn:E.
  - apply eqb_prop in E. bsolve.
  - apply eqb_false_iff in E. rewrite N.lxor_spec, N.lor_spec, !testbit_pow2_nat.
    destruct (Nat.eqb_spec j a) as [->|Ha]; [|destruct (Nat.eqb_spec j b) as [->|Hb]].
    + rewrite Nat.eqb_refl. cbn [orb].
      destruct (N.testbit r (N.of_nat a)), (N.testbit r (N.of_nat b)); try congruence; reflexivity.
    + rewrite Nat.eqb_refl, orb_true_r.
      destruct (N.testbit r (N.of_nat a)), (N.testbit r (N.of_nat b)); try congruence; reflexivity.
    + destruct (Nat.eqb_spec a j), (Nat.eqb_spec b j); try congruence. cbn [orb]. apply xorb_false_r.
Qed.

Lemma bit_swap_same r a : bit_swap r a a = r.
Proof. unfold bit_swap. now rewrite eqb_reflx. Qed.

Lemma bounded_bit_swap n r a b : a < n -> b < n -> bounded n r -> bounded n (bit_swap r a b).
Proof.
  intros Ha Hb Hr j Hj. rewrite testbit_bit_swap. apply Hr. rewrite transp_ge with (n := n); auto.
Qed.

Lemma nr_col_swap_in_rows M a b r0 r1 : nr (col_swap_in_rows M a b r0 r1) = nr M.
Proof. unfold col_swap_in_rows. now destruct (a =? b). Qed.
Lemma nc_col_swap_in_rows M a b r0 r1 : nc (col_swap_in_rows M a b r0 r1) = nc M.
Proof. unfold col_swap_in_rows. now destruct (a =? b). Qed.
Lemma len_col_swap_in_rows M a b r0 r1 : length (rows (col_swap_in_rows M a b r0 r1)) = length (rows M).
Proof. unfold col_swap_in_rows. destruct (a =? b); [reflexivity|apply len_map_rows]. Qed.

Lemma row_col_swap_in_rows M a b r0 r1 i :
  row (col_swap_in_rows M a b r0 r1) i =
  if (r0 <=? i) && (i <? r1) then bit_swap (row M i) a b else row M i.
Proof.
  unfold col_swap_in_rows. destruct (Nat.eqb_spec a b) as [->|Hab].
  - rewrite bit_swap_same. now destruct (_ && _).
  - rewrite row_map_rows. destruct (Nat.ltb_spec i (length (rows M))); [reflexivity|].
    rewrite row_overflow by assumption. unfold bit_swap. rewrite !N.bits_0. cbn [Bool.eqb].
    now destruct (_ && _).
Qed.

(** C13: a column swap restricted to rows [r0, r1) exchanges exactly the two addressed columns on
    exactly those rows (no hypothesis on a, b: every row is a finite bit vector) *)
Lemma get_col_swap_in_rows M a b r0 r1 i j :
  get (col_swap_in_rows M a b r0 r1) i j =
  if (r0 <=? i) && (i <? r1) then get M i (transp a b j) else get M i j.
Proof.
  unfold get. rewrite row_col_swap_in_rows. destruct (_ && _); [apply testbit_bit_swap|reflexivity].
Qed.

Lemma wf_col_swap_in_rows M a b r0 r1 : wf M -> a < nc M -> b < nc M ->
  wf (col_swap_in_rows M a b r0 r1).
Proof.
  intros HM Ha Hb. unfold col_swap_in_rows. destruct (a =? b); [assumption|].
  apply wf_map_rows; [assumption|]. intros i r _ Hr.
  destruct (_ && _); [now apply bounded_bit_swap|assumption].
Qed.

Lemma nr_col_swap M a b : nr (col_swap M a b) = nr M. Proof. apply nr_col_swap_in_rows. Qed.
Lemma nc_col_swap M a b : nc (col_swap M a b) = nc M. Proof. apply nc_col_swap_in_rows. Qed.
Lemma len_col_swap M a b : length (rows (col_swap M a b)) = length (rows M).
Proof. apply len_col_swap_in_rows. Qed.

Lemma row_col_swap M a b i : wf M -> row (col_swap M a b) i = bit_swap (row M i) a b.
Proof.
  intros HM. unfold col_swap. rewrite row_col_swap_in_rows.
  destruct (Nat.leb_spec 0 i); [|lia]. destruct (Nat.ltb_spec i (nr M)); cbn [andb]; [reflexivity|].
  rewrite row_overflow by (rewrite wf_len; assumption).
  unfold bit_swap. now rewrite !N.bits_0.
Qed.

Lemma get_col_swap M a b i j : wf M -> get (col_swap M a b) i j = get M i (transp a b j).
Proof. intros HM. unfold get. rewrite row_col_swap by assumption. apply testbit_bit_swap. Qed.

Lemma wf_col_swap M a b : wf M -> a < nc M -> b < nc M -> wf (col_swap M a b).
Proof. apply wf_col_swap_in_rows. Qed.

Lemma col_swap_invol M a b : wf M -> a < nc M -> b < nc M -> col_swap (col_swap M a b) a b = M.
Proof.
  intros HM Ha Hb. assert (wf (col_swap M a b)) by now apply wf_col_swap.
  apply mat_ext; auto.
  - apply wf_col_swap; rewrite ?nc_col_swap; assumption.
  - now rewrite !nr_col_swap.
  - now rewrite !nc_col_swap.
  - intros i j _ _. rewrite !get_col_swap by assumption. now rewrite transp_invol.
Qed.

(** * row addition from a column on *)
Lemma nr_row_add_offset M d s c0 : nr (row_add_offset M d s c0) = nr M. Proof. reflexivity. Qed.
Lemma nc_row_add_offset M d s c0 : nc (row_add_offset M d s c0) = nc M. Proof. reflexivity. Qed.

(** C13: row d ^= row s on the columns >= c0, nothing else changes.  The statement covers d = s
    (the C routine then clears row d from column c0 on, and so does the formula). *)
Lemma get_row_add_offset M d s c0 i j : wf M -> d < nr M ->
  get (row_add_offset M d s c0) i j = xorb (get M i j) ((i =? d) && (c0 <=? j) && get M s j).
Proof.
  intros HM Hd. pose proof (wf_len M HM) as Hl. unfold row_add_offset. rewrite get_set_row, Hl.
  destruct (Nat.eqb_spec i d) as [->|Hne]; destruct (Nat.ltb_spec d (nr M)); try lia; cbn [andb].
  - rewrite N.lxor_spec, N.land_spec, testbit_colmask. fold (get M d j) (get M s j).
    destruct (Nat.ltb_spec j (nc M)).
    + now rewrite andb_true_r, andb_comm.
    + rewrite (get_out_col M s j) by assumption. now rewrite !andb_false_r.
  - now rewrite xorb_false_r.
Qed.

Lemma wf_row_add_offset M d s c0 : wf M -> wf (row_add_offset M d s c0).
Proof.
  intros HM. apply wf_set_row; [assumption|].
  apply bounded_lxor; [|apply bounded_land_l]; now apply wf_row_bounded.
Qed.

Lemma get_row_add M s d i j : wf M -> d < nr M ->
  get (row_add M s d) i j = xorb (get M i j) ((i =? d) && get M s j).
Proof.
  intros HM Hd. unfold row_add. rewrite get_row_add_offset by assumption.
  destruct (Nat.leb_spec 0 j); [|lia]. now rewrite andb_true_r.
Qed.

Lemma wf_row_add M s d : wf M -> wf (row_add M s d).
Proof. apply wf_row_add_offset. Qed.

(** * row clear from a column on *)
(** C13: exactly the entries (r, j) with j >= c0 are cleared *)
Lemma get_row_clear_offset M r c0 i j :
  get (row_clear_offset M r c0) i j = get M i j && negb ((i =? r) && (c0 <=? j)).
Proof.
  unfold row_clear_offset. rewrite get_set_row.
  destruct (Nat.eqb_spec i r) as [->|Hne]; cbn [andb negb]; [|now rewrite andb_true_r].
  destruct (Nat.ltb_spec r (length (rows M))).
  - rewrite N.land_spec, testbit_ones_nat. fold (get M r j). bsolve.
  - rewrite get_overflow by assumption. reflexivity.
Qed.

Lemma wf_row_clear_offset M r c0 : wf M -> wf (row_clear_offset M r c0).
Proof. intros HM. apply wf_set_row; [assumption|]. apply bounded_land_l. now apply wf_row_bounded. Qed.

(** * copy a row of A into a row of a (possibly wider) B *)
Lemma get_copy_row B i A j k c : wf A -> i < length (rows B) ->
  get (copy_row B i A j) k c =
  if k =? i then (if c <? nc A then get A j c else get B i c) else get B k c.
Proof.
  intros HA Hi. unfold copy_row. rewrite get_set_row.
  destruct (Nat.eqb_spec k i) as [->|Hne]; [|reflexivity].
  destruct (Nat.ltb_spec i (length (rows B))); [|lia]. cbn [andb].
  rewrite N.lor_spec, testbit_ldiff_nat, testbit_ones_nat. fold (get B i c) (get A j c).
  destruct (Nat.ltb_spec c (nc A)); cbn [negb].
  - now rewrite andb_false_r.
  - rewrite (get_out_col A j c) by assumption. now rewrite andb_true_r, orb_false_r.
Qed.

Lemma wf_copy_row B i A j : wf B -> wf A -> nc A <= nc B -> wf (copy_row B i A j).
Proof.
  intros HB HA Hc. apply wf_set_row; [assumption|]. apply bounded_lor.
  - apply bounded_ldiff. now apply wf_row_bounded.
  - apply (bounded_mono (nc A)); [assumption|]. now apply wf_row_bounded.
Qed.

(** * bit ranges *)
(** C13: reading n bits at (x, y) returns exactly the entries (x, y) .. (x, y+n-1) *)
Lemma testbit_read_bits M x y n k :
  N.testbit (read_bits M x y n) (N.of_nat k) = (k <? n) && get M x (y + k).
Proof.
  unfold read_bits. rewrite N.land_spec, testbit_ones_nat, testbit_shiftr_nat.
  rewrite (Nat.add_comm k y). apply andb_comm.
Qed.

Lemma bounded_read_bits M x y n : bounded n (read_bits M x y n).
Proof. apply bounded_land_r, bounded_ones. Qed.

(** C13: xor of an n-bit value into row x at column y *)
Lemma get_xor_bits M x y n v i j : x < length (rows M) ->
  get (xor_bits M x y n v) i j =
  xorb (get M i j) ((i =? x) && (y <=? j) && (j <? y + n) && N.testbit v (N.of_nat (j - y))).
Proof.
  intros Hx. unfold xor_bits. rewrite get_set_row.
  destruct (Nat.eqb_spec i x) as [->|Hne]; cbn [andb]; [|now rewrite xorb_false_r].
  destruct (Nat.ltb_spec x (length (rows M))); [|lia].
  rewrite N.lxor_spec, testbit_shiftl_nat, N.land_spec, testbit_ones_nat. fold (get M x j).
  f_equal. destruct (N.testbit v (N.of_nat (j - y))); bsolve.
Qed.

Lemma wf_xor_bits M x y n v : wf M -> y + n <= nc M -> wf (xor_bits M x y n v).
Proof.
  intros HM Hn. apply wf_set_row; [assumption|]. apply bounded_lxor; [now apply wf_row_bounded|].
  apply (bounded_mono (n + y)); [lia|]. apply bounded_shiftl, bounded_land_r, bounded_ones.
Qed.

(** C13: clearing n bits at (x, y) *)
Lemma get_clear_bits M x y n i j :
  get (clear_bits M x y n) i j = get M i j && negb ((i =? x) && (y <=? j) && (j <? y + n)).
Proof.
  unfold clear_bits. rewrite get_set_row.
  destruct (Nat.eqb_spec i x) as [->|Hne]; cbn [andb negb]; [|now rewrite andb_true_r].
  destruct (Nat.ltb_spec x (length (rows M))).
  - rewrite testbit_ldiff_nat, testbit_colmask. reflexivity.
  - rewrite get_overflow by assumption. reflexivity.
Qed.

Lemma wf_clear_bits M x y n : wf M -> wf (clear_bits M x y n).
Proof. intros HM. apply wf_set_row; [assumption|]. apply bounded_ldiff. now apply wf_row_bounded. Qed.

(** xor-ing what was read clears the range; clear = xor of the read value *)
Lemma xor_read_is_clear M x y n : wf M -> x < nr M -> y + n <= nc M ->
  xor_bits M x y n (read_bits M x y n) = clear_bits M x y n.
Proof.
  intros HM Hx Hn. pose proof (wf_len M HM) as Hl.
  apply mat_ext; auto using wf_xor_bits, wf_clear_bits. intros i j _ _.
  rewrite get_xor_bits, get_clear_bits by lia.
  destruct (Nat.eqb_spec i x) as [->|]; cbn [andb negb]; [|now rewrite xorb_false_r, andb_true_r].
  destruct (Nat.leb_spec y j), (Nat.ltb_spec j (y + n)); cbn [andb negb];
    rewrite ?xorb_false_r, ?andb_true_r; try reflexivity.
  rewrite testbit_read_bits. replace (y + (j - y)) with j by lia.
  destruct (Nat.ltb_spec (j - y) n); [|lia]. cbn [andb]. now destruct (get M x j).
Qed.

(** * single-bit write: reading an entry returns what was last written there *)
Lemma get_write_bit M i j b i' j' : i < length (rows M) ->
  get (write_bit M i j b) i' j' = if (i' =? i) && (j' =? j) then b else get M i' j'.
Proof.
  intros Hi. unfold write_bit. rewrite get_set_row.
  destruct (Nat.eqb_spec i' i) as [->|Hne]; cbn [andb]; [|reflexivity].
  destruct (Nat.ltb_spec i (length (rows M))); [|lia].
  destruct b; rewrite ?N.lor_spec, ?testbit_ldiff_nat, testbit_pow2_nat; fold (get M i j');
    rewrite (Nat.eqb_sym j j'); destruct (j' =? j); cbn [negb];
    rewrite ?orb_true_r, ?orb_false_r, ?andb_true_r, ?andb_false_r; reflexivity.
Qed.

Lemma read_after_write M i j b : i < length (rows M) -> get (write_bit M i j b) i j = b.
Proof. intros Hi. rewrite get_write_bit by assumption. now rewrite !Nat.eqb_refl. Qed.

Lemma write_bit_other M i j b i' j' : i < length (rows M) -> (i', j') <> (i, j) ->
  get (write_bit M i j b) i' j' = get M i' j'.
Proof.
  intros Hi Hne. rewrite get_write_bit by assumption.
  destruct (Nat.eqb_spec i' i), (Nat.eqb_spec j' j); cbn [andb]; try reflexivity. congruence.
Qed.

Lemma wf_write_bit M i j b : wf M -> j < nc M -> wf (write_bit M i j b).
Proof.
  intros HM Hj. apply wf_set_row; [assumption|]. destruct b.
  - apply bounded_lor; [now apply wf_row_bounded|now apply bounded_pow2].
  - apply bounded_ldiff. now apply wf_row_bounded.
Qed.

(** * set_ui: zero / identity pattern *)
Lemma get_set_ui r c v i j : get (set_ui r c v) i j = Nat.odd v && (i <? r) && (j <? c) && (i =? j).
Proof.
  unfold set_ui, Nat.odd. destruct (Nat.even v); cbn [negb andb]; [apply get_mzero|].
  unfold get, row. cbn [rows]. destruct (Nat.ltb_spec i r) as [Hi|Hi]; cbn [andb].
  - rewrite (nth_map_default _ _ _ 0) by now rewrite seq_length. rewrite seq_nth by assumption.
    cbn [Nat.add]. destruct (Nat.ltb_spec i c).
    + rewrite testbit_pow2_nat. bsolve.
    + rewrite N.bits_0. bsolve.
  - rewrite nth_overflow by now rewrite map_length, seq_length. apply N.bits_0.
Qed.

Lemma wf_set_ui r c v : wf (set_ui r c v).
Proof.
  unfold set_ui. destruct (Nat.even v); [apply wf_mzero|].
  apply wf_mk; [now rewrite map_length, seq_length|]. intros i Hi.
  rewrite (nth_map_default _ _ _ 0) by now rewrite seq_length. rewrite seq_nth by assumption.
  cbn [Nat.add]. destruct (Nat.ltb_spec i c); [now apply bounded_pow2|apply bounded_0].
Qed.

Lemma nr_set_ui r c v : nr (set_ui r c v) = r.
Proof. unfold set_ui. now destruct (Nat.even v). Qed.
Lemma nc_set_ui r c v : nc (set_ui r c v) = c.
Proof. unfold set_ui. now destruct (Nat.even v). Qed.

Lemma set_ui_even r c v : Nat.even v = true -> set_ui r c v = mzero r c.
Proof. intros H. unfold set_ui. now rewrite H. Qed.

Lemma set_ui_odd_square n v : Nat.odd v = true -> set_ui n n v = mid n.
Proof.
  intros Hv. apply mat_ext; auto using wf_set_ui, wf_mid; rewrite ?nr_set_ui, ?nc_set_ui; try reflexivity.
  intros i j Hi Hj. rewrite get_set_ui, get_mid, Hv. bsolve.
Qed.

(** * triangular extraction *)
Lemma len_msub A r0 c0 r c : r0 + r <= length (rows A) -> length (rows (msub A r0 c0 r c)) = r.
Proof. intros H. apply (wf_len (msub A r0 c0 r c)). now apply wf_msub. Qed.

Lemma get_extract_u A i j : wf A -> let k := Nat.min (nr A) (nc A) in
  get (extract_u A) i j = (i <? k) && (j <? k) && (i <=? j) && get A i j.
Proof.
  intros HA k. pose proof (wf_len A HA) as Hl. unfold extract_u. fold k. unfold get at 1.
  assert (Hk : 0 + k <= length (rows A)) by (subst k; lia).
  rewrite row_map_rows, len_msub by assumption.
  destruct (Nat.ltb_spec i k) as [Hi|Hi]; cbn [andb]; [|apply N.bits_0].
  rewrite testbit_ldiff_nat, testbit_ones_nat. fold (get (msub A 0 0 k k) i j).
  rewrite get_msub by assumption. cbn [Nat.add].
  destruct (Nat.ltb_spec i k); [|lia]. cbn [andb].
  destruct (j <? k), (get A i j); bsolve.
Qed.

Lemma get_extract_l A i j : wf A -> let k := Nat.min (nr A) (nc A) in
  get (extract_l A) i j = (i <? k) && (j <? k) && (j <=? i) && get A i j.
Proof.
  intros HA k. pose proof (wf_len A HA) as Hl. unfold extract_l. fold k. unfold get at 1.
  assert (Hk : 0 + k <= length (rows A)) by (subst k; lia).
  rewrite row_map_rows, len_msub by assumption.
  destruct (Nat.ltb_spec i k) as [Hi|Hi]; cbn [andb]; [|apply N.bits_0].
  rewrite N.land_spec, testbit_ones_nat. fold (get (msub A 0 0 k k) i j).
  rewrite get_msub by assumption. cbn [Nat.add].
  destruct (Nat.ltb_spec i k); [|lia]. cbn [andb].
  destruct (j <? k), (get A i j); bsolve.
Qed.

Lemma wf_extract_u A : wf A -> wf (extract_u A).
Proof.
  intros HA. pose proof (wf_len A HA) as Hl. unfold extract_u. apply wf_map_rows.
  - apply wf_msub. lia.
  - intros i r _ Hr. now apply bounded_ldiff.
Qed.

Lemma wf_extract_l A : wf A -> wf (extract_l A).
Proof.
  intros HA. pose proof (wf_len A HA) as Hl. unfold extract_l. apply wf_map_rows.
  - apply wf_msub. lia.
  - intros i r _ Hr. now apply bounded_land_l.
Qed.

(** * copy into the top-left corner of a possibly larger destination *)
Lemma get_mcopy_into D P i j : wf P -> nr P <= length (rows D) ->
  get (mcopy_into D P) i j = if (i <? nr P) && (j <? nc P) then get P i j else get D i j.
Proof.
  intros HP Hr. unfold mcopy_into, get at 1. rewrite row_map_rows.
  destruct (Nat.ltb_spec i (length (rows D))) as [Hi|Hi].
  - destruct (Nat.ltb_spec i (nr P)); cbn [andb]; [|reflexivity].
    rewrite N.lor_spec, testbit_ldiff_nat, testbit_ones_nat. fold (get D i j) (get P i j).
    destruct (Nat.ltb_spec j (nc P)); cbn [negb].
    + now rewrite andb_false_r.
    + rewrite (get_out_col P i j) by assumption. now rewrite andb_true_r, orb_false_r.
  - destruct (Nat.ltb_spec i (nr P)); [lia|]. cbn [andb]. rewrite (get_overflow D) by assumption. apply N.bits_0.
Qed.

Lemma wf_mcopy_into D P : wf D -> wf P -> nc P <= nc D -> wf (mcopy_into D P).
Proof.
  intros HD HP Hc. apply wf_map_rows; [assumption|]. intros i r _ Hr.
  destruct (i <? nr P); [|assumption]. apply bounded_lor; [now apply bounded_ldiff|].
  apply (bounded_mono (nc P)); [assumption|]. now apply wf_row_bounded.
Qed.

Lemma mcopy_into_same_dims D P : wf D -> wf P -> nr D = nr P -> nc D = nc P -> mcopy_into D P = P.
Proof.
  intros HD HP Hr Hc. pose proof (wf_len D HD).
  apply mat_ext; auto; [apply wf_mcopy_into; auto; lia|]. intros i j Hi Hj.
  cbn [nr nc mcopy_into map_rows] in Hi, Hj. rewrite get_mcopy_into by (auto; lia).
  destruct (Nat.ltb_spec i (nr P)), (Nat.ltb_spec j (nc P)); try lia. reflexivity.
Qed.

(** * paste a block / window write-back *)
(** C13/C09 (abstract form): a window write touches only the viewed block *)
Lemma get_mpaste A r0 c0 B i j : wf B -> r0 + nr B <= length (rows A) ->
  get (mpaste A r0 c0 B) i j =
  if (r0 <=? i) && (i <? r0 + nr B) && (c0 <=? j) && (j <? c0 + nc B)
  then get B (i - r0) (j - c0) else get A i j.
Proof.
  intros HB Hr. unfold mpaste, get at 1. rewrite row_map_rows.
  destruct (Nat.ltb_spec i (length (rows A))) as [Hi|Hi].
  - destruct ((r0 <=? i) && (i <? r0 + nr B)); cbn [andb]; [|reflexivity].
    rewrite N.lor_spec, testbit_ldiff_nat, testbit_colmask, testbit_shiftl_nat.
    fold (get A i j) (get B (i - r0) (j - c0)).
    destruct (Nat.leb_spec c0 j); cbn [andb negb]; [|now rewrite andb_true_r, orb_false_r].
    destruct (Nat.ltb_spec j (c0 + nc B)); cbn [negb].
    + now rewrite andb_false_r.
    + rewrite (get_out_col B) by (auto; lia). now rewrite andb_true_r, orb_false_r.
  - rewrite (get_overflow A) by assumption. rewrite N.bits_0.
    destruct (Nat.leb_spec r0 i), (Nat.ltb_spec i (r0 + nr B)); cbn [andb]; try reflexivity. lia.
Qed.

Lemma wf_mpaste A r0 c0 B : wf A -> wf B -> c0 + nc B <= nc A -> wf (mpaste A r0 c0 B).
Proof.
  intros HA HB Hc. apply wf_map_rows; [assumption|]. intros i r _ Hr.
  destruct (_ && _); [|assumption]. apply bounded_lor; [now apply bounded_ldiff|].
  apply (bounded_mono (nc B + c0)); [lia|]. apply bounded_shiftl. now apply wf_row_bounded.
Qed.

Lemma mpaste_outside A r0 c0 B i j : wf B -> r0 + nr B <= length (rows A) ->
  ~ (r0 <= i < r0 + nr B /\ c0 <= j < c0 + nc B) -> get (mpaste A r0 c0 B) i j = get A i j.
Proof.
  intros HB Hr Hout. rewrite get_mpaste by assumption.
  destruct (Nat.leb_spec r0 i), (Nat.ltb_spec i (r0 + nr B)), (Nat.leb_spec c0 j),
    (Nat.ltb_spec j (c0 + nc B)); cbn [andb]; try reflexivity. lia.
Qed.

Theorem msub_mpaste A r0 c0 B : wf B -> r0 + nr B <= length (rows A) ->
  msub (mpaste A r0 c0 B) r0 c0 (nr B) (nc B) = B.
Proof.
  intros HB Hr.
  assert (Hl : r0 + nr B <= length (rows (mpaste A r0 c0 B))) by (unfold mpaste; now rewrite len_map_rows).
  apply mat_ext; auto using wf_msub. intros i j Hi Hj. cbn [nr nc msub] in Hi, Hj.
  rewrite get_msub, get_mpaste by assumption.
  destruct (Nat.ltb_spec i (nr B)), (Nat.ltb_spec j (nc B)); try lia. cbn [andb].
  destruct (Nat.leb_spec r0 (r0 + i)), (Nat.ltb_spec (r0 + i) (r0 + nr B)), (Nat.leb_spec c0 (c0 + j)),
    (Nat.ltb_spec (c0 + j) (c0 + nc B)); try lia. cbn [andb].
  f_equal; lia.
Qed.

Theorem mpaste_msub A r0 c0 r c : wf A -> r0 + r <= nr A -> c0 + c <= nc A ->
  mpaste A r0 c0 (msub A r0 c0 r c) = A.
Proof.
  intros HA Hr Hc. pose proof (wf_len A HA) as Hl.
  assert (HS : wf (msub A r0 c0 r c)) by (apply wf_msub; lia).
  apply mat_ext; auto; [apply wf_mpaste; auto|]. intros i j _ _.
  rewrite get_mpaste by (auto; cbn [nr msub]; lia). cbn [nr nc msub].
  destruct (Nat.leb_spec r0 i), (Nat.ltb_spec i (r0 + r)), (Nat.leb_spec c0 j),
    (Nat.ltb_spec j (c0 + c)); cbn [andb]; try reflexivity.
  rewrite get_msub by lia.
  destruct (Nat.ltb_spec (i - r0) r), (Nat.ltb_spec (j - c0) c); try lia. cbn [andb]. f_equal; lia.
Qed.

(** * summary: every row/column/bit operation preserves well-formedness *)
Theorem ops_preserve_wf M : wf M ->
  (forall a b, wf (row_swap M a b)) /\
  (forall a b r0 r1, a < nc M -> b < nc M -> wf (col_swap_in_rows M a b r0 r1)) /\
  (forall a b, a < nc M -> b < nc M -> wf (col_swap M a b)) /\
  (forall d s c0, wf (row_add_offset M d s c0)) /\
  (forall s d, wf (row_add M s d)) /\
  (forall r c0, wf (row_clear_offset M r c0)) /\
  (forall x y n v, y + n <= nc M -> wf (xor_bits M x y n v)) /\
  (forall x y n, wf (clear_bits M x y n)) /\
  (forall i j b, j < nc M -> wf (write_bit M i j b)) /\
  (forall i A j, wf A -> nc A <= nc M -> wf (copy_row M i A j)) /\
  (forall r0 c0 B, wf B -> c0 + nc B <= nc M -> wf (mpaste M r0 c0 B)) /\
  (forall P, wf P -> nc P <= nc M -> wf (mcopy_into M P)) /\
  wf (extract_u M) /\ wf (extract_l M).
Proof.
  intros HM. repeat match goal with |- _ /\ _ => split end; intros;
    auto using wf_row_swap, wf_col_swap_in_rows, wf_col_swap, wf_row_add_offset, wf_row_add,
      wf_row_clear_offset, wf_xor_bits, wf_clear_bits, wf_write_bit, wf_copy_row, wf_mpaste,
      wf_mcopy_into, wf_extract_u, wf_extract_l.
Qed.
