(* Properties/Properties_C14.v -- allocation histories: fresh matrices are zero, disjoint and safely
   recyclable.  Statements only; model in Sys/Alloc.v (extracted and compared with the library by
   tools/props/c14.py), proofs in Sys/AllocInv.v.

   All theorems quantify over EVERY parameter record [p] with NBLOCKS >= 1 ([params_ok]; cache sizes,
   threshold, both caches on or off) and EVERY well-formed history [ops] ([wf_ops]: the user does not
   free a handle twice, does not create a view of a freed matrix, does not write through a dangling
   view).  [run p ops] = (final state, emitted event trace). *)
From Coq Require Import List NArith Bool.
From M4 Require Import Sys.Alloc Sys.AllocInv.
Import ListNotations.
Local Open Scope N_scope.

(* 1. the ownership invariant (every system block has exactly one owner: a live non-window matrix,
      a live malloc'd header, a block-cache slot, or the header-block list; used bits = live headers) *)
Theorem C14_alloc_inv : forall p ops,
  params_ok p -> wf_ops ops = true -> Inv p (fst (run p ops)) [] [].
Proof. exact alloc_inv. Qed.
Print Assumptions C14_alloc_inv.

(* 2. the matrix returned by mzd_init after any history is all zero, whatever dirty block the cache
      handed back; [fill_of] = 0 means every byte of the block is zero (NULL data for zero area) *)
Theorem C14_fresh_zero : forall p ops r c,
  params_ok p -> wf_ops ops = true ->
  let s := fst (run p ops) in
  let s' := fst (run p (ops ++ [Init r c])) in
  exists m ev0,
    st_mats s' = st_mats s ++ [m] /\ m_live m = true /\ m_win m = false /\ m_rows m = r /\ m_cols m = c /\
    snd (run p (ops ++ [Init r c]))
      = ev0 ++ [RetInit (length (st_mats s)) r c (rowstride_of c) (data_id m) (m_hdr m) true] /\
    fill_of s' (data_id m) = 0 /\
    match m_data m with
    | Some (d, off) => r <> 0 /\ c <> 0 /\ off = 0 /\
                       heap_find (st_heap s') d = Some (mkBlk (r * rowstride_of c * 8) 0)
    | None => r = 0 \/ c = 0
    end.
Proof. exact fresh_zero. Qed.
Print Assumptions C14_fresh_zero.

(* 3. distinct live matrices have distinct header slots and (non-windows) distinct data blocks, a data
      block is never another matrix's malloc'd header; the blocks of a live matrix are allocated and
      sit in neither cache; a cached header slot of a live matrix is marked used in a linked block *)
Theorem C14_live_disjoint : forall p ops,
  params_ok p -> wf_ops ops = true ->
  let s := fst (run p ops) in
  (forall h1 h2 m1 m2, h1 <> h2 -> nth_error (st_mats s) h1 = Some m1 -> nth_error (st_mats s) h2 = Some m2 ->
     m_live m1 = true -> m_live m2 = true ->
     m_hdr m1 <> m_hdr m2 /\
     (m_win m1 = false -> m_win m2 = false -> forall k1 k2, data_id m1 = Some k1 -> data_id m2 = Some k2 -> k1 <> k2) /\
     (m_win m1 = false -> forall k, data_id m1 = Some k -> m_hdr m2 <> HMalloc k)) /\
  (forall h m, nth_error (st_mats s) h = Some m -> m_live m = true ->
     (m_win m = false -> forall k, data_id m = Some k ->
        In k (keys (st_heap s)) /\
        (forall sl, In sl (st_mmc s) -> s_size sl <> 0 -> s_data sl <> Some k) /\
        ~ In (Some k) (map fst (st_hb s)) /\ m_hdr m <> HMalloc k) /\
     match m_hdr m with
     | HSlot c e => In c (map fst (st_hb s)) /\ N.testbit (hb_used (st_hb s) c) e = true
     | HMalloc i => In i (keys (st_heap s)) /\
                    (forall sl, In sl (st_mmc s) -> s_size sl <> 0 -> s_data sl <> Some i) /\
                    ~ In (Some i) (map fst (st_hb s))
     end).
Proof. exact live_disjoint. Qed.
Print Assumptions C14_live_disjoint.

(* 4a. any live matrix may be freed at any time: the invariant survives, every other matrix record is
       untouched and the block (identity, size, fill) of every other live matrix is unchanged *)
Theorem C14_free_any_order : forall p ops h,
  params_ok p -> wf_ops (ops ++ [Free h]) = true ->
  let s := fst (run p ops) in
  let s' := fst (run p (ops ++ [Free h])) in
  Inv p s' [] [] /\
  forall h' m', h' <> h -> nth_error (st_mats s) h' = Some m' ->
    nth_error (st_mats s') h' = Some m' /\
    (m_live m' = true -> m_win m' = false -> forall k, data_id m' = Some k ->
       exists b, heap_find (st_heap s) k = Some b /\ heap_find (st_heap s') k = Some b).
Proof. exact free_any_order. Qed.
Print Assumptions C14_free_any_order.

(* 4b. freeing a view neither frees nor changes the block of the matrix owning the storage *)
Theorem C14_window_free_keeps_data : forall p ops h W,
  params_ok p -> wf_ops (ops ++ [Free h]) = true ->
  let s := fst (run p ops) in
  let s' := fst (run p (ops ++ [Free h])) in
  nth_error (st_mats s) h = Some W -> m_win W = true ->
  exists P, m_root W <> h /\ nth_error (st_mats s) (m_root W) = Some P /\ m_win P = false /\
            data_id W = data_id P /\
            nth_error (st_mats s') (m_root W) = Some P /\
            (m_live P = true -> forall k, data_id P = Some k ->
               exists b, heap_find (st_heap s) k = Some b /\ heap_find (st_heap s') k = Some b).
Proof. exact window_free_keeps_data. Qed.
Print Assumptions C14_window_free_keeps_data.

(* 5. the trace of system calls is that of a sane client: [tcheck] accepts it (every SysAlloc returns an
      identity not seen before, every SysFree is of a block allocated and not yet freed) and ends in the
      model's heap; in particular no double free *)
Theorem C14_trace_ok : forall p ops,
  params_ok p -> wf_ops ops = true ->
  tcheck (0, []) (snd (run p ops)) = Some (st_next (fst (run p ops)), keys (st_heap (fst (run p ops)))).
Proof. exact trace_ok. Qed.
Print Assumptions C14_trace_ok.

Theorem C14_no_double_free : forall p ops a i b,
  params_ok p -> wf_ops ops = true -> snd (run p ops) = a ++ SysFree i :: b ->
  exists nx live, tcheck (0, []) a = Some (nx, live) /\ In i live.
Proof. exact no_double_free. Qed.
Print Assumptions C14_no_double_free.

(* 6. retention.  After m4ri_fini the block cache owns nothing, for any history: what stays allocated is
      exactly the blocks of live matrices and the linked non-static header blocks ... *)
Theorem C14_fini_retains : forall p ops,
  params_ok p -> wf_ops ops = true ->
  let s' := fst (run p (ops ++ [Fini])) in
  forall x, count_occ N.eq_dec (keys (st_heap s')) x
            = (count_occ N.eq_dec (flat_map mat_ids (st_mats s')) x
               + count_occ N.eq_dec (flat_map hb_ids (st_hb s')) x)%nat.
Proof. exact fini_retains. Qed.
Print Assumptions C14_fini_retains.

(* ... hence, once every handle has been freed, nothing at all (with either cache on or off) *)
Theorem C14_no_retention : forall p ops,
  params_ok p -> wf_ops ops = true -> all_freed ops = true ->
  keys (st_heap (fst (run p (ops ++ [Fini])))) = [].
Proof. exact no_retention. Qed.
Print Assumptions C14_no_retention.

(* Non-vacuity: the hypotheses are satisfiable and the interesting branches are reached (2-slot block
   cache with an eviction and a dirty exact-size hit; header spill, unlink, plain malloc beyond
   CACHE_MAX = 2 blocks; views; everything freed + fini, caches on and off) *)
Example C14_ex_params : params_ok ex_p2 /\ params_ok ex_p_off.
Proof. exact ex_params_ok. Qed.

Example C14_ex_evict :
  wf_ops ex_evict = true /\
  filter is_sys (snd (run ex_p2 ex_evict)) = [SysAlloc 0 48; SysAlloc 1 16; SysAlloc 2 64; SysFree 0] /\
  heap_find (st_heap (fst (run ex_p2 (firstn 8 ex_evict)))) 1 = Some (mkBlk 16 9) /\
  heap_find (st_heap (fst (run ex_p2 ex_evict))) 1 = Some (mkBlk 16 0) /\
  option_map m_data (nth_error (st_mats (fst (run ex_p2 ex_evict))) 3) = Some (Some (1, 0)).
Proof. exact ex_evict_trace. Qed.

Example C14_ex_spill :
  wf_ops (repeat (Init 0 0) 65 ++ [Free 64]) = true /\
  filter is_sys (snd (run ex_p2 (repeat (Init 0 0) 65 ++ [Free 64]))) = [SysAlloc 0 4160; SysFree 0] /\
  filter is_sys (snd (run ex_p2 (repeat (Init 0 0) 129 ++ [Free 128]))) = [SysAlloc 0 4160; SysAlloc 1 64; SysFree 1] /\
  option_map m_hdr (nth_error (st_mats (fst (run ex_p2 (repeat (Init 0 0) 129)))) 128) = Some (HMalloc 1).
Proof. exact ex_spill_trace. Qed.

Example C14_ex_no_retention :
  wf_ops ex_all = true /\ all_freed ex_all = true /\
  keys (st_heap (fst (run ex_p2 ex_all))) = [2; 1] /\
  keys (st_heap (fst (run ex_p2 (ex_all ++ [Fini])))) = [] /\
  keys (st_heap (fst (run ex_p_off ex_all))) = [].
Proof. exact ex_no_retention. Qed.

Example C14_ex_free_window :
  wf_ops [Init 3 3; Write 0 7; Window 0 1 0 3 3; Free 1] = true /\
  heap_find (st_heap (fst (run ex_p2 [Init 3 3; Write 0 7; Window 0 1 0 3 3; Free 1]))) 0 = Some (mkBlk 48 7).
Proof. exact ex_free_window. Qed.
