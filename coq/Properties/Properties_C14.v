(* Properties/Properties_C14.v — allocation histories.  Statements only; models in Sys/Alloc.v,
   proofs in Sys/AllocInv.v.  PARTIAL at this commit: the invariant is proven for the block-cache
   layer (m4ri_mmc_malloc / free / cleanup); the header cache and the lift to arbitrary histories of
   mzd_init / window / free / fini are being proven (see DESIGN.md C14). *)
From Coq Require Import List NArith.
From M4 Require Import Sys.Alloc Sys.AllocInv.

Theorem C14_mmc_malloc_partial : forall p s held hx sz s' d ev,
  Inv p s held hx -> sz <> 0%N -> mmc_malloc p s sz = (s', d, ev) ->
  Inv p s' (d :: held) hx /\ evs_ok s ev s' /\ hrel s s' /\
  st_hb s' = st_hb s /\ st_cur s' = st_cur s /\ st_mats s' = st_mats s /\
  (exists b, heap_find (st_heap s') d = Some b /\ b_size b = sz).
Proof. exact mmc_malloc_inv. Qed.
Print Assumptions C14_mmc_malloc_partial.

Theorem C14_mmc_cleanup_partial : forall p s held hx s' ev,
  Inv p s held hx -> mmc_cleanup p s = (s', ev) ->
  Inv p s' held hx /\ evs_ok s ev s' /\ hrel s s' /\
  st_hb s' = st_hb s /\ st_cur s' = st_cur s /\ st_mats s' = st_mats s /\
  (enable_mmc p = true -> forall x, cnt (flat_map slot_ids (st_mmc s')) x = 0%nat).
Proof. exact mmc_cleanup_inv. Qed.
Print Assumptions C14_mmc_cleanup_partial.
