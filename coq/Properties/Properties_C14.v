From M4 Require Import Sys.Alloc Sys.AllocInv.
Theorem C14_stub : True. Proof. exact stub. Qed.
Print Assumptions C14_stub.
