(* Properties_C19 — under construction *)
From M4 Require Import Leaf.LeafSpecs.
