(* Properties/Properties_C19.v — C19 "Gray-code tables and word-level bit kernels are exactly right
   (finite domains)".  Statements only; proofs in Leaf/LeafSpecs{,2,3,4}.v and Alg/GrayProofs.v.

   Every statement except C19_gray_lookup is about the T1-TRANSLATED C function (Leaf/Gen_leaf.v,
   regenerated from /repo by tools/translate.py on every run) executed by the CMini interpreter
   ([interp leaf_prog], through [call_int] / [run_parity64] / [run_sp] / [run_build_code]):
   [Ok r] means the interpreter found no undefined behaviour, no out-of-bounds access, no abort and
   did not run out of fuel.  Data words are universally quantified; the finite control domains
   (k <= 16, 65 x 64 masks, lengths 1..16, l <= 31) carry their bound in the statement. *)
From Coq Require Import ZArith NArith List String Bool Lia.
From M4 Require Import Base.Bits Lin.Mat Lin.Ops Leaf.CMini Leaf.Gen_leaf Alg.Gray Alg.GrayProofs
  Leaf.LeafSpecs Leaf.LeafSpecs2 Leaf.LeafSpecs3 Leaf.LeafSpecs4.
Import ListNotations.
Local Open Scope Z_scope.

(** * 1. Code book, k = 1..16: the model's code book is a Gray code book (permutation of [0,2^k),
      consecutive entries differ exactly in bit inc[i]) and the translated m4ri_build_code
      (+ m4ri_gray_code) writes exactly that code book into two uninitialised int arrays *)
Theorem C19_codebook : forall k, (1 <= k <= 16)%nat ->
  codebook_ok k /\
  exists m, fst (fst (run_build_code k)) = Ok (None, m) /\
            tables_are k m (snd (fst (run_build_code k))) (snd (run_build_code k)) (build_code k).
Proof. exact LeafSpecs2.C19_codebook. Qed.
Print Assumptions C19_codebook.

(** ... so a table built by successive single-row additions returns, for every k-bit pattern x,
    the sum of exactly the rows selected by the bits of x (every k, model of mzd_make_table) *)
Theorem C19_gray_lookup : forall k M r T0 L0 x,
  wf M -> (r + k <= nr M)%nat -> (2 ^ k <= List.length T0)%nat -> (2 ^ k <= List.length L0)%nat ->
  nth 0 T0 0%N = 0%N -> Forall (bounded (radix * mwidth (nc M))) T0 ->
  (x < 2 ^ N.of_nat k)%N ->
  tlookup (make_table M r 0 k T0 L0) x = mul_row x (block_rows M r k).
Proof. exact gray_lookup. Qed.
Print Assumptions C19_gray_lookup.

(** the translated m4ri_gray_code alone: every length 0..31, every non-negative int *)
Theorem C19_gray_code : forall (l : nat) (number : N), (l <= 31)%nat -> (number < 2 ^ 31)%N ->
  call_int "m4ri_gray_code" [Z.of_N number; Z.of_nat l] = Ok (Z.of_N (gray_code number l)).
Proof. exact gen_gray_code_eq. Qed.
Print Assumptions C19_gray_code.

(** * 2. m4ri_parity64: bit i of the result is the parity of buf[i], for ALL 64 x 64-bit inputs *)
Theorem C19_parity64 : forall buf, List.length buf = 64%nat -> Forall w64 buf ->
  exists r, run_parity64 buf = Ok r /\ w64 r /\
            forall i, (i < 64)%nat -> Z.testbit r (Z.of_nat i) = parity_of (nth i buf 0).
Proof. exact parity64_spec. Qed.
Print Assumptions C19_parity64.

(** * 3. Bit masks: all 65 lengths x 64 offsets, UB-free domains as documented in misc.h *)
Theorem C19_left_bitmask : forall n, 0 <= n <= 64 ->
  exists r, call_int "stub_left_bitmask" [n] = Ok r /\ r = Z.ones (left_n n) /\
            forall i, 0 <= i -> Z.testbit r i = (i <? left_n n).
Proof. exact left_bitmask_spec. Qed.
Print Assumptions C19_left_bitmask.

Theorem C19_right_bitmask : forall n, 0 < n <= 64 ->
  exists r, call_int "stub_right_bitmask" [n] = Ok r /\ r = Z.shiftl (Z.ones n) (64 - n) /\
            forall i, 0 <= i -> Z.testbit r i = (64 - n <=? i) && (i <? 64).
Proof. exact right_bitmask_spec. Qed.
Print Assumptions C19_right_bitmask.

(** the excluded argument really is undefined behaviour (shift by 64), as misc.h:291 says *)
Theorem C19_right_bitmask_0_UB : is_UB (call_int "stub_right_bitmask" [0]) = true.
Proof. exact right_bitmask_0_UB. Qed.
Print Assumptions C19_right_bitmask_0_UB.

Theorem C19_middle_bitmask_grid : forall n off, 0 <= n <= 64 -> 0 <= off < 64 ->
  call_int "stub_middle_bitmask" [n; off] = Ok (Z.shiftl (Z.ones (left_n n)) off mod 2 ^ 64).
Proof. exact middle_bitmask_grid. Qed.
Print Assumptions C19_middle_bitmask_grid.

Theorem C19_middle_bitmask : forall n off, 0 <= off < 64 -> 0 < n <= 64 - off ->
  exists r, call_int "stub_middle_bitmask" [n; off] = Ok r /\ r = Z.shiftl (Z.ones n) off /\
            forall i, 0 <= i -> Z.testbit r i = (off <=? i) && (i <? off + n).
Proof. exact middle_bitmask_spec. Qed.
Print Assumptions C19_middle_bitmask.

Theorem C19_middle_is_left_and_right : forall n off, 0 <= off < 64 -> 0 < n <= 64 - off ->
  exists m l r, call_int "stub_middle_bitmask" [n; off] = Ok m /\
                call_int "stub_left_bitmask" [n + off] = Ok l /\
                call_int "stub_right_bitmask" [64 - off] = Ok r /\ m = Z.land l r.
Proof. exact middle_is_left_and_right. Qed.
Print Assumptions C19_middle_is_left_and_right.

(** * 4. m4ri_swap_bits reverses the 64 bits of EVERY word *)
Theorem C19_swap_bits : forall v, w64 v ->
  exists r, call_int "m4ri_swap_bits" [v] = Ok r /\ w64 r /\
            forall i, 0 <= i < 64 -> Z.testbit r i = Z.testbit v (63 - i).
Proof. exact swap_bits_spec. Qed.
Print Assumptions C19_swap_bits.

(** * 5. m4ri_spread_bits / m4ri_shrink_bits: every length 1..16, every strictly increasing Q in
      range, every word; bit-level meaning and both inverse laws *)
Theorem C19_spread_bits : forall from Q n base, (1 <= n <= 16)%nat -> sorted_in_range Q base n ->
  exists r, run_sp "m4ri_spread_bits" from Q (Z.of_nat n) base = Ok r /\ w64 r /\
    (forall j, (j < n)%nat -> Z.testbit r (nth j Q 0 - base) = Z.testbit from (Z.of_nat j)) /\
    (forall i, 0 <= i -> (forall j, (j < n)%nat -> i <> nth j Q 0 - base) -> Z.testbit r i = false).
Proof. exact spread_bits_spec. Qed.
Print Assumptions C19_spread_bits.

Theorem C19_shrink_bits : forall from Q n base, (1 <= n <= 16)%nat -> sorted_in_range Q base n ->
  exists r, run_sp "m4ri_shrink_bits" from Q (Z.of_nat n) base = Ok r /\ w64 r /\
    (forall j, (j < n)%nat -> Z.testbit r (Z.of_nat j) = Z.testbit from (nth j Q 0 - base)) /\
    (forall i, Z.of_nat n <= i -> Z.testbit r i = false).
Proof. exact shrink_bits_spec. Qed.
Print Assumptions C19_shrink_bits.

Theorem C19_spread_shrink_inverse : forall from Q n base, (1 <= n <= 16)%nat -> sorted_in_range Q base n ->
  0 <= from < 2 ^ Z.of_nat n ->
  exists s, run_sp "m4ri_spread_bits" from Q (Z.of_nat n) base = Ok s /\ w64 s /\
            run_sp "m4ri_shrink_bits" s Q (Z.of_nat n) base = Ok from.
Proof. exact spread_shrink_inverse. Qed.
Print Assumptions C19_spread_shrink_inverse.

Theorem C19_shrink_spread_inverse : forall y Q n base, (1 <= n <= 16)%nat -> sorted_in_range Q base n -> 0 <= y ->
  (forall i, 0 <= i -> (forall j, (j < n)%nat -> i <> nth j Q 0 - base) -> Z.testbit y i = false) ->
  exists s, run_sp "m4ri_shrink_bits" y Q (Z.of_nat n) base = Ok s /\ 0 <= s < 2 ^ Z.of_nat n /\
            run_sp "m4ri_spread_bits" s Q (Z.of_nat n) base = Ok y.
Proof. exact shrink_spread_inverse. Qed.
Print Assumptions C19_shrink_spread_inverse.

(** * 6. m4ri_lesser_LSB (all pairs of words) and log2_floor (all non-negative ints) *)
Theorem C19_lesser_LSB : forall a b, w64 a -> w64 b ->
  call_int "m4ri_lesser_LSB" [a; b] = Ok (if lsbi a <? lsbi b then 1 else 0).
Proof. exact lesser_LSB_spec. Qed.
Print Assumptions C19_lesser_LSB.

Theorem C19_lsbi_meaning : forall w, 0 < w ->
  0 <= lsbi w /\ Z.testbit w (lsbi w) = true /\ forall k, 0 <= k < lsbi w -> Z.testbit w k = false.
Proof. exact lsbi_spec. Qed.
Print Assumptions C19_lsbi_meaning.

Theorem C19_log2_floor : forall v, 0 <= v < 2 ^ 31 -> call_int "log2_floor" [v] = Ok (Z.log2 v).
Proof. exact log2_floor_spec. Qed.
Print Assumptions C19_log2_floor.

(** * Non-vacuity *)
Example C19_ex_codebook_3 : fst (build_code 3) = [0; 1; 3; 2; 6; 7; 5; 4]%N /\ snd (build_code 3) = [0; 1; 0; 2; 0; 1; 0; 2]%nat.
Proof. split; reflexivity. Qed.
Example C19_ex_parity : run_parity64 (7 :: 1 :: repeat 0 62) = Ok 3.
Proof. vm_compute. reflexivity. Qed.
Example C19_ex_parity_hyp : List.length (7 :: 1 :: repeat 0 62) = 64%nat /\ Forall w64 (7 :: 1 :: repeat 0 62).
Proof. split; [reflexivity|]. repeat constructor; unfold w64; lia. Qed.
Example C19_ex_middle : call_int "stub_middle_bitmask" [3; 60] = Ok (Z.shiftl 7 60).
Proof. vm_compute. reflexivity. Qed.
Example C19_ex_swap : call_int "m4ri_swap_bits" [1] = Ok (2 ^ 63).
Proof. vm_compute. reflexivity. Qed.
Example C19_ex_sorted : sorted_in_range [3; 7; 64; 66] 3 4.
Proof. exact sorted_example. Qed.
Example C19_ex_spread : run_sp "m4ri_spread_bits" 11 [3; 7; 64; 66] 4 3 = Ok (1 + 16 + 2 ^ 63).
Proof. vm_compute. reflexivity. Qed.
Example C19_ex_shrink : run_sp "m4ri_shrink_bits" (1 + 16 + 2 ^ 63) [3; 7; 64; 66] 4 3 = Ok 11.
Proof. vm_compute. reflexivity. Qed.
Example C19_ex_lsb : call_int "m4ri_lesser_LSB" [4; 8] = Ok 1 /\ call_int "m4ri_lesser_LSB" [8; 4] = Ok 0 /\
                     call_int "m4ri_lesser_LSB" [0; 4] = Ok 0 /\ call_int "m4ri_lesser_LSB" [4; 0] = Ok 1.
Proof. repeat split; vm_compute; reflexivity. Qed.
Example C19_ex_log2 : call_int "log2_floor" [1000] = Ok 9.
Proof. vm_compute. reflexivity. Qed.
Example C19_ex_gray : call_int "m4ri_gray_code" [5; 3] = Ok 7.
Proof. vm_compute. reflexivity. Qed.
