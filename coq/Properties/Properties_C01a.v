(* Properties/Properties_C01a.v — C01 "every multiplication route computes exactly A*B (or
   C + A*B)", part a: the cubic routes (mzd_mul_naive, mzd_addmul_naive, _mzd_mul_naive,
   _mzd_mul_va) and the Four-Russians routes (mzd_mul_m4rm, mzd_addmul_m4rm, _mzd_mul_m4rm).
   Statements only; models in Alg/Mul.v (+ Alg/Gray.v for mzd_make_table), proofs in
   Alg/MulProofs.v.  To be merged into Properties_C01.v.

   Reading guide.  [option mat]: [None] = the C call does not return normally (m4ri_die or crash, see
   the header of Alg/Mul.v).  [acc clr C P] = if clr then P else C + P.  [blk] = __M4RI_MUL_BLOCKSIZE
   (any positive value), [k] = the requested table size (any integer, clipped to [2,8] by the
   code), [kauto] = the value the code would compute for k = 0 (any integer), [g] = the state of the
   8 tables and index buffers at their first use (any state admitted by [tables_ok]: >= 2^k rows and
   entries, row 0 zero, arbitrary garbage elsewhere).  "Factors unchanged" holds by purity: the
   models are functions of A and B.  [naive_defined A B clr] characterises exactly the operands
   on which the naive routes return; it holds whenever B has positive dimensions or >= 54
   columns; its failure on EMPTY operands is a finding (C01a_naive_empty_dies below). *)
From Coq Require Import List NArith ZArith Arith Lia Bool.
From M4 Require Import Base.Bits Lin.Mat Lin.MatAlg Lin.Ops Alg.Gray Alg.GrayProofs Alg.Mul Alg.MulProofs.
Import ListNotations.
Local Open Scope nat_scope.

(** * 1. cubic routes *)

(** _mzd_mul_naive(C, A, BT, clear) with BT = transpose of B: dot products through parities *)
Theorem C01a_mul_naive_core : forall blk C A B clr,
  wf A -> wf B -> wf C -> nr C = nr A -> nc C = nc B -> 0 < blk ->
  (clr = true -> nc C = 0 -> nr C = 0) ->
  mul_naive_core blk C A (mtrans B) clr = Some (acc clr C (mmul A B)).
Proof. exact mul_naive_core_spec. Qed.
Print Assumptions C01a_mul_naive_core.

(** _mzd_mul_va(C, A, B, clear): row combination *)
Theorem C01a_mul_va : forall C A B clr,
  wf A -> wf B -> wf C -> nc A = nr B -> nr C = nr A -> nc C = nc B ->
  (clr = true -> nc C = 0 -> nr C = 0) ->
  mul_va C A B clr = Some (acc clr C (mmul A B)).
Proof. exact mul_va_spec. Qed.
Print Assumptions C01a_mul_va.

(** the route choice  B->ncols < 54  and both routes, complete behaviour *)
Theorem C01a_naive_route : forall blk C A B clr,
  wf A -> wf B -> wf C -> nc A = nr B -> nr C = nr A -> nc C = nc B -> 0 < blk ->
  naive_route blk C A B clr =
  if naive_defined A B clr then Some (acc clr C (mmul A B)) else None.
Proof. exact naive_route_defined. Qed.
Print Assumptions C01a_naive_route.

Theorem C01a_naive_defined_pos : forall A B clr, 0 < nr B -> 0 < nc B -> naive_defined A B clr = true.
Proof. exact naive_defined_pos. Qed.
Print Assumptions C01a_naive_defined_pos.

Theorem C01a_mul_naive : forall blk C A B,
  wf A -> wf B -> wf C -> nc A = nr B -> nr C = nr A -> nc C = nc B -> 0 < blk ->
  naive_defined A B true = true ->
  mul_naive blk (Some C) A B = Some (mmul A B).
Proof. exact mul_naive_spec. Qed.
Print Assumptions C01a_mul_naive.

Theorem C01a_mul_naive_new : forall blk A B,
  wf A -> wf B -> nc A = nr B -> 0 < blk -> naive_defined A B true = true ->
  mul_naive blk None A B = Some (mmul A B).
Proof. exact mul_naive_new_spec. Qed.
Print Assumptions C01a_mul_naive_new.

Theorem C01a_addmul_naive : forall blk C A B,
  wf A -> wf B -> wf C -> nc A = nr B -> nr C = nr A -> nc C = nc B -> 0 < blk ->
  naive_defined A B false = true ->
  addmul_naive blk C A B = Some (madd C (mmul A B)).
Proof. exact addmul_naive_spec. Qed.
Print Assumptions C01a_addmul_naive.

Theorem C01a_mul_naive_die : forall blk C A B,
  nr C <> nr A \/ nc C <> nc B -> mul_naive blk (Some C) A B = None.
Proof. exact mul_naive_die. Qed.
Print Assumptions C01a_mul_naive_die.

Theorem C01a_addmul_naive_die : forall blk C A B,
  nr C <> nr A \/ nc C <> nc B -> addmul_naive blk C A B = None.
Proof. exact addmul_naive_die. Qed.
Print Assumptions C01a_addmul_naive_die.

(** both wrappers, every case *)
Theorem C01a_naive_run : forall blk clr C A B, wf A -> wf B -> wf C -> 0 < blk ->
  naive_run blk clr C A B =
  if (nr C =? nr A) && (nc C =? nc B) then
    if negb (nc A =? nr B) then None
    else if naive_defined A B clr then Some (acc clr C (mmul A B)) else None
  else None.
Proof. exact naive_run_spec. Qed.
Print Assumptions C01a_naive_run.

(** FINDING: valid (empty) operands on which the naive routes abort or crash *)
Theorem C01a_naive_empty_dies : forall blk C A B clr,
  wf A -> wf B -> wf C -> nc A = nr B -> nr C = nr A -> nc C = nc B -> 0 < blk ->
  nc B < 54 ->
  (nr B = 0 /\ 0 < nc B) \/ (0 < nr B /\ nc B = 0) \/ (nr B = 0 /\ nc B = 0 /\ clr = true /\ 0 < nr A) ->
  naive_route blk C A B clr = None.
Proof. exact naive_empty_dies. Qed.
Print Assumptions C01a_naive_empty_dies.

(** * 2. Four Russians *)

(** the splitting lemma: the combination selected by the first c+n bits of a row is the one
    selected by the first c bits plus what one table built from rows c .. c+n-1 delivers *)
Theorem C01a_mul_row_split : forall rs a c n, c + n <= length rs ->
  mul_row (N.land a (N.ones (N.of_nat (c + n)))) rs =
  N.lxor (mul_row (N.land a (N.ones (N.of_nat c))) rs)
         (mul_row (N.land (N.shiftr a (N.of_nat c)) (N.ones (N.of_nat n))) (firstn n (skipn c rs))).
Proof. exact mul_row_split. Qed.
Print Assumptions C01a_mul_row_split.

(** _mzd_mul_m4rm: all three phases, tables reused from block to block starting from arbitrary
    admissible garbage, every block size, every k and every automatic choice *)
Theorem C01a_m4rm : forall blk kauto k g C A B clr,
  wf A -> wf B -> wf C -> nc A = nr B -> nr C = nr A -> nc C = nc B -> 0 < blk ->
  tables_ok (choose_k kauto k) B g ->
  naive_defined A B clr = true ->
  mul_m4rm_core blk kauto k g C A B clr = Some (acc clr C (mmul A B)).
Proof. exact m4rm_spec. Qed.
Print Assumptions C01a_m4rm.

Theorem C01a_m4rm_complete : forall blk kauto k g C A B clr,
  wf A -> wf B -> wf C -> nc A = nr B -> nr C = nr A -> nc C = nc B -> 0 < blk ->
  tables_ok (choose_k kauto k) B g ->
  mul_m4rm_core blk kauto k g C A B clr =
  if naive_defined A B clr then Some (acc clr C (mmul A B)) else None.
Proof. exact m4rm_core_complete. Qed.
Print Assumptions C01a_m4rm_complete.

(** mzd_mul_m4rm(C, A, B, k) / mzd_mul_m4rm(NULL, A, B, k) / mzd_addmul_m4rm(C, A, B, k) *)
Theorem C01a_mul_m4rm : forall blk kauto k g C A B,
  wf A -> wf B -> wf C -> nc A = nr B -> nr C = nr A -> nc C = nc B -> 0 < blk ->
  tables_ok (choose_k kauto k) B g -> naive_defined A B true = true ->
  mul_m4rm blk kauto k g (Some C) A B = Some (mmul A B).
Proof. exact mul_m4rm_spec. Qed.
Print Assumptions C01a_mul_m4rm.

Theorem C01a_mul_m4rm_new : forall blk kauto k g A B,
  wf A -> wf B -> nc A = nr B -> 0 < blk ->
  tables_ok (choose_k kauto k) B g -> naive_defined A B true = true ->
  mul_m4rm blk kauto k g None A B = Some (mmul A B).
Proof. exact mul_m4rm_new_spec. Qed.
Print Assumptions C01a_mul_m4rm_new.

Theorem C01a_addmul_m4rm : forall blk kauto k g C A B,
  wf A -> wf B -> wf C -> nc A = nr B -> nr C = nr A -> nc C = nc B -> 0 < blk ->
  tables_ok (choose_k kauto k) B g -> naive_defined A B false = true ->
  addmul_m4rm blk kauto k g C A B = Some (madd C (mmul A B)).
Proof. exact addmul_m4rm_spec. Qed.
Print Assumptions C01a_addmul_m4rm.

(** exactly Some (A x B) on compatible dimensions, None (m4ri_die) otherwise *)
Theorem C01a_mul_m4rm_complete : forall blk kauto k g C A B,
  wf A -> wf B -> wf C -> 0 < blk -> tables_ok (choose_k kauto k) B g ->
  mul_m4rm blk kauto k g (Some C) A B =
  if (nc A =? nr B) && (nr C =? nr A) && (nc C =? nc B) && naive_defined A B true
  then Some (mmul A B) else None.
Proof. exact mul_m4rm_complete. Qed.
Print Assumptions C01a_mul_m4rm_complete.

Theorem C01a_addmul_m4rm_complete : forall blk kauto k g C A B,
  wf A -> wf B -> wf C -> 0 < blk -> tables_ok (choose_k kauto k) B g ->
  addmul_m4rm blk kauto k g C A B =
  if (nc C =? 0) || (nr C =? 0) then Some C
  else if (nc A =? nr B) && (nr C =? nr A) && (nc C =? nc B) && naive_defined A B false
  then Some (madd C (mmul A B)) else None.
Proof. exact addmul_m4rm_complete. Qed.
Print Assumptions C01a_addmul_m4rm_complete.

Theorem C01a_mul_m4rm_die : forall blk kauto k g C A B,
  nc A <> nr B \/ (exists C', C = Some C' /\ (nr C' <> nr A \/ nc C' <> nc B)) ->
  mul_m4rm blk kauto k g C A B = None.
Proof. exact mul_m4rm_die. Qed.
Print Assumptions C01a_mul_m4rm_die.

Theorem C01a_addmul_m4rm_die : forall blk kauto k g C A B, 0 < nr C -> 0 < nc C ->
  nc A <> nr B \/ nr C <> nr A \/ nc C <> nc B ->
  addmul_m4rm blk kauto k g C A B = None.
Proof. exact addmul_m4rm_die. Qed.
Print Assumptions C01a_addmul_m4rm_die.

(** fresh tables (what a new process has) are admissible; the extracted entry point computes the
    specification *)
Theorem C01a_tables_init_ok : forall k B, tables_ok k B (tables_init k).
Proof. exact tables_init_ok. Qed.
Print Assumptions C01a_tables_init_ok.

Theorem C01a_m4rm_run : forall k blk clr C A B, wf A -> wf B -> wf C -> 0 < blk ->
  m4rm_run k blk clr C A B =
  if clr then
    if (nc A =? nr B) && (nr C =? nr A) && (nc C =? nc B) && naive_defined A B true
    then Some (mmul A B) else None
  else
    if (nc C =? 0) || (nr C =? 0) then Some C
    else if (nc A =? nr B) && (nr C =? nr A) && (nc C =? nc B) && naive_defined A B false
    then Some (madd C (mmul A B)) else None.
Proof. exact m4rm_run_spec. Qed.
Print Assumptions C01a_m4rm_run.

Theorem C01a_m4rm_run_pos : forall k blk clr C A B, wf A -> wf B -> wf C -> 0 < blk ->
  nc A = nr B -> nr C = nr A -> nc C = nc B -> 0 < nr B -> 0 < nc B ->
  m4rm_run k blk clr C A B = Some (acc clr C (mmul A B)).
Proof. exact m4rm_run_pos. Qed.
Print Assumptions C01a_m4rm_run_pos.

(** * 3. Non-vacuity *)
Import Examples.

(** the hypotheses of C01a_m4rm hold together, with stale tables that are really garbage *)
Example C01a_m4rm_hyps_satisfiable :
  wf exA /\ wf exB /\ wf exC /\ nc exA = nr exB /\ nr exC = nr exA /\ nc exC = nc exB /\ 0 < 5 /\
  tables_ok (choose_k 7 0) exB exg /\ naive_defined exA exB false = true.
Proof. exact m4rm_spec_hyps. Qed.

Example C01a_garbage_is_garbage :
  nth 5 (fst (tab exg 3)) 0%N = 321319080551469131472392529345025819048%N /\ nth 7 (snd (tab exg 2)) 0 = 281.
Proof. exact ex_garbage_is_garbage. Qed.

(** the models evaluate (vm_compute) to the specification on concrete inputs: M4RM for requested
    k in {-3, 0, 1, .., 9, 16} and both clear flags on garbage tables; the naive routes *)
Example C01a_m4rm_evaluates :
  forallb (fun k => forallb (fun clr =>
      agrees (mul_m4rm_core 5 7 k exg exC exA exB clr) (acc clr exC (mmul exA exB))) [true; false])
    [-3; 0; 1; 2; 3; 4; 5; 6; 7; 8; 9; 16]%Z = true.
Proof. exact m4rm_example. Qed.

Example C01a_naive_evaluates :
  agrees (naive_run 5 true exC53 exA exB53) (mmul exA exB53) &&
  agrees (naive_run 5 false exC53 exA exB53) (madd exC53 (mmul exA exB53)) &&
  agrees (mul_naive_core 4 exC exA (mtrans exB) false) (madd exC (mmul exA exB)) &&
  agrees (mul_naive_core 17 exC exA (mtrans exB) true) (mmul exA exB) &&
  agrees (naive_run 5 false exC exA exB) (madd exC (mmul exA exB)) &&
  agrees (mul_va exC exA exB true) (mmul exA exB) = true.
Proof. exact naive_example. Qed.

(** naive_defined is satisfiable and refutable *)
Example C01a_naive_defined_examples :
  naive_defined exA exB53 true = true /\ naive_defined (mzero 3 4) (mzero 4 0) true = false.
Proof. split; reflexivity. Qed.

(** the empty-operand findings, evaluated *)
Example C01a_empty_operands :
  mul_naive 2048 None (mzero 3 4) (mzero 4 0) = None /\
  mul_naive 2048 None (mzero 3 0) (mzero 0 4) = None /\
  mul_naive 2048 None (mzero 3 0) (mzero 0 0) = None /\
  addmul_naive 2048 (mzero 3 0) (mzero 3 0) (mzero 0 0) = Some (mzero 3 0) /\
  mul_naive 2048 None (mzero 0 0) (mzero 0 0) = Some (mzero 0 0) /\
  mul_naive 2048 None (mzero 3 0) (mzero 0 60) = Some (mzero 3 60) /\
  mul_m4rm 2048 0 0 (tables_init 2) None (mzero 20 5) (mzero 5 0) = None /\
  mul_m4rm 2048 0 0 (tables_init 2) None (mzero 20 0) (mzero 0 60) = Some (mzero 20 60).
Proof. exact empty_operand_examples. Qed.
