(* Properties/Properties_C03.v — property C03 (PLE / PLUQ factorisations reconstruct A, reveal the rank
   and the column rank profile).  Statements only; the specification and the executable checkers are
   in Alg/PLESpec.v, the proofs in Alg/PLEProofs.v (checkers, pluq_of_ple, uniqueness),
   Alg/PLEProofs2.v (elimination step, abstract loop invariant), Alg/PLEProofs3.v (the naive models).

   Models (Alg/PLE.v, compared bit for bit with the library): ple_naive = _mzd_ple_naive (ple.c:223),
   pluq_naive = _mzd_pluq_naive (ple.c:180), pluq_of_ple = post-processing of _mzd_pluq (ple.c:50).
   An output is ((r, A'), (P, Q)); [P0]/[Q0] are the arbitrary contents of P->values/Q->values on entry.

   The block recursion [ple_rec] (= _mzd_ple, ple.c:62: truncation at the first zero row, column split
   on a word boundary, mzd_apply_p_left, TRSM, Schur complement, second call, P/Q offset fix-ups,
   _mzd_compress_l with its word-wise moves) is proven for every base case meeting the specification
   and every cutoff ([C03_rec], Alg/PLEProofs6-10.v); the Four-Russians base case _mzd_ple_russian is
   not modelled: it is the hypothesis [base] of [C03_rec], and its outputs, like those of every
   route of the library, are checked at run time by the verified checkers [ple_ok] / [pluq_ok].

   FINDING ([C03_rec_Q_tail_refuted]): "Q[j] = j for j >= r" (listed in DESIGN.md) holds for the naive
   routines ([C03_naive_Q_tail], [C03_pluq_Q_tail]) but not for the block recursion, in the model and
   in the library; it is therefore not part of [ple_spec] / [pluq_spec]. *)
From Coq Require Import List NArith Arith Lia Bool Sorted.
From M4 Require Import Base.Bits Lin.Mat Lin.Ops Lin.Spec Alg.Gauss Alg.PLE Alg.PLELemmas Alg.PLESpec
                       Alg.PLEProofs Alg.PLEProofs2 Alg.PLEProofs3 Alg.PLEProofs4 Alg.PLEProofs5
                       Alg.PLEProofs10.
Import ListNotations.
Local Open Scope nat_scope.

(** the naive PLE meets the specification, for all inputs and all entry contents of P and Q *)
Theorem C03_naive : forall (A : mat) (P0 Q0 : list nat),
  wf A -> length P0 = nr A -> length Q0 = nc A -> ple_spec A (ple_naive A P0 Q0).
Proof. exact ple_naive_spec. Qed.
Print Assumptions C03_naive.

(** ... and so does the naive PLUQ *)
Theorem C03_pluq : forall (A : mat) (P0 Q0 : list nat),
  wf A -> length P0 = nr A -> length Q0 = nc A -> pluq_spec A (pluq_naive A P0 Q0).
Proof. exact pluq_naive_spec. Qed.
Print Assumptions C03_pluq.

(** _mzd_pluq: any PLE result turned into a PLUQ result by the triangular column swaps *)
Theorem C03_pluq_of_ple : forall (A : mat) (out : ple_out),
  ple_spec A out -> pluq_spec A (pluq_of_ple out).
Proof. exact pluq_of_ple_spec. Qed.
Print Assumptions C03_pluq_of_ple.

(** the executable checkers decide the specification *)
Theorem C03_check : forall (A : mat) (out : ple_out), wf A -> (ple_ok A out = true <-> ple_spec A out).
Proof. exact ple_ok_spec. Qed.
Print Assumptions C03_check.

Theorem C03_check_pluq : forall (A : mat) (out : ple_out), wf A -> (pluq_ok A out = true <-> pluq_spec A out).
Proof. exact pluq_ok_spec. Qed.
Print Assumptions C03_check_pluq.

(** the revealed rank and profile do not depend on the route: two outputs meeting either
    specification agree on r and on Q[0..r) *)
Theorem C03_profile_unique : forall (A : mat) (o1 o2 : ple_out),
  (ple_spec A o1 \/ pluq_spec A o1) -> (ple_spec A o2 \/ pluq_spec A o2) ->
  fst (fst o1) = fst (fst o2) /\
  firstn (fst (fst o1)) (snd (snd o1)) = firstn (fst (fst o2)) (snd (snd o2)).
Proof. exact profile_unique. Qed.
Print Assumptions C03_profile_unique.

(** ... they are the rank and the rank profile computed by Gaussian elimination (Alg/Gauss.v), and
    the mathematical rank *)
Theorem C03_rank : forall (A : mat) (o : ple_out), wf A -> (ple_spec A o \/ pluq_spec A o) ->
  fst (fst o) = rank A /\ firstn (fst (fst o)) (snd (snd o)) = crp_of A.
Proof. exact spec_rank. Qed.
Print Assumptions C03_rank.

Theorem C03_has_rank : forall (A : mat) (r : nat) (A' : mat) (P Q : list nat),
  plu_struct A r A' P Q -> has_rank A r.
Proof. exact plu_rank. Qed.
Print Assumptions C03_has_rank.

(** the reconstruction the other way round, as asserted in test_pluq.c:30-33 (A = P^T L U Q) *)
Theorem C03_recon_inv : forall (A : mat) (r : nat) (S : mat) (P Q : list nat),
  wf A -> lapack P (nr A) -> lapack Q (nc A) -> plu_recon A r S P Q ->
  apply_p_left_trans (apply_p_right (mmul (plu_L A r S) (plu_U A r S)) Q) P = A.
Proof. exact plu_recon_inv. Qed.
Print Assumptions C03_recon_inv.

(** the naive routines additionally leave Q the identity beyond r ... *)
Theorem C03_naive_Q_tail : forall (A : mat) (P0 Q0 : list nat),
  wf A -> length P0 = nr A -> length Q0 = nc A ->
  let '((r, _), (_, Q)) := ple_naive A P0 Q0 in plu_Q_tail_id r Q (nc A).
Proof. exact ple_naive_Q_tail. Qed.
Print Assumptions C03_naive_Q_tail.

Theorem C03_pluq_Q_tail : forall (A : mat) (P0 Q0 : list nat),
  wf A -> length P0 = nr A -> length Q0 = nc A ->
  let '((r, _), (_, Q)) := pluq_naive A P0 Q0 in plu_Q_tail_id r Q (nc A).
Proof. exact pluq_naive_Q_tail. Qed.
Print Assumptions C03_pluq_Q_tail.

(** ... the block recursion does not (while still meeting the specification) *)
Theorem C03_rec_Q_tail_refuted :
  wf rec_witness /\
  let out := ple_rec ple_naive 0 rec_witness [5; 5] (repeat 3 130) in
  ple_spec rec_witness out /\ fst (fst out) = 2 /\ nth 64 (snd (snd out)) 0 = 70 /\
  ~ plu_Q_tail_id (fst (fst out)) (snd (snd out)) (nc rec_witness).
Proof. exact ple_rec_Q_tail_refuted. Qed.
Print Assumptions C03_rec_Q_tail_refuted.

(** the block recursion meets the specification, for every base case meeting it and every cutoff *)
Theorem C03_rec : forall (base : mat -> list nat -> list nat -> ple_out),
  (forall A P0 Q0, wf A -> length P0 = nr A -> length Q0 = nc A -> ple_spec A (base A P0 Q0)) ->
  forall (cutoff : nat) (A : mat) (P0 Q0 : list nat),
  wf A -> length P0 = nr A -> length Q0 = nc A ->
  ple_spec A (ple_rec base cutoff A P0 Q0).
Proof. exact ple_rec_spec_all. Qed.
Print Assumptions C03_rec.

(** ... and so does _mzd_pluq = block-recursive PLE + triangular column swaps *)
Theorem C03_pluq_rec : forall (base : mat -> list nat -> list nat -> ple_out),
  (forall A P0 Q0, wf A -> length P0 = nr A -> length Q0 = nc A -> ple_spec A (base A P0 Q0)) ->
  forall (cutoff : nat) (A : mat) (P0 Q0 : list nat),
  wf A -> length P0 = nr A -> length Q0 = nc A ->
  pluq_spec A (pluq_rec base cutoff A P0 Q0).
Proof. exact pluq_rec_spec_all. Qed.
Print Assumptions C03_pluq_rec.

(** the hypothesis on the base case is satisfiable: the naive routine is one *)
Example C03_rec_base_naive :
  forall A P0 Q0, wf A -> length P0 = nr A -> length Q0 = nc A -> ple_spec A (ple_naive A P0 Q0).
Proof. exact ple_naive_spec. Qed.

(** what every output meeting the specification gives its clients: E = U Q (padded with zero rows) is
    a row echelon form of A with pivot columns Q[0..r), row equivalent to A, and P A = L E *)
Theorem C03_echelon : forall (A : mat) (r : nat) (A' : mat) (P Q : list nat),
  wf A -> pluq_spec A ((r, A'), (P, Q)) ->
  let E := plu_Epad A r A' Q in
  wf E /\ nr E = nr A /\ nc E = nc A /\ row_equiv A E /\ is_ref E (firstn r Q) /\
  apply_p_left A P = mmul (plu_L A r A') (plu_E A r A' Q).
Proof. exact pluq_echelon. Qed.
Print Assumptions C03_echelon.

(** * non-vacuity: the checkers accept the models' outputs on rank deficient matrices with junk in
    P0/Q0, and reject corrupted outputs *)
Definition ex1 : mat := mk 4 5 [6%N; 12%N; 10%N; 0%N].            (* rank 2, profile [1;2] *)
Definition ex2 : mat := mk 5 4 [0%N; 8%N; 8%N; 6%N; 14%N].        (* rank 2, profile [1;3], zero first row *)
Definition ex3 : mat := mk 3 6 [40%N; 40%N; 20%N].                (* rank 2, profile [2;3] *)
Definition ex4 : mat := mk 3 70 [(2^69 + 2^64)%N; (2^69 + 2^64 + 2^3)%N; 8%N].  (* rank 2, across a word border *)

Example ex_wf : wf ex1 /\ wf ex2 /\ wf ex3 /\ wf ex4.
Proof. repeat split; now apply wfb_spec. Qed.

Example ex1_accept :
  ple_ok ex1 (ple_naive ex1 [7;7;7;7] [9;9;9;9;9]) = true /\
  pluq_ok ex1 (pluq_naive ex1 [7;7;7;7] [9;9;9;9;9]) = true /\
  pluq_ok ex1 (pluq_of_ple (ple_naive ex1 [7;7;7;7] [9;9;9;9;9])) = true /\
  fst (fst (ple_naive ex1 [7;7;7;7] [9;9;9;9;9])) = 2.
Proof. now vm_compute. Qed.

Example ex2_accept :
  ple_ok ex2 (ple_naive ex2 [7;7;7;7;1] [9;9;9;9]) = true /\
  pluq_ok ex2 (pluq_naive ex2 [7;7;7;7;1] [9;9;9;9]) = true /\
  pluq_ok ex2 (pluq_of_ple (ple_naive ex2 [7;7;7;7;1] [9;9;9;9])) = true /\
  snd (ple_naive ex2 [7;7;7;7;1] [9;9;9;9]) = ([3;1;2;3;4], [1;3;2;3]).
Proof. now vm_compute. Qed.

Example ex3_accept :
  ple_ok ex3 (ple_naive ex3 [7;7;7] [9;9;9;9;0;0]) = true /\
  pluq_ok ex3 (pluq_naive ex3 [7;7;7] [9;9;9;9;0;0]) = true.
Proof. now vm_compute. Qed.

Example ex4_accept :
  ple_ok ex4 (ple_naive ex4 [0;0;0] (repeat 5 70)) = true /\
  pluq_ok ex4 (pluq_naive ex4 [0;0;0] (repeat 5 70)) = true /\
  fst (fst (pluq_naive ex4 [0;0;0] (repeat 5 70))) = 2.
Proof. now vm_compute. Qed.

(** the PLE and PLUQ storage formats differ: a PLE output is not accepted as PLUQ and vice versa *)
Example ex1_formats_differ :
  pluq_ok ex1 (ple_naive ex1 [7;7;7;7] [9;9;9;9;9]) = false /\
  ple_ok ex1 (pluq_naive ex1 [7;7;7;7] [9;9;9;9;9]) = false.
Proof. now vm_compute. Qed.

(** corrupted outputs are rejected: a flipped bit in U, a flipped bit outside L and U, a wrong
    rank, a column permutation that is not the rank profile, P not the identity beyond r *)
Example ex1_reject :
  let '((r, A'), (P, Q)) := pluq_naive ex1 [7;7;7;7] [9;9;9;9;9] in
  pluq_ok ex1 ((r, set_row A' 0 (N.lxor (row A' 0) 16)), (P, Q)) = false /\
  pluq_ok ex1 ((r, set_row A' 3 8%N), (P, Q)) = false /\
  pluq_ok ex1 ((S r, A'), (P, Q)) = false /\
  pluq_ok ex1 ((r, A'), (P, upd 1 3 Q)) = false /\
  pluq_ok ex1 ((r, A'), (upd 3 2 P, Q)) = false.
Proof. now vm_compute. Qed.

(** a factorisation with a column pivot that is not left-most (so Q[0..r) is not the rank profile)
    reconstructs A but is rejected *)
Example ex_not_profile :
  let A := mk 1 2 [3%N] in
  plu_recon_ok A 1 (mk 1 2 [3%N]) [0] [1; 1] = true /\ pluq_ok A ((1, mk 1 2 [3%N]), ([0], [1; 1])) = false /\
  pluq_ok A (pluq_naive A [5] [5; 5]) = true.
Proof. now vm_compute. Qed.

(** the block recursion (model, naive base case, cutoff 0) on inputs that take the recursive path:
    r1 < n1 with r2 > 0 (L compression), zero rows in between, r1 = n1 = 64, two levels (200 columns) *)
Definition ex5 : mat := mk 5 140 [0; 2^100; 2^100 + 2^3; 0; 2^64 + 2^3 + 1]%N.
Definition ex6 : mat :=
  mk 6 200 (map (fun i => (2^i + 2^(3 + i) + 2^(70 + i) + 2^(130 + 2 * i) + 2^199 * (i mod 2))%N)
                [0; 1; 2; 1; 4; 0]%N).
Definition ex7 : mat :=
  mk 66 130 (map (fun i => (2^(N.of_nat i) + 2^(N.of_nat (i / 2 + 65)))%N) (seq 0 64) ++ [(2^100)%N; (2^100 + 1)%N]).

Example ex_rec_accept :
  ple_rec_nonrec 0 ex5 = false /\ ple_rec_nonrec 0 ex6 = false /\ ple_rec_nonrec 0 ex7 = false /\
  ple_ok ex5 (ple_rec ple_naive 0 ex5 (repeat 9 5) (repeat 9 140)) = true /\
  pluq_ok ex5 (pluq_rec ple_naive 0 ex5 (repeat 9 5) (repeat 9 140)) = true /\
  ple_ok ex6 (ple_rec ple_naive 0 ex6 (repeat 9 6) (repeat 9 200)) = true /\
  pluq_ok ex6 (pluq_rec ple_naive 0 ex6 (repeat 9 6) (repeat 9 200)) = true /\
  ple_ok ex7 (ple_rec ple_naive 0 ex7 (repeat 9 66) (repeat 9 130)) = true /\
  fst (fst (ple_rec ple_naive 0 ex5 (repeat 9 5) (repeat 9 140))) = 3 /\
  fst (fst (ple_rec ple_naive 0 ex6 (repeat 9 6) (repeat 9 200))) = 4 /\
  fst (fst (ple_rec ple_naive 0 ex7 (repeat 9 66) (repeat 9 130))) = 66.
Proof. now vm_compute. Qed.
