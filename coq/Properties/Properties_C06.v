(* Properties/Properties_C06.v — property C06 (linear system solving: the consistency verdict is right
   and A*X = B when solvable, for mzd_solve_left and mzd_pluq_solve_left).
   Statements only; models in Alg/Solve.v (step-by-step models of the CURRENT m4ri/solve.c), proofs in
   Alg/SolveProofs.v (blocks, factors, algebraic core, evaluation) and Alg/SolveProofs2.v.

   Reading guide.
     [solve_left_model cutoff check A B]          = mzd_solve_left(A, B, cutoff, check)
     [pluq_solve_left_model cutoff check S r P Q B] = mzd_pluq_solve_left(S, r, P, Q, B, cutoff, check),
         S = the matrix holding L and U, r = rank, P, Q = the LAPACK permutations
     result [Some (ret, B')]: the int returned (0 or -1) and the overwritten B; [None] = m4ri_die.
     [pad A] = A stacked on max(m,n) - m zero rows; [padto N A] = A padded to N rows;
     [top k M] = the first k rows of M.
   Abstractions (exactly): mzd_addmul is C + A*B (property C01); the PLUQ routine of the closed models
   is _mzd_pluq_naive on mzp_init permutations (C03: [pluq_naive_spec]); the TRSM routines are the
   substitution models (C04: every regime of m4ri/triangular.c returns the same unique solution —
   [C06_verdict_rec_trsm] instantiates the faithful recursive TRSM models).  The [C06_generic_*]
   theorems hold for ANY PLUQ routine meeting [pluq_spec] and ANY TRSM routines meeting their
   specification; [C06_pluq_*] are about the entry point that is handed a factorisation: any
   ((r, S), (P, Q)) with [pluq_spec A ((r, S), (P, Q))], in particular NO assumption on Q beyond r.

   Finding (repaired in /repo by "fix: solve_left verdict ignores non-zero padding rows of B"):
   [C06_pinned_refuted] — the pinned code answered 0 on an unsolvable system. *)
From Coq Require Import List NArith ZArith Arith Lia Bool.
From M4 Require Import Base.Bits Lin.Mat Lin.MatAlg Lin.Ops Lin.Spec Alg.PLE Alg.PLESpec Alg.TRSM
  Alg.Solve Alg.SolveProofs Alg.SolveProofs2.
Import ListNotations.
Local Open Scope nat_scope.

(** * mzd_solve_left, consistency check enabled: verdict and solution *)
Theorem C06_verdict : forall (cutoff : nat) (A B : mat),
  wf A -> wf B -> nr B = Nat.max (nr A) (nc A) ->
  match solve_left_model cutoff true A B with
  | Some (ret, B') =>
      (ret = 0%Z \/ ret = (-1)%Z) /\
      (ret = 0%Z <-> exists X, wf X /\ nr X = nc A /\ nc X = nc B /\ mmul (pad A) X = B) /\
      (ret = 0%Z -> wf B' /\ nr B' = nr B /\ nc B' = nc B /\ mmul A (top (nc A) B') = top (nr A) B)
  | None => False
  end.
Proof. exact solve_verdict_closed. Qed.
Print Assumptions C06_verdict.

(** check disabled: always 0; if the system is consistent the result solves it *)
Theorem C06_nocheck : forall (cutoff : nat) (A B : mat),
  wf A -> wf B -> nr B = Nat.max (nr A) (nc A) ->
  match solve_left_model cutoff false A B with
  | Some (ret, B') =>
      ret = 0%Z /\ wf B' /\ nr B' = nr B /\ nc B' = nc B /\
      ((exists X, wf X /\ nr X = nc A /\ mmul A X = top (nr A) B) ->
       mmul A (top (nc A) B') = top (nr A) B)
  | None => False
  end.
Proof. exact solve_nocheck_closed. Qed.
Print Assumptions C06_nocheck.

(** * mzd_pluq_solve_left: handed a factorisation of A meeting the PLUQ specification.
    The wrapper does not check nr B = max(m, n); the theorem covers every nr B >= max(m, n). *)
Theorem C06_pluq : forall (cutoff : nat) (A : mat) (r : nat) (S : mat) (P Q : list nat) (B : mat),
  wf A -> pluq_spec A ((r, S), (P, Q)) -> wf B -> nr A <= nr B -> nc A <= nr B ->
  match pluq_solve_left_model cutoff true S r P Q B with
  | Some (ret, B') =>
      (ret = 0%Z \/ ret = (-1)%Z) /\
      (ret = 0%Z <-> exists X, wf X /\ nr X = nc A /\ nc X = nc B /\ mmul (padto (nr B) A) X = B) /\
      (ret = 0%Z -> wf B' /\ nr B' = nr B /\ nc B' = nc B /\ mmul A (top (nc A) B') = top (nr A) B)
  | None => False
  end.
Proof. exact pluq_solve_verdict_closed. Qed.
Print Assumptions C06_pluq.

Theorem C06_pluq_nocheck : forall (cutoff : nat) (A : mat) (r : nat) (S : mat) (P Q : list nat) (B : mat),
  wf A -> pluq_spec A ((r, S), (P, Q)) -> wf B -> nr A <= nr B -> nc A <= nr B ->
  match pluq_solve_left_model cutoff false S r P Q B with
  | Some (ret, B') =>
      ret = 0%Z /\ wf B' /\ nr B' = nr B /\ nc B' = nc B /\
      ((exists X, wf X /\ nr X = nc A /\ mmul A X = top (nr A) B) ->
       mmul A (top (nc A) B') = top (nr A) B)
  | None => False
  end.
Proof. exact pluq_solve_nocheck_closed. Qed.
Print Assumptions C06_pluq_nocheck.

(** * the same for ANY PLUQ routine and ANY TRSM routines meeting their specifications *)
Theorem C06_generic_verdict :
  forall (pluq : mat -> ple_out), (forall A, wf A -> pluq_spec A (pluq A)) ->
  forall (trsm_ll trsm_ul : mat -> mat -> mat),
  (forall L B, wf L -> wf B -> nr L = nr B -> nc L = nr B ->
     let X := trsm_ll L B in wf X /\ nr X = nr B /\ nc X = nc B /\ mmul (unit_lower (nr B) L) X = B) ->
  (forall U B, wf U -> wf B -> nr U = nr B -> nc U = nr B ->
     let X := trsm_ul U B in wf X /\ nr X = nr B /\ nc X = nc B /\ mmul (unit_upper (nr B) U) X = B) ->
  forall (cutoff : nat) (A B : mat), wf A -> wf B -> nr B = Nat.max (nr A) (nc A) ->
  match solve_left pluq trsm_ll trsm_ul false cutoff A B true with
  | Some (ret, B') =>
      (ret = 0%Z \/ ret = (-1)%Z) /\
      (ret = 0%Z <-> solvable A B) /\
      (ret = 0%Z -> wf B' /\ nr B' = nr B /\ nc B' = nc B /\ mmul A (top (nc A) B') = top (nr A) B)
  | None => False
  end.
Proof. exact solve_verdict. Qed.
Print Assumptions C06_generic_verdict.

(** with the faithful recursive TRSM models of m4ri/triangular.c, every build configuration *)
Theorem C06_verdict_rec_trsm : forall (c : cfg) (cutoff : nat) (A B : mat),
  wf A -> wf B -> nr B = Nat.max (nr A) (nc A) ->
  match solve_left pluq_naive_id (trsm_lower_left_rec c cutoff) (trsm_upper_left_rec c cutoff) false cutoff A B true with
  | Some (ret, B') =>
      (ret = 0%Z \/ ret = (-1)%Z) /\
      (ret = 0%Z <-> exists X, wf X /\ nr X = nc A /\ nc X = nc B /\ mmul (pad A) X = B) /\
      (ret = 0%Z -> wf B' /\ nr B' = nr B /\ nc B' = nc B /\ mmul A (top (nc A) B') = top (nr A) B)
  | None => False
  end.
Proof. exact solve_verdict_rec_trsm. Qed.
Print Assumptions C06_verdict_rec_trsm.

(** the library's PLUQ route (_mzd_pluq = block recursion, PLE cutoff [ple_cutoff] words): PARTIAL —
    conditional on the C03 specification of the recursive PLUQ model for that cutoff.
    Full statement: the same without the first hypothesis. *)
Theorem C06_verdict_cfg_partial : forall (ple_cutoff cutoff : nat) (A B : mat),
  (forall A, wf A -> pluq_spec A (pluq_rec_id ple_cutoff A)) ->
  wf A -> wf B -> nr B = Nat.max (nr A) (nc A) ->
  match solve_left_cfg ple_cutoff cutoff true A B with
  | Some (ret, B') =>
      (ret = 0%Z \/ ret = (-1)%Z) /\
      (ret = 0%Z <-> exists X, wf X /\ nr X = nc A /\ nc X = nc B /\ mmul (pad A) X = B) /\
      (ret = 0%Z -> wf B' /\ nr B' = nr B /\ nc B' = nc B /\ mmul A (top (nc A) B') = top (nr A) B)
  | None => False
  end.
Proof. exact solve_verdict_cfg_partial. Qed.
Print Assumptions C06_verdict_cfg_partial.

(** * die conditions of the wrappers *)
Theorem C06_solve_left_dies : forall pluq tl tu pin cutoff A B check,
  nr B <> Nat.max (nr A) (nc A) -> solve_left pluq tl tu pin cutoff A B check = None.
Proof. exact solve_left_dies. Qed.
Print Assumptions C06_solve_left_dies.

Theorem C06_pluq_solve_left_dies : forall tl tu pin cutoff A r P Q B check,
  pluq_solve_left tl tu pin cutoff A r P Q B check = None <->
  nr B < nc A \/ length P <> nr A \/ length Q <> nc A.
Proof. exact pluq_solve_left_dies. Qed.
Print Assumptions C06_pluq_solve_left_dies.

(** * the pinned code is refuted (regression witness) *)
Theorem C06_pinned_refuted :
  exists A B, wf A /\ wf B /\ nr B = Nat.max (nr A) (nc A) /\
    ~ (exists X, wf X /\ nr X = nc A /\ nc X = nc B /\ mmul (pad A) X = B) /\
    (exists B', solve_left_pinned 0 true A B = Some (0%Z, B')) /\
    (exists B', pluq_solve_left_pinned 0 true (snd (fst (pluq_naive_id A))) (fst (fst (pluq_naive_id A)))
                  (fst (snd (pluq_naive_id A))) (snd (snd (pluq_naive_id A))) B = Some (0%Z, B')) /\
    (exists B', solve_left_model 0 true A B = Some ((-1)%Z, B')).
Proof. exact solve_verdict_pinned_refuted. Qed.
Print Assumptions C06_pinned_refuted.

(** * non-vacuity *)
(** m < n, consistent: A = 2 x 4 with ones at (0,0), (1,1); B = rows [1; 3; 0; 0] (2 columns) *)
Definition exA : mat := mk 2 4 [1%N; 2%N].
Definition exB : mat := mk 4 2 [1%N; 3%N; 0%N; 0%N].
Example C06_hyps_satisfiable : wf exA /\ wf exB /\ nr exB = Nat.max (nr exA) (nc exA).
Proof. split; [apply wfb_spec; reflexivity|]. split; [apply wfb_spec; reflexivity|reflexivity]. Qed.

Example C06_consistent_instance :
  exists B', solve_left_model 0 true exA exB = Some (0%Z, B') /\ mmul exA (top 4 B') = top 2 exB.
Proof. eexists. split; vm_compute; reflexivity. Qed.

(** m > n, rank deficient (2 columns, rank 1): inconsistent / consistent / inconsistent in the zero row *)
Definition exA2 : mat := mk 3 2 [3%N; 3%N; 0%N].
Example C06_inconsistent_instance :
  (exists B', solve_left_model 0 true exA2 (mk 3 1 [1%N; 0%N; 0%N]) = Some ((-1)%Z, B')) /\
  (exists B', solve_left_model 0 true exA2 (mk 3 1 [1%N; 1%N; 0%N]) = Some (0%Z, B')) /\
  (exists B', solve_left_model 0 true exA2 (mk 3 1 [1%N; 1%N; 1%N]) = Some ((-1)%Z, B')).
Proof. repeat split; eexists; vm_compute; reflexivity. Qed.

(** inconsistency located only in a padding row — each of the two padding rows of a 2 x 4 system *)
Example C06_padding_rows_detected :
  (exists B', solve_left_model 0 true exA (mk 4 1 [0%N; 0%N; 1%N; 0%N]) = Some ((-1)%Z, B')) /\
  (exists B', solve_left_model 0 true exA (mk 4 1 [0%N; 0%N; 0%N; 1%N]) = Some ((-1)%Z, B')) /\
  (exists B', solve_left_model 0 true exA (mk 4 1 [1%N; 1%N; 0%N; 0%N]) = Some (0%Z, B')).
Proof. repeat split; eexists; vm_compute; reflexivity. Qed.

(** the PLUQ entry point on a factorisation computed by the model of _mzd_pluq_naive; zero A *)
Example C06_pluq_hyps_satisfiable :
  let A := mk 3 4 [12%N; 12%N; 5%N] in
  let '((r, F), (P, Q)) := pluq_naive_id A in
  wfb A = true /\ pluq_ok A ((r, F), (P, Q)) = true /\ r = 2 /\
  (exists B', pluq_solve_left_model 0 true F r P Q (mk 4 2 [1%N; 1%N; 3%N; 0%N]) = Some (0%Z, B')) /\
  (exists B', pluq_solve_left_model 0 true F r P Q (mk 4 2 [1%N; 0%N; 3%N; 0%N]) = Some ((-1)%Z, B')).
Proof.
  vm_compute. split; [reflexivity|]. split; [reflexivity|]. split; [reflexivity|]. split; eexists; reflexivity.
Qed.

Example C06_zero_matrix :
  (exists B', solve_left_model 0 true (mzero 2 2) (mzero 2 3) = Some (0%Z, B')) /\
  (exists B', solve_left_model 0 true (mzero 2 2) (mk 2 3 [0%N; 4%N]) = Some ((-1)%Z, B')).
Proof. split; eexists; vm_compute; reflexivity. Qed.

(** the die condition *)
Example C06_dies_instance : solve_left_model 0 true exA (mzero 3 1) = None.
Proof. reflexivity. Qed.

(** ** closed form for the library's own PLUQ route (block-recursive PLE with any cutoff): no hypothesis left
    (replaces the `_cfg_partial` statement of SolveProofs2.v now that Alg/PLEProofs10.v proves the recursion) *)
From M4 Require Import Alg.SolveClosed.
Theorem C06_solve_left_cfg : forall ple_cutoff cutoff A B,
  wf A -> wf B -> nr B = Nat.max (nr A) (nc A) ->
  match solve_left_cfg ple_cutoff cutoff true A B with
  | Some (ret, B') =>
      (ret = 0%Z \/ ret = (-1)%Z) /\
      (ret = 0%Z <-> exists X, wf X /\ nr X = nc A /\ nc X = nc B /\ mmul (pad A) X = B) /\
      (ret = 0%Z -> wf B' /\ nr B' = nr B /\ nc B' = nc B /\ mmul A (top (nc A) B') = top (nr A) B)
  | None => False
  end.
Proof. exact solve_verdict_cfg. Qed.
Print Assumptions C06_solve_left_cfg.
