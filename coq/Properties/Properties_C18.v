(* Properties/Properties_C18.v — C18 "File I/O round-trips exactly and malformed files cannot corrupt
   memory".  Statements only; the proofs are in Sys/IOProofs.v, the models in Sys/IO.v.

   Reading guide.  [png_pack_row]/[png_unpack_row] are the byte loops of mzd_to_png/mzd_from_png over
   a buffer with checked accesses ([None] = an access outside the buffer m4ri allocated);
   [png_file_row]/[png_delivered] are the libpng transformations m4ri requests (oracle, assumed).
   [jcf_parse chk] is mzd_from_jcf over the integers fscanf produced; [jcf_pinned] has the guards of
   the pinned source, [jcf_fixed] all guards; tools/props/c18.py decides by differential runs which
   record describes the source under test.  The theorems named [..._refuted] are findings about
   [jcf_pinned]/[png_pinned]; [jcf_safe]/[png_read_safe] are what holds once the guards exist. *)
From Coq Require Import List NArith ZArith Arith Bool Lia.
From M4 Require Import Base.Bits Lin.Mat Sys.IO Sys.IOProofs.
Import ListNotations.

(** ** PNG *)
Theorem C18_png_roundtrip : forall n ws, 1 <= n -> wf_row n ws ->
  exists bytes, png_pack_row n ws = Some bytes /\
                png_unpack_row n (png_delivered (png_file_row bytes)) = Some ws.
Proof. exact png_roundtrip. Qed.
Print Assumptions C18_png_roundtrip.

Theorem C18_png_unpack_spec : forall n ws del, 1 <= n -> wf_row n ws -> delivers n ws del ->
  png_unpack_row n del = Some ws.
Proof. exact png_unpack_spec. Qed.
Print Assumptions C18_png_unpack_spec.

Theorem C18_png_roundtrip_mat : forall chk M, wf M -> 1 <= nc M -> (N.of_nat (nc M) <= mzd_init_ncols_max)%N ->
  exists ih fr, png_write M = Some (ih, fr) /\ png_read chk ih (map png_delivered fr) = POk M.
Proof. exact png_roundtrip_mat. Qed.
Print Assumptions C18_png_roundtrip_mat.

Theorem C18_png_channel : forall b, (b < 256)%N -> libpng_read_xform (libpng_write_xform b) = N.lxor b 255.
Proof. exact channel_byte. Qed.
Print Assumptions C18_png_channel.

Theorem C18_png_pack_bounds : forall n ws, 1 <= n ->
  exists bytes, png_pack_row n ws = Some bytes /\ length bytes = rowbytes n /\
                length bytes <= to_png_bufsize n.
Proof. exact png_pack_bounds. Qed.
Print Assumptions C18_png_pack_bounds.

Theorem C18_png_pack_buf_indep : forall n ws b, 1 <= n -> length b = to_png_bufsize n ->
  exists b', png_pack_row_buf n ws b = Some b' /\ png_pack_row n ws = Some (firstn (rowbytes n) b').
Proof. exact png_pack_buf_indep. Qed.
Print Assumptions C18_png_pack_buf_indep.

Theorem C18_png_unpack_bounds : forall n del, 1 <= n -> length del = png_rowbytes_gen n 1 0 ->
  length del <= from_png_bufsize n /\
  (exists ws, png_unpack_row n del = Some ws /\ length ws = width n) /\
  (exists ws, png_unpack_row_buf n del = Some ws).
Proof. exact png_unpack_bounds. Qed.
Print Assumptions C18_png_unpack_bounds.

Theorem C18_png_header_fits : forall ih, png_header png_fixed ih = PAccept ->
  png_rowbytes_gen (ih_w ih) (ih_depth ih) (ih_ctype ih) <= from_png_bufsize (ih_w ih) /\
  (N.of_nat (ih_w ih) <= mzd_init_ncols_max)%N.
Proof. exact png_header_fits. Qed.
Print Assumptions C18_png_header_fits.

Theorem C18_png_read_safe : forall ih del, 1 <= ih_w ih ->
  Forall (fun d => length d = png_rowbytes_gen (ih_w ih) (ih_depth ih) (ih_ctype ih)) del ->
  png_read png_fixed ih del <> POutOfBounds /\ png_read png_fixed ih del <> PBadInit.
Proof. exact png_read_safe. Qed.
Print Assumptions C18_png_read_safe.

(* findings on the pinned source *)
Theorem C18_png_depth_refuted :
  exists ih, png_valid_combo (ih_ctype ih) (ih_depth ih) = true /\ png_header png_pinned ih = PAccept /\
    forall del, length del = png_rowbytes_gen (ih_w ih) (ih_depth ih) (ih_ctype ih) ->
                png_unpack_row (ih_w ih) del = None.
Proof. exact png_depth_refuted. Qed.
Print Assumptions C18_png_depth_refuted.

Theorem C18_png_dims_refuted :
  exists ih, png_valid_combo (ih_ctype ih) (ih_depth ih) = true /\ forall del, png_read png_pinned ih del = PBadInit.
Proof. exact png_dims_refuted. Qed.
Print Assumptions C18_png_dims_refuted.

(** ** JCF *)
Theorem C18_jcf_exact : forall chk h toks M, chk_row_hi chk = true -> chk_col_hi chk = true ->
  jcf_parse chk h toks = Ok M ->
  h_conv h = 4%Z /\ h_p h = 2%Z /\ wf M /\ Z.of_nat (nr M) = h_m h /\ Z.of_nat (nc M) = h_n h /\
  jcf_valid (h_m h) (h_n h) toks /\
  forall a b : nat, get M a b = true <-> jcf_denotes toks (Z.of_nat a) (Z.of_nat b).
Proof. exact jcf_exact. Qed.
Print Assumptions C18_jcf_exact.

Theorem C18_jcf_complete : forall chk h toks, h_conv h = 4%Z -> h_p h = 2%Z ->
  (0 <= h_m h <= INT_MAX)%Z -> (0 <= h_n h <= INT_MAX - 63)%Z -> jcf_valid (h_m h) (h_n h) toks ->
  exists M, jcf_parse chk h toks = Ok M.
Proof. exact jcf_complete. Qed.
Print Assumptions C18_jcf_complete.

Theorem C18_jcf_safe : forall h toks, safe_outcome (jcf_parse jcf_fixed h toks).
Proof. exact jcf_safe. Qed.
Print Assumptions C18_jcf_safe.

(* findings on the pinned source: one witness per missing guard *)
Theorem C18_jcf_safe_refuted : exists h toks, ~ safe_outcome (jcf_parse jcf_pinned h toks).
Proof. exact jcf_safe_refuted. Qed.
Print Assumptions C18_jcf_safe_refuted.
Theorem C18_jcf_refuted_row : jcf_parse jcf_pinned (hdr 3 5) [2%Z] = OutOfBounds (-1) 1.
Proof. exact jcf_safe_refuted_row. Qed.
Theorem C18_jcf_refuted_col : jcf_parse jcf_pinned (hdr 3 5) [(-1)%Z; 0%Z] = OutOfBounds 0 (-1).
Proof. exact jcf_safe_refuted_col. Qed.
Theorem C18_jcf_refuted_negate : jcf_parse jcf_pinned (hdr 3 5) [LONG_MIN] = Overflow.
Proof. exact jcf_safe_refuted_negate. Qed.
Theorem C18_jcf_refuted_negdim : jcf_parse jcf_pinned (hdr 3 (-5)) [] = InitPre.
Proof. exact jcf_safe_refuted_negdim. Qed.
Theorem C18_jcf_refuted_hugedim : jcf_parse jcf_pinned (hdr 1 INT_MAX) [] = InitPre.
Proof. exact jcf_safe_refuted_hugedim. Qed.

Theorem C18_jcf_checks_necessary :
  forall k, k < 6 -> exists h toks, ~ safe_outcome (jcf_parse (drop k) h toks).
Proof. exact jcf_checks_necessary. Qed.
Print Assumptions C18_jcf_checks_necessary.

(** ** String constructor *)
Theorem C18_from_str_exact : forall m n s, length s = m * n ->
  exists M, from_str m n s = Some M /\ wf M /\ nr M = m /\ nc M = n /\
    forall i j, i < m -> j < n -> get M i j = (nth (i * n + j) s 0 =? 49)%N.
Proof. exact from_str_exact. Qed.
Print Assumptions C18_from_str_exact.

(** ** Non-vacuity: the hypotheses are satisfiable and the models compute something *)
Example wf_row_inhabited : wf_row 70 (words_of (width 70) (2 ^ 69 + 2 ^ 63 + 5)%N)
                           /\ words_of (width 70) (2 ^ 69 + 2 ^ 63 + 5)%N = [9223372036854775813; 32]%N.
Proof.
  split; [|reflexivity]. apply wf_row_words_of. apply boundedb_spec. vm_compute. reflexivity.
Qed.
Example png_row_example :
  png_pack_row 70 [9223372036854775813; 32]%N = Some [5; 0; 0; 0; 0; 0; 0; 128; 32]%N /\
  png_file_row [5; 0; 0; 0; 0; 0; 0; 128; 32]%N = [95; 255; 255; 255; 255; 255; 255; 254; 251]%N /\
  png_unpack_row 70 (png_delivered [95; 255; 255; 255; 255; 255; 255; 254; 251]%N)
    = Some [9223372036854775813; 32]%N.
Proof. vm_compute. auto. Qed.
Example delivers_inhabited : delivers 5 [19%N] [236%N].   (* 236 = ~19 on 8 bits; padding bits are free *)
Proof.
  split; [reflexivity|]. split.
  - intros [|[|i]]; cbn [nth]; reflexivity.
  - intros q Hq. do 5 (destruct q as [|q]; [vm_compute; reflexivity|]). exfalso.
    lia.
Qed.
Example png_mat_example : wf (mk 2 5 [19; 4]%N) /\ (1 <= nc (mk 2 5 [19; 4]%N)) /\
  png_write (mk 2 5 [19; 4]%N) =
    Some ({| ih_w := 5; ih_h := 2; ih_depth := 1; ih_ctype := 0; ih_interlace := 0 |}, [[55%N]; [223%N]]).
Proof. split; [apply wfb_spec; reflexivity|]. split; [apply le_n_S, Nat.le_0_l|]. vm_compute. reflexivity. Qed.
Example png_fixed_accepts_what_m4ri_writes :
  png_header png_fixed {| ih_w := 5; ih_h := 2; ih_depth := 1; ih_ctype := 0; ih_interlace := 0 |} = PAccept.
Proof. reflexivity. Qed.
Example jcf_example :
  jcf_parse jcf_pinned (hdr 3 5) [-1; 3; -2; -5; 1]%Z = Ok (mk 3 5 [5; 2; 17]%N) /\
  jcf_parse jcf_fixed (hdr 3 5) [-1; 3; -2; -5; 1]%Z = Ok (mk 3 5 [5; 2; 17]%N).
Proof. vm_compute. auto. Qed.
Example jcf_valid_inhabited : jcf_valid 3 5 [-1; 3; -2; -5; 1]%Z.
Proof.
  destruct (C18_jcf_exact jcf_pinned (hdr 3 5) [-1; 3; -2; -5; 1]%Z _ eq_refl eq_refl (proj1 jcf_example))
    as [_ [_ [_ [_ [_ [H _]]]]]]. exact H.
Qed.
Example jcf_fixed_rejects : (* the witnesses of the refutations die or are rejected once guarded *)
  jcf_parse jcf_fixed (hdr 3 5) [2%Z] = Die (-1) 1 /\
  jcf_parse jcf_fixed (hdr 3 5) [(-1)%Z; 0%Z] = Die 0 (-1) /\
  jcf_parse jcf_fixed (hdr 3 5) [LONG_MIN] = Die 0 LONG_MAX /\
  jcf_parse jcf_fixed (hdr 3 (-5)) [] = Reject /\
  jcf_parse jcf_pinned (hdr 3 5) [(-6)%Z] = Die 0 5 /\
  jcf_parse jcf_pinned (hdr 2 5) [-1; -1; -1]%Z = Die 2 0 /\
  jcf_parse jcf_pinned {| h_conv := 4; h_m := 3; h_n := 5; h_p := 3; h_nz := 1 |} [(-1)%Z] = Reject /\
  jcf_parse jcf_pinned {| h_conv := 2; h_m := 3; h_n := 5; h_p := 0; h_nz := 0 |} [] = Reject.
Proof. vm_compute. repeat split. Qed.
Example from_str_example : from_str 2 3 [49; 48; 49; 48; 49; 49]%N = Some (mk 2 3 [5; 6]%N).
Proof. vm_compute. reflexivity. Qed.
