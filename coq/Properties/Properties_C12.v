(* Properties/Properties_C12.v — C12 "Results do not depend on build configuration or tuning parameters".
   Statements only.  The route theorems of C01..C07 are stated for EVERY value of the tuning constants
   (table parameter k and its automatic choice, row-block size = __M4RI_MUL_BLOCKSIZE, Strassen cutoff,
   PLE cutoff, TRSM thresholds, stale table/index-buffer contents): the right-hand sides do not mention
   them, so two configurations give the same value.  These corollaries make that explicit; the models
   switch regimes on exactly these parameters (tools/props/c12.py runs the same cases in a matrix of
   real builds, which instantiates them). *)
From Coq Require Import List NArith ZArith Arith Bool.
From M4 Require Import Base.Bits Lin.Mat Lin.Ops Alg.Gray Alg.Mul Alg.MulProofs Alg.Gauss Alg.GaussProofs Alg.ConfigIndep.
Import ListNotations.

(** Four-Russians product: any two configurations (block sizes from the cache sizes, explicit or automatic k,
    previous table contents) give the same result. *)
Theorem C12_m4rm_config_indep : forall blk1 blk2 kauto1 kauto2 k1 k2 g1 g2 C A B clr,
  wf A -> wf B -> wf C -> nc A = nr B -> nr C = nr A -> nc C = nc B -> 0 < blk1 -> 0 < blk2 ->
  tables_ok (choose_k kauto1 k1) B g1 -> tables_ok (choose_k kauto2 k2) B g2 ->
  mul_m4rm_core blk1 kauto1 k1 g1 C A B clr = mul_m4rm_core blk2 kauto2 k2 g2 C A B clr.
Proof. exact cfg_m4rm_config_indep. Qed.
Print Assumptions C12_m4rm_config_indep.

(** cubic routes: the block size of the parity buffer loop and the 54-column route switch do not matter *)
Theorem C12_naive_config_indep : forall blk1 blk2 clr C A B, wf A -> wf B -> wf C -> 0 < blk1 -> 0 < blk2 ->
  nc A = nr B -> nr C = nr A -> nc C = nc B -> 0 < nr B -> 0 < nc B ->
  naive_run blk1 clr C A B = naive_run blk2 clr C A B.
Proof. exact cfg_naive_config_indep. Qed.
Print Assumptions C12_naive_config_indep.

(** rank and reduced echelon form are functions of the row space only: any two routes that return an RREF
    row-equivalent to A (naive, M4RI for every k, PLUQ-based, hybrid; see Properties_C02) return the same matrix. *)
Theorem C12_rref_route_indep : forall A R1 R2 p1 p2, wf A -> wf R1 -> wf R2 ->
  Lin.Spec.is_rref R1 p1 -> Lin.Spec.row_equiv A R1 -> Lin.Spec.is_rref R2 p2 -> Lin.Spec.row_equiv A R2 -> R1 = R2.
Proof. exact cfg_rref_route_indep. Qed.
Print Assumptions C12_rref_route_indep.
