(* Properties/Properties_C12.v — C12 "Results do not depend on build configuration or tuning parameters".
   Statements only.  The route theorems of C01..C07 are stated for EVERY value of the tuning constants
   (table parameter k and its automatic choice, row-block size = __M4RI_MUL_BLOCKSIZE, Strassen cutoff,
   PLE cutoff, TRSM thresholds, stale table/index-buffer contents): the right-hand sides do not mention
   them, so two configurations give the same value.  These corollaries make that explicit; the models
   switch regimes on exactly these parameters (tools/props/c12.py runs the same cases in a matrix of
   real builds, which instantiates them). *)
From Coq Require Import List NArith ZArith Arith Bool.
From M4 Require Import Base.Bits Lin.Mat Lin.Ops Alg.Gray Alg.Mul Alg.MulProofs Alg.Gauss Alg.GaussProofs Alg.M4RI Alg.TRSM Alg.Strassen Alg.StrassenGen Alg.ConfigIndep.
Import ListNotations.

(** Four-Russians product: any two configurations (block sizes from the cache sizes, explicit or automatic k,
    previous table contents) give the same result. *)
Theorem C12_m4rm_config_indep : forall blk1 blk2 kauto1 kauto2 k1 k2 g1 g2 C A B clr,
  wf A -> wf B -> wf C -> nc A = nr B -> nr C = nr A -> nc C = nc B -> 0 < blk1 -> 0 < blk2 ->
  tables_ok (choose_k kauto1 k1) B g1 -> tables_ok (choose_k kauto2 k2) B g2 ->
  mul_m4rm_core blk1 kauto1 k1 g1 C A B clr = mul_m4rm_core blk2 kauto2 k2 g2 C A B clr.
Proof. exact cfg_m4rm_config_indep. Qed.
Print Assumptions C12_m4rm_config_indep.

(** cubic routes: the block size of the parity buffer loop and the 54-column route switch do not matter *)
Theorem C12_naive_config_indep : forall blk1 blk2 clr C A B, wf A -> wf B -> wf C -> 0 < blk1 -> 0 < blk2 ->
  nc A = nr B -> nr C = nr A -> nc C = nc B -> 0 < nr B -> 0 < nc B ->
  naive_run blk1 clr C A B = naive_run blk2 clr C A B.
Proof. exact cfg_naive_config_indep. Qed.
Print Assumptions C12_naive_config_indep.

(** rank and reduced echelon form are functions of the row space only: any two routes that return an RREF
    row-equivalent to A (naive, M4RI for every k, PLUQ-based, hybrid; see Properties_C02) return the same matrix. *)
Theorem C12_rref_route_indep : forall A R1 R2 p1 p2, wf A -> wf R1 -> wf R2 ->
  Lin.Spec.is_rref R1 p1 -> Lin.Spec.row_equiv A R1 -> Lin.Spec.is_rref R2 p2 -> Lin.Spec.row_equiv A R2 -> R1 = R2.
Proof. exact cfg_rref_route_indep. Qed.
Print Assumptions C12_rref_route_indep.

(** ** the other routes: table parameter of M4RI, thresholds and cutoffs of the triangular solves, Strassen cutoffs *)
Theorem C12_m4ri_k_indep :
  forall (k1 k2 : nat) (full : bool) (A : Mat.mat),
         1 <= k1 -> 1 <= k2 -> Mat.wf A -> M4RI.m4ri_run k1 full A = M4RI.m4ri_run k2 full A.
Proof. exact @cfg_m4ri_k_indep. Qed.
Print Assumptions C12_m4ri_k_indep.

Theorem C12_trsm_lower_left_indep :
  forall (c1 c2 : TRSM.cfg) (cut1 cut2 : nat) (L B : Mat.mat),
         Mat.wf B ->
         Mat.nr B <= length (Mat.rows L) ->
         TRSM.trsm_lower_left_rec c1 cut1 L B = TRSM.trsm_lower_left_rec c2 cut2 L B.
Proof. exact @cfg_trsm_lower_left_indep. Qed.
Print Assumptions C12_trsm_lower_left_indep.

Theorem C12_trsm_upper_left_indep :
  forall (c1 c2 : TRSM.cfg) (cut1 cut2 : nat) (U B : Mat.mat),
         Mat.wf B ->
         Mat.nr B <= length (Mat.rows U) ->
         TRSM.trsm_upper_left_rec c1 cut1 U B = TRSM.trsm_upper_left_rec c2 cut2 U B.
Proof. exact @cfg_trsm_upper_left_indep. Qed.
Print Assumptions C12_trsm_upper_left_indep.

Theorem C12_trsm_lower_right_indep :
  forall (c1 c2 : TRSM.cfg) (cut1 cut2 : nat) (L B : Mat.mat),
         Mat.wf B ->
         Mat.nc B <= length (Mat.rows L) ->
         TRSM.trsm_lower_right_rec c1 cut1 L B = TRSM.trsm_lower_right_rec c2 cut2 L B.
Proof. exact @cfg_trsm_lower_right_indep. Qed.
Print Assumptions C12_trsm_lower_right_indep.

Theorem C12_mzd_mul_cutoff_indep :
  forall (base : Mat.mat -> Mat.mat -> Mat.mat -> bool -> WMat.res Mat.mat)
           (dflt1 dflt2 : nat) (cutoff1 cutoff2 : Z) (same win : bool) (Copt : option Mat.mat)
           (A B : Mat.mat),
         StrassenProofs.base_correct base ->
         let B' := if same then A else B in
         Mat.wf A ->
         Mat.wf B' ->
         Mat.nc A = Mat.nr B' ->
         0 < Mat.nr A ->
         0 < Mat.nc A ->
         0 < Mat.nc B' ->
         (0 <= cutoff1)%Z ->
         (0 <= cutoff2)%Z ->
         StrassenProofs.dest_ok Copt A B' ->
         Strassen.ub_guard (Strassen.norm_cutoff dflt1 (Z.to_nat cutoff1)) A B' = false ->
         Strassen.ub_guard (Strassen.norm_cutoff dflt2 (Z.to_nat cutoff2)) A B' = false ->
         StrassenGen.mzd_mul_gen base dflt1 cutoff1 same win Copt A B =
         StrassenGen.mzd_mul_gen base dflt2 cutoff2 same win Copt A B.
Proof. exact @cfg_mzd_mul_cutoff_indep. Qed.
Print Assumptions C12_mzd_mul_cutoff_indep.

