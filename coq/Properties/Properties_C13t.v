(* Properties/Properties_C13t.v — C13 ("... bit-range read/xor/clear affect exactly the addressed entries with
   the stated effect"), for the C TEXT of the accessor family of m4ri/mzd.h.

   The functions are translated from the clang AST of the working tree by tools/translate_acc.py into
   Leaf/Gen_access.v on every check run (struct mode: `mzd_t *M` is the bundle of its members; M->data is a
   (block, offset) pointer into the word array) and executed by the CMini interpreter of Leaf/CMini.v.

   [run_acc f args ws = Ok (r, ws')]: the call of f on the word array ws terminates without undefined behaviour
   (signed overflow, shift count out of range), out-of-bounds access or uninitialised read, returns r, and ws' is
   the word array afterwards.  [hbundle h fl tail]: the members of the header h (Word/WMat.v: nrows, ncols, width,
   rowstride, high_bitmask and [h_off] = offset of M->data inside the array; flags = fl), then the remaining
   arguments.  [abs h mem] is the matrix (Lin/Mat.v) that the header h views in the array mem; the right-hand sides
   are the matrix-level models of Lin/Ops.v.  [outside h mem m']: every bit of the array that is not an entry of
   the view is unchanged — other rows, words between rows, padding bits beyond ncols, the parent of a window.

   Domain: [valid h mem] (header consistent, all rows inside the array, words < 2^64), [c_dom h fl mem] (members
   fit their C types, array shorter than 2^48 words: no int / int64_t computation of the C text overflows and the
   interpreter's loop fuel of 2^48 iterations is not exhausted), indices
   inside the matrix, 1 <= n <= 64.  All statements are for ALL such headers (any window offset, any rowstride),
   array contents and arguments. *)
From Coq Require Import ZArith NArith List String Bool Lia.
From M4 Require Import Base.Bits Lin.Mat Lin.Ops Word.WMat Word.WOps Leaf.CMini Leaf.CMiniAcc Leaf.Gen_access
  Leaf.AccessSpecs Leaf.AccessSpecs2 Leaf.AccessSpecs3 Leaf.AccessSpecs4 Leaf.AccessSpecs5 Leaf.AccessSpecs6
  Leaf.AccessSpecs9 Lin.OpsProofs.
Import ListNotations.
Local Open Scope Z_scope.

(** ** mzd_row / mzd_row_const (mzd.h:185, :189): row i starts at word h_off + i * rowstride of the array *)
Theorem C13t_mzd_row : forall h fl mem i,
  valid h mem -> c_dom h fl mem -> (i < h_nrows h)%nat -> (0 < h_width h)%nat ->
  run_acc "mzd_row" (hbundle h fl [zi i]) (words mem) = Ok (Some (Z.of_nat (row_addr h i)), words mem) /\
  run_acc "mzd_row_const" (hbundle h fl [zi i]) (words mem) = Ok (Some (Z.of_nat (row_addr h i)), words mem).
Proof. exact mzd_row_spec. Qed.
Print Assumptions C13t_mzd_row.

(** ** mzd_read_bit (mzd.h:440) = Mat.get *)
Theorem C13t_read_bit : forall h fl mem i j,
  valid h mem -> c_dom h fl mem -> (i < h_nrows h)%nat -> (j < h_ncols h)%nat ->
  run_acc "mzd_read_bit" (hbundle h fl [zi i; zi j]) (words mem) =
  Ok (Some (Z.b2z (get (abs h mem) i j)), words mem).
Proof. exact mzd_read_bit_spec. Qed.
Print Assumptions C13t_read_bit.

(** ** mzd_write_bit (mzd.h:457) = Ops.write_bit *)
Theorem C13t_write_bit : forall h fl mem i j v,
  valid h mem -> c_dom h fl mem -> (i < h_nrows h)%nat -> (j < h_ncols h)%nat ->
  exists m', run_acc "mzd_write_bit" (hbundle h fl [zi i; zi j; Vint (Z.b2z v)]) (words mem) = Ok (None, words m') /\
    List.length m' = List.length mem /\ mem_ok m' /\
    abs h m' = write_bit (abs h mem) i j v /\ outside h mem m'.
Proof. exact mzd_write_bit_spec. Qed.
Print Assumptions C13t_write_bit.

(** ** mzd_read_bits (mzd.h:893) = Ops.read_bits *)
Theorem C13t_read_bits : forall h fl mem x y n,
  valid h mem -> c_dom h fl mem -> (x < h_nrows h)%nat -> (1 <= n <= 64)%nat -> (y + n <= h_ncols h)%nat ->
  run_acc "mzd_read_bits" (hbundle h fl [zi x; zi y; zi n]) (words mem) =
  Ok (Some (Z.of_N (read_bits (abs h mem) x y n)), words mem).
Proof. exact mzd_read_bits_spec. Qed.
Print Assumptions C13t_read_bits.

(** ** mzd_xor_bits (mzd.h:472) = Ops.xor_bits, for an n-bit value *)
Theorem C13t_xor_bits : forall h fl mem x y n v,
  valid h mem -> c_dom h fl mem -> (x < h_nrows h)%nat -> (1 <= n <= 64)%nat -> (y + n <= h_ncols h)%nat ->
  bounded n v ->
  exists m', run_acc "mzd_xor_bits" (hbundle h fl [zi x; zi y; zi n; Vint (Z.of_N v)]) (words mem) = Ok (None, words m') /\
    List.length m' = List.length mem /\ mem_ok m' /\
    abs h m' = xor_bits (abs h mem) x y n v /\ outside h mem m'.
Proof. exact mzd_xor_bits_spec. Qed.
Print Assumptions C13t_xor_bits.

(** ** mzd_clear_bits (mzd.h:514) = Ops.clear_bits *)
Theorem C13t_clear_bits : forall h fl mem x y n,
  valid h mem -> c_dom h fl mem -> (x < h_nrows h)%nat -> (1 <= n <= 64)%nat -> (y + n <= h_ncols h)%nat ->
  exists m', run_acc "mzd_clear_bits" (hbundle h fl [zi x; zi y; zi n]) (words mem) = Ok (None, words m') /\
    List.length m' = List.length mem /\ mem_ok m' /\
    abs h m' = clear_bits (abs h mem) x y n /\ outside h mem m'.
Proof. exact mzd_clear_bits_spec. Qed.
Print Assumptions C13t_clear_bits.

(** ** mzd_and_bits (mzd.h:492): the C text computes the word-level model [w_and_bits] (Leaf/AccessSpecs2.v; no
    matrix-level model: the routine is not used by the library and clears the other bits of the words it touches,
    finding F13 of DESIGN.md — [and_bits_frame_fails] shows it on the translated text). *)
Theorem C13t_and_bits_word_level : forall h fl mem x y n v m',
  valid h mem -> c_dom h fl mem -> (x < h_nrows h)%nat -> (1 <= n <= 64)%nat -> (y + n <= h_ncols h)%nat ->
  (v < 2 ^ 64)%N ->
  w_and_bits h x y n v mem = WMat.Ok m' ->
  run_acc "mzd_and_bits" (hbundle h fl [zi x; zi y; zi n; Vint (Z.of_N v)]) (words mem) = Ok (None, words m').
Proof. exact acc_and_bits_w. Qed.
Print Assumptions C13t_and_bits_word_level.

Theorem C13t_and_bits_clobbers :
  run_acc "mzd_and_bits" (hbundle (init_hdr 1 64) 0 [Vint 0; Vint 8; Vint 1; Vint (Z.of_N ffff)]) [Z.of_N ffff; 0]
  = Ok (None, [256; 0]).
Proof. exact and_bits_frame_fails. Qed.
Print Assumptions C13t_and_bits_clobbers.

(** ** mzd_row_swap (mzd.h:296) = Ops.row_swap; _mzd_row_swap (mzd.h:265) swaps the words from a start block on *)
Theorem C13t_row_swap : forall h fl mem a b,
  valid h mem -> c_dom h fl mem -> (a < h_nrows h)%nat -> (b < h_nrows h)%nat ->
  exists m', run_acc "mzd_row_swap" (hbundle h fl [zi a; zi b]) (words mem) = Ok (None, words m') /\
    List.length m' = List.length mem /\ mem_ok m' /\
    abs h m' = row_swap (abs h mem) a b /\ outside h mem m'.
Proof. exact mzd_row_swap_spec. Qed.
Print Assumptions C13t_row_swap.

Theorem C13t_row_swap_from_block : forall h fl mem a b sb,
  valid h mem -> c_dom h fl mem -> (a < h_nrows h)%nat -> (b < h_nrows h)%nat -> Z.of_nat sb < 2 ^ 62 ->
  exists m', run_acc "_mzd_row_swap" (hbundle h fl [zi a; zi b; zi sb]) (words mem) = Ok (None, words m') /\
    List.length m' = List.length mem /\ mem_ok m' /\ outside h mem m' /\
    forall i j, N.testbit (rowval h m' i) (N.of_nat j) =
      if (64 * sb <=? j)%nat then N.testbit (rowval h mem (transp a b i)) (N.of_nat j)
      else N.testbit (rowval h mem i) (N.of_nat j).
Proof. exact _mzd_row_swap_spec. Qed.
Print Assumptions C13t_row_swap_from_block.

(** ** mzd_row_add_offset (mzd.h:537), scalar branch (translated with __M4RI_HAVE_SSE2 0) = Ops.row_add_offset;
    dstrow = srcrow allowed *)
Theorem C13t_row_add_offset : forall h fl mem dst src co,
  valid h mem -> c_dom h fl mem -> (dst < h_nrows h)%nat -> (src < h_nrows h)%nat -> (co < h_ncols h)%nat ->
  exists m', run_acc "mzd_row_add_offset" (hbundle h fl [zi dst; zi src; zi co]) (words mem) = Ok (None, words m') /\
    List.length m' = List.length mem /\ mem_ok m' /\
    abs h m' = row_add_offset (abs h mem) dst src co /\ outside h mem m'.
Proof. exact mzd_row_add_offset_spec. Qed.
Print Assumptions C13t_row_add_offset.

(** ** mzd_col_swap_in_rows (mzd.h:325) = Ops.col_swap_in_rows, both the same-word form (rows four at a time through
    `word xor_v[4]`, then the rest) and the two-word form; start_row = stop_row allowed.  mzd_col_swap (mzd.h:424). *)
Theorem C13t_col_swap_in_rows : forall h fl mem cola colb r0 r1,
  valid h mem -> c_dom h fl mem -> (cola < h_ncols h)%nat -> (colb < h_ncols h)%nat -> (r0 <= r1)%nat -> (r1 <= h_nrows h)%nat ->
  exists m', run_acc "mzd_col_swap_in_rows" (hbundle h fl [zi cola; zi colb; zi r0; zi r1]) (words mem) = Ok (None, words m') /\
    List.length m' = List.length mem /\ mem_ok m' /\
    abs h m' = col_swap_in_rows (abs h mem) cola colb r0 r1 /\ outside h mem m'.
Proof. exact mzd_col_swap_in_rows_spec. Qed.
Print Assumptions C13t_col_swap_in_rows.

Theorem C13t_col_swap : forall h fl mem cola colb,
  valid h mem -> c_dom h fl mem -> (cola < h_ncols h)%nat -> (colb < h_ncols h)%nat ->
  exists m', run_acc "mzd_col_swap" (hbundle h fl [zi cola; zi colb]) (words mem) = Ok (None, words m') /\
    List.length m' = List.length mem /\ mem_ok m' /\
    abs h m' = col_swap (abs h mem) cola colb /\ outside h mem m'.
Proof. exact mzd_col_swap_spec. Qed.
Print Assumptions C13t_col_swap.

(** ** Non-vacuity: the hypotheses are satisfiable (a 3 x 70 window at word offset 5 of a 30-word array, x = 2,
    y = 60, n = 10 crosses a word boundary and ends at the last column) and a concrete run through the translated
    text agrees with the theorems. *)
Example C13t_hyps_satisfiable :
  let h := window_hdr (init_hdr 6 200) 1 64 4 134 in
  let mem := repeat 0%N 30 in
  valid h mem /\ c_dom h 4 mem /\ (2 < h_nrows h)%nat /\ (1 <= 10 <= 64)%nat /\ (60 + 10 <= h_ncols h)%nat /\
  bounded 10 1023%N /\ (0 < h_width h)%nat /\ (1023 < 2 ^ 64)%N /\ Z.of_nat 1 < 2 ^ 62 /\
  exists m', w_and_bits h 2 60 10 1023%N mem = WMat.Ok m'.
Proof.
  cbv zeta. split; [apply validb_spec; reflexivity|]. split; [unfold c_dom; cbn; lia|].
  split; [cbn; lia|]. split; [lia|]. split; [cbn; lia|]. split; [apply bounded_lt; reflexivity|].
  split; [cbn; lia|]. split; [reflexivity|]. split; [reflexivity|]. eexists. vm_compute. reflexivity.
Qed.

Example C13t_concrete_run :
  let h := window_hdr (init_hdr 6 200) 1 64 4 134 in
  let ws := words (repeat 0%N 30) in
  match run_acc "mzd_xor_bits" (hbundle h 4 [zi 2; zi 60; zi 10; Vint 1023]) ws with
  | Ok (None, ws') =>
      run_acc "mzd_read_bits" (hbundle h 4 [zi 2; zi 60; zi 10]) ws' = Ok (Some 1023, ws') /\
      run_acc "mzd_read_bit" (hbundle h 4 [zi 2; zi 69]) ws' = Ok (Some 1, ws') /\
      run_acc "mzd_read_bit" (hbundle h 4 [zi 2; zi 59]) ws' = Ok (Some 0, ws') /\
      nth 13 ws' 0 = Z.shiftl 15 60 /\ nth 14 ws' 0 = 63 /\
      match run_acc "mzd_row_swap" (hbundle h 4 [zi 2; zi 0]) ws' with
      | Ok (None, ws2) =>
          nth 5 ws2 0 = Z.shiftl 15 60 /\ nth 6 ws2 0 = 63 /\ nth 13 ws2 0 = 0 /\ nth 14 ws2 0 = 0 /\
          match run_acc "mzd_row_add_offset" (hbundle h 4 [zi 1; zi 0; zi 61]) ws2 with
          | Ok (None, ws3) =>
              nth 9 ws3 0 = Z.shiftl 7 61 /\ nth 10 ws3 0 = 63 /\ nth 5 ws3 0 = Z.shiftl 15 60 /\
              (* columns 62 (word 0) and 68 (word 1) of rows 0..2; then columns 1 and 63 of all rows *)
              match run_acc "mzd_col_swap_in_rows" (hbundle h 4 [zi 62; zi 68; zi 0; zi 3]) ws3 with
              | Ok (None, ws4) =>
                  nth 5 ws4 0 = Z.shiftl 15 60 /\ nth 6 ws4 0 = 63 /\ nth 13 ws4 0 = 0 /\
                  match run_acc "mzd_col_swap" (hbundle h 4 [zi 1; zi 63]) ws4 with
                  | Ok (None, ws5) => nth 5 ws5 0 = Z.shiftl 7 60 + 2 /\ nth 9 ws5 0 = Z.shiftl 3 61 + 2 /\ nth 13 ws5 0 = 0
                  | _ => False
                  end
              | _ => False
              end
          | _ => False
          end
      | _ => False
      end
  | _ => False
  end.
Proof. vm_compute. repeat split; reflexivity. Qed.
