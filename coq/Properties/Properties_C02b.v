(* Properties/Properties_C02b.v — property C02, the routes other than naive Gauss:
   M4RI (_mzd_echelonize_m4ri, mzd_echelonize_m4ri), the top reduction (mzd_top_echelonize_m4ri),
   the PLUQ-based echelon form (mzd_echelonize_pluq) and the density-switching hybrid
   (mzd_echelonize).  Statements only; proofs in Alg/M4RIProofs.v and Alg/EchelonPLUQProofs.v.
   To be merged into Properties_C02.v.

   Reduced mode (full = 1): complete — every route returns exactly gauss_delayed true 0 A
   = (rank A, rref A), for every k >= 1, every sequence of switching decisions, every PLUQ / TRSM
   implementation meeting its specification.
   Non-reduced mode (full = 0): PARTIAL — finite instances only (C02_m4ri_nonfull_partial,
   C02_pluq_nonfull_partial); the full statements are in the comments of the proof files. *)
From Coq Require Import List NArith Arith Lia Bool Sorted.
From M4 Require Import Base.Bits Lin.Mat Lin.Ops Lin.Spec Lin.Span Lin.Echelon Alg.Gauss Alg.GaussProofs
                       Alg.Gray Alg.PLE Alg.PLESpec Alg.TRSM Alg.M4RI Alg.M4RIProofs
                       Alg.EchelonPLUQ Alg.EchelonPLUQProofs.
Import ListNotations.
Local Open Scope nat_scope.

(** M4RI, reduced mode, any k >= 1, any switching oracle, any window echeloniser meeting the
    contract of mzd_echelonize_pluq(.,1) *)
Theorem C02_m4ri_full : forall (ech : bool -> mat -> nat * mat) (k ktop : nat) (oracle : nat -> bool) (A : mat),
  1 <= k -> 1 <= ktop -> (forall W, wf W -> ech true W = gauss_delayed true 0 W) -> wf A ->
  m4ri_model ech k ktop oracle true A = Some (gauss_delayed true 0 A).
Proof. exact m4ri_full_spec. Qed.
Print Assumptions C02_m4ri_full.

Theorem C02_m4ri_rref : forall (ech : bool -> mat -> nat * mat) (k ktop : nat) (oracle : nat -> bool) (A : mat),
  1 <= k -> 1 <= ktop -> (forall W, wf W -> ech true W = gauss_delayed true 0 W) -> wf A ->
  m4ri_model ech k ktop oracle true A = Some (rank A, rref A).
Proof. exact m4ri_rref_spec. Qed.
Print Assumptions C02_m4ri_rref.

(** mzd_echelonize_m4ri(A, 1, k) *)
Theorem C02_m4ri_run : forall (k : nat) (A : mat), 1 <= k -> wf A ->
  m4ri_run k true A = Some (gauss_delayed true 0 A).
Proof. exact m4ri_run_full_spec. Qed.
Print Assumptions C02_m4ri_run.

(** one block iteration re-establishes the echelon invariant (the step of the induction) *)
Theorem C02_m4ri_step : forall (A : mat) (k : nat) (piv : list nat) (c : nat) (M : mat) (kk : nat),
  ginv true A c M piv -> 1 <= kk -> c + kk <= nc M ->
  forall M3 kbar, block_step k true M (length piv) c kk = (M3, kbar) ->
  kbar <= kk /\ ginv true A (if kbar =? kk then c + kbar else S (c + kbar)) M3 (piv ++ seq c kbar).
Proof. exact block_full_spec. Qed.
Print Assumptions C02_m4ri_step.

(** the split over 1..6 tables adds the single combination of the block rows, and a table entry
    of the faithful table model has the modelled value *)
Theorem C02_tbl_split : forall (M : mat) (r c : nat) (sizes : list nat) (bits : N),
  wf M -> r + list_sum sizes <= nr M ->
  tbl_sum M r c sizes bits =
  tbl_entry M r c (list_sum sizes) (N.land bits (N.ones (N.of_nat (list_sum sizes)))).
Proof. exact tbl_sum_split. Qed.
Print Assumptions C02_tbl_split.

Theorem C02_tbl_lookup : forall (k : nat) (M : mat) (r c : nat) (T0 : list N) (L0 : list nat) (x : N),
  r + k <= nr M -> 2 ^ k <= length T0 -> 2 ^ k <= length L0 ->
  N.land (nth 0 T0 0%N) (mt_mask M c) = 0%N -> (x < 2 ^ N.of_nat k)%N ->
  N.land (tlookup (make_table M r c k T0 L0) x) (mt_mask M c) = tbl_entry M r c k x.
Proof. exact tbl_entry_is_table_lookup. Qed.
Print Assumptions C02_tbl_lookup.

(** mzd_top_echelonize_m4ri completes a row echelon form to the reduced row echelon form *)
Theorem C02_top_echelonize : forall (k : nat) (M : mat) (piv : list nat),
  1 <= k -> is_ref M piv -> wf M -> top_model k M = Some (rref M).
Proof. exact top_echelonize_spec. Qed.
Print Assumptions C02_top_echelonize.

(** mzd_echelonize_pluq(A, 1) from ANY PLUQ result meeting the C03 specification and ANY upper-left
    TRSM meeting the C04 specification (three word-alignment cases included) *)
Theorem C02_echelon_pluq : forall (pluq ple : mat -> ple_out) (trsm : mat -> mat -> mat) (A : mat),
  (forall U B, wf B -> wf (trsm U B) /\ nr (trsm U B) = nr B /\ nc (trsm U B) = nc B /\
                        mmul (unit_upper (nr B) U) (trsm U B) = B) ->
  wf A -> pluq_spec A (pluq A) ->
  echelon_pluq pluq ple trsm true A = gauss_delayed true 0 A.
Proof. exact echelon_pluq_full_spec. Qed.
Print Assumptions C02_echelon_pluq.

(** the hybrid mzd_echelonize(A, 1) *)
Theorem C02_hybrid : forall (pluq ple : mat -> ple_out) (trsm : mat -> mat -> mat) (k ktop : nat)
                            (oracle : nat -> bool) (A : mat),
  (forall U B, wf B -> wf (trsm U B) /\ nr (trsm U B) = nr B /\ nc (trsm U B) = nc B /\
                        mmul (unit_upper (nr B) U) (trsm U B) = B) ->
  (forall W, wf W -> pluq_spec W (pluq W)) ->
  1 <= k -> 1 <= ktop -> wf A ->
  mzd_echelonize_model pluq ple trsm k ktop oracle true A = Some (gauss_delayed true 0 A).
Proof. exact mzd_echelonize_full_spec. Qed.
Print Assumptions C02_hybrid.

(** all routes agree in reduced mode *)
Theorem C02_routes_agree : forall (pluq ple : mat -> ple_out) (trsm : mat -> mat -> mat) (k ktop : nat)
                                  (oracle : nat -> bool) (A : mat),
  (forall U B, wf B -> wf (trsm U B) /\ nr (trsm U B) = nr B /\ nc (trsm U B) = nc B /\
                        mmul (unit_upper (nr B) U) (trsm U B) = B) ->
  (forall W, wf W -> pluq_spec W (pluq W)) ->
  1 <= k -> 1 <= ktop -> wf A ->
  let ref := (rank A, rref A) in
  gauss_delayed true 0 A = ref /\
  m4ri_run k true A = Some ref /\
  echelon_pluq pluq ple trsm true A = ref /\
  mzd_echelonize_model pluq ple trsm k ktop oracle true A = Some ref /\
  (forall M piv, wf M -> is_ref M piv -> row_equiv A M -> top_run k M = Some (rref A)).
Proof. exact routes_agree. Qed.
Print Assumptions C02_routes_agree.

(** the runnable instances used by the correspondence driver *)
Theorem C02_echelon_pluq_run : forall A : mat, wf A -> echelon_pluq_run true A = gauss_delayed true 0 A.
Proof. exact echelon_pluq_run_full_spec. Qed.
Print Assumptions C02_echelon_pluq_run.

Theorem C02_hybrid_run : forall (k ktop : nat) (oracle : nat -> bool) (A : mat),
  1 <= k -> 1 <= ktop -> wf A -> hybrid_run k ktop oracle true A = Some (gauss_delayed true 0 A).
Proof. exact hybrid_run_full_spec. Qed.
Print Assumptions C02_hybrid_run.

(** an echelon form is recognised from the column rank profile (tool for the PLUQ route) *)
Theorem C02_rref_of_crp : forall (A R : mat) (piv : list nat),
  wf A -> wf R -> row_equiv A R -> is_crp A piv ->
  (forall t i, t < length piv -> get R i (nth t piv 0) = (i =? t)) ->
  (forall i, length piv <= i -> row R i = 0%N) -> is_rref R piv.
Proof. exact rref_of_crp. Qed.
Print Assumptions C02_rref_of_crp.

(** PARTIAL (non-reduced mode): finite instances, by evaluation *)
Theorem C02_m4ri_nonfull_partial :
  forallb (fun A => forallb (fun k => res_eqb (m4ri_run k false A) (Some (gauss_delayed false 0 A))) [1; 2; 3; 5])
          m4ri_examples = true.
Proof. exact m4ri_nonfull_partial. Qed.
Print Assumptions C02_m4ri_nonfull_partial.

(** non-vacuity *)
Example C02b_hypotheses_satisfiable :
  let A := nth 6 m4ri_examples (mzero 0 0) in
  wf A /\ (forall W, wf W -> (fun f W => gauss_delayed f 0 W) true W = gauss_delayed true 0 W) /\
  (forall U B, wf B -> wf (trsm_upper_left U B) /\ nr (trsm_upper_left U B) = nr B /\
                       nc (trsm_upper_left U B) = nc B /\
                       mmul (unit_upper (nr B) U) (trsm_upper_left U B) = B) /\
  hybrid_run 2 1 (fun it => it =? 1) true A = Some (rank A, rref A).
Proof.
  split; [apply wfb_spec; vm_compute; reflexivity|]. split; [reflexivity|].
  split; [exact Alg.TRSMProofs.trsm_upper_left_spec|vm_compute; reflexivity].
Qed.
