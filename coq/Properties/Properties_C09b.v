(* Properties/Properties_C09b.v — C09 "Views" (with the C08 / C10 / C11 facets of the same kernels), part b.
   Statements only ([exact] of theorems of Word/WRefine14-17.v), each followed by Print Assumptions
   (expected: Closed under the global context), plus non-vacuity Examples on windows at an odd word
   offset inside a non-zero allocation.

   1. The kernels repaired in /repo (row_clear_offset, first_zero_row, concat, stack, submatrix,
      extract_u, extract_l, row_add_offset) modelled from the CURRENT C text, statement for statement
      (Word/WOps2.v, names w2_...): equal as functions to the already verified [_fixed]/[_fx] models, or
      proven directly; the full kernel contract for each ([kernel_post]: refinement, frame, padding,
      read-only operands; [= Ok m'] = no out-of-bounds access / undefined shift / die).
      New positive theorems for the repaired defects F17 (extract_l on a supplied window) and F18
      (row_add_offset with dstrow = srcrow).
   2. mzd_submatrix into a LARGER supplied destination (was C08_submatrix_larger_destination_partial).
   3. The table argument of the Four-Russians routines at word level: mzd_make_table masks every row
      it writes (mask_begin / mask_end), hence the whole-word XOR of mzd_process_rows changes no bit
      outside the columns [c, ncols) of the processed rows of the view — for windows at any placement.

   Vocabulary: Word/WMat.v ([valid], [abs], [outside], [in_view], [wview], [wdisjoint], [bit]),
   Word/WRefineViews.v ([kernel_post]), Word/WRefine9.v ([fresh_post]), Word/WRefine15.v:
     [row_masked hM hT c x m]  : row x of table T is zero outside the columns [c, ncols M) within the
                                 words c/64 .. width M - 1;
     [tbl_end_masked hM hT m]  : every row of T is zero beyond the last column of M in M's last word;
     [tch hM r0 r1 c0 c1 m m'] : same size, and every bit that is not in columns [c0,c1) of rows [r0,r1)
                                 of the view hM is unchanged. *)
From Coq Require Import List NArith Arith Lia Bool.
From M4 Require Import Base.Bits Lin.Mat Lin.MatAlg Lin.Ops Lin.OpsProofs Word.WMat Word.WOps Word.WOps2
  Word.WMatLemmas Word.WRefine9 Word.WRefine10 Word.WRefine14 Word.WRefine15 Word.WRefine16 Word.WRefine17
  Word.WRefineViews Word.WRefineRefuted Alg.Gray Alg.GrayProofs.
Import ListNotations.
Local Open Scope nat_scope.

Ltac ex_conj := repeat match goal with |- _ /\ _ => split end.
Ltac ex_close :=
  first [ exact ex_valid_wR | exact ex_valid_wP | exact ex_valid_wQ | exact ex_valid_wR4 | exact ex_valid_wR72
        | exact ex_valid_P | exact ex_valid_sqR | exact ex_valid_sqP
        | exact ex_disj_R_P | exact ex_disj_R_Q | exact ex_disj_R4_P | exact ex_disj_R4_Q
        | exact ex_disj_R72_P | exact ex_disj_R72_Q | exact ex_disj_R_bigP | exact ex_disj_sqR_P
        | exact t_valid_W | exact t_valid_T | exact t_disj | exact t_row0
        | (apply ex_valid; vm_compute; reflexivity)
        | (split; reflexivity)
        | (vm_compute; reflexivity) | (vm_compute; lia) | (vm_compute; discriminate) ].

(* ========================================================================================== *)
(** * 1a. the models of the current C text are the verified models *)

Theorem C09b_row_clear_offset_eq : forall h r co mem, 0 < h_width h ->
  w2_row_clear_offset h r co mem = w_row_clear_offset_fixed2 h r co mem.
Proof. exact w2_row_clear_offset_eq. Qed.
Print Assumptions C09b_row_clear_offset_eq.

Theorem C09b_first_zero_row_eq : forall hA mem, w2_first_zero_row hA mem = w_first_zero_row_fixed hA mem.
Proof. exact w2_first_zero_row_eq. Qed.
Print Assumptions C09b_first_zero_row_eq.

Theorem C09b_concat_eq : forall hC hA hB mem, 0 < h_width hA ->
  w2_concat hC hA hB mem = w_concat_fixed hC hA hB mem.
Proof. exact w2_concat_eq. Qed.
Print Assumptions C09b_concat_eq.

Theorem C09b_stack_eq : forall hC hA hB mem, 0 < h_width hA -> 0 < h_width hB ->
  w2_stack hC hA hB mem = w_stack_fixed hC hA hB mem.
Proof. exact w2_stack_eq. Qed.
Print Assumptions C09b_stack_eq.

Theorem C09b_submatrix_eq : forall hS hM sr sc er ec mem,
  w2_submatrix hS hM sr sc er ec mem = w_submatrix_fixed hS hM sr sc er ec mem.
Proof. exact w2_submatrix_eq. Qed.
Print Assumptions C09b_submatrix_eq.

Theorem C09b_extract_u_eq : forall hU hA mem, w2_extract_u hU hA mem = w_extract_u_fx hU hA mem.
Proof. exact w2_extract_u_eq. Qed.
Print Assumptions C09b_extract_u_eq.

(** for distinct rows the repaired mzd_row_add_offset computes the same memory as the pinned one *)
Theorem C09b_row_add_offset_eq : forall h mem dst src co,
  valid h mem -> dst < h_nrows h -> src < h_nrows h -> dst <> src -> co < h_ncols h ->
  w2_row_add_offset h dst src co mem = w_row_add_offset h dst src co mem.
Proof. exact w2_row_add_offset_eq. Qed.
Print Assumptions C09b_row_add_offset_eq.

(* ========================================================================================== *)
(** * 1b. the full contract of each kernel of the current C text *)

Theorem C09b_row_clear_offset : forall h mem r co, valid h mem -> r < h_nrows h -> co < h_ncols h ->
  exists m', w2_row_clear_offset h r co mem = Ok m' /\
             kernel_post h mem (row_clear_offset (abs h mem) r co) m'.
Proof. exact w2_row_clear_offset_full. Qed.
Print Assumptions C09b_row_clear_offset.

Theorem C09b_first_zero_row : forall hA mem, valid hA mem -> 0 < h_ncols hA ->
  w2_first_zero_row hA mem = Ok (first_zero_row (abs hA mem)).
Proof. exact w2_first_zero_row_ok. Qed.
Print Assumptions C09b_first_zero_row.

Theorem C09b_first_zero_row_view_only : forall hA mem1 mem2,
  valid hA mem1 -> valid hA mem2 -> 0 < h_ncols hA -> abs hA mem1 = abs hA mem2 ->
  w2_first_zero_row hA mem1 = w2_first_zero_row hA mem2.
Proof. exact w2_first_zero_row_view_only. Qed.
Print Assumptions C09b_first_zero_row_view_only.

Theorem C09b_concat : forall hC hA hB mem,
  valid hC mem -> valid hA mem -> valid hB mem -> 0 < h_ncols hA ->
  h_nrows hA = h_nrows hC -> h_nrows hB = h_nrows hC -> h_ncols hC = h_ncols hA + h_ncols hB ->
  wdisjoint hC hA -> wdisjoint hC hB ->
  exists m', w2_concat hC hA hB mem = Ok m' /\ kernel_post hC mem (mconcat (abs hA mem) (abs hB mem)) m'.
Proof. exact w2_concat_full. Qed.
Print Assumptions C09b_concat.

Theorem C09b_stack : forall hC hA hB mem,
  valid hC mem -> valid hA mem -> valid hB mem -> 0 < h_ncols hC ->
  h_ncols hA = h_ncols hC -> h_ncols hB = h_ncols hC -> h_nrows hC = h_nrows hA + h_nrows hB ->
  wdisjoint hC hA -> wdisjoint hC hB ->
  exists m', w2_stack hC hA hB mem = Ok m' /\ kernel_post hC mem (mstack (abs hA mem) (abs hB mem)) m'.
Proof. exact w2_stack_full. Qed.
Print Assumptions C09b_stack.

Theorem C09b_submatrix : forall hS hM sr sc er ec mem,
  valid hS mem -> valid hM mem -> h_nrows hS = er - sr -> h_ncols hS = ec - sc ->
  sr <= er -> er <= h_nrows hM -> ec <= h_ncols hM -> sc < ec -> wdisjoint hS hM ->
  exists m', w2_submatrix hS hM sr sc er ec mem = Ok m' /\
             kernel_post hS mem (msub (abs hM mem) sr sc (er - sr) (ec - sc)) m'.
Proof. exact w2_submatrix_full. Qed.
Print Assumptions C09b_submatrix.

Theorem C09b_extract_u : forall hU hA mem,
  let k := Nat.min (h_nrows hA) (h_ncols hA) in
  valid hU mem -> valid hA mem -> 0 < k -> h_nrows hU = k -> h_ncols hU = k -> wdisjoint hU hA ->
  exists m', w2_extract_u hU hA mem = Ok m' /\ kernel_post hU mem (extract_u (abs hA mem)) m'.
Proof. exact w2_extract_u_full. Qed.
Print Assumptions C09b_extract_u.

(** repaired F17: mzd_extract_l into a supplied window — refinement AND frame for EVERY destination
    (the pre-repair code is refuted in Properties_C09.C09_extract_l_frame_refuted) *)
Theorem C09b_extract_l : forall hL hA mem,
  let k := Nat.min (h_nrows hA) (h_ncols hA) in
  valid hL mem -> valid hA mem -> 0 < k -> h_nrows hL = k -> h_ncols hL = k -> wdisjoint hL hA ->
  exists m', w2_extract_l hL hA mem = Ok m' /\ kernel_post hL mem (extract_l (abs hA mem)) m'.
Proof. exact w2_extract_l_full. Qed.
Print Assumptions C09b_extract_l.

(** mzd_row_add_offset, repaired: every dstrow, srcrow — equal rows included *)
Theorem C09b_row_add_offset : forall h mem dst src co,
  valid h mem -> dst < h_nrows h -> src < h_nrows h -> co < h_ncols h ->
  exists m', w2_row_add_offset h dst src co mem = Ok m' /\
             kernel_post h mem (row_add_offset (abs h mem) dst src co) m'.
Proof. exact w2_row_add_offset_full. Qed.
Print Assumptions C09b_row_add_offset.

(** repaired F18: dstrow = srcrow (mzd_row_add(M, i, i)) — the row is zero from coloffset on, equals
    the row cleared from coloffset, and the frame holds (the pre-repair code is refuted in
    Properties_C09: w_row_add_offset_same_row_frame_refuted) *)
Theorem C09b_row_add_offset_same_row : forall h mem r co,
  valid h mem -> r < h_nrows h -> co < h_ncols h ->
  exists m', w2_row_add_offset h r r co mem = Ok m' /\
             kernel_post h mem (row_clear_offset (abs h mem) r co) m' /\
             (forall j, co <= j -> get (abs h m') r j = false).
Proof. exact w2_row_add_offset_same_row_full. Qed.
Print Assumptions C09b_row_add_offset_same_row.

(** destinations allocated by the call *)
Theorem C09b_submatrix_fresh : forall hM sr sc er ec mem,
  valid hM mem -> sr <= er -> er <= h_nrows hM -> ec <= h_ncols hM -> sc < ec ->
  exists m' hS, w2_submatrix_fresh hM sr sc er ec mem = Ok (m', hS) /\
    fresh_post mem (msub (abs hM mem) sr sc (er - sr) (ec - sc)) m' hS.
Proof. exact w2_submatrix_fresh_ok. Qed.
Print Assumptions C09b_submatrix_fresh.

Theorem C09b_concat_fresh : forall hA hB mem,
  valid hA mem -> valid hB mem -> 0 < h_ncols hA -> h_nrows hA = h_nrows hB ->
  exists m' hC, w2_concat_fresh hA hB mem = Ok (m', hC) /\
    fresh_post mem (mconcat (abs hA mem) (abs hB mem)) m' hC.
Proof. exact w2_concat_fresh_ok. Qed.
Print Assumptions C09b_concat_fresh.

Theorem C09b_stack_fresh : forall hA hB mem,
  valid hA mem -> valid hB mem -> 0 < h_ncols hA -> h_ncols hA = h_ncols hB ->
  exists m' hC, w2_stack_fresh hA hB mem = Ok (m', hC) /\
    fresh_post mem (mstack (abs hA mem) (abs hB mem)) m' hC.
Proof. exact w2_stack_fresh_ok. Qed.
Print Assumptions C09b_stack_fresh.

Theorem C09b_extract_u_fresh : forall hA mem, valid hA mem -> 0 < Nat.min (h_nrows hA) (h_ncols hA) ->
  exists m' hU, w2_extract_u_fresh hA mem = Ok (m', hU) /\ fresh_post mem (extract_u (abs hA mem)) m' hU.
Proof. exact w2_extract_u_fresh_ok. Qed.
Print Assumptions C09b_extract_u_fresh.

Theorem C09b_extract_l_fresh : forall hA mem, valid hA mem -> 0 < Nat.min (h_nrows hA) (h_ncols hA) ->
  exists m' hL, w2_extract_l_fresh hA mem = Ok (m', hL) /\ fresh_post mem (extract_l (abs hA mem)) m' hL.
Proof. exact w2_extract_l_fresh_ok. Qed.
Print Assumptions C09b_extract_l_fresh.

(** non-vacuity: windows with foreign bits in their last word, at an odd word offset *)
Example C09b_row_ops_nonvacuous :
  valid ex_wR ex_mem /\ 1 < h_nrows ex_wR /\ 5 < h_ncols ex_wR /\
  h_windowed ex_wR = true /\ Nat.odd (h_off ex_wR) = true /\ padding_zerob ex_wR ex_mem = false.
Proof. cbv zeta. ex_conj; ex_close. Qed.

Example C09b_extract_l_nonvacuous :
  valid ex_sqR ex_mem /\ valid ex_P ex_mem /\ 0 < Nat.min (h_nrows ex_P) (h_ncols ex_P) /\
  wdisjoint ex_sqR ex_P /\ h_windowed ex_sqR = true /\ padding_zerob ex_sqR ex_mem = false /\
  valid ex_sqR ex_mem /\ valid ex_sqP ex_mem /\ h_nrows ex_sqR = Nat.min (h_nrows ex_sqP) (h_ncols ex_sqP) /\
  h_ncols ex_sqR = Nat.min (h_nrows ex_sqP) (h_ncols ex_sqP).
Proof. cbv zeta. ex_conj; ex_close. Qed.

(** the repaired defects, run: row_add(i, i) and extract_l on windows with foreign bits leave every bit
    outside the view alone (executable frame check [outsideb]) *)
Example C09b_same_row_runs : exists m',
  w2_row_add_offset ex_wP 0 0 5 ex_mem = Ok m' /\ outsideb ex_wP ex_mem m' = true /\
  w_row_add_offset ex_wP 0 0 5 ex_mem <> Ok m'.
Proof. eexists. split; [vm_compute; reflexivity|]. split; [vm_compute; reflexivity|vm_compute; discriminate]. Qed.

(* ========================================================================================== *)
(** * 2. mzd_submatrix into a larger supplied destination (C08, was `_partial`)
    Full statement: any S with S->nrows >= nrows, S->ncols >= ncols on the aligned path; on the
    unaligned path any taller S of exactly the block's width.  (Unaligned path into a WIDER S: false in
    the C code, Properties_C09.C09_submatrix_unaligned_wider_refuted.) *)
Theorem C08_submatrix_larger_destination : forall hS hM sr sc er ec mem,
  valid hS mem -> valid hM mem -> er - sr <= h_nrows hS -> ec - sc <= h_ncols hS ->
  (sc mod 64 = 0 \/ h_ncols hS = ec - sc) ->
  sr <= er -> er <= h_nrows hM -> ec <= h_ncols hM -> sc < ec -> wdisjoint hS hM ->
  exists m', w2_submatrix hS hM sr sc er ec mem = Ok m' /\
             kernel_post hS mem (msub_into (abs hS mem) (msub (abs hM mem) sr sc (er - sr) (ec - sc))) m'.
Proof. exact w2_submatrix_larger_full. Qed.
Print Assumptions C08_submatrix_larger_destination.

(** what [msub_into] denotes *)
Theorem C08_msub_into_entries : forall D P i j, wf P -> nr P <= length (rows D) ->
  get (msub_into D P) i j = if (i <? nr P) && (j <? nc P) then get P i j else get D i j.
Proof. exact get_mcopy_into. Qed.
Print Assumptions C08_msub_into_entries.

(** non-vacuity: a 1 x 20 block from column 64 (aligned) into the 2 x 36 window, and a 1 x 36 block
    from column 3 (unaligned) into the same, taller, window *)
Example C08_submatrix_larger_nonvacuous :
  valid ex_wR ex_mem /\ valid ex_P ex_mem /\ wdisjoint ex_wR ex_P /\
  (2 - 1 <= h_nrows ex_wR /\ 84 - 64 <= h_ncols ex_wR /\ 84 - 64 < h_ncols ex_wR /\ 64 mod 64 = 0 /\
   2 <= h_nrows ex_P /\ 84 <= h_ncols ex_P) /\
  (2 - 1 < h_nrows ex_wR /\ h_ncols ex_wR = 39 - 3 /\ 3 mod 64 <> 0 /\ 39 <= h_ncols ex_P).
Proof. cbv zeta. ex_conj; ex_close. Qed.

(* ========================================================================================== *)
(** * 3. the table argument (brilliantrussian.c:164-348) *)

(** the abstract statement: XOR with a row that is zero outside a column range changes nothing
    outside that range *)
Theorem C09b_xor_masked_outside : forall (r t : N) (c0 c1 : nat),
  N.ldiff t (colmask c0 c1) = 0%N -> N.ldiff (N.lxor r t) (colmask c0 c1) = N.ldiff r (colmask c0 c1).
Proof. exact xor_masked_outside. Qed.
Print Assumptions C09b_xor_masked_outside.

(** mzd_make_table, general form (any r, c, k; rows whose source row is beyond M are skipped like in
    C): no out-of-bounds access; only the words c/64 .. width-1 of rows 1 .. 2^k-1 of T change; every
    WRITTEN row is zero outside the columns [c, ncols) within those words; the end mask of the whole
    table is preserved; L maps ord[0 .. 2^k) into [0, 2^k) *)
Theorem C09b_make_table : forall hM hT r c k cb mem,
  valid hM mem -> valid hT mem -> h_width hM <= h_width hT -> 2 ^ k <= h_nrows hT -> c < h_ncols hM ->
  forall L, 2 ^ k <= length (fst cb) -> 2 ^ k - 1 <= length (snd cb) -> nth 0 (fst cb) 0%N = 0%N ->
  0 < length L -> (forall i, i < 2 ^ k -> N.to_nat (nth i (fst cb) 0%N) < length L) ->
  exists m' L', w_make_table cb hM r c k hT L mem = Ok (m', L') /\
    length m' = length mem /\ mem_ok m' /\ length L' = length L /\
    (forall p, (forall i j, 1 <= i < 2 ^ k -> c / 64 <= j < h_width hM -> p <> row_addr hT i + j) ->
               word_at m' p = word_at mem p) /\
    (forall i, 1 <= i < 2 ^ k -> r + nth (i - 1) (snd cb) 0 < h_nrows hM -> row_masked hM hT c i m') /\
    (tbl_end_masked hM hT mem -> tbl_end_masked hM hT m') /\
    (forall i, i < 2 ^ k -> nth (N.to_nat (nth i (fst cb) 0%N)) L' 0 < 2 ^ k).
Proof. exact w_make_table_ok. Qed.
Print Assumptions C09b_make_table.

(** [make_table_masked]: with a code book meeting [cb_ok] (the library's: Alg/GrayProofs.codebook_ok_all)
    and the k source rows inside M, EVERY row 1 .. 2^k-1 is masked, row 0 keeps its mask, nothing but T
    is written, and L maps [0, 2^k) into [0, 2^k) *)
Theorem C09b_make_table_masked : forall hM hT r c k cb mem L,
  valid hM mem -> valid hT mem -> h_width hM <= h_width hT -> 2 ^ k <= h_nrows hT -> c < h_ncols hM ->
  cb_ok k cb -> 2 ^ k <= length L -> r + k <= h_nrows hM ->
  exists m' L', w_make_table cb hM r c k hT L mem = Ok (m', L') /\
    length m' = length mem /\ mem_ok m' /\ length L' = length L /\
    (forall p, ~ wview hT p -> word_at m' p = word_at mem p) /\
    (forall i, 1 <= i < 2 ^ k -> row_masked hM hT c i m') /\
    (row_masked hM hT c 0 mem -> forall x, x < 2 ^ k -> row_masked hM hT c x m') /\
    (tbl_end_masked hM hT mem -> tbl_end_masked hM hT m') /\
    (forall v, v < 2 ^ k -> nth v L' 0 < 2 ^ k).
Proof. exact make_table_masked. Qed.
Print Assumptions C09b_make_table_masked.

Theorem C09b_codebook_ok : forall l, cb_ok l (build_code l).
Proof. exact codebook_ok_all. Qed.
Print Assumptions C09b_codebook_ok.

(** [process_rows_frame]: mzd_process_rows (one table) on a view, table rows masked to [c', ncols):
    only the columns [c', ncols) of the rows [startrow, stoprow) of the view change — nothing outside
    the view (bits sharing the last word included), no read-only operand, not the table *)
Theorem C09b_process_rows_frame : forall hM hT startrow stoprow startcol k c' L mem,
  valid hM mem -> valid hT mem -> wdisjoint hM hT -> h_width hM <= h_width hT -> 2 ^ k <= h_nrows hT ->
  1 <= k <= 64 -> startcol + k <= h_ncols hM -> stoprow <= h_nrows hM ->
  2 ^ k <= length L -> (forall v, v < 2 ^ k -> nth v L 0 < 2 ^ k) ->
  c' / 64 <= startcol / 64 -> (forall x, x < 2 ^ k -> row_masked hM hT c' x mem) ->
  exists m', w_process_rows hM startrow stoprow startcol k hT L mem = Ok m' /\
    length m' = length mem /\ mem_ok m' /\
    tch hM startrow stoprow c' (h_ncols hM) mem m' /\
    outside hM mem m' /\
    (forall hS, wdisjoint hM hS ->
       abs hS m' = abs hS mem /\ forall p, wview hS p -> word_at m' p = word_at mem p).
Proof. exact process_rows_frame. Qed.
Print Assumptions C09b_process_rows_frame.

(** the frame needs the END mask only (preserved by every mzd_make_table, established by calloc) *)
Theorem C09b_process_rows_frame_end : forall hM hT startrow stoprow startcol k L mem,
  valid hM mem -> valid hT mem -> wdisjoint hM hT -> h_width hM <= h_width hT -> 2 ^ k <= h_nrows hT ->
  1 <= k <= 64 -> startcol + k <= h_ncols hM -> stoprow <= h_nrows hM ->
  2 ^ k <= length L -> (forall v, v < 2 ^ k -> nth v L 0 < 2 ^ k) ->
  tbl_end_masked hM hT mem ->
  exists m', w_process_rows hM startrow stoprow startcol k hT L mem = Ok m' /\
    length m' = length mem /\ mem_ok m' /\ outside hM mem m' /\
    (forall hS, wdisjoint hM hS ->
       abs hS m' = abs hS mem /\ forall p, wview hS p -> word_at m' p = word_at mem p).
Proof. exact process_rows_frame_end. Qed.
Print Assumptions C09b_process_rows_frame_end.

(** one M4RI / M4RM step with one table on a view: mzd_make_table then mzd_process_rows *)
Theorem C09b_make_table_process_rows_frame : forall hM hT r c k cb startrow stoprow L mem,
  valid hM mem -> valid hT mem -> wdisjoint hM hT -> h_width hM <= h_width hT -> 2 ^ k <= h_nrows hT ->
  1 <= k <= 64 -> c + k <= h_ncols hM -> cb_ok k cb -> 2 ^ k <= length L -> r + k <= h_nrows hM ->
  stoprow <= h_nrows hM -> row_masked hM hT c 0 mem ->
  exists m1 L1 m2,
    w_make_table cb hM r c k hT L mem = Ok (m1, L1) /\
    w_process_rows hM startrow stoprow c k hT L1 m1 = Ok m2 /\
    length m2 = length mem /\ mem_ok m2 /\
    (forall x, x < 2 ^ k -> row_masked hM hT c x m1) /\
    (forall p b, b < 64 -> ~ wview hT p ->
       (forall i k0, startrow <= i < stoprow -> p = row_addr hM i + k0 -> c <= 64 * k0 + b ->
                     64 * k0 + b < h_ncols hM -> False) ->
       bit m2 p b = bit mem p b) /\
    (forall p b, b < 64 -> ~ in_view hM p b -> ~ wview hT p -> bit m2 p b = bit mem p b).
Proof. exact make_table_process_rows_frame. Qed.
Print Assumptions C09b_make_table_process_rows_frame.

(** non-vacuity: 4 x 70 window at word offset 1 (odd) of rows 1..4 of a 6 x 200 parent filled with a bit
    pattern, 4 x 70 table with stale rows 1..3, k = 2, c = 3, garbage L *)
Example C09b_table_nonvacuous :
  valid t_W t_mem /\ valid t_T t_mem /\ wdisjoint t_W t_T /\ h_width t_W <= h_width t_T /\
  2 ^ 2 <= h_nrows t_T /\ 1 <= 2 <= 64 /\ 3 + 2 <= h_ncols t_W /\ cb_ok 2 (build_code 2) /\
  2 ^ 2 <= length t_L /\ 0 + 2 <= h_nrows t_W /\ 4 <= h_nrows t_W /\ row_masked t_W t_T 3 0 t_mem /\
  h_windowed t_W = true /\ Nat.odd (h_off t_W) = true /\ padding_zerob t_W t_mem = false.
Proof. cbv zeta. ex_conj; try ex_close. apply codebook_ok_all. Qed.

(** and run: the two calls on that window; every bit outside the view and outside T is unchanged *)
Example C09b_table_runs : exists m1 L1 m2,
  w_make_table (build_code 2) t_W 0 3 2 t_T t_L t_mem = Ok (m1, L1) /\
  w_process_rows t_W 0 4 3 2 t_T L1 m1 = Ok m2 /\ L1 = [0; 1; 3; 2] /\ m2 <> t_mem /\
  forallb (fun p => forallb (fun b => in_viewb t_W p b || in_viewb t_T p 0 || Bool.eqb (bit m2 p b) (bit t_mem p b))
                            (seq 0 64)) (seq 0 (length t_mem)) = true.
Proof.
  eexists. eexists. eexists. split; [vm_compute; reflexivity|]. split; [vm_compute; reflexivity|].
  split; [reflexivity|]. split; [vm_compute; discriminate|vm_compute; reflexivity].
Qed.

(** the hypothesis is necessary: with the end mask of mzd_make_table dropped (seeded change
    C09-make-table-end-mask-dropped, modelled as [w_make_table_nomask]) the same two calls change a
    bit of the parent outside the window *)
Theorem C09b_make_table_nomask_clobbers : exists m1 L1 m2,
  w_make_table_nomask (build_code 2) t_W 0 3 2 t_T t_L t_mem = Ok (m1, L1) /\
  w_process_rows t_W 0 4 3 2 t_T L1 m1 = Ok m2 /\
  (exists p b, b < 64 /\ in_viewb t_W p b = false /\ in_viewb t_T p 0 = false /\ bit m2 p b <> bit t_mem p b).
Proof. exact make_table_nomask_clobbers. Qed.
Print Assumptions C09b_make_table_nomask_clobbers.
