(* Properties/Properties_C02c.v — property C02, NON-reduced mode (full = 0) of the routes other than
   naive Gauss: M4RI (_mzd_echelonize_m4ri / mzd_echelonize_m4ri), the PLUQ-based echelon form
   (mzd_echelonize_pluq), the density-switching hybrid (mzd_echelonize), and the completion of their
   results by mzd_top_echelonize_m4ri.  Statements only; proofs in Alg/M4RINonFull.v and
   Alg/EchelonPLUQNonFull.v.  Closes the two `_partial` statements of Properties_C02b.v
   (C02_m4ri_nonfull_partial, C02_pluq_nonfull_partial).

   Every route returns rank A and a row echelon form (strictly increasing pivot columns, zero rows
   last: [is_ref]) with the row space of A ([row_equiv]), for every k >= 1, every sequence of
   switching decisions, every PLE implementation meeting the C03 specification.  Moreover M4RI
   (any switching decisions) returns bit for bit the output of naive Gauss whenever the window
   echeloniser does; the PLUQ-based route does whenever the row permutation of the PLE obeys the
   "left-most column, first row" pivot rule (the specification [ple_spec] alone leaves P free, and the
   non-reduced form depends on it) — in particular for the naive PLE model; so the runnable hybrid
   returns bit for bit [gauss_delayed false 0 A]. *)
From Coq Require Import List NArith Arith Lia Bool Sorted.
From M4 Require Import Base.Bits Lin.Mat Lin.Ops Lin.Spec Lin.Span Lin.Echelon Alg.Gauss Alg.GaussProofs
                       Alg.GaussRef Alg.Gray Alg.PLE Alg.PLESpec Alg.PLEProofs3 Alg.TRSM Alg.M4RI Alg.M4RIProofs
                       Alg.M4RINonFull Alg.EchelonPLUQ Alg.EchelonPLUQNonFull.
Import ListNotations.
Local Open Scope nat_scope.

(** M4RI, non-reduced mode, any k >= 1, any switching oracle, any window echeloniser meeting the
    contract of mzd_echelonize_pluq(., 0) ([ech_nonfull_ok]: pivot count + a row echelon form
    row-equivalent to its argument) *)
Theorem C02_m4ri_nonfull : forall (ech : bool -> mat -> nat * mat) (k ktop : nat) (oracle : nat -> bool) (A : mat),
  1 <= k ->
  (forall W, wf W -> exists q, fst (ech false W) = length q /\ wf (snd (ech false W)) /\
                               row_equiv W (snd (ech false W)) /\ is_ref (snd (ech false W)) q) ->
  wf A ->
  exists M piv, m4ri_model ech k ktop oracle false A = Some (length piv, M) /\
                length piv = rank A /\ wf M /\ row_equiv A M /\ is_ref M piv.
Proof. exact m4ri_nonfull_spec. Qed.
Print Assumptions C02_m4ri_nonfull.

(** heuristic off: bit for bit the non-reduced output of naive Gauss (mzd_gauss_delayed(A, 0, 0)) *)
Theorem C02_m4ri_nonfull_canonical :
  forall (ech : bool -> mat -> nat * mat) (k ktop : nat) (oracle : nat -> bool) (A : mat),
  1 <= k -> (forall it, oracle it = false) -> wf A ->
  m4ri_model ech k ktop oracle false A = Some (gauss_delayed false 0 A).
Proof. exact m4ri_nonfull_canonical. Qed.
Print Assumptions C02_m4ri_nonfull_canonical.

(** mzd_echelonize_m4ri(A, 0, k) *)
Theorem C02_m4ri_run_nonfull : forall (k : nat) (A : mat), 1 <= k -> wf A ->
  m4ri_run k false A = Some (gauss_delayed false 0 A).
Proof. exact m4ri_run_nonfull_canonical. Qed.
Print Assumptions C02_m4ri_run_nonfull.

Theorem C02_m4ri_run_nonfull_ref : forall (k : nat) (A : mat), 1 <= k -> wf A ->
  exists M piv, m4ri_run k false A = Some (length piv, M) /\
                length piv = rank A /\ wf M /\ row_equiv A M /\ is_ref M piv.
Proof. exact m4ri_run_nonfull_spec. Qed.
Print Assumptions C02_m4ri_run_nonfull_ref.

(** one pass of the loop body re-establishes the invariant (echelon invariant + pivot rule + the
    triangular relations to the permuted input) *)
Theorem C02_m4ri_nonfull_step :
  forall (A : mat) (k : nat) (piv : list nat) (sw : list (nat * nat)) (pend : bool) (c : nat) (M : mat) (kk : nat),
  ninv A c M piv sw pend -> 1 <= kk -> c + kk <= nc M ->
  forall M3 kbar, block_step k false M (length piv) c kk = (M3, kbar) ->
  kbar <= kk /\ nc M3 = nc M /\
  exists sw', ninv A (if kbar =? kk then c + kbar else S (c + kbar)) M3 (piv ++ seq c kbar) sw' false.
Proof. exact block_nonfull_spec. Qed.
Print Assumptions C02_m4ri_nonfull_step.

(** mzd_echelonize_pluq(A, 0) from ANY PLE result meeting the C03 specification *)
Theorem C02_pluq_nonfull : forall (pluq ple : mat -> ple_out) (trsm : mat -> mat -> mat) (A : mat),
  wf A -> ple_spec A (ple A) ->
  let '(r, E) := echelon_pluq pluq ple trsm false A in
  exists piv, r = length piv /\ r = rank A /\ wf E /\ row_equiv A E /\ is_ref E piv.
Proof. exact echelon_pluq_nonfull_ref. Qed.
Print Assumptions C02_pluq_nonfull.

(** ... with the pivot columns: the first r entries of Q *)
Theorem C02_pluq_nonfull_pivots : forall (pluq ple : mat -> ple_out) (trsm : mat -> mat -> mat) (A : mat),
  wf A -> ple_spec A (ple A) ->
  let '(r, E) := echelon_pluq pluq ple trsm false A in
  exists Q, r = rank A /\ wf E /\ nr E = nr A /\ nc E = nc A /\ row_equiv A E /\
            is_ref E (firstn r Q) /\ length (firstn r Q) = r.
Proof. exact echelon_pluq_nonfull_spec. Qed.
Print Assumptions C02_pluq_nonfull_pivots.

(** ... and bit for bit the output of naive Gauss when the row interchanges P obey the pivot rule *)
Theorem C02_pluq_nonfull_canonical :
  forall (pluq ple : mat -> ple_out) (trsm : mat -> mat -> mat) (A : mat) (r : nat) (A' : mat)
         (P Q : list nat) (sw : list (nat * nat)),
  wf A -> ple A = ((r, A'), (P, Q)) -> ple_spec A ((r, A'), (P, Q)) ->
  first_row_rule A sw -> apply_swaps sw A = apply_p_left A P ->
  echelon_pluq pluq ple trsm false A = gauss_delayed false 0 A.
Proof. exact echelon_pluq_nonfull_canonical. Qed.
Print Assumptions C02_pluq_nonfull_canonical.

(** the runnable instance (naive PLE of Alg/PLE.v) *)
Theorem C02_pluq_run_nonfull : forall A : mat, wf A ->
  let '(r, E) := echelon_pluq_run false A in
  exists piv, r = length piv /\ r = rank A /\ wf E /\ row_equiv A E /\ is_ref E piv.
Proof. exact echelon_pluq_run_nonfull_ref. Qed.
Print Assumptions C02_pluq_run_nonfull.

(** the hybrid mzd_echelonize(A, 0): M4RI with any switching decisions + PLUQ on the window *)
Theorem C02_hybrid_nonfull : forall (pluq ple : mat -> ple_out) (trsm : mat -> mat -> mat) (k ktop : nat)
                                    (oracle : nat -> bool) (A : mat),
  1 <= k -> (forall W, wf W -> ple_spec W (ple W)) -> wf A ->
  exists M piv, mzd_echelonize_model pluq ple trsm k ktop oracle false A = Some (length piv, M) /\
                length piv = rank A /\ wf M /\ row_equiv A M /\ is_ref M piv.
Proof. exact mzd_echelonize_nonfull_spec. Qed.
Print Assumptions C02_hybrid_nonfull.

Theorem C02_hybrid_run_nonfull : forall (k ktop : nat) (oracle : nat -> bool) (A : mat), 1 <= k -> wf A ->
  exists M piv, hybrid_run k ktop oracle false A = Some (length piv, M) /\
                length piv = rank A /\ wf M /\ row_equiv A M /\ is_ref M piv.
Proof. exact hybrid_run_nonfull_spec. Qed.
Print Assumptions C02_hybrid_run_nonfull.

(** all routes, non-reduced mode: rank A, a row echelon form with the row space of A, and
    mzd_top_echelonize_m4ri(., ktop') completes it to THE reduced row echelon form of A *)
Theorem C02_nonfull_routes : forall (pluq ple : mat -> ple_out) (trsm : mat -> mat -> mat) (k ktop ktop' : nat)
                                    (oracle : nat -> bool) (A : mat),
  1 <= k -> 1 <= ktop' -> (forall W, wf W -> ple_spec W (ple W)) -> wf A ->
  let ok (res : nat * mat) :=
    fst res = rank A /\
    exists piv, length piv = fst res /\ wf (snd res) /\ is_ref (snd res) piv /\ row_equiv A (snd res) /\
                top_run ktop' (snd res) = Some (rref A) in
  ok (gauss_delayed false 0 A) /\
  m4ri_run k false A = Some (gauss_delayed false 0 A) /\
  ok (echelon_pluq pluq ple trsm false A) /\
  (exists res, mzd_echelonize_model pluq ple trsm k ktop oracle false A = Some res /\ ok res).
Proof. exact nonfull_routes_agree. Qed.
Print Assumptions C02_nonfull_routes.

(** ANY switching decisions: bit for bit naive Gauss as soon as the window echeloniser returns the
    non-reduced output of naive Gauss on the window *)
Theorem C02_m4ri_nonfull_canonical_any :
  forall (ech : bool -> mat -> nat * mat) (k ktop : nat) (oracle : nat -> bool) (A : mat),
  1 <= k -> (forall W, wf W -> ech false W = gauss_delayed false 0 W) -> wf A ->
  m4ri_model ech k ktop oracle false A = Some (gauss_delayed false 0 A).
Proof. exact m4ri_nonfull_canonical_any. Qed.
Print Assumptions C02_m4ri_nonfull_canonical_any.

(** the naive PLE (_mzd_ple_naive) makes the row interchanges of naive Gauss *)
Theorem C02_ple_naive_rule : forall (A : mat) (P0 Q0 : list nat),
  wf A -> length P0 = nr A -> length Q0 = nc A ->
  let '((r, A'), (P, Q)) := ple_naive A P0 Q0 in
  exists sw, first_row_rule A sw /\ apply_swaps sw A = apply_p_left A P.
Proof. exact ple_naive_rule. Qed.
Print Assumptions C02_ple_naive_rule.

(** mzd_echelonize_pluq(A, 0) over the naive PLE: bit for bit naive Gauss *)
Theorem C02_pluq_run_nonfull_canonical : forall A : mat, wf A ->
  echelon_pluq_run false A = gauss_delayed false 0 A.
Proof. exact echelon_pluq_run_nonfull_canonical. Qed.
Print Assumptions C02_pluq_run_nonfull_canonical.

(** the runnable hybrid, any switching decisions: bit for bit naive Gauss *)
Theorem C02_hybrid_run_nonfull_canonical : forall (k ktop : nat) (oracle : nat -> bool) (A : mat),
  1 <= k -> wf A -> hybrid_run k ktop oracle false A = Some (gauss_delayed false 0 A).
Proof. exact hybrid_run_nonfull_canonical. Qed.
Print Assumptions C02_hybrid_run_nonfull_canonical.

(** the hybrid over ANY PLE meeting the C03 specification whose interchanges obey the pivot rule *)
Theorem C02_hybrid_nonfull_canonical :
  forall (pluq ple : mat -> ple_out) (trsm : mat -> mat -> mat) (k ktop : nat) (oracle : nat -> bool) (A : mat),
  1 <= k ->
  (forall W, wf W -> ple_spec W (ple W) /\
     exists sw, first_row_rule W sw /\ apply_swaps sw W = apply_p_left W (fst (snd (ple W)))) ->
  wf A ->
  mzd_echelonize_model pluq ple trsm k ktop oracle false A = Some (gauss_delayed false 0 A).
Proof. exact mzd_echelonize_nonfull_canonical. Qed.
Print Assumptions C02_hybrid_nonfull_canonical.

(** * Non-vacuity *)
(** the hypotheses of C02_m4ri_nonfull / C02_hybrid_nonfull / C02_pluq_nonfull are satisfiable: the
    naive PLE meets the C03 specification on every well-formed matrix, hence the PLUQ-based window
    echeloniser meets its contract; so does naive Gauss *)
Example C02c_ple_hyp : forall W, wf W ->
  ple_spec W ((fun A => ple_naive A (seq 0 (nr A)) (seq 0 (nc A))) W).
Proof. intros W HW. apply ple_naive_spec; [assumption|apply seq_length..]. Qed.

Example C02c_ech_hyp :
  (forall W, wf W -> exists q, fst (echelon_pluq_run false W) = length q /\ wf (snd (echelon_pluq_run false W)) /\
                               row_equiv W (snd (echelon_pluq_run false W)) /\
                               is_ref (snd (echelon_pluq_run false W)) q) /\
  (forall W, wf W -> exists q, fst (gauss_delayed false 0 W) = length q /\ wf (snd (gauss_delayed false 0 W)) /\
                               row_equiv W (snd (gauss_delayed false 0 W)) /\
                               is_ref (snd (gauss_delayed false 0 W)) q).
Proof.
  split.
  - unfold echelon_pluq_run. apply ech_nonfull_ok_pluq. exact C02c_ple_hyp.
  - intros W HW. exact (gauss_spec_ex false W HW).
Qed.

(** the hypothesis of C02_m4ri_nonfull_canonical_any holds of the PLUQ-based echeloniser over the naive
    PLE (and trivially of naive Gauss itself); the hypothesis of C02_hybrid_nonfull_canonical holds of
    the naive PLE *)
Example C02c_canonical_any_hyp :
  (forall W, wf W -> echelon_pluq_run false W = gauss_delayed false 0 W) /\
  (forall W, wf W -> (fun f W => gauss_delayed f 0 W) false W = gauss_delayed false 0 W) /\
  (forall W, wf W ->
     let ple := fun A => ple_naive A (seq 0 (nr A)) (seq 0 (nc A)) in
     ple_spec W (ple W) /\
     exists sw, first_row_rule W sw /\ apply_swaps sw W = apply_p_left W (fst (snd (ple W)))).
Proof.
  split; [exact echelon_pluq_run_nonfull_canonical|]. split; [reflexivity|].
  intros W HW. cbv zeta. split; [now apply C02c_ple_hyp|].
  pose proof (ple_naive_rule W (seq 0 (nr W)) (seq 0 (nc W)) HW (seq_length _ _) (seq_length _ _)) as H.
  destruct (ple_naive W (seq 0 (nr W)) (seq 0 (nc W))) as [[r A'] [P Q]]. exact H.
Qed.

(** the hypotheses of C02_pluq_nonfull_canonical are satisfiable: 2 x 3 of rank 1 with a dependent
    second row; the only interchange is (0, 0) *)
Definition exD : mat := mk 2 3 [3; 3]%N.
Example C02c_canonical_hyp :
  exists r A' P Q sw, wf exD /\ ple_naive exD (seq 0 (nr exD)) (seq 0 (nc exD)) = ((r, A'), (P, Q)) /\
    ple_spec exD ((r, A'), (P, Q)) /\ first_row_rule exD sw /\ apply_swaps sw exD = apply_p_left exD P /\
    echelon_pluq_run false exD = gauss_delayed false 0 exD.
Proof.
  assert (HA : wf exD) by now apply wfb_spec.
  destruct (ple_naive exD (seq 0 (nr exD)) (seq 0 (nc exD))) as [[r A'] [P Q]] eqn:E.
  exists r, A', P, Q, [(0, 0)]. split; [assumption|]. split; [reflexivity|]. split; [|split; [|split]].
  - rewrite <- E. now apply C02c_ple_hyp.
  - split.
    + intros k Hk. cbn [length] in Hk. assert (k = 0) as -> by lia.
      split; [reflexivity|]. split; [change (0 <= 0 < 2); lia|]. exists 0. split; [|split].
      * intros [x [Hx H]]. specialize (H 0 (le_n 0)).
        rewrite vmul_all_false in H by (intros j; apply Hx; lia). discriminate H.
      * intros j' Hj'. cbn [nth snd] in Hj'. lia.
      * intros c' j' Hc'. lia.
    + intros j c Hj. cbn [length] in Hj |- *.
      destruct (Nat.eq_dec j 1) as [->|Hne].
      * exists 1%N. split; [intros b Hb; destruct b as [|b]; [lia|reflexivity]|]. intros col _. reflexivity.
      * exists 0%N. split; [apply bounded_0|]. intros col _. rewrite vmul_0.
        unfold row. rewrite nth_overflow; [reflexivity|]. cbn. lia.
  - revert E. vm_compute. intros E. injection E as <- <- <- <-. reflexivity.
  - vm_compute. reflexivity.
Qed.

(** concrete runs: 4 x 6 of rank 3 with pivot gaps; 5 x 70 across the word border; every route returns
    the same non-reduced form here, and the top reduction completes it to rref *)
Definition exC : mat := mk 4 6 [45; 53; 13; 0]%N.
Example C02c_runs :
  wf exC /\
  gauss_delayed false 0 exC = (3, mk 4 6 [45; 24; 32; 0]%N) /\
  m4ri_run 1 false exC = Some (3, mk 4 6 [45; 24; 32; 0]%N) /\
  m4ri_run 3 false exC = Some (3, mk 4 6 [45; 24; 32; 0]%N) /\
  echelon_pluq_run false exC = (3, mk 4 6 [45; 24; 32; 0]%N) /\
  hybrid_run 1 1 (fun it => it =? 1) false exC = Some (3, mk 4 6 [45; 24; 32; 0]%N) /\
  hybrid_run 2 1 (fun it => it =? 0) false exC = Some (3, mk 4 6 [45; 24; 32; 0]%N) /\
  top_run 2 (mk 4 6 [45; 24; 32; 0]%N) = Some (rref exC) /\
  rref exC = mk 4 6 [21; 24; 32; 0]%N /\ rank exC = 3.
Proof. split; [now apply wfb_spec|]. vm_compute. repeat split. Qed.
