(* Properties/Properties_C09.v — C09 "Views: operations on a window read and write only the viewed
   block".  Statements only ([exact] of theorems proven in Word/), Print Assumptions after each
   (expected: Closed under the global context), non-vacuity Examples, and the [_refuted] witnesses.

   Every writer theorem of Properties_C08.v already carries the frame in [kernel_post] (outside hdst mem
   m' — every bit of the allocation that is not an entry of the destination view, including the bits
   sharing its last word, is unchanged — and disjoint operands unchanged word for word) for ALL valid
   headers, windows at any row offset / word offset (odd or even) / width included, and ALL parent
   contents.  This file adds: the generic composition and window lemmas, the remaining kernels
   (bits, bit ranges, row / column operations, row combination), the observers, and the witnesses that
   the PINNED kernels (and three surviving defects) violate the property.
   The algorithm-level routines (M4RM, Strassen, PLE, TRSM, echelon) are not re-proved at word level:
   partial by proof, decided by the correspondence run (DESIGN C09). *)
From Coq Require Import List NArith Arith Lia Bool.
From M4 Require Import Base.Bits Lin.Mat Lin.Ops Lin.OpsProofs Word.WMat Word.WOps Word.WMatLemmas
  Word.WRefine Word.WRefine2 Word.WRefine7 Word.WRefine8 Word.WRefine9 Word.WRefine10
  Word.WRefine12 Word.WRefine13 Word.WRefineViews Word.WRefineRefuted.
Import ListNotations.
Local Open Scope nat_scope.

Ltac ex_conj := repeat match goal with |- _ /\ _ => split end.
Ltac ex_close :=
  first [ exact ex_valid_wR | exact ex_valid_wP | exact ex_valid_wQ | exact ex_valid_P
        | exact ex_disj_R_P | exact ex_disj_R_Q | exact ex_disj_R_bigP
        | (left; reflexivity) | (right; exact ex_disj_R_P) | (right; exact ex_disj_R_Q)
        | (apply ex_valid; vm_compute; reflexivity) | (split; reflexivity)
        | (vm_compute; reflexivity) | (vm_compute; lia) | (vm_compute; discriminate) ].

(** ** generic lemmas *)
(** frame_compose: any composition of frame-preserving steps on the same view is frame-preserving *)
Theorem C09_frame_compose : forall h m1 m2 m3, outside h m1 m2 -> outside h m2 m3 -> outside h m1 m3.
Proof. exact frame_compose. Qed.
Print Assumptions C09_frame_compose.

(** a window denotes the sub-block; a frame-preserving step through the window = paste of the new
    block into the old parent, and nothing else of the parent changes *)
Theorem C09_window_standalone : forall h lowr lowc highr highc m m',
  hdr_ok h -> lowc mod 64 = 0 -> lowc <= highc -> highc <= h_ncols h -> lowr <= h_nrows h ->
  let w := window_hdr h lowr lowc highr highc in
  outside w m m' ->
  abs w m = msub (abs h m) lowr lowc (Nat.min (highr - lowr) (h_nrows h - lowr)) (highc - lowc) /\
  abs h m' = mpaste (abs h m) lowr lowc (abs w m') /\
  outside h m m'.
Proof. exact window_standalone. Qed.
Print Assumptions C09_window_standalone.

(** read-only operands that share no word with the destination are bit-for-bit unchanged *)
Theorem C09_sources_unchanged : forall hd hs m m', hdr_ok hd -> mem_ok m -> mem_ok m' ->
  outside hd m m' -> wdisjoint hd hs ->
  (forall p, wview hs p -> word_at m' p = word_at m p) /\ abs hs m' = abs hs m.
Proof. exact outside_source_unchanged. Qed.
Print Assumptions C09_sources_unchanged.

(** window headers of valid parents are valid (any row offset, any word offset) *)
Theorem C09_window_valid : forall h lowr lowc highr highc mem, valid h mem ->
  lowc mod 64 = 0 -> highc <= h_ncols h -> lowr <= h_nrows h ->
  valid (window_hdr h lowr lowc highr highc) mem.
Proof. exact window_valid. Qed.
Print Assumptions C09_window_valid.

(** ** single bits and bit ranges *)
Theorem C09_read_bit : forall h mem i j, valid h mem -> i < h_nrows h -> j < h_ncols h ->
  w_read_bit h i j mem = Ok (get (abs h mem) i j).
Proof. exact w_read_bit_ok. Qed.
Print Assumptions C09_read_bit.

Theorem C09_write_bit : forall h mem i j v, valid h mem -> i < h_nrows h -> j < h_ncols h ->
  exists m', w_write_bit h i j v mem = Ok m' /\ kernel_post h mem (write_bit (abs h mem) i j v) m'.
Proof. exact w_write_bit_full. Qed.
Print Assumptions C09_write_bit.

Theorem C09_read_bits : forall h mem x y n, valid h mem -> x < h_nrows h -> 1 <= n <= 64 -> y + n <= h_ncols h ->
  w_read_bits h x y n mem = Ok (read_bits (abs h mem) x y n).
Proof. exact w_read_bits_ok. Qed.
Print Assumptions C09_read_bits.

Theorem C09_xor_bits : forall h mem x y n values, valid h mem -> x < h_nrows h -> 1 <= n <= 64 ->
  y + n <= h_ncols h -> bounded n values ->
  exists m', w_xor_bits h x y n values mem = Ok m' /\ kernel_post h mem (xor_bits (abs h mem) x y n values) m'.
Proof. exact w_xor_bits_full. Qed.
Print Assumptions C09_xor_bits.

Theorem C09_clear_bits : forall h mem x y n, valid h mem -> x < h_nrows h -> 1 <= n <= 64 -> y + n <= h_ncols h ->
  exists m', w_clear_bits h x y n mem = Ok m' /\ kernel_post h mem (clear_bits (abs h mem) x y n) m'.
Proof. exact w_clear_bits_full. Qed.
Print Assumptions C09_clear_bits.

(** ** row and column operations *)
Theorem C09_row_swap : forall h mem a b, valid h mem -> a < h_nrows h -> b < h_nrows h ->
  exists m', w_row_swap h a b 0 mem = Ok m' /\ kernel_post h mem (row_swap (abs h mem) a b) m'.
Proof. exact w_row_swap_full. Qed.
Print Assumptions C09_row_swap.

(** _mzd_row_swap from an arbitrary start block: columns >= 64 * startblock are exchanged *)
Theorem C09_row_swap_startblock : forall h mem a b sb, valid h mem -> a < h_nrows h -> b < h_nrows h ->
  exists m', w_row_swap h a b sb mem = Ok m' /\ length m' = length mem /\ mem_ok m' /\
    outside h mem m' /\
    forall i j, N.testbit (rowval h m' i) (N.of_nat j) =
      if 64 * sb <=? j then N.testbit (rowval h mem (transp a b i)) (N.of_nat j)
      else N.testbit (rowval h mem i) (N.of_nat j).
Proof. exact w_row_swap_ok. Qed.
Print Assumptions C09_row_swap_startblock.

Theorem C09_row_add_offset : forall h mem dst src co,
  valid h mem -> dst < h_nrows h -> src < h_nrows h -> dst <> src -> co < h_ncols h ->
  exists m', w_row_add_offset h dst src co mem = Ok m' /\
             kernel_post h mem (row_add_offset (abs h mem) dst src co) m'.
Proof. exact w_row_add_offset_full. Qed.
Print Assumptions C09_row_add_offset.

(** repaired mzd_row_clear_offset ([w_row_clear_offset_fixed2] = behaviour of the C code now in /repo) *)
Theorem C09_row_clear_offset : forall h mem r co, valid h mem -> r < h_nrows h -> co < h_ncols h ->
  exists m', w_row_clear_offset_fixed2 h r co mem = Ok m' /\
             kernel_post h mem (row_clear_offset (abs h mem) r co) m'.
Proof. exact w_row_clear_offset_fixed2_full. Qed.
Print Assumptions C09_row_clear_offset.

Theorem C09_col_swap_in_rows : forall h mem cola colb r0 r1,
  valid h mem -> cola < h_ncols h -> colb < h_ncols h -> r0 <= r1 -> r1 <= h_nrows h ->
  exists m', w_col_swap_in_rows h cola colb r0 r1 mem = Ok m' /\
             kernel_post h mem (col_swap_in_rows (abs h mem) cola colb r0 r1) m'.
Proof. exact w_col_swap_in_rows_full. Qed.
Print Assumptions C09_col_swap_in_rows.

(** ** row combination (the XOR kernel under every elimination / multiplication routine):
    row-level frame [touched] = only bits of columns [64*sb, ncols) of row c of C may change *)
Theorem C09_combine_even : forall hC c hA a hB b sb mem,
  valid hC mem -> valid hA mem -> valid hB mem ->
  h_ncols hA = h_ncols hC -> h_ncols hB = h_ncols hC ->
  c < h_nrows hC -> a < h_nrows hA -> b < h_nrows hB -> sb < h_width hC ->
  row_alias hC c hA a -> row_alias hC c hB b ->
  exists m', w_combine_even hC c sb hA a sb hB b sb mem = Ok m' /\ length m' = length mem /\ mem_ok m' /\
    touched hC c (64 * sb) (h_ncols hC) mem m' /\
    forall j, N.testbit (rowval hC m' c) (N.of_nat j) =
      if 64 * sb <=? j then xorb (N.testbit (rowval hA mem a) (N.of_nat j)) (N.testbit (rowval hB mem b) (N.of_nat j))
      else N.testbit (rowval hC mem c) (N.of_nat j).
Proof. exact w_combine_even_ok. Qed.
Print Assumptions C09_combine_even.

Theorem C09_combine : forall hC c hA a hB b sb mem,
  valid hC mem -> valid hA mem -> valid hB mem ->
  h_ncols hA = h_ncols hC -> h_ncols hB = h_ncols hC ->
  c < h_nrows hC -> a < h_nrows hA -> b < h_nrows hB -> sb < h_width hC ->
  row_alias hC c hA a -> row_alias hC c hB b ->
  exists m', w_combine hC c sb hA a sb hB b sb mem = Ok m' /\ length m' = length mem /\ mem_ok m' /\
    touched hC c (64 * sb) (h_ncols hC) mem m' /\
    forall j, N.testbit (rowval hC m' c) (N.of_nat j) =
      if 64 * sb <=? j then xorb (N.testbit (rowval hA mem a) (N.of_nat j)) (N.testbit (rowval hB mem b) (N.of_nat j))
      else N.testbit (rowval hC mem c) (N.of_nat j).
Proof. exact w_combine_ok. Qed.
Print Assumptions C09_combine.

Theorem C09_combine_even_in_place : forall hA a hB b sb mem,
  valid hA mem -> valid hB mem -> h_ncols hB = h_ncols hA ->
  a < h_nrows hA -> b < h_nrows hB -> sb < h_width hA -> row_alias hA a hB b ->
  exists m', w_combine_even_in_place hA a sb hB b sb mem = Ok m' /\ length m' = length mem /\ mem_ok m' /\
    touched hA a (64 * sb) (h_ncols hA) mem m' /\
    forall j, N.testbit (rowval hA m' a) (N.of_nat j) =
      if 64 * sb <=? j then xorb (N.testbit (rowval hA mem a) (N.of_nat j)) (N.testbit (rowval hB mem b) (N.of_nat j))
      else N.testbit (rowval hA mem a) (N.of_nat j).
Proof. exact w_combine_even_in_place_ok. Qed.
Print Assumptions C09_combine_even_in_place.

(** the row-level frame implies the frame of the view *)
Theorem C09_touched_outside : forall h i c0 c1 m m', i < h_nrows h -> c1 <= h_ncols h ->
  touched h i c0 c1 m m' -> outside h m m'.
Proof. exact touched_outside. Qed.
Print Assumptions C09_touched_outside.

(** ** observers: the answer is the abstract observer of the viewed blocks, for arbitrary excess bits *)
Theorem C09_equal : forall hA hB mem, valid hA mem -> valid hB mem -> 0 < h_ncols hA ->
  w_equal hA hB mem = Ok (mequal (abs hA mem) (abs hB mem)).
Proof. exact w_equal_ok. Qed.
Theorem C09_cmp : forall hA hB mem, valid hA mem -> valid hB mem -> 0 < h_ncols hA ->
  w_cmp hA hB mem = Ok (mcmp (abs hA mem) (abs hB mem)).
Proof. exact w_cmp_ok. Qed.
Theorem C09_is_zero : forall hA mem, valid hA mem -> 0 < h_ncols hA ->
  w_is_zero hA mem = Ok (is_zero (abs hA mem)).
Proof. exact w_is_zero_ok. Qed.
Theorem C09_first_zero_row : forall hA mem, valid hA mem -> 0 < h_ncols hA ->
  w_first_zero_row_fixed hA mem = Ok (first_zero_row (abs hA mem)).
Proof. exact w_first_zero_row_fixed_ok. Qed.
Print Assumptions C09_equal.
Print Assumptions C09_cmp.
Print Assumptions C09_is_zero.
Print Assumptions C09_first_zero_row.

(** mzd_find_pivot (four paths, m4ri_lesser_LSB, early breaks): no hypothesis on r0, c0 *)
Theorem C09_find_pivot : forall hA mem r0 c0, valid hA mem ->
  w_find_pivot hA r0 c0 mem = Ok (find_pivot (abs hA mem) r0 c0).
Proof. exact w_find_pivot_ok. Qed.
Print Assumptions C09_find_pivot.

Theorem C09_find_pivot_view_only : forall hA mem1 mem2 r0 c0, valid hA mem1 -> valid hA mem2 ->
  abs hA mem1 = abs hA mem2 -> w_find_pivot hA r0 c0 mem1 = w_find_pivot hA r0 c0 mem2.
Proof. exact find_pivot_view_only. Qed.
Print Assumptions C09_find_pivot_view_only.

(** hence: same view contents => same answers, whatever surrounds the views *)
Theorem C09_observers_view_only : forall hA hB mem1 mem2,
  valid hA mem1 -> valid hB mem1 -> valid hA mem2 -> valid hB mem2 -> 0 < h_ncols hA ->
  abs hA mem1 = abs hA mem2 -> abs hB mem1 = abs hB mem2 ->
  w_equal hA hB mem1 = w_equal hA hB mem2 /\ w_cmp hA hB mem1 = w_cmp hA hB mem2 /\
  w_is_zero hA mem1 = w_is_zero hA mem2 /\
  w_first_zero_row_fixed hA mem1 = w_first_zero_row_fixed hA mem2.
Proof. exact observers_view_only. Qed.
Print Assumptions C09_observers_view_only.

(** ** showcases on parents *)
Theorem C09_add_on_windows : forall hP hQ lowr lowc highr highc mem,
  valid hP mem -> valid hQ mem -> lowc mod 64 = 0 -> lowc < highc ->
  highc <= h_ncols hP -> highc <= h_ncols hQ -> lowr <= h_nrows hP -> h_nrows hQ = h_nrows hP ->
  wdisjoint hP hQ ->
  let wP := window_hdr hP lowr lowc highr highc in
  let wQ := window_hdr hQ lowr lowc highr highc in
  let r := Nat.min (highr - lowr) (h_nrows hP - lowr) in
  exists m', w_mzd_add wP wP wQ mem = Ok m' /\
    abs hP m' = mpaste (abs hP mem) lowr lowc
                  (madd (msub (abs hP mem) lowr lowc r (highc - lowc)) (msub (abs hQ mem) lowr lowc r (highc - lowc))) /\
    outside hP mem m' /\ abs hQ m' = abs hQ mem.
Proof. exact w_mzd_add_on_windows. Qed.
Print Assumptions C09_add_on_windows.

Theorem C09_add_view_only : forall hC hA hB mem1 mem2 m1 m2,
  valid hC mem1 -> valid hA mem1 -> valid hB mem1 -> valid hC mem2 -> valid hA mem2 -> valid hB mem2 ->
  0 < h_ncols hC -> same_dims hA hC -> same_dims hB hC -> alias_ok hC hA -> alias_ok hC hB ->
  abs hA mem1 = abs hA mem2 -> abs hB mem1 = abs hB mem2 ->
  w_mzd_add hC hA hB mem1 = Ok m1 -> w_mzd_add hC hA hB mem2 = Ok m2 -> abs hC m1 = abs hC m2.
Proof. exact add_view_only. Qed.
Print Assumptions C09_add_view_only.

(** non-vacuity: a 2 x 36 window at word offset 5 (odd) of a 4 x 130 parent full of ones and zeros,
    with foreign bits in its last word; row / column / bit-range arguments in range *)
Example C09_nonvacuous :
  valid ex_wP ex_mem /\ h_windowed ex_wP = true /\ Nat.odd (h_off ex_wP) = true /\
  padding_zerob ex_wP ex_mem = false /\ hdr_ok ex_wP /\
  0 < h_nrows ex_wP /\ 1 < h_nrows ex_wP /\ 0 <> 1 /\ 5 < h_ncols ex_wP /\ 3 + 20 <= h_ncols ex_wP /\
  ex_wP = window_hdr ex_P 1 64 3 100 /\ valid ex_P ex_mem /\ 64 mod 64 = 0 /\ 100 <= h_ncols ex_P /\
  1 <= h_nrows ex_P /\ wdisjoint ex_wR ex_wP /\ row_alias ex_wR 0 ex_wP 0 /\ row_alias ex_wP 0 ex_wP 0.
Proof.
  ex_conj; try ex_close.
  all: first [ (apply hdr_okb_spec; vm_compute; reflexivity) | (left; split; reflexivity)
             | (apply alias_row_alias; [right; exact ex_disj_R_P|apply ex_valid_wR|apply ex_valid_wP|vm_compute; lia..]) ].
Qed.

(** ** the pinned kernels violate C09 (witnesses by computation) *)
Theorem C09_concat_pinned_refuted : exists hC hA hB mem m',
  valid hC mem /\ valid hA mem /\ valid hB mem /\ wdisjoint hC hA /\ wdisjoint hC hB /\
  w_concat hC hA hB mem = Ok m' /\ ~ outside hC mem m'.
Proof. exact w_concat_frame_refuted. Qed.
Theorem C09_stack_pinned_refuted : exists hC hA hB mem m',
  valid hC mem /\ valid hA mem /\ valid hB mem /\ wdisjoint hC hA /\ wdisjoint hC hB /\
  w_stack hC hA hB mem = Ok m' /\ ~ outside hC mem m'.
Proof. exact w_stack_frame_refuted. Qed.
Theorem C09_submatrix_pinned_refuted : exists hS hM sr sc er ec mem m',
  valid hS mem /\ valid hM mem /\ wdisjoint hS hM /\ h_nrows hS = er - sr /\ h_ncols hS = ec - sc /\
  w_submatrix hS hM sr sc er ec mem = Ok m' /\ ~ outside hS mem m'.
Proof. exact w_submatrix_frame_refuted. Qed.
Theorem C09_first_zero_row_pinned_refuted : exists hA mem r,
  valid hA mem /\ w_first_zero_row hA mem = Ok r /\ r <> first_zero_row (abs hA mem).
Proof. exact w_first_zero_row_refuted. Qed.
Theorem C09_row_clear_offset_pinned_refuted : exists h mem r co m',
  valid h mem /\ owned h = true /\ r < h_nrows h /\ co < h_ncols h /\
  w_row_clear_offset h r co mem = Ok m' /\ abs h m' <> row_clear_offset (abs h mem) r co.
Proof. exact w_row_clear_offset_refuted. Qed.
Print Assumptions C09_concat_pinned_refuted.
Print Assumptions C09_stack_pinned_refuted.
Print Assumptions C09_submatrix_pinned_refuted.
Print Assumptions C09_first_zero_row_pinned_refuted.
Print Assumptions C09_row_clear_offset_pinned_refuted.

(** ** defects of the C code that survive the repairs (findings) *)
(** mzd_extract_l on a supplied window clears the parent's bits beyond the window's last column *)
Theorem C09_extract_l_frame_refuted : exists hL hA mem m',
  valid hL mem /\ valid hA mem /\ wdisjoint hL hA /\
  h_nrows hL = Nat.min (h_nrows hA) (h_ncols hA) /\ h_ncols hL = Nat.min (h_nrows hA) (h_ncols hA) /\
  w_extract_l_fx hL hA mem = Ok m' /\ ~ outside hL mem m'.
Proof. exact w_extract_l_frame_refuted. Qed.
(** mzd_row_add_offset(M, r, r, c) on a window clears the foreign bits of the last word *)
Theorem C09_row_add_offset_same_row_refuted : exists h mem r co m',
  valid h mem /\ r < h_nrows h /\ co < h_ncols h /\
  w_row_add_offset h r r co mem = Ok m' /\ ~ outside h mem m'.
Proof. exact w_row_add_offset_same_row_frame_refuted. Qed.
(** unaligned mzd_submatrix into a destination wider than the block clears columns right of the block *)
Theorem C09_submatrix_unaligned_wider_refuted : exists hS hM sr sc er ec mem m',
  valid hS mem /\ valid hM mem /\ wdisjoint hS hM /\
  er - sr <= h_nrows hS /\ ec - sc <= h_ncols hS /\ sc mod 64 <> 0 /\
  w_submatrix_fixed hS hM sr sc er ec mem = Ok m' /\
  abs hS m' <> msub_into (abs hS mem) (msub (abs hM mem) sr sc (er - sr) (ec - sc)).
Proof. exact w_submatrix_unaligned_wider_refuted. Qed.
(** the intermediate repair [w_row_clear_offset_fixed] (whole-word zero stores) is not enough on windows *)
Theorem C09_row_clear_offset_fixed_refuted : exists h mem r co m',
  valid h mem /\ r < h_nrows h /\ co < h_ncols h /\
  w_row_clear_offset_fixed h r co mem = Ok m' /\ ~ outside h mem m'.
Proof. exact w_row_clear_offset_fixed_frame_refuted. Qed.
Print Assumptions C09_extract_l_frame_refuted.
Print Assumptions C09_row_add_offset_same_row_refuted.
Print Assumptions C09_submatrix_unaligned_wider_refuted.
Print Assumptions C09_row_clear_offset_fixed_refuted.
