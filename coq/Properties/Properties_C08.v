(* Properties/Properties_C08.v — C08 "Addition and data movement are exact".
   Statements only ([exact] of theorems proven in Word/WRefine*.v and Lin/), each followed by
   Print Assumptions (expected: Closed under the global context), plus non-vacuity Examples with
   windowed headers at an odd word offset inside a non-zero allocation (Word/WRefineRefuted.v).

   Vocabulary (Word/WMat.v, Word/WRefineViews.v): [abs h mem] the block viewed by header h as a matrix
   of Lin/Mat.v; [valid h mem] = hdr_ok h /\ all row words inside the allocation /\ words < 2^64;
   [kernel_post h mem M m'] = length m' = length mem /\ mem_ok m' /\ abs h m' = M /\ outside h mem m'
   /\ (padding_zero h mem -> padding_zero h m') /\ every header sharing no word with h is unchanged
   (as a matrix and word for word).  [K … mem = Ok m'] also says: no OOB access, no UB shift, no die.
   [fresh_post mem M m' h] : destination allocated by the call — mem_ok, valid, owned, abs = M, zero
   padding, old allocation untouched.  All theorems hold for ALL valid headers (windows at any row /
   word offset, any width) and ALL memory contents; 0 < ncols excludes the r x 0 matrices on which the
   C code itself indexes word -1 (modelled as Err OOB).
   Kernels named [_fixed]/[_fx] are the repaired C code of /repo (masked last word in concat, stack,
   aligned submatrix); the pinned variants are refuted in Properties_C09.v. *)
From Coq Require Import List NArith Arith Lia Bool.
From M4 Require Import Base.Bits Lin.Mat Lin.MatAlg Lin.Ops Lin.OpsProofs Word.WMat Word.WOps Word.WMatLemmas
  Word.WRefine2 Word.WRefine3 Word.WRefine9 Word.WRefine10 Word.WRefineViews Word.WRefineRefuted.
Import ListNotations.
Local Open Scope nat_scope.

(* non-vacuity helper: split syntactic conjunctions only, close each hypothesis instance *)
Ltac ex_conj := repeat match goal with |- _ /\ _ => split end.
Ltac ex_close :=
  first [ exact ex_valid_wR | exact ex_valid_wP | exact ex_valid_wQ | exact ex_valid_wR4 | exact ex_valid_wR72
        | exact ex_valid_P | exact ex_valid_sqR | exact ex_valid_sqP
        | exact ex_disj_R_P | exact ex_disj_R_Q | exact ex_disj_R4_P | exact ex_disj_R4_Q
        | exact ex_disj_R72_P | exact ex_disj_R72_Q | exact ex_disj_R_bigP | exact ex_disj_sqR_P
        | (left; reflexivity) | (right; exact ex_disj_R_P) | (right; exact ex_disj_R_Q)
        | (apply ex_valid; vm_compute; reflexivity)
        | (split; reflexivity)
        | (vm_compute; reflexivity) | (vm_compute; lia) | (vm_compute; discriminate)
        | (apply wdisjoint_sym; ex_disj 16) ].

(** ** addition: all aliasing forms (C == A, C == B, A == B, all equal, all distinct) *)
Theorem C08_add : forall hC hA hB mem,
  valid hC mem -> valid hA mem -> valid hB mem -> 0 < h_ncols hC ->
  same_dims hA hC -> same_dims hB hC -> alias_ok hC hA -> alias_ok hC hB ->
  exists m', w_mzd_add hC hA hB mem = Ok m' /\ kernel_post hC mem (madd (abs hA mem) (abs hB mem)) m'.
Proof. exact w_mzd_add_full. Qed.
Print Assumptions C08_add.

Theorem C08__mzd_add : forall hC hA hB mem,
  valid hC mem -> valid hA mem -> valid hB mem -> 0 < h_ncols hC ->
  same_dims hA hC -> same_dims hB hC -> alias_ok hC hA -> alias_ok hC hB ->
  exists m', w_add hC hA hB mem = Ok m' /\ kernel_post hC mem (madd (abs hA mem) (abs hB mem)) m'.
Proof. exact w_add_full. Qed.
Print Assumptions C08__mzd_add.

Theorem C08_add_fresh : forall hA hB mem,
  valid hA mem -> valid hB mem -> 0 < h_ncols hA -> same_dims hB hA ->
  exists m' hC, w_mzd_add_fresh hA hB mem = Ok (m', hC) /\ mem_ok m' /\ valid hC m' /\
    owned hC = true /\ h_nrows hC = h_nrows hA /\ h_ncols hC = h_ncols hA /\
    abs hC m' = madd (abs hA mem) (abs hB mem) /\ padding_zero hC m' /\
    firstn (length mem) m' = mem.
Proof. exact w_mzd_add_fresh_ok. Qed.
Print Assumptions C08_add_fresh.

(** non-vacuity: C == A window, B another window; and three distinct windows *)
Example C08_add_nonvacuous :
  (valid ex_wR ex_mem /\ valid ex_wR ex_mem /\ valid ex_wQ ex_mem /\ 0 < h_ncols ex_wR /\
   same_dims ex_wR ex_wR /\ same_dims ex_wQ ex_wR /\ alias_ok ex_wR ex_wR /\ alias_ok ex_wR ex_wQ) /\
  (valid ex_wR ex_mem /\ valid ex_wP ex_mem /\ valid ex_wQ ex_mem /\
   same_dims ex_wP ex_wR /\ same_dims ex_wQ ex_wR /\ alias_ok ex_wR ex_wP /\ alias_ok ex_wR ex_wQ) /\
  h_windowed ex_wR = true /\ Nat.odd (h_off ex_wR) = true /\ padding_zerob ex_wR ex_mem = false.
Proof. cbv zeta. ex_conj; ex_close. Qed.

(** ** copy *)
Theorem C08_copy : forall hN hP mem,
  valid hN mem -> valid hP mem -> 0 < h_ncols hP ->
  h_nrows hP <= h_nrows hN -> h_ncols hP <= h_ncols hN -> alias_ok hN hP ->
  exists m', w_copy hN hP mem = Ok m' /\ kernel_post hN mem (mcopy_into (abs hN mem) (abs hP mem)) m'.
Proof. exact w_copy_full. Qed.
Print Assumptions C08_copy.

Theorem C08_copy_fresh : forall hP mem, valid hP mem -> 0 < h_ncols hP ->
  exists m' hN, w_copy_fresh hP mem = Ok (m', hN) /\ mem_ok m' /\ valid hN m' /\ owned hN = true /\
    abs hN m' = abs hP mem /\ padding_zero hN m' /\ firstn (length mem) m' = mem.
Proof. exact w_copy_fresh_ok. Qed.
Print Assumptions C08_copy_fresh.

(** a copy into a destination of the same dimensions is the source *)
Theorem C08_copy_same_dims : forall D P, wf D -> wf P -> nr D = nr P -> nc D = nc P -> mcopy_into D P = P.
Proof. exact mcopy_into_same_dims. Qed.
Print Assumptions C08_copy_same_dims.

Theorem C08_copy_row : forall hB i hA j mem,
  valid hB mem -> valid hA mem -> i < h_nrows hB -> j < h_nrows hA ->
  0 < h_ncols hA -> h_ncols hA <= h_ncols hB -> alias_ok hB hA ->
  exists m', w_copy_row hB i hA j mem = Ok m' /\ kernel_post hB mem (copy_row (abs hB mem) i (abs hA mem) j) m'.
Proof. exact w_copy_row_full. Qed.
Print Assumptions C08_copy_row.

Example C08_copy_nonvacuous :
  valid ex_wR ex_mem /\ valid ex_wP ex_mem /\ 0 < h_ncols ex_wP /\ h_nrows ex_wP <= h_nrows ex_wR /\
  h_ncols ex_wP <= h_ncols ex_wR /\ alias_ok ex_wR ex_wP /\ 1 < h_nrows ex_wR.
Proof. cbv zeta. ex_conj; ex_close. Qed.

(** ** zero / identity assignment *)
Theorem C08_set_ui : forall hA value mem, valid hA mem -> 0 < h_ncols hA ->
  exists m', w_set_ui hA value mem = Ok m' /\ kernel_post hA mem (set_ui (h_nrows hA) (h_ncols hA) value) m'.
Proof. exact w_set_ui_full. Qed.
Print Assumptions C08_set_ui.

Theorem C08_set_ui_entries : forall r c v i j,
  get (set_ui r c v) i j = Nat.odd v && (i <? r) && (j <? c) && (i =? j).
Proof. exact get_set_ui. Qed.
Print Assumptions C08_set_ui_entries.

(** ** sub-matrix at arbitrary bit offsets (aligned memcpy path and unaligned read_bits path) *)
Theorem C08_submatrix : forall hS hM sr sc er ec mem,
  valid hS mem -> valid hM mem -> h_nrows hS = er - sr -> h_ncols hS = ec - sc ->
  sr <= er -> er <= h_nrows hM -> ec <= h_ncols hM -> sc < ec -> wdisjoint hS hM ->
  exists m', w_submatrix_fixed hS hM sr sc er ec mem = Ok m' /\
             kernel_post hS mem (msub (abs hM mem) sr sc (er - sr) (ec - sc)) m'.
Proof. exact w_submatrix_fixed_full. Qed.
Print Assumptions C08_submatrix.

(** PARTIAL.  Full statement wanted (mzd_submatrix accepts any S with S->nrows >= nrows, S->ncols >= ncols):
      valid hS mem -> valid hM mem -> er - sr <= h_nrows hS -> ec - sc <= h_ncols hS -> … ->
      exists m', w_submatrix_fixed hS hM sr sc er ec mem = Ok m' /\
        kernel_post hS mem (msub_into (abs hS mem) (msub (abs hM mem) sr sc (er - sr) (ec - sc))) m'.
    Proven only for a destination of exactly the block's dimensions (below, = C08_submatrix).  For a
    WIDER destination the unaligned path is FALSE in the C code (it masks with S->high_bitmask):
    Properties_C09.C09_submatrix_unaligned_wider_refuted; the aligned path with a wider / taller S is
    not proven. *)
Theorem C08_submatrix_larger_destination_partial : forall hS hM sr sc er ec mem,
  valid hS mem -> valid hM mem -> h_nrows hS = er - sr -> h_ncols hS = ec - sc ->
  sr <= er -> er <= h_nrows hM -> ec <= h_ncols hM -> sc < ec -> wdisjoint hS hM ->
  exists m', w_submatrix_fixed hS hM sr sc er ec mem = Ok m' /\
             kernel_post hS mem (msub (abs hM mem) sr sc (er - sr) (ec - sc)) m'.
Proof. exact w_submatrix_fixed_full. Qed.
Print Assumptions C08_submatrix_larger_destination_partial.

Theorem C08_submatrix_fresh : forall hM sr sc er ec mem,
  valid hM mem -> sr <= er -> er <= h_nrows hM -> ec <= h_ncols hM -> sc < ec ->
  exists m' hS, w_submatrix_fixed_fresh hM sr sc er ec mem = Ok (m', hS) /\
    fresh_post mem (msub (abs hM mem) sr sc (er - sr) (ec - sc)) m' hS.
Proof. exact w_submatrix_fixed_fresh_ok. Qed.
Print Assumptions C08_submatrix_fresh.

Theorem C08_submatrix_entries : forall A r0 c0 r c i j, r0 + r <= length (rows A) ->
  get (msub A r0 c0 r c) i j = (i <? r) && (j <? c) && get A (r0 + i) (c0 + j).
Proof. exact get_msub. Qed.
Print Assumptions C08_submatrix_entries.

(** non-vacuity: aligned (start column 64) and unaligned (start column 3) into a 2 x 36 window *)
Example C08_submatrix_nonvacuous :
  valid ex_wR ex_mem /\ valid ex_P ex_mem /\ wdisjoint ex_wR ex_P /\
  (h_nrows ex_wR = 3 - 1 /\ h_ncols ex_wR = 100 - 64 /\ 3 <= h_nrows ex_P /\ 100 <= h_ncols ex_P) /\
  (h_ncols ex_wR = 39 - 3 /\ 3 mod 64 <> 0 /\ 39 <= h_ncols ex_P).
Proof. cbv zeta. ex_conj; ex_close. Qed.

(** ** concatenation and stacking *)
Theorem C08_concat : forall hC hA hB mem,
  valid hC mem -> valid hA mem -> valid hB mem -> 0 < h_ncols hA ->
  h_nrows hA = h_nrows hC -> h_nrows hB = h_nrows hC -> h_ncols hC = h_ncols hA + h_ncols hB ->
  wdisjoint hC hA -> wdisjoint hC hB ->
  exists m', w_concat_fixed hC hA hB mem = Ok m' /\ kernel_post hC mem (mconcat (abs hA mem) (abs hB mem)) m'.
Proof. exact w_concat_fixed_full. Qed.
Print Assumptions C08_concat.

Theorem C08_concat_fresh : forall hA hB mem,
  valid hA mem -> valid hB mem -> 0 < h_ncols hA -> h_nrows hA = h_nrows hB ->
  exists m' hC, w_concat_fixed_fresh hA hB mem = Ok (m', hC) /\
    fresh_post mem (mconcat (abs hA mem) (abs hB mem)) m' hC.
Proof. exact w_concat_fixed_fresh_ok. Qed.
Print Assumptions C08_concat_fresh.

Theorem C08_stack : forall hC hA hB mem,
  valid hC mem -> valid hA mem -> valid hB mem -> 0 < h_ncols hC ->
  h_ncols hA = h_ncols hC -> h_ncols hB = h_ncols hC -> h_nrows hC = h_nrows hA + h_nrows hB ->
  wdisjoint hC hA -> wdisjoint hC hB ->
  exists m', w_stack_fixed hC hA hB mem = Ok m' /\ kernel_post hC mem (mstack (abs hA mem) (abs hB mem)) m'.
Proof. exact w_stack_fixed_full. Qed.
Print Assumptions C08_stack.

Theorem C08_stack_fresh : forall hA hB mem,
  valid hA mem -> valid hB mem -> 0 < h_ncols hA -> h_ncols hA = h_ncols hB ->
  exists m' hC, w_stack_fixed_fresh hA hB mem = Ok (m', hC) /\
    fresh_post mem (mstack (abs hA mem) (abs hB mem)) m' hC.
Proof. exact w_stack_fixed_fresh_ok. Qed.
Print Assumptions C08_stack_fresh.

Theorem C08_concat_entries : forall A B i j, wf A -> wf B -> nr A = nr B ->
  get (mconcat A B) i j = if j <? nc A then get A i j else get B i (j - nc A).
Proof. exact get_mconcat. Qed.
Theorem C08_stack_entries : forall A B i j, wf A ->
  get (mstack A B) i j = if i <? nr A then get A i j else get B (i - nr A) j.
Proof. exact get_mstack. Qed.
Print Assumptions C08_concat_entries.
Print Assumptions C08_stack_entries.

Example C08_concat_stack_nonvacuous :
  (valid ex_wR72 ex_mem /\ valid ex_wP ex_mem /\ valid ex_wQ ex_mem /\ h_nrows ex_wP = h_nrows ex_wR72 /\
   h_nrows ex_wQ = h_nrows ex_wR72 /\ h_ncols ex_wR72 = h_ncols ex_wP + h_ncols ex_wQ /\
   wdisjoint ex_wR72 ex_wP /\ wdisjoint ex_wR72 ex_wQ) /\
  (valid ex_wR4 ex_mem /\ h_ncols ex_wP = h_ncols ex_wR4 /\ h_ncols ex_wQ = h_ncols ex_wR4 /\
   h_nrows ex_wR4 = h_nrows ex_wP + h_nrows ex_wQ /\ wdisjoint ex_wR4 ex_wP /\ wdisjoint ex_wR4 ex_wQ).
Proof. cbv zeta. ex_conj; ex_close. Qed.

(** ** upper / lower triangle of the leading k x k block (over the repaired mzd_submatrix) *)
Theorem C08_extract_u : forall hU hA mem,
  let k := Nat.min (h_nrows hA) (h_ncols hA) in
  valid hU mem -> valid hA mem -> 0 < k -> h_nrows hU = k -> h_ncols hU = k -> wdisjoint hU hA ->
  exists m', w_extract_u_fx hU hA mem = Ok m' /\ kernel_post hU mem (extract_u (abs hA mem)) m'.
Proof. exact w_extract_u_fx_full. Qed.
Print Assumptions C08_extract_u.

Theorem C08_extract_u_fresh : forall hA mem, valid hA mem -> 0 < Nat.min (h_nrows hA) (h_ncols hA) ->
  exists m' hU, w_extract_u_fx_fresh hA mem = Ok (m', hU) /\ fresh_post mem (extract_u (abs hA mem)) m' hU.
Proof. exact w_extract_u_fx_fresh_ok. Qed.
Print Assumptions C08_extract_u_fresh.

(** mzd_extract_l: refinement for every destination; frame and padding when the destination's excess
    bits were zero (owned destinations) — on a window with foreign bits the frame FAILS, see
    Properties_C09.C09_extract_l_frame_refuted. *)
Theorem C08_extract_l : forall hL hA mem,
  let k := Nat.min (h_nrows hA) (h_ncols hA) in
  valid hL mem -> valid hA mem -> 0 < k -> h_nrows hL = k -> h_ncols hL = k -> wdisjoint hL hA ->
  exists m', w_extract_l_fx hL hA mem = Ok m' /\ length m' = length mem /\ mem_ok m' /\
    abs hL m' = extract_l (abs hA mem) /\
    (padding_zero hL mem -> outside hL mem m' /\ padding_zero hL m').
Proof. exact w_extract_l_fx_ok. Qed.
Print Assumptions C08_extract_l.

Theorem C08_extract_l_fresh : forall hA mem, valid hA mem -> 0 < Nat.min (h_nrows hA) (h_ncols hA) ->
  exists m' hL, w_extract_l_fx_fresh hA mem = Ok (m', hL) /\ fresh_post mem (extract_l (abs hA mem)) m' hL.
Proof. exact w_extract_l_fx_fresh_ok. Qed.
Print Assumptions C08_extract_l_fresh.

(** the WOps.v models [w_extract_u] / [w_extract_l] (pinned mzd_submatrix inside) satisfy the same
    conclusions whenever their submatrix step meets the submatrix contract *)
Theorem C08_extract_u_of_sub : forall hU hA mem m0,
  let k := Nat.min (h_nrows hA) (h_ncols hA) in
  valid hU mem -> h_nrows hU = k -> h_ncols hU = k ->
  w_submatrix hU hA 0 0 k k mem = Ok m0 -> length m0 = length mem -> mem_ok m0 ->
  abs hU m0 = msub (abs hA mem) 0 0 k k -> outside hU mem m0 ->
  exists m', w_extract_u hU hA mem = Ok m' /\ length m' = length mem /\ mem_ok m' /\
    abs hU m' = extract_u (abs hA mem) /\ outside hU mem m'.
Proof. exact w_extract_u_ok_of_sub. Qed.
Print Assumptions C08_extract_u_of_sub.

Theorem C08_extract_entries : forall A i j, wf A -> let k := Nat.min (nr A) (nc A) in
  get (extract_u A) i j = (i <? k) && (j <? k) && (i <=? j) && get A i j.
Proof. exact get_extract_u. Qed.
Print Assumptions C08_extract_entries.

Example C08_extract_nonvacuous :
  let hA := window_hdr ex_P 0 0 3 130 in
  valid ex_sqR ex_mem /\ valid hA ex_mem /\ 0 < Nat.min (h_nrows hA) (h_ncols hA) /\
  h_nrows ex_sqR = Nat.min (h_nrows hA) (h_ncols hA) /\ h_ncols ex_sqR = Nat.min (h_nrows hA) (h_ncols hA) /\
  wdisjoint ex_sqR hA.
Proof. cbv zeta. ex_conj; ex_close. Qed.

(** ** transpose laws (abstract level; the word-level transpose kernels are tied by correspondence) *)
Theorem C08_transpose_entry : forall A i j, wf A -> get (mtrans A) i j = get A j i.
Proof. exact get_mtrans. Qed.
Print Assumptions C08_transpose_entry.

Theorem C08_transpose_involutive : forall A, wf A -> mtrans (mtrans A) = A.
Proof. exact mtrans_involutive. Qed.
Print Assumptions C08_transpose_involutive.

Theorem C08_transpose_add : forall A B, wf A -> wf B -> nr A = nr B -> nc A = nc B ->
  mtrans (madd A B) = madd (mtrans A) (mtrans B).
Proof. exact mtrans_madd. Qed.
Print Assumptions C08_transpose_add.
