(* Properties/Properties_C10.v — C10 "Results are pure functions of operand values; owned matrices keep
   zero padding" — the word-level part.  Statements only ([exact]), Print Assumptions after each
   (expected: Closed under the global context), non-vacuity Examples.

   (a) zero padding is preserved by every modelled writing kernel: it is a consequence of the frame
       ([C10_padding_preserved]); the per-kernel instances are the fifth clause of [kernel_post] in
       Properties_C08.v / Properties_C09.v (they hold for every header, owned or not).
   (b) a destination allocated by the call (mzd_init = appended zeroed block in this model; that
       mzd_init zeroes whatever the heap history is the calloc_zero theorem of the Sys/Alloc files) ends with
       zero padding and the result value, and nothing of the previous allocation is touched.
   (c) results depend only on the operand VALUES ([abs]), not on the surrounding words or on the prior
       contents of the destination beyond what the operation keeps: the refinement equations
       [abs hdst m' = Op (abs hsrc mem …)] of Properties_C08.v; showcases below.
   (d) mzd_make_table: every used table row and index entry is rewritten, for ALL stale tables T0 and
       index buffers L0 (restated from Alg/GrayProofs.v).
   Not covered here (partial): uninitialised M/E/B, done[], pivots[] arrays of the PLE base case;
   algorithm-level routines are functions of operand values by construction of their models. *)
From Coq Require Import List NArith Arith Lia Bool.
From M4 Require Import Base.Bits Lin.Mat Lin.Ops Lin.OpsProofs Alg.Gray Alg.GrayProofs
  Word.WMat Word.WOps Word.WMatLemmas Word.WRefine2 Word.WRefine3 Word.WRefine9 Word.WRefine10
  Word.WRefine13 Word.WRefineViews Word.WRefineRefuted.
Import ListNotations.
Local Open Scope nat_scope.

(** ** (a) padding *)
Theorem C10_padding_preserved : forall h mem mem', hdr_ok h -> outside h mem mem' ->
  padding_zero h mem -> padding_zero h mem'.
Proof. exact outside_padding. Qed.
Print Assumptions C10_padding_preserved.

(** the executable padding check used by the correspondence harness decides [padding_zero] *)
Theorem C10_padding_check : forall h mem, hdr_ok h -> mem_ok mem ->
  (padding_zerob h mem = true <-> padding_zero h mem).
Proof. exact padding_zerob_spec. Qed.
Print Assumptions C10_padding_check.

(** every kernel with the uniform contract keeps zero padding, whatever the header (instance shown:
    addition with all aliasing forms; the same clause is part of every [kernel_post] theorem) *)
Theorem C10_add_padding : forall hC hA hB mem,
  valid hC mem -> valid hA mem -> valid hB mem -> 0 < h_ncols hC ->
  same_dims hA hC -> same_dims hB hC -> alias_ok hC hA -> alias_ok hC hB ->
  exists m', w_mzd_add hC hA hB mem = Ok m' /\ kernel_post hC mem (madd (abs hA mem) (abs hB mem)) m'.
Proof. exact w_mzd_add_full. Qed.
Print Assumptions C10_add_padding.

(** mzd_extract_l zero-stores whole words: padding is preserved (and the frame holds) exactly under the
    owned-matrix invariant *)
Theorem C10_extract_l_padding : forall hL hA mem,
  let k := Nat.min (h_nrows hA) (h_ncols hA) in
  valid hL mem -> valid hA mem -> 0 < k -> h_nrows hL = k -> h_ncols hL = k -> wdisjoint hL hA ->
  exists m', w_extract_l_fx hL hA mem = Ok m' /\ length m' = length mem /\ mem_ok m' /\
    abs hL m' = extract_l (abs hA mem) /\
    (padding_zero hL mem -> outside hL mem m' /\ padding_zero hL m').
Proof. exact w_extract_l_fx_ok. Qed.
Print Assumptions C10_extract_l_padding.

(** the one-line mask repair [w_row_clear_offset_fixed] (whole zero-word stores): same situation *)
Theorem C10_row_clear_offset_fixed_padding : forall h mem r co,
  valid h mem -> r < h_nrows h -> co < h_ncols h ->
  exists m', w_row_clear_offset_fixed h r co mem = Ok m' /\ length m' = length mem /\ mem_ok m' /\
    abs h m' = row_clear_offset (abs h mem) r co /\
    outside (widen h) mem m' /\
    (padding_zero h mem -> outside h mem m' /\ padding_zero h m').
Proof. exact w_row_clear_offset_fixed_ok. Qed.
Print Assumptions C10_row_clear_offset_fixed_padding.

(** ** (b) destinations allocated by the call *)
(** the block appended by mzd_init is valid, all zero, has zero padding, and older headers keep
    their meaning and share no word with it *)
Theorem C10_alloc_zero : forall mem r c, mem_ok mem ->
  let mem0 := fst (w_alloc mem r c) in let hN := snd (w_alloc mem r c) in
  valid hN mem0 /\ abs hN mem0 = mzero r c /\ padding_zero hN mem0 /\ owned hN = true.
Proof. exact alloc_zero_full. Qed.
Print Assumptions C10_alloc_zero.

Theorem C10_alloc_old : forall mem r c h, valid h mem ->
  valid h (fst (w_alloc mem r c)) /\ abs h (fst (w_alloc mem r c)) = abs h mem /\
  wdisjoint (snd (w_alloc mem r c)) h.
Proof. exact alloc_old_full. Qed.
Print Assumptions C10_alloc_old.

Theorem C10_add_fresh : forall hA hB mem,
  valid hA mem -> valid hB mem -> 0 < h_ncols hA -> same_dims hB hA ->
  exists m' hC, w_mzd_add_fresh hA hB mem = Ok (m', hC) /\ mem_ok m' /\ valid hC m' /\
    owned hC = true /\ h_nrows hC = h_nrows hA /\ h_ncols hC = h_ncols hA /\
    abs hC m' = madd (abs hA mem) (abs hB mem) /\ padding_zero hC m' /\
    firstn (length mem) m' = mem.
Proof. exact w_mzd_add_fresh_ok. Qed.
Theorem C10_copy_fresh : forall hP mem, valid hP mem -> 0 < h_ncols hP ->
  exists m' hN, w_copy_fresh hP mem = Ok (m', hN) /\ mem_ok m' /\ valid hN m' /\ owned hN = true /\
    abs hN m' = abs hP mem /\ padding_zero hN m' /\ firstn (length mem) m' = mem.
Proof. exact w_copy_fresh_ok. Qed.
Theorem C10_submatrix_fresh : forall hM sr sc er ec mem,
  valid hM mem -> sr <= er -> er <= h_nrows hM -> ec <= h_ncols hM -> sc < ec ->
  exists m' hS, w_submatrix_fixed_fresh hM sr sc er ec mem = Ok (m', hS) /\
    fresh_post mem (msub (abs hM mem) sr sc (er - sr) (ec - sc)) m' hS.
Proof. exact w_submatrix_fixed_fresh_ok. Qed.
Theorem C10_concat_fresh : forall hA hB mem,
  valid hA mem -> valid hB mem -> 0 < h_ncols hA -> h_nrows hA = h_nrows hB ->
  exists m' hC, w_concat_fixed_fresh hA hB mem = Ok (m', hC) /\
    fresh_post mem (mconcat (abs hA mem) (abs hB mem)) m' hC.
Proof. exact w_concat_fixed_fresh_ok. Qed.
Theorem C10_stack_fresh : forall hA hB mem,
  valid hA mem -> valid hB mem -> 0 < h_ncols hA -> h_ncols hA = h_ncols hB ->
  exists m' hC, w_stack_fixed_fresh hA hB mem = Ok (m', hC) /\
    fresh_post mem (mstack (abs hA mem) (abs hB mem)) m' hC.
Proof. exact w_stack_fixed_fresh_ok. Qed.
Theorem C10_extract_u_fresh : forall hA mem, valid hA mem -> 0 < Nat.min (h_nrows hA) (h_ncols hA) ->
  exists m' hU, w_extract_u_fx_fresh hA mem = Ok (m', hU) /\ fresh_post mem (extract_u (abs hA mem)) m' hU.
Proof. exact w_extract_u_fx_fresh_ok. Qed.
Theorem C10_extract_l_fresh : forall hA mem, valid hA mem -> 0 < Nat.min (h_nrows hA) (h_ncols hA) ->
  exists m' hL, w_extract_l_fx_fresh hA mem = Ok (m', hL) /\ fresh_post mem (extract_l (abs hA mem)) m' hL.
Proof. exact w_extract_l_fx_fresh_ok. Qed.
Print Assumptions C10_add_fresh.
Print Assumptions C10_copy_fresh.
Print Assumptions C10_submatrix_fresh.
Print Assumptions C10_concat_fresh.
Print Assumptions C10_stack_fresh.
Print Assumptions C10_extract_u_fresh.
Print Assumptions C10_extract_l_fresh.

(** sources with NON-zero excess bits (windows) are fine: non-vacuity with such operands *)
Example C10_fresh_nonvacuous :
  valid ex_wP ex_mem /\ valid ex_wQ ex_mem /\ 0 < h_ncols ex_wP /\ same_dims ex_wQ ex_wP /\
  padding_zerob ex_wP ex_mem = false /\ padding_zerob ex_wQ ex_mem = false /\
  h_nrows ex_wP = h_nrows ex_wQ /\ h_ncols ex_wP = h_ncols ex_wQ /\
  valid ex_P ex_mem /\ 1 <= 3 /\ 3 <= h_nrows ex_P /\ 39 <= h_ncols ex_P /\ 3 < 39.
Proof.
  repeat match goal with |- _ /\ _ => split end;
  first [ exact ex_valid_wP | exact ex_valid_wQ | exact ex_valid_P | (split; reflexivity)
        | (vm_compute; reflexivity) | (vm_compute; lia) ].
Qed.

(** ** (c) operand values only *)
Theorem C10_add_value_only : forall hC hA hB mem1 mem2 m1 m2,
  valid hC mem1 -> valid hA mem1 -> valid hB mem1 -> valid hC mem2 -> valid hA mem2 -> valid hB mem2 ->
  0 < h_ncols hC -> same_dims hA hC -> same_dims hB hC -> alias_ok hC hA -> alias_ok hC hB ->
  abs hA mem1 = abs hA mem2 -> abs hB mem1 = abs hB mem2 ->
  w_mzd_add hC hA hB mem1 = Ok m1 -> w_mzd_add hC hA hB mem2 = Ok m2 -> abs hC m1 = abs hC m2.
Proof. exact add_view_only. Qed.
Print Assumptions C10_add_value_only.

(** ** (d) Gray-code tables: independent of stale table rows and stale index entries *)
Theorem C10_make_table_spec : forall cb k M r c T0 L0,
  cb_ok k cb -> r + k <= nr M -> 2 ^ k <= length T0 -> 2 ^ k <= length L0 ->
  N.land (nth 0 T0 0%N) (mt_mask M c) = 0%N ->
  let TL := make_table_cb cb M r c k T0 L0 in
  length (fst TL) = length T0 /\ length (snd TL) = length L0 /\
  (forall j, nth j (fst TL) 0%N =
     if (1 <=? j) && (j <? 2 ^ k)
     then N.lor (N.ldiff (nth j T0 0%N) (mt_region M c))
                (N.land (mul_row (nth j (fst cb) 0%N) (block_rows M r k)) (mt_mask M c))
     else nth j T0 0%N) /\
  (forall j, j < 2 ^ k -> nth (N.to_nat (nth j (fst cb) 0%N)) (snd TL) 0 = j).
Proof. exact make_table_spec. Qed.
Print Assumptions C10_make_table_spec.

Theorem C10_gray_lookup : forall k M r T0 L0 x,
  wf M -> r + k <= nr M -> 2 ^ k <= length T0 -> 2 ^ k <= length L0 ->
  nth 0 T0 0%N = 0%N -> Forall (bounded (radix * mwidth (nc M))) T0 ->
  (x < 2 ^ N.of_nat k)%N ->
  tlookup (make_table M r 0 k T0 L0) x = mul_row x (block_rows M r k).
Proof. exact gray_lookup. Qed.
Print Assumptions C10_gray_lookup.

Theorem C10_gray_lookup_masked : forall k M r c T0 L0 x,
  r + k <= nr M -> 2 ^ k <= length T0 -> 2 ^ k <= length L0 ->
  N.land (nth 0 T0 0%N) (mt_mask M c) = 0%N ->
  (x < 2 ^ N.of_nat k)%N ->
  N.land (tlookup (make_table M r c k T0 L0) x) (mt_mask M c) =
  N.land (mul_row x (block_rows M r k)) (mt_mask M c).
Proof. exact gray_lookup_masked_lib. Qed.
Print Assumptions C10_gray_lookup_masked.

(** non-vacuity of (d): garbage tables / index buffers meeting the hypotheses, lookup evaluated *)
Example C10_gray_lookup_nonvacuous :
  let M := mk 4 70 [0x2000000000000000F1; 0x3; 0x100000000000000005; 0x3F00000000000000AA]%N in
  let T0 := [0; 0x12345; 0xFFFFFFFFFFFFFFFFFFFFFFFFFFFFFFFF; 7; 0x5555; 1; 2; 3]%N in
  let L0 := [5; 5; 9; 100; 0; 3; 3; 3] in
  map (tlookup (make_table M 1 0 3 T0 L0)) [0; 1; 2; 3; 4; 5; 6; 7]%N =
  map (fun x => mul_row x (block_rows M 1 3)) [0; 1; 2; 3; 4; 5; 6; 7]%N.
Proof. exact gray_lookup_example. Qed.
