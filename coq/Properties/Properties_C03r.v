(* Properties/Properties_C03r.v — property C03, the Four-Russians base case _mzd_ple_russian /
   _mzd_pluq_russian (m4ri/ple_russian.c:381-629, ple_russian_template.h).  Statements only.

   MODEL (Alg/PLERussian.v, executable, extracted as x_tb_ple_russian / x_tb_pluq_russian and compared bit for bit
   — A', P, Q, rank — with the library on every run of the C03 check (Tier B family "ple-russian" of
   tools/props/tierb.py: k in 2..8 and the automatic k computed from the build's L2 size as ple_russian.c:393 does):
     ple_russian k A P0 Q0 = _mzd_ple_russian(A, P, Q, k), k >= 1; pluq_russian = _mzd_pluq_russian;
     extractable entry points: [ple_russian_run k A], [pluq_russian_run k A] (identity P0, Q0).

   PROVEN (Alg/PLERussianProofs.v .. Proofs11.v), without any hypothesis:
     C03r_submatrix   _mzd_ple_submatrix (lazy elimination, pivots[] / done[] / done_row, on the
                      window of 64*splitblock columns) simulates the naive algorithm _mzd_ple_naive:
                      same pivots (left-most column, first row), rows up to done_row bit-identical on
                      the window, rows beyond done_row untouched, P and Q entries as in the naive run;
     C03r_block       the rest of one pass of the while loop (window write-back, the knar == 0 branch
                      through mzd_find_pivot, clipping of kk) reduces to [update_ok];
     C03r_loop        the while loop, given the statement about one pass, returns what the naive
                      loop returns (fuel = number of columns is never exhausted);
     C03r_compress    the two-phase compression of L = the compression of the naive routine;
     C03r_naive_closed_form  the closed form of the naive algorithm which _mzd_ple_a10/_a11 evaluate;
     C03r_process_rows_value the row function of _mzd_process_rows_ple_N — look-up through E (search
                      for the table row with the pattern of the processed row), register update
                      through B, the FIXED table rows — over any list of consecutive tables made of
                      rows with unit pivots in the table's own columns IS the sequential elimination
                      by these rows with the multipliers left in place (what the naive routine does
                      to a row below the pivot rows); E has an entry for every pattern that occurs.
   WHOLE ROUTINE, unconditional for every k >= 1 (Alg/PLERussianProofs8..11.v, PLERussianClosed.v):
     [C03r_update]: steps 2, 4-6 (_mzd_ple_a10: swap phase and elimination phase; the 1..7 tables cut out of U by
     _kk_setup with their index arrays M (spread / gather), E, B; _mzd_ple_a11_N; _mzd_process_rows_ple_N) turn the
     state left by _mzd_ple_submatrix into the naive algorithm's state, row by row, given the post-condition SubPost
     and the fact [ones] (the pivot entries of the naive state are 1), which [C03r_submatrix_ones] supplies;
     [C03r_block_all]: one pass of the while loop = the naive algorithm, for every k;
     [C03r_ple_russian_naive] / [C03r_ple_russian] / [C03r_pluq_russian] / [C03r_base_ok] / [C03r_mzd_ple_closed] /
     [C03r_mzd_pluq_closed]: no hypothesis beyond 1 <= k, wf A and the lengths of P0, Q0.
     (The earlier conditional form [C03r_block : update_ok k -> block_ok k] is kept; the literal [update_ok k] - the
     update statement WITHOUT the fact [ones] - is not proven and not needed.)
   The conclusions are checked by computation on [russian_examples] (15 inputs incl. windows narrower
   than the matrix and rows updated through E/B), against ple_naive and the verified checkers. *)
From Coq Require Import List NArith Arith Lia Bool Sorted.
From M4 Require Import Base.Bits Lin.Mat Lin.Ops Lin.Spec Alg.PLE Alg.PLELemmas Alg.PLESpec
  Alg.PLEProofs Alg.PLEProofs4 Alg.PLEProofs10
  Alg.PLERussian Alg.PLERussianProofs Alg.PLERussianProofs2 Alg.PLERussianProofs3 Alg.PLERussianProofs4
  Alg.PLERussianProofs5 Alg.PLERussianProofs6 Alg.PLERussianProofs7 Alg.PLERussianProofs8 Alg.PLERussianProofs11
  Alg.PLERussianClosed.
Import ListNotations.
Local Open Scope nat_scope.

(** _mzd_ple_submatrix simulates the naive algorithm (statement of the post-condition: [SubPost]) *)
Theorem C03r_submatrix : forall (M : mat) (P0 Q0 : list nat) (r0 c0 kk w c' : nat),
  wf M -> r0 < nr M -> c0 + kk <= w -> 1 <= kk -> w <= nc M ->
  length P0 = nr M -> length Q0 = nc M -> c' <= c0 -> gap_zero M r0 c' c0 ->
  forall W0 : mat, wf W0 -> nr W0 = nr M -> nc W0 = w -> (forall i, row W0 i = lo w (row M i)) ->
  let '((W1, done_row), (P1, Q1), pivots) := ple_sub W0 r0 c0 kk P0 Q0 in
  exists pv cur, SubPost M P0 Q0 r0 c0 kk w c' W1 done_row P1 Q1 pivots pv cur.
Proof. exact ple_russian_block_partial. Qed.
Print Assumptions C03r_submatrix.

Theorem C03r_block : forall k, update_ok k -> block_ok k.
Proof. exact block_ok_of_update. Qed.
Print Assumptions C03r_block.

Theorem C03r_submatrix_ones : forall (M : mat) (P0 Q0 : list nat) (r0 c0 kk w c' : nat),
  wf M -> r0 < nr M -> c0 + kk <= w -> 1 <= kk -> w <= nc M ->
  length P0 = nr M -> length Q0 = nc M -> c' <= c0 -> gap_zero M r0 c' c0 ->
  forall W0 : mat, wf W0 -> nr W0 = nr M -> nc W0 = w -> (forall i, row W0 i = lo w (row M i)) ->
  let '((W1, done_row), (P1, Q1), pivots) := ple_sub W0 r0 c0 kk P0 Q0 in
  exists pv cur, SubPost M P0 Q0 r0 c0 kk w c' W1 done_row P1 Q1 pivots pv cur /\ ones M r0 c0 pivots pv.
Proof. exact sub_spec_ones. Qed.
Print Assumptions C03r_submatrix_ones.

Theorem C03r_update : forall k M P0 Q0 r c kk c' W1 done_row P1 Q1 pivots pv cur,
  wf M -> r < nr M -> 1 <= kk -> c + kk <= nc M ->
  let w := win_cols (nc M) c kk in
  SubPost M P0 Q0 r c kk w c' W1 done_row P1 Q1 pivots pv cur ->
  ones M r c pivots pv ->
  let M2 := ple_a10 (mpaste M 0 0 W1) P1 r c w pivots in
  let Mf := russian_update k M2 r c kk w done_row pivots in
  nr Mf = nr M /\ nc Mf = nc M /\ length (rows Mf) = nr M /\
  forall i, i < nr M -> row Mf i = row (nsteps M r pv) i.
Proof. exact russian_update_ok. Qed.
Print Assumptions C03r_update.

Theorem C03r_block_all : forall k, block_ok k.
Proof. exact russian_block_ok. Qed.
Print Assumptions C03r_block_all.


Theorem C03r_loop : forall k, block_ok k -> forall fuel M P Q r c kk c',
  wf M -> r <= nr M -> c <= nc M -> 1 <= kk -> length P = nr M -> length Q = nc M ->
  c' <= c -> gap_zero M r c' c -> nc M - c <= fuel ->
  russian_loop fuel k M P Q r c kk = Some (ple_naive_loop (nr M - r) M P Q r c').
Proof. exact russian_loop_naive. Qed.
Print Assumptions C03r_loop.

Theorem C03r_compress : forall M Q r, wf M -> r <= nr M -> r <= nc M ->
  (forall k, k < r -> k <= nth k Q 0 < nc M) -> russian_compress M Q r = ple_compress M Q r.
Proof. exact russian_compress_naive. Qed.
Print Assumptions C03r_compress.

Theorem C03r_naive_closed_form : forall M r, wf M -> forall pv, pv_ok M r pv -> forall l, r <= l ->
  let X := nsteps M r pv in
  row X l = N.lxor (row (sw M r pv) l) (nsum (Nat.min (length pv) (l - r)) (mterm (nc M) X r pv (row X l))).
Proof. exact nsteps_closed. Qed.
Print Assumptions C03r_naive_closed_form.

Theorem C03r_process_rows_value : forall n c0 kk, c0 + kk <= n -> forall tbls lb bits acc x,
  tbls_ok n c0 kk lb tbls ->
  (forall b, lb <= b -> b < kk -> N.testbit bits (N.of_nat b) = N.testbit (N.lxor x acc) (N.of_nat (c0 + b))) ->
  N.lxor x (pr_value c0 tbls bits acc) = seq_elim n c0 tbls (N.lxor x acc).
Proof. exact pr_value_sound. Qed.
Print Assumptions C03r_process_rows_value.

Theorem C03r_update_narrow : forall k M P0 Q0 r c kk c' W1 done_row P1 Q1 pivots pv cur,
  wf M -> r < nr M -> 1 <= kk -> c + kk <= nc M ->
  let w := win_cols (nc M) c kk in
  w = nc M -> length pivots < kk ->
  SubPost M P0 Q0 r c kk w c' W1 done_row P1 Q1 pivots pv cur ->
  let M2 := ple_a10 (mpaste M 0 0 W1) P1 r c w pivots in
  let Mf := russian_update k M2 r c kk w done_row pivots in
  nr Mf = nr M /\ nc Mf = nc M /\ length (rows Mf) = nr M /\
  forall i, i < nr M -> row Mf i = row (nsteps M r pv) i.
Proof. exact update_ok_narrow_partial. Qed.
Print Assumptions C03r_update_narrow.

(** the whole routine: bit-identical with the naive routine started from identity permutations *)
Theorem C03r_ple_russian_naive : forall k A P0 Q0, 1 <= k ->
  wf A -> length P0 = nr A -> length Q0 = nc A ->
  ple_russian k A P0 Q0 = ple_naive A (fill_id 0 P0) (fill_id 0 Q0).
Proof. exact ple_russian_naive. Qed.
Print Assumptions C03r_ple_russian_naive.

Theorem C03r_ple_russian : forall k A P0 Q0, 1 <= k ->
  wf A -> length P0 = nr A -> length Q0 = nc A -> ple_spec A (ple_russian k A P0 Q0).
Proof. exact ple_russian_spec. Qed.
Print Assumptions C03r_ple_russian.

Theorem C03r_pluq_russian : forall k A P0 Q0, 1 <= k ->
  wf A -> length P0 = nr A -> length Q0 = nc A -> pluq_spec A (pluq_russian k A P0 Q0).
Proof. exact pluq_russian_spec. Qed.
Print Assumptions C03r_pluq_russian.

(** mzd_ple / mzd_pluq with the library's own base case: closes the hypothesis [base_ok] of C03_rec *)
Theorem C03r_base_ok : forall k, 1 <= k -> base_ok (ple_russian k).
Proof. exact base_ok_russian. Qed.
Print Assumptions C03r_base_ok.

Theorem C03r_mzd_ple_closed : forall k cutoff A P0 Q0, 1 <= k ->
  wf A -> length P0 = nr A -> length Q0 = nc A ->
  ple_spec A (ple_rec (ple_russian k) cutoff A P0 Q0).
Proof. exact mzd_ple_closed. Qed.
Print Assumptions C03r_mzd_ple_closed.

Theorem C03r_mzd_pluq_closed : forall k cutoff A P0 Q0, 1 <= k ->
  wf A -> length P0 = nr A -> length Q0 = nc A ->
  pluq_spec A (pluq_rec (ple_russian k) cutoff A P0 Q0).
Proof. exact mzd_pluq_closed. Qed.
Print Assumptions C03r_mzd_pluq_closed.

(** * non-vacuity / the conclusions by computation *)
(** on each of the 15 example inputs: the model's output equals ple_naive's bit for bit (A', P, Q, r)
    and passes the verified checkers ple_ok / pluq_ok (which decide ple_spec / pluq_spec) *)
Example C03r_examples : forallb russian_example_ok russian_examples = true.
Proof. exact russian_examples_ok. Qed.

Example C03r_examples_spec : forall e, In e russian_examples ->
  ple_spec (snd e) (ple_russian_run (fst e) (snd e)) /\ pluq_spec (snd e) (pluq_russian_run (fst e) (snd e)).
Proof.
  intros [k A] He. pose proof russian_examples_ok as H. rewrite forallb_forall in H.
  specialize (H (k, A) He). unfold russian_example_ok in H.
  apply andb_true_iff in H as [H H4]. apply andb_true_iff in H as [H H3].
  apply andb_true_iff in H as [H1 H2]. apply wfb_spec in H1. cbn [fst snd]. split.
  - now apply (ple_ok_spec A _ H1).
  - now apply (pluq_ok_spec A _ H1).
Qed.
Print Assumptions C03r_examples_spec.

(** the hypotheses of the main theorems are satisfiable *)
Example C03r_hyps : exists (k : nat) (A : mat) (P0 Q0 : list nat),
  1 <= k /\ wf A /\ length P0 = nr A /\ length Q0 = nc A /\ nr A = 2.
Proof. exists 2, (mk 2 3 [5%N; 5%N]), [9; 9], [7; 7; 7]. split; [lia|]. split; [now apply wfb_spec|repeat split]. Qed.
