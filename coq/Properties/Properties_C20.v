(* C20 -- Allocation failure always ends in the library's controlled abort.

   "If any single memory allocation performed during any library call fails, the process terminates
    through the library's error handler (diagnostic on stderr, then abort) - it never dereferences
    the null result, writes through it, or continues with a half-initialised object."

   What is proved here, and about what:
   * C20_wrappers_die / _ok / size 0 / guards : about the bodies of m4ri_mm_malloc, m4ri_mm_calloc,
     m4ri_mm_malloc_aligned as translated from misc.h of the current tree (GenSites.v), in all three
     `#if` variants; C20_mmc_falls_through about the hand model of m4ri_mmc_malloc.
   * C20_layer_dies_checked : the full-strength statement for every history of allocation-layer
     calls and every fault position, for the model in which djb_push_back tests its reallocs.
     C20_layer_dies_refuted : the same statement is FALSE for the model of the code as pinned
     (unchecked realloc in djb_push_back, DESIGN F11).  C20_layer_live is whichever of the two
     GenSites.v selects for the current tree; C20_layer_dies is the positive statement about the
     live model under the (decidable, generated) premise that the tree's djb_push_back is checked.
   * C20_sites_ok_except : the generated table of all allocation call sites.
   PARTIAL: the routines above the allocation layer (multiplication, elimination, ... -- the data
   flow from a wrapper's result to its uses) are not modelled; for them the claim rests on
   C20_sites_ok_except (no site bypasses the checking wrappers unchecked) and on the fault
   enumeration of tools/props/c20.py.  libpng/zlib-internal requests are outside the model.      *)
From Coq Require Import List NArith Bool String.
From M4 Require Import Sys.FaultTypes Sys.GenSites Sys.FaultModel Sys.Fault.
Import ListNotations.
Open Scope N_scope.

Theorem C20_gen_wrappers_wf : forall v k, wf_body (gen_body v k) = true.
Proof. exact gen_wrappers_wf. Qed.

Theorem C20_wrappers_die : forall v k bytes sysalloc, 0 < bytes ->
  (forall f, sysalloc f bytes = None) -> run_wrapper (gen_body v k) bytes sysalloc = WDie.
Proof. exact wrappers_die. Qed.

Theorem C20_wrappers_ok : forall v k bytes sysalloc p,
  (forall f, sysalloc f bytes = Some p) -> run_wrapper (gen_body v k) bytes sysalloc = WRet (Some p).
Proof. exact wrappers_ok. Qed.

Theorem C20_wrapper_size0_guarded_returns_null : forall v k sysalloc, has_guard (gen_body v k) = true ->
  (forall f, sysalloc f 0 = None) -> run_wrapper (gen_body v k) 0 sysalloc = WRet None.
Proof. exact wrapper_size0_guarded_returns_null. Qed.

Theorem C20_wrapper_size0_unguarded_dies : forall v k sysalloc, has_guard (gen_body v k) = false ->
  (forall f, sysalloc f 0 = None) -> run_wrapper (gen_body v k) 0 sysalloc = WDie.
Proof. exact wrapper_size0_unguarded_dies. Qed.

Theorem C20_gen_guards : forall v, has_guard (gen_body v WMalloc) = true /\ has_guard (gen_body v WAligned) = true
                                   /\ has_guard (gen_body v WCalloc) = false.
Proof. exact gen_guards. Qed.

Theorem C20_mmc_falls_through : forall enabled threshold body cache n sysalloc,
  (fst (mmc_lookup enabled threshold cache n) = None ->
     fst (mmc_malloc enabled threshold body cache n sysalloc) = run_wrapper body n sysalloc) /\
  (forall p, fst (mmc_lookup enabled threshold cache n) = Some p ->
     forall sysalloc', mmc_malloc enabled threshold body cache n sysalloc' =
                       (WRet (Some p), snd (mmc_lookup enabled threshold cache n))).
Proof. exact mmc_falls_through. Qed.

Theorem C20_mmc_miss_dies : forall v enabled threshold cache n sysalloc, 0 < n ->
  fst (mmc_lookup enabled threshold cache n) = None -> (forall f, sysalloc f n = None) ->
  fst (mmc_malloc enabled threshold (gen_body v WMalloc) cache n sysalloc) = WDie.
Proof. exact mmc_miss_dies. Qed.

Theorem C20_gen_mmc_routes_ok : forall v,
  forallb (fun r => match r with MROther => false | _ => true end) (gen_mmc_returns v) = true /\
  existsb (fun r => match r with MRWrapper => true | _ => false end) (gen_mmc_returns v) = true.
Proof. exact gen_mmc_routes_ok. Qed.

Theorem C20_layer_dies_checked : forall c, cfg_wf c -> pb_checked c = true ->
  forall h i, fails_at c h i -> outcome_of (run_faulty c h i) = Die.
Proof. exact layer_dies_checked. Qed.

Theorem C20_layer_dies_refuted : forall v hdr mmc, exists h i,
  fails_at (unchecked_cfg v hdr mmc) h i /\ outcome_of (run_faulty (unchecked_cfg v hdr mmc) h i) = DerefNull.
Proof. exact layer_dies_refuted. Qed.

Theorem C20_layer_live : forall v hdr mmc, live_statement v hdr mmc.
Proof. exact layer_live. Qed.

Theorem C20_layer_dies : tree_pb_checked = true -> forall v hdr mmc h i,
  fails_at (live_cfg v hdr mmc) h i -> outcome_of (run_faulty (live_cfg v hdr mmc) h i) = Die.
Proof. exact layer_dies. Qed.

Theorem C20_fails_at_iff_count : forall c h i, fails_at c h i <-> i < count_sys c h.
Proof. exact fails_at_iff_count. Qed.

Theorem C20_sites_ok_except : forallb (ok_or_listed known_exceptions) sites = true.
Proof. exact sites_ok_except. Qed.

Theorem C20_sites_ok_of_no_exceptions : known_exceptions = [] -> forallb site_ok sites = true.
Proof. exact sites_ok_of_no_exceptions. Qed.

Print Assumptions C20_gen_wrappers_wf.
Print Assumptions C20_wrappers_die.
Print Assumptions C20_wrappers_ok.
Print Assumptions C20_wrapper_size0_guarded_returns_null.
Print Assumptions C20_wrapper_size0_unguarded_dies.
Print Assumptions C20_gen_guards.
Print Assumptions C20_mmc_falls_through.
Print Assumptions C20_mmc_miss_dies.
Print Assumptions C20_gen_mmc_routes_ok.
Print Assumptions C20_layer_dies_checked.
Print Assumptions C20_layer_dies_refuted.
Print Assumptions C20_layer_live.
Print Assumptions C20_layer_dies.
Print Assumptions C20_fails_at_iff_count.
Print Assumptions C20_sites_ok_except.
Print Assumptions C20_sites_ok_of_no_exceptions.

(* non-vacuity *)
Example C20_ex_hyps : cfg_wf (checked_cfg VMmMalloc true true) /\ pb_checked (checked_cfg VMmMalloc true true) = true
  /\ fails_at (checked_cfg VMmMalloc true true) [LMzdInit 10 10 HSlot false; LMzpInit 5] 2.
Proof. split; [apply gen_cfg_wf | split; [reflexivity | exact fails_at_sat]]. Qed.

Example C20_ex_refuted_witness : forall v hdr mmc i, In i [4; 5; 6] ->
  fails_at (unchecked_cfg v hdr mmc) djb_witness i /\
  outcome_of (run_faulty (unchecked_cfg v hdr mmc) djb_witness i) = DerefNull.
Proof. exact layer_dies_refuted_all_three. Qed.

Example C20_ex_checked_witness : forall v,
  snd (predict (checked_cfg v true true) djb_witness) = [Die; Die; Die; Die; Die; Die; Die].
Proof. exact djb_witness_checked. Qed.

Example C20_ex_sites_nonvacuous :
  (20 <=? N.of_nat (List.length sites)) = true /\
  forallb (fun w => existsb (fun s => String.eqb (s_func s) w && negb (String.eqb (s_callee s) w)) sites)
          ["m4ri_mm_malloc"; "m4ri_mm_calloc"; "m4ri_mm_malloc_aligned"; "m4ri_mmc_malloc"; "m4ri_mmc_calloc"]%string = true.
Proof. exact sites_nonvacuous. Qed.
