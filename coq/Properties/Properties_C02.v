(* Properties/Properties_C02.v — property C02 (echelon forms: rank, row space, unique RREF).
   Statements only; proofs are in Lin/Span.v, Lin/Echelon.v, Alg/GaussProofs.v.

   Scope of this file: the naive Gauss(-Jordan) route [gauss_delayed] = model of
   mzd_gauss_delayed / mzd_echelonize_naive (m4ri/mzd.c:209,234), and the route-independent
   mathematics (uniqueness of the RREF, of the pivots of any REF, of the rank / column rank
   profile).  The other routes (M4RI block algorithm, PLUQ-based echelon form, the density
   switching hybrid, mzd_top_echelonize_m4ri) are handled by another component: each of them is
   shown to return SOME (reduced) row echelon form row-equivalent to its input, and
   [C02_rref_canonical] / [C02_rank_canonical] / [C02_top_canonical] below then force the result
   to be exactly [rref A] with [rank A] pivots — which is also what justifies the differential
   check of every C route against the extracted [rref] / [rank]. *)
From Coq Require Import List NArith Arith Lia Bool Sorted.
From M4 Require Import Base.Bits Lin.Mat Lin.Ops Lin.Spec Alg.Gauss Lin.Span Lin.Echelon Alg.GaussProofs
                       Alg.GaussRef.
Import ListNotations.
Local Open Scope nat_scope.

(** naive Gauss: number of pivots returned, result well-formed, same row space, (reduced) row
    echelon form *)
Theorem C02_gauss : forall (full : bool) (A : mat), wf A ->
  let '(r, M) := gauss_delayed full 0 A in
  exists piv, r = length piv /\ wf M /\ row_equiv A M /\
              (if full then is_rref M piv else is_ref M piv).
Proof. exact gauss_spec. Qed.
Print Assumptions C02_gauss.

(** the reduced row echelon form of a row-equivalence class is unique *)
Theorem C02_rref_unique : forall (R S : mat) (p q : list nat),
  wf R -> wf S -> is_rref R p -> is_rref S q -> row_equiv R S -> R = S /\ p = q.
Proof. exact rref_unique. Qed.
Print Assumptions C02_rref_unique.

(** the pivot columns of a row echelon form only depend on the row space *)
Theorem C02_pivots_unique : forall (R S : mat) (p q : list nat),
  is_ref R p -> is_ref S q -> row_equiv R S -> p = q.
Proof. exact ref_pivots_unique. Qed.
Print Assumptions C02_pivots_unique.

(** the leading-position lemma behind both *)
Theorem C02_lead_positions : forall (M : mat) (piv : list nat), is_ref M piv ->
  forall j, In j piv <-> exists v, in_rowspace v M /\ lead v = Some j.
Proof. exact ref_lead_iff. Qed.
Print Assumptions C02_lead_positions.

(** rank (size of the column rank profile, defined without reference to any algorithm) is unique,
    and is what the model returns, in both modes *)
Theorem C02_rank_unique : forall (A : mat) (r r' : nat), has_rank A r -> has_rank A r' -> r = r'.
Proof. exact has_rank_unique. Qed.
Print Assumptions C02_rank_unique.

Theorem C02_rank_correct : forall A : mat, wf A -> has_rank A (rank A).
Proof. exact rank_correct. Qed.
Print Assumptions C02_rank_correct.

Theorem C02_gauss_rank : forall (full : bool) (A : mat), wf A -> fst (gauss_delayed full 0 A) = rank A.
Proof. exact gauss_rank. Qed.
Print Assumptions C02_gauss_rank.

(** the pivots of ANY row echelon form of A are the column rank profile of A *)
Theorem C02_rank_profile : forall (A M : mat) (piv : list nat),
  wf A -> wf M -> is_ref M piv -> row_equiv A M -> is_crp A piv.
Proof. exact crp_of_ref. Qed.
Print Assumptions C02_rank_profile.

(** every correct route agrees with the model: any RREF of A is [rref A] with [rank A] pivots;
    any REF of A has [rank A] pivots *)
Theorem C02_rref_canonical : forall (A R : mat) (p : list nat),
  wf A -> wf R -> is_rref R p -> row_equiv A R -> R = rref A /\ length p = rank A.
Proof. exact rref_canonical. Qed.
Print Assumptions C02_rref_canonical.

Theorem C02_rank_canonical : forall (A R : mat) (p : list nat),
  wf A -> is_ref R p -> row_equiv A R -> length p = rank A.
Proof. exact rank_canonical. Qed.
Print Assumptions C02_rank_canonical.

(** completing a row echelon form: [rref M] is the reduced form on the same pivots and the same
    row space; and any correct top reduction R of a row echelon form M of A is [rref A] *)
Theorem C02_top : forall (M : mat) (piv : list nat), wf M -> is_ref M piv ->
  wf (rref M) /\ row_equiv M (rref M) /\ is_rref (rref M) piv /\ rank M = length piv.
Proof. exact top_reduce. Qed.
Print Assumptions C02_top.

Theorem C02_top_canonical : forall (A M R : mat) (piv q : list nat), wf A -> wf M -> wf R ->
  is_ref M piv -> row_equiv A M -> is_rref R q -> row_equiv M R -> R = rref A /\ q = piv.
Proof. exact top_canonical. Qed.
Print Assumptions C02_top_canonical.

Theorem C02_top_rref : forall (A M : mat) (piv : list nat), wf A -> wf M ->
  is_ref M piv -> row_equiv A M -> rref M = rref A /\ length piv = rank A.
Proof. exact top_reduce_rref. Qed.
Print Assumptions C02_top_rref.

(** the NON-reduced form under the "left-most column, first row" pivot rule is unique as well
    (definitions [first_row_rule], [lower_rel], [apply_swaps] in Alg/GaussRef.v, all intrinsic:
    no reference to an algorithm): the rule determines the row interchanges, for fixed
    interchanges the echelon factor of  P*A = L*E  is unique, and the model obeys the rule; so
    every forward elimination obeying the rule returns exactly [snd (gauss_delayed false 0 A)] *)
Theorem C02_ref_rule_det : forall (A : mat) (sw sw' : list (nat * nat)),
  first_row_rule A sw -> first_row_rule A sw' -> sw = sw'.
Proof. exact first_row_rule_det. Qed.
Print Assumptions C02_ref_rule_det.

Theorem C02_ref_le_unique : forall (B E E' : mat) (p p' : list nat), is_ref E p -> is_ref E' p' ->
  lower_rel B E -> lower_rel B E' -> forall i, row E' i = row E i.
Proof. exact ref_le_unique. Qed.
Print Assumptions C02_ref_le_unique.

Theorem C02_gauss_ref_rule : forall A : mat, wf A ->
  exists sw piv, first_row_rule A sw /\
    lower_rel (apply_swaps sw A) (snd (gauss_delayed false 0 A)) /\
    is_ref (snd (gauss_delayed false 0 A)) piv /\ length sw = length piv.
Proof. exact gauss_ref_rule. Qed.
Print Assumptions C02_gauss_ref_rule.

Theorem C02_ref_canonical : forall (A E' : mat) (sw' : list (nat * nat)) (p' : list nat),
  wf A -> wf E' -> nr E' = nr A -> nc E' = nc A ->
  first_row_rule A sw' -> lower_rel (apply_swaps sw' A) E' -> is_ref E' p' ->
  E' = snd (gauss_delayed false 0 A).
Proof. exact ref_canonical. Qed.
Print Assumptions C02_ref_canonical.

(** * Non-vacuity: the hypotheses are satisfiable and the model computes something non-trivial *)
(** 3 x 4, rank 2 (row 2 = row 0 + row 1); column j of a row = bit j *)
Definition exA : mat := mk 3 4 [6; 11; 13]%N.
(** 4 x 6, rank 3, two leading zero columns, a dependent row in the middle, pivot found by a swap *)
Definition exB : mat := mk 4 6 [12; 36; 40; 16]%N.

Example C02_ex_wf : wf exA /\ wf exB.
Proof. split; apply wfb_spec; vm_compute; reflexivity. Qed.

Example C02_ex_gauss_full : gauss_delayed true 0 exA = (2, mk 3 4 [13; 6; 0]%N).
Proof. vm_compute. reflexivity. Qed.

Example C02_ex_gauss_nonfull : gauss_delayed false 0 exA = (2, mk 3 4 [11; 6; 0]%N).
Proof. vm_compute. reflexivity. Qed.

Example C02_ex_gauss_gap :
  gauss_delayed true 0 exB = (3, mk 4 6 [36; 40; 16; 0]%N) /\
  gauss_delayed false 0 exB = (3, mk 4 6 [12; 40; 16; 0]%N).
Proof. split; vm_compute; reflexivity. Qed.

(** [is_rref] / [is_ref] hold of these outputs (proved directly from the definitions) *)
Example C02_ex_is_rref : is_rref (mk 3 4 [13; 6; 0]%N) [0; 1].
Proof.
  split; [split; [repeat constructor|split; [cbn; lia|split]]|].
  - intros i Hi. cbn [length] in Hi. destruct i as [|[|i]]; [reflexivity|reflexivity|lia].
  - intros i Hi. cbn [length] in Hi. destruct i as [|[|[|[|i]]]]; try lia; reflexivity.
  - intros i i' Hi Hne. cbn [length] in Hi.
    destruct i as [|[|i]]; [| |lia]; destruct i' as [|[|[|[|i']]]]; try lia; reflexivity.
Qed.

Example C02_ex_is_ref : is_ref (mk 3 4 [11; 6; 0]%N) [0; 1] /\ ~ is_rref (mk 3 4 [11; 6; 0]%N) [0; 1].
Proof.
  split.
  - split; [repeat constructor|split; [cbn; lia|split]].
    + intros i Hi. cbn [length] in Hi. destruct i as [|[|i]]; [reflexivity|reflexivity|lia].
    + intros i Hi. cbn [length] in Hi. destruct i as [|[|[|[|i]]]]; try lia; reflexivity.
  - intros [_ H]. specialize (H 1 0). cbn [length] in H.
    assert (E : get (mk 3 4 [11; 6; 0]%N) 0 (nth 1 [0; 1] 0) = true) by reflexivity.
    rewrite H in E; [discriminate|lia|lia].
Qed.

(** [row_equiv] holds between input and output (proved directly, with explicit coefficients) *)
Example C02_ex_row_equiv : row_equiv exA (mk 3 4 [13; 6; 0]%N).
Proof.
  split; [reflexivity|]. split; [reflexivity|]. split; apply rs_incl_rows; intros i Hi; cbn [length rows exA] in Hi.
  - destruct i as [|[|[|i]]]; [exists 2%N|exists 3%N|exists 1%N|lia]; reflexivity.
  - destruct i as [|[|[|i]]]; [exists 4%N|exists 1%N|exists 0%N|lia]; reflexivity.
Qed.

(** so the hypotheses of [C02_rref_unique], [C02_pivots_unique], [C02_rref_canonical],
    [C02_rank_canonical], [C02_top], [C02_top_canonical], [C02_rank_profile] are jointly
    satisfiable *)
Example C02_ex_hyps :
  exists A M R p q, wf A /\ wf M /\ wf R /\ is_ref M p /\ row_equiv A M /\ is_rref R q /\
                    row_equiv A R /\ row_equiv M R /\ M <> R.
Proof.
  exists exA, (mk 3 4 [11; 6; 0]%N), (mk 3 4 [13; 6; 0]%N), [0; 1], [0; 1].
  assert (HM : row_equiv exA (mk 3 4 [11; 6; 0]%N)).
  { split; [reflexivity|]. split; [reflexivity|]. split; apply rs_incl_rows; intros i Hi; cbn [length rows exA] in Hi.
    - destruct i as [|[|[|i]]]; [exists 2%N|exists 1%N|exists 3%N|lia]; reflexivity.
    - destruct i as [|[|[|i]]]; [exists 2%N|exists 1%N|exists 0%N|lia]; reflexivity. }
  repeat match goal with |- _ /\ _ => split end.
  - apply C02_ex_wf.
  - apply wfb_spec. vm_compute. reflexivity.
  - apply wfb_spec. vm_compute. reflexivity.
  - apply C02_ex_is_ref.
  - exact HM.
  - exact C02_ex_is_rref.
  - exact C02_ex_row_equiv.
  - apply (row_equiv_trans _ exA); [now apply row_equiv_sym|exact C02_ex_row_equiv].
  - discriminate.
Qed.

(** the rank of the examples, as computed and as defined *)
Example C02_ex_rank : rank exA = 2 /\ rank exB = 3 /\ has_rank exA 2 /\ has_rank exB 3.
Proof.
  split; [vm_compute; reflexivity|]. split; [vm_compute; reflexivity|].
  split; [change 2 with (rank exA)|change 3 with (rank exB)]; apply rank_correct; apply C02_ex_wf.
Qed.

(** the column rank profile of exB has a gap: it is [2;3;4] *)
Example C02_ex_crp : is_crp exB [2; 3; 4].
Proof.
  destruct (rref_is_rref exB (proj2 C02_ex_wf)) as [piv [Hrr [_ Hcrp]]].
  replace [2; 3; 4] with piv; [assumption|].
  (* the pivots are the leads of the first rows of the computed reduced form *)
  pose proof (rref_ref _ _ Hrr) as Href.
  assert (Hl : length piv = 3).
  { destruct (rref_spec exB (proj2 C02_ex_wf)) as [q [Hr [_ [_ Hq]]]].
    rewrite (ref_pivots_unique _ _ piv q Href (rref_ref _ _ Hq) (row_equiv_refl _)).
    rewrite <- Hr. vm_compute. reflexivity. }
  destruct piv as [|a [|b [|c [|d piv]]]]; try discriminate.
  pose proof (ref_lead _ _ 0 Href) as H0. pose proof (ref_lead _ _ 1 Href) as H1.
  pose proof (ref_lead _ _ 2 Href) as H2. cbn [length nth] in H0, H1, H2.
  specialize (H0 ltac:(lia)). specialize (H1 ltac:(lia)). specialize (H2 ltac:(lia)).
  vm_compute in H0, H1, H2. congruence.
Qed.

(** the hypotheses of [C02_ref_canonical] are satisfiable (for every well-formed A, in fact) *)
Example C02_ex_ref_rule :
  exists E' sw' p', wf E' /\ nr E' = nr exB /\ nc E' = nc exB /\ first_row_rule exB sw' /\
                    lower_rel (apply_swaps sw' exB) E' /\ is_ref E' p' /\ length sw' = 3.
Proof.
  destruct (gauss_ref_rule exB (proj2 C02_ex_wf)) as [sw [piv [H1 [H2 [H3 H4]]]]].
  exists (snd (gauss_delayed false 0 exB)), sw, piv.
  split; [apply wfb_spec; vm_compute; reflexivity|]. split; [reflexivity|]. split; [reflexivity|].
  split; [assumption|]. split; [assumption|]. split; [assumption|].
  rewrite H4. rewrite (rank_canonical exB _ piv (proj2 C02_ex_wf) H3).
  - vm_compute. reflexivity.
  - destruct (gauss_spec_ex false exB (proj2 C02_ex_wf)) as [q [_ [_ [Heq _]]]]. exact Heq.
Qed.
