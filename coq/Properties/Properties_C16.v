(* Properties/Properties_C16.v -- OpenMP build: results do not depend on the schedule.
   Statements only; models in Sys/Conc.v (PART 2), proofs in Sys/ConcProofs.v.

   LABEL: PARTIAL BY PROOF.  What is proven, for ALL shapes, ALL thread counts and ALL schedules:
     C16_tasks_commute        two tasks that do not write each other's write or dependency footprint
                              commute (the generic lemma);
     C16_schedule_indep       every interleaving of per-thread task lists, the threads pairwise
                              independent, leaves the memory the sequential order leaves;
     C16_quadrants_disjoint   the split arithmetic of _mzd_mul_mp4 / _mzd_addmul_mp4
                              (m4ri/mp.c:61-85, 184-204: a -= a % 128, anr = ((a/64) >> 1) * 64, ...)
                              makes the four windows C00, C01, C10, C11 own pairwise disjoint WORDS
                              of C, for all shapes (with an unaligned split they would share a word:
                              Example unaligned_split_shares_a_word);
     C16_sections_commute     hence every interleaving of the four `omp section` bodies
                              (mp.c:87-108, 206-227), each a list of kernel calls that write only the
                              words of their quadrant and depend only on that quadrant, A and B,
                              equals the sequential order;
     C16_parfor_rows_indep    a row loop whose iteration j writes only row j and depends on row j,
                              the sources and the tables (mzd_process_rows*,
                              brilliantrussian.c:365-381, 406-426, 453-476, 505-532, 565-598; the row
                              loop of _mzd_mul_m4rm, 1122-1152) gives the same memory for every
                              partition of the rows into chunks and every interleaving of the chunks
                              (schedule(static, 512) with any number of threads is one of them);
     C16_parfor_tables_indep  likewise the table-construction loop (brilliantrussian.c:1114-1118).
   That the kernels called in the sections / iterations HAVE these footprints and compute C + A*B is
   the business of C01 (mzd_mul models, Strassen schedule) and of the word-level models; here the
   footprint discipline is a hypothesis ([task_ok]) with the instances of the examples below.
   What the model CANNOT exhibit (left to the OMP_NUM_THREADS sweep of tools/props/c16.py):
     * data races inside a kernel, a kernel that violates its footprint (e.g. writes past the last
       word of its window), shared scratch state reached from two sections (the block cache under
       `omp critical(mmc)` is NOT modelled: tasks are atomic memory transformers);
     * weak memory: the model is sequentially consistent at the granularity of a task;
     * the OpenMP runtime (libgomp): creation and joining of the team, the implicit barrier at the
       end of the region on which the strip handling after the sections (mp.c:111-135) relies,
       nested regions, `private` clauses. *)
From Coq Require Import List NArith Permutation.
From M4 Require Import Sys.Alloc Sys.Conc Sys.ConcProofs.
Import ListNotations.

Theorem C16_tasks_commute : forall (L V : Type) (a b : task L V),
  task_ok a -> task_ok b -> indep a b ->
  forall m, meq (t_run a (t_run b m)) (t_run b (t_run a m)).
Proof. exact tasks_commute. Qed.
Print Assumptions C16_tasks_commute.

Theorem C16_schedule_indep : forall (L V : Type) (progs : list (list (task L V))),
  Forall (Forall task_ok) progs -> sections_indep L V progs ->
  forall sched, interleaving sched progs ->
  forall m, meq (run_tasks (map snd sched) m) (run_tasks (concat progs) m).
Proof. exact schedule_indep. Qed.
Print Assumptions C16_schedule_indep.

Theorem C16_quadrants_disjoint : forall a c i j w w',
  i <> j -> nth_error (mp_quadrants a c) i = Some w -> nth_error (mp_quadrants a c) j = Some w' ->
  forall r k, in_words w r k = true -> in_words w' r k = false.
Proof. exact mp_quadrants_words_disjoint. Qed.
Print Assumptions C16_quadrants_disjoint.

Theorem C16_sections_commute : forall V a c (bodies : list (list (mem wloc V -> mem wloc V))),
  Forall (Forall task_ok) (mp_sections a c bodies) ->
  forall sched, interleaving sched (mp_sections a c bodies) ->
  forall m, meq (run_tasks (map snd sched) m) (run_tasks (concat (mp_sections a c bodies)) m).
Proof. exact sections_commute. Qed.
Print Assumptions C16_sections_commute.

Theorem C16_parfor_indep : forall (L V : Type) (body : nat -> task L V),
  (forall i, task_ok (body i)) -> (forall i j, i <> j -> indep (body i) (body j)) ->
  forall idx chunks sched, NoDup idx -> Permutation idx (concat chunks) -> interleaving sched chunks ->
  forall m, meq (run_loop body (map snd sched) m) (run_loop body idx m).
Proof. exact parfor_indep. Qed.
Print Assumptions C16_parfor_indep.

Theorem C16_parfor_rows_indep : forall V (f : nat -> mem wloc V -> mem wloc V),
  (forall j, task_ok (row_task f j)) ->
  forall idx chunks sched, NoDup idx -> Permutation idx (concat chunks) -> interleaving sched chunks ->
  forall m, meq (run_loop (row_task f) (map snd sched) m) (run_loop (row_task f) idx m).
Proof. exact parfor_rows_indep. Qed.
Print Assumptions C16_parfor_rows_indep.

Theorem C16_parfor_tables_indep : forall V (f : nat -> mem wloc V -> mem wloc V),
  (forall z, task_ok (table_task f z)) ->
  forall idx chunks sched, NoDup idx -> Permutation idx (concat chunks) -> interleaving sched chunks ->
  forall m, meq (run_loop (table_task f) (map snd sched) m) (run_loop (table_task f) idx m).
Proof. exact parfor_tables_indep. Qed.
Print Assumptions C16_parfor_tables_indep.

(** non-vacuity: footprint-respecting kernels exist, for a shape with remainder strips (300 = 2*128 + 44) *)
Definition ex_bodies : list (list (mem wloc N -> mem wloc N)) :=
  map (fun w => [bump w 1; bump w 2]) (mp_quadrants 300 300).

Example ex_quadrants : mp_quadrants 300 300 =
  [mkWin 0 0 128 128; mkWin 0 128 128 256; mkWin 128 0 256 128; mkWin 128 128 256 256].
Proof. reflexivity. Qed.

Example ex_sections_ok : Forall (Forall task_ok) (mp_sections 300 300 ex_bodies).
Proof. repeat constructor; apply bump_ok. Qed.

(* one interleaving of the four sections (threads 3,0,2,1,... alternating) *)
Example ex_sections_interleaving : exists sched,
  interleaving sched (mp_sections 300 300 ex_bodies) /\ map fst sched = [3; 0; 2; 1; 1; 2; 0; 3].
Proof.
  eexists. split.
  - eapply (il_step 3); [reflexivity|]. eapply (il_step 0); [reflexivity|].
    eapply (il_step 2); [reflexivity|]. eapply (il_step 1); [reflexivity|].
    eapply (il_step 1); [reflexivity|]. eapply (il_step 2); [reflexivity|].
    eapply (il_step 0); [reflexivity|]. eapply (il_step 3); [reflexivity|].
    apply il_done. repeat constructor.
  - reflexivity.
Qed.

Example ex_rows_ok : forall j, task_ok (row_task row_bump j).
Proof. exact row_bump_ok. Qed.

Example ex_tables_ok : forall z, task_ok (table_task table_fill z).
Proof. exact table_fill_ok. Qed.

(* a 2-thread static partition of 6 rows, executed interleaved, against the sequential loop *)
Example ex_parfor : forall m,
  meq (run_loop (row_task row_bump) [3; 0; 4; 1; 2; 5] m) (run_loop (row_task row_bump) (seq 0 6) m).
Proof.
  intros m.
  apply (parfor_rows_indep N row_bump row_bump_ok (seq 0 6) [[0; 1; 2]; [3; 4; 5]]
           [(1, 3); (0, 0); (1, 4); (0, 1); (0, 2); (1, 5)]).
  - apply seq_NoDup.
  - apply Permutation_refl.
  - repeat (eapply il_step; [reflexivity | cbn [upd]]). apply il_done. repeat constructor.
Qed.
