(* Properties/Properties_C08t.v — C08, transposition: "transposition returns exactly the transpose for every
   shape ... every size class of the transpose kernels (<=8, <=16, <=32, <64, 64-blocks with tails, >512
   recursive splits)".

   Part 1 (Leaf/TransposeSpecs*.v): theorems about the C TEXT of the kernels of m4ri/mzd.c, translated by
   tools/translate.py --transpose into Leaf/Gen_transpose.v on every check run and executed by the CMini
   interpreter.  [runz f args bufs = Ok outs] says: the call on freshly allocated buffers with the contents
   [bufs] terminates without undefined behaviour, out-of-bounds access or uninitialised read, and [outs] are
   the contents afterwards.  [post bufs outs e]: same lengths, every word < 2^64, and bit j of word p of
   buffer b afterwards is the input bit [e b p j] (or 0).  [exp_Tn n m rd rs w]: buffer 0 (source, n rows
   at stride rs) unchanged; row i < m of buffer 1 (destination, stride rd) = the whole word with bit j =
   bit i of source row j for j < n and 0 above; all other destination words unchanged.
   [fits buf (len, w)]: len words below 2^w.  All statements are for ALL contents of the buffers; the
   control arguments range over the finite sets named in the statements.

   Part 2 (Alg/TransposeDispatch*.v): the dispatcher (_mzd_transpose_base, split_round,
   _mzd_transpose_notsmall, _mzd_transpose, mzd_transpose with both dangerous-window branches) as a hand
   model on Lin/Mat.v matrices, for ALL shapes >= 1x1, for any kernels that transpose their size class.

   Part 3 (Leaf/TransposeMat.v): the translated kernels, run by the interpreter on the rows of a block at row
   stride 1 ([K64c] ... [Ksmallc]), satisfy those kernel hypotheses; so the dispatcher model over the
   interpreted C text of the kernels returns mtrans A for all shapes ([C08t_dispatch_c]).
   Modelled, not verified: the dispatcher itself (hand model); that the C dispatcher runs the kernels in
   place at the matrices' row strides (word-level theorems cover strides 1..3, (5,7) resp. (2,3), (3,2)). *)
From Coq Require Import ZArith NArith List String Bool Lia.
From M4 Require Import Base.Bits Lin.Mat Lin.Ops Leaf.CMini Leaf.Gen_transpose Leaf.TransposeSpecs Leaf.TransposeSpecs2
  Leaf.TransposeSpecs4 Alg.TransposeDispatch Alg.TransposeDispatchProofs Leaf.TransposeMat.
Import ListNotations.

(** ** _mzd_copy_transpose_64x64 (mzd.c:252) *)
Theorem C08t_transpose64 : forall rd rs, In (rd, rs) strides ->
  forall src dst, List.length src = (63 * rs + 1)%nat -> List.length dst = (63 * rd + 1)%nat ->
  Forall w64 src -> Forall w64 dst ->
  exists dst', runz "_mzd_copy_transpose_64x64" (args_T rd rs []) [src; dst] = Ok [src; dst'] /\
    List.length dst' = List.length dst /\ Forall w64 dst' /\
    (forall i j, (i < 64)%nat -> (j < 64)%nat ->
       Z.testbit (nth (i * rd) dst' 0%Z) (Z.of_nat j) = Z.testbit (nth (j * rs) src 0%Z) (Z.of_nat i)) /\
    (forall p, (p < List.length dst)%nat -> (p mod rd <> 0)%nat -> nth p dst' 0%Z = nth p dst 0%Z).
Proof. exact transpose64_spec. Qed.
Print Assumptions C08t_transpose64.

Theorem C08t_transpose64_inplace : forall r, In r [1; 2; 3]%nat ->
  forall buf, fits buf ((63 * r + 1)%nat, 64%nat) ->
  exists outs, runz "_mzd_copy_transpose_64x64"
                    [AP 1 0; AI 0; AP 1 0; AI 0; AI (Z.of_nat r); AI (Z.of_nat r)] [buf] = Ok outs /\
               post [buf] outs (exp_T_inplace r).
Proof. exact transpose64_inplace_bits. Qed.
Print Assumptions C08t_transpose64_inplace.

(** ** _mzd_copy_transpose_64x64_2 (mzd.c:330) *)
Theorem C08t_transpose64_2 : forall rd rs, In (rd, rs) strides ->
  forall src1 src2 dst1 dst2,
  fits src1 ((63 * rs + 1)%nat, 64%nat) -> fits src2 ((63 * rs + 1)%nat, 64%nat) ->
  fits dst1 ((63 * rd + 1)%nat, 64%nat) -> fits dst2 ((63 * rd + 1)%nat, 64%nat) ->
  exists outs, runz "_mzd_copy_transpose_64x64_2"
                    [AP 3 0; AI 0; AP 4 0; AI 0; AP 1 0; AI 0; AP 2 0; AI 0; AI (Z.of_nat rd); AI (Z.of_nat rs)]
                    [src1; src2; dst1; dst2] = Ok outs /\
               post [src1; src2; dst1; dst2] outs (exp_T2 rd rs).
Proof. exact transpose64_2_bits. Qed.
Print Assumptions C08t_transpose64_2.

(** ** _mzd_copy_transpose_lt64x64 (mzd.c:474), all n < 64 *)
Theorem C08t_transpose_lt64x64 : forall rd rs n, In (rd, rs) strides2 -> (1 <= n < 64)%nat ->
  forall src dst, fits src (((n - 1) * rs + 1)%nat, 64%nat) -> fits dst ((63 * rd + 1)%nat, 64%nat) ->
  exists outs, runz "_mzd_copy_transpose_lt64x64" (args_T rd rs [Z.of_nat n]) [src; dst] = Ok outs /\
               post [src; dst] outs (exp_Tn n 64 rd rs 64).
Proof. exact transpose_lt64x64_bits. Qed.
Print Assumptions C08t_transpose_lt64x64.

(** ** _mzd_copy_transpose_64xlt64 (mzd.c:607), all n < 64; for n <= 32 the source bits beyond column n
       must be 0 ([w64xlt n] = n), for n > 32 they are ignored *)
Theorem C08t_transpose_64xlt64 : forall rd rs n, In (rd, rs) strides2 -> (1 <= n < 64)%nat ->
  forall src dst, fits src ((63 * rs + 1)%nat, w64xlt n) -> fits dst (((n - 1) * rd + 1)%nat, 64%nat) ->
  exists outs, runz "_mzd_copy_transpose_64xlt64" (args_T rd rs [Z.of_nat n]) [src; dst] = Ok outs /\
               post [src; dst] outs (exp_Tn 64 n rd rs (w64xlt n)).
Proof. exact transpose_64xlt64_bits. Qed.
Print Assumptions C08t_transpose_64xlt64.

(** ** _mzd_copy_transpose_small (mzd.c:944) with le8xle8 / le16xle16 / le32xle32 / le64xle64:
       every (nrows, ncols) in 1..63 x 1..63, maxsize = max(nrows, ncols) *)
Theorem C08t_transpose_small : forall n m, (1 <= n < 64)%nat -> (1 <= m < 64)%nat ->
  forall src dst, fits src (n, m) -> fits dst (m, 64%nat) ->
  exists outs, runz "_mzd_copy_transpose_small" (args_small 1 1 n m) [src; dst] = Ok outs /\
               post [src; dst] outs (exp_Tn n m 1 1 m).
Proof. exact transpose_small_bits. Qed.
Print Assumptions C08t_transpose_small.

Theorem C08t_transpose_small_strided : forall rd rs n m,
  In (rd, rs) strides_small -> (1 <= n <= 32)%nat -> (1 <= m <= 32)%nat ->
  forall src dst, fits src (((n - 1) * rs + 1)%nat, m) -> fits dst (((m - 1) * rd + 1)%nat, 64%nat) ->
  exists outs, runz "_mzd_copy_transpose_small" (args_small rd rs n m) [src; dst] = Ok outs /\
               post [src; dst] outs (exp_Tn n m rd rs m).
Proof. exact transpose_small_le32_bits. Qed.
Print Assumptions C08t_transpose_small_strided.

(** ** the dispatcher, all shapes *)
Theorem C08t_dispatch :
  forall (K64 : mat -> mat) (K64_2 : mat -> mat -> mat * mat) (Klt64x64 K64xlt64 : mat -> mat) (Ksmall : nat -> mat -> mat),
  (forall B, wf B -> nr B = 64 -> nc B = 64 -> K64 B = mtrans B) ->
  (forall B1 B2, wf B1 -> nr B1 = 64 -> nc B1 = 64 -> wf B2 -> nr B2 = 64 -> nc B2 = 64 ->
                 K64_2 B1 B2 = (mtrans B1, mtrans B2)) ->
  (forall B, wf B -> 0 < nr B < 64 -> nc B = 64 -> Klt64x64 B = mtrans B) ->
  (forall B, wf B -> nr B = 64 -> 0 < nc B < 64 -> K64xlt64 B = mtrans B) ->
  (forall B, wf B -> 0 < nr B < 64 -> 0 < nc B < 64 -> Ksmall (Nat.max (nr B) (nc B)) B = mtrans B) ->
  forall dangerA dangerD DST A,
  wf A -> wf DST -> nr DST = nc A -> nc DST = nr A -> 0 < nr A -> 0 < nc A ->
  mzd_transpose_model K64 K64_2 Klt64x64 K64xlt64 Ksmall dangerA dangerD DST A = Some (mtrans A).
Proof. exact transpose_dispatch_spec. Qed.
Print Assumptions C08t_dispatch.

Theorem C08t_dispatch_alloc :
  forall (K64 : mat -> mat) (K64_2 : mat -> mat -> mat * mat) (Klt64x64 K64xlt64 : mat -> mat) (Ksmall : nat -> mat -> mat),
  (forall B, wf B -> nr B = 64 -> nc B = 64 -> K64 B = mtrans B) ->
  (forall B1 B2, wf B1 -> nr B1 = 64 -> nc B1 = 64 -> wf B2 -> nr B2 = 64 -> nc B2 = 64 ->
                 K64_2 B1 B2 = (mtrans B1, mtrans B2)) ->
  (forall B, wf B -> 0 < nr B < 64 -> nc B = 64 -> Klt64x64 B = mtrans B) ->
  (forall B, wf B -> nr B = 64 -> 0 < nc B < 64 -> K64xlt64 B = mtrans B) ->
  (forall B, wf B -> 0 < nr B < 64 -> 0 < nc B < 64 -> Ksmall (Nat.max (nr B) (nc B)) B = mtrans B) ->
  forall dangerA A, wf A -> 0 < nr A -> 0 < nc A ->
  mzd_transpose_alloc K64 K64_2 Klt64x64 K64xlt64 Ksmall dangerA A = Some (mtrans A).
Proof. exact transpose_dispatch_alloc_spec. Qed.
Print Assumptions C08t_dispatch_alloc.

(** every schedule: admissible kernel calls inside the matrix that cover it — also the > 512 splits *)
Theorem C08t_schedule : forall nrows ncols, 0 < nrows -> 0 < ncols ->
  exists s, transpose_sched nrows ncols = Some s /\
            Forall (item_ok (inreg 0 0 0 0 nrows ncols)) s /\
            forall x y, x < ncols -> y < nrows -> covered s x y.
Proof. exact transpose_sched_spec. Qed.
Print Assumptions C08t_schedule.

(** ** the dispatcher model over the interpreted C text of the five kernels, all shapes *)
Theorem C08t_dispatch_c : forall dangerA dangerD DST A,
  wf A -> wf DST -> nr DST = nc A -> nc DST = nr A -> 0 < nr A -> 0 < nc A ->
  mzd_transpose_model K64c K64_2c Klt64x64c K64xlt64c Ksmallc dangerA dangerD DST A = Some (mtrans A).
Proof. exact transpose_dispatch_c_spec. Qed.
Print Assumptions C08t_dispatch_c.

(** a 66 x 3 matrix through _mzd_copy_transpose_64xlt64 and _mzd_copy_transpose_small, destination a
    dangerous window (temp + copy branch), computed by the interpreter *)
Example C08t_dispatch_c_example :
  let A := mk 66 3 (map (fun i => N.of_nat (i mod 8)) (seq 0 66)) in
  wf A /\ mzd_transpose_model K64c K64_2c Klt64x64c K64xlt64c Ksmallc false true (mzero 3 66) A = Some (mtrans A) /\
  get (mtrans A) 1 2 = true /\ get (mtrans A) 1 4 = false.
Proof. cbv zeta. split; [apply wfb_spec; vm_compute; reflexivity|]. vm_compute. repeat split. Qed.

(** ** non-vacuity *)
(** the kernel hypotheses are satisfiable (by mtrans itself) ... *)
Example C08t_dispatch_hyps_sat :
  let K64 := mtrans in let K64_2 := fun B1 B2 => (mtrans B1, mtrans B2) in let Ksmall := fun _ : nat => mtrans in
  (forall B, wf B -> nr B = 64 -> nc B = 64 -> K64 B = mtrans B) /\
  (forall B1 B2, wf B1 -> nr B1 = 64 -> nc B1 = 64 -> wf B2 -> nr B2 = 64 -> nc B2 = 64 ->
                 K64_2 B1 B2 = (mtrans B1, mtrans B2)) /\
  (forall B, wf B -> 0 < nr B < 64 -> 0 < nc B < 64 -> Ksmall (Nat.max (nr B) (nc B)) B = mtrans B).
Proof. cbv zeta. repeat split. Qed.

(** ... the schedules really use every kernel kind, the pairing and the recursive splits:
    130 x 200 -> one single 64x64 (odd number of whole blocks? no: 2 x 3 blocks, none single), pairs, tails;
    600 x 70 -> a recursive split (maxsize 600 > 512) *)
Example C08t_schedule_examples :
  option_map count_kinds (transpose_sched 130 200) = Some (0, 3, 3, 2, 1) /\
  option_map count_kinds (transpose_sched 200 200) = Some (1, 4, 3, 3, 1) /\
  option_map count_kinds (transpose_sched 600 70) = Some (1, 4, 1, 9, 1) /\
  option_map count_kinds (transpose_sched 5 7) = Some (0, 0, 0, 0, 1).
Proof. vm_compute. repeat split. Qed.

(** a concrete 64x64 run of the translated kernel *)
Example C08t_transpose64_example :
  runz "_mzd_copy_transpose_64x64" (args_T 1 1 [])
       [map (fun i => if (i =? 3)%nat then 32%Z else 0%Z) (seq 0 64); repeat 7%Z 64]
  = Ok [map (fun i => if (i =? 3)%nat then 32%Z else 0%Z) (seq 0 64);
        map (fun i => if (i =? 5)%nat then 8%Z else 0%Z) (seq 0 64)].
Proof. exact transpose64_example. Qed.
