(* Properties/Properties_C05.v — property C05 (inversion: Four-Russians, naive, triangular).
   Statements only; proofs are in Alg/InvProofs.v (over Alg/GaussProofs.v: uniqueness of the reduced
   row echelon form, and Alg/TRSMRecProofs.v: the C04 specifications).

   Models (Alg/TRSM.v): [inv_m4ri_model A] = right half of rref [A | I] if the left half is I (the
   textbook algorithm); [inv_m4ri_faithful k A] = what mzd_inv_m4ri (brilliantrussian.c:971-997)
   does: I is placed at column 64*width, the argument k is ignored, NO singularity test;
   [invert_naive_model A I] = mzd_invert_naive (mzd.c:1438-1456): NULL iff rank [A | I] = 0;
   [trtri_upper_rec c U] = mzd_trtri_upper (triangular.c:518-546), [None] = the C code misbehaves
   (split point 0 or >= n).  rref = Gauss-Jordan; every echelonisation route of the library returns
   it (C02: [rref_canonical]).

   The Four-Russians base routine mzd_trtri_upper_russian (triangular_russian.c:377-470) is modelled faithfully in
   Alg/TrtriRussian.v ([trtri_upper_russian k A]: _mzd_trtri_upper_submatrix, _mzd_ple_to_e, mzd_make_table_trtri with
   the L index array, _mzd_process_rows_ple_4 with the running bits ^= B[x], the tail loop with k clipped and
   mzd_process_rows incl. its k == 1 paired path; tables threaded stale through the loops; compared with the library
   on every run of the C05 check, Tier B family "trtri-russian") and PROVEN bit-identical with the substitution model
   for every admissible table parameter 1 <= k <= 16 (4k <= 64; the automatic choice stays in 1..7):
   [C05_trtri_russian], hence [C05_trtri_rec_real_base]: mzd_trtri_upper = the recursion over the library's own
   base routine, inverts.  [C05_trtri_generic] proves the recursion for ANY base routine and ANY pair of solvers
   meeting their specifications.  mzd_trtri_upper reads the stored diagonal (through
   _mzd_trsm_upper_right, see C04) and never writes diagonal or lower triangle: hypotheses
   [diag_ones] and conclusion "lower triangle and diagonal of V are those of U".

   Singular input (outside the property): see [inv_singular_example] in Alg/InvProofs.v —
   mzd_inv_m4ri returns a transformation matrix, never NULL; mzd_invert_naive returns NULL only
   for rank 0. *)
From Coq Require Import List NArith Arith Lia Bool.
From M4 Require Import Base.Bits Lin.Mat Lin.MatAlg Lin.Ops Lin.Spec Lin.Tri Alg.Gauss Alg.TRSM
                       Alg.TRSMProofs Alg.TRSMRec Alg.TRSMRecProofs Alg.InvProofs
                       Alg.TrtriRussian Alg.TrtriRussianProofs4 Alg.TrtriRussianClosed.
Import ListNotations.
Local Open Scope nat_scope.

(** * Four-Russians inversion returns the inverse of every invertible matrix *)
Theorem C05_inv : forall A : mat, wf A -> invertible A ->
  exists B, inv_m4ri_model A = Some B /\ wf B /\ nr B = nr A /\ nc B = nr A /\
            mmul A B = mid (nr A) /\ mmul B A = mid (nr A).
Proof. exact inv_spec. Qed.
Print Assumptions C05_inv.

(** the inverse is unique (so the result is determined) *)
Theorem C05_inverse_unique : forall A B B' : mat, wf A -> wf B -> wf B' -> nr A = nc A ->
  nr B = nr A -> nc B = nr A -> nr B' = nr A -> nc B' = nr A ->
  mmul A B = mid (nr A) -> mmul B A = mid (nr A) -> mmul A B' = mid (nr A) -> B' = B.
Proof. exact inverse_unique. Qed.
Print Assumptions C05_inverse_unique.

(** the code as written (identity block at the next word boundary, k ignored) returns the same
    matrix, for every k *)
Theorem C05_inv_faithful : forall (k : nat) (A : mat), wf A -> invertible A ->
  inv_m4ri_model A = Some (inv_m4ri_faithful k A).
Proof. exact inv_faithful_agrees. Qed.
Print Assumptions C05_inv_faithful.

Theorem C05_inv_k_ignored : forall (k k' : nat) (A : mat), inv_m4ri_faithful k A = inv_m4ri_faithful k' A.
Proof. exact inv_faithful_independent_of_k. Qed.
Print Assumptions C05_inv_k_ignored.

(** naive inversion given the identity returns the same matrix (n >= 1) *)
Theorem C05_naive : forall A : mat, wf A -> invertible A -> 0 < nr A ->
  invert_naive_model A (mid (nr A)) = inv_m4ri_model A.
Proof. exact invert_naive_agrees. Qed.
Print Assumptions C05_naive.

(** * Triangular inversion *)
(** storage form: ones on the diagonal, arbitrary data below it *)
Theorem C05_trtri : forall (c : cfg) (U V : mat),
  wf U -> nr U = nc U -> diag_ones (nr U) U -> trtri_upper_rec c U = Some V ->
  let n := nr U in
  wf V /\ nr V = n /\ nc V = n /\ (forall i j, j <= i -> get V i j = get U i j) /\
  mmul (unit_upper n U) (unit_upper n V) = mid n /\ mmul (unit_upper n V) (unit_upper n U) = mid n.
Proof. exact trtri_spec. Qed.
Print Assumptions C05_trtri.

(** on a unit upper triangular matrix: its inverse, again unit upper triangular *)
Theorem C05_trtri_unit : forall (c : cfg) (n : nat) (U V : mat),
  is_unit_upper n U -> trtri_upper_rec c U = Some V ->
  is_unit_upper n V /\ mmul U V = mid n /\ mmul V U = mid n.
Proof. exact trtri_spec_unit. Qed.
Print Assumptions C05_trtri_unit.

(** for every configuration the recursive model agrees with the substitution model *)
Theorem C05_trtri_rec_is_simple : forall (c : cfg) (U V : mat),
  wf U -> nr U = nc U -> diag_ones (nr U) U -> trtri_upper_rec c U = Some V -> V = trtri_upper_simple U.
Proof. exact trtri_upper_rec_simple. Qed.
Print Assumptions C05_trtri_rec_is_simple.

(** the same over the faithful solvers of Alg/TRSMRec.v (any Four-Russians parameter kk >= 1) *)
Theorem C05_trtri_rec_f_is_simple : forall (c : cfg) (kk : nat) (U V : mat),
  1 <= kk -> wf U -> nr U = nc U -> diag_ones (nr U) U -> trtri_upper_rec_f c kk U = Some V ->
  V = trtri_upper_simple U.
Proof. exact trtri_upper_rec_f_simple. Qed.
Print Assumptions C05_trtri_rec_f_is_simple.

(** it never flags misbehaviour when the recursion threshold 2*L3 exceeds 64^2 (128^2 with SSE2) *)
Theorem C05_trtri_total : forall (c : cfg) (U : mat), trtri_cfg_ok c -> nr U = nc U ->
  exists V, trtri_upper_rec c U = Some V.
Proof. exact trtri_upper_rec_total. Qed.
Print Assumptions C05_trtri_total.

(** ... and does otherwise *)
Theorem C05_trtri_small_cache_fails : exists c U, is_unit_upper 4 U /\ trtri_upper_rec c U = None.
Proof. exact trtri_small_cache_fails. Qed.
Print Assumptions C05_trtri_small_cache_fails.

(** the recursion, for arbitrary base routine and solvers *)
Theorem C05_trtri_generic :
  forall (tbase : mat -> mat) (ul ur : mat -> mat -> mat) (c : cfg),
  (forall U n, wf U -> nr U = n -> nc U = n -> diag_ones n U -> trtri_ok n U (tbase U)) ->
  (forall U B, wf B -> nr B <= length (rows U) -> solves_ul U B (ul U B)) ->
  (forall U B, wf B -> nc B <= length (rows U) -> diag_ones (nc B) U -> solves_ur U B (ur U B)) ->
  forall fuel U n, wf U -> nr U = n -> nc U = n -> diag_ones n U -> n <= fuel ->
  forall V, trtri_rec tbase ul ur c fuel U = Some V -> trtri_ok n U V.
Proof. exact trtri_rec_ok. Qed.
Print Assumptions C05_trtri_generic.

(** * Non-vacuity *)
Definition prand5 (bits : nat) (i : nat) : N :=
  N.land (N.shiftr (((N.of_nat i + 17) * 11400714819323198485) ^ 5) 7) (N.ones (N.of_nat bits)).
(** 70 x 70 storage full of pseudo-random bits; A70 = (unit lower part) * (unit upper part) *)
Definition S70 : mat := mk 70 70 (map (prand5 70) (seq 0 70)).
Definition A70 : mat := mmul (unit_lower 70 S70) (unit_upper 70 S70).

Example C05_hyps_inv : wf A70 /\ invertible A70 /\ 0 < nr A70.
Proof.
  split; [apply wfb_spec; vm_compute; reflexivity|]. split; [|vm_compute; lia].
  split; [reflexivity|]. exists (inv_m4ri_faithful 3 A70).
  split; [apply wfb_spec; vm_compute; reflexivity|].
  split; [reflexivity|]. split; [reflexivity|]. split; vm_compute; reflexivity.
Qed.

(** the three routines on this input (identity block at column 128 in the faithful model) *)
Example C05_run_inv :
  inv_m4ri_model A70 = Some (inv_m4ri_faithful 0 A70) /\
  invert_naive_model A70 (mid 70) = Some (inv_m4ri_faithful 8 A70) /\
  mmul A70 (inv_m4ri_faithful 0 A70) = mid 70.
Proof. split; [|split]; vm_compute; reflexivity. Qed.

(** 200 x 200 storage with unit diagonal and garbage below it; in configuration [c_tr] (SSE2,
    2*L3 = 20000) mzd_trtri_upper recurses once: split 128, blocks 128 and 72 *)
Definition U200 : mat := mk 200 200 (map (fun i => N.lor (prand5 200 i) (2 ^ N.of_nat i)) (seq 0 200)).
Definition c_tr : cfg := mkcfg 64 20000 true.

Example C05_hyps_trtri : wf U200 /\ nr U200 = nc U200 /\ diag_ones (nr U200) U200 /\ trtri_cfg_ok c_tr /\
  get U200 100 3 = true /\ (exists V, trtri_upper_rec c_tr U200 = Some V).
Proof.
  split; [apply wfb_spec; vm_compute; reflexivity|]. split; [reflexivity|].
  split; [|split; [reflexivity|split; [vm_compute; reflexivity|]]].
  - intros i Hi. assert (E : forallb (fun i => get U200 i i) (seq 0 200) = true) by (vm_compute; reflexivity).
    rewrite forallb_forall in E. apply E. apply in_seq. cbn [nr U200] in Hi. lia.
  - apply trtri_upper_rec_total; reflexivity.
Qed.

Example C05_run_trtri :
  match trtri_upper_rec c_tr U200 with
  | Some V => mmul (unit_upper 200 U200) (unit_upper 200 V) = mid 200 /\ get V 100 3 = true
  | None => False
  end.
Proof. vm_compute. split; reflexivity. Qed.

(** * the Four-Russians base routine mzd_trtri_upper_russian (faithful model) = the substitution model, bit for bit,
    for every admissible table parameter; garbage below the diagonal is allowed and left untouched *)
Theorem C05_trtri_russian : forall k n U, 1 <= k <= 16 ->
  wf U -> nr U = n -> nc U = n -> diag_ones n U ->
  trtri_upper_russian k U = trtri_upper_simple U.
Proof. exact C05_trtri_russian_simple. Qed.
Print Assumptions C05_trtri_russian.

Theorem C05_trtri_russian_inverts : forall k n U, 1 <= k <= 16 ->
  wf U -> nr U = n -> nc U = n -> diag_ones n U -> trtri_ok n U (trtri_upper_russian k U).
Proof. exact C05_trtri_russian_ok. Qed.
Print Assumptions C05_trtri_russian_inverts.

(** mzd_trtri_upper with the library's own base routine and the faithful solvers: same result as the recursion over
    the substitution model, and the specification of the inverse *)
Theorem C05_trtri_rec_real_base : forall c kt kk U, 1 <= kt <= 16 -> wf U -> nr U = nc U -> diag_ones (nr U) U ->
  trtri_upper_rec_fr c kt kk U = trtri_upper_rec_f c kk U.
Proof. exact trtri_upper_rec_fr_eq. Qed.
Print Assumptions C05_trtri_rec_real_base.

Theorem C05_trtri_rec_real_base_inverts : forall c kt kk U V, 1 <= kt <= 16 -> 1 <= kk ->
  wf U -> nr U = nc U -> diag_ones (nr U) U ->
  trtri_upper_rec_fr c kt kk U = Some V -> trtri_ok (nr U) U V.
Proof. exact trtri_upper_rec_fr_ok. Qed.
Print Assumptions C05_trtri_rec_real_base_inverts.

Example C05_trtri_russian_nonvacuous : exists k n U, 1 <= k <= 16 /\ wf U /\ nr U = n /\ nc U = n /\ diag_ones n U /\ 4 * k <= n.
Proof.
  exists 2, 9, U9. destruct C05_trtri_russian_hyps as (H1 & H2 & H3 & H4 & _).
  split; [lia|]. split; [exact H1|]. split; [exact H2|]. split; [exact H3|]. split; [exact H4|lia].
Qed.
