(* Properties/Properties_C17t.v — C17 ("Observers agree with the abstract matrix: equal, cmp, is_zero, pivots, zero
   rows"), for the C TEXT of the observers of m4ri/mzd.c.

   The functions are translated from the clang AST of the working tree by tools/translate_obs.py into
   Leaf/Gen_observers.v on every check run (struct mode as for Properties_C13t.v: `mzd_t *M` is the bundle of its
   members; M->data is a (block, offset) pointer into the word array) and executed by the CMini interpreter of
   Leaf/CMini.v.

   [run_obs f args ws = Ok (r, ws')]: the call of f on the word array ws terminates without undefined behaviour
   (signed overflow, shift count out of range), out-of-bounds access or uninitialised read, returns r, and ws' is
   the word array afterwards.  [hbundle h fl tail]: the members of the header h (Word/WMat.v: nrows, ncols, width,
   rowstride, high_bitmask and [h_off] = offset of M->data inside the array; flags = fl), then the remaining
   arguments (for two matrices: a second bundle; both live in the ONE array — two windows of one parent, or two
   disjoint blocks).  [abs h mem] is the matrix (Lin/Mat.v) that the header h views in the array mem; the
   right-hand sides are the matrix-level models of Lin/Ops.v, whose meaning in terms of [get] is C17_* of
   Properties_C17.v.  Since the right-hand sides depend on [abs h mem] only, the bits of the parent beyond ncols in
   the last word of a row, the words between the rows and the rest of the parent do not influence the result; the
   array is unchanged.

   Domain: [valid h mem] (header consistent, all rows inside the array, words < 2^64), [c_dom h fl mem] (members
   fit their C types, array shorter than 2^48 words: no int / int64_t computation of the C text overflows and the
   interpreter's loop fuel of 2^48 iterations is not exhausted), at least one column.  All statements are for ALL
   such headers (any window offset, any rowstride) and array contents. *)
From Coq Require Import ZArith NArith List String Bool Lia.
From M4 Require Import Base.Bits Lin.Mat Lin.Ops Word.WMat Word.WOps Leaf.CMini Leaf.CMiniAcc Leaf.Gen_observers
  Leaf.AccessSpecs Leaf.CMiniAcc2 Leaf.ObsSpecs Leaf.ObsSpecs4 Leaf.ObsSpecs5 Leaf.ObsSpecs7 Leaf.ObsSpecs8
  Leaf.ObsSpecs9 Leaf.ObsSpecs10 Leaf.ObsSpecs13.
Import ListNotations.
Local Open Scope Z_scope.

(** ** mzd_is_zero (mzd.c:1654) = Ops.is_zero *)
Theorem C17t_is_zero : forall h fl mem,
  valid h mem -> c_dom h fl mem -> (0 < h_ncols h)%nat ->
  run_obs "mzd_is_zero" (hbundle h fl []) (words mem) = Ok (Some (Z.b2z (is_zero (abs h mem))), words mem).
Proof. exact mzd_is_zero_spec. Qed.
Print Assumptions C17t_is_zero.

(** ** mzd_first_zero_row (mzd.c:1851) = Ops.first_zero_row *)
Theorem C17t_first_zero_row : forall h fl mem,
  valid h mem -> c_dom h fl mem -> (0 < h_ncols h)%nat ->
  run_obs "mzd_first_zero_row" (hbundle h fl []) (words mem) =
  Ok (Some (Z.of_nat (first_zero_row (abs h mem))), words mem).
Proof. exact mzd_first_zero_row_spec. Qed.
Print Assumptions C17t_first_zero_row.

(** ** mzd_equal (mzd.c:1333) = Ops.mequal.  [same] is the truth value of the C test `A == B` (the extra parameter
    A__is__B of the translated function): identical objects have identical members; for BOTH values the result
    is that of the matrix-level model. *)
Theorem C17t_equal : forall hA flA hB flB mem (same : bool),
  valid hA mem -> valid hB mem -> c_dom hA flA mem -> c_dom hB flB mem -> (0 < h_ncols hA)%nat ->
  (same = true -> hA = hB) ->
  run_obs "mzd_equal" (hbundle hA flA (hbundle hB flB [Vint (Z.b2z same)])) (words mem) =
  Ok (Some (Z.b2z (mequal (abs hA mem) (abs hB mem))), words mem).
Proof. exact mzd_equal_spec. Qed.
Print Assumptions C17t_equal.

(** ** mzd_cmp (mzd.c:1352) = Ops.mcmp, as -1 / 0 / 1 *)
Theorem C17t_cmp : forall hA flA hB flB mem,
  valid hA mem -> valid hB mem -> c_dom hA flA mem -> c_dom hB flB mem -> (0 < h_ncols hA)%nat ->
  run_obs "mzd_cmp" (hbundle hA flA (hbundle hB flB [])) (words mem) =
  Ok (Some (match mcmp (abs hA mem) (abs hB mem) with Lt => -1 | Eq => 0 | Gt => 1 end), words mem).
Proof. exact mzd_cmp_spec. Qed.
Print Assumptions C17t_cmp.

(** ** mzd_find_pivot (mzd.c:1686) = Ops.find_pivot.  The output parameters `rci_t *r, *c` are the two cells of a
    local block (block 2 of [mem2], initially uninitialised): [pivot_args] passes &cell0, &cell1.  The function
    returns 1 and writes row and column of the pivot into exactly these cells ([pivot_cells]), or returns 0 and
    writes nothing; the word array is unchanged.
    All four paths of the C function are covered (fewer than 64 columns left: mzd_read_bits per row; otherwise
    first word under mask_begin, complete words, last word under mask_end; each with the m4ri_lesser_LSB scan,
    its early `break`, and the bit search).
    The hypothesis start_col + 64 <= INT_MAX (needed only when fewer than 64 columns are left) is necessary:
    `j += m4ri_radix` (mzd.c:1692) overflows `int` otherwise ([C17t_find_pivot_overflow]: undefined behaviour,
    for a matrix with 2^31 - 1 columns). *)
Theorem C17t_find_pivot : forall h fl mem r0 c0,
  valid h mem -> c_dom h fl mem -> (r0 <= h_nrows h)%nat -> (c0 < h_ncols h)%nat ->
  ((h_ncols h - c0 < 64)%nat -> Z.of_nat c0 + 64 <= 2147483647) ->
  run zops obs_prog LFUEL DEPTH "mzd_find_pivot" (pivot_args h fl r0 c0) (mem2 (words mem) 2 TLeaf) =
  Ok (Some (Vint (match find_pivot (abs h mem) r0 c0 with Some _ => 1 | None => 0 end)),
      mem2 (words mem) 2 (pivot_cells (find_pivot (abs h mem) r0 c0))).
Proof. exact mzd_find_pivot_spec. Qed.
Print Assumptions C17t_find_pivot.

Example C17t_find_pivot_overflow :
  run zops obs_prog LFUEL DEPTH "mzd_find_pivot"
    (bundle 0 2147483647 33554432 33554432 0 9223372036854775807 0
       [Vint 0; Vint 2147483600; Vptr 2%positive 0; Vint 0; Vptr 2%positive 0; Vint 1]) (mem2 [] 2 TLeaf) =
  UB "signed overflow".
Proof. exact find_pivot_overflow. Qed.

(** ** The two small writers of mzd.c (frame [outside] as in Properties_C13t.v).
    mzd_row_clear_offset (mzd.c:197) = Ops.row_clear_offset *)
Theorem C17t_row_clear_offset : forall h fl mem r co,
  valid h mem -> c_dom h fl mem -> (r < h_nrows h)%nat -> (co < h_ncols h)%nat ->
  exists m', run_obs "mzd_row_clear_offset" (hbundle h fl [Vint (Z.of_nat r); Vint (Z.of_nat co)]) (words mem) =
               Ok (None, words m') /\
    List.length m' = List.length mem /\ mem_ok m' /\
    abs h m' = row_clear_offset (abs h mem) r co /\ outside h mem m'.
Proof. exact mzd_row_clear_offset_spec. Qed.
Print Assumptions C17t_row_clear_offset.

(** mzd_copy_row (mzd.c:1666) = Ops.copy_row; B, i, A, j in the order of the C parameters; the source is the
    destination itself or shares no word with it ([alias_ok]) *)
Theorem C17t_copy_row : forall hB flB hA flA mem i j,
  valid hB mem -> valid hA mem -> c_dom hB flB mem -> c_dom hA flA mem ->
  (i < h_nrows hB)%nat -> (j < h_nrows hA)%nat -> (0 < h_ncols hA)%nat -> (h_ncols hA <= h_ncols hB)%nat ->
  alias_ok hB hA ->
  exists m', run_obs "mzd_copy_row" (hbundle hB flB (Vint (Z.of_nat i) :: hbundle hA flA [Vint (Z.of_nat j)]))
                     (words mem) = Ok (None, words m') /\
    List.length m' = List.length mem /\ mem_ok m' /\
    abs hB m' = copy_row (abs hB mem) i (abs hA mem) j /\ outside hB mem m'.
Proof. exact mzd_copy_row_spec. Qed.
Print Assumptions C17t_copy_row.

(** ** Non-vacuity.  The domain hypotheses hold for two overlapping 3 x 70 windows (rows 1..3 and 0..2, columns
    64..133, [h_off] 5 and 1) of a 6 x 200 matrix. *)
Example C17t_hypotheses_satisfiable :
  let hA := window_hdr (init_hdr 6 200) 1 64 4 134 in
  let hB := window_hdr (init_hdr 6 200) 0 64 3 134 in
  let mem := repeat 0%N 30 in
  valid hA mem /\ valid hB mem /\ c_dom hA 4 mem /\ c_dom hB 4 mem /\ (0 < h_ncols hA)%nat /\
  h_off hA = 5%nat /\ h_off hB = 1%nat /\ (false = true -> hA = hB).
Proof. exact obs_dom_example. Qed.

(** A concrete run.  Parent 6 x 200 (rowstride 4, 24 words + 6 spare), every word all-ones EXCEPT: the view words
    of rows 1..3 of window A (columns 64..133: word 1 and the low 6 bits of word 2 of each row) are zero.  So A is
    the zero matrix although its last words carry 58 foreign one-bits each and all words around it are all-ones;
    window B (rows 0..2) has the all-ones row 0 on top of two zero rows. *)
Definition c17t_mem : list N :=
  let f := N.ones 64 in let p := N.shiftl (N.ones 58) 6 in
  [f; f; f; f;  f; 0; p; f;  f; 0; p; f;  f; 0; p; f;  f; f; f; f;  f; f; f; f;  f; f; f; f; f; f]%N.

Example C17t_concrete_run :
  let hA := window_hdr (init_hdr 6 200) 1 64 4 134 in
  let hB := window_hdr (init_hdr 6 200) 0 64 3 134 in
  let ws := words c17t_mem in
  validb hA c17t_mem = true /\ validb hB c17t_mem = true /\
  run_obs "mzd_is_zero" (hbundle hA 4 []) ws = Ok (Some 1, ws) /\
  run_obs "mzd_is_zero" (hbundle hB 4 []) ws = Ok (Some 0, ws) /\
  run_obs "mzd_first_zero_row" (hbundle hA 4 []) ws = Ok (Some 0, ws) /\
  run_obs "mzd_first_zero_row" (hbundle hB 4 []) ws = Ok (Some 1, ws) /\
  run_obs "mzd_equal" (hbundle hA 4 (hbundle hB 4 [Vint 0])) ws = Ok (Some 0, ws) /\
  run_obs "mzd_equal" (hbundle hA 4 (hbundle hA 4 [Vint 0])) ws = Ok (Some 1, ws) /\
  run_obs "mzd_equal" (hbundle hA 4 (hbundle hA 4 [Vint 1])) ws = Ok (Some 1, ws) /\
  run_obs "mzd_cmp" (hbundle hA 4 (hbundle hB 4 [])) ws = Ok (Some (-1), ws) /\
  run_obs "mzd_cmp" (hbundle hB 4 (hbundle hA 4 [])) ws = Ok (Some 1, ws) /\
  run_obs "mzd_cmp" (hbundle hA 4 (hbundle hA 4 [])) ws = Ok (Some 0, ws).
Proof. vm_compute. repeat split; reflexivity. Qed.

(** non-vacuity of the pivot and writer theorems (windows with foreign bits of the parent in the last words) *)
Example C17t_find_pivot_hypotheses_satisfiable :
  let h := window_hdr (init_hdr 6 200) 1 64 4 134 in
  valid h ex_mem /\ c_dom h 4 ex_mem /\ (1 <= h_nrows h)%nat /\
  ((3 < h_ncols h)%nat /\ ((h_ncols h - 3 < 64)%nat -> Z.of_nat 3 + 64 <= 2147483647)) /\
  ((40 < h_ncols h)%nat /\ ((h_ncols h - 40 < 64)%nat -> Z.of_nat 40 + 64 <= 2147483647)) /\
  run zops obs_prog LFUEL DEPTH "mzd_find_pivot" (pivot_args h 4 1 3) (mem2 (words ex_mem) 2 TLeaf) =
  Ok (Some (Vint 1), mem2 (words ex_mem) 2 (pivot_cells (Some (2, 50)%nat))).
Proof. exact find_pivot_full_dom_example. Qed.

Example C17t_find_pivot_run :
  let h := window_hdr (init_hdr 6 200) 1 64 4 134 in
  valid h ex_mem /\ find_pivot (abs h ex_mem) 1 40 = Some (2, 50)%nat /\
  run zops obs_prog LFUEL DEPTH "mzd_find_pivot" (pivot_args h 4 1 40) (mem2 (words ex_mem) 2 TLeaf) =
  Ok (Some (Vint 1), mem2 (words ex_mem) 2 (pivot_cells (Some (2, 50)%nat))) /\
  run zops obs_prog LFUEL DEPTH "mzd_find_pivot" (pivot_args h 4 1 3) (mem2 (words ex_mem) 2 TLeaf) =
  Ok (Some (Vint 1), mem2 (words ex_mem) 2 (pivot_cells (Some (2, 50)%nat))).
Proof. exact find_pivot_run_example. Qed.

Example C17t_row_clear_offset_hypotheses_satisfiable :
  valid rco_h rco_mem /\ c_dom rco_h 4 rco_mem /\ (1 < h_nrows rco_h)%nat /\ (3 < h_ncols rco_h)%nat /\
  h_off rco_h = 5%nat /\ h_ncols rco_h = 70%nat.
Proof. exact obs_row_clear_offset_dom_example. Qed.

Example C17t_copy_row_hypotheses_satisfiable :
  valid cr_hB cr_mem /\ valid cr_hA cr_mem /\ c_dom cr_hB 4 cr_mem /\ c_dom cr_hA 4 cr_mem /\
  (1 < h_nrows cr_hB)%nat /\ (1 < h_nrows cr_hA)%nat /\ (0 < h_ncols cr_hA)%nat /\
  (h_ncols cr_hA <= h_ncols cr_hB)%nat /\ alias_ok cr_hB cr_hA /\ alias_ok cr_hB cr_hB /\
  h_off cr_hB = 1%nat /\ h_off cr_hA = 9%nat /\ h_ncols cr_hA = 70%nat.
Proof. exact obs_copy_row_dom_example. Qed.
