(* Properties/Properties_C01b.v — C01 (Strassen-Winograd routes of strassen.c, front end of mp.c) and the
   C16 commutation of the mp.c section tasks.  Statements only; proofs are in Alg/StrassenProofs.v, the
   schedules in Alg/StrassenGen.v are regenerated from /repo by tools/sched_extract.py.
   [base] stands for _mzd_mul_m4rm(C,A,B,0,clear), [dflt] for __M4RI_STRASSEN_MUL_CUTOFF. *)
From Coq Require Import String List NArith Arith Bool ZArith Lia.
From M4 Require Import Base.Bits Lin.Mat Lin.MatAlg Lin.Ops Word.WMat
  Alg.Strassen Alg.StrassenGen Alg.StrassenProofs.
Import ListNotations.
Local Open Scope nat_scope.

Lemma gen_table_ok : forall k, check_sched (gen_table k) = true.
Proof. intros []; [exact sched_mul_ok|exact sched_sqr_ok|exact sched_addmul_ok|exact sched_addsqr_ok]. Qed.
Lemma gen_mp_ok : forall b, check_mp (gen_mp b) = true.
Proof. intros []; [exact sched_mp_addmul_ok|exact sched_mp_mul_ok]. Qed.

(** generic soundness of the schedule checker: a block schedule accepted by [check_body] computes, for
    all concrete operands whose quadrants have the dimensions [E] assigns to the split variables and
    for every correct recursive multiplier [rec], the 2x2 block product into the leading quadrants
    of C and leaves the rest of C alone *)
Theorem C01_check_sched_sound :
  forall (dflt : nat) (rec : kind -> bool -> nat -> mat -> mat -> mat -> res mat)
    (cutoff : nat) (k : kind) (wins : list (string * winexp)) (E : env) (A B C0 : mat) (D : nat),
  wf A -> wf B -> wf C0 ->
  (forall v : var, dim_ok k v = true -> E v <= D) ->
  2 * pdr k E PA <= nr A /\ 2 * pdc k E PA <= nc A ->
  2 * pdr k E PB <= nr B /\ 2 * pdc k E PB <= nc B ->
  2 * pdr k E PC <= nr C0 /\ 2 * pdc k E PC <= nc C0 ->
  (forall (kk : kind) (w : bool) (c : nat) (Cd Xm Ym : mat),
      wf Cd -> wf Xm -> wf Ym -> nc Xm = nr Ym -> nr Cd = nr Xm -> nc Cd = nc Ym ->
      (k_sqr kk = true -> Ym = Xm) -> c = cutoff \/ c = norm_cutoff dflt cutoff ->
      (exists v1 v2 v3 : var, dim_ok k v1 = true /\ dim_ok k v2 = true /\ dim_ok k v3 = true /\
                              nr Xm = E v1 /\ nc Xm = E v2 /\ nc Ym = E v3) ->
      rec kk w c Cd Xm Ym = Ok (acc_spec kk Cd Xm Ym)) ->
  forall (tmps : list (string * (aexp * aexp))) (body : list instr),
  check_body k wins tmps body = true ->
  exists st1 : state,
    run_body dflt rec cutoff E (fenv_of A B C0) A B wins body
             {| sC := C0; sT := init_tmps E A B C0 tmps |} = Ok st1 /\
    wf (sC st1) /\ nr (sC st1) = nr C0 /\ nc (sC st1) = nc C0 /\
    (forall i j : nat, ~ (i < 2 * pdr k E PC /\ j < 2 * pdc k E PC) -> get (sC st1) i j = get C0 i j) /\
    (forall i j : nat, i < 2 * pdr k E PC -> j < 2 * pdc k E PC ->
       get (sC st1) i j =
       xorb (k_acc k && get C0 i j)
            (xsum (2 * pdc k E PA) (fun t : nat => get A i t && get (Bm k A B) t j))).
Proof. exact check_body_sound. Qed.
Print Assumptions C01_check_sched_sound.

(** the four mutually recursive routines _mzd_mul_even / _mzd_sqr_even / _mzd_addmul_even /
    _mzd_addsqr_even with the schedules extracted from the C source: every fuel exceeding
    log2 of the largest dimension suffices, every cutoff >= 63 *)
Theorem C01_strassen :
  forall base dflt, base_correct base ->
  forall f k w c C X Y, 63 <= c -> wf C -> wf X -> wf Y -> nc X = nr Y -> nr C = nr X -> nc C = nc Y ->
    (k_sqr k = true -> Y = X) -> 0 < nr X -> 0 < nc X -> 0 < nc Y ->
    Nat.log2 (Nat.max (nr X) (Nat.max (nc X) (nc Y))) < f ->
    strassen_gen base dflt f k w c C X Y = Ok (acc_spec k C X Y).
Proof.
  exact (fun base dflt Hb => strassen_spec base dflt gen_table Hb gen_table_ok sched_kinds).
Qed.
Print Assumptions C01_strassen.

(** mzd_mul: for every cutoff >= 0, every default cutoff, windowed or not, C supplied or NULL,
    A == B (squaring route) or not *)
Theorem C01_mul :
  forall base dflt, base_correct base ->
  forall cutoff (same : bool) win Copt A B,
    let B' := if same then A else B in
    wf A -> wf B' -> nc A = nr B' -> 0 < nr A -> 0 < nc A -> 0 < nc B' -> (0 <= cutoff)%Z ->
    dest_ok Copt A B' -> ub_guard (norm_cutoff dflt (Z.to_nat cutoff)) A B' = false ->
    mzd_mul_gen base dflt cutoff same win Copt A B = Ok (mmul A B').
Proof.
  exact (fun base dflt Hb => mzd_mul_spec base dflt gen_table Hb gen_table_ok sched_kinds).
Qed.
Print Assumptions C01_mul.

Theorem C01_addmul :
  forall base dflt, base_correct base ->
  forall cutoff (same : bool) win Copt A B,
    let B' := if same then A else B in
    wf A -> wf B' -> nc A = nr B' -> 0 < nr A -> 0 < nc A -> 0 < nc B' -> (0 <= cutoff)%Z ->
    dest_ok Copt A B' -> ub_guard (norm_cutoff dflt (Z.to_nat cutoff)) A B' = false ->
    mzd_addmul_gen base dflt cutoff same win Copt A B = Ok (madd (dest Copt A B') (mmul A B')).
Proof.
  exact (fun base dflt Hb => mzd_addmul_spec base dflt gen_table Hb gen_table_ok sched_kinds).
Qed.
Print Assumptions C01_addmul.

(** _mzd_addmul as the TRSM routines call it (cutoff not normalised) *)
Theorem C01__mzd_addmul :
  forall base dflt, base_correct base ->
  forall cutoff (same : bool) win C A B,
    let B' := if same then A else B in
    63 <= cutoff -> wf C -> wf A -> wf B' -> nc A = nr B' -> nr C = nr A -> nc C = nc B' ->
    0 < nr A -> 0 < nc A -> 0 < nc B' ->
    _mzd_addmul_gen base dflt cutoff same win C A B = Ok (madd C (mmul A B')).
Proof.
  exact (fun base dflt Hb => _mzd_addmul_spec base dflt gen_table Hb gen_table_ok sched_kinds).
Qed.
Print Assumptions C01__mzd_addmul.

Theorem C01_mul_dies :
  forall base dflt cutoff win Copt A B,
    nc A <> nr B \/ (cutoff < 0)%Z \/ (exists C, Copt = Some C /\ (nr C <> nr A \/ nc C <> nc B)) ->
    mzd_mul_gen base dflt cutoff false win Copt A B = Err Die.
Proof. exact (fun base dflt => mzd_mul_dies base dflt gen_table). Qed.
Print Assumptions C01_mul_dies.

(** the bound 63 <= cutoff of C01__mzd_addmul is necessary (finding; the library segfaults on this
    input, also through mzd_trsm_upper_left(U, B, 32) with U 8191x8191, B 8191x4096) *)
Theorem C01__mzd_addmul_small_cutoff_refuted :
  exists cutoff C A B, 0 < cutoff < 63 /\ wf C /\ wf A /\ wf B /\ nc A = nr B /\ nr C = nr A /\ nc C = nc B /\
    0 < nr A /\ 0 < nc A /\ 0 < nc B /\
    _mzd_addmul_gen base_ref 2048 cutoff false false C A B = Err OOB.
Proof. exact addmul_small_cutoff_refuted. Qed.
Print Assumptions C01__mzd_addmul_small_cutoff_refuted.

(** C16: tasks that write one quadrant each: every interleaving of the task lists leaves in a
    quadrant exactly what the section owning it computes *)
Theorem C16_sections_commute :
  forall (A B : mat) (ar ac bc : nat), wf A -> wf B ->
    2 * ar <= nr A /\ 2 * ac <= nc A -> 2 * ac <= nr B /\ 2 * bc <= nc B ->
  forall (secs : list (list mop)) (order : list mop) (C : mat),
    interleaving secs order -> okC ar bc C -> Forall (Forall okop) secs ->
    forall n i j, i < 2 -> j < 2 ->
      (forall o, In o (nth n secs []) -> here i j o = true) ->
      (forall m, m <> n -> forall o, In o (nth m secs []) -> here i j o = false) ->
      cblk ar bc (sem_run A B ar ac bc order C) i j =
      fold_left (loc_step A B ar ac bc) (nth n secs []) (cblk ar bc C i j).
Proof. exact sections_commute. Qed.
Print Assumptions C16_sections_commute.

(** mp.c, base-case branch, every task order.  The full statement (all branches) is in the comment
    above [mp4_base_partial] in Alg/StrassenProofs.v. *)
Theorem C01_mp_base_partial :
  forall base dflt, base_correct base ->
  forall acc order c C A B,
    wf C -> wf A -> wf B -> nc A = nr B -> nr C = nr A -> nc C = nc B ->
    0 < nr A -> 0 < nc A -> 0 < nc B ->
    closer (nr A) c || (closer (nc A) c || (closer (nc B) c || false)) = true ->
    mp4_gen base dflt order acc c C A B = Ok (if acc then madd C (mmul A B) else mmul A B).
Proof.
  exact (fun base dflt Hb acc order c C A B =>
           mp4_base_partial base dflt gen_table gen_mp Hb acc order c C A B (gen_mp_ok acc) (sched_mp_accs acc)).
Qed.
Print Assumptions C01_mp_base_partial.

(* ------------------------------------------------------------------------------------------ *)
(** non-vacuity: a correct base multiplier exists, and the models run (one recursion level with
    remainder strips in every direction; squaring route; accumulating route on a window; the mp
    front end with its sections in program order) *)
Example base_ref_is_correct : base_correct base_ref.
Proof. exact base_ref_correct. Qed.

Definition rnd (r c : nat) (s : N) : mat :=
  mk r c (map (fun i => N.land (N.of_nat i * 2654435761 + s * 40503 + (N.of_nat i * N.of_nat i) * 97)
                               (N.ones (N.of_nat c)))%N (seq 0 r)).

Example ex_mul : mzd_mul_gen base_ref 2048 64%Z false false None (rnd 200 130 1) (rnd 130 300 2)
                 = Ok (mmul (rnd 200 130 1) (rnd 130 300 2)).
Proof. vm_compute. reflexivity. Qed.
Example ex_sqr : mzd_mul_gen base_ref 2048 64%Z true false None (rnd 257 257 3) (rnd 1 1 0)
                 = Ok (mmul (rnd 257 257 3) (rnd 257 257 3)).
Proof. vm_compute. reflexivity. Qed.
Example ex_addmul : mzd_addmul_gen base_ref 2048 64%Z false true (Some (rnd 260 129 5)) (rnd 260 300 1) (rnd 300 129 2)
                 = Ok (madd (rnd 260 129 5) (mmul (rnd 260 300 1) (rnd 300 129 2))).
Proof. vm_compute. reflexivity. Qed.
Example ex_mp : mp4_gen base_ref 2048 (concat (mp_sections (gen_mp false))) false 64
                        (rnd 260 129 5) (rnd 260 300 1) (rnd 300 129 2)
                 = Ok (mmul (rnd 260 300 1) (rnd 300 129 2)).
Proof. vm_compute. reflexivity. Qed.
Example ex_hyps : wf (rnd 200 130 1) /\ wf (rnd 130 300 2) /\ ub_guard (norm_cutoff 2048 64) (rnd 200 130 1) (rnd 130 300 2) = false.
Proof. repeat split; try (apply wfb_spec; vm_compute; reflexivity). Qed.
