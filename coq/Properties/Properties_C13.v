(* Properties/Properties_C13.v — C13 "Row/column operations and permutation application follow
   LAPACK swap semantics", matrix level.  Statements only; proofs are in Lin/OpsProofs.v and
   Lin/Perm.v.  The operations are the executable models of Lin/Ops.v that the correspondence
   harness runs against the C library. *)
From Coq Require Import List NArith Arith Lia Bool.
From M4 Require Import Base.Bits Lin.Mat Lin.MatAlg Lin.Ops Lin.Spec Lin.OpsProofs Lin.Perm Lin.Combine.
Import ListNotations.
Local Open Scope nat_scope.

(** * 1. elementary operations affect exactly the addressed entries *)

Theorem C13_row_swap : forall M a b i j, wf M -> a < nr M -> b < nr M ->
  get (row_swap M a b) i j = get M (if i =? a then b else if i =? b then a else i) j.
Proof. exact get_row_swap. Qed.
Print Assumptions C13_row_swap.

Theorem C13_col_swap_in_rows : forall M a b r0 r1 i j,
  get (col_swap_in_rows M a b r0 r1) i j =
  if (r0 <=? i) && (i <? r1)
  then get M i (if j =? a then b else if j =? b then a else j)
  else get M i j.
Proof. exact get_col_swap_in_rows. Qed.
Print Assumptions C13_col_swap_in_rows.

Theorem C13_col_swap : forall M a b i j, wf M ->
  get (col_swap M a b) i j = get M i (if j =? a then b else if j =? b then a else j).
Proof. exact get_col_swap. Qed.
Print Assumptions C13_col_swap.

Theorem C13_row_add_offset : forall M d s c0 i j, wf M -> d < nr M ->
  get (row_add_offset M d s c0) i j = xorb (get M i j) ((i =? d) && (c0 <=? j) && get M s j).
Proof. exact get_row_add_offset. Qed.
Print Assumptions C13_row_add_offset.

Theorem C13_row_add : forall M s d i j, wf M -> d < nr M ->
  get (row_add M s d) i j = xorb (get M i j) ((i =? d) && get M s j).
Proof. exact get_row_add. Qed.
Print Assumptions C13_row_add.

Theorem C13_row_clear_offset : forall M r c0 i j,
  get (row_clear_offset M r c0) i j = get M i j && negb ((i =? r) && (c0 <=? j)).
Proof. exact get_row_clear_offset. Qed.
Print Assumptions C13_row_clear_offset.

Theorem C13_read_bits : forall M x y n k,
  N.testbit (read_bits M x y n) (N.of_nat k) = (k <? n) && get M x (y + k).
Proof. exact testbit_read_bits. Qed.
Print Assumptions C13_read_bits.

Theorem C13_xor_bits : forall M x y n v i j, x < length (rows M) ->
  get (xor_bits M x y n v) i j =
  xorb (get M i j) ((i =? x) && (y <=? j) && (j <? y + n) && N.testbit v (N.of_nat (j - y))).
Proof. exact get_xor_bits. Qed.
Print Assumptions C13_xor_bits.

Theorem C13_clear_bits : forall M x y n i j,
  get (clear_bits M x y n) i j = get M i j && negb ((i =? x) && (y <=? j) && (j <? y + n)).
Proof. exact get_clear_bits. Qed.
Print Assumptions C13_clear_bits.

Theorem C13_copy_row : forall B i A j k c, wf A -> i < length (rows B) ->
  get (copy_row B i A j) k c =
  if k =? i then (if c <? nc A then get A j c else get B i c) else get B k c.
Proof. exact get_copy_row. Qed.
Print Assumptions C13_copy_row.

(** abstract form of "a window write touches only the viewed block" *)
Theorem C13_paste_block : forall A r0 c0 B i j, wf B -> r0 + nr B <= length (rows A) ->
  get (mpaste A r0 c0 B) i j =
  if (r0 <=? i) && (i <? r0 + nr B) && (c0 <=? j) && (j <? c0 + nc B)
  then get B (i - r0) (j - c0) else get A i j.
Proof. exact get_mpaste. Qed.
Print Assumptions C13_paste_block.

Theorem C13_paste_read_back : forall A r0 c0 B, wf B -> r0 + nr B <= length (rows A) ->
  msub (mpaste A r0 c0 B) r0 c0 (nr B) (nc B) = B.
Proof. exact msub_mpaste. Qed.
Print Assumptions C13_paste_read_back.

Theorem C13_ops_preserve_wf : forall M, wf M ->
  (forall a b, wf (row_swap M a b)) /\
  (forall a b r0 r1, a < nc M -> b < nc M -> wf (col_swap_in_rows M a b r0 r1)) /\
  (forall a b, a < nc M -> b < nc M -> wf (col_swap M a b)) /\
  (forall d s c0, wf (row_add_offset M d s c0)) /\
  (forall s d, wf (row_add M s d)) /\
  (forall r c0, wf (row_clear_offset M r c0)) /\
  (forall x y n v, y + n <= nc M -> wf (xor_bits M x y n v)) /\
  (forall x y n, wf (clear_bits M x y n)) /\
  (forall i j b, j < nc M -> wf (write_bit M i j b)) /\
  (forall i A j, wf A -> nc A <= nc M -> wf (copy_row M i A j)) /\
  (forall r0 c0 B, wf B -> c0 + nc B <= nc M -> wf (mpaste M r0 c0 B)) /\
  (forall P, wf P -> nc P <= nc M -> wf (mcopy_into M P)) /\
  wf (extract_u M) /\ wf (extract_l M).
Proof. exact ops_preserve_wf. Qed.
Print Assumptions C13_ops_preserve_wf.

(** * 2. permutation application = swap loops in the stated order *)

Theorem C13_left_ascending : forall A P,
  apply_p_left A P =
  fold_left (fun M i => row_swap M i (nth i P i)) (seq 0 (Nat.min (length P) (nr A))) A.
Proof. exact apply_p_left_swaps. Qed.
Theorem C13_left_trans_descending : forall A P,
  apply_p_left_trans A P =
  fold_left (fun M i => row_swap M i (nth i P i)) (rev (seq 0 (Nat.min (length P) (nr A)))) A.
Proof. exact apply_p_left_trans_swaps. Qed.
Theorem C13_right_descending : forall A P,
  apply_p_right A P =
  fold_left (fun M i => col_swap M i (nth i P i)) (rev (seq 0 (Nat.min (length P) (nc A)))) A.
Proof. exact apply_p_right_swaps. Qed.
Theorem C13_right_trans_ascending : forall A P,
  apply_p_right_trans A P =
  fold_left (fun M i => col_swap M i (nth i P i)) (seq 0 (Nat.min (length P) (nc A))) A.
Proof. exact apply_p_right_trans_swaps. Qed.
Print Assumptions C13_left_ascending.
Print Assumptions C13_left_trans_descending.
Print Assumptions C13_right_descending.
Print Assumptions C13_right_trans_ascending.

(** ascending: swap k is performed LAST; descending: swap k is performed FIRST *)
Theorem C13_left_order : forall P k A, k < nr A -> length P = S k ->
  apply_p_left A P = row_swap (apply_p_left A (firstn k P)) k (nth k P k).
Proof. exact apply_p_left_order. Qed.
Theorem C13_right_order : forall P k A, k < nc A -> length P = S k ->
  apply_p_right A P = apply_p_right (col_swap A k (nth k P k)) (firstn k P).
Proof. exact apply_p_right_order. Qed.
Print Assumptions C13_left_order.
Print Assumptions C13_right_order.

(** * 3. left and right application multiply by the SAME permutation matrix
       Pi_P = apply_p_left (mid n) P, the transposed forms by its transpose *)

Theorem C13_apply_left_is_mul : forall A P, wf A ->
  apply_p_left A P = mmul (apply_p_left (mid (nr A)) P) A.
Proof. exact apply_left_is_mul. Qed.
Print Assumptions C13_apply_left_is_mul.

Theorem C13_apply_right_is_mul : forall A P, wf A -> lapack P (nc A) ->
  apply_p_right A P = mmul A (apply_p_left (mid (nc A)) P).
Proof. exact apply_right_is_mul. Qed.
Print Assumptions C13_apply_right_is_mul.

Theorem C13_apply_left_trans_is_mul : forall A P, wf A -> lapack P (nr A) ->
  apply_p_left_trans A P = mmul (mtrans (apply_p_left (mid (nr A)) P)) A.
Proof. exact apply_left_trans_is_mul. Qed.
Print Assumptions C13_apply_left_trans_is_mul.

Theorem C13_apply_right_trans_is_mul : forall A P, wf A -> lapack P (nc A) ->
  apply_p_right_trans A P = mmul A (mtrans (apply_p_left (mid (nc A)) P)).
Proof. exact apply_right_trans_is_mul. Qed.
Print Assumptions C13_apply_right_trans_is_mul.

Theorem C13_perm_matrix_orthogonal : forall n P, lapack P n ->
  mmul (mtrans (apply_p_left (mid n) P)) (apply_p_left (mid n) P) = mid n /\
  mmul (apply_p_left (mid n) P) (mtrans (apply_p_left (mid n) P)) = mid n.
Proof. exact pmat_orthogonal. Qed.
Print Assumptions C13_perm_matrix_orthogonal.

(** * 4. each application is undone by its transposed counterpart (any LAPACK P, also shorter
       than the dimension) *)
Theorem C13_trans_undoes : forall A P, wf A ->
  (lapack P (nr A) -> apply_p_left_trans (apply_p_left A P) P = A /\
                      apply_p_left (apply_p_left_trans A P) P = A) /\
  (lapack P (nc A) -> apply_p_right_trans (apply_p_right A P) P = A /\
                      apply_p_right (apply_p_right_trans A P) P = A).
Proof. exact trans_undoes. Qed.
Print Assumptions C13_trans_undoes.

(** * 5. the triangular transposed right application: swap i only on the rows above row i *)
Theorem C13_tri_spec : forall A P i0, i0 < nr A ->
  row (apply_p_right_trans_tri A P) i0 =
  row (fold_left (fun M i => col_swap M i (nth i P i)) (seq (S i0) (nc A - S i0)) A) i0.
Proof. exact tri_spec. Qed.
Print Assumptions C13_tri_spec.

Theorem C13_tri_spec_row : forall A P i0, i0 < nr A ->
  row (apply_p_right_trans_tri A P) i0 =
  fold_left (fun r i => bit_swap r i (nth i P i)) (seq (S i0) (nc A - S i0)) (row A i0).
Proof. exact tri_spec_row. Qed.
Print Assumptions C13_tri_spec_row.

(** * 6. the gather kernel (_mzd_apply_p_right_even) against the swap semantics *)
Theorem C13_gather_eq_swaps : forall A P, wf A -> lapack P (nc A) -> lapack P (length P) ->
  apply_p_right_gather true A P = apply_p_right A P.
Proof. exact gather_eq_swaps. Qed.
Print Assumptions C13_gather_eq_swaps.

Theorem C13_gather_eq_swaps_trans : forall A P, wf A -> lapack P (nc A) -> lapack P (length P) ->
  apply_p_right_gather false A P = apply_p_right_trans A P.
Proof. exact gather_eq_swaps_trans. Qed.
Print Assumptions C13_gather_eq_swaps_trans.

Theorem C13_gather_full_length : forall A P notrans, wf A -> lapack P (nc A) -> length P = nc A ->
  apply_p_right_gather notrans A P = if notrans then apply_p_right A P else apply_p_right_trans A P.
Proof. exact gather_eq_swaps_full. Qed.
Print Assumptions C13_gather_full_length.

(** capped variants (start_row, start_col) *)
Theorem C13_gather_even_eq_swaps : forall A P sr sc notrans,
  wf A -> lapack P (nc A) -> lapack P (length P) ->
  apply_p_right_even A P sr sc notrans =
  fold_left (fun M i => col_swap_in_rows M i (nth i P i) sr (nr M))
            (gather_swap_order notrans (Nat.min (length P) (nc A)) sc) A.
Proof. exact gather_even_eq_swaps. Qed.
Print Assumptions C13_gather_even_eq_swaps.

(** what the kernel does for EVERY LAPACK P: the swaps, then every column c >= length whose
    final source index is not c is cleared *)
Theorem C13_gather_general : forall A P sr sc notrans i c, wf A -> lapack P (nc A) -> c < nc A ->
  let len := Nat.min (length P) (nc A) in
  let perm := build_perm notrans (nc A) len sc P in
  get (apply_p_right_even A P sr sc notrans) i c =
  get (apply_p_right_even_swaps A P sr sc notrans) i c &&
  ((i <? sr) || (c <? len) || (nth c perm 0 =? c)).
Proof. exact gather_general. Qed.
Print Assumptions C13_gather_general.

(** FINDING: for a permutation shorter than the number of columns with some P[i] >= length P the
    kernel does NOT implement the documented swap semantics (it clears column P[i]). *)
Theorem C13_gather_short_refuted :
  exists A P, wf A /\ lapack P (nc A) /\
    apply_p_right_gather false A P <> apply_p_right_trans A P /\
    apply_p_right_gather true A P <> apply_p_right A P.
Proof. exact gather_short_refuted. Qed.
Print Assumptions C13_gather_short_refuted.

(** * row combination from given word offsets (mzd.h:920 mzd_combine_even_in_place, :994 mzd_combine_even, :1069
    mzd_combine; models in Lin/Combine.v, run against the library by the C13 check) *)
Theorem C13_combine_in_place : forall A B ar asb br bsb i j, ar < length (rows A) ->
  get (combine_in_place A B ar asb br bsb) i j =
  if (i =? ar) && (64 * asb <=? j) && (j <? nc A)
  then xorb (get A ar j) (get B br (64 * bsb + (j - 64 * asb))) else get A i j.
Proof. exact get_combine_in_place. Qed.
Print Assumptions C13_combine_in_place.

Theorem C13_combine_even : forall C A B cr csb ar asb br bsb i j, cr < length (rows C) ->
  let n := nc A - 64 * asb in
  get (combine_even C A B cr csb ar asb br bsb) i j =
  if (i =? cr) && (64 * csb <=? j) && (j <? 64 * csb + n)
  then xorb (get A ar (64 * asb + (j - 64 * csb))) (get B br (64 * bsb + (j - 64 * csb))) else get C i j.
Proof. exact get_combine_even. Qed.
Print Assumptions C13_combine_even.

Theorem C13_combine_wf : forall A B ar asb br bsb, wf A -> wf (combine_in_place A B ar asb br bsb).
Proof. exact wf_combine_in_place. Qed.
Print Assumptions C13_combine_wf.

(** the dispatch of mzd_combine on "same object, same row, same start word" does not change the result *)
Theorem C13_combine_dispatch : forall C B cr csb br bsb i j, wf C -> cr < nr C -> j < nc C ->
  get (combine_even C C B cr csb cr csb br bsb) i j = get (combine_in_place C B cr csb br bsb) i j.
Proof. exact combine_branches_agree. Qed.
Print Assumptions C13_combine_dispatch.

(** * non-vacuity: a 3 x 70 matrix (two words per row in C) and P = [2;1;2], shorter than 70 *)
Definition exA : mat :=
  mk 3 70 [1180591620717411303423%N; 590295810358705651717%N; 5%N].
Definition exP : list nat := [2; 1; 2].
Definition exQ : list nat := [69; 1; 2].       (* LAPACK for 70 columns, but 69 >= length *)

Example exA_wf : wf exA.
Proof. now rewrite <- wfb_spec. Qed.
Example exP_lapack_rows : lapack exP (nr exA).
Proof. now rewrite <- lapackb_spec. Qed.
Example exP_lapack_cols : lapack exP (nc exA).
Proof. now rewrite <- lapackb_spec. Qed.
Example exP_below_length : lapack exP (length exP).
Proof. now rewrite <- lapackb_spec. Qed.
Example exQ_lapack_cols : lapack exQ (nc exA) /\ ~ lapack exQ (length exQ).
Proof.
  split; [now rewrite <- lapackb_spec|]. rewrite <- lapackb_spec. vm_compute. discriminate.
Qed.

Example ex_row_swap_hyps : wf exA /\ 0 < nr exA /\ 2 < nr exA.
Proof. split; [exact exA_wf|]. vm_compute. lia. Qed.
Example ex_row_swap : rows (row_swap exA 0 2) = [5%N; 590295810358705651717%N; 1180591620717411303423%N].
Proof. vm_compute. reflexivity. Qed.
Example ex_col_swap_cross_word :         (* columns 1 and 69 live in different 64-bit words *)
  map (fun i => (get (col_swap exA 1 69) i 1, get (col_swap exA 1 69) i 69)) [0; 1; 2] =
  map (fun i => (get exA i 69, get exA i 1)) [0; 1; 2].
Proof. vm_compute. reflexivity. Qed.
Example ex_row_add_same_row :            (* d = s: row cleared from column c0 on *)
  rows (row_add_offset exA 0 0 64) = [18446744073709551615%N; 590295810358705651717%N; 5%N].
Proof. vm_compute. reflexivity. Qed.
Example ex_left_right_same_matrix :
  apply_p_left exA exP = mmul (apply_p_left (mid 3) exP) exA /\
  apply_p_right exA exP = mmul exA (apply_p_left (mid 70) exP).
Proof. split; vm_compute; reflexivity. Qed.
Example ex_trans_undoes :
  apply_p_left_trans (apply_p_left exA exP) exP = exA /\
  apply_p_right_trans (apply_p_right exA exQ) exQ = exA.
Proof. split; vm_compute; reflexivity. Qed.
Example ex_order_matters :               (* ascending and descending order really differ *)
  lapack [1; 2; 2] (nr exA) /\ apply_p_left_trans exA [1; 2; 2] <> apply_p_left exA [1; 2; 2].
Proof. split; [now rewrite <- lapackb_spec|]. vm_compute. discriminate. Qed.
Example ex_gather : apply_p_right_gather true exA exP = apply_p_right exA exP /\
                    apply_p_right_gather false exA exP = apply_p_right_trans exA exP.
Proof. split; vm_compute; reflexivity. Qed.
Example ex_gather_loses_column : apply_p_right_gather false exA exQ <> apply_p_right_trans exA exQ.
Proof. vm_compute. discriminate. Qed.
Example ex_tri : rows (apply_p_right_trans_tri exA exQ) =
  [ row (fold_left (fun M i => col_swap M i (nth i exQ i)) [1; 2] exA) 0;
    row (fold_left (fun M i => col_swap M i (nth i exQ i)) [2] exA) 1;
    row exA 2 ].
Proof. vm_compute. reflexivity. Qed.
Example ex_combine :                     (* row 2 of exA ^= columns 64.. of row 0, placed from column 64 on *)
  rows (combine_in_place exA exA 2 1 0 1) = [1180591620717411303423%N; 590295810358705651717%N; 1162144876643701751813%N]
  /\ 2 < length (rows exA).
Proof. split; [vm_compute; reflexivity | vm_compute; lia]. Qed.
