(* Properties/Properties_C04.v — property C04 (triangular solves, four variants).
   Statements only; proofs are in Lin/Tri.v, Alg/TRSMProofs.v (substitution models, uniqueness)
   and Alg/TRSMRecProofs.v (the recursive / regime-switching models of m4ri/triangular.c).

   Reading guide.  [trsm_XX_rec c cutoff T B] is the model of _mzd_trsm_XX(T, B, cutoff) in a build
   with configuration [c] ([blocksize c] = __M4RI_MUL_BLOCKSIZE); T is a STORAGE matrix: only
   [unit_lower n T] resp. [unit_upper n T] (strict named triangle of the leading n x n block,
   implicit unit diagonal) enters the equations, everything else in T is arbitrary.  n = nr B for
   the left and nc B for the right variants.  [nr B <= length (rows T)] says that T has at least n
   rows; it follows from the dimension checks of the public wrappers (second group of theorems).
   All theorems are for every configuration, every cutoff and every input.  The functions are pure:
   T is not modified.

   Abstractions (exactly): (a) mzd_addmul is taken by its specification C + A*B (property C01; note
   that _mzd_trsm_upper_left hands the RAW cutoff to _mzd_addmul, triangular.c:503, whereas the
   other three go through mzd_addmul which normalises it).
   (b) Two families of models.  [trsm_XX_rec] (Alg/TRSM.v, the ones run against the library so far)
   instantiate the <=64 word base cases and the Four-Russians middle regime of the LEFT variants
   with the substitution model.  [trsm_XX_rec_f] (Alg/TRSMRec.v) plug in the sub-routines as the
   C code computes them: the 64-dot-products base cases of the right variants
   (triangular.c:262,361) and the table-driven middle regime of the left variants
   (triangular_russian.c:50,206; tables through Alg/Gray.v make_table, any table parameter
   k >= 1, fresh instead of reused tables).  Both families are proven equal to the substitution
   models for every configuration, k and cutoff; the [C04_generic_*] theorems show that the
   recursion is correct for ANY routines meeting the specification.  The left base cases are row
   for row the substitution model.  The middle regime of upper_right (extract_u, trtri,
   multiply) is modelled with [trtri_upper_simple] for mzd_trtri_upper (exact whenever
   blocksize^2 < 2*L3, i.e. in every build) and proven; it reads the stored diagonal, hence
   [diag_ones] in the upper-right theorems ([C04_upper_right_reads_diagonal] shows the hypothesis
   is necessary, and the C library behaves the same). *)
From Coq Require Import List NArith Arith Lia Bool.
From M4 Require Import Base.Bits Lin.Mat Lin.MatAlg Lin.Ops Lin.Spec Lin.Tri Alg.TRSM Alg.TRSMProofs
                       Alg.TRSMRec Alg.TRSMRecProofs.
Import ListNotations.
Local Open Scope nat_scope.

(** * the recursive models return exactly what plain substitution returns *)
Theorem C04_lower_left_rec_is_simple : forall (c : cfg) (cutoff : nat) (L B : mat),
  wf B -> nr B <= length (rows L) -> trsm_lower_left_rec c cutoff L B = trsm_lower_left L B.
Proof. exact trsm_lower_left_rec_spec. Qed.
Print Assumptions C04_lower_left_rec_is_simple.

Theorem C04_upper_left_rec_is_simple : forall (c : cfg) (cutoff : nat) (U B : mat),
  wf B -> nr B <= length (rows U) -> trsm_upper_left_rec c cutoff U B = trsm_upper_left U B.
Proof. exact trsm_upper_left_rec_spec. Qed.
Print Assumptions C04_upper_left_rec_is_simple.

Theorem C04_upper_right_rec_is_simple : forall (c : cfg) (cutoff : nat) (U B : mat),
  wf B -> nc B <= length (rows U) -> diag_ones (nc B) U ->
  trsm_upper_right_rec c cutoff U B = trsm_upper_right U B.
Proof. exact trsm_upper_right_rec_spec. Qed.
Print Assumptions C04_upper_right_rec_is_simple.

Theorem C04_upper_right_rec_is_simple_nomiddle : forall (c : cfg) (cutoff : nat) (U B : mat),
  wf B -> nc B <= length (rows U) -> (nc B <= radix \/ blocksize c <= radix) ->
  trsm_upper_right_rec c cutoff U B = trsm_upper_right U B.
Proof. exact trsm_upper_right_rec_spec_nomiddle. Qed.
Print Assumptions C04_upper_right_rec_is_simple_nomiddle.

Theorem C04_lower_right_rec_is_simple : forall (c : cfg) (cutoff : nat) (L B : mat),
  wf B -> nc B <= length (rows L) -> trsm_lower_right_rec c cutoff L B = trsm_lower_right L B.
Proof. exact trsm_lower_right_rec_spec. Qed.
Print Assumptions C04_lower_right_rec_is_simple.

(** * equation, uniqueness, irrelevance of everything but the named triangle
      (the _mzd_trsm_* entry points: T only needs enough rows) *)
Theorem C04_lower_left : forall (c : cfg) (cutoff : nat) (L B : mat),
  wf B -> nr B <= length (rows L) ->
  let n := nr B in let X := trsm_lower_left_rec c cutoff L B in
  wf X /\ nr X = nr B /\ nc X = nc B /\ mmul (unit_lower n L) X = B /\
  (forall Y, wf Y -> nr Y = n -> mmul (unit_lower n L) Y = B -> Y = X) /\
  (forall L', nr B <= length (rows L') -> (forall i j, j < i -> i < n -> get L i j = get L' i j) ->
     trsm_lower_left_rec c cutoff L' B = X).
Proof. exact trsm_lower_left_rec_correct. Qed.
Print Assumptions C04_lower_left.

Theorem C04_upper_left : forall (c : cfg) (cutoff : nat) (U B : mat),
  wf B -> nr B <= length (rows U) ->
  let n := nr B in let X := trsm_upper_left_rec c cutoff U B in
  wf X /\ nr X = nr B /\ nc X = nc B /\ mmul (unit_upper n U) X = B /\
  (forall Y, wf Y -> nr Y = n -> mmul (unit_upper n U) Y = B -> Y = X) /\
  (forall U', nr B <= length (rows U') -> (forall i j, i < j -> j < n -> get U i j = get U' i j) ->
     trsm_upper_left_rec c cutoff U' B = X).
Proof. exact trsm_upper_left_rec_correct. Qed.
Print Assumptions C04_upper_left.

Theorem C04_upper_right : forall (c : cfg) (cutoff : nat) (U B : mat),
  wf B -> nc B <= length (rows U) -> diag_ones (nc B) U ->
  let n := nc B in let X := trsm_upper_right_rec c cutoff U B in
  wf X /\ nr X = nr B /\ nc X = nc B /\ mmul X (unit_upper n U) = B /\
  (forall Y, wf Y -> nc Y = n -> mmul Y (unit_upper n U) = B -> Y = X) /\
  (forall U', nc B <= length (rows U') -> diag_ones n U' ->
     (forall i j, i < j -> j < n -> get U i j = get U' i j) ->
     trsm_upper_right_rec c cutoff U' B = X).
Proof. exact trsm_upper_right_rec_correct. Qed.
Print Assumptions C04_upper_right.

Theorem C04_lower_right : forall (c : cfg) (cutoff : nat) (L B : mat),
  wf B -> nc B <= length (rows L) ->
  let n := nc B in let X := trsm_lower_right_rec c cutoff L B in
  wf X /\ nr X = nr B /\ nc X = nc B /\ mmul X (unit_lower n L) = B /\
  (forall Y, wf Y -> nc Y = n -> mmul Y (unit_lower n L) = B -> Y = X) /\
  (forall L', nc B <= length (rows L') -> (forall i j, j < i -> i < n -> get L i j = get L' i j) ->
     trsm_lower_right_rec c cutoff L' B = X).
Proof. exact trsm_lower_right_rec_correct. Qed.
Print Assumptions C04_lower_right.

(** * the same under the dimension checks of the public wrappers mzd_trsm_* (m4ri_die otherwise) *)
Theorem C04_mzd_trsm_lower_left : forall (c : cfg) (cutoff : nat) (L B : mat),
  wf L -> wf B -> nr L = nc L -> nc L = nr B ->
  let X := trsm_lower_left_rec c cutoff L B in
  wf X /\ nr X = nr B /\ nc X = nc B /\ mmul (unit_lower (nr L) L) X = B /\
  (forall Y, wf Y -> nr Y = nr L -> mmul (unit_lower (nr L) L) Y = B -> Y = X).
Proof. exact mzd_trsm_lower_left_correct. Qed.
Print Assumptions C04_mzd_trsm_lower_left.

Theorem C04_mzd_trsm_upper_left : forall (c : cfg) (cutoff : nat) (U B : mat),
  wf U -> wf B -> nr U = nc U -> nc U = nr B ->
  let X := trsm_upper_left_rec c cutoff U B in
  wf X /\ nr X = nr B /\ nc X = nc B /\ mmul (unit_upper (nr U) U) X = B /\
  (forall Y, wf Y -> nr Y = nr U -> mmul (unit_upper (nr U) U) Y = B -> Y = X).
Proof. exact mzd_trsm_upper_left_correct. Qed.
Print Assumptions C04_mzd_trsm_upper_left.

Theorem C04_mzd_trsm_upper_right : forall (c : cfg) (cutoff : nat) (U B : mat),
  wf U -> wf B -> nr U = nc U -> nr U = nc B -> diag_ones (nr U) U ->
  let X := trsm_upper_right_rec c cutoff U B in
  wf X /\ nr X = nr B /\ nc X = nc B /\ mmul X (unit_upper (nr U) U) = B /\
  (forall Y, wf Y -> nc Y = nr U -> mmul Y (unit_upper (nr U) U) = B -> Y = X).
Proof. exact mzd_trsm_upper_right_correct. Qed.
Print Assumptions C04_mzd_trsm_upper_right.

Theorem C04_mzd_trsm_lower_right : forall (c : cfg) (cutoff : nat) (L B : mat),
  wf L -> wf B -> nr L = nc L -> nr L = nc B ->
  let X := trsm_lower_right_rec c cutoff L B in
  wf X /\ nr X = nr B /\ nc X = nc B /\ mmul X (unit_lower (nr L) L) = B /\
  (forall Y, wf Y -> nc Y = nr L -> mmul Y (unit_lower (nr L) L) = B -> Y = X).
Proof. exact mzd_trsm_lower_right_correct. Qed.
Print Assumptions C04_mzd_trsm_lower_right.

(** * the recursion for arbitrary base-case / middle-regime routines and arbitrary addmul
      implementations meeting their specifications ([solves_*]: well-formed, same shape, equation) *)
Theorem C04_generic_lower_left :
  forall (base middle : mat -> mat -> mat) (addmul : nat -> mat -> mat -> mat -> mat) (bsz cutoff : nat),
  (forall C A B, addmul cutoff C A B = madd C (mmul A B)) ->
  (forall L B, wf B -> nr B <= length (rows L) -> nr B <= radix -> solves_ll L B (base L B)) ->
  (forall L B, wf B -> nr B <= length (rows L) -> radix < nr B <= bsz -> solves_ll L B (middle L B)) ->
  forall fuel L B, nr B <= fuel -> wf B -> nr B <= length (rows L) ->
  solves_ll L B (ll_rec base middle addmul bsz cutoff fuel L B).
Proof. exact ll_rec_solves. Qed.
Print Assumptions C04_generic_lower_left.

Theorem C04_generic_upper_left :
  forall (base middle : mat -> mat -> mat) (addmul : nat -> mat -> mat -> mat -> mat) (bsz cutoff : nat),
  (forall C A B, addmul cutoff C A B = madd C (mmul A B)) ->
  (forall U B, wf B -> nr B <= length (rows U) -> nr B <= radix -> solves_ul U B (base U B)) ->
  (forall U B, wf B -> nr B <= length (rows U) -> radix < nr B <= bsz -> solves_ul U B (middle U B)) ->
  forall fuel U B, nr B <= fuel -> wf B -> nr B <= length (rows U) ->
  solves_ul U B (ul_rec base middle addmul bsz cutoff fuel U B).
Proof. exact ul_rec_solves. Qed.
Print Assumptions C04_generic_upper_left.

Theorem C04_generic_upper_right :
  forall (base middle : mat -> mat -> mat) (addmul : nat -> mat -> mat -> mat -> mat) (bsz cutoff : nat),
  (forall C A B, addmul cutoff C A B = madd C (mmul A B)) ->
  (forall U B, wf B -> nc B <= length (rows U) -> diag_ones (nc B) U -> nc B <= radix ->
     solves_ur U B (base U B)) ->
  (forall U B, wf B -> nc B <= length (rows U) -> diag_ones (nc B) U -> radix < nc B <= bsz ->
     solves_ur U B (middle U B)) ->
  forall fuel U B, nc B <= fuel -> wf B -> nc B <= length (rows U) -> diag_ones (nc B) U ->
  solves_ur U B (ur_rec base middle addmul bsz cutoff fuel U B).
Proof. exact ur_rec_solves. Qed.
Print Assumptions C04_generic_upper_right.

Theorem C04_generic_lower_right :
  forall (base : mat -> mat -> mat) (addmul : nat -> mat -> mat -> mat -> mat) (cutoff : nat),
  (forall C A B, addmul cutoff C A B = madd C (mmul A B)) ->
  (forall L B, wf B -> nc B <= length (rows L) -> nc B <= radix -> solves_lr L B (base L B)) ->
  forall fuel L B, nc B <= fuel -> wf B -> nc B <= length (rows L) ->
  solves_lr L B (lr_rec base addmul cutoff fuel L B).
Proof. exact lr_rec_solves. Qed.
Print Assumptions C04_generic_lower_right.

(** the trtri middle regime of upper_right meets the specification *)
Theorem C04_upper_right_middle : forall U B : mat,
  wf B -> nc B <= length (rows U) -> diag_ones (nc B) U -> solves_ur U B (ur_middle U B).
Proof. exact ur_middle_solves. Qed.
Print Assumptions C04_upper_right_middle.

(** its shortcut for mzd_trtri_upper(u) is what the recursive trtri model returns whenever
    blocksize^2 < 2*L3 (every build: blocksize = min(sqrt L3, 2048)) *)
Theorem C04_upper_right_middle_exact : forall (c : cfg) (U : mat) (n : nat), n <= blocksize c ->
  (N.of_nat (blocksize c) * N.of_nat (blocksize c) < trtri_cut c)%N ->
  let u := extract_u (msub U 0 0 n n) in trtri_upper_rec c u = Some (trtri_upper_simple u).
Proof. exact ur_middle_trtri_exact. Qed.
Print Assumptions C04_upper_right_middle_exact.

(** ... and really depends on the stored diagonal *)
Theorem C04_upper_right_reads_diagonal :
  exists c U B, wf U /\ wf B /\ nr U = nc U /\ nr U = nc B /\
    trsm_upper_right_rec c 0 U B <> trsm_upper_right U B.
Proof. exact trsm_upper_right_rec_reads_diagonal. Qed.
Print Assumptions C04_upper_right_reads_diagonal.

(** * the sub-routines as the C code computes them meet the specification ... *)
Theorem C04_upper_right_base : forall U B : mat, wf B -> nc B <= radix -> solves_ur U B (trsm_upper_right_base U B).
Proof. exact trsm_upper_right_base_solves. Qed.
Print Assumptions C04_upper_right_base.

Theorem C04_lower_right_base : forall L B : mat, wf B -> nc B <= radix -> solves_lr L B (trsm_lower_right_base L B).
Proof. exact trsm_lower_right_base_solves. Qed.
Print Assumptions C04_lower_right_base.

Theorem C04_lower_left_russian : forall (k : nat) (L B : mat), 1 <= k -> wf B ->
  solves_ll L B (trsm_lower_left_russian k L B).
Proof. exact trsm_lower_left_russian_solves. Qed.
Print Assumptions C04_lower_left_russian.

Theorem C04_upper_left_russian : forall (k : nat) (U B : mat), 1 <= k -> wf B ->
  solves_ul U B (trsm_upper_left_russian k U B).
Proof. exact trsm_upper_left_russian_solves. Qed.
Print Assumptions C04_upper_left_russian.

(** ... hence the recursive models over them return the substitution result as well *)
Theorem C04_lower_left_rec_f : forall (c : cfg) (kk cutoff : nat) (L B : mat),
  1 <= kk -> wf B -> nr B <= length (rows L) -> trsm_lower_left_rec_f c kk cutoff L B = trsm_lower_left L B.
Proof. exact trsm_lower_left_rec_f_spec. Qed.
Print Assumptions C04_lower_left_rec_f.

Theorem C04_upper_left_rec_f : forall (c : cfg) (kk cutoff : nat) (U B : mat),
  1 <= kk -> wf B -> nr B <= length (rows U) -> trsm_upper_left_rec_f c kk cutoff U B = trsm_upper_left U B.
Proof. exact trsm_upper_left_rec_f_spec. Qed.
Print Assumptions C04_upper_left_rec_f.

Theorem C04_upper_right_rec_f : forall (c : cfg) (cutoff : nat) (U B : mat),
  wf B -> nc B <= length (rows U) -> diag_ones (nc B) U ->
  trsm_upper_right_rec_f c cutoff U B = trsm_upper_right U B.
Proof. exact trsm_upper_right_rec_f_spec. Qed.
Print Assumptions C04_upper_right_rec_f.

Theorem C04_lower_right_rec_f : forall (c : cfg) (cutoff : nat) (L B : mat),
  wf B -> nc B <= length (rows L) -> trsm_lower_right_rec_f c cutoff L B = trsm_lower_right L B.
Proof. exact trsm_lower_right_rec_f_spec. Qed.
Print Assumptions C04_lower_right_rec_f.

(** * Non-vacuity: 130 x 130 storage matrices full of pseudo-random bits (both triangles and the
      diagonal are garbage; for upper_right the diagonal is set), right-hand sides 130 x 5 and
      5 x 130; configuration [c_rec] sends 130 rows into the recursion (split at 64: blocks of 64
      and 66, the latter recursing again), [c_mid] into the middle regime. *)
Definition prand (bits : nat) (i : nat) : N :=
  N.land (N.shiftr (((N.of_nat i + 17) * 11400714819323198485) ^ 5) 7) (N.ones (N.of_nat bits)).
Definition T130 : mat := mk 130 130 (map (prand 130) (seq 0 130)).
Definition T130d : mat := mk 130 130 (map (fun i => N.lor (prand 130 i) (2 ^ N.of_nat i)) (seq 0 130)).
Definition Bl : mat := mk 130 5 (map (fun i => prand 5 (1000 + i)) (seq 0 130)).
Definition Br : mat := mk 5 130 (map (fun i => prand 130 (2000 + i)) (seq 0 5)).
Definition c_rec : cfg := mkcfg 64 8388608 false.
Definition c_mid : cfg := mkcfg 2048 8388608 true.

Example C04_hyps_left : wf T130 /\ wf Bl /\ nr T130 = nc T130 /\ nc T130 = nr Bl /\
  nr Bl <= length (rows T130) /\
  (* garbage on the diagonal and in both triangles *)
  get T130 0 0 = false /\ get T130 8 8 = true /\ get T130 100 3 = true /\ get T130 3 101 = true.
Proof.
  split; [apply wfb_spec; vm_compute; reflexivity|]. split; [apply wfb_spec; vm_compute; reflexivity|].
  vm_compute. auto 10.
Qed.

Example C04_hyps_right : wf T130d /\ wf Br /\ nr T130d = nc T130d /\ nr T130d = nc Br /\
  nc Br <= length (rows T130d) /\ diag_ones (nc Br) T130d /\
  get T130d 100 3 = true /\ get T130d 3 101 = true.
Proof.
  split; [apply wfb_spec; vm_compute; reflexivity|]. split; [apply wfb_spec; vm_compute; reflexivity|].
  split; [reflexivity|]. split; [reflexivity|]. split; [vm_compute; auto|].
  split; [|vm_compute; auto].
  intros i Hi. assert (E : forallb (fun i => get T130d i i) (seq 0 130) = true) by (vm_compute; reflexivity).
  rewrite forallb_forall in E. apply E. apply in_seq. cbn [nc Br] in Hi. lia.
Qed.

(** the recursion and the middle regime are really entered, and the computed X satisfies the equation *)
Example C04_run_lower_left :
  mmul (unit_lower 130 T130) (trsm_lower_left_rec c_rec 0 T130 Bl) = Bl /\
  trsm_lower_left_rec c_rec 64 T130 Bl = trsm_lower_left_rec c_mid 0 T130 Bl.
Proof. split; vm_compute; reflexivity. Qed.

Example C04_run_upper_left :
  mmul (unit_upper 130 T130) (trsm_upper_left_rec c_rec 0 T130 Bl) = Bl /\
  trsm_upper_left_rec c_rec 64 T130 Bl = trsm_upper_left_rec c_mid 0 T130 Bl.
Proof. split; vm_compute; reflexivity. Qed.

Example C04_run_upper_right :
  mmul (trsm_upper_right_rec c_rec 0 T130d Br) (unit_upper 130 T130d) = Br /\
  trsm_upper_right_rec c_rec 64 T130d Br = trsm_upper_right_rec c_mid 0 T130d Br.
Proof. split; vm_compute; reflexivity. Qed.

Example C04_run_lower_right :
  mmul (trsm_lower_right_rec c_rec 0 T130 Br) (unit_lower 130 T130) = Br /\
  trsm_lower_right_rec c_rec 64 T130 Br = trsm_lower_right_rec c_mid 0 T130 Br.
Proof. split; vm_compute; reflexivity. Qed.

(** the faithful sub-routines really run: Four-Russians with k = 3 on 130 rows (5 blocks of 24 rows,
    then blocks of 3, the last one of 1 row), dot-product base cases on the 64-column halves *)
Example C04_run_f :
  trsm_lower_left_rec_f c_mid 3 0 T130 Bl = trsm_lower_left T130 Bl /\
  trsm_upper_left_rec_f c_mid 3 0 T130 Bl = trsm_upper_left T130 Bl /\
  trsm_upper_right_rec_f c_rec 0 T130d Br = trsm_upper_right T130d Br /\
  trsm_lower_right_rec_f c_rec 0 T130 Br = trsm_lower_right T130 Br.
Proof. split; [|split; [|split]]; vm_compute; reflexivity. Qed.
