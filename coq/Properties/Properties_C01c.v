(* Properties/Properties_C01c.v — C01, the multi-threaded front end m4ri/mp.c (closes
   C01_mp_base_partial of Properties_C01b.v) and the DJB straight-line programs of m4ri/djb.c.
   Statements only; proofs are in Alg/MPProofs.v and Alg/DJBProofs.v.
   [base] stands for _mzd_mul_m4rm(C,A,B,0,clear), [dflt] for __M4RI_STRASSEN_MUL_CUTOFF; the
   schedules [gen_table]/[gen_mp] are regenerated from /repo by tools/sched_extract.py. *)
From Coq Require Import String List NArith Arith Bool ZArith Lia.
From M4 Require Import Base.Bits Lin.Mat Lin.MatAlg Lin.Ops Word.WMat
  Alg.Strassen Alg.StrassenGen Alg.StrassenProofs Alg.MPProofs Alg.DJB Alg.DJBProofs.
Import ListNotations.
Local Open Scope nat_scope.

(* ------------------------------------------------------------------------------------------ *)
(** * mp.c *)
(** _mzd_mul_mp4 (acc = false) and _mzd_addmul_mp4 (acc = true): for EVERY interleaving [order] of the
    four `omp section` task lists, every cutoff >= 63 (the wrappers pass >= 64), all positive
    compatible dimensions, base case or not, with or without remainder strips *)
Theorem C01_mp :
  forall base dflt, base_correct base ->
  forall acc order c C A B,
    interleaving (mp_sections (gen_mp acc)) order -> 63 <= c ->
    wf C -> wf A -> wf B -> nc A = nr B -> nr C = nr A -> nc C = nc B ->
    0 < nr A -> 0 < nc A -> 0 < nc B ->
    mp4_gen base dflt order acc c C A B = Ok (if acc then madd C (mmul A B) else mmul A B).
Proof. exact mp4_gen_spec. Qed.
Print Assumptions C01_mp.

(** mzd_mul_mp: every cutoff >= 0 (0 = default), C supplied or NULL *)
Theorem C01_mul_mp :
  forall base dflt, base_correct base ->
  forall order cutoff Copt A B,
    interleaving (mp_sections (gen_mp false)) order ->
    wf A -> wf B -> nc A = nr B -> 0 < nr A -> 0 < nc A -> 0 < nc B -> (0 <= cutoff)%Z ->
    dest_ok Copt A B -> ub_guard (norm_cutoff dflt (Z.to_nat cutoff)) A B = false ->
    mzd_mul_mp_gen base dflt order cutoff Copt A B = Ok (mmul A B).
Proof. exact mzd_mul_mp_gen_spec. Qed.
Print Assumptions C01_mul_mp.

Theorem C01_addmul_mp :
  forall base dflt, base_correct base ->
  forall order cutoff Copt A B,
    interleaving (mp_sections (gen_mp true)) order ->
    wf A -> wf B -> nc A = nr B -> 0 < nr A -> 0 < nc A -> 0 < nc B -> (0 <= cutoff)%Z ->
    dest_ok Copt A B -> ub_guard (norm_cutoff dflt (Z.to_nat cutoff)) A B = false ->
    mzd_addmul_mp_gen base dflt order cutoff Copt A B = Ok (madd (dest Copt A B) (mmul A B)).
Proof. exact mzd_addmul_mp_gen_spec. Qed.
Print Assumptions C01_addmul_mp.

(** the m4ri_die conditions of the two wrappers *)
Theorem C01_mul_mp_dies :
  forall base dflt order cutoff Copt A B,
    nc A <> nr B \/ (cutoff < 0)%Z \/ (exists C, Copt = Some C /\ (nr C <> nr A \/ nc C <> nc B)) ->
    mzd_mul_mp_gen base dflt order cutoff Copt A B = Err Die.
Proof. exact (fun base dflt => mzd_mul_mp_dies base dflt gen_table gen_mp). Qed.
Print Assumptions C01_mul_mp_dies.

Theorem C01_addmul_mp_dies :
  forall base dflt order cutoff Copt A B,
    nc A <> nr B \/ (cutoff < 0)%Z \/ (exists C, Copt = Some C /\ (nr C <> nr A \/ nc C <> nc B)) ->
    mzd_addmul_mp_gen base dflt order cutoff Copt A B = Err Die.
Proof. exact (fun base dflt => mzd_addmul_mp_dies base dflt gen_table gen_mp). Qed.
Print Assumptions C01_addmul_mp_dies.

(** C16: the split points of mp.c:61-70 / 180-189 (a -= a % 128; anr = ((a/64) >> 1) * 64; ...) as
    the model evaluates them are multiples of 64, and 2*anr etc. are the dimensions rounded down to a
    multiple of 128 — the same numbers as [Sys.Conc.mp_half] *)
Theorem C16_mp_split_multiple_of_64 :
  forall acc c A B C,
  let E1 := mp_env gen_mp acc c A B C in
  E1 Vanr mod 64 = 0 /\ E1 Vanc mod 64 = 0 /\ E1 Vbnr mod 64 = 0 /\ E1 Vbnc mod 64 = 0 /\
  2 * E1 Vanr = nr A - nr A mod 128 /\ 2 * E1 Vanc = nc A - nc A mod 128 /\
  E1 Vbnr = E1 Vanc /\ 2 * E1 Vbnc = nc B - nc B mod 128.
Proof. exact mp_split_multiple_of_64_gen. Qed.
Print Assumptions C16_mp_split_multiple_of_64.

(** hence every window of the generated table (A00..C11) starts and ends on a word boundary *)
Theorem C16_mp_windows_word_aligned :
  forall acc c A B C x w,
  assoc (mp_wins (gen_mp acc)) x = Some w ->
  let '(r0, c0, r, cc) := wcoords (mp_env gen_mp acc c A B C) (fenv_of A B C) w in
  c0 mod 64 = 0 /\ cc mod 64 = 0.
Proof. exact mp_windows_word_aligned. Qed.
Print Assumptions C16_mp_windows_word_aligned.

(** non-vacuity: an interleaving that is not the program order (sections 3,0,0,2,1,3,1,2), a shape
    with remainder strips in all three directions and a non-zero C that must be overwritten *)
Definition ex_order (acc : bool) : list instr :=
  match mp_sections (gen_mp acc) with
  | [[a0; b0]; [a1; b1]; [a2; b2]; [a3; b3]] => [a3; a0; b0; a2; a1; b3; b1; b2]
  | _ => []
  end.

Ltac il_pick n :=
  match goal with
  | |- interleaving ?ls (?x :: ?r) =>
    let ls1 := eval cbv in (firstn n ls) in
    let rest := eval cbv in (skipn n ls) in
    match rest with
    | (x :: ?l) :: ?ls2 => change (interleaving (ls1 ++ (x :: l) :: ls2) (x :: r)); apply il_cons; cbn [app]
    end
  end.

Example ex_order_interleaving : forall acc, interleaving (mp_sections (gen_mp acc)) (ex_order acc).
Proof.
  intros []; cbv [ex_order gen_mp sched_mp_mul sched_mp_addmul mp_sections];
    il_pick 3; il_pick 0; il_pick 0; il_pick 2; il_pick 1; il_pick 3; il_pick 1; il_pick 2;
    apply il_nil; repeat constructor.
Qed.

Definition rnd (r c : nat) (s : N) : mat :=
  mk r c (map (fun i => N.land (N.of_nat i * 2654435761 + s * 40503 + (N.of_nat i * N.of_nat i) * 97)
                               (N.ones (N.of_nat c)))%N (seq 0 r)).

Example ex_mul_mp : mzd_mul_mp_gen base_ref 2048 (ex_order false) 64%Z (Some (rnd 260 129 5)) (rnd 260 300 1) (rnd 300 129 2)
                 = Ok (mmul (rnd 260 300 1) (rnd 300 129 2)).
Proof. vm_compute. reflexivity. Qed.
Example ex_addmul_mp : mzd_addmul_mp_gen base_ref 2048 (ex_order true) 0%Z (Some (rnd 260 129 5)) (rnd 260 300 1) (rnd 300 129 2)
                 = Ok (madd (rnd 260 129 5) (mmul (rnd 260 300 1) (rnd 300 129 2))).
Proof. vm_compute. reflexivity. Qed.
Example ex_mp_hyps :
  base_correct base_ref /\ wf (rnd 260 300 1) /\ wf (rnd 300 129 2) /\
  dest_ok (Some (rnd 260 129 5)) (rnd 260 300 1) (rnd 300 129 2) /\
  ub_guard (norm_cutoff 2048 64) (rnd 260 300 1) (rnd 300 129 2) = false.
Proof.
  split; [exact base_ref_correct|]. cbn [dest_ok].
  repeat split; try (apply wfb_spec; vm_compute; reflexivity).
Qed.
Example ex_mp_env : let E1 := mp_env gen_mp false 64 (rnd 260 300 1) (rnd 300 129 2) (rnd 260 129 5) in
  (E1 Vanr, E1 Vanc, E1 Vbnr, E1 Vbnc) = (128, 128, 128, 64).
Proof. vm_compute. reflexivity. Qed.

(* ------------------------------------------------------------------------------------------ *)
(** * djb.c *)
(** djb_apply_mzd(djb_compile(A), W = 0, V) = A*V.  [djb_compile] is the faithful model (binary heap
    with the C index arithmetic and comparison order, fuel ncols*(nrows+1)+1); the hypotheses
    [0 < nr A \/ nc A = 0] and [0 < nc V] exclude the two inputs on which the C code is undefined
    (C01_djb_compile_no_rows_refuted, C01_djb_apply_no_columns_refuted) *)
Theorem C01_djb :
  forall A V, wf A -> wf V -> nc A = nr V -> (0 < nr A \/ nc A = 0) -> 0 < nc V ->
  exists ops, djb_compile A = Ok ops /\ djb_apply ops (mzero (nr A) (nc V)) V = Ok (mmul A V).
Proof. exact djb_spec. Qed.
Print Assumptions C01_djb.

Theorem C01_djb_run :
  forall A V, wf A -> wf V -> nc A = nr V -> (0 < nr A \/ nc A = 0) -> 0 < nc V ->
  exists ops, djb_compile_run A = Some ops /\ djb_apply_run ops (mzero (nr A) (nc V)) V = Some (mmul A V).
Proof. exact djb_spec_run. Qed.
Print Assumptions C01_djb_run.

(** termination within the stated fuel; every op addresses existing rows *)
Theorem C01_djb_compile_terminates :
  forall A, wf A -> (0 < nr A \/ nc A = 0) ->
  exists ops, djb_compile A = Ok ops /\ djb_compile_run A = Some ops /\ Forall (op_ok (nr A) (nc A)) ops.
Proof. exact djb_compile_terminates. Qed.
Print Assumptions C01_djb_compile_terminates.

(** djb_compile consumes its argument (A ends as the zero matrix); the invariant
    "A_original * V = replay (ops so far, newest first) (A_current * V)" at the end of the loop *)
Theorem C01_djb_compile_full :
  forall A V, wf A -> wf V -> nc A = nr V -> (0 < nr A \/ nc A = 0) ->
  exists ops, djb_compile_full A = Ok (mzero (nr A) (nc A), ops) /\
    replay (rev ops) (mzero (nr A) (nc V)) V = Ok (mmul A V) /\
    Forall (op_ok (nr A) (nc A)) ops.
Proof. exact djb_compile_full_spec. Qed.
Print Assumptions C01_djb_compile_full.

(** the invariant step, independent of which rows the heap selects *)
Theorem C01_djb_step_target :
  forall A V t s, wf A -> wf V -> nc A = nr V -> t < nr A -> s < nr A -> s <> t ->
  apply_op (t, s, false) (mmul (row_add A s t) V) V = Ok (mmul A V).
Proof. exact step_target. Qed.
Print Assumptions C01_djb_step_target.
Theorem C01_djb_step_source :
  forall A V t j, wf A -> wf V -> nc A = nr V -> t < nr A -> j < nc A -> get A t j = true ->
  apply_op (t, j, true) (mmul (write_bit A t j false) V) V = Ok (mmul A V).
Proof. exact step_source. Qed.
Print Assumptions C01_djb_step_source.

(** the heap of djb.c: push and pop keep the heap order and the multiset; the front is a maximal row *)
Theorem C01_djb_heap_push :
  forall A h v, horder A h -> exists r, heap_push A h v = Ok r /\ Permutation.Permutation r (v :: h) /\ horder A r.
Proof. exact heap_push_ok. Qed.
Print Assumptions C01_djb_heap_push.
Theorem C01_djb_heap_pop :
  forall A x t, horder A (x :: t) ->
  exists r, heap_pop A (x :: t) = Ok r /\ Permutation.Permutation (x :: r) (x :: t) /\ horder A r.
Proof. exact heap_pop_ok. Qed.
Print Assumptions C01_djb_heap_pop.
Theorem C01_djb_heap_front_max :
  forall A h, horder A h -> forall i, i < length h -> N.le (row A (nth i h 0)) (row A (nth 0 h 0)).
Proof. exact root_max. Qed.
Print Assumptions C01_djb_heap_front_max.

(** FINDINGS (both confirmed on the library: SIGSEGV).  djb_compile of a matrix without rows but with
    columns reads heap_front of an empty heap (djb.c:122); djb_apply_mzd on operands without columns
    computes last = -1 and reads src[-1] / writes dst[-1] (djb.c:150-161) *)
Theorem C01_djb_compile_no_rows_refuted :
  exists A, wf A /\ nr A = 0 /\ 0 < nc A /\ djb_compile A = Err UB.
Proof. exact djb_compile_no_rows_refuted. Qed.
Print Assumptions C01_djb_compile_no_rows_refuted.
Theorem C01_djb_apply_no_columns_refuted :
  exists A V ops, wf A /\ wf V /\ nc A = nr V /\ 0 < nr A /\ nc V = 0 /\
    djb_compile A = Ok ops /\ djb_apply ops (mzero (nr A) (nc V)) V = Err OOB.
Proof. exact djb_apply_no_columns_refuted. Qed.
Print Assumptions C01_djb_apply_no_columns_refuted.

(** non-vacuity, and Tier B: the op lists below were printed by the real library (probe linked
    against /repo/.libs/libm4ri.a, 2026-10-02) for matrices with entry (i,j) = hbit k i j s; k > 0
    repeats rows (ties between equal rows are resolved by the heap layout) *)
Definition hbit (k i j s : nat) : bool :=
  let i' := if k =? 0 then i else i mod k in
  N.odd (((N.of_nat i' * 131 + N.of_nat j * 31 + N.of_nat i' * N.of_nat j * 7 + N.of_nat s * 1009) * 2654435761) / 2 ^ 11)%N.
Definition gen (r c s k : nat) : mat :=
  mk r c (map (fun i => fold_left (fun acc j => if hbit k i j s then N.setbit acc (N.of_nat j) else acc) (seq 0 c) 0%N)
              (seq 0 r)).

Example ex_djb_hyps : wf (gen 12 9 6 3) /\ wf (rnd 9 70 4) /\ nc (gen 12 9 6 3) = nr (rnd 9 70 4).
Proof. repeat split; try (apply wfb_spec; vm_compute; reflexivity). Qed.
Example ex_djb : exists ops, djb_compile (gen 12 9 6 3) = Ok ops /\
  djb_apply ops (mzero 12 70) (rnd 9 70 4) = Ok (mmul (gen 12 9 6 3) (rnd 9 70 4)).
Proof. eexists. split; vm_compute; reflexivity. Qed.
Example ex_djb_tierB_1 : djb_compile (gen 3 3 1 0) =
  Ok [(1,0,false); (0,2,true); (0,1,true); (1,2,false); (2,0,true)].
Proof. vm_compute. reflexivity. Qed.
Example ex_djb_tierB_2 : djb_compile (gen 8 8 5 2) =
  Ok [(0,2,false); (2,6,false); (6,4,false); (4,5,true); (4,4,true); (4,1,true); (4,0,true)].
Proof. vm_compute. reflexivity. Qed.
Example ex_djb_tierB_3 : djb_compile (gen 12 9 6 3) =
  Ok [(2,5,false); (5,11,false); (11,8,false); (8,8,true); (6,0,false); (0,9,false); (9,3,false); (3,6,true);
      (8,3,false); (3,5,true); (8,4,true); (3,8,false); (8,2,true); (3,1,true); (3,0,true)].
Proof. vm_compute. reflexivity. Qed.
