(* Properties/Properties_C11.v — C11 "Memory safety", part 1: the BOUNDS side of the word-level kernel
   theorems (Word/WRefine*.v, collected in Word/WRefineBounds.v).  Statements only ([exact]), Print
   Assumptions after each (expected: Closed under the global context), one non-vacuity Example.

   Model (Word/WMat.v): one allocation = a list of 64-bit words; every access of a kernel model goes
   through the checked [rd] / [wr], which return [Err OOB] outside the allocation; data-dependent shift
   counts go through [shl64] / [shr64], which return [Err UB] for a count >= 64; m4ri_die is [Err Die].
   Each theorem says that on headers meeting [valid] (= hdr_ok, all row words of the view inside the
   allocation, words < 2^64 — windows at any row offset / word offset (odd or even) / width included)
   and arguments in the documented domain the kernel returns [Ok]: none of the three errors occurs.
   The refinement / frame / padding content of the same theorems is in Properties_C08/C09/C10.v.
   [_fixed] / [_fx] = the repaired C code of /repo.  0 < ncols excludes the r x 0 matrices, on which
   the C code itself indexes word -1 of a row (the models return Err OOB there — outside the
   properties' domain "all shapes >= 1 x 1").
   Not covered here (partial): SIMD paths and alignment peeling (not modelled), the algorithm-level
   routines (sanitizer correspondence runs), allocation balance (the Sys/Alloc files). *)
From Coq Require Import List NArith Arith Lia Bool.
From M4 Require Import Base.Bits Lin.Mat Lin.Ops Word.WMat Word.WOps Word.WMatLemmas Word.WRefine2
  Word.WRefine9 Word.WRefine10 Word.WRefineBounds Word.WRefineRefuted.
Import ListNotations.
Local Open Scope nat_scope.

(** ** bit ranges: the second word is touched only when the span crosses into it.
    If the span stays inside one word, that ONE word inside the allocation suffices — nothing is
    assumed about the next word (it may lie beyond the allocation). *)
Theorem C11_read_bits_one_word : forall h x y n mem, row_addr h x + y / 64 < length mem -> 1 <= n ->
  y mod 64 + n <= 64 -> exists v, w_read_bits h x y n mem = Ok v.
Proof. exact w_read_bits_one_word. Qed.
Theorem C11_xor_bits_one_word : forall h x y n values mem, row_addr h x + y / 64 < length mem ->
  y mod 64 + n <= 64 -> exists m', w_xor_bits h x y n values mem = Ok m'.
Proof. exact w_xor_bits_one_word. Qed.
Theorem C11_clear_bits_one_word : forall h x y n mem, row_addr h x + y / 64 < length mem -> 1 <= n ->
  y mod 64 + n <= 64 -> exists m', w_clear_bits h x y n mem = Ok m'.
Proof. exact w_clear_bits_one_word. Qed.
Print Assumptions C11_read_bits_one_word.
Print Assumptions C11_xor_bits_one_word.
Print Assumptions C11_clear_bits_one_word.

(** ** single bits and bit ranges on valid headers (documented domain 1 <= n <= 64, y + n <= ncols) *)
Theorem C11_read_bit : forall h mem i j, valid h mem -> i < h_nrows h -> j < h_ncols h ->
  exists v, w_read_bit h i j mem = Ok v.
Proof. exact w_read_bit_safe. Qed.
Theorem C11_write_bit : forall h mem i j v, valid h mem -> i < h_nrows h -> j < h_ncols h ->
  exists m', w_write_bit h i j v mem = Ok m'.
Proof. exact w_write_bit_safe. Qed.
Theorem C11_read_bits : forall h mem x y n, valid h mem -> x < h_nrows h -> 1 <= n <= 64 -> y + n <= h_ncols h ->
  exists v, w_read_bits h x y n mem = Ok v.
Proof. exact w_read_bits_safe. Qed.
Theorem C11_xor_bits : forall h mem x y n values, valid h mem -> x < h_nrows h -> 1 <= n <= 64 ->
  y + n <= h_ncols h -> bounded n values -> exists m', w_xor_bits h x y n values mem = Ok m'.
Proof. exact w_xor_bits_safe. Qed.
Theorem C11_clear_bits : forall h mem x y n, valid h mem -> x < h_nrows h -> 1 <= n <= 64 -> y + n <= h_ncols h ->
  exists m', w_clear_bits h x y n mem = Ok m'.
Proof. exact w_clear_bits_safe. Qed.
Print Assumptions C11_read_bit.
Print Assumptions C11_write_bit.
Print Assumptions C11_read_bits.
Print Assumptions C11_xor_bits.
Print Assumptions C11_clear_bits.

(** ** row and column operations *)
Theorem C11_row_swap : forall h mem a b sb, valid h mem -> a < h_nrows h -> b < h_nrows h ->
  exists m', w_row_swap h a b sb mem = Ok m'.
Proof. exact w_row_swap_safe. Qed.
Theorem C11_col_swap_in_rows : forall h mem cola colb r0 r1,
  valid h mem -> cola < h_ncols h -> colb < h_ncols h -> r0 <= r1 -> r1 <= h_nrows h ->
  exists m', w_col_swap_in_rows h cola colb r0 r1 mem = Ok m'.
Proof. exact w_col_swap_in_rows_safe. Qed.
Theorem C11_row_add_offset : forall h mem dst src co,
  valid h mem -> dst < h_nrows h -> src < h_nrows h -> dst <> src -> co < h_ncols h ->
  exists m', w_row_add_offset h dst src co mem = Ok m'.
Proof. exact w_row_add_offset_safe. Qed.
Theorem C11_row_clear_offset : forall h mem r co, valid h mem -> r < h_nrows h -> co < h_ncols h ->
  (exists m', w_row_clear_offset_fixed2 h r co mem = Ok m') /\
  (exists m', w_row_clear_offset_fixed h r co mem = Ok m').
Proof. exact w_row_clear_offset_safe. Qed.
Print Assumptions C11_row_swap.
Print Assumptions C11_col_swap_in_rows.
Print Assumptions C11_row_add_offset.
Print Assumptions C11_row_clear_offset.

(** ** row combination *)
Theorem C11_combine : forall hC c hA a hB b sb mem,
  valid hC mem -> valid hA mem -> valid hB mem ->
  h_ncols hA = h_ncols hC -> h_ncols hB = h_ncols hC ->
  c < h_nrows hC -> a < h_nrows hA -> b < h_nrows hB -> sb < h_width hC ->
  row_alias hC c hA a -> row_alias hC c hB b ->
  (exists m', w_combine_even hC c sb hA a sb hB b sb mem = Ok m') /\
  (exists m', w_combine hC c sb hA a sb hB b sb mem = Ok m').
Proof. exact w_combine_safe. Qed.
Theorem C11_combine_even_in_place : forall hA a hB b sb mem,
  valid hA mem -> valid hB mem -> h_ncols hB = h_ncols hA ->
  a < h_nrows hA -> b < h_nrows hB -> sb < h_width hA -> row_alias hA a hB b ->
  exists m', w_combine_even_in_place hA a sb hB b sb mem = Ok m'.
Proof. exact w_combine_even_in_place_safe. Qed.
Print Assumptions C11_combine.
Print Assumptions C11_combine_even_in_place.

(** ** addition and data movement *)
Theorem C11_add : forall hC hA hB mem,
  valid hC mem -> valid hA mem -> valid hB mem -> 0 < h_ncols hC ->
  same_dims hA hC -> same_dims hB hC -> alias_ok hC hA -> alias_ok hC hB ->
  (exists m', w_add hC hA hB mem = Ok m') /\ (exists m', w_mzd_add hC hA hB mem = Ok m').
Proof. exact w_add_safe. Qed.
Theorem C11_copy : forall hN hP mem,
  valid hN mem -> valid hP mem -> 0 < h_ncols hP ->
  h_nrows hP <= h_nrows hN -> h_ncols hP <= h_ncols hN -> alias_ok hN hP ->
  exists m', w_copy hN hP mem = Ok m'.
Proof. exact w_copy_safe. Qed.
Theorem C11_copy_row : forall hB i hA j mem,
  valid hB mem -> valid hA mem -> i < h_nrows hB -> j < h_nrows hA ->
  0 < h_ncols hA -> h_ncols hA <= h_ncols hB -> row_alias hB i hA j ->
  exists m', w_copy_row hB i hA j mem = Ok m'.
Proof. exact w_copy_row_safe. Qed.
Theorem C11_set_ui : forall hA value mem, valid hA mem -> 0 < h_ncols hA ->
  exists m', w_set_ui hA value mem = Ok m'.
Proof. exact w_set_ui_safe. Qed.
Theorem C11_submatrix : forall hS hM sr sc er ec mem,
  valid hS mem -> valid hM mem -> h_nrows hS = er - sr -> h_ncols hS = ec - sc ->
  sr <= er -> er <= h_nrows hM -> ec <= h_ncols hM -> sc < ec -> wdisjoint hS hM ->
  exists m', w_submatrix_fixed hS hM sr sc er ec mem = Ok m'.
Proof. exact w_submatrix_fixed_safe. Qed.
Theorem C11_concat : forall hC hA hB mem,
  valid hC mem -> valid hA mem -> valid hB mem -> 0 < h_ncols hA ->
  h_nrows hA = h_nrows hC -> h_nrows hB = h_nrows hC -> h_ncols hC = h_ncols hA + h_ncols hB ->
  wdisjoint hC hA -> wdisjoint hC hB -> exists m', w_concat_fixed hC hA hB mem = Ok m'.
Proof. exact w_concat_fixed_safe. Qed.
Theorem C11_stack : forall hC hA hB mem,
  valid hC mem -> valid hA mem -> valid hB mem -> 0 < h_ncols hC ->
  h_ncols hA = h_ncols hC -> h_ncols hB = h_ncols hC -> h_nrows hC = h_nrows hA + h_nrows hB ->
  wdisjoint hC hA -> wdisjoint hC hB -> exists m', w_stack_fixed hC hA hB mem = Ok m'.
Proof. exact w_stack_fixed_safe. Qed.
Theorem C11_extract : forall hT hA mem,
  let k := Nat.min (h_nrows hA) (h_ncols hA) in
  valid hT mem -> valid hA mem -> 0 < k -> h_nrows hT = k -> h_ncols hT = k -> wdisjoint hT hA ->
  (exists m', w_extract_u_fx hT hA mem = Ok m') /\ (exists m', w_extract_l_fx hT hA mem = Ok m').
Proof. exact w_extract_safe. Qed.
Theorem C11_fresh : forall hA hB mem, valid hA mem -> valid hB mem -> 0 < h_ncols hA ->
  (same_dims hB hA -> exists r, w_mzd_add_fresh hA hB mem = Ok r) /\
  (exists r, w_copy_fresh hA mem = Ok r) /\
  (h_nrows hA = h_nrows hB -> exists r, w_concat_fixed_fresh hA hB mem = Ok r) /\
  (h_ncols hA = h_ncols hB -> exists r, w_stack_fixed_fresh hA hB mem = Ok r).
Proof. exact w_fresh_safe. Qed.
Print Assumptions C11_add.
Print Assumptions C11_copy.
Print Assumptions C11_copy_row.
Print Assumptions C11_set_ui.
Print Assumptions C11_submatrix.
Print Assumptions C11_concat.
Print Assumptions C11_stack.
Print Assumptions C11_extract.
Print Assumptions C11_fresh.

(** ** observers (no hypothesis on the start row / column of the pivot search) *)
Theorem C11_observers : forall hA hB mem r0 c0, valid hA mem -> valid hB mem -> 0 < h_ncols hA ->
  (exists v, w_equal hA hB mem = Ok v) /\ (exists v, w_cmp hA hB mem = Ok v) /\
  (exists v, w_is_zero hA mem = Ok v) /\ (exists v, w_first_zero_row_fixed hA mem = Ok v) /\
  (exists v, w_find_pivot hA r0 c0 mem = Ok v).
Proof. exact w_observers_safe. Qed.
Print Assumptions C11_observers.

(** ** non-vacuity: a 2 x 36 window at word offset 5 (odd) whose last (only) word is shared with the
    parent: bit 40 of that word is an entry of the parent (column 104) but not of the window; the
    shared bits are not all zero; arguments of the theorems above in range. *)
Example C11_nonvacuous :
  valid ex_wP ex_mem /\ valid ex_P ex_mem /\ ex_wP = window_hdr ex_P 1 64 3 100 /\
  in_viewb ex_P (row_addr ex_wP 0 + (h_width ex_wP - 1)) 40 = true /\
  in_viewb ex_wP (row_addr ex_wP 0 + (h_width ex_wP - 1)) 40 = false /\
  padding_zerob ex_wP ex_mem = false /\ Nat.odd (h_off ex_wP) = true /\
  1 < h_nrows ex_wP /\ 0 < h_ncols ex_wP /\ 30 + 6 <= h_ncols ex_wP /\ 30 mod 64 + 6 <= 64 /\
  row_addr ex_wP 1 + 30 / 64 < length ex_mem /\
  valid ex_wR ex_mem /\ same_dims ex_wP ex_wR /\ alias_ok ex_wR ex_wP /\ alias_ok ex_wR ex_wR.
Proof.
  repeat match goal with |- _ /\ _ => split end;
  first [ exact ex_valid_wP | exact ex_valid_P | exact ex_valid_wR | (right; exact ex_disj_R_P) | (left; reflexivity)
        | (split; reflexivity) | (vm_compute; reflexivity) | (vm_compute; lia) ].
Qed.

(* ---- part 2 (wrapper guards, translated leaves) is appended below by the main session ---- *)

From Coq Require Import ZArith.
From M4 Require Alg.Mul Alg.MulProofs Leaf.CMini Leaf.Gen_leaf Leaf.LeafSpecs Leaf.LeafSpecs3 Alg.Strassen Alg.StrassenGen Alg.StrassenProofs Alg.MPProofs Alg.Solve Alg.SolveProofs2.
Local Open Scope nat_scope.

(** ** part 2a: the checked public wrappers refuse incompatible dimensions before touching an operand
    (model: [None] = the C routine ends in m4ri_die; the models of the wrappers test the dimensions first,
    exactly as mzd.c / brilliantrussian.c do; since repair F21 the cubic wrappers test the inner dimension too) *)
Module Guards.
Import M4.Alg.Mul M4.Alg.MulProofs.
Theorem C11_guard_mul_naive :
  forall (blk : nat) (C A B : Mat.mat),
         Mat.nr C <> Mat.nr A \/ Mat.nc C <> Mat.nc B -> Mul.mul_naive blk (Some C) A B = None.
Proof. exact @mul_naive_die. Qed.
Print Assumptions C11_guard_mul_naive.

Theorem C11_guard_addmul_naive :
  forall (blk : nat) (C A B : Mat.mat),
         Mat.nr C <> Mat.nr A \/ Mat.nc C <> Mat.nc B -> Mul.addmul_naive blk C A B = None.
Proof. exact @addmul_naive_die. Qed.
Print Assumptions C11_guard_addmul_naive.

Theorem C11_guard_mul_m4rm :
  forall (blk : nat) (kauto k : Z) (g : Mul.tables) (C : option Mat.mat) (A B : Mat.mat),
         Mat.nc A <> Mat.nr B \/
         (exists C' : Mat.mat, C = Some C' /\ (Mat.nr C' <> Mat.nr A \/ Mat.nc C' <> Mat.nc B)) ->
         Mul.mul_m4rm blk kauto k g C A B = None.
Proof. exact @mul_m4rm_die. Qed.
Print Assumptions C11_guard_mul_m4rm.

Theorem C11_guard_addmul_m4rm :
  forall (blk : nat) (kauto k : Z) (g : Mul.tables) (C A B : Mat.mat),
         0 < Mat.nr C ->
         0 < Mat.nc C ->
         Mat.nc A <> Mat.nr B \/ Mat.nr C <> Mat.nr A \/ Mat.nc C <> Mat.nc B ->
         Mul.addmul_m4rm blk kauto k g C A B = None.
Proof. exact @addmul_m4rm_die. Qed.
Print Assumptions C11_guard_addmul_m4rm.

End Guards.

(** ** part 2b: the translated leaf functions (regenerated from the C text on every run) have no undefined
    behaviour on their documented domains: the CMini interpreter returns [Ok], never UB / OOB / Die / OutOfFuel
    (shift counts, signed overflow and array indices are checked by the interpreter).  RIGHT_BITMASK(0) IS
    undefined (misc.h says it is never passed): [right_bitmask_0_UB]. *)
Module Leaves.
Import M4.Leaf.CMini M4.Leaf.Gen_leaf M4.Leaf.LeafSpecs M4.Leaf.LeafSpecs3.
Theorem C11_leaf_parity64 :
  forall buf : list Z,
         length buf = 64 ->
         Forall w64 buf ->
         exists r : Z,
           run_parity64 buf = CMini.Ok r /\
           w64 r /\ (forall i : nat, i < 64 -> Z.testbit r (Z.of_nat i) = parity_of (nth i buf 0%Z)).
Proof. exact @parity64_spec. Qed.
Print Assumptions C11_leaf_parity64.

Theorem C11_leaf_left_bitmask :
  forall n : Z,
         (0 <= n <= 64)%Z ->
         exists r : Z,
           call_int
             (String.String (Ascii.Ascii true true false false true true true false)
                (String.String (Ascii.Ascii false false true false true true true false)
                   (String.String (Ascii.Ascii true false true false true true true false)
                      (String.String (Ascii.Ascii false true false false false true true false)
                         (String.String (Ascii.Ascii true true true true true false true false)
                            (String.String (Ascii.Ascii false false true true false true true false)
                               (String.String (Ascii.Ascii true false true false false true true false)
                                  (String.String (Ascii.Ascii false true true false false true true false)
                                     (String.String (Ascii.Ascii false false true false true true true false)
                                        (String.String (Ascii.Ascii true true true true true false true false)
                                           (String.String
                                              (Ascii.Ascii false true false false false true true false)
                                              (String.String
                                                 (Ascii.Ascii true false false true false true true false)
                                                 (String.String
                                                    (Ascii.Ascii false false true false true true true false)
                                                    (String.String
                                                       (Ascii.Ascii true false true true false true true false)
                                                       (String.String
                                                          (Ascii.Ascii true false false false false true true
                                                             false)
                                                          (String.String
                                                             (Ascii.Ascii true true false false true true true
                                                                false)
                                                             (String.String
                                                                (Ascii.Ascii true true false true false true
                                                                   true false) String.EmptyString)))))))))))))))))
             [n] = CMini.Ok r /\
           r = Z.ones (left_n n) /\ (forall i : Z, (0 <= i)%Z -> Z.testbit r i = (i <? left_n n)%Z).
Proof. exact @left_bitmask_spec. Qed.
Print Assumptions C11_leaf_left_bitmask.

Theorem C11_leaf_right_bitmask :
  forall n : Z,
         (0 < n <= 64)%Z ->
         exists r : Z,
           call_int
             (String.String (Ascii.Ascii true true false false true true true false)
                (String.String (Ascii.Ascii false false true false true true true false)
                   (String.String (Ascii.Ascii true false true false true true true false)
                      (String.String (Ascii.Ascii false true false false false true true false)
                         (String.String (Ascii.Ascii true true true true true false true false)
                            (String.String (Ascii.Ascii false true false false true true true false)
                               (String.String (Ascii.Ascii true false false true false true true false)
                                  (String.String (Ascii.Ascii true true true false false true true false)
                                     (String.String (Ascii.Ascii false false false true false true true false)
                                        (String.String
                                           (Ascii.Ascii false false true false true true true false)
                                           (String.String
                                              (Ascii.Ascii true true true true true false true false)
                                              (String.String
                                                 (Ascii.Ascii false true false false false true true false)
                                                 (String.String
                                                    (Ascii.Ascii true false false true false true true false)
                                                    (String.String
                                                       (Ascii.Ascii false false true false true true true false)
                                                       (String.String
                                                          (Ascii.Ascii true false true true false true true
                                                             false)
                                                          (String.String
                                                             (Ascii.Ascii true false false false false true
                                                                true false)
                                                             (String.String
                                                                (Ascii.Ascii true true false false true true
                                                                   true false)
                                                                (String.String
                                                                   (Ascii.Ascii true true false true false true
                                                                      true false) String.EmptyString))))))))))))))))))
             [n] = CMini.Ok r /\
           r = Z.shiftl (Z.ones n) (64 - n) /\
           (forall i : Z, (0 <= i)%Z -> Z.testbit r i = (64 - n <=? i)%Z && (i <? 64)%Z).
Proof. exact @right_bitmask_spec. Qed.
Print Assumptions C11_leaf_right_bitmask.

Theorem C11_leaf_right_bitmask_0_UB :
  is_UB
           (call_int
              (String.String (Ascii.Ascii true true false false true true true false)
                 (String.String (Ascii.Ascii false false true false true true true false)
                    (String.String (Ascii.Ascii true false true false true true true false)
                       (String.String (Ascii.Ascii false true false false false true true false)
                          (String.String (Ascii.Ascii true true true true true false true false)
                             (String.String (Ascii.Ascii false true false false true true true false)
                                (String.String (Ascii.Ascii true false false true false true true false)
                                   (String.String (Ascii.Ascii true true true false false true true false)
                                      (String.String (Ascii.Ascii false false false true false true true false)
                                         (String.String
                                            (Ascii.Ascii false false true false true true true false)
                                            (String.String
                                               (Ascii.Ascii true true true true true false true false)
                                               (String.String
                                                  (Ascii.Ascii false true false false false true true false)
                                                  (String.String
                                                     (Ascii.Ascii true false false true false true true false)
                                                     (String.String
                                                        (Ascii.Ascii false false true false true true true
                                                           false)
                                                        (String.String
                                                           (Ascii.Ascii true false true true false true true
                                                              false)
                                                           (String.String
                                                              (Ascii.Ascii true false false false false true
                                                                 true false)
                                                              (String.String
                                                                 (Ascii.Ascii true true false false true true
                                                                    true false)
                                                                 (String.String
                                                                    (Ascii.Ascii true true false true false
                                                                       true true false) String.EmptyString))))))))))))))))))
              [0%Z]) = true.
Proof. exact @right_bitmask_0_UB. Qed.
Print Assumptions C11_leaf_right_bitmask_0_UB.

Theorem C11_leaf_middle_bitmask :
  forall n off : Z,
         (0 <= n <= 64)%Z ->
         (0 <= off < 64)%Z ->
         call_int
           (String.String (Ascii.Ascii true true false false true true true false)
              (String.String (Ascii.Ascii false false true false true true true false)
                 (String.String (Ascii.Ascii true false true false true true true false)
                    (String.String (Ascii.Ascii false true false false false true true false)
                       (String.String (Ascii.Ascii true true true true true false true false)
                          (String.String (Ascii.Ascii true false true true false true true false)
                             (String.String (Ascii.Ascii true false false true false true true false)
                                (String.String (Ascii.Ascii false false true false false true true false)
                                   (String.String (Ascii.Ascii false false true false false true true false)
                                      (String.String (Ascii.Ascii false false true true false true true false)
                                         (String.String
                                            (Ascii.Ascii true false true false false true true false)
                                            (String.String
                                               (Ascii.Ascii true true true true true false true false)
                                               (String.String
                                                  (Ascii.Ascii false true false false false true true false)
                                                  (String.String
                                                     (Ascii.Ascii true false false true false true true false)
                                                     (String.String
                                                        (Ascii.Ascii false false true false true true true
                                                           false)
                                                        (String.String
                                                           (Ascii.Ascii true false true true false true true
                                                              false)
                                                           (String.String
                                                              (Ascii.Ascii true false false false false true
                                                                 true false)
                                                              (String.String
                                                                 (Ascii.Ascii true true false false true true
                                                                    true false)
                                                                 (String.String
                                                                    (Ascii.Ascii true true false true false
                                                                       true true false) String.EmptyString)))))))))))))))))))
           [n; off] = CMini.Ok (Z.shiftl (Z.ones (left_n n)) off mod 2 ^ 64)%Z.
Proof. exact @middle_bitmask_grid. Qed.
Print Assumptions C11_leaf_middle_bitmask.

Theorem C11_leaf_swap_bits :
  forall v : Z,
         w64 v ->
         exists r : Z,
           call_int
             (String.String (Ascii.Ascii true false true true false true true false)
                (String.String (Ascii.Ascii false false true false true true false false)
                   (String.String (Ascii.Ascii false true false false true true true false)
                      (String.String (Ascii.Ascii true false false true false true true false)
                         (String.String (Ascii.Ascii true true true true true false true false)
                            (String.String (Ascii.Ascii true true false false true true true false)
                               (String.String (Ascii.Ascii true true true false true true true false)
                                  (String.String (Ascii.Ascii true false false false false true true false)
                                     (String.String (Ascii.Ascii false false false false true true true false)
                                        (String.String (Ascii.Ascii true true true true true false true false)
                                           (String.String
                                              (Ascii.Ascii false true false false false true true false)
                                              (String.String
                                                 (Ascii.Ascii true false false true false true true false)
                                                 (String.String
                                                    (Ascii.Ascii false false true false true true true false)
                                                    (String.String
                                                       (Ascii.Ascii true true false false true true true false)
                                                       String.EmptyString)))))))))))))) [v] =
           CMini.Ok r /\ w64 r /\ (forall i : Z, (0 <= i < 64)%Z -> Z.testbit r i = Z.testbit v (63 - i)).
Proof. exact @swap_bits_spec. Qed.
Print Assumptions C11_leaf_swap_bits.

Theorem C11_leaf_lesser_LSB :
  forall a b : Z,
         w64 a ->
         w64 b ->
         call_int
           (String.String (Ascii.Ascii true false true true false true true false)
              (String.String (Ascii.Ascii false false true false true true false false)
                 (String.String (Ascii.Ascii false true false false true true true false)
                    (String.String (Ascii.Ascii true false false true false true true false)
                       (String.String (Ascii.Ascii true true true true true false true false)
                          (String.String (Ascii.Ascii false false true true false true true false)
                             (String.String (Ascii.Ascii true false true false false true true false)
                                (String.String (Ascii.Ascii true true false false true true true false)
                                   (String.String (Ascii.Ascii true true false false true true true false)
                                      (String.String (Ascii.Ascii true false true false false true true false)
                                         (String.String
                                            (Ascii.Ascii false true false false true true true false)
                                            (String.String
                                               (Ascii.Ascii true true true true true false true false)
                                               (String.String
                                                  (Ascii.Ascii false false true true false false true false)
                                                  (String.String
                                                     (Ascii.Ascii true true false false true false true false)
                                                     (String.String
                                                        (Ascii.Ascii false true false false false false true
                                                           false) String.EmptyString))))))))))))))) [
           a; b] = CMini.Ok (if (lsbi a <? lsbi b)%Z then 1%Z else 0%Z).
Proof. exact @lesser_LSB_spec. Qed.
Print Assumptions C11_leaf_lesser_LSB.

Theorem C11_leaf_log2_floor :
  forall v : Z,
         (0 <= v < 2 ^ 31)%Z ->
         call_int
           (String.String (Ascii.Ascii false false true true false true true false)
              (String.String (Ascii.Ascii true true true true false true true false)
                 (String.String (Ascii.Ascii true true true false false true true false)
                    (String.String (Ascii.Ascii false true false false true true false false)
                       (String.String (Ascii.Ascii true true true true true false true false)
                          (String.String (Ascii.Ascii false true true false false true true false)
                             (String.String (Ascii.Ascii false false true true false true true false)
                                (String.String (Ascii.Ascii true true true true false true true false)
                                   (String.String (Ascii.Ascii true true true true false true true false)
                                      (String.String (Ascii.Ascii false true false false true true true false)
                                         String.EmptyString)))))))))) [v] = CMini.Ok (Z.log2 v).
Proof. exact @log2_floor_spec. Qed.
Print Assumptions C11_leaf_log2_floor.

Theorem C11_leaf_gray_code :
  forall (l : nat) (number : N),
         l <= 31 ->
         (number < 2 ^ 31)%N ->
         call_int
           (String.String (Ascii.Ascii true false true true false true true false)
              (String.String (Ascii.Ascii false false true false true true false false)
                 (String.String (Ascii.Ascii false true false false true true true false)
                    (String.String (Ascii.Ascii true false false true false true true false)
                       (String.String (Ascii.Ascii true true true true true false true false)
                          (String.String (Ascii.Ascii true true true false false true true false)
                             (String.String (Ascii.Ascii false true false false true true true false)
                                (String.String (Ascii.Ascii true false false false false true true false)
                                   (String.String (Ascii.Ascii true false false true true true true false)
                                      (String.String (Ascii.Ascii true true true true true false true false)
                                         (String.String
                                            (Ascii.Ascii true true false false false true true false)
                                            (String.String
                                               (Ascii.Ascii true true true true false true true false)
                                               (String.String
                                                  (Ascii.Ascii false false true false false true true false)
                                                  (String.String
                                                     (Ascii.Ascii true false true false false true true false)
                                                     String.EmptyString))))))))))))))
           [Z.of_N number; Z.of_nat l] = CMini.Ok (Z.of_N (Gray.gray_code number l)).
Proof. exact @gen_gray_code_eq. Qed.
Print Assumptions C11_leaf_gray_code.

End Leaves.

(** ** part 2c: the remaining checked wrappers (Strassen front end, multi-core front end, solving) refuse
    incompatible arguments before any operand is touched ([Err Die] / [None] = m4ri_die) *)
Module Guards2.
Import M4.Lin.Mat M4.Alg.Strassen M4.Alg.StrassenGen M4.Alg.StrassenProofs M4.Alg.MPProofs M4.Alg.Solve M4.Alg.SolveProofs2.
Theorem C11_guard_mzd_mul :
  forall base dflt cutoff win Copt A B,
    nc A <> nr B \/ (cutoff < 0)%Z \/ (exists C, Copt = Some C /\ (nr C <> nr A \/ nc C <> nc B)) ->
    mzd_mul_gen base dflt cutoff false win Copt A B = Err Die.
Proof. exact (fun base dflt => mzd_mul_dies base dflt gen_table). Qed.
Print Assumptions C11_guard_mzd_mul.

Theorem C11_guard_mzd_mul_mp :
  forall base dflt order cutoff Copt A B,
    nc A <> nr B \/ (cutoff < 0)%Z \/ (exists C, Copt = Some C /\ (nr C <> nr A \/ nc C <> nc B)) ->
    mzd_mul_mp_gen base dflt order cutoff Copt A B = Err Die.
Proof. exact (fun base dflt => mzd_mul_mp_dies base dflt gen_table gen_mp). Qed.
Print Assumptions C11_guard_mzd_mul_mp.

Theorem C11_guard_solve_left : forall pluq tl tu pin cutoff A B check,
  nr B <> Nat.max (nr A) (nc A) -> solve_left pluq tl tu pin cutoff A B check = None.
Proof. exact solve_left_dies. Qed.
Print Assumptions C11_guard_solve_left.

Theorem C11_guard_pluq_solve_left : forall tl tu pin cutoff A r P Q B check,
  pluq_solve_left tl tu pin cutoff A r P Q B check = None <->
  nr B < nc A \/ length P <> nr A \/ length Q <> nc A.
Proof. exact pluq_solve_left_dies. Qed.
Print Assumptions C11_guard_pluq_solve_left.
End Guards2.
