(* Properties/Properties_C07.v — property C07 (mzd_kernel_left_pluq returns a basis of the right null
   space, NULL iff it is trivial).
   Statements only; model [kernel_left] in Alg/Solve.v (step by step: PLUQ, bit-wise copy of U's right
   block in 64-bit chunks, TRSM with U, identity below, un-permute by Q), proofs in Alg/SolveProofs3.v.

   Reading guide.  [kernel_left_model cutoff A] = mzd_kernel_left_pluq(A, cutoff):
   [Some None] = NULL, [Some (Some K)] = the matrix returned (outer [None] = m4ri_die, never).
   [rank A] is the rank computed by the verified Gauss model (Alg/GaussProofs.v: [rank_correct],
   the size of the column rank profile); [C07_kernel_has_rank] states the same with the mathematical
   [has_rank].  Independence of the columns of K: the only combination c (a bit vector of length
   nc K) of the columns of K — i.e. of the rows of K^T — that vanishes is c = 0.

   Abstractions: as for C06 (PLUQ = _mzd_pluq_naive in the closed model, substitution TRSM);
   [C07_generic] holds for ANY PLUQ routine meeting [pluq_spec] (NO assumption on the tail of Q) and
   ANY upper-left TRSM meeting its specification.  K itself (not its properties) depends on the tail
   of Q, which the block recursion may leave different from the identity: [kernel_left_cfg] is the
   model over the recursive PLUQ; [C07_kernel_cfg_partial] is conditional on C03 for that route. *)
From Coq Require Import List NArith ZArith Arith Lia Bool.
From M4 Require Import Base.Bits Lin.Mat Lin.MatAlg Lin.Ops Lin.Spec Alg.Gauss Alg.PLE Alg.PLESpec Alg.TRSM
  Alg.Solve Alg.SolveProofs Alg.SolveProofs2 Alg.SolveProofs3.
Import ListNotations.
Local Open Scope nat_scope.

Theorem C07_kernel : forall (cutoff : nat) (A : mat), wf A ->
  match kernel_left_model cutoff A with
  | Some None => rank A = nc A
  | Some (Some K) =>
      rank A < nc A /\ wf K /\ nr K = nc A /\ nc K = nc A - rank A /\
      mmul A K = mzero (nr A) (nc K) /\
      (forall c, bounded (nc K) c -> mul_row c (rows (mtrans K)) = 0%N -> c = 0%N)
  | None => False
  end.
Proof. exact kernel_closed. Qed.
Print Assumptions C07_kernel.

Theorem C07_kernel_none : forall (cutoff : nat) (A : mat), wf A ->
  (kernel_left_model cutoff A = Some None <-> rank A = nc A).
Proof. exact kernel_none_closed. Qed.
Print Assumptions C07_kernel_none.

(** for ANY PLUQ routine meeting the specification and ANY upper-left TRSM *)
Theorem C07_generic :
  forall (pluq : mat -> ple_out), (forall A, wf A -> pluq_spec A (pluq A)) ->
  forall (trsm_ul : mat -> mat -> mat),
  (forall U B, wf U -> wf B -> nr U = nr B -> nc U = nr B ->
     let X := trsm_ul U B in wf X /\ nr X = nr B /\ nc X = nc B /\ mmul (unit_upper (nr B) U) X = B) ->
  forall A, wf A ->
  match kernel_left pluq trsm_ul A with
  | None => rank A = nc A
  | Some K =>
      rank A < nc A /\ wf K /\ nr K = nc A /\ nc K = nc A - rank A /\
      mmul A K = mzero (nr A) (nc K) /\
      (forall c, bounded (nc K) c -> mul_row c (rows (mtrans K)) = 0%N -> c = 0%N)
  end.
Proof. exact kernel_spec. Qed.
Print Assumptions C07_generic.

Theorem C07_generic_none :
  forall (pluq : mat -> ple_out), (forall A, wf A -> pluq_spec A (pluq A)) ->
  forall (trsm_ul : mat -> mat -> mat),
  (forall U B, wf U -> wf B -> nr U = nr B -> nc U = nr B ->
     let X := trsm_ul U B in wf X /\ nr X = nr B /\ nc X = nc B /\ mmul (unit_upper (nr B) U) X = B) ->
  forall A, wf A -> (kernel_left pluq trsm_ul A = None <-> rank A = nc A).
Proof. exact kernel_none. Qed.
Print Assumptions C07_generic_none.

(** with the mathematical rank *)
Theorem C07_kernel_has_rank :
  forall (pluq : mat -> ple_out), (forall A, wf A -> pluq_spec A (pluq A)) ->
  forall (trsm_ul : mat -> mat -> mat),
  (forall U B, wf U -> wf B -> nr U = nr B -> nc U = nr B ->
     let X := trsm_ul U B in wf X /\ nr X = nr B /\ nc X = nc B /\ mmul (unit_upper (nr B) U) X = B) ->
  forall A rk, wf A -> has_rank A rk ->
  match kernel_left pluq trsm_ul A with
  | None => rk = nc A
  | Some K => rk < nc A /\ wf K /\ nr K = nc A /\ nc K = nc A - rk /\
              mmul A K = mzero (nr A) (nc K) /\
              (forall c, bounded (nc K) c -> mul_row c (rows (mtrans K)) = 0%N -> c = 0%N)
  end.
Proof. exact kernel_spec_has_rank. Qed.
Print Assumptions C07_kernel_has_rank.

(** the library's PLUQ route: PARTIAL — conditional on the C03 specification of the recursive PLUQ
    model for that PLE cutoff.  Full statement: the same without the first hypothesis. *)
Theorem C07_kernel_cfg_partial : forall (ple_cutoff cutoff : nat) (A : mat),
  (forall A, wf A -> pluq_spec A (pluq_rec_id ple_cutoff A)) -> wf A ->
  match kernel_left_cfg ple_cutoff cutoff A with
  | Some None => rank A = nc A
  | Some (Some K) =>
      rank A < nc A /\ wf K /\ nr K = nc A /\ nc K = nc A - rank A /\
      mmul A K = mzero (nr A) (nc K) /\
      (forall c, bounded (nc K) c -> mul_row c (rows (mtrans K)) = 0%N -> c = 0%N)
  | None => False
  end.
Proof. exact kernel_cfg_partial. Qed.
Print Assumptions C07_kernel_cfg_partial.

(** * non-vacuity *)
(** 3 x 4 of rank 2 with a pivot gap (profile {0, 2}): K is 4 x 2, A K = 0 *)
Definition kA : mat := mk 3 4 [12%N; 12%N; 5%N].
Example C07_instance :
  wfb kA = true /\ rank kA = 2 /\
  exists K, kernel_left_model 0 kA = Some (Some K) /\ nr K = 4 /\ nc K = 2 /\
            mmul kA K = mzero 3 2 /\ rank (mtrans K) = 2.
Proof. split; [reflexivity|]. split; [reflexivity|]. eexists. repeat split; vm_compute; reflexivity. Qed.

(** full column rank: NULL *)
Example C07_null_instance :
  kernel_left_model 0 (mk 3 2 [1%N; 2%N; 3%N]) = Some None /\ rank (mk 3 2 [1%N; 2%N; 3%N]) = 2.
Proof. split; reflexivity. Qed.

(** zero matrix: K = identity (n x n) *)
Example C07_zero_instance : kernel_left_model 0 (mzero 2 3) = Some (Some (mid 3)).
Proof. reflexivity. Qed.

(** the recursive route on the same input agrees here (single word: no recursion) *)
Example C07_cfg_instance : kernel_left_cfg 0 0 kA = kernel_left_model 0 kA.
Proof. reflexivity. Qed.

(** ** closed form for the library's own PLUQ route (block-recursive PLE with any cutoff): no hypothesis left *)
From M4 Require Import Alg.SolveClosed.
Theorem C07_kernel_cfg : forall ple_cutoff cutoff A, wf A ->
  match kernel_left_cfg ple_cutoff cutoff A with
  | Some None => rank A = nc A
  | Some (Some K) =>
      rank A < nc A /\ wf K /\ nr K = nc A /\ nc K = nc A - rank A /\
      mmul A K = mzero (nr A) (nc K) /\
      (forall c, bounded (nc K) c -> mul_row c (rows (mtrans K)) = 0%N -> c = 0%N)
  | None => False
  end.
Proof. exact kernel_cfg. Qed.
Print Assumptions C07_kernel_cfg.
