(* Properties/Properties_C15.v -- thread-safe build: concurrent use on disjoint matrices.
   Statements only; models in Sys/Conc.v (over Sys/Alloc.v), proofs in Sys/ConcProofs.v, generated
   table in Sys/GenGlobals.v (tools/globals_extract.py), its check in Sys/ConcGlobals.v.

   LABEL: PARTIAL BY PROOF.  What is proven, for ALL thread counts, ALL per-thread operation lists
   (mzd_init / mzd_init_window / mzd_free / user writes / m4ri_fini, handles naming matrices the
   thread created itself) and ALL interleavings:
     C15_interleave_indep   in the configuration --enable-thread-safe produces
                            (__M4RI_ENABLE_MMC = __M4RI_ENABLE_MZD_CACHE = 0) the allocator layer has
                            no component shared between threads except the system heap, reached only
                            through fresh block identities: every thread observes exactly what it
                            observes running alone (events, geometry, zero-ness of fresh storage,
                            content summaries, liveness of its blocks; block identities excluded);
     C15_caches_interfere   with the caches on, the same model DOES exhibit interference (so the
                            hypothesis [thread_safe] is what carries the theorem, not the model's
                            blindness);
     C15_globals_ok         every object of static storage duration that is writable in the
                            thread-safe build of the CURRENT working tree (table regenerated on every
                            check run: objdump of the objects + clang AST) is stored to by
                            load/unload-time functions only.
   What the model CANNOT exhibit (left to the ThreadSanitizer search of tools/props/c15.py, which
   therefore stays a search, not a proof):
     * data races INSIDE a routine: a step of the model is one atomic library call;
     * the arithmetic routines themselves (mul, echelonize, ple, solve, transpose): their only
       possible shared state are static objects, which C15_globals_ok excludes syntactically
       (conservatively: store or escape), except stores through a local alias of a table pointer
       (`int *p = m4ri_codebook[k]->ord; p[i] = ..`) and inline assembly;
     * weak memory, torn word accesses, the thread-safety of the libc allocator (assumed: the
       "system heap" hands out fresh disjoint blocks atomically);
     * concurrent calls of m4ri_init / m4ri_fini with running computations (excluded by the
       property's quantifier: tables are built at load time). *)
From Coq Require Import List NArith.
From M4 Require Import Sys.Alloc Sys.Conc Sys.ConcProofs Sys.GenGlobals Sys.ConcGlobals.
Import ListNotations.

Theorem C15_interleave_indep : forall p, thread_safe p ->
  forall progs sched, interleaving sched progs ->
  (forall t, handles_ok (nth t progs []) = true) ->
  forall t, t < length progs ->
  observe t (crun p (length progs) sched) = observe_solo (run p (nth t progs [])).
Proof. exact interleave_indep. Qed.
Print Assumptions C15_interleave_indep.

(* the same under the user contract of C14 (Alloc.wf_ops: no use after free, no double free) *)
Theorem C15_interleave_indep_wf : forall p, thread_safe p ->
  forall progs sched, interleaving sched progs ->
  (forall t, wf_ops (nth t progs []) = true) ->
  forall t, t < length progs ->
  observe t (crun p (length progs) sched) = observe_solo (run p (nth t progs [])).
Proof. exact interleave_indep_wf. Qed.
Print Assumptions C15_interleave_indep_wf.

Theorem C15_globals_ok : globals_check globals = true.
Proof. exact globals_ok. Qed.
Print Assumptions C15_globals_ok.

(** non-vacuity *)
Definition ts_params : params := mkParams 16 4194304 16 false false.
Definition cached_params : params := mkParams 16 4194304 16 true true.

Example ts_params_thread_safe : thread_safe ts_params.
Proof. split; reflexivity. Qed.

Definition ex_progs : list (list op) :=
  [ [Init 3 70; Write 0 5; Window 0 0 0 2 64; Free 1; Free 0];
    [Init 2 2; Init 0 5; Write 0 9; Free 1] ].
Definition ex_sched : list (nat * op) :=
  [ (0, Init 3 70); (1, Init 2 2); (1, Init 0 5); (0, Write 0 5); (1, Write 0 9);
    (0, Window 0 0 0 2 64); (1, Free 1); (0, Free 1); (0, Free 0) ].

Example ex_interleaving : interleaving ex_sched ex_progs.
Proof. repeat (eapply il_step; [reflexivity | cbn [upd]]). apply il_done. repeat constructor. Qed.

Example ex_handles : forall t, handles_ok (nth t ex_progs []) = true.
Proof. intros [|[|t]]; try reflexivity. destruct t; reflexivity. Qed.

Example ex_wf : forall t, wf_ops (nth t ex_progs []) = true.
Proof. intros [|[|t]]; try reflexivity. destruct t; reflexivity. Qed.

(* the conclusion, computed: thread 1 keeps its content summary 9 although thread 0 wrote 5 into its
   own matrix and allocated/freed around it *)
Example ex_observation :
  observe 1 (crun ts_params 2 ex_sched) = observe_solo (run ts_params (nth 1 ex_progs [])) /\
  length (fst (observe 1 (crun ts_params 2 ex_sched))) = 8 /\
  option_map b_fill (v_block (nth 0 (snd (observe 1 (crun ts_params 2 ex_sched)))
                                  (mkView 0 0 0 None false false 0 None None))) = Some 9%N.
Proof. vm_compute. auto. Qed.

(* with the caches on the model exhibits interference: thread 1 is handed the block thread 0 just
   freed and sees no system allocation for it *)
Theorem C15_caches_interfere : exists progs sched,
  interleaving sched progs /\ (forall t, wf_ops (nth t progs []) = true) /\
  observe 1 (crun cached_params (length progs) sched) <> observe_solo (run cached_params (nth 1 progs [])).
Proof.
  exists [[Init 1 1; Free 0]; [Init 1 1]], [(0, Init 1 1); (0, Free 0); (1, Init 1 1)].
  split; [|split].
  - repeat (eapply il_step; [reflexivity | cbn [upd]]). apply il_done. repeat constructor.
  - intros [|[|t]]; try reflexivity. destruct t; reflexivity.
  - vm_compute. discriminate.
Qed.
Print Assumptions C15_caches_interfere.

Example globals_table_nonempty : length globals <> 0.
Proof. vm_compute. discriminate. Qed.
