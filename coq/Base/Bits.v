(* Base/Bits.v — N as a bit vector: xor-sums, boundedness, extensionality helpers. *)
From Coq Require Import List NArith Arith Lia Bool.
Import ListNotations.
Local Open Scope nat_scope.

(* Keep [simpl]/[cbn] from unfolding arithmetic: proofs go through the spec lemmas. *)
Global Arguments Nat.ltb : simpl never.
Global Arguments Nat.leb : simpl never.
Global Arguments Nat.eqb : simpl never.
Global Arguments N.ones : simpl never.
Global Arguments N.shiftr : simpl never.
Global Arguments N.shiftl : simpl never.
Global Arguments N.land : simpl never.
Global Arguments N.lor : simpl never.
Global Arguments N.lxor : simpl never.
Global Arguments N.pow : simpl never.
Global Arguments N.testbit : simpl never.
Global Arguments N.of_nat : simpl never.
Global Arguments N.mul : simpl never.
Global Arguments N.add : simpl never.
Global Arguments N.div2 : simpl never.
Global Arguments N.odd : simpl never.

(** * xor-sum of a boolean function over [0,n) *)
Fixpoint xsum (n : nat) (f : nat -> bool) : bool :=
  match n with 0 => false | S m => xorb (xsum m f) (f m) end.

Lemma xsum_ext n f g : (forall k, k < n -> f k = g k) -> xsum n f = xsum n g.
Proof.
  induction n as [|n IH]; intros H; cbn; [reflexivity|].
  rewrite IH, H; auto.
Qed.

Lemma xsum_false n : xsum n (fun _ => false) = false.
Proof. induction n as [|n IH]; cbn; [reflexivity|]. now rewrite IH. Qed.

Lemma xsum_zero n f : (forall k, k < n -> f k = false) -> xsum n f = false.
Proof. intros H. rewrite (xsum_ext n f (fun _ => false)); auto using xsum_false. Qed.

Lemma xsum_xor n f g : xsum n (fun k => xorb (f k) (g k)) = xorb (xsum n f) (xsum n g).
Proof.
  induction n as [|n IH]; cbn; [reflexivity|]. rewrite IH.
  destruct (xsum n f), (xsum n g), (f n), (g n); reflexivity.
Qed.

Lemma xsum_and_l n b f : xsum n (fun k => b && f k) = b && xsum n f.
Proof.
  induction n as [|n IH]; cbn; [now rewrite andb_false_r|]. rewrite IH.
  destruct b, (xsum n f), (f n); reflexivity.
Qed.

Lemma xsum_and_r n b f : xsum n (fun k => f k && b) = xsum n f && b.
Proof.
  rewrite andb_comm, <- xsum_and_l. apply xsum_ext; intros; apply andb_comm.
Qed.

Lemma xsum_shift n f : xsum (S n) f = xorb (f 0) (xsum n (fun k => f (S k))).
Proof.
  induction n as [|n IH]; [cbn; now destruct (f 0)|].
  change (xsum (S (S n)) f) with (xorb (xsum (S n) f) (f (S n))).
  rewrite IH. cbn. destruct (f 0), (xsum n (fun k => f (S k))), (f (S n)); reflexivity.
Qed.

Lemma xsum_app n m f : xsum (n + m) f = xorb (xsum n f) (xsum m (fun k => f (n + k))).
Proof.
  induction m as [|m IH]; [rewrite Nat.add_0_r; cbn; now destruct (xsum n f)|].
  rewrite Nat.add_succ_r. cbn. rewrite IH.
  destruct (xsum n f), (xsum m (fun k => f (n + k))), (f (n + m)); reflexivity.
Qed.

Lemma xsum_single n f k0 : k0 < n -> (forall k, k < n -> k <> k0 -> f k = false) ->
  xsum n f = f k0.
Proof.
  induction n as [|n IH]; intros Hk H; [lia|]. cbn.
  destruct (Nat.eq_dec k0 n) as [->|Hne].
  - rewrite xsum_zero; [now destruct (f n)|]. intros k Hk'. apply H; lia.
  - rewrite IH; [|lia|intros; apply H; lia]. rewrite (H n); [now destruct (f k0)|lia|congruence].
Qed.

Lemma xsum_exchange n m (f : nat -> nat -> bool) :
  xsum n (fun i => xsum m (fun j => f i j)) = xsum m (fun j => xsum n (fun i => f i j)).
Proof.
  induction n as [|n IH]; cbn; [now rewrite xsum_false|].
  rewrite IH, <- xsum_xor. reflexivity.
Qed.

Lemma xsum_extend n m f : n <= m -> (forall k, n <= k < m -> f k = false) -> xsum m f = xsum n f.
Proof.
  intros Hle H. replace m with (n + (m - n)) by lia. rewrite xsum_app.
  rewrite (xsum_zero (m - n)); [now destruct (xsum n f)|]. intros k Hk. apply H. lia.
Qed.

(** * bounded rows *)
Definition bounded (n : nat) (r : N) : Prop :=
  forall j, n <= j -> N.testbit r (N.of_nat j) = false.

Definition boundedb (n : nat) (r : N) : bool := (r <? 2 ^ N.of_nat n)%N.

Lemma testbit_of_nat_to_nat r (j : N) : N.testbit r j = N.testbit r (N.of_nat (N.to_nat j)).
Proof. now rewrite N2Nat.id. Qed.

Lemma bounded_lt n r : bounded n r <-> (r < 2 ^ N.of_nat n)%N.
Proof.
  split.
  - intros H. destruct (N.eq_dec r 0) as [->|Hr]; [apply N.neq_0_lt_0, N.pow_nonzero; discriminate|].
    apply N.log2_lt_pow2; [lia|].
    destruct (N.lt_ge_cases (N.log2 r) (N.of_nat n)) as [Hlt|Hge]; [assumption|exfalso].
    pose proof (N.bit_log2 r Hr) as Hb.
    rewrite testbit_of_nat_to_nat, H in Hb; [discriminate|lia].
  - intros H j Hj. destruct (N.eq_dec r 0) as [->|Hr]; [apply N.bits_0|].
    apply N.bits_above_log2. apply N.log2_lt_pow2 in H; lia.
Qed.

Lemma boundedb_spec n r : boundedb n r = true <-> bounded n r.
Proof. unfold boundedb. rewrite N.ltb_lt. symmetry. apply bounded_lt. Qed.

Lemma bounded_0 n : bounded n 0%N.
Proof. intros j _. apply N.bits_0. Qed.

Lemma bounded_lxor n a b : bounded n a -> bounded n b -> bounded n (N.lxor a b).
Proof. intros Ha Hb j Hj. now rewrite N.lxor_spec, Ha, Hb. Qed.

Lemma bounded_land_l n a b : bounded n a -> bounded n (N.land a b).
Proof. intros Ha j Hj. now rewrite N.land_spec, Ha. Qed.

Lemma bounded_land_r n a b : bounded n b -> bounded n (N.land a b).
Proof. intros Hb j Hj. now rewrite N.land_spec, Hb, andb_false_r. Qed.

Lemma bounded_lor n a b : bounded n a -> bounded n b -> bounded n (N.lor a b).
Proof. intros Ha Hb j Hj. now rewrite N.lor_spec, Ha, Hb. Qed.

Lemma bounded_mono n m r : n <= m -> bounded n r -> bounded m r.
Proof. intros Hle H j Hj. apply H. lia. Qed.

Lemma bounded_ones n : bounded n (N.ones (N.of_nat n)).
Proof. intros j Hj. apply N.ones_spec_high. lia. Qed.

Lemma bounded_pow2 n i : i < n -> bounded n (2 ^ N.of_nat i)%N.
Proof. intros Hi j Hj. rewrite N.pow2_bits_false; [reflexivity|lia]. Qed.

Lemma bounded_shiftr n c r : bounded (n + c) r -> bounded n (N.shiftr r (N.of_nat c)).
Proof.
  intros H j Hj. rewrite N.shiftr_spec by lia.
  replace (N.of_nat j + N.of_nat c)%N with (N.of_nat (j + c)) by lia. apply H. lia.
Qed.

Lemma bounded_shiftl n c r : bounded n r -> bounded (n + c) (N.shiftl r (N.of_nat c)).
Proof.
  intros H j Hj. rewrite N.shiftl_spec_high by lia.
  replace (N.of_nat j - N.of_nat c)%N with (N.of_nat (j - c)) by lia. apply H. lia.
Qed.

(** Extensional equality of bounded rows *)
Lemma bits_ext_nat a b : (forall j, N.testbit a (N.of_nat j) = N.testbit b (N.of_nat j)) -> a = b.
Proof.
  intros H. apply N.bits_inj. intros j. rewrite (testbit_of_nat_to_nat a), (testbit_of_nat_to_nat b). apply H.
Qed.

Lemma bounded_ext n a b : bounded n a -> bounded n b ->
  (forall j, j < n -> N.testbit a (N.of_nat j) = N.testbit b (N.of_nat j)) -> a = b.
Proof.
  intros Ha Hb H. apply bits_ext_nat. intros j.
  destruct (Nat.lt_ge_cases j n) as [Hlt|Hge]; [auto|]. now rewrite Ha, Hb.
Qed.

Lemma testbit_ones_nat n j : N.testbit (N.ones (N.of_nat n)) (N.of_nat j) = (j <? n).
Proof.
  destruct (Nat.ltb_spec j n).
  - apply N.ones_spec_low. lia.
  - apply N.ones_spec_high. lia.
Qed.

Lemma testbit_pow2_nat i j : N.testbit (2 ^ N.of_nat i)%N (N.of_nat j) = (i =? j).
Proof.
  destruct (Nat.eqb_spec i j) as [->|Hne].
  - apply N.pow2_bits_true.
  - apply N.pow2_bits_false. lia.
Qed.

Lemma testbit_shiftr_nat r c j :
  N.testbit (N.shiftr r (N.of_nat c)) (N.of_nat j) = N.testbit r (N.of_nat (j + c)).
Proof. rewrite N.shiftr_spec by lia. f_equal. lia. Qed.

Lemma testbit_shiftl_nat r c j :
  N.testbit (N.shiftl r (N.of_nat c)) (N.of_nat j) = (c <=? j) && N.testbit r (N.of_nat (j - c)).
Proof.
  destruct (Nat.leb_spec c j).
  - rewrite N.shiftl_spec_high by lia. cbn. f_equal. lia.
  - rewrite N.shiftl_spec_low by lia. reflexivity.
Qed.

(** list helpers *)
Lemma nth_map_default {A B} (f : A -> B) l i d d' : i < length l -> nth i (map f l) d' = f (nth i l d).
Proof. intros H. rewrite (nth_indep _ d' (f d)) by now rewrite map_length. apply map_nth. Qed.

Lemma list_ext_nth {A} (d : A) l1 l2 : length l1 = length l2 ->
  (forall i, i < length l1 -> nth i l1 d = nth i l2 d) -> l1 = l2.
Proof.
  revert l2. induction l1 as [|x l1 IH]; intros [|y l2] Hl H; cbn in *; try discriminate; [reflexivity|].
  f_equal; [apply (H 0); lia|]. apply IH; [lia|]. intros i Hi. apply (H (S i)). lia.
Qed.

Lemma nth_firstn_lt {A} (l : list A) n i d : i < n -> nth i (firstn n l) d = nth i l d.
Proof.
  revert l i; induction n as [|n IH]; intros l i Hi; [lia|].
  destruct l as [|x l]; [now destruct i|]. destruct i as [|i]; cbn; [reflexivity|]. apply IH. lia.
Qed.

Lemma nth_skipn_add {A} (l : list A) n i d : nth i (skipn n l) d = nth (n + i) l d.
Proof.
  revert l; induction n as [|n IH]; intros l; [reflexivity|].
  destruct l as [|x l]; cbn; [now destruct i|]. apply IH.
Qed.
