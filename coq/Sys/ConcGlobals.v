(* Sys/ConcGlobals.v -- the check of the GENERATED globals table (C15, translator T3).
   Sys/GenGlobals.v is rewritten by tools/globals_extract.py on every run of the C15 check from the
   thread-safe build of the working tree; this file must then still compile.  A static scratch
   buffer, counter or cache reintroduced in any routine becomes an entry whose writer set is not
   contained in the load/unload-time functions, and [globals_ok] stops being provable. *)
From Coq Require Import List.
From M4 Require Import Sys.Alloc Sys.Conc Sys.GenGlobals.

Theorem globals_ok : globals_check globals = true.
Proof. vm_compute. reflexivity. Qed.
