(* Sys/Conc.v -- models for the two concurrency properties (C15 thread-safe build, C16 OpenMP build).
   Definitions only; proofs in Sys/ConcProofs.v, the generated globals table is checked in
   Sys/ConcGlobals.v.

   PART 1 (C15).  A multi-threaded wrapper around the allocator model Sys/Alloc.v.  Alloc.v numbers
   matrix handles globally (position in [st_mats]); here every thread names its matrices by
   THREAD-LOCAL handles 0,1,2,.. (its k-th creation) and the wrapper keeps, per thread, the list of
   global handles ([c_map]).  A schedule is a list of (thread, op) pairs executed on ONE shared
   Alloc.v state.  What a thread can observe are its own events and the final views of its own
   matrices, with system block identities and global handle numbers erased (a C program cannot
   predict addresses; everything else -- sizes, zero-ness of fresh storage, content summaries written
   by the user, liveness of blocks and headers -- is kept).

   PART 2 (C16).  Schedule independence, abstractly: a memory is a function from locations to values;
   a task is a memory transformer with a declared write footprint and a declared dependency footprint.
   Tasks of different threads whose write footprints are disjoint from the other's write and
   dependency footprints commute; hence (a) every interleaving of per-thread task lists equals the
   sequential order (the `omp parallel sections` of m4ri/mp.c:87-108, 206-227) and (b) a loop whose
   iterations are pairwise independent gives the same memory for every permutation / partition of
   the iteration space (`omp parallel for` in m4ri/brilliantrussian.c:365-381, 406-426, 453-476,
   505-532, 565-598, 1114-1152).  The instances fix the footprints the C code has: word rectangles of
   the four quadrant windows of C for mp.c, one row of the destination per iteration for the loops.

   NOT modelled (see Properties_C15.v / Properties_C16.v): steps are atomic library calls -- data
   races inside a routine, torn or reordered word accesses (weak memory), the OpenMP runtime, the
   libc allocator's own locking. *)
From Coq Require Import List NArith Bool Arith.
From Coq Require String.
From M4 Require Import Sys.Alloc.
Import ListNotations.

(** * Interleavings (shared by both parts) *)

(* [interleaving sched progs]: [sched] is a merge of the per-thread lists [progs] that keeps each
   thread's order; an element of [sched] is tagged with the index of the thread that executes it. *)
Inductive interleaving {A : Type} : list (nat * A) -> list (list A) -> Prop :=
| il_done : forall progs, Forall (fun p => p = []) progs -> interleaving [] progs
| il_step : forall t a rest progs sched,
    nth_error progs t = Some (a :: rest) ->
    interleaving sched (upd progs t rest) ->
    interleaving ((t, a) :: sched) progs.

(* the sub-list of [sched] executed by thread [t] *)
Definition proj {A : Type} (t : nat) (sched : list (nat * A)) : list A :=
  map snd (filter (fun x => Nat.eqb (fst x) t) sched).

(** * PART 1: threads over the allocator model (C15) *)

(* what configure --enable-thread-safe produces (configure.ac:92-103; tools/vlib.py _config_h) *)
Definition thread_safe (p : params) : Prop := enable_mmc p = false /\ enable_mzd_cache p = false.

Record cstate := mkC {
  c_sys : state;                 (* the ONE allocator / heap state all threads act on *)
  c_map : list (list nat)        (* per thread: local handle k |-> global handle *)
}.

Definition cinit (p : params) (nthreads : nat) : cstate := mkC (init_state p) (repeat [] nthreads).

Definition translate (mu : list nat) (o : op) : op :=
  match o with
  | Init r c => Init r c
  | Window h r0 c0 r1 c1 => Window (nth h mu O) r0 c0 r1 c1
  | Free h => Free (nth h mu O)
  | Write h v => Write (nth h mu O) v
  | Fini => Fini
  end.

Definition creates (o : op) : bool :=
  match o with Init _ _ | Window _ _ _ _ _ => true | _ => false end.

Definition cstep (p : params) (c : cstate) (x : nat * op) : cstate * list event :=
  let mu := nth (fst x) (c_map c) [] in
  let '(s', ev) := step p (c_sys c) (translate mu (snd x)) in
  let mu' := if creates (snd x) then mu ++ [length (st_mats (c_sys c))] else mu in
  (mkC s' (upd (c_map c) (fst x) mu'), ev).

(** ** observations *)
Inductive obs :=
| OSysAlloc (sz : N)
| OSysFree
| ORetInit (h : nat) (rows cols rowstride : N) (has_data zero : bool)
| ORetWindow (h : nat) (rows cols rowstride : N) (offset : option N)
| ORetFree (h : nat)
| ORetWrite (h : nat)
| ORetFini.

Fixpoint index_of (g : nat) (mu : list nat) : nat :=
  match mu with
  | [] => O
  | x :: r => if Nat.eqb x g then O else S (index_of g r)
  end.

Definition is_some {A} (o : option A) : bool := match o with Some _ => true | None => false end.

(* [loc] maps a handle of the event to the observer's (thread-local) numbering *)
Definition obs_ev (loc : nat -> nat) (e : event) : obs :=
  match e with
  | SysAlloc _ sz => OSysAlloc sz
  | SysFree _ => OSysFree
  | RetInit h r c rs d _ z => ORetInit (loc h) r c rs (is_some d) z
  | RetWindow h r c rs d _ => ORetWindow (loc h) r c rs (option_map snd d)
  | RetFree h => ORetFree (loc h)
  | RetWrite h => ORetWrite (loc h)
  | RetFini => ORetFini
  end.

(* final view of one matrix: geometry, flags, owner (local numbering), and the storage it points to:
   the data block as the heap has it (size and content summary; None = not allocated any more) and
   the size of the header block.  No block identity, no global handle. *)
Record mview := mkView {
  v_rows : N; v_cols : N; v_rowstride : N; v_offset : option N;
  v_win : bool; v_live : bool; v_root : nat;
  v_block : option blk; v_hdr : option N
}.

Definition hdr_size (s : state) (h : hslot) : option N :=
  match h with
  | HMalloc i => option_map b_size (heap_find (st_heap s) i)
  | HSlot _ _ => None
  end.

Definition view (s : state) (loc : nat -> nat) (m : mat) : mview :=
  mkView (m_rows m) (m_cols m) (m_rowstride m) (option_map snd (m_data m)) (m_win m) (m_live m)
         (loc (m_root m))
         (match m_data m with Some (b, _) => heap_find (st_heap s) b | None => None end)
         (hdr_size s (m_hdr m)).

(** ** runs *)
Definition crun_from (p : params) (st : cstate * list (nat * obs)) (sched : list (nat * op))
  : cstate * list (nat * obs) :=
  fold_left (fun st x =>
               let '(c, tr) := st in
               let '(c', ev) := cstep p c x in
               let mu' := nth (fst x) (c_map c') [] in
               (c', tr ++ map (fun e => (fst x, obs_ev (fun g => index_of g mu') e)) ev))
            sched st.

Definition crun (p : params) (nthreads : nat) (sched : list (nat * op)) : cstate * list (nat * obs) :=
  crun_from p (cinit p nthreads, []) sched.

(* what thread t sees of a concurrent run *)
Definition observe (t : nat) (r : cstate * list (nat * obs)) : list obs * list mview :=
  let mu := nth t (c_map (fst r)) [] in
  (proj t (snd r),
   map (fun g => view (c_sys (fst r)) (fun h => index_of h mu) (nth g (st_mats (c_sys (fst r))) dummy_mat)) mu).

(* what the single thread of a sequential run (Alloc.run) sees *)
Definition observe_solo (r : state * list event) : list obs * list mview :=
  (map (obs_ev (fun h => h)) (snd r), map (view (fst r) (fun h => h)) (st_mats (fst r))).

(** ** what the user must respect: every handle names a matrix the thread created before
   (weaker than Alloc.wf_ops, which also forbids double frees and dangling views) *)
Fixpoint handles_from (n : nat) (ops : list op) : bool :=
  match ops with
  | [] => true
  | o :: r =>
      (match o with
       | Window h _ _ _ _ | Free h | Write h _ => Nat.ltb h n
       | _ => true
       end) && handles_from (if creates o then S n else n) r
  end.

Definition handles_ok (ops : list op) : bool := handles_from O ops.

(** ** globals table check (C15, T3): writers of every writable static object are load/unload-time
   functions only (m4ri/misc.c:73-89 constructor m4ri_init / destructor m4ri_fini, and the two
   code-book routines they call, m4ri/graycode.c:52-73) *)
Import String.StringSyntax.
Local Open Scope string_scope.
Definition load_time_functions : list String.string :=
  ["m4ri_init"; "m4ri_fini"; "m4ri_build_all_codes"; "m4ri_destroy_all_codes"; "constructor"].

Definition mem_str (x : String.string) (l : list String.string) : bool := existsb (String.eqb x) l.

Definition globals_check (g : list (String.string * list String.string)) : bool :=
  forallb (fun e => forallb (fun w => mem_str w load_time_functions) (snd e)) g.
Local Close Scope string_scope.

(** * PART 2: schedule independence of tasks with disjoint footprints (C16) *)
Section Tasks.
  Variables L V : Type.
  Definition mem := L -> V.
  Definition meq (m m' : mem) : Prop := forall l, m l = m' l.

  Record task := mkTask {
    t_run : mem -> mem;
    t_w : L -> bool;       (* write footprint: nothing outside is changed *)
    t_d : L -> bool        (* dependency footprint: what is written depends on these locations only *)
  }.

  Definition task_ok (t : task) : Prop :=
    (forall m l, t_w t l = false -> t_run t m l = m l) /\
    (forall m m', (forall l, t_d t l = true -> m l = m' l) ->
                  forall l, t_w t l = true -> t_run t m l = t_run t m' l).

  (* neither task writes what the other writes or depends on *)
  Definition indep (a b : task) : Prop :=
    forall l, (t_w a l = true -> t_w b l = false /\ t_d b l = false) /\
              (t_w b l = true -> t_w a l = false /\ t_d a l = false).

  Definition run_tasks (ts : list task) (m : mem) : mem := fold_left (fun m t => t_run t m) ts m.

  (* a parallel loop: iteration i is the task [body i] *)
  Definition run_loop (body : nat -> task) (idx : list nat) (m : mem) : mem :=
    run_tasks (map body idx) m.
End Tasks.
Arguments meq {L V}.
Arguments mkTask {L V}.
Arguments t_run {L V}.
Arguments t_w {L V}.
Arguments t_d {L V}.
Arguments task_ok {L V}.
Arguments indep {L V}.
Arguments run_tasks {L V}.
Arguments run_loop {L V}.

(** ** the footprints of the C code: words of matrices *)
Inductive region := RA | RB | RC | RT.          (* A, B: sources; C: destination; T: tables *)
Definition wloc := (region * nat * nat)%type.    (* (matrix, row, word index in the row) *)

Definition region_eqb (x y : region) : bool :=
  match x, y with RA, RA | RB, RB | RC, RC | RT, RT => true | _, _ => false end.

(* a window in bit coordinates, as mzd_init_window takes it *)
Record window := mkWin { w_r0 : nat; w_c0 : nat; w_r1 : nat; w_c1 : nat }.

(* the words a window's rows overlap: columns [c0, c1) live in words c0/64 .. (c1+63)/64 - 1 *)
Definition in_words (w : window) (i k : nat) : bool :=
  Nat.leb (w_r0 w) i && Nat.ltb i (w_r1 w) &&
  Nat.leb (w_c0 w / 64) k && Nat.ltb k ((w_c1 w + 63) / 64).

Definition foot_C (w : window) (l : wloc) : bool :=
  let '(r, i, k) := l in region_eqb r RC && in_words w i k.

Definition is_src (l : wloc) : bool :=
  let '(r, _, _) := l in region_eqb r RA || region_eqb r RB || region_eqb r RT.

(* split arithmetic of _mzd_mul_mp4 / _mzd_addmul_mp4, m4ri/mp.c:61-72 and 184-195 *)
Definition mp_cut (a : nat) : nat := a - a mod 128.            (* a -= a % (2 * m4ri_radix) *)
Definition mp_half (a : nat) : nat := (mp_cut a / 64 / 2) * 64. (* ((a / m4ri_radix) >> 1) * m4ri_radix *)

(* C00, C01, C10, C11 of mp.c:82-85 / 201-204 for A of a rows and B of c columns *)
Definition mp_quadrants (a c : nat) : list window :=
  let anr := mp_half a in let bnc := mp_half c in
  [ mkWin 0 0 anr bnc; mkWin 0 bnc anr (2 * bnc); mkWin anr 0 (2 * anr) bnc; mkWin anr bnc (2 * anr) (2 * bnc) ].

(* a call of a kernel on quadrant w: writes only words of w in C, depends on A, B (and tables) and
   on its own quadrant (addmul accumulates) *)
Definition quadrant_task {V} (w : window) (f : mem wloc V -> mem wloc V) : task wloc V :=
  mkTask f (foot_C w) (fun l => foot_C w l || is_src l).

(* the four section bodies: a list of kernel calls per quadrant (two per section in mp.c) *)
Definition mp_sections {V} (a c : nat) (bodies : list (list (mem wloc V -> mem wloc V)))
  : list (list (task wloc V)) :=
  map (fun wb => map (quadrant_task (fst wb)) (snd wb)) (combine (mp_quadrants a c) bodies).

(* iteration j of a row-processing loop: writes row j of C, depends on row j of C and the sources *)
Definition row_foot (j : nat) (l : wloc) : bool :=
  let '(r, i, _) := l in region_eqb r RC && Nat.eqb i j.

Definition row_task {V} (f : nat -> mem wloc V -> mem wloc V) (j : nat) : task wloc V :=
  mkTask (f j) (row_foot j) (fun l => row_foot j l || is_src l).

(* iteration z of the table-construction loop (brilliantrussian.c:1114-1118): writes table z
   (modelled as "row z of region RT" standing for T[z] and L[z]), depends on B only *)
Definition table_foot (z : nat) (l : wloc) : bool :=
  let '(r, i, _) := l in region_eqb r RT && Nat.eqb i z.

Definition table_task {V} (f : nat -> mem wloc V -> mem wloc V) (z : nat) : task wloc V :=
  mkTask (f z) (table_foot z) (fun l => let '(r, _, _) := l in region_eqb r RB).
