(* Sys/Alloc.v -- executable model of m4ri's two allocator caches (property C14).

   Mirrors, branch for branch,
     m4ri/mmc.c   m4ri_mmc_malloc / m4ri_mmc_free / m4ri_mmc_cleanup, m4ri/mmc.h m4ri_mmc_calloc
     m4ri/mzd.c   mzd_t_malloc / mzd_t_free / mzd_init / mzd_init_window / mzd_free
     m4ri/misc.c  m4ri_fini (its allocator part: m4ri_mmc_cleanup)
   over an abstract system heap.  No proofs here (see Sys/AllocInv.v); this file is extracted to
   OCaml and run against the real library on every check (tools/props/c14.py).

   Abstractions (documented, deliberately coarse):
   * a system block is an identity [N] handed out by a fresh-id counter (the libc contract: a
     new block is disjoint from all blocks allocated before, live or not), a size in bytes and a
     one-value summary of its content, [b_fill]: 0 = every byte is zero, anything else = dirty.
     A block obtained from the system is dirty (posix_memalign does not clear);
   * pointer arithmetic on headers ([M - cache->mzd] in mzd_t_free) is abstracted by the header
     remembering the block it was taken from ([HSlot b e]);
   * [log2_floor(~used)] is modelled by [N.log2] of the 64-bit complement (the C routine is a
     6-step binary search for the highest set bit; the slot index is part of the compared trace);
   * integer overflow of [r * rowstride] (int arithmetic in mzd_init/mzd_free) is not modelled. *)
From Coq Require Import List NArith Bool Arith.
Import ListNotations.
Local Open Scope N_scope.

(** * Parameters *)
Record params := mkParams {
  NBLOCKS : nat;            (* __M4RI_MMC_NBLOCKS *)
  THRESHOLD : N;            (* __M4RI_MMC_THRESHOLD = __M4RI_CPU_L3_CACHE, bytes *)
  CACHE_MAX : nat;          (* __M4RI_MZD_T_CACHE_MAX *)
  enable_mmc : bool;        (* __M4RI_ENABLE_MMC *)
  enable_mzd_cache : bool   (* __M4RI_ENABLE_MZD_CACHE *)
}.

(** * System heap *)
Record blk := mkBlk { b_size : N; b_fill : N }.
Definition heap := list (N * blk).

Definition garbage (i : N) : N := N.succ i.   (* content of a block fresh from the system: dirty *)

Fixpoint heap_find (h : heap) (i : N) : option blk :=
  match h with
  | [] => None
  | (k, b) :: t => if k =? i then Some b else heap_find t i
  end.

Fixpoint heap_remove (h : heap) (i : N) : heap :=
  match h with
  | [] => []
  | (k, b) :: t => if k =? i then t else (k, b) :: heap_remove t i
  end.

Fixpoint heap_fill (h : heap) (i : N) (v : N) : heap :=
  match h with
  | [] => []
  | (k, b) :: t => if k =? i then (k, mkBlk (b_size b) v) :: t else (k, b) :: heap_fill t i v
  end.

(** * Library state *)
Record slot := mkSlot { s_size : N; s_data : option N }.       (* mmb_t *)

Inductive hslot :=
| HSlot (b : option N) (e : N)   (* &b->mzd[e]; b = None is the static block mzd_cache *)
| HMalloc (i : N).               (* header from m4ri_mm_malloc(sizeof(mzd_t)) *)

Record mat := mkMat {
  m_rows : N; m_cols : N; m_rowstride : N;
  m_data : option (N * N);       (* data pointer: (system block, word offset); None = NULL *)
  m_hdr : hslot;                 (* where the mzd_t lives *)
  m_win : bool;                  (* mzd_flag_windowed *)
  m_live : bool;                 (* ghost: not yet passed to mzd_free *)
  m_root : nat                   (* ghost: handle of the matrix owning the storage *)
}.

Record state := mkState {
  st_next : N;                        (* fresh-id counter of the system allocator *)
  st_heap : heap;                     (* blocks currently allocated from the system *)
  st_mmc : list slot;                 (* m4ri_mmc_cache[NBLOCKS] *)
  st_j : nat;                         (* static int j of m4ri_mmc_free *)
  st_hb : list (option N * N);        (* mzd_cache list in link order: (block, used mask) *)
  st_cur : option N;                  (* current_cache *)
  st_mats : list mat                  (* every matrix ever created, by handle *)
}.

Definition set_heap s h := mkState (st_next s) h (st_mmc s) (st_j s) (st_hb s) (st_cur s) (st_mats s).
Definition set_mmc s m j := mkState (st_next s) (st_heap s) m j (st_hb s) (st_cur s) (st_mats s).
Definition set_hb s hb cur := mkState (st_next s) (st_heap s) (st_mmc s) (st_j s) hb cur (st_mats s).
Definition set_mats s ms := mkState (st_next s) (st_heap s) (st_mmc s) (st_j s) (st_hb s) (st_cur s) ms.

Definition FULL : N := 18446744073709551615.         (* (uint64_t)-1 *)
Definition HDR_SIZE : N := 64.                       (* sizeof(mzd_t) *)
Definition HBLOCK_SIZE : N := 4160.                  (* sizeof(mzd_t_cache_t) = 64*64 + 64 *)

Definition init_state (p : params) : state :=
  mkState 0 [] (repeat (mkSlot 0 None) (NBLOCKS p)) 0%nat [(None, 0)] None [].

(** * Operations and events *)
Inductive op :=
| Init (r c : N)                         (* mzd_init(r, c) *)
| Window (h : nat) (r0 c0 r1 c1 : N)     (* mzd_init_window(h, r0, c0, r1, c1) *)
| Free (h : nat)                         (* mzd_free(h) *)
| Write (h : nat) (v : N)                (* the user fills matrix h with pattern v *)
| Fini.                                  (* m4ri_fini() *)

Inductive event :=
| SysAlloc (i sz : N)                    (* posix_memalign returned block i of sz bytes *)
| SysFree (i : N)                        (* free(block i) *)
| RetInit (h : nat) (rows cols rowstride : N) (data : option N) (hdr : hslot) (zero : bool)
| RetWindow (h : nat) (rows cols rowstride : N) (data : option (N * N)) (hdr : hslot)
| RetFree (h : nat)
| RetWrite (h : nat)
| RetFini.

(** ** the system allocator *)
Definition sys_alloc (s : state) (sz : N) : state * N * list event :=
  let i := st_next s in
  (mkState (N.succ i) ((i, mkBlk sz (garbage i)) :: st_heap s) (st_mmc s) (st_j s) (st_hb s) (st_cur s)
           (st_mats s), i, [SysAlloc i sz]).

(* free(NULL) is a no-op and produces no event *)
Definition sys_free (s : state) (d : option N) : state * list event :=
  match d with
  | None => (s, [])
  | Some i => (set_heap s (heap_remove (st_heap s) i), [SysFree i])
  end.

(** ** generic list helpers *)
Fixpoint upd {A} (l : list A) (i : nat) (v : A) : list A :=
  match l, i with
  | [], _ => []
  | _ :: t, O => v :: t
  | a :: t, S k => a :: upd t k v
  end.

(** ** mmc.c *)
(* first slot whose size field equals sz: the [for i ... if (mm[i].size == size)] scans *)
Fixpoint find_size (l : list slot) (sz : N) : option nat :=
  match l with
  | [] => None
  | sl :: t => if s_size sl =? sz then Some O else option_map S (find_size t sz)
  end.

Definition empty_slot := mkSlot 0 None.

Definition mmc_malloc (p : params) (s : state) (sz : N) : state * N * list event :=
  if enable_mmc p then
    match (if sz <=? THRESHOLD p then find_size (st_mmc s) sz else None) with
    | Some i =>
        (* ret = mm[i].data; mm[i].data = NULL; mm[i].size = 0; break; *)
        let s1 := set_mmc s (upd (st_mmc s) i empty_slot) (st_j s) in
        match s_data (nth i (st_mmc s) empty_slot) with
        | Some d => (s1, d, [])                       (* if (ret) return ret; *)
        | None => sys_alloc s1 sz                     (* else return m4ri_mm_malloc(size); *)
        end
    | None => sys_alloc s sz
    end
  else sys_alloc s sz.

Definition mmc_free (p : params) (s : state) (d : option N) (sz : N) : state * list event :=
  if enable_mmc p then
    if sz <? THRESHOLD p then
      match find_size (st_mmc s) 0 with
      | Some i => (set_mmc s (upd (st_mmc s) i (mkSlot sz d)) (st_j s), [])
      | None =>
          let j := st_j s in
          let '(s1, ev) := sys_free s (s_data (nth j (st_mmc s) empty_slot)) in   (* m4ri_mm_free(mm[j].data) *)
          (set_mmc s1 (upd (st_mmc s1) j (mkSlot sz d)) (Nat.modulo (S j) (NBLOCKS p)), ev)
      end
    else sys_free s d
  else sys_free s d.

(* for (i = 0; i < NBLOCKS; ++i) { if (mm[i].size) m4ri_mm_free(mm[i].data); mm[i].size = 0; }
   (the data field is left as it is) *)
Fixpoint mmc_cleanup_from (s : state) (i : nat) (n : nat) : state * list event :=
  match n with
  | O => (s, [])
  | S n' =>
      let sl := nth i (st_mmc s) empty_slot in
      let '(s1, ev1) := if s_size sl =? 0 then (s, []) else sys_free s (s_data sl) in
      let s2 := set_mmc s1 (upd (st_mmc s1) i (mkSlot 0 (s_data sl))) (st_j s1) in
      let '(s3, ev3) := mmc_cleanup_from s2 (S i) n' in
      (s3, ev1 ++ ev3)
  end.

Definition mmc_cleanup (p : params) (s : state) : state * list event :=
  if enable_mmc p then mmc_cleanup_from s O (NBLOCKS p) else (s, []).

(** ** mzd.c: header cache *)
Definition oeqb (a b : option N) : bool :=
  match a, b with
  | None, None => true
  | Some x, Some y => x =? y
  | _, _ => false
  end.

Fixpoint hb_used (hb : list (option N * N)) (c : option N) : N :=
  match hb with
  | [] => 0
  | (r, u) :: t => if oeqb r c then u else hb_used t c
  end.

Fixpoint hb_set (hb : list (option N * N)) (c : option N) (v : N) : list (option N * N) :=
  match hb with
  | [] => []
  | (r, u) :: t => if oeqb r c then (r, v) :: t else (r, u) :: hb_set t c v
  end.

Fixpoint hb_remove (hb : list (option N * N)) (c : option N) : list (option N * N) :=
  match hb with
  | [] => []
  | (r, u) :: t => if oeqb r c then t else (r, u) :: hb_remove t c
  end.

(* cache->prev of block c: the block linked before it (None = the static block, also the
   answer for the head itself, which is never asked for) *)
Fixpoint hb_prev (hb : list (option N * N)) (c : option N) (before : option N) : option N :=
  match hb with
  | [] => before
  | (r, _) :: t => if oeqb r c then before else hb_prev t c r
  end.

(* while (cache && cache->used == -1) { current_cache = cache; cache = cache->next; i++; }
   result: (first block that is not full, value of current_cache, i) *)
Fixpoint hb_walk (hb : list (option N * N)) (cur : option N) (i : nat)
  : option (option N) * option N * nat :=
  match hb with
  | [] => (None, cur, i)
  | (r, u) :: t => if u =? FULL then hb_walk t r (S i) else (Some r, cur, i)
  end.

(* int free_entry = log2_floor(~current_cache->used); used |= 1 << free_entry; *)
Definition take_slot (s : state) (c : option N) : state * hslot :=
  let u := hb_used (st_hb s) c in
  let e := N.log2 (N.lxor u FULL) in
  (set_hb s (hb_set (st_hb s) c (N.lor u (N.shiftl 1 e))) c, HSlot c e).

Definition mzd_t_malloc (p : params) (s : state) : state * hslot * list event :=
  if enable_mzd_cache p then
    if hb_used (st_hb s) (st_cur s) =? FULL then
      match hb_walk (st_hb s) (st_cur s) O with
      | (Some c, _, _) =>                               (* else current_cache = cache; *)
          let '(s1, hs) := take_slot s c in (s1, hs, [])
      | (None, last, i) =>
          if Nat.ltb i (CACHE_MAX p) then               (* a new block, appended and made current *)
            let '(s1, b, ev) := sys_alloc s HBLOCK_SIZE in
            let s2 := set_hb s1 (st_hb s1 ++ [(Some b, 0)]) (Some b) in
            let '(s3, hs) := take_slot s2 (Some b) in (s3, hs, ev)
          else                                          (* upper limit reached: plain malloc *)
            let '(s1, b, ev) := sys_alloc (set_hb s (st_hb s) last) HDR_SIZE in
            (s1, HMalloc b, ev)
      end
    else
      let '(s1, hs) := take_slot s (st_cur s) in (s1, hs, [])
  else
    let '(s1, b, ev) := sys_alloc s HDR_SIZE in (s1, HMalloc b, ev).

Definition clearbit (u e : N) : N := N.ldiff u (N.shiftl 1 e).

Definition mzd_t_free (p : params) (s : state) (hd : hslot) : state * list event :=
  match hd with
  | HMalloc i => sys_free s (Some i)     (* cache off, or no block contains M: m4ri_mm_free(M) *)
  | HSlot c e =>
      let u' := clearbit (hb_used (st_hb s) c) e in
      let hb1 := hb_set (st_hb s) c u' in
      if u' =? 0 then
        match c with
        | None => (set_hb s hb1 None, [])                      (* current_cache = &mzd_cache *)
        | Some i =>
            let cur' := if oeqb c (st_cur s) then hb_prev hb1 c None else st_cur s in
            sys_free (set_hb s (hb_remove hb1 c) cur') (Some i)   (* unlink; m4ri_mm_free(cache) *)
        end
      else (set_hb s hb1 (st_cur s), [])
  end.

(** ** mzd.c: matrices *)
Definition width_of (c : N) : N := (c + 63) / 64.
Definition rowstride_of (c : N) : N := let w := width_of c in if N.even w then w else w + 1.

Definition push_mat (s : state) (m : mat) : state := set_mats s (st_mats s ++ [m]).

Definition fill_of (s : state) (d : option N) : N :=
  match d with
  | None => 0
  | Some i => match heap_find (st_heap s) i with Some b => b_fill b | None => 1 end
  end.

Definition mzd_init (p : params) (s : state) (r c : N) : state * list event :=
  let h := length (st_mats s) in
  let '(s1, hd, ev1) := mzd_t_malloc p s in
  let rs := rowstride_of c in
  if negb (r =? 0) && negb (c =? 0) then
    let sz := r * rs * 8 in
    let '(s2, d, ev2) := mmc_malloc p s1 sz in
    let s3 := set_heap s2 (heap_fill (st_heap s2) d 0) in        (* memset(ret, 0, total_size) *)
    (push_mat s3 (mkMat r c rs (Some (d, 0)) hd false true h),
     ev1 ++ ev2 ++ [RetInit h r c rs (Some d) hd (fill_of s3 (Some d) =? 0)])
  else
    (push_mat s1 (mkMat r c rs None hd false true h),
     ev1 ++ [RetInit h r c rs None hd true]).

Definition dummy_mat := mkMat 0 0 0 None (HMalloc 0) false false O.

Definition mzd_init_window (p : params) (s : state) (h : nat) (r0 c0 r1 c1 : N) : state * list event :=
  let w := length (st_mats s) in
  let M := nth h (st_mats s) dummy_mat in
  let '(s1, hd, ev1) := mzd_t_malloc p s in
  let nrows := N.min (r1 - r0) (m_rows M - r0) in
  let ncols := c1 - c0 in
  let data := match m_data M with
              | Some (b, off) => Some (b, off + r0 * m_rowstride M + c0 / 64)
              | None => None
              end in
  (push_mat s1 (mkMat nrows ncols (m_rowstride M) data hd true true (m_root M)),
   ev1 ++ [RetWindow w nrows ncols (m_rowstride M) data hd]).

Definition kill (m : mat) : mat :=
  mkMat (m_rows m) (m_cols m) (m_rowstride m) (m_data m) (m_hdr m) (m_win m) false (m_root m).

Definition mzd_free (p : params) (s : state) (h : nat) : state * list event :=
  let A := nth h (st_mats s) dummy_mat in
  let s0 := set_mats s (upd (st_mats s) h (kill A)) in
  let '(s1, ev1) :=
    if m_win A then (s0, [])
    else mmc_free p s0 (option_map fst (m_data A)) (m_rows A * m_rowstride A * 8) in
  let '(s2, ev2) := mzd_t_free p s1 (m_hdr A) in
  (s2, ev1 ++ ev2 ++ [RetFree h]).

Definition do_write (s : state) (h : nat) (v : N) : state * list event :=
  match m_data (nth h (st_mats s) dummy_mat) with
  | Some (b, _) => (set_heap s (heap_fill (st_heap s) b v), [RetWrite h])
  | None => (s, [RetWrite h])
  end.

Definition step (p : params) (s : state) (o : op) : state * list event :=
  match o with
  | Init r c => mzd_init p s r c
  | Window h r0 c0 r1 c1 => mzd_init_window p s h r0 c0 r1 c1
  | Free h => mzd_free p s h
  | Write h v => do_write s h v
  | Fini => let '(s1, ev) := mmc_cleanup p s in (s1, ev ++ [RetFini])
  end.

Definition run_from (p : params) (st : state * list event) (ops : list op) : state * list event :=
  fold_left (fun st o => let '(s, tr) := st in let '(s', ev) := step p s o in (s', tr ++ ev)) ops st.

Definition run (p : params) (ops : list op) : state * list event := run_from p (init_state p, []) ops.

(** * Well-formed histories (what the *user* must respect), independent of the model state:
   per handle, (still live?, root handle). *)
Definition hinfo := list (bool * nat).

Definition h_live (hs : hinfo) (h : nat) : bool :=
  match nth_error hs h with Some (true, _) => true | _ => false end.

Definition h_root (hs : hinfo) (h : nat) : nat :=
  match nth_error hs h with Some (_, r) => r | None => h end.

Definition op_ok (hs : hinfo) (o : op) : bool :=
  match o with
  | Init _ _ => true
  | Window h _ _ _ _ => h_live hs h                          (* parent header still valid *)
  | Free h => h_live hs h                                    (* no double free by the user *)
  | Write h _ => h_live hs h && h_live hs (h_root hs h)      (* no use of a dangling view *)
  | Fini => true
  end.

Definition op_track (hs : hinfo) (o : op) : hinfo :=
  match o with
  | Init _ _ => hs ++ [(true, length hs)]
  | Window h _ _ _ _ => hs ++ [(true, h_root hs h)]
  | Free h => upd hs h (false, h_root hs h)
  | Write _ _ => hs
  | Fini => hs
  end.

Fixpoint wf_from (hs : hinfo) (ops : list op) : bool :=
  match ops with
  | [] => true
  | o :: t => op_ok hs o && wf_from (op_track hs o) t
  end.

Definition wf_ops (ops : list op) : bool := wf_from [] ops.

Definition track (ops : list op) : hinfo := fold_left op_track ops [].

(* every handle ever created has been freed *)
Definition all_freed (ops : list op) : bool := forallb (fun x => negb (fst x)) (track ops).
