(* C20 -- types shared by the generated table Sys/GenSites.v and the fault model Sys/FaultModel.v.

   site      one allocation call site of m4ri/*.{c,h} as classified by tools/alloc_sites.py
   wstmt     the statement language the three checking wrappers of misc.h are translated into
   mmc_ret   the return routes of m4ri_mmc_malloc                                              *)
From Coq Require Import String List NArith Bool.
Import ListNotations.
Open Scope string_scope.

Inductive sclass := ViaWrapper | RawChecked | RawUnchecked | Unclassified.

Record site := mk_site {
  s_file   : string;   (* m4ri/<file> *)
  s_line   : N;
  s_func   : string;   (* enclosing function *)
  s_callee : string;   (* allocator or wrapper that is called *)
  s_class  : sclass;
  s_guard  : bool      (* the null test is `p == NULL && size > 0` *)
}.

Definition class_ok (c : sclass) : bool :=
  match c with ViaWrapper | RawChecked => true | _ => false end.

Definition site_ok (s : site) : bool := class_ok (s_class s).

Definition listed (exc : list (string * string * string)) (s : site) : bool :=
  existsb (fun e => match e with (f, g, c) =>
             String.eqb f (s_file s) && String.eqb g (s_func s) && String.eqb c (s_callee s) end) exc.

(* a site is acceptable if its class is, or if (file, function, callee) is a listed known finding;
   an Unclassified site (text the ASTs never saw) is never acceptable *)
Definition ok_or_listed (exc : list (string * string * string)) (s : site) : bool :=
  match s_class s with
  | ViaWrapper | RawChecked => true
  | RawUnchecked => listed exc s
  | Unclassified => false
  end.

(* the three `#if` variants of misc.h *)
Inductive avariant := VMmMalloc | VPosixMemalign | VPlain.
(* the three wrappers *)
Inductive wkind := WMalloc | WCalloc | WAligned.
(* system allocators the wrappers end in *)
Inductive sysfn := SMmMalloc | SPosixMemalign | SCalloc | SMalloc.

Inductive wstmt :=
| WSys (f : sysfn)          (* newthing = f(..)   |   int e = posix_memalign(&newthing,..); if (e) newthing = NULL; *)
| WIfNullDie (guard : bool) (* if (newthing == NULL [&& size > 0]) { m4ri_die(..); }                                *)
| WAlias                    (* char *b = (char * )newthing;                                                          *)
| WMemset                   (* memset(newthing, 0, bytes)                                                           *)
| WReturn                   (* return newthing;                                                                     *)
| WUnknown (what : string). (* anything the translator does not recognise                                           *)

Inductive mmc_ret := MRCacheVar | MRWrapper | MROther.

Definition all_variants : list avariant := [VMmMalloc; VPosixMemalign; VPlain].
Definition all_wkinds : list wkind := [WMalloc; WCalloc; WAligned].
