(* C20 -- proofs about Sys/FaultModel.v instantiated with the generated Sys/GenSites.v.

   (a) wrappers_die / wrappers_ok / wrapper_size0_*   the three wrappers, all three `#if` variants
       mmc_falls_through                               cache miss = wrapper, cache hit = no system request
   (b) layer_dies_checked    every history of allocation-layer calls, every fault position: Die
                             -- for the model in which djb_push_back tests its reallocs
       layer_dies_refuted    the model of the code as pinned (unchecked realloc): DerefNull
       layer_live            whichever of the two the tree calls for, selected by GenSites.v
       fails_at_iff_count    the fault is injected iff i < number of requests of the fault-free run
   (c) sites_ok_except       every site of the generated table is via_wrapper / raw_checked or is a
                             listed known finding (file, function, callee)                          *)
From Coq Require Import List NArith Bool String Lia PeanoNat.
From M4 Require Import Sys.FaultTypes Sys.GenSites Sys.FaultModel.
Import ListNotations.
Open Scope N_scope.

(* ------------------------------------------------------------------------------------------ *)
(** * (a) wrappers                                                                              *)
(* ------------------------------------------------------------------------------------------ *)

Lemma wf_tail_ret : forall b bytes sa p, wf_tail b = true ->
  run_wbody b bytes sa (Some (Some p)) = WRet (Some p).
Proof.
  induction b as [|x r IH]; intros bytes sa p H; [discriminate|].
  destruct x; simpl in H; try discriminate.
  - simpl. apply IH; assumption.
  - simpl. apply IH; assumption.
  - destruct r; [reflexivity|discriminate].
Qed.

Lemma wf_tail_null0 : forall b sa, wf_tail b = true ->
  run_wbody b 0 sa (Some None) = WRet None.
Proof.
  induction b as [|x r IH]; intros sa H; [discriminate|].
  destruct x; simpl in H; try discriminate.
  - simpl. apply IH; assumption.
  - simpl. apply IH; assumption.
  - destruct r; [reflexivity|discriminate].
Qed.

(* generic: any body of the accepted shape dies when the system answers NULL to a non-empty request *)
Lemma wf_body_dies : forall b bytes sa, wf_body b = true -> 0 < bytes ->
  (forall f, sa f bytes = None) -> run_wrapper b bytes sa = WDie.
Proof.
  intros b bytes sa H Hpos Hsa.
  destruct b as [|x [|y r]]; try discriminate; destruct x; try discriminate.
  destruct y; try discriminate.
  unfold run_wrapper. simpl. rewrite Hsa.
  apply N.ltb_lt in Hpos. rewrite Hpos. destruct guard; reflexivity.
Qed.

Lemma wf_body_ok : forall b bytes sa p, wf_body b = true ->
  (forall f, sa f bytes = Some p) -> run_wrapper b bytes sa = WRet (Some p).
Proof.
  intros b bytes sa p H Hsa.
  destruct b as [|x [|y r]]; try discriminate; destruct x; try discriminate.
  destruct y; try discriminate.
  unfold run_wrapper. simpl. rewrite Hsa. apply wf_tail_ret. exact H.
Qed.

(* the bodies translated from misc.h of this tree have the accepted shape, in all three variants *)
Theorem gen_wrappers_wf : forall v k, wf_body (gen_body v k) = true.
Proof. intros v k; destruct v, k; vm_compute; reflexivity. Qed.

Theorem wrappers_die : forall v k bytes sysalloc, 0 < bytes ->
  (forall f, sysalloc f bytes = None) -> run_wrapper (gen_body v k) bytes sysalloc = WDie.
Proof. intros; apply wf_body_dies; auto using gen_wrappers_wf. Qed.

Theorem wrappers_ok : forall v k bytes sysalloc p,
  (forall f, sysalloc f bytes = Some p) -> run_wrapper (gen_body v k) bytes sysalloc = WRet (Some p).
Proof. intros; apply wf_body_ok; auto using gen_wrappers_wf. Qed.

Example wrappers_die_sat : exists bytes sa, 0 < bytes /\ (forall f : sysfn, sa f bytes = (None : option ptr)).
Proof. exists 8, (fun _ _ => None). split; [reflexivity | auto]. Qed.

(* size 0.  m4ri_mm_malloc and m4ri_mm_malloc_aligned test `newthing == NULL && size > 0`: a NULL
   answer to a 0-byte request is handed to the caller (no abort); m4ri_mm_calloc tests
   `newthing == NULL` only and aborts even though nothing was requested. *)
Definition has_guard (b : list wstmt) : bool :=
  match b with _ :: WIfNullDie g :: _ => g | _ => false end.

Theorem wrapper_size0_guarded_returns_null : forall v k sysalloc, has_guard (gen_body v k) = true ->
  (forall f, sysalloc f 0 = None) -> run_wrapper (gen_body v k) 0 sysalloc = WRet None.
Proof.
  intros v k sa Hg Hsa. pose proof (gen_wrappers_wf v k) as Hwf.
  destruct (gen_body v k) as [|x [|y r]]; try discriminate; destruct x; try discriminate.
  destruct y; try discriminate. simpl in Hg; subst guard.
  unfold run_wrapper; simpl. rewrite Hsa. simpl. apply wf_tail_null0. exact Hwf.
Qed.

Theorem wrapper_size0_unguarded_dies : forall v k sysalloc, has_guard (gen_body v k) = false ->
  (forall f, sysalloc f 0 = None) -> run_wrapper (gen_body v k) 0 sysalloc = WDie.
Proof.
  intros v k sa Hg Hsa. pose proof (gen_wrappers_wf v k) as Hwf.
  destruct (gen_body v k) as [|x [|y r]]; try discriminate; destruct x; try discriminate.
  destruct y; try discriminate. simpl in Hg; subst guard.
  unfold run_wrapper; simpl. rewrite Hsa. reflexivity.
Qed.

(* which wrappers carry the guard in this tree (all variants agree) *)
Theorem gen_guards : forall v, has_guard (gen_body v WMalloc) = true /\ has_guard (gen_body v WAligned) = true
                               /\ has_guard (gen_body v WCalloc) = false.
Proof. intros v; destruct v; vm_compute; auto. Qed.

(** ** the cache front end *)

(* a miss (ret stays NULL) is exactly the wrapper; a hit returns the cached block whatever the
   system allocator would have answered, i.e. makes no system request *)
Theorem mmc_falls_through : forall enabled threshold body cache n sysalloc,
  (fst (mmc_lookup enabled threshold cache n) = None ->
     fst (mmc_malloc enabled threshold body cache n sysalloc) = run_wrapper body n sysalloc) /\
  (forall p, fst (mmc_lookup enabled threshold cache n) = Some p ->
     forall sysalloc', mmc_malloc enabled threshold body cache n sysalloc' =
                       (WRet (Some p), snd (mmc_lookup enabled threshold cache n))).
Proof.
  intros. unfold mmc_malloc. destruct (mmc_lookup enabled threshold cache n) as [ret c'].
  simpl. split.
  - intros ->. reflexivity.
  - intros p ->. reflexivity.
Qed.

(* the cache disabled (thread-safe build) or a request above the threshold always misses *)
Theorem mmc_disabled_misses : forall threshold body cache n sysalloc,
  mmc_malloc false threshold body cache n sysalloc = (run_wrapper body n sysalloc, cache).
Proof. reflexivity. Qed.

Theorem mmc_large_misses : forall enabled threshold body cache n sysalloc, threshold < n ->
  mmc_malloc enabled threshold body cache n sysalloc = (run_wrapper body n sysalloc, cache).
Proof.
  intros. unfold mmc_malloc, mmc_lookup. apply N.leb_gt in H. rewrite H, andb_false_r. reflexivity.
Qed.

(* hence: miss + system failure = Die, for the m4ri_mm_malloc of every variant *)
Corollary mmc_miss_dies : forall v enabled threshold cache n sysalloc, 0 < n ->
  fst (mmc_lookup enabled threshold cache n) = None -> (forall f, sysalloc f n = None) ->
  fst (mmc_malloc enabled threshold (gen_body v WMalloc) cache n sysalloc) = WDie.
Proof.
  intros. rewrite (proj1 (mmc_falls_through _ _ _ _ _ _) H0). apply wrappers_die; assumption.
Qed.

Example mmc_hit_example :
  mmc_malloc true 4096 (gen_body VMmMalloc WMalloc) [mk_slot 0 None; mk_slot 512 (Some 7)] 512 (fun _ _ => None)
  = (WRet (Some 7), [mk_slot 0 None; mk_slot 0 None]).
Proof. reflexivity. Qed.

Example mmc_miss_example :
  fst (mmc_malloc true 4096 (gen_body VMmMalloc WMalloc) [mk_slot 0 None; mk_slot 512 (Some 7)] 1024 (fun _ _ => None))
  = WDie.
Proof. reflexivity. Qed.

(* the return routes of m4ri_mmc_malloc read off the C text: a cached block or the wrapper *)
Theorem gen_mmc_routes_ok : forall v,
  forallb (fun r => match r with MROther => false | _ => true end) (gen_mmc_returns v) = true /\
  existsb (fun r => match r with MRWrapper => true | _ => false end) (gen_mmc_returns v) = true.
Proof. intros v; destruct v; vm_compute; auto. Qed.

(* ------------------------------------------------------------------------------------------ *)
(** * (b) the allocation layer                                                                  *)
(* ------------------------------------------------------------------------------------------ *)

Definition cfg_wf (c : cfg) : Prop := forall k, wf_body (wbody c k) = true.

(** ** a flow analysis of micro-operation lists: which registers hold an untested raw result *)

Definition mem (r : reg) (l : list reg) : bool := existsb (reg_eqb r) l.
Definition remove_all (rs l : list reg) : list reg := filter (fun x => negb (mem x rs)) l.

Fixpoint flow (pend : list reg) (us : list uop) : option (list reg) :=
  match us with
  | [] => Some pend
  | UWrap _ dst _ :: r => if mem dst pend then None else flow pend r
  | UCached dst :: r => if mem dst pend then None else flow pend r
  | URaw dst _ :: r => if mem dst pend then None else flow (dst :: pend) r
  | UCheck rs :: r => flow (remove_all rs pend) r
  | UUse x :: r => if mem x pend then None else flow pend r
  | UBook _ :: r => flow pend r
  end.

Lemma flow_app : forall a b p, flow p (a ++ b) = match flow p a with Some q => flow q b | None => None end.
Proof.
  induction a as [|u a IH]; intros b p; [reflexivity|].
  destruct u; simpl; try (destruct (mem _ p)); auto.
Qed.

Lemma reg_eqb_eq : forall a b, reg_eqb a b = true <-> a = b.
Proof.
  intros a b; split.
  - destruct a, b; simpl; intros H; try discriminate; try reflexivity.
    apply Nat.eqb_eq in H. subst; reflexivity.
  - intros ->. destruct b; simpl; auto. apply Nat.eqb_refl.
Qed.

Lemma mem_In : forall r l, mem r l = true <-> In r l.
Proof.
  intros r l. unfold mem. rewrite existsb_exists. split.
  - intros [x [Hx He]]. apply reg_eqb_eq in He. subst. exact Hx.
  - intros H. exists r. split; [exact H | apply reg_eqb_eq; reflexivity].
Qed.

(** ** the invariant *)

Definition Inv (pend : list reg) (s : st) : Prop :=
  (forall r, get_reg r s = None -> In r pend) /\
  (failed s = true -> exists r, get_reg r s = None).

Lemma get_set_same : forall r v s, get_reg r (set_reg r v s) = v.
Proof.
  intros. unfold get_reg, set_reg. simpl.
  replace (reg_eqb r r) with true; [reflexivity|]. symmetry; apply reg_eqb_eq; reflexivity.
Qed.

Lemma get_set_other : forall r r' v s, r <> r' -> get_reg r (set_reg r' v s) = get_reg r s.
Proof.
  intros. unfold get_reg, set_reg. simpl.
  destruct (reg_eqb r r') eqn:E; [apply reg_eqb_eq in E; contradiction | reflexivity].
Qed.

Lemma failed_set : forall r v s, failed (set_reg r v s) = failed s.
Proof. reflexivity. Qed.

Lemma book_get : forall b r s, get_reg r (book_step b s) = get_reg r s.
Proof. destruct b; reflexivity. Qed.

Lemma book_failed : forall b s, failed (book_step b s) = failed s.
Proof. destruct b; reflexivity. Qed.

(* what a system request does to the state *)
Lemma sys_req_spec : forall fault bytes s a s1, sys_req fault bytes s = (a, s1) ->
  (forall r, get_reg r s1 = get_reg r s) /\
  (failed s1 = true -> failed s = true \/ (a = None /\ 0 < bytes)) /\
  (a = None -> 0 < bytes /\ failed s1 = true).
Proof.
  intros fault bytes s a s1 H. unfold sys_req in H.
  destruct (bytes =? 0) eqn:Eb.
  - inversion H; subst. repeat split; auto; discriminate.
  - apply N.eqb_neq in Eb.
    destruct (match fault with Some i => nsys s =? i | None => false end); inversion H; subst; simpl.
    + repeat split; auto; try lia. intros _. right. split; [reflexivity | lia].
    + repeat split; auto; discriminate.
Qed.

Lemma step_sound : forall c fault u r pend q s, cfg_wf c -> Inv pend s -> flow pend (u :: r) = Some q ->
  match step c fault u s with
  | Go s' => exists pend', flow pend' r = Some q /\ Inv pend' s'
  | Stop o _ => o = Die
  end.
Proof.
  intros c fault u r pend q s Hwf [I1 I2] Hf.
  destruct u as [k dst bytes | dst | dst bytes | rs | x | b]; simpl in Hf.
  - (* UWrap *)
    destruct (mem dst pend) eqn:Em; [discriminate|].
    assert (Hnd : ~ In dst pend) by (rewrite <- mem_In; congruence).
    unfold step. destruct (sys_req fault bytes s) as [a s1] eqn:Es.
    destruct (sys_req_spec _ _ _ _ _ Es) as [Hg [Hfl Hnone]].
    destruct a as [p|].
    + rewrite (wf_body_ok (wbody c k) bytes (fun _ _ => Some p) p (Hwf k)) by auto.
      exists pend. split; [exact Hf|]. split.
      * intros r0 H0. destruct (reg_eqb r0 dst) eqn:E.
        -- apply reg_eqb_eq in E; subst. rewrite get_set_same in H0. discriminate.
        -- assert (r0 <> dst) by (intros ->; rewrite (proj2 (reg_eqb_eq dst dst) eq_refl) in E; discriminate).
           rewrite get_set_other in H0 by assumption. rewrite Hg in H0. auto.
      * rewrite failed_set. intros Hfd. destruct (Hfl Hfd) as [Hold | [Hn _]]; [|discriminate].
        destruct (I2 Hold) as [r0 Hr0]. exists r0.
        assert (r0 <> dst) by (intros ->; apply Hnd; auto).
        rewrite get_set_other by assumption. rewrite Hg. exact Hr0.
    + destruct (Hnone eq_refl) as [Hpos _].
      rewrite (wf_body_dies (wbody c k) bytes (fun _ _ => None) (Hwf k) Hpos) by auto. reflexivity.
  - (* UCached *)
    destruct (mem dst pend) eqn:Em; [discriminate|].
    assert (Hnd : ~ In dst pend) by (rewrite <- mem_In; congruence).
    simpl. exists pend. split; [exact Hf|]. split.
    + intros r0 H0. destruct (reg_eqb r0 dst) eqn:E.
      * apply reg_eqb_eq in E; subst. rewrite get_set_same in H0. discriminate.
      * assert (r0 <> dst) by (intros ->; rewrite (proj2 (reg_eqb_eq dst dst) eq_refl) in E; discriminate).
        rewrite get_set_other in H0 by assumption. auto.
    + rewrite failed_set. intros Hfd. destruct (I2 Hfd) as [r0 Hr0]. exists r0.
      assert (r0 <> dst) by (intros ->; apply Hnd; auto).
      rewrite get_set_other by assumption. exact Hr0.
  - (* URaw *)
    destruct (mem dst pend) eqn:Em; [discriminate|].
    assert (Hnd : ~ In dst pend) by (rewrite <- mem_In; congruence).
    unfold step. destruct (sys_req fault bytes s) as [a s1] eqn:Es.
    destruct (sys_req_spec _ _ _ _ _ Es) as [Hg [Hfl Hnone]].
    exists (dst :: pend). split; [exact Hf|]. split.
    + intros r0 H0. destruct (reg_eqb r0 dst) eqn:E.
      * apply reg_eqb_eq in E; subst. left; reflexivity.
      * assert (r0 <> dst) by (intros ->; rewrite (proj2 (reg_eqb_eq dst dst) eq_refl) in E; discriminate).
        rewrite get_set_other in H0 by assumption. rewrite Hg in H0. right; auto.
    + rewrite failed_set. intros Hfd. destruct (Hfl Hfd) as [Hold | [Hn _]].
      * destruct (I2 Hold) as [r0 Hr0]. exists r0.
        assert (r0 <> dst) by (intros ->; apply Hnd; auto).
        rewrite get_set_other by assumption. rewrite Hg. exact Hr0.
      * subst a. exists dst. apply get_set_same.
  - (* UCheck *)
    simpl. destruct (existsb (fun r0 => is_null (get_reg r0 s)) rs) eqn:Ee; [reflexivity|].
    exists (remove_all rs pend). split; [exact Hf|]. split; [|exact I2].
    intros r0 H0. unfold remove_all. apply filter_In. split; [auto|].
    destruct (mem r0 rs) eqn:Emr; [|reflexivity].
    apply mem_In in Emr.
    assert (existsb (fun r1 => is_null (get_reg r1 s)) rs = true).
    { apply existsb_exists. exists r0. split; [exact Emr|]. rewrite H0. reflexivity. }
    congruence.
  - (* UUse *)
    destruct (mem x pend) eqn:Em; [discriminate|].
    simpl. destruct (get_reg x s) eqn:Eg.
    + simpl. exists pend. split; [exact Hf|]. split; assumption.
    + apply I1 in Eg. apply mem_In in Eg. congruence.
  - (* UBook *)
    simpl. exists pend. split; [exact Hf|]. split.
    + intros r0. rewrite book_get. apply I1.
    + rewrite book_failed. intros Hfd. destruct (I2 Hfd) as [r0 Hr0]. exists r0. rewrite book_get. exact Hr0.
Qed.

Lemma run_ops_sound : forall c fault us pend q s, cfg_wf c -> Inv pend s -> flow pend us = Some q ->
  match run_ops c fault us s with
  | Go s' => Inv q s'
  | Stop o _ => o = Die
  end.
Proof.
  intros c fault us. induction us as [|u r IH]; intros pend q s Hwf HI Hf.
  - simpl in *. inversion Hf; subst. exact HI.
  - pose proof (step_sound c fault u r pend q s Hwf HI Hf) as Hs.
    simpl. destruct (step c fault u s) as [s'|o s'].
    + destruct Hs as [pend' [Hf' HI']]. eapply IH; eauto.
    + exact Hs.
Qed.

(** ** every call of the layer passes the flow analysis -- when djb_push_back tests its reallocs *)

Lemma hdr_ops_flow : forall c h dst, flow [] (hdr_ops c h dst) = Some [].
Proof.
  intros c h dst. unfold hdr_ops. destruct (hdr_cache c); [destruct h|]; simpl; try reflexivity.
Qed.

Lemma mmc_ops_flow : forall c hit dst bytes, flow [] (mmc_ops c hit dst bytes) = Some [].
Proof. intros. unfold mmc_ops. destruct (mmc_on c && hit); reflexivity. Qed.

Lemma mzd_init_ops_flow : forall cf r c h hit a d, flow [] (mzd_init_ops cf r c h hit a d) = Some [].
Proof.
  intros. unfold mzd_init_ops. rewrite flow_app, hdr_ops_flow. rewrite flow_app. simpl.
  destruct ((r =? 0) || (c =? 0)); [reflexivity|].
  rewrite flow_app, mmc_ops_flow. reflexivity.
Qed.

Lemma codebook_entries_flow : forall n k, flow [] (codebook_entries n k) = Some [].
Proof.
  induction n as [|n IH]; intros k; [reflexivity|].
  simpl. apply IH.
Qed.

Theorem expand_flow : forall c s call, pb_checked c = true -> flow [] (expand c s call) = Some [].
Proof.
  intros c s call Hpb. destruct call; unfold expand.
  - apply mzd_init_ops_flow.
  - rewrite flow_app, hdr_ops_flow. reflexivity.
  - simpl. destruct (len =? 0); reflexivity.
  - reflexivity.
  - rewrite flow_app. simpl. rewrite flow_app, mzd_init_ops_flow. reflexivity.
  - rewrite flow_app. simpl. apply codebook_entries_flow.
  - reflexivity.
  - rewrite Hpb. destruct (djb_live s); [|reflexivity].
    destruct (djb_alloc s <=? djb_len s); reflexivity.
  - reflexivity.
  - destruct (heap_live s); [|reflexivity].
    destruct (heap_count s =? heap_size s); reflexivity.
  - destruct (heap_live s && (0 <? heap_count s)); [|reflexivity].
    destruct ((heap_count s - 1 <=? heap_size s / 4) && (4 <? heap_size s)); reflexivity.
Qed.

Lemma Inv_nil_init : Inv [] init_st.
Proof. split; [intros r H; discriminate | discriminate]. Qed.

Lemma Inv_nil_not_failed : forall s, Inv [] s -> failed s = false.
Proof.
  intros s [I1 I2]. destruct (failed s); [|reflexivity].
  destruct (I2 eq_refl) as [r Hr]. destruct (I1 r Hr).
Qed.

Lemma run_hist_sound : forall c fault h s, cfg_wf c -> pb_checked c = true -> Inv [] s ->
  match run_hist c fault h s with
  | Go s' => Inv [] s'
  | Stop o _ => o = Die
  end.
Proof.
  intros c fault h. induction h as [|call r IH]; intros s Hwf Hpb HI; [exact HI|].
  simpl. pose proof (run_ops_sound c fault (expand c s call) [] [] s Hwf HI (expand_flow c s call Hpb)) as H.
  destruct (run_ops c fault (expand c s call) s) as [s'|o s'].
  - apply IH; assumption.
  - exact H.
Qed.

(* THE POSITIVE THEOREM: in a build whose wrappers have the accepted shape and whose djb_push_back
   tests its reallocs, failing any one system request of any history of layer calls ends in
   m4ri_die -- never in a null dereference, never in a normal return. *)
Theorem layer_dies_checked : forall c, cfg_wf c -> pb_checked c = true ->
  forall h i, fails_at c h i -> outcome_of (run_faulty c h i) = Die.
Proof.
  intros c Hwf Hpb h i Hfa. unfold fails_at, injected, run_faulty, outcome_of in *.
  pose proof (run_hist_sound c (Some i) h init_st Hwf Hpb Inv_nil_init) as H.
  destruct (run_hist c (Some i) h init_st) as [s'|o s']; simpl in *.
  - rewrite (Inv_nil_not_failed s' H) in Hfa. discriminate.
  - exact H.
Qed.

(* ... and if no request fails there is no abort: the run ends normally *)
Theorem layer_no_fault_done : forall c, cfg_wf c -> pb_checked c = true ->
  forall h i, injected (run_faulty c h i) = false ->
  outcome_of (run_faulty c h i) = Done \/ outcome_of (run_faulty c h i) = Die.
Proof.
  intros c Hwf Hpb h i Hni. unfold injected, run_faulty, outcome_of in *.
  pose proof (run_hist_sound c (Some i) h init_st Hwf Hpb Inv_nil_init) as H.
  destruct (run_hist c (Some i) h init_st) as [s'|o s']; simpl in *.
  - rewrite Hni. left; reflexivity.
  - right; exact H.
Qed.

(** ** the configurations read off the tree *)

Definition in_push_back (s : site) : bool := String.eqb (s_func s) "djb_push_back".

(* does djb_push_back of this tree test its allocation results?  (no raw site left untested) *)
Definition tree_pb_checked : bool := forallb site_ok (filter in_push_back sites).

Definition live_cfg (v : avariant) (hdr mmc : bool) : cfg := mk_cfg (gen_body v) hdr mmc tree_pb_checked.
Definition checked_cfg (v : avariant) (hdr mmc : bool) : cfg := mk_cfg (gen_body v) hdr mmc true.
Definition unchecked_cfg (v : avariant) (hdr mmc : bool) : cfg := mk_cfg (gen_body v) hdr mmc false.

Lemma gen_cfg_wf : forall v hdr mmc pb, cfg_wf (mk_cfg (gen_body v) hdr mmc pb).
Proof. intros v hdr mmc pb k. apply gen_wrappers_wf. Qed.

(* the queue is grown by the 65th push: requests 0..3 are djb_init, 4..6 the three reallocs *)
Definition djb_witness : list lcall := LDjbInit :: repeat LDjbPush 65.

(* THE REFUTATION for the code as pinned (djb.h:100-105, results of realloc stored and used
   untested): with the model of the unchecked djb_push_back, failing request 4, 5 or 6 of
   djb_init + 65 pushes is a null dereference, in every variant and cache configuration. *)
Theorem layer_dies_refuted : forall v hdr mmc, exists h i,
  fails_at (unchecked_cfg v hdr mmc) h i /\ outcome_of (run_faulty (unchecked_cfg v hdr mmc) h i) = DerefNull.
Proof.
  intros v hdr mmc. exists djb_witness, 4. destruct v, hdr, mmc; vm_compute; split; reflexivity.
Qed.

Theorem layer_dies_refuted_all_three : forall v hdr mmc i, In i [4; 5; 6] ->
  fails_at (unchecked_cfg v hdr mmc) djb_witness i /\
  outcome_of (run_faulty (unchecked_cfg v hdr mmc) djb_witness i) = DerefNull.
Proof.
  intros v hdr mmc i Hi. simpl in Hi.
  destruct Hi as [<-|[<-|[<-|[]]]]; destruct v, hdr, mmc; vm_compute; split; reflexivity.
Qed.

(* the same history on the checked model: all seven requests die *)
Example djb_witness_checked : forall v,
  snd (predict (checked_cfg v true true) djb_witness) = [Die; Die; Die; Die; Die; Die; Die].
Proof. intros v; destruct v; vm_compute; reflexivity. Qed.

(* THE LIVE OBLIGATION: GenSites.v decides which of the two statements is claimed of this tree. *)
Definition live_statement (v : avariant) (hdr mmc : bool) : Prop :=
  if tree_pb_checked
  then forall h i, fails_at (live_cfg v hdr mmc) h i -> outcome_of (run_faulty (live_cfg v hdr mmc) h i) = Die
  else exists h i, fails_at (live_cfg v hdr mmc) h i /\ outcome_of (run_faulty (live_cfg v hdr mmc) h i) = DerefNull.

Theorem layer_live : forall v hdr mmc, live_statement v hdr mmc.
Proof.
  intros v hdr mmc. unfold live_statement, live_cfg.
  destruct tree_pb_checked.
  - apply layer_dies_checked; [apply gen_cfg_wf | reflexivity].
  - apply (layer_dies_refuted v hdr mmc).
Qed.

(* whenever the tree's djb_push_back is checked, the positive theorem is about the live model *)
Corollary layer_dies : tree_pb_checked = true -> forall v hdr mmc h i,
  fails_at (live_cfg v hdr mmc) h i -> outcome_of (run_faulty (live_cfg v hdr mmc) h i) = Die.
Proof.
  intros Ht v hdr mmc. apply layer_dies_checked; [apply gen_cfg_wf | exact Ht].
Qed.

(* hypotheses satisfiable / non-vacuity *)
Example fails_at_sat : fails_at (checked_cfg VMmMalloc true true) [LMzdInit 10 10 HSlot false; LMzpInit 5] 2.
Proof. vm_compute. reflexivity. Qed.

Example predict_mixed : predict (checked_cfg VMmMalloc true true)
    [LMzdInit 10 10 HSlot false; LMzdInit 10 10 HSlot true; LMzdWindow HNewBlock; LMzpInit 5; LHeapInit; LHeapPush]
  = (6, [Die; Die; Die; Die; Die; Die]).
Proof. vm_compute. reflexivity. Qed.

Example no_fault_done : outcome_of (run_faulty (checked_cfg VPlain false false) [LMzpInit 5; LPleTable 3 100 HSlot false] 99) = Done.
Proof. vm_compute. reflexivity. Qed.

(* ------------------------------------------------------------------------------------------ *)
(** * fails_at = "i is smaller than the number of requests of the fault-free run"               *)
(* ------------------------------------------------------------------------------------------ *)

(* two states that differ at most in nothing: the faulty run and the fault-free run coincide until
   the request numbered i is made *)
Lemma sys_req_lockstep : forall i bytes s,
  failed s = false -> nsys s <= i ->
  (sys_req (Some i) bytes s = sys_req None bytes s /\ nsys (snd (sys_req None bytes s)) <= i
     /\ failed (snd (sys_req None bytes s)) = false) \/
  (nsys s = i /\ bytes <> 0).
Proof.
  intros i bytes s Hf Hn. unfold sys_req. destruct (bytes =? 0) eqn:Eb.
  - left. simpl. auto.
  - destruct (nsys s =? i) eqn:Ei.
    + right. apply N.eqb_eq in Ei. apply N.eqb_neq in Eb. auto.
    + left. simpl. apply N.eqb_neq in Ei. repeat split; auto; lia.
Qed.

Lemma sys_req_nsys_mono : forall fault bytes s, nsys s <= nsys (snd (sys_req fault bytes s)).
Proof.
  intros. unfold sys_req. destruct (bytes =? 0); [simpl; lia|].
  destruct (match fault with Some i => nsys s =? i | None => false end); simpl; lia.
Qed.

Lemma sys_req_nsys_hit : forall bytes s, bytes <> 0 -> nsys (snd (sys_req None bytes s)) = nsys s + 1.
Proof.
  intros. unfold sys_req. apply N.eqb_neq in H. rewrite H. reflexivity.
Qed.

Definition res_st (r : res) : st := match r with Go s => s | Stop _ s => s end.

Lemma book_nsys : forall b s, nsys (book_step b s) = nsys s.
Proof. destruct b; reflexivity. Qed.

Lemma step_nsys_mono : forall c fault u s, nsys s <= nsys (res_st (step c fault u s)).
Proof.
  intros c fault u s. destruct u; simpl; try lia.
  - pose proof (sys_req_nsys_mono fault bytes s). destruct (sys_req fault bytes s) as [a s1]. simpl in *.
    destruct (run_wrapper (wbody c k) bytes (fun _ _ => a)); simpl; lia.
  - pose proof (sys_req_nsys_mono fault bytes s). destruct (sys_req fault bytes s) as [a s1]. simpl in *. lia.
  - destruct (existsb _ rs); simpl; lia.
  - destruct (is_null _); simpl; lia.
  - rewrite book_nsys. lia.
Qed.

Lemma run_ops_nsys_mono : forall c fault us s, nsys s <= nsys (res_st (run_ops c fault us s)).
Proof.
  intros c fault us. induction us as [|u r IH]; intros s; simpl; [lia|].
  pose proof (step_nsys_mono c fault u s). destruct (step c fault u s) as [s'|o s']; simpl in *.
  - specialize (IH s'). lia.
  - lia.
Qed.

Lemma run_hist_nsys_mono : forall c fault h s, nsys s <= nsys (res_st (run_hist c fault h s)).
Proof.
  intros c fault h. induction h as [|call r IH]; intros s; simpl; [lia|].
  pose proof (run_ops_nsys_mono c fault (expand c s call) s).
  destruct (run_ops c fault (expand c s call) s) as [s'|o s']; simpl in *.
  - specialize (IH s'). lia.
  - lia.
Qed.

(* a step from a state in which the fault is still ahead: either the two runs take the same step, or
   this very step makes request i *)
Lemma step_lockstep : forall c i u s, failed s = false -> nsys s <= i ->
  (step c (Some i) u s = step c None u s /\ nsys (res_st (step c None u s)) <= i
     /\ failed (res_st (step c None u s)) = false) \/
  (failed (res_st (step c (Some i) u s)) = true /\ i < nsys (res_st (step c None u s))).
Proof.
  intros c i u s Hf Hn. destruct u; simpl.
  - destruct (sys_req_lockstep i bytes s Hf Hn) as [[He [Hn' Hf']] | [Hi Hb]].
    + left. rewrite He. destruct (sys_req None bytes s) as [a s1]. simpl in *.
      destruct (run_wrapper (wbody c k) bytes (fun _ _ => a)); simpl; auto.
    + right. unfold sys_req. apply N.eqb_neq in Hb. rewrite Hb.
      apply N.eqb_eq in Hi. rewrite Hi. simpl.
      apply N.eqb_eq in Hi.
      split.
      * destruct (run_wrapper (wbody c k) bytes (fun _ _ => None)); reflexivity.
      * destruct (run_wrapper (wbody c k) bytes (fun _ _ => Some (nsys s + 1))); simpl; lia.
  - left. simpl. auto.
  - destruct (sys_req_lockstep i bytes s Hf Hn) as [[He [Hn' Hf']] | [Hi Hb]].
    + left. rewrite He. destruct (sys_req None bytes s) as [a s1]. simpl in *. auto.
    + right. unfold sys_req. apply N.eqb_neq in Hb. rewrite Hb.
      apply N.eqb_eq in Hi. rewrite Hi. simpl. apply N.eqb_eq in Hi. split; [reflexivity | lia].
  - left. destruct (existsb _ rs); simpl; auto.
  - left. destruct (is_null _); simpl; auto.
  - left. simpl. rewrite book_nsys, book_failed. auto.
Qed.

Lemma failed_sticky_step : forall c fault u s, failed s = true -> failed (res_st (step c fault u s)) = true.
Proof.
  intros c fault u s Hf. destruct u; simpl; auto.
  - unfold sys_req. destruct (bytes =? 0).
    + destruct (run_wrapper _ _ _); simpl; auto.
    + destruct (match fault with Some i => nsys s =? i | None => false end);
        destruct (run_wrapper _ _ _); simpl; auto.
  - unfold sys_req. destruct (bytes =? 0); simpl; auto.
    destruct (match fault with Some i => nsys s =? i | None => false end); simpl; auto.
  - destruct (existsb _ rs); simpl; auto.
  - destruct (is_null _); simpl; auto.
  - rewrite book_failed; auto.
Qed.

Lemma failed_sticky_ops : forall c fault us s, failed s = true -> failed (res_st (run_ops c fault us s)) = true.
Proof.
  intros c fault us. induction us as [|u r IH]; intros s Hf; simpl; [exact Hf|].
  pose proof (failed_sticky_step c fault u s Hf). destruct (step c fault u s) as [s'|o s']; simpl in *; auto.
Qed.

Lemma failed_sticky_hist : forall c fault h s, failed s = true -> failed (res_st (run_hist c fault h s)) = true.
Proof.
  intros c fault h. induction h as [|call r IH]; intros s Hf; simpl; [exact Hf|].
  pose proof (failed_sticky_ops c fault (expand c s call) s Hf).
  destruct (run_ops c fault (expand c s call) s) as [s'|o s']; simpl in *; auto.
Qed.

Lemma ops_lockstep : forall c i us s, failed s = false -> nsys s <= i ->
  (run_ops c (Some i) us s = run_ops c None us s /\ nsys (res_st (run_ops c None us s)) <= i
     /\ failed (res_st (run_ops c None us s)) = false) \/
  (failed (res_st (run_ops c (Some i) us s)) = true /\ i < nsys (res_st (run_ops c None us s))).
Proof.
  intros c i us. induction us as [|u r IH]; intros s Hf Hn; simpl; [left; auto|].
  destruct (step_lockstep c i u s Hf Hn) as [[He [Hn' Hf']] | [Hfd Hlt]].
  - rewrite He. destruct (step c None u s) as [s'|o s']; simpl in *.
    + apply IH; assumption.
    + left; auto.
  - right. destruct (step c (Some i) u s) as [s1|o1 s1]; destruct (step c None u s) as [s2|o2 s2]; simpl in *.
    + split; [apply failed_sticky_ops; assumption|].
      pose proof (run_ops_nsys_mono c None r s2). lia.
    + split; [apply failed_sticky_ops; assumption | lia].
    + split; [assumption|]. pose proof (run_ops_nsys_mono c None r s2). lia.
    + split; [assumption | lia].
Qed.

Lemma hist_lockstep : forall c i h s, failed s = false -> nsys s <= i ->
  (run_hist c (Some i) h s = run_hist c None h s /\ nsys (res_st (run_hist c None h s)) <= i
     /\ failed (res_st (run_hist c None h s)) = false) \/
  (failed (res_st (run_hist c (Some i) h s)) = true /\ i < nsys (res_st (run_hist c None h s))).
Proof.
  intros c i h. induction h as [|call r IH]; intros s Hf Hn; simpl; [left; auto|].
  destruct (ops_lockstep c i (expand c s call) s Hf Hn) as [[He [Hn' Hf']] | [Hfd Hlt]].
  - rewrite He. destruct (run_ops c None (expand c s call) s) as [s'|o s']; simpl in *.
    + apply IH; assumption.
    + left; auto.
  - right.
    destruct (run_ops c (Some i) (expand c s call) s) as [s1|o1 s1];
      destruct (run_ops c None (expand c s call) s) as [s2|o2 s2]; simpl in *.
    + split; [apply failed_sticky_hist; assumption|].
      pose proof (run_hist_nsys_mono c None r s2). lia.
    + split; [apply failed_sticky_hist; assumption | lia].
    + split; [assumption|]. pose proof (run_hist_nsys_mono c None r s2). lia.
    + split; [assumption | lia].
Qed.

Lemma final_st : forall r, snd (final r) = res_st r.
Proof. destruct r; reflexivity. Qed.

(* the fault is injected iff the fault-free run makes more than i requests: `fails_at` is the
   quantifier of the property ("the i-th allocation request of the scenario fails") *)
Theorem fails_at_iff_count : forall c h i, fails_at c h i <-> i < count_sys c h.
Proof.
  intros c h i. unfold fails_at, injected, count_sys, run_faulty. rewrite !final_st.
  destruct (hist_lockstep c i h init_st eq_refl (N.le_0_l i)) as [[He [Hn Hf]] | [Hfd Hlt]].
  - rewrite He. split; [congruence | lia].
  - split; auto.
Qed.

(* ------------------------------------------------------------------------------------------ *)
(** * (c) the site table                                                                        *)
(* ------------------------------------------------------------------------------------------ *)

(* every allocation site of m4ri/*.{c,h} goes through a checking wrapper, or is a raw request whose
   NULL result reaches m4ri_die before any use -- except the listed known findings.  A new
   unchecked site, or text no configuration parses, makes this proof fail. *)
Theorem sites_ok_except : forallb (ok_or_listed known_exceptions) sites = true.
Proof. vm_compute. reflexivity. Qed.

(* with an empty exception list this is the unconditional statement *)
Theorem sites_ok_of_no_exceptions : known_exceptions = [] -> forallb site_ok sites = true.
Proof.
  intros He. pose proof sites_ok_except as H. rewrite He in H.
  rewrite forallb_forall in *. intros s Hs. specialize (H s Hs).
  unfold ok_or_listed, site_ok, class_ok, listed in *. destruct (s_class s); auto.
Qed.

(* the table is not empty and contains the wrappers' own raw requests: the scan saw misc.h *)
Theorem sites_nonvacuous :
  (20 <=? N.of_nat (List.length sites)) = true /\
  forallb (fun w => existsb (fun s => String.eqb (s_func s) w && negb (String.eqb (s_callee s) w)) sites)
          ["m4ri_mm_malloc"; "m4ri_mm_calloc"; "m4ri_mm_malloc_aligned"; "m4ri_mmc_malloc"; "m4ri_mmc_calloc"]%string = true.
Proof. vm_compute. auto. Qed.
