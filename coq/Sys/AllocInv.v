(* Sys/AllocInv.v -- proofs about the allocator model Sys/Alloc.v (property C14).

   Everything is proved for ALL histories (op lists), by induction, and for all parameter values
   with NBLOCKS >= 1 (the C code indexes mm[j] and computes (j+1) % NBLOCKS).  Main invariant:
   every block of the system heap has exactly one owner (a live non-window matrix, a live matrix
   whose header was malloc'd, a block-cache slot with non-zero size, or the header-cache list),
   expressed with occurrence counts; header-slot bits of the [used] masks count the live headers. *)
From Coq Require Import List NArith Bool Arith Lia.
From M4 Require Import Sys.Alloc.
Import ListNotations.
Local Open Scope N_scope.


(** * Generic list facts *)
Section Count.
  Variables (A B : Type) (dec : forall x y : B, {x = y} + {x <> y}).
  Notation cnt := (count_occ dec).

  Lemma cnt_flat_map_app (f : A -> list B) l1 l2 x :
    cnt (flat_map f (l1 ++ l2)) x = (cnt (flat_map f l1) x + cnt (flat_map f l2) x)%nat.
  Proof. rewrite flat_map_app. apply count_occ_app. Qed.

  Lemma cnt_flat_map_upd (f : A -> list B) l i a b x :
    nth_error l i = Some a ->
    (cnt (flat_map f (upd l i b)) x + cnt (f a) x = cnt (flat_map f l) x + cnt (f b) x)%nat.
  Proof.
    revert i. induction l as [|y l IH]; intros [|i] H; cbn in *; try discriminate.
    - injection H as ->. rewrite !count_occ_app. lia.
    - rewrite !count_occ_app. specialize (IH i H). lia.
  Qed.

  Lemma cnt_flat_map_zero (f : A -> list B) l x :
    (forall a, In a l -> cnt (f a) x = 0%nat) -> cnt (flat_map f l) x = 0%nat.
  Proof.
    induction l as [|y l IH]; intros H; cbn; [reflexivity|].
    rewrite count_occ_app, H, IH; auto with datatypes.
  Qed.

  Lemma cnt_flat_map_in (f : A -> list B) l a x :
    In a l -> (cnt (f a) x <= cnt (flat_map f l) x)%nat.
  Proof.
    induction l as [|y l IH]; intros H; cbn; [destruct H|].
    rewrite count_occ_app. destruct H as [->|H]; [lia|]. specialize (IH H). lia.
  Qed.
End Count.

Lemma upd_length A (l : list A) i v : length (upd l i v) = length l.
Proof. revert i; induction l; intros [|i]; cbn; auto. Qed.

Lemma upd_nth_same A (l : list A) i v : (i < length l)%nat -> nth_error (upd l i v) i = Some v.
Proof. revert i; induction l; intros [|i] H; cbn in *; try lia; auto. apply IHl; lia. Qed.

Lemma upd_nth_other A (l : list A) i k v : i <> k -> nth_error (upd l i v) k = nth_error l k.
Proof. revert i k; induction l; intros [|i] [|k] H; cbn; auto; try congruence. Qed.

Lemma upd_In A (l : list A) i v x : In x (upd l i v) -> x = v \/ In x l.
Proof. revert i; induction l; intros [|i] H; cbn in *; auto; destruct H; auto. apply IHl in H. tauto. Qed.

Lemma nth_nth_error A (l : list A) i d : (i < length l)%nat -> nth_error l i = Some (nth i l d).
Proof. apply nth_error_nth'. Qed.

Lemma nth_error_snoc A (l : list A) a k x :
  nth_error (l ++ [a]) k = Some x -> nth_error l k = Some x \/ (k = length l /\ x = a).
Proof.
  intros H. destruct (Nat.lt_ge_cases k (length l)).
  - rewrite nth_error_app1 in H; auto.
  - rewrite nth_error_app2 in H; auto. destruct (k - length l)%nat eqn:E; cbn in H.
    + injection H as <-. right; split; auto; lia.
    + destruct n; discriminate.
Qed.

(** * The system heap *)
Definition keys (h : heap) : list N := map fst h.
Notation cnt := (count_occ N.eq_dec).

Fixpoint krem (l : list N) (i : N) : list N :=
  match l with [] => [] | k :: t => if k =? i then t else k :: krem t i end.

Lemma keys_remove h i : keys (heap_remove h i) = krem (keys h) i.
Proof. unfold keys; induction h as [|[k b] h IH]; cbn; auto. destruct (k =? i); cbn; congruence. Qed.

Lemma keys_fill h i v : keys (heap_fill h i v) = keys h.
Proof. unfold keys; induction h as [|[k b] h IH]; cbn; auto. destruct (k =? i); cbn; congruence. Qed.

Lemma cnt_krem l i x :
  In i l -> (cnt (krem l i) x + (if N.eq_dec i x then 1 else 0) = cnt l x)%nat.
Proof.
  induction l as [|k l IH]; intros H; [destruct H|]. cbn [krem].
  destruct (N.eqb_spec k i) as [->|Hne].
  - cbn. destruct (N.eq_dec i x); lia.
  - destruct H as [H|H]; [congruence|]. specialize (IH H). cbn. destruct (N.eq_dec k x); lia.
Qed.

Lemma krem_In l i x : In x (krem l i) -> In x l.
Proof.
  induction l as [|k l IH]; cbn; auto. destruct (k =? i); cbn; intros H; auto. destruct H; auto.
Qed.

Lemma find_In h k : heap_find h k <> None <-> In k (keys h).
Proof.
  induction h as [|[j b] h IH]; cbn; [tauto|]. destruct (N.eqb_spec j k) as [->|Hne].
  - split; auto. discriminate.
  - rewrite IH. split; auto. intros [H|H]; auto. congruence.
Qed.

Lemma find_remove_other h i k : k <> i -> heap_find (heap_remove h i) k = heap_find h k.
Proof.
  intros Hk. induction h as [|[j b] h IH]; cbn; auto. destruct (N.eqb_spec j i) as [->|Hne]; cbn.
  - destruct (N.eqb_spec i k); congruence.
  - destruct (j =? k); auto.
Qed.

Lemma find_fill_other h i v k : k <> i -> heap_find (heap_fill h i v) k = heap_find h k.
Proof.
  intros Hk. induction h as [|[j b] h IH]; cbn; auto. destruct (N.eqb_spec j i) as [->|Hne]; cbn.
  - destruct (N.eqb_spec i k); congruence.
  - destruct (j =? k); auto.
Qed.

Lemma find_fill_same h i v b :
  heap_find h i = Some b -> heap_find (heap_fill h i v) i = Some (mkBlk (b_size b) v).
Proof.
  induction h as [|[j c] h IH]; cbn; [discriminate|]. destruct (N.eqb_spec j i) as [->|Hne]; cbn.
  - rewrite N.eqb_refl. congruence.
  - destruct (N.eqb_spec j i); [congruence|]. auto.
Qed.

(** * Ownership *)
Definition olist (o : option N) : list N := match o with Some i => [i] | None => [] end.
Definition hdr_ids (h : hslot) : list N := match h with HMalloc i => [i] | HSlot _ _ => [] end.
Definition data_ids (m : mat) : list N := if m_win m then [] else olist (option_map fst (m_data m)).
Definition mat_ids (m : mat) : list N := if m_live m then data_ids m ++ hdr_ids (m_hdr m) else [].
Definition slot_ids (sl : slot) : list N := if s_size sl =? 0 then [] else olist (s_data sl).
Definition hb_ids (b : option N * N) : list N := olist (fst b).

Definition owned (s : state) : list N :=
  flat_map mat_ids (st_mats s) ++ flat_map slot_ids (st_mmc s) ++ flat_map hb_ids (st_hb s).

Definition hslot_dec : forall x y : hslot, {x = y} + {x <> y}.
Proof. decide equality; try apply N.eq_dec. decide equality. apply N.eq_dec. Defined.
Notation hcnt := (count_occ hslot_dec).

Definition live_hdr (m : mat) : list hslot := if m_live m then [m_hdr m] else [].
Definition live_hdrs (s : state) : list hslot := flat_map live_hdr (st_mats s).

Definition b2n (b : bool) : nat := if b then 1%nat else 0%nat.
Definition bounded (u : N) : Prop := forall e, 64 <= e -> N.testbit u e = false.

(* [held]: system blocks held in local variables of the operation in progress;
   [hx]: header slots marked used but not (or no longer) belonging to a live matrix *)
Record Inv (p : params) (s : state) (held : list N) (hx : list hslot) : Prop := mkInv {
  (* ownership of heap blocks *)
  I_own : forall x, cnt (keys (st_heap s)) x = (cnt held x + cnt (owned s) x)%nat;
  I_nodup : forall x, (cnt (keys (st_heap s)) x <= 1)%nat;
  I_bound : forall x, In x (keys (st_heap s)) -> x < st_next s;
  (* block cache *)
  I_mlen : length (st_mmc s) = NBLOCKS p;
  I_j : (st_j s < NBLOCKS p)%nat;
  I_slot : forall sl, In sl (st_mmc s) -> s_size sl <> 0 ->
           exists i b, s_data sl = Some i /\ heap_find (st_heap s) i = Some b /\ b_size b = s_size sl;
  (* header cache *)
  I_head : exists u0 rest, st_hb s = (None, u0) :: rest /\ Forall (fun b => fst b <> None) rest;
  I_cur : In (st_cur s) (map fst (st_hb s));
  I_bnd : Forall (fun b => bounded (snd b)) (st_hb s);
  I_nz : Forall (fun b => fst b <> None -> snd b <> 0) (st_hb s);
  I_bits : forall c e, (hcnt (live_hdrs s) (HSlot c e) + hcnt hx (HSlot c e))%nat
                       = b2n (N.testbit (hb_used (st_hb s) c) e);
  (* matrices *)
  I_mat : forall m, In m (st_mats s) -> m_win m = false ->
          match m_data m with
          | Some (i, off) => off = 0 /\ m_rows m * m_rowstride m * 8 <> 0 /\
                             (m_live m = true -> exists b, heap_find (st_heap s) i = Some b /\
                                                  b_size b = m_rows m * m_rowstride m * 8)
          | None => m_rows m * m_rowstride m * 8 = 0
          end
}.

Definition params_ok (p : params) : Prop := (1 <= NBLOCKS p)%nat.

(** * Traces: the system-level events are consistent with a real allocator *)
(* state of the checker: (lower bound for the next fresh id, ids currently allocated) *)
Definition tstep (st : N * list N) (e : event) : option (N * list N) :=
  let '(nx, live) := st in
  match e with
  | SysAlloc i _ => if nx <=? i then Some (N.succ i, i :: live) else None      (* fresh identity *)
  | SysFree i => if existsb (N.eqb i) live then Some (nx, krem live i) else None (* allocated, not yet freed *)
  | _ => Some st
  end.

Fixpoint tcheck (st : N * list N) (tr : list event) : option (N * list N) :=
  match tr with
  | [] => Some st
  | e :: t => match tstep st e with Some st' => tcheck st' t | None => None end
  end.

Lemma tcheck_app st tr1 tr2 :
  tcheck st (tr1 ++ tr2) = match tcheck st tr1 with Some st' => tcheck st' tr2 | None => None end.
Proof. revert st; induction tr1 as [|e t IH]; intros st; cbn; auto. destruct (tstep st e); auto. Qed.

Definition tst (s : state) : N * list N := (st_next s, keys (st_heap s)).
Definition evs_ok (s : state) (ev : list event) (s' : state) : Prop := tcheck (tst s) ev = Some (tst s').

Lemma evs_ok_nil s s' : tst s = tst s' -> evs_ok s [] s'.
Proof. unfold evs_ok; cbn; congruence. Qed.

Lemma evs_ok_app s1 e1 s2 e2 s3 : evs_ok s1 e1 s2 -> evs_ok s2 e2 s3 -> evs_ok s1 (e1 ++ e2) s3.
Proof. unfold evs_ok; intros H1 H2. rewrite tcheck_app, H1. exact H2. Qed.

(** * Frame: what an operation does to the blocks it does not own *)
Record hrel (s s' : state) : Prop := mkHrel {
  R_next : st_next s <= st_next s';
  R_keys : forall k, In k (keys (st_heap s')) -> In k (keys (st_heap s)) \/ st_next s <= k;
  R_find : forall k, In k (keys (st_heap s')) -> In k (keys (st_heap s)) ->
                     heap_find (st_heap s') k = heap_find (st_heap s) k
}.

Lemma hrel_refl s s' : st_next s = st_next s' -> st_heap s = st_heap s' -> hrel s s'.
Proof. intros H1 H2; split; rewrite <- ?H1, <- ?H2; auto; lia. Qed.

Lemma hrel_trans s1 s2 s3 :
  (forall x, In x (keys (st_heap s1)) -> x < st_next s1) ->
  hrel s1 s2 -> hrel s2 s3 -> hrel s1 s3.
Proof.
  intros Hb [N1 K1 F1] [N2 K2 F2]. split.
  - lia.
  - intros k H. destruct (K2 k H) as [H2|H2]; [destruct (K1 k H2)|]; auto. right; lia.
  - intros k H3 H1. assert (H2 : In k (keys (st_heap s2))).
    { destruct (K2 k H3) as [H2|H2]; auto. specialize (Hb k H1). lia. }
    rewrite F2, F1; auto.
Qed.

(** * Small facts about ownership counts *)
Lemma cnt_cons (i : N) l x : cnt (i :: l) x = ((if N.eq_dec i x then 1 else 0) + cnt l x)%nat.
Proof. cbn. destruct (N.eq_dec i x); reflexivity. Qed.

Lemma cnt_olist_some i x : cnt (olist (Some i)) x = (if N.eq_dec i x then 1 else 0)%nat.
Proof. cbn. destruct (N.eq_dec i x); reflexivity. Qed.

Lemma cnt_self_pos i l : (1 <= cnt (i :: l) i)%nat.
Proof. rewrite cnt_cons. destruct (N.eq_dec i i); [lia|congruence]. Qed.

Lemma owned_cnt s x :
  cnt (owned s) x = (cnt (flat_map mat_ids (st_mats s)) x + cnt (flat_map slot_ids (st_mmc s)) x
                     + cnt (flat_map hb_ids (st_hb s)) x)%nat.
Proof. unfold owned. rewrite !count_occ_app. lia. Qed.

Lemma owned_slot s sl k :
  In sl (st_mmc s) -> s_size sl <> 0 -> s_data sl = Some k -> (1 <= cnt (owned s) k)%nat.
Proof.
  intros Hin Hsz Hd. rewrite owned_cnt.
  pose proof (cnt_flat_map_in _ _ N.eq_dec slot_ids _ _ k Hin) as H.
  assert (E : slot_ids sl = [k]).
  { unfold slot_ids. destruct (N.eqb_spec (s_size sl) 0); [contradiction|]. rewrite Hd. reflexivity. }
  rewrite E in H. pose proof (cnt_self_pos k []). lia.
Qed.

Lemma owned_mat_data s m k off :
  In m (st_mats s) -> m_live m = true -> m_win m = false -> m_data m = Some (k, off) ->
  (1 <= cnt (owned s) k)%nat.
Proof.
  intros Hin Hl Hw Hd. rewrite owned_cnt.
  pose proof (cnt_flat_map_in _ _ N.eq_dec mat_ids _ _ k Hin) as H.
  assert (E : mat_ids m = [k] ++ hdr_ids (m_hdr m)).
  { unfold mat_ids, data_ids. rewrite Hl, Hw, Hd. reflexivity. }
  rewrite E, count_occ_app in H. pose proof (cnt_self_pos k []). lia.
Qed.

Lemma owned_mat_hdr s m k :
  In m (st_mats s) -> m_live m = true -> m_hdr m = HMalloc k -> (1 <= cnt (owned s) k)%nat.
Proof.
  intros Hin Hl Hh. rewrite owned_cnt.
  pose proof (cnt_flat_map_in _ _ N.eq_dec mat_ids _ _ k Hin) as H.
  assert (E : mat_ids m = data_ids m ++ [k]).
  { unfold mat_ids. rewrite Hl, Hh. reflexivity. }
  rewrite E, count_occ_app in H. pose proof (cnt_self_pos k []). lia.
Qed.

Lemma owned_hb s k u : In (Some k, u) (st_hb s) -> (1 <= cnt (owned s) k)%nat.
Proof.
  intros Hin. rewrite owned_cnt.
  pose proof (cnt_flat_map_in _ _ N.eq_dec hb_ids _ _ k Hin) as H. cbn in H.
  destruct (N.eq_dec k k); [lia|congruence].
Qed.

Lemma Inv_ext p s held hx held' hx' :
  Inv p s held hx -> (forall x, cnt held x = cnt held' x) ->
  (forall c e, hcnt hx (HSlot c e) = hcnt hx' (HSlot c e)) -> Inv p s held' hx'.
Proof.
  intros [] H1 H2. constructor; auto.
  - intros x. rewrite <- H1. auto.
  - intros c e. rewrite <- H2. auto.
Qed.

Lemma Inv_in_keys p s held hx i : Inv p s held hx -> (1 <= cnt held i + cnt (owned s) i)%nat -> In i (keys (st_heap s)).
Proof. intros HI H. apply (count_occ_In N.eq_dec). rewrite (I_own _ _ _ _ HI). lia. Qed.

(* an id that is held is not owned by anything else, and vice versa *)
Lemma Inv_excl p s held hx x : Inv p s held hx -> (cnt held x + cnt (owned s) x <= 1)%nat.
Proof. intros HI. rewrite <- (I_own _ _ _ _ HI). apply (I_nodup _ _ _ _ HI). Qed.

Ltac sp := cbn [st_heap st_next st_mmc st_j st_hb st_cur st_mats].
Ltac spi := cbn [st_heap st_next st_mmc st_j st_hb st_cur st_mats] in *.

Lemma owned_same s s' :
  st_mats s' = st_mats s -> st_mmc s' = st_mmc s -> st_hb s' = st_hb s -> owned s' = owned s.
Proof. unfold owned. intros -> -> ->. reflexivity. Qed.

Lemma live_hdrs_same s s' : st_mats s' = st_mats s -> live_hdrs s' = live_hdrs s.
Proof. unfold live_hdrs. intros ->. reflexivity. Qed.

(** * The system allocator *)
Lemma existsb_eqb_In i l : In i l -> existsb (N.eqb i) l = true.
Proof. intros H. apply existsb_exists. exists i. split; auto. apply N.eqb_refl. Qed.

Lemma sys_alloc_inv p s held hx sz s' i ev :
  Inv p s held hx -> sys_alloc s sz = (s', i, ev) ->
  Inv p s' (i :: held) hx /\ evs_ok s ev s' /\ hrel s s' /\
  st_mmc s' = st_mmc s /\ st_j s' = st_j s /\ st_hb s' = st_hb s /\ st_cur s' = st_cur s /\
  st_mats s' = st_mats s /\
  (exists b, heap_find (st_heap s') i = Some b /\ b_size b = sz) /\ i = st_next s.
Proof.
  intros HI E. unfold sys_alloc in E. injection E as <- <- <-.
  assert (Hfresh : ~ In (st_next s) (keys (st_heap s))).
  { intros H. apply (I_bound _ _ _ _ HI) in H. lia. }
  assert (Hfind : forall k b, heap_find (st_heap s) k = Some b ->
                  heap_find ((st_next s, mkBlk sz (garbage (st_next s))) :: st_heap s) k = Some b).
  { intros k b H. cbn. destruct (N.eqb_spec (st_next s) k) as [<-|]; auto.
    exfalso. apply Hfresh. apply find_In. congruence. }
  split; [|split; [|split; [|repeat (split; [reflexivity|])]]]; sp.
  - destruct HI. constructor; sp; auto.
    + intros x. change (owned _) with (owned s).
      change (keys (_ :: st_heap s)) with (st_next s :: keys (st_heap s)).
      rewrite !cnt_cons, I_own0. lia.
    + intros x. change (keys (_ :: st_heap s)) with (st_next s :: keys (st_heap s)).
      rewrite cnt_cons. destruct (N.eq_dec (st_next s) x) as [<-|].
      * apply (count_occ_not_In N.eq_dec) in Hfresh. rewrite Hfresh. lia.
      * apply I_nodup0.
    + change (keys (_ :: st_heap s)) with (st_next s :: keys (st_heap s)).
      intros x [<-|H]; [lia|]. apply I_bound0 in H. lia.
    + intros sl Hin Hsz. destruct (I_slot0 sl Hin Hsz) as (i & b & H1 & H2 & H3).
      exists i, b. split; [|split]; auto.
    + intros m Hin Hw. specialize (I_mat0 m Hin Hw). destruct (m_data m) as [[i off]|]; auto.
      destruct I_mat0 as (H1 & H2 & H3). split; [|split]; auto.
      intros Hl. destruct (H3 Hl) as (b & Hb1 & Hb2). exists b. split; auto.
  - unfold evs_ok, tst. cbn. rewrite N.leb_refl. reflexivity.
  - split; sp; try lia.
    + change (keys (_ :: st_heap s)) with (st_next s :: keys (st_heap s)).
      intros k [<-|H]; [right; lia|left; auto].
    + intros k _ H. cbn. destruct (N.eqb_spec (st_next s) k) as [<-|]; auto. contradiction.
  - split; [|reflexivity]. exists (mkBlk sz (garbage (st_next s))). cbn. rewrite N.eqb_refl. auto.
Qed.

Lemma sys_free_inv p s held hx i s' ev :
  Inv p s (i :: held) hx -> sys_free s (Some i) = (s', ev) ->
  Inv p s' held hx /\ evs_ok s ev s' /\ hrel s s' /\
  st_mmc s' = st_mmc s /\ st_j s' = st_j s /\ st_hb s' = st_hb s /\ st_cur s' = st_cur s /\
  st_mats s' = st_mats s /\ ev = [SysFree i].
Proof.
  intros HI E. unfold sys_free in E. injection E as <- <-.
  assert (Hin : In i (keys (st_heap s))).
  { apply (Inv_in_keys _ _ _ _ i HI). pose proof (cnt_self_pos i held). lia. }
  assert (Hex : forall k, (1 <= cnt (owned s) k)%nat -> k <> i).
  { intros k Hk ->. pose proof (Inv_excl _ _ _ _ i HI). pose proof (cnt_self_pos i held). lia. }
  unfold set_heap. split; [|split; [|split; [|repeat (split; [reflexivity|]); reflexivity]]]; sp.
  - destruct HI. constructor; sp; auto.
    + intros x. change (owned _) with (owned s). rewrite keys_remove.
      pose proof (cnt_krem _ _ x Hin). specialize (I_own0 x). rewrite cnt_cons in I_own0. lia.
    + intros x. rewrite keys_remove. pose proof (cnt_krem _ _ x Hin). specialize (I_nodup0 x). lia.
    + intros x. rewrite keys_remove. intros H. apply krem_In in H. auto.
    + intros sl Hsl Hsz. destruct (I_slot0 sl Hsl Hsz) as (k & b & H1 & H2 & H3).
      exists k, b. split; [|split]; auto. rewrite find_remove_other; auto.
      apply Hex. eapply owned_slot; eauto.
    + intros m Hm Hw. specialize (I_mat0 m Hm Hw). destruct (m_data m) as [[k off]|] eqn:Ed; auto.
      destruct I_mat0 as (H1 & H2 & H3). split; [|split]; auto.
      intros Hl. destruct (H3 Hl) as (b & Hb1 & Hb2). exists b. split; auto.
      rewrite find_remove_other; auto. apply Hex. eapply owned_mat_data; eauto.
  - unfold evs_ok, tst. cbn. rewrite existsb_eqb_In by exact Hin. rewrite keys_remove. reflexivity.
  - split; sp; try lia.
    + intros k H. rewrite keys_remove in H. apply krem_In in H. auto.
    + intros k H _. destruct (N.eq_dec k i) as [->|Hne]; [|apply find_remove_other; auto].
      exfalso. rewrite keys_remove in H. apply (count_occ_In N.eq_dec) in H.
      pose proof (cnt_krem _ _ i Hin). pose proof (I_nodup _ _ _ _ HI i). destruct (N.eq_dec i i); [lia|congruence].
Qed.

(** * mmc.c *)
Lemma find_size_some l sz i :
  find_size l sz = Some i -> exists sl, nth_error l i = Some sl /\ s_size sl = sz.
Proof.
  revert i. induction l as [|a l IH]; intros i H; cbn in H; [discriminate|].
  destruct (N.eqb_spec (s_size a) sz).
  - injection H as <-. exists a. split; auto.
  - destruct (find_size l sz) as [k|]; cbn in H; [|discriminate]. injection H as <-.
    destruct (IH k eq_refl) as (sl & H1 & H2). exists sl. split; auto.
Qed.

Lemma find_size_none l sz : find_size l sz = None -> forall sl, In sl l -> s_size sl <> sz.
Proof.
  induction l as [|a l IH]; intros H sl Hin; [destruct Hin|]. cbn in H.
  destruct (N.eqb_spec (s_size a) sz); [discriminate|].
  destruct (find_size l sz); [discriminate|]. destruct Hin as [<-|Hin]; auto.
Qed.

Lemma slot_ids_empty sl : s_size sl = 0 -> slot_ids sl = [].
Proof. unfold slot_ids. intros ->. reflexivity. Qed.

Lemma Inv_upd_slot p s held held' hx i a b j' :
  Inv p s held hx -> nth_error (st_mmc s) i = Some a ->
  (forall x, (cnt held x + cnt (slot_ids a) x = cnt held' x + cnt (slot_ids b) x)%nat) ->
  (s_size b <> 0 -> exists k bl, s_data b = Some k /\ heap_find (st_heap s) k = Some bl /\ b_size bl = s_size b) ->
  (j' < NBLOCKS p)%nat ->
  Inv p (set_mmc s (upd (st_mmc s) i b) j') held' hx.
Proof.
  intros HI Hn Hc Hb Hj. destruct HI. unfold set_mmc. constructor; sp; auto.
  - intros x. rewrite I_own0, !owned_cnt. sp.
    pose proof (cnt_flat_map_upd _ _ N.eq_dec slot_ids (st_mmc s) i a b x Hn). specialize (Hc x). lia.
  - rewrite upd_length. auto.
  - intros sl Hin Hsz. apply upd_In in Hin. destruct Hin as [->|Hin]; auto.
Qed.

Lemma evs_ok_tst s s0 ev s' : tst s = tst s0 -> evs_ok s0 ev s' -> evs_ok s ev s'.
Proof. unfold evs_ok. intros ->. auto. Qed.

Lemma hrel_eq s s0 s' :
  st_next s = st_next s0 -> st_heap s = st_heap s0 -> hrel s0 s' -> hrel s s'.
Proof. intros H1 H2 [A B C]. split; rewrite ?H1, ?H2; auto. Qed.

Lemma mmc_malloc_inv p s held hx sz s' d ev :
  Inv p s held hx -> sz <> 0 -> mmc_malloc p s sz = (s', d, ev) ->
  Inv p s' (d :: held) hx /\ evs_ok s ev s' /\ hrel s s' /\
  st_hb s' = st_hb s /\ st_cur s' = st_cur s /\ st_mats s' = st_mats s /\
  (exists b, heap_find (st_heap s') d = Some b /\ b_size b = sz).
Proof.
  intros HI Hsz E. unfold mmc_malloc in E.
  assert (Hmiss : forall s0, s0 = s -> sys_alloc s0 sz = (s', d, ev) ->
    Inv p s' (d :: held) hx /\ evs_ok s ev s' /\ hrel s s' /\
    st_hb s' = st_hb s /\ st_cur s' = st_cur s /\ st_mats s' = st_mats s /\
    (exists b, heap_find (st_heap s') d = Some b /\ b_size b = sz)).
  { intros s0 -> E0. destruct (sys_alloc_inv _ _ _ _ _ _ _ _ HI E0) as (A & B & C & _ & _ & D1 & D2 & D3 & D4 & _).
    auto 10. }
  destruct (enable_mmc p); [|eapply Hmiss; eauto].
  destruct (if sz <=? THRESHOLD p then find_size (st_mmc s) sz else None) as [i|] eqn:Ef; [|eapply Hmiss; eauto].
  destruct (sz <=? THRESHOLD p); [|discriminate].
  destruct (find_size_some _ _ _ Ef) as (sl & Hn & Hs).
  assert (Hlt : (i < length (st_mmc s))%nat) by (apply nth_error_Some; congruence).
  rewrite (nth_error_nth _ _ empty_slot Hn) in E.
  assert (Hin : In sl (st_mmc s)) by (eapply nth_error_In; eauto).
  destruct (I_slot _ _ _ _ HI sl Hin) as (k & b & Hd & Hf & Hb); [congruence|].
  rewrite Hd in E. injection E as <- <- <-.
  split; [|split; [|split; [|split; [|split; [|split]]]]];
    [ | apply evs_ok_nil; reflexivity | apply hrel_refl; reflexivity | reflexivity | reflexivity | reflexivity | ].
  - apply (Inv_upd_slot p s held (k :: held) hx i sl empty_slot (st_j s) HI Hn);
      [| cbn; congruence | apply (I_j _ _ _ _ HI)].
    intros x. rewrite (slot_ids_empty empty_slot) by reflexivity.
    assert (E : slot_ids sl = [k]).
    { unfold slot_ids. destruct (N.eqb_spec (s_size sl) 0); [congruence|]. rewrite Hd. reflexivity. }
    rewrite E, cnt_cons. cbn. destruct (N.eq_dec k x); lia.
  - exists b. split; auto. congruence.
Qed.

Lemma mmc_free_inv p s held hx d sz s' ev :
  Inv p s (olist d ++ held) hx ->
  match d with
  | Some k => sz <> 0 /\ exists b, heap_find (st_heap s) k = Some b /\ b_size b = sz
  | None => sz = 0
  end ->
  mmc_free p s d sz = (s', ev) ->
  Inv p s' held hx /\ evs_ok s ev s' /\ hrel s s' /\
  st_hb s' = st_hb s /\ st_cur s' = st_cur s /\ st_mats s' = st_mats s.
Proof.
  intros HI Hd E. unfold mmc_free in E.
  assert (Hplain : sys_free s d = (s', ev) ->
    Inv p s' held hx /\ evs_ok s ev s' /\ hrel s s' /\
    st_hb s' = st_hb s /\ st_cur s' = st_cur s /\ st_mats s' = st_mats s).
  { intros E0. destruct d as [k|].
    - destruct (sys_free_inv _ _ _ _ _ _ _ HI E0) as (A & B & C & _ & _ & D1 & D2 & D3 & _). auto 10.
    - injection E0 as <- <-. split; [exact HI|]. split; [apply evs_ok_nil; reflexivity|].
      split; [apply hrel_refl; reflexivity|]. auto. }
  destruct (enable_mmc p); [|auto].
  destruct (sz <? THRESHOLD p); [|auto].
  assert (Hnew : s_size (mkSlot sz d) <> 0 -> exists k bl, s_data (mkSlot sz d) = Some k /\
                 heap_find (st_heap s) k = Some bl /\ b_size bl = s_size (mkSlot sz d)).
  { cbn. intros Hz. destruct d as [k|]; [|contradiction]. destruct Hd as (_ & b & H1 & H2). eauto. }
  assert (Hids : forall x, cnt (slot_ids (mkSlot sz d)) x = cnt (olist d) x).
  { intros x. unfold slot_ids. cbn [s_size s_data]. destruct d as [k|]; [|destruct (sz =? 0); reflexivity].
    destruct Hd as (Hz & _). destruct (N.eqb_spec sz 0); [contradiction|reflexivity]. }
  destruct (find_size (st_mmc s) 0) as [i|] eqn:Ef.
  - destruct (find_size_some _ _ _ Ef) as (sl & Hn & Hs). injection E as <- <-.
    split; [|split; [|split; [|split; [|split]]]];
      [ | apply evs_ok_nil; reflexivity | apply hrel_refl; reflexivity | reflexivity | reflexivity | reflexivity ].
    apply (Inv_upd_slot p s (olist d ++ held) held hx i sl (mkSlot sz d) (st_j s) HI Hn);
        [|exact Hnew|apply (I_j _ _ _ _ HI)].
    intros x. rewrite (slot_ids_empty _ Hs), Hids, count_occ_app. cbn. lia.
  - pose proof (I_j _ _ _ _ HI) as Hj. pose proof (I_mlen _ _ _ _ HI) as Hlen.
    assert (Hlt : (st_j s < length (st_mmc s))%nat) by lia.
    pose proof (nth_nth_error _ (st_mmc s) (st_j s) empty_slot Hlt) as Hn.
    set (a := nth (st_j s) (st_mmc s) empty_slot) in *.
    assert (Hin : In a (st_mmc s)) by (eapply nth_error_In; eauto).
    pose proof (find_size_none _ _ Ef a Hin) as Hnz.
    destruct (I_slot _ _ _ _ HI a Hin Hnz) as (old & bo & Hda & Hfo & Hbo).
    rewrite Hda in E.
    (* same final state as: put the new block into slot j (the old one becomes held), free the old *)
    set (j' := Nat.modulo (S (st_j s)) (NBLOCKS p)) in *.
    assert (Hj' : (j' < NBLOCKS p)%nat) by (apply Nat.mod_upper_bound; lia).
    set (sa := set_mmc s (upd (st_mmc s) (st_j s) (mkSlot sz d)) j').
    assert (HIa : Inv p sa (old :: held) hx).
    { apply (Inv_upd_slot p s (olist d ++ held) (old :: held) hx (st_j s) a (mkSlot sz d) j' HI Hn);
        [|exact Hnew|exact Hj'].
      intros x. rewrite Hids, count_occ_app.
      assert (Ea : slot_ids a = [old]).
      { unfold slot_ids. destruct (N.eqb_spec (s_size a) 0); [contradiction|]. rewrite Hda. reflexivity. }
      rewrite Ea, cnt_cons. cbn. destruct (N.eq_dec old x); lia. }
    assert (Ea : sys_free sa (Some old) = (s', ev)).
    { cbn in E. injection E as <- <-. reflexivity. }
    destruct (sys_free_inv _ _ _ _ _ _ _ HIa Ea) as (A & B & C & _ & _ & D1 & D2 & D3 & _).
    split; [exact A|]. split; [eapply evs_ok_tst; [|exact B]; reflexivity|].
    split; [eapply hrel_eq; [| |exact C]; reflexivity|]. auto.
Qed.

Lemma mmc_cleanup_from_inv p n : forall s held hx i s' ev,
  Inv p s held hx -> (i + n = NBLOCKS p)%nat -> mmc_cleanup_from s i n = (s', ev) ->
  Inv p s' held hx /\ evs_ok s ev s' /\ hrel s s' /\
  st_hb s' = st_hb s /\ st_cur s' = st_cur s /\ st_mats s' = st_mats s /\
  (forall k sl, (i <= k)%nat -> nth_error (st_mmc s') k = Some sl -> s_size sl = 0) /\
  (forall k, (k < i)%nat -> nth_error (st_mmc s') k = nth_error (st_mmc s) k).
Proof.
  induction n as [|n IH]; intros s held hx i s' ev HI Hn E; cbn [mmc_cleanup_from] in E.
  - injection E as <- <-. split; [exact HI|]. split; [apply evs_ok_nil; reflexivity|].
    split; [apply hrel_refl; reflexivity|]. repeat (split; [reflexivity|]). split; auto.
    intros k sl Hk Hs. pose proof (I_mlen _ _ _ _ HI). assert (nth_error (st_mmc s) k <> None) by congruence.
    apply nth_error_Some in H0. lia.
  - pose proof (I_mlen _ _ _ _ HI) as Hlen.
    assert (Hlt : (i < length (st_mmc s))%nat) by lia.
    pose proof (nth_nth_error _ (st_mmc s) i empty_slot Hlt) as Hnth.
    set (a := nth i (st_mmc s) empty_slot) in *.
    assert (Hin : In a (st_mmc s)) by (eapply nth_error_In; eauto).
    (* the state after this iteration, and its invariant *)
    assert (Hstep : exists s2 ev1, (let '(s1, ev1) := if s_size a =? 0 then (s, []) else sys_free s (s_data a) in
                      (set_mmc s1 (upd (st_mmc s1) i (mkSlot 0 (s_data a))) (st_j s1), ev1)) = (s2, ev1) /\
              Inv p s2 held hx /\ evs_ok s ev1 s2 /\ hrel s s2 /\
              st_hb s2 = st_hb s /\ st_cur s2 = st_cur s /\ st_mats s2 = st_mats s /\
              st_mmc s2 = upd (st_mmc s) i (mkSlot 0 (s_data a))).
    { destruct (N.eqb_spec (s_size a) 0) as [Hz|Hnz].
      - eexists _, _. split; [reflexivity|].
        split; [|split; [apply evs_ok_nil; reflexivity|split; [apply hrel_refl; reflexivity|]]]; [|auto 6].
        apply (Inv_upd_slot p s held held hx i a (mkSlot 0 (s_data a)) (st_j s) HI Hnth);
          [|cbn; congruence|apply (I_j _ _ _ _ HI)].
        intros x. rewrite (slot_ids_empty _ Hz), (slot_ids_empty (mkSlot 0 (s_data a))) by reflexivity. lia.
      - destruct (I_slot _ _ _ _ HI a Hin Hnz) as (old & bo & Hda & Hfo & Hbo). rewrite Hda.
        set (sa := set_mmc s (upd (st_mmc s) i (mkSlot 0 (Some old))) (st_j s)).
        assert (HIa : Inv p sa (old :: held) hx).
        { apply (Inv_upd_slot p s held (old :: held) hx i a (mkSlot 0 (Some old)) (st_j s) HI Hnth);
            [|cbn; congruence|apply (I_j _ _ _ _ HI)].
          intros x. rewrite (slot_ids_empty (mkSlot 0 (Some old))) by reflexivity.
          assert (Ea : slot_ids a = [old]).
          { unfold slot_ids. destruct (N.eqb_spec (s_size a) 0); [contradiction|]. rewrite Hda. reflexivity. }
          rewrite Ea, cnt_cons. cbn. destruct (N.eq_dec old x); lia. }
        destruct (sys_free sa (Some old)) as [sb evb] eqn:Eb.
        destruct (sys_free_inv _ _ _ _ _ _ _ HIa Eb) as (A & B & C & D0 & _ & D1 & D2 & D3 & _).
        exists sb, evb. split.
        { cbn in Eb |- *. injection Eb as <- <-. reflexivity. }
        split; [exact A|]. split; [eapply evs_ok_tst; [|exact B]; reflexivity|].
        split; [eapply hrel_eq; [| |exact C]; reflexivity|]. auto 6. }
    destruct Hstep as (s2 & ev1 & E2 & HI2 & B2 & C2 & D1 & D2 & D3 & D4).
    fold a in E. destruct (if s_size a =? 0 then (s, []) else sys_free s (s_data a)) as [s1 ev1'] eqn:E1.
    injection E2 as E2a E2b. rewrite E2a in E. subst ev1'.
    destruct (mmc_cleanup_from s2 (S i) n) as [s3 ev3] eqn:E3. injection E as <- <-.
    destruct (IH s2 held hx (S i) s3 ev3 HI2 ltac:(lia) E3) as (A3 & B3 & C3 & F1 & F2 & F3 & F4 & F5).
    split; [exact A3|]. split; [eapply evs_ok_app; eauto|].
    split; [eapply hrel_trans; eauto; apply (I_bound _ _ _ _ HI)|].
    split; [congruence|]. split; [congruence|]. split; [congruence|]. split.
    + intros k sl Hk Hs. destruct (Nat.eq_dec k i) as [->|Hne].
      * rewrite F5 in Hs by lia. rewrite D4, upd_nth_same in Hs by lia. injection Hs as <-. reflexivity.
      * apply (F4 k sl); auto. lia.
    + intros k Hk. rewrite F5 by lia. rewrite D4. apply upd_nth_other. lia.
Qed.

Lemma all_zero_slot_ids l x :
  (forall k sl, nth_error l k = Some sl -> s_size sl = 0) -> cnt (flat_map slot_ids l) x = 0%nat.
Proof.
  intros H. apply cnt_flat_map_zero. intros a Hin. destruct (In_nth_error _ _ Hin) as [k Hk].
  rewrite (slot_ids_empty _ (H _ _ Hk)). reflexivity.
Qed.

Lemma mmc_cleanup_inv p s held hx s' ev :
  Inv p s held hx -> mmc_cleanup p s = (s', ev) ->
  Inv p s' held hx /\ evs_ok s ev s' /\ hrel s s' /\
  st_hb s' = st_hb s /\ st_cur s' = st_cur s /\ st_mats s' = st_mats s /\
  (enable_mmc p = true -> forall x, cnt (flat_map slot_ids (st_mmc s')) x = 0%nat).
Proof.
  intros HI E. unfold mmc_cleanup in E. destruct (enable_mmc p).
  - destruct (mmc_cleanup_from_inv p (NBLOCKS p) s held hx 0 s' ev HI eq_refl E) as (A & B & C & D1 & D2 & D3 & D4 & _).
    repeat (split; [assumption|]). intros _ x. apply all_zero_slot_ids. intros k sl. apply D4. lia.
  - injection E as <- <-. split; [exact HI|]. split; [apply evs_ok_nil; reflexivity|].
    split; [apply hrel_refl; reflexivity|]. repeat (split; [reflexivity|]). discriminate.
Qed.
