(* Sys/AllocInv.v -- proofs about the allocator model Sys/Alloc.v (property C14).

   Everything is proved for ALL histories (op lists), by induction, and for all parameter values
   with NBLOCKS >= 1 (the C code indexes mm[j] and computes (j+1) % NBLOCKS).  Main invariant:
   every block of the system heap has exactly one owner (a live non-window matrix, a live matrix
   whose header was malloc'd, a block-cache slot with non-zero size, or the header-cache list),
   expressed with occurrence counts; header-slot bits of the [used] masks count the live headers.

   Part I  : system allocator and block cache (mmc.c): sys_alloc_inv, sys_free_inv, mmc_malloc_inv,
             mmc_free_inv, mmc_cleanup_inv.
   Part II : header cache (mzd_t_malloc_inv, mzd_t_free_inv), matrix layer (mzd_init_inv,
             mzd_init_window_inv, mzd_free_inv, do_write_inv, fini_inv), histories (step_HInv,
             run_HInv) and the theorems used by Properties/Properties_C14.v:
             alloc_inv, trace_ok, no_double_free, fresh_zero, live_disjoint, free_any_order,
             window_free_keeps_data, fini_retains, no_retention, plus vm_compute Examples. *)
From Coq Require Import List NArith Bool Arith Lia.
From M4 Require Import Sys.Alloc.
Import ListNotations.
Local Open Scope N_scope.


(** * Generic list facts *)
Section Count.
  Variables (A B : Type) (dec : forall x y : B, {x = y} + {x <> y}).
  Notation cnt := (count_occ dec).

  Lemma cnt_flat_map_app (f : A -> list B) l1 l2 x :
    cnt (flat_map f (l1 ++ l2)) x = (cnt (flat_map f l1) x + cnt (flat_map f l2) x)%nat.
  Proof. rewrite flat_map_app. apply count_occ_app. Qed.

  Lemma cnt_flat_map_upd (f : A -> list B) l i a b x :
    nth_error l i = Some a ->
    (cnt (flat_map f (upd l i b)) x + cnt (f a) x = cnt (flat_map f l) x + cnt (f b) x)%nat.
  Proof.
    revert i. induction l as [|y l IH]; intros [|i] H; cbn in *; try discriminate.
    - injection H as ->. rewrite !count_occ_app. lia.
    - rewrite !count_occ_app. specialize (IH i H). lia.
  Qed.

  Lemma cnt_flat_map_zero (f : A -> list B) l x :
    (forall a, In a l -> cnt (f a) x = 0%nat) -> cnt (flat_map f l) x = 0%nat.
  Proof.
    induction l as [|y l IH]; intros H; cbn; [reflexivity|].
    rewrite count_occ_app, H, IH; auto with datatypes.
  Qed.

  Lemma cnt_flat_map_in (f : A -> list B) l a x :
    In a l -> (cnt (f a) x <= cnt (flat_map f l) x)%nat.
  Proof.
    induction l as [|y l IH]; intros H; cbn; [destruct H|].
    rewrite count_occ_app. destruct H as [->|H]; [lia|]. specialize (IH H). lia.
  Qed.
End Count.

Lemma upd_length A (l : list A) i v : length (upd l i v) = length l.
Proof. revert i; induction l; intros [|i]; cbn; auto. Qed.

Lemma upd_nth_same A (l : list A) i v : (i < length l)%nat -> nth_error (upd l i v) i = Some v.
Proof. revert i; induction l; intros [|i] H; cbn in *; try lia; auto. apply IHl; lia. Qed.

Lemma upd_nth_other A (l : list A) i k v : i <> k -> nth_error (upd l i v) k = nth_error l k.
Proof. revert i k; induction l; intros [|i] [|k] H; cbn; auto; try congruence. Qed.

Lemma upd_In A (l : list A) i v x : In x (upd l i v) -> x = v \/ In x l.
Proof. revert i; induction l; intros [|i] H; cbn in *; auto; destruct H; auto. apply IHl in H. tauto. Qed.

Lemma nth_nth_error A (l : list A) i d : (i < length l)%nat -> nth_error l i = Some (nth i l d).
Proof. apply nth_error_nth'. Qed.

Lemma nth_error_snoc A (l : list A) a k x :
  nth_error (l ++ [a]) k = Some x -> nth_error l k = Some x \/ (k = length l /\ x = a).
Proof.
  intros H. destruct (Nat.lt_ge_cases k (length l)).
  - rewrite nth_error_app1 in H; auto.
  - rewrite nth_error_app2 in H; auto. destruct (k - length l)%nat eqn:E; cbn in H.
    + injection H as <-. right; split; auto; lia.
    + destruct n; discriminate.
Qed.

(** * The system heap *)
Definition keys (h : heap) : list N := map fst h.
Notation cnt := (count_occ N.eq_dec).

Fixpoint krem (l : list N) (i : N) : list N :=
  match l with [] => [] | k :: t => if k =? i then t else k :: krem t i end.

Lemma keys_remove h i : keys (heap_remove h i) = krem (keys h) i.
Proof. unfold keys; induction h as [|[k b] h IH]; cbn; auto. destruct (k =? i); cbn; congruence. Qed.

Lemma keys_fill h i v : keys (heap_fill h i v) = keys h.
Proof. unfold keys; induction h as [|[k b] h IH]; cbn; auto. destruct (k =? i); cbn; congruence. Qed.

Lemma cnt_krem l i x :
  In i l -> (cnt (krem l i) x + (if N.eq_dec i x then 1 else 0) = cnt l x)%nat.
Proof.
  induction l as [|k l IH]; intros H; [destruct H|]. cbn [krem].
  destruct (N.eqb_spec k i) as [->|Hne].
  - cbn. destruct (N.eq_dec i x); lia.
  - destruct H as [H|H]; [congruence|]. specialize (IH H). cbn. destruct (N.eq_dec k x); lia.
Qed.

Lemma krem_In l i x : In x (krem l i) -> In x l.
Proof.
  induction l as [|k l IH]; cbn; auto. destruct (k =? i); cbn; intros H; auto. destruct H; auto.
Qed.

Lemma find_In h k : heap_find h k <> None <-> In k (keys h).
Proof.
  induction h as [|[j b] h IH]; cbn; [tauto|]. destruct (N.eqb_spec j k) as [->|Hne].
  - split; auto. discriminate.
  - rewrite IH. split; auto. intros [H|H]; auto. congruence.
Qed.

Lemma find_remove_other h i k : k <> i -> heap_find (heap_remove h i) k = heap_find h k.
Proof.
  intros Hk. induction h as [|[j b] h IH]; cbn; auto. destruct (N.eqb_spec j i) as [->|Hne]; cbn.
  - destruct (N.eqb_spec i k); congruence.
  - destruct (j =? k); auto.
Qed.

Lemma find_fill_other h i v k : k <> i -> heap_find (heap_fill h i v) k = heap_find h k.
Proof.
  intros Hk. induction h as [|[j b] h IH]; cbn; auto. destruct (N.eqb_spec j i) as [->|Hne]; cbn.
  - destruct (N.eqb_spec i k); congruence.
  - destruct (j =? k); auto.
Qed.

Lemma find_fill_same h i v b :
  heap_find h i = Some b -> heap_find (heap_fill h i v) i = Some (mkBlk (b_size b) v).
Proof.
  induction h as [|[j c] h IH]; cbn; [discriminate|]. destruct (N.eqb_spec j i) as [->|Hne]; cbn.
  - rewrite N.eqb_refl. congruence.
  - destruct (N.eqb_spec j i); [congruence|]. auto.
Qed.

(** * Ownership *)
Definition olist (o : option N) : list N := match o with Some i => [i] | None => [] end.
Definition hdr_ids (h : hslot) : list N := match h with HMalloc i => [i] | HSlot _ _ => [] end.
Definition data_ids (m : mat) : list N := if m_win m then [] else olist (option_map fst (m_data m)).
Definition mat_ids (m : mat) : list N := if m_live m then data_ids m ++ hdr_ids (m_hdr m) else [].
Definition slot_ids (sl : slot) : list N := if s_size sl =? 0 then [] else olist (s_data sl).
Definition hb_ids (b : option N * N) : list N := olist (fst b).

Definition owned (s : state) : list N :=
  flat_map mat_ids (st_mats s) ++ flat_map slot_ids (st_mmc s) ++ flat_map hb_ids (st_hb s).

Definition hslot_dec : forall x y : hslot, {x = y} + {x <> y}.
Proof. decide equality; try apply N.eq_dec. decide equality. apply N.eq_dec. Defined.
Notation hcnt := (count_occ hslot_dec).

Definition live_hdr (m : mat) : list hslot := if m_live m then [m_hdr m] else [].
Definition live_hdrs (s : state) : list hslot := flat_map live_hdr (st_mats s).

Definition b2n (b : bool) : nat := if b then 1%nat else 0%nat.
Definition bounded (u : N) : Prop := forall e, 64 <= e -> N.testbit u e = false.

(* [held]: system blocks held in local variables of the operation in progress;
   [hx]: header slots marked used but not (or no longer) belonging to a live matrix *)
Record Inv (p : params) (s : state) (held : list N) (hx : list hslot) : Prop := mkInv {
  (* ownership of heap blocks *)
  I_own : forall x, cnt (keys (st_heap s)) x = (cnt held x + cnt (owned s) x)%nat;
  I_nodup : forall x, (cnt (keys (st_heap s)) x <= 1)%nat;
  I_bound : forall x, In x (keys (st_heap s)) -> x < st_next s;
  (* block cache *)
  I_mlen : length (st_mmc s) = NBLOCKS p;
  I_j : (st_j s < NBLOCKS p)%nat;
  I_slot : forall sl, In sl (st_mmc s) -> s_size sl <> 0 ->
           exists i b, s_data sl = Some i /\ heap_find (st_heap s) i = Some b /\ b_size b = s_size sl;
  (* header cache *)
  I_head : exists u0 rest, st_hb s = (None, u0) :: rest /\ Forall (fun b => fst b <> None) rest;
  I_cur : In (st_cur s) (map fst (st_hb s));
  I_bnd : Forall (fun b => bounded (snd b)) (st_hb s);
  I_nz : Forall (fun b => fst b <> None -> snd b <> 0) (st_hb s);
  I_bits : forall c e, (hcnt (live_hdrs s) (HSlot c e) + hcnt hx (HSlot c e))%nat
                       = b2n (N.testbit (hb_used (st_hb s) c) e);
  (* matrices *)
  I_mat : forall m, In m (st_mats s) -> m_win m = false ->
          match m_data m with
          | Some (i, off) => off = 0 /\ m_rows m * m_rowstride m * 8 <> 0 /\
                             (m_live m = true -> exists b, heap_find (st_heap s) i = Some b /\
                                                  b_size b = m_rows m * m_rowstride m * 8)
          | None => m_rows m * m_rowstride m * 8 = 0
          end
}.

Definition params_ok (p : params) : Prop := (1 <= NBLOCKS p)%nat.

(** * Traces: the system-level events are consistent with a real allocator *)
(* state of the checker: (lower bound for the next fresh id, ids currently allocated) *)
Definition tstep (st : N * list N) (e : event) : option (N * list N) :=
  let '(nx, live) := st in
  match e with
  | SysAlloc i _ => if nx <=? i then Some (N.succ i, i :: live) else None      (* fresh identity *)
  | SysFree i => if existsb (N.eqb i) live then Some (nx, krem live i) else None (* allocated, not yet freed *)
  | _ => Some st
  end.

Fixpoint tcheck (st : N * list N) (tr : list event) : option (N * list N) :=
  match tr with
  | [] => Some st
  | e :: t => match tstep st e with Some st' => tcheck st' t | None => None end
  end.

Lemma tcheck_app st tr1 tr2 :
  tcheck st (tr1 ++ tr2) = match tcheck st tr1 with Some st' => tcheck st' tr2 | None => None end.
Proof. revert st; induction tr1 as [|e t IH]; intros st; cbn; auto. destruct (tstep st e); auto. Qed.

Definition tst (s : state) : N * list N := (st_next s, keys (st_heap s)).
Definition evs_ok (s : state) (ev : list event) (s' : state) : Prop := tcheck (tst s) ev = Some (tst s').

Lemma evs_ok_nil s s' : tst s = tst s' -> evs_ok s [] s'.
Proof. unfold evs_ok; cbn; congruence. Qed.

Lemma evs_ok_app s1 e1 s2 e2 s3 : evs_ok s1 e1 s2 -> evs_ok s2 e2 s3 -> evs_ok s1 (e1 ++ e2) s3.
Proof. unfold evs_ok; intros H1 H2. rewrite tcheck_app, H1. exact H2. Qed.

(** * Frame: what an operation does to the blocks it does not own *)
Record hrel (s s' : state) : Prop := mkHrel {
  R_next : st_next s <= st_next s';
  R_keys : forall k, In k (keys (st_heap s')) -> In k (keys (st_heap s)) \/ st_next s <= k;
  R_find : forall k, In k (keys (st_heap s')) -> In k (keys (st_heap s)) ->
                     heap_find (st_heap s') k = heap_find (st_heap s) k
}.

Lemma hrel_refl s s' : st_next s = st_next s' -> st_heap s = st_heap s' -> hrel s s'.
Proof. intros H1 H2; split; rewrite <- ?H1, <- ?H2; auto; lia. Qed.

Lemma hrel_trans s1 s2 s3 :
  (forall x, In x (keys (st_heap s1)) -> x < st_next s1) ->
  hrel s1 s2 -> hrel s2 s3 -> hrel s1 s3.
Proof.
  intros Hb [N1 K1 F1] [N2 K2 F2]. split.
  - lia.
  - intros k H. destruct (K2 k H) as [H2|H2]; [destruct (K1 k H2)|]; auto. right; lia.
  - intros k H3 H1. assert (H2 : In k (keys (st_heap s2))).
    { destruct (K2 k H3) as [H2|H2]; auto. specialize (Hb k H1). lia. }
    rewrite F2, F1; auto.
Qed.

(** * Small facts about ownership counts *)
Lemma cnt_cons (i : N) l x : cnt (i :: l) x = ((if N.eq_dec i x then 1 else 0) + cnt l x)%nat.
Proof. cbn. destruct (N.eq_dec i x); reflexivity. Qed.

Lemma cnt_olist_some i x : cnt (olist (Some i)) x = (if N.eq_dec i x then 1 else 0)%nat.
Proof. cbn. destruct (N.eq_dec i x); reflexivity. Qed.

Lemma cnt_self_pos i l : (1 <= cnt (i :: l) i)%nat.
Proof. rewrite cnt_cons. destruct (N.eq_dec i i); [lia|congruence]. Qed.

Lemma owned_cnt s x :
  cnt (owned s) x = (cnt (flat_map mat_ids (st_mats s)) x + cnt (flat_map slot_ids (st_mmc s)) x
                     + cnt (flat_map hb_ids (st_hb s)) x)%nat.
Proof. unfold owned. rewrite !count_occ_app. lia. Qed.

Lemma owned_slot s sl k :
  In sl (st_mmc s) -> s_size sl <> 0 -> s_data sl = Some k -> (1 <= cnt (owned s) k)%nat.
Proof.
  intros Hin Hsz Hd. rewrite owned_cnt.
  pose proof (cnt_flat_map_in _ _ N.eq_dec slot_ids _ _ k Hin) as H.
  assert (E : slot_ids sl = [k]).
  { unfold slot_ids. destruct (N.eqb_spec (s_size sl) 0); [contradiction|]. rewrite Hd. reflexivity. }
  rewrite E in H. pose proof (cnt_self_pos k []). lia.
Qed.

Lemma owned_mat_data s m k off :
  In m (st_mats s) -> m_live m = true -> m_win m = false -> m_data m = Some (k, off) ->
  (1 <= cnt (owned s) k)%nat.
Proof.
  intros Hin Hl Hw Hd. rewrite owned_cnt.
  pose proof (cnt_flat_map_in _ _ N.eq_dec mat_ids _ _ k Hin) as H.
  assert (E : mat_ids m = [k] ++ hdr_ids (m_hdr m)).
  { unfold mat_ids, data_ids. rewrite Hl, Hw, Hd. reflexivity. }
  rewrite E, count_occ_app in H. pose proof (cnt_self_pos k []). lia.
Qed.

Lemma owned_mat_hdr s m k :
  In m (st_mats s) -> m_live m = true -> m_hdr m = HMalloc k -> (1 <= cnt (owned s) k)%nat.
Proof.
  intros Hin Hl Hh. rewrite owned_cnt.
  pose proof (cnt_flat_map_in _ _ N.eq_dec mat_ids _ _ k Hin) as H.
  assert (E : mat_ids m = data_ids m ++ [k]).
  { unfold mat_ids. rewrite Hl, Hh. reflexivity. }
  rewrite E, count_occ_app in H. pose proof (cnt_self_pos k []). lia.
Qed.

Lemma owned_hb s k u : In (Some k, u) (st_hb s) -> (1 <= cnt (owned s) k)%nat.
Proof.
  intros Hin. rewrite owned_cnt.
  pose proof (cnt_flat_map_in _ _ N.eq_dec hb_ids _ _ k Hin) as H. cbn in H.
  destruct (N.eq_dec k k); [lia|congruence].
Qed.

Lemma Inv_ext p s held hx held' hx' :
  Inv p s held hx -> (forall x, cnt held x = cnt held' x) ->
  (forall c e, hcnt hx (HSlot c e) = hcnt hx' (HSlot c e)) -> Inv p s held' hx'.
Proof.
  intros [] H1 H2. constructor; auto.
  - intros x. rewrite <- H1. auto.
  - intros c e. rewrite <- H2. auto.
Qed.

Lemma Inv_in_keys p s held hx i : Inv p s held hx -> (1 <= cnt held i + cnt (owned s) i)%nat -> In i (keys (st_heap s)).
Proof. intros HI H. apply (count_occ_In N.eq_dec). rewrite (I_own _ _ _ _ HI). lia. Qed.

(* an id that is held is not owned by anything else, and vice versa *)
Lemma Inv_excl p s held hx x : Inv p s held hx -> (cnt held x + cnt (owned s) x <= 1)%nat.
Proof. intros HI. rewrite <- (I_own _ _ _ _ HI). apply (I_nodup _ _ _ _ HI). Qed.

Ltac sp := cbn [st_heap st_next st_mmc st_j st_hb st_cur st_mats].
Ltac spi := cbn [st_heap st_next st_mmc st_j st_hb st_cur st_mats] in *.

Lemma owned_same s s' :
  st_mats s' = st_mats s -> st_mmc s' = st_mmc s -> st_hb s' = st_hb s -> owned s' = owned s.
Proof. unfold owned. intros -> -> ->. reflexivity. Qed.

Lemma live_hdrs_same s s' : st_mats s' = st_mats s -> live_hdrs s' = live_hdrs s.
Proof. unfold live_hdrs. intros ->. reflexivity. Qed.

(** * The system allocator *)
Lemma existsb_eqb_In i l : In i l -> existsb (N.eqb i) l = true.
Proof. intros H. apply existsb_exists. exists i. split; auto. apply N.eqb_refl. Qed.

Lemma sys_alloc_inv p s held hx sz s' i ev :
  Inv p s held hx -> sys_alloc s sz = (s', i, ev) ->
  Inv p s' (i :: held) hx /\ evs_ok s ev s' /\ hrel s s' /\
  st_mmc s' = st_mmc s /\ st_j s' = st_j s /\ st_hb s' = st_hb s /\ st_cur s' = st_cur s /\
  st_mats s' = st_mats s /\
  (exists b, heap_find (st_heap s') i = Some b /\ b_size b = sz) /\ i = st_next s.
Proof.
  intros HI E. unfold sys_alloc in E. injection E as <- <- <-.
  assert (Hfresh : ~ In (st_next s) (keys (st_heap s))).
  { intros H. apply (I_bound _ _ _ _ HI) in H. lia. }
  assert (Hfind : forall k b, heap_find (st_heap s) k = Some b ->
                  heap_find ((st_next s, mkBlk sz (garbage (st_next s))) :: st_heap s) k = Some b).
  { intros k b H. cbn. destruct (N.eqb_spec (st_next s) k) as [<-|]; auto.
    exfalso. apply Hfresh. apply find_In. congruence. }
  split; [|split; [|split; [|repeat (split; [reflexivity|])]]]; sp.
  - destruct HI. constructor; sp; auto.
    + intros x. change (owned _) with (owned s).
      change (keys (_ :: st_heap s)) with (st_next s :: keys (st_heap s)).
      rewrite !cnt_cons, I_own0. lia.
    + intros x. change (keys (_ :: st_heap s)) with (st_next s :: keys (st_heap s)).
      rewrite cnt_cons. destruct (N.eq_dec (st_next s) x) as [<-|].
      * apply (count_occ_not_In N.eq_dec) in Hfresh. rewrite Hfresh. lia.
      * apply I_nodup0.
    + change (keys (_ :: st_heap s)) with (st_next s :: keys (st_heap s)).
      intros x [<-|H]; [lia|]. apply I_bound0 in H. lia.
    + intros sl Hin Hsz. destruct (I_slot0 sl Hin Hsz) as (i & b & H1 & H2 & H3).
      exists i, b. split; [|split]; auto.
    + intros m Hin Hw. specialize (I_mat0 m Hin Hw). destruct (m_data m) as [[i off]|]; auto.
      destruct I_mat0 as (H1 & H2 & H3). split; [|split]; auto.
      intros Hl. destruct (H3 Hl) as (b & Hb1 & Hb2). exists b. split; auto.
  - unfold evs_ok, tst. cbn. rewrite N.leb_refl. reflexivity.
  - split; sp; try lia.
    + change (keys (_ :: st_heap s)) with (st_next s :: keys (st_heap s)).
      intros k [<-|H]; [right; lia|left; auto].
    + intros k _ H. cbn. destruct (N.eqb_spec (st_next s) k) as [<-|]; auto. contradiction.
  - split; [|reflexivity]. exists (mkBlk sz (garbage (st_next s))). cbn. rewrite N.eqb_refl. auto.
Qed.

Lemma sys_free_inv p s held hx i s' ev :
  Inv p s (i :: held) hx -> sys_free s (Some i) = (s', ev) ->
  Inv p s' held hx /\ evs_ok s ev s' /\ hrel s s' /\
  st_mmc s' = st_mmc s /\ st_j s' = st_j s /\ st_hb s' = st_hb s /\ st_cur s' = st_cur s /\
  st_mats s' = st_mats s /\ ev = [SysFree i].
Proof.
  intros HI E. unfold sys_free in E. injection E as <- <-.
  assert (Hin : In i (keys (st_heap s))).
  { apply (Inv_in_keys _ _ _ _ i HI). pose proof (cnt_self_pos i held). lia. }
  assert (Hex : forall k, (1 <= cnt (owned s) k)%nat -> k <> i).
  { intros k Hk ->. pose proof (Inv_excl _ _ _ _ i HI). pose proof (cnt_self_pos i held). lia. }
  unfold set_heap. split; [|split; [|split; [|repeat (split; [reflexivity|]); reflexivity]]]; sp.
  - destruct HI. constructor; sp; auto.
    + intros x. change (owned _) with (owned s). rewrite keys_remove.
      pose proof (cnt_krem _ _ x Hin). specialize (I_own0 x). rewrite cnt_cons in I_own0. lia.
    + intros x. rewrite keys_remove. pose proof (cnt_krem _ _ x Hin). specialize (I_nodup0 x). lia.
    + intros x. rewrite keys_remove. intros H. apply krem_In in H. auto.
    + intros sl Hsl Hsz. destruct (I_slot0 sl Hsl Hsz) as (k & b & H1 & H2 & H3).
      exists k, b. split; [|split]; auto. rewrite find_remove_other; auto.
      apply Hex. eapply owned_slot; eauto.
    + intros m Hm Hw. specialize (I_mat0 m Hm Hw). destruct (m_data m) as [[k off]|] eqn:Ed; auto.
      destruct I_mat0 as (H1 & H2 & H3). split; [|split]; auto.
      intros Hl. destruct (H3 Hl) as (b & Hb1 & Hb2). exists b. split; auto.
      rewrite find_remove_other; auto. apply Hex. eapply owned_mat_data; eauto.
  - unfold evs_ok, tst. cbn. rewrite existsb_eqb_In by exact Hin. rewrite keys_remove. reflexivity.
  - split; sp; try lia.
    + intros k H. rewrite keys_remove in H. apply krem_In in H. auto.
    + intros k H _. destruct (N.eq_dec k i) as [->|Hne]; [|apply find_remove_other; auto].
      exfalso. rewrite keys_remove in H. apply (count_occ_In N.eq_dec) in H.
      pose proof (cnt_krem _ _ i Hin). pose proof (I_nodup _ _ _ _ HI i). destruct (N.eq_dec i i); [lia|congruence].
Qed.

(** * mmc.c *)
Lemma find_size_some l sz i :
  find_size l sz = Some i -> exists sl, nth_error l i = Some sl /\ s_size sl = sz.
Proof.
  revert i. induction l as [|a l IH]; intros i H; cbn in H; [discriminate|].
  destruct (N.eqb_spec (s_size a) sz).
  - injection H as <-. exists a. split; auto.
  - destruct (find_size l sz) as [k|]; cbn in H; [|discriminate]. injection H as <-.
    destruct (IH k eq_refl) as (sl & H1 & H2). exists sl. split; auto.
Qed.

Lemma find_size_none l sz : find_size l sz = None -> forall sl, In sl l -> s_size sl <> sz.
Proof.
  induction l as [|a l IH]; intros H sl Hin; [destruct Hin|]. cbn in H.
  destruct (N.eqb_spec (s_size a) sz); [discriminate|].
  destruct (find_size l sz); [discriminate|]. destruct Hin as [<-|Hin]; auto.
Qed.

Lemma slot_ids_empty sl : s_size sl = 0 -> slot_ids sl = [].
Proof. unfold slot_ids. intros ->. reflexivity. Qed.

Lemma Inv_upd_slot p s held held' hx i a b j' :
  Inv p s held hx -> nth_error (st_mmc s) i = Some a ->
  (forall x, (cnt held x + cnt (slot_ids a) x = cnt held' x + cnt (slot_ids b) x)%nat) ->
  (s_size b <> 0 -> exists k bl, s_data b = Some k /\ heap_find (st_heap s) k = Some bl /\ b_size bl = s_size b) ->
  (j' < NBLOCKS p)%nat ->
  Inv p (set_mmc s (upd (st_mmc s) i b) j') held' hx.
Proof.
  intros HI Hn Hc Hb Hj. destruct HI. unfold set_mmc. constructor; sp; auto.
  - intros x. rewrite I_own0, !owned_cnt. sp.
    pose proof (cnt_flat_map_upd _ _ N.eq_dec slot_ids (st_mmc s) i a b x Hn). specialize (Hc x). lia.
  - rewrite upd_length. auto.
  - intros sl Hin Hsz. apply upd_In in Hin. destruct Hin as [->|Hin]; auto.
Qed.

Lemma evs_ok_tst s s0 ev s' : tst s = tst s0 -> evs_ok s0 ev s' -> evs_ok s ev s'.
Proof. unfold evs_ok. intros ->. auto. Qed.

Lemma hrel_eq s s0 s' :
  st_next s = st_next s0 -> st_heap s = st_heap s0 -> hrel s0 s' -> hrel s s'.
Proof. intros H1 H2 [A B C]. split; rewrite ?H1, ?H2; auto. Qed.

Lemma mmc_malloc_inv p s held hx sz s' d ev :
  Inv p s held hx -> sz <> 0 -> mmc_malloc p s sz = (s', d, ev) ->
  Inv p s' (d :: held) hx /\ evs_ok s ev s' /\ hrel s s' /\
  st_hb s' = st_hb s /\ st_cur s' = st_cur s /\ st_mats s' = st_mats s /\
  (exists b, heap_find (st_heap s') d = Some b /\ b_size b = sz).
Proof.
  intros HI Hsz E. unfold mmc_malloc in E.
  assert (Hmiss : forall s0, s0 = s -> sys_alloc s0 sz = (s', d, ev) ->
    Inv p s' (d :: held) hx /\ evs_ok s ev s' /\ hrel s s' /\
    st_hb s' = st_hb s /\ st_cur s' = st_cur s /\ st_mats s' = st_mats s /\
    (exists b, heap_find (st_heap s') d = Some b /\ b_size b = sz)).
  { intros s0 -> E0. destruct (sys_alloc_inv _ _ _ _ _ _ _ _ HI E0) as (A & B & C & _ & _ & D1 & D2 & D3 & D4 & _).
    auto 10. }
  destruct (enable_mmc p); [|eapply Hmiss; eauto].
  destruct (if sz <=? THRESHOLD p then find_size (st_mmc s) sz else None) as [i|] eqn:Ef; [|eapply Hmiss; eauto].
  destruct (sz <=? THRESHOLD p); [|discriminate].
  destruct (find_size_some _ _ _ Ef) as (sl & Hn & Hs).
  assert (Hlt : (i < length (st_mmc s))%nat) by (apply nth_error_Some; congruence).
  rewrite (nth_error_nth _ _ empty_slot Hn) in E.
  assert (Hin : In sl (st_mmc s)) by (eapply nth_error_In; eauto).
  destruct (I_slot _ _ _ _ HI sl Hin) as (k & b & Hd & Hf & Hb); [congruence|].
  rewrite Hd in E. injection E as <- <- <-.
  split; [|split; [|split; [|split; [|split; [|split]]]]];
    [ | apply evs_ok_nil; reflexivity | apply hrel_refl; reflexivity | reflexivity | reflexivity | reflexivity | ].
  - apply (Inv_upd_slot p s held (k :: held) hx i sl empty_slot (st_j s) HI Hn);
      [| cbn; congruence | apply (I_j _ _ _ _ HI)].
    intros x. rewrite (slot_ids_empty empty_slot) by reflexivity.
    assert (E : slot_ids sl = [k]).
    { unfold slot_ids. destruct (N.eqb_spec (s_size sl) 0); [congruence|]. rewrite Hd. reflexivity. }
    rewrite E, cnt_cons. cbn. destruct (N.eq_dec k x); lia.
  - exists b. split; auto. congruence.
Qed.

Lemma mmc_free_inv p s held hx d sz s' ev :
  Inv p s (olist d ++ held) hx ->
  match d with
  | Some k => sz <> 0 /\ exists b, heap_find (st_heap s) k = Some b /\ b_size b = sz
  | None => sz = 0
  end ->
  mmc_free p s d sz = (s', ev) ->
  Inv p s' held hx /\ evs_ok s ev s' /\ hrel s s' /\
  st_hb s' = st_hb s /\ st_cur s' = st_cur s /\ st_mats s' = st_mats s.
Proof.
  intros HI Hd E. unfold mmc_free in E.
  assert (Hplain : sys_free s d = (s', ev) ->
    Inv p s' held hx /\ evs_ok s ev s' /\ hrel s s' /\
    st_hb s' = st_hb s /\ st_cur s' = st_cur s /\ st_mats s' = st_mats s).
  { intros E0. destruct d as [k|].
    - destruct (sys_free_inv _ _ _ _ _ _ _ HI E0) as (A & B & C & _ & _ & D1 & D2 & D3 & _). auto 10.
    - injection E0 as <- <-. split; [exact HI|]. split; [apply evs_ok_nil; reflexivity|].
      split; [apply hrel_refl; reflexivity|]. auto. }
  destruct (enable_mmc p); [|auto].
  destruct (sz <? THRESHOLD p); [|auto].
  assert (Hnew : s_size (mkSlot sz d) <> 0 -> exists k bl, s_data (mkSlot sz d) = Some k /\
                 heap_find (st_heap s) k = Some bl /\ b_size bl = s_size (mkSlot sz d)).
  { cbn. intros Hz. destruct d as [k|]; [|contradiction]. destruct Hd as (_ & b & H1 & H2). eauto. }
  assert (Hids : forall x, cnt (slot_ids (mkSlot sz d)) x = cnt (olist d) x).
  { intros x. unfold slot_ids. cbn [s_size s_data]. destruct d as [k|]; [|destruct (sz =? 0); reflexivity].
    destruct Hd as (Hz & _). destruct (N.eqb_spec sz 0); [contradiction|reflexivity]. }
  destruct (find_size (st_mmc s) 0) as [i|] eqn:Ef.
  - destruct (find_size_some _ _ _ Ef) as (sl & Hn & Hs). injection E as <- <-.
    split; [|split; [|split; [|split; [|split]]]];
      [ | apply evs_ok_nil; reflexivity | apply hrel_refl; reflexivity | reflexivity | reflexivity | reflexivity ].
    apply (Inv_upd_slot p s (olist d ++ held) held hx i sl (mkSlot sz d) (st_j s) HI Hn);
        [|exact Hnew|apply (I_j _ _ _ _ HI)].
    intros x. rewrite (slot_ids_empty _ Hs), Hids, count_occ_app. cbn. lia.
  - pose proof (I_j _ _ _ _ HI) as Hj. pose proof (I_mlen _ _ _ _ HI) as Hlen.
    assert (Hlt : (st_j s < length (st_mmc s))%nat) by lia.
    pose proof (nth_nth_error _ (st_mmc s) (st_j s) empty_slot Hlt) as Hn.
    set (a := nth (st_j s) (st_mmc s) empty_slot) in *.
    assert (Hin : In a (st_mmc s)) by (eapply nth_error_In; eauto).
    pose proof (find_size_none _ _ Ef a Hin) as Hnz.
    destruct (I_slot _ _ _ _ HI a Hin Hnz) as (old & bo & Hda & Hfo & Hbo).
    rewrite Hda in E.
    (* same final state as: put the new block into slot j (the old one becomes held), free the old *)
    set (j' := Nat.modulo (S (st_j s)) (NBLOCKS p)) in *.
    assert (Hj' : (j' < NBLOCKS p)%nat) by (apply Nat.mod_upper_bound; lia).
    set (sa := set_mmc s (upd (st_mmc s) (st_j s) (mkSlot sz d)) j').
    assert (HIa : Inv p sa (old :: held) hx).
    { apply (Inv_upd_slot p s (olist d ++ held) (old :: held) hx (st_j s) a (mkSlot sz d) j' HI Hn);
        [|exact Hnew|exact Hj'].
      intros x. rewrite Hids, count_occ_app.
      assert (Ea : slot_ids a = [old]).
      { unfold slot_ids. destruct (N.eqb_spec (s_size a) 0); [contradiction|]. rewrite Hda. reflexivity. }
      rewrite Ea, cnt_cons. cbn. destruct (N.eq_dec old x); lia. }
    assert (Ea : sys_free sa (Some old) = (s', ev)).
    { cbn in E. injection E as <- <-. reflexivity. }
    destruct (sys_free_inv _ _ _ _ _ _ _ HIa Ea) as (A & B & C & _ & _ & D1 & D2 & D3 & _).
    split; [exact A|]. split; [eapply evs_ok_tst; [|exact B]; reflexivity|].
    split; [eapply hrel_eq; [| |exact C]; reflexivity|]. auto.
Qed.

Lemma mmc_cleanup_from_inv p n : forall s held hx i s' ev,
  Inv p s held hx -> (i + n = NBLOCKS p)%nat -> mmc_cleanup_from s i n = (s', ev) ->
  Inv p s' held hx /\ evs_ok s ev s' /\ hrel s s' /\
  st_hb s' = st_hb s /\ st_cur s' = st_cur s /\ st_mats s' = st_mats s /\
  (forall k sl, (i <= k)%nat -> nth_error (st_mmc s') k = Some sl -> s_size sl = 0) /\
  (forall k, (k < i)%nat -> nth_error (st_mmc s') k = nth_error (st_mmc s) k).
Proof.
  induction n as [|n IH]; intros s held hx i s' ev HI Hn E; cbn [mmc_cleanup_from] in E.
  - injection E as <- <-. split; [exact HI|]. split; [apply evs_ok_nil; reflexivity|].
    split; [apply hrel_refl; reflexivity|]. repeat (split; [reflexivity|]). split; auto.
    intros k sl Hk Hs. pose proof (I_mlen _ _ _ _ HI). assert (nth_error (st_mmc s) k <> None) by congruence.
    apply nth_error_Some in H0. lia.
  - pose proof (I_mlen _ _ _ _ HI) as Hlen.
    assert (Hlt : (i < length (st_mmc s))%nat) by lia.
    pose proof (nth_nth_error _ (st_mmc s) i empty_slot Hlt) as Hnth.
    set (a := nth i (st_mmc s) empty_slot) in *.
    assert (Hin : In a (st_mmc s)) by (eapply nth_error_In; eauto).
    (* the state after this iteration, and its invariant *)
    assert (Hstep : exists s2 ev1, (let '(s1, ev1) := if s_size a =? 0 then (s, []) else sys_free s (s_data a) in
                      (set_mmc s1 (upd (st_mmc s1) i (mkSlot 0 (s_data a))) (st_j s1), ev1)) = (s2, ev1) /\
              Inv p s2 held hx /\ evs_ok s ev1 s2 /\ hrel s s2 /\
              st_hb s2 = st_hb s /\ st_cur s2 = st_cur s /\ st_mats s2 = st_mats s /\
              st_mmc s2 = upd (st_mmc s) i (mkSlot 0 (s_data a))).
    { destruct (N.eqb_spec (s_size a) 0) as [Hz|Hnz].
      - eexists _, _. split; [reflexivity|].
        split; [|split; [apply evs_ok_nil; reflexivity|split; [apply hrel_refl; reflexivity|]]]; [|auto 6].
        apply (Inv_upd_slot p s held held hx i a (mkSlot 0 (s_data a)) (st_j s) HI Hnth);
          [|cbn; congruence|apply (I_j _ _ _ _ HI)].
        intros x. rewrite (slot_ids_empty _ Hz), (slot_ids_empty (mkSlot 0 (s_data a))) by reflexivity. lia.
      - destruct (I_slot _ _ _ _ HI a Hin Hnz) as (old & bo & Hda & Hfo & Hbo). rewrite Hda.
        set (sa := set_mmc s (upd (st_mmc s) i (mkSlot 0 (Some old))) (st_j s)).
        assert (HIa : Inv p sa (old :: held) hx).
        { apply (Inv_upd_slot p s held (old :: held) hx i a (mkSlot 0 (Some old)) (st_j s) HI Hnth);
            [|cbn; congruence|apply (I_j _ _ _ _ HI)].
          intros x. rewrite (slot_ids_empty (mkSlot 0 (Some old))) by reflexivity.
          assert (Ea : slot_ids a = [old]).
          { unfold slot_ids. destruct (N.eqb_spec (s_size a) 0); [contradiction|]. rewrite Hda. reflexivity. }
          rewrite Ea, cnt_cons. cbn. destruct (N.eq_dec old x); lia. }
        destruct (sys_free sa (Some old)) as [sb evb] eqn:Eb.
        destruct (sys_free_inv _ _ _ _ _ _ _ HIa Eb) as (A & B & C & D0 & _ & D1 & D2 & D3 & _).
        exists sb, evb. split.
        { cbn in Eb |- *. injection Eb as <- <-. reflexivity. }
        split; [exact A|]. split; [eapply evs_ok_tst; [|exact B]; reflexivity|].
        split; [eapply hrel_eq; [| |exact C]; reflexivity|]. auto 6. }
    destruct Hstep as (s2 & ev1 & E2 & HI2 & B2 & C2 & D1 & D2 & D3 & D4).
    fold a in E. destruct (if s_size a =? 0 then (s, []) else sys_free s (s_data a)) as [s1 ev1'] eqn:E1.
    injection E2 as E2a E2b. rewrite E2a in E. subst ev1'.
    destruct (mmc_cleanup_from s2 (S i) n) as [s3 ev3] eqn:E3. injection E as <- <-.
    destruct (IH s2 held hx (S i) s3 ev3 HI2 ltac:(lia) E3) as (A3 & B3 & C3 & F1 & F2 & F3 & F4 & F5).
    split; [exact A3|]. split; [eapply evs_ok_app; eauto|].
    split; [eapply hrel_trans; eauto; apply (I_bound _ _ _ _ HI)|].
    split; [congruence|]. split; [congruence|]. split; [congruence|]. split.
    + intros k sl Hk Hs. destruct (Nat.eq_dec k i) as [->|Hne].
      * rewrite F5 in Hs by lia. rewrite D4, upd_nth_same in Hs by lia. injection Hs as <-. reflexivity.
      * apply (F4 k sl); auto. lia.
    + intros k Hk. rewrite F5 by lia. rewrite D4. apply upd_nth_other. lia.
Qed.

Lemma all_zero_slot_ids l x :
  (forall k sl, nth_error l k = Some sl -> s_size sl = 0) -> cnt (flat_map slot_ids l) x = 0%nat.
Proof.
  intros H. apply cnt_flat_map_zero. intros a Hin. destruct (In_nth_error _ _ Hin) as [k Hk].
  rewrite (slot_ids_empty _ (H _ _ Hk)). reflexivity.
Qed.

Lemma mmc_cleanup_inv p s held hx s' ev :
  Inv p s held hx -> mmc_cleanup p s = (s', ev) ->
  Inv p s' held hx /\ evs_ok s ev s' /\ hrel s s' /\
  st_hb s' = st_hb s /\ st_cur s' = st_cur s /\ st_mats s' = st_mats s /\
  (enable_mmc p = true -> forall x, cnt (flat_map slot_ids (st_mmc s')) x = 0%nat).
Proof.
  intros HI E. unfold mmc_cleanup in E. destruct (enable_mmc p).
  - destruct (mmc_cleanup_from_inv p (NBLOCKS p) s held hx 0 s' ev HI eq_refl E) as (A & B & C & D1 & D2 & D3 & D4 & _).
    repeat (split; [assumption|]). intros _ x. apply all_zero_slot_ids. intros k sl. apply D4. lia.
  - injection E as <- <-. split; [exact HI|]. split; [apply evs_ok_nil; reflexivity|].
    split; [apply hrel_refl; reflexivity|]. repeat (split; [reflexivity|]). discriminate.
Qed.

(* ======================================================================================== *)
(* Part II -- the header cache (mzd_t_malloc / mzd_t_free of mzd.c: slot taken with
   log2_floor(~used), walk from the static block, spill to a new 64-slot block, plain malloc beyond
   CACHE_MAX blocks, unlink-and-free of an emptied non-first block), the matrix layer (mzd_init,
   mzd_init_window, mzd_free, the user's writes, m4ri_fini), the induction over ARBITRARY op lists
   and the C14 theorems (alloc_inv, trace_ok, no_double_free, fresh_zero, live_disjoint,
   free_any_order, window_free_keeps_data, fini_retains, no_retention).                         *)
(* ======================================================================================== *)

(** * Bits of the [used] masks *)
Lemma FULL_bit e : N.testbit FULL e = (e <? 64).
Proof.
  change FULL with (N.ones 64). destruct (N.ltb_spec e 64).
  - apply N.ones_spec_low; lia.
  - apply N.ones_spec_high; lia.
Qed.

(* log2_floor(~used) is the index of a clear bit below 64 *)
Lemma free_entry u :
  bounded u -> u <> FULL -> N.log2 (N.lxor u FULL) < 64 /\ N.testbit u (N.log2 (N.lxor u FULL)) = false.
Proof.
  intros Hb Hne. set (e := N.log2 (N.lxor u FULL)).
  assert (Hx : N.lxor u FULL <> 0). { intros H. apply N.lxor_eq in H. auto. }
  pose proof (N.bit_log2 _ Hx) as Hbit. fold e in Hbit.
  rewrite N.lxor_spec, FULL_bit in Hbit.
  destruct (N.ltb_spec e 64).
  - split; auto. destruct (N.testbit u e); cbn in Hbit; congruence.
  - rewrite Hb in Hbit by lia. discriminate.
Qed.

Lemma setbit_spec u e e' : N.testbit (N.lor u (N.shiftl 1 e)) e' = N.testbit u e' || (e =? e').
Proof. rewrite N.lor_spec, N.shiftl_1_l, N.pow2_bits_eqb. reflexivity. Qed.

Lemma clearbit_spec u e e' : N.testbit (clearbit u e) e' = N.testbit u e' && negb (e =? e').
Proof. unfold clearbit. rewrite N.ldiff_spec, N.shiftl_1_l, N.pow2_bits_eqb. reflexivity. Qed.

Lemma bounded_setbit u e : bounded u -> e < 64 -> bounded (N.lor u (N.shiftl 1 e)).
Proof.
  intros Hb He e' H. rewrite setbit_spec, Hb by auto. destruct (N.eqb_spec e e'); auto. lia.
Qed.

Lemma bounded_clearbit u e : bounded u -> bounded (clearbit u e).
Proof. intros Hb e' H. rewrite clearbit_spec, Hb by auto. reflexivity. Qed.

Lemma bounded_0 : bounded 0.
Proof. intros e _. apply N.bits_0. Qed.

Lemma setbit_nz u e : N.lor u (N.shiftl 1 e) <> 0.
Proof.
  intros H. pose proof (setbit_spec u e e) as H1. rewrite H, N.bits_0, N.eqb_refl, orb_true_r in H1.
  discriminate.
Qed.

(** * The list of header blocks *)
Lemma oeqb_spec a b : reflect (a = b) (oeqb a b).
Proof.
  destruct a as [x|], b as [y|]; cbn; try (constructor; congruence).
  destruct (N.eqb_spec x y); constructor; congruence.
Qed.

Notation hkeys := (map (@fst (option N) N)).

Lemma hb_used_notin hb c : ~ In c (hkeys hb) -> hb_used hb c = 0.
Proof.
  induction hb as [|[r u] t IH]; cbn; auto. intros H. destruct (oeqb_spec r c); [tauto|]. apply IH. tauto.
Qed.

Lemma hb_used_set hb c v c' :
  hb_used (hb_set hb c v) c' = if oeqb c c' then (if in_dec (fun a b => reflect_dec _ _ (oeqb_spec a b)) c (hkeys hb) then v else 0)
                               else hb_used hb c'.
Proof.
  induction hb as [|[r u] t IH]; cbn [hb_set hb_used map fst].
  - destruct (oeqb c c'); reflexivity.
  - destruct (oeqb_spec r c) as [->|Hrc]; cbn [hb_used].
    + destruct (oeqb_spec c c'); auto.
      destruct (in_dec _ c (c :: hkeys t)) as [|n]; auto. exfalso; apply n; left; auto.
    + destruct (oeqb_spec r c') as [->|Hrc'].
      * destruct (oeqb_spec c c'); [congruence|reflexivity].
      * rewrite IH. destruct (oeqb_spec c c'); auto.
        destruct (in_dec _ c (hkeys t)), (in_dec _ c (r :: hkeys t)); auto; cbn in *; tauto.
Qed.

Lemma hb_used_set_same hb c v : In c (hkeys hb) -> hb_used (hb_set hb c v) c = v.
Proof.
  intros H. rewrite hb_used_set. destruct (oeqb_spec c c); [|congruence].
  destruct (in_dec _ c (hkeys hb)); tauto.
Qed.

Lemma hb_used_set_other hb c v c' : c <> c' -> hb_used (hb_set hb c v) c' = hb_used hb c'.
Proof. intros H. rewrite hb_used_set. destruct (oeqb_spec c c'); congruence. Qed.

Lemma hkeys_set hb c v : hkeys (hb_set hb c v) = hkeys hb.
Proof. induction hb as [|[r u] t IH]; cbn; auto. destruct (oeqb r c); cbn; congruence. Qed.

Lemma hb_ids_keys hb : flat_map hb_ids hb = flat_map olist (hkeys hb).
Proof. induction hb as [|[r u] t IH]; cbn; auto. unfold hb_ids at 1. cbn. congruence. Qed.

Lemma hb_ids_set hb c v : flat_map hb_ids (hb_set hb c v) = flat_map hb_ids hb.
Proof. rewrite !hb_ids_keys, hkeys_set. reflexivity. Qed.

Lemma Forall_hb_set (P : option N * N -> Prop) hb c v :
  Forall P hb -> P (c, v) -> Forall P (hb_set hb c v).
Proof.
  intros H Hv. induction H as [|[r u] t H1 H2 IH]; cbn; auto.
  destruct (oeqb_spec r c) as [->|]; constructor; auto.
Qed.

Lemma hb_used_In hb c : In c (hkeys hb) -> In (c, hb_used hb c) hb.
Proof.
  induction hb as [|[r u] t IH]; cbn; [tauto|]. intros H.
  destruct (oeqb_spec r c) as [->|Hne]; auto. right. apply IH. destruct H; congruence.
Qed.

(* removal *)
Lemma hb_used_remove_other hb c c' : c <> c' -> hb_used (hb_remove hb c) c' = hb_used hb c'.
Proof.
  intros H. induction hb as [|[r u] t IH]; cbn; auto.
  destruct (oeqb_spec r c) as [->|Hrc]; cbn.
  - destruct (oeqb_spec c c'); congruence.
  - rewrite IH. reflexivity.
Qed.

Lemma hkeys_remove_notin hb c : NoDup (hkeys hb) -> ~ In c (hkeys (hb_remove hb c)).
Proof.
  induction hb as [|[r u] t IH]; cbn; auto. intros H. inversion H; subst.
  destruct (oeqb_spec r c) as [->|Hrc]; cbn; auto. intros [E|E]; [congruence|]. apply IH; auto.
Qed.

Lemma hkeys_remove_other hb c c' : c <> c' -> In c' (hkeys hb) -> In c' (hkeys (hb_remove hb c)).
Proof.
  intros Hne. induction hb as [|[r u] t IH]; cbn; auto.
  destruct (oeqb_spec r c) as [->|Hrc]; cbn; intros [E|E]; auto; congruence.
Qed.

Lemma hb_remove_In hb c b : In b (hb_remove hb c) -> In b hb.
Proof.
  induction hb as [|[r u] t IH]; cbn; auto. destruct (oeqb r c); cbn; auto. intros [E|E]; auto.
Qed.

Lemma hb_ids_remove hb i x :
  In (Some i) (hkeys hb) ->
  (cnt (flat_map hb_ids (hb_remove hb (Some i))) x + (if N.eq_dec i x then 1 else 0)
   = cnt (flat_map hb_ids hb) x)%nat.
Proof.
  induction hb as [|[r u] t IH]; cbn [hb_remove flat_map map fst]; [intros []|]. intros H.
  destruct (oeqb_spec r (Some i)) as [->|Hrc].
  - cbn. destruct (N.eq_dec i x); lia.
  - destruct H as [H|H]; [congruence|]. specialize (IH H). cbn [flat_map]. rewrite !count_occ_app. lia.
Qed.

Lemma hb_prev_In hb c b : In (hb_prev hb c b) (b :: hkeys (hb_remove hb c)).
Proof.
  revert b. induction hb as [|[r u] t IH]; intros b; cbn [hb_prev hb_remove]; [left; auto|].
  destruct (oeqb r c); [left; auto|]. cbn [map fst]. right. apply IH.
Qed.

Lemma hb_walk_some hb cur i c cur' i' :
  hb_walk hb cur i = (Some c, cur', i') -> NoDup (hkeys hb) -> In c (hkeys hb) /\ hb_used hb c <> FULL.
Proof.
  revert cur i. induction hb as [|[r u] t IH]; intros cur i H Hnd; cbn in H; [discriminate|].
  inversion Hnd; subst. cbn [map fst hb_used].
  destruct (N.eqb_spec u FULL) as [->|Hne].
  - match goal with Hn : NoDup (hkeys t) |- _ => destruct (IH _ _ H Hn) as [Ha Hb] end. split; [right; auto|].
    destruct (oeqb_spec r c) as [->|]; auto.
  - injection H as <- <- <-. split; [left; auto|]. destruct (oeqb_spec r r); congruence.
Qed.

Lemma hb_walk_none hb cur i cur' i' :
  hb_walk hb cur i = (None, cur', i') -> In cur' (cur :: hkeys hb).
Proof.
  revert cur i. induction hb as [|[r u] t IH]; intros cur i H; cbn in H.
  - injection H as <- <-. left; auto.
  - destruct (u =? FULL); [|discriminate]. apply IH in H. cbn [map fst]. destruct H; auto.
    right; left; auto. right; right; auto.
Qed.

Lemma hb_used_app_zero hb k c : hb_used (hb ++ [(k, 0)]) c = hb_used hb c.
Proof.
  induction hb as [|[r u] t IH]; cbn.
  - destruct (oeqb k c); reflexivity.
  - destruct (oeqb r c); auto.
Qed.

Lemma hb_used_snoc hb k v c :
  ~ In k (hkeys hb) -> hb_used (hb ++ [(k, v)]) c = if oeqb k c then v else hb_used hb c.
Proof.
  induction hb as [|[r u] t IH]; cbn; intros H.
  - destruct (oeqb k c); reflexivity.
  - destruct (oeqb_spec r c) as [->|].
    + destruct (oeqb_spec k c); auto. subst. tauto.
    + apply IH. tauto.
Qed.

Lemma hb_set_snoc hb k u v : ~ In k (hkeys hb) -> hb_set (hb ++ [(k, u)]) k v = hb ++ [(k, v)].
Proof.
  induction hb as [|[r w] t IH]; cbn; intros H.
  - destruct (oeqb_spec k k); congruence.
  - destruct (oeqb_spec r k); [subst; tauto|]. rewrite IH; tauto.
Qed.

(** * Consequences of the invariant for the header list *)
Lemma Inv_hb_nodup p s held hx : Inv p s held hx -> NoDup (hkeys (st_hb s)).
Proof.
  intros HI. destruct (I_head _ _ _ _ HI) as (u0 & rest & E & Hr).
  assert (Hc : forall i, (cnt (flat_map hb_ids (st_hb s)) i <= 1)%nat).
  { intros i. pose proof (Inv_excl _ _ _ _ i HI). rewrite owned_cnt in H. lia. }
  rewrite E in *. cbn [map fst]. constructor.
  - intros H. apply in_map_iff in H. destruct H as (b & H1 & H2).
    rewrite Forall_forall in Hr. apply (Hr b); auto.
  - cbn [flat_map hb_ids olist fst app] in Hc. clear E. induction rest as [|[r u] t IH]; cbn; constructor.
    + inversion Hr; subst. cbn in H1. destruct r as [i|]; [|congruence].
      intros H. specialize (Hc i). cbn [flat_map hb_ids olist fst app] in Hc. rewrite cnt_cons in Hc.
      destruct (N.eq_dec i i); [|congruence].
      assert (1 <= cnt (flat_map hb_ids t) i)%nat; [|lia].
      apply in_map_iff in H. destruct H as ([r' u'] & H4 & H5). cbn in H4. subst r'.
      pose proof (cnt_flat_map_in _ _ N.eq_dec hb_ids t _ i H5) as H6. cbn in H6.
      destruct (N.eq_dec i i); [lia|congruence].
    + inversion Hr; subst. apply IH; auto. intros i. specialize (Hc i).
      cbn [flat_map] in Hc. rewrite count_occ_app in Hc. lia.
Qed.

Lemma Inv_hb_key_bound p s held hx i : Inv p s held hx -> In (Some i) (hkeys (st_hb s)) -> i < st_next s.
Proof.
  intros HI H. apply (I_bound _ _ _ _ HI). apply (Inv_in_keys _ _ _ _ i HI).
  apply in_map_iff in H. destruct H as ([r u] & H1 & H2). cbn in H1. subst r.
  pose proof (owned_hb _ _ _ H2). lia.
Qed.

Lemma Inv_set_hb p s held hx hb' cur' held' hx' :
  Inv p s held hx ->
  (forall x, (cnt held x + cnt (flat_map hb_ids (st_hb s)) x = cnt held' x + cnt (flat_map hb_ids hb') x)%nat) ->
  (exists u0 rest, hb' = (None, u0) :: rest /\ Forall (fun b => fst b <> None) rest) ->
  In cur' (hkeys hb') ->
  Forall (fun b => bounded (snd b)) hb' ->
  Forall (fun b => fst b <> None -> snd b <> 0) hb' ->
  (forall c e, (hcnt (live_hdrs s) (HSlot c e) + hcnt hx' (HSlot c e))%nat = b2n (N.testbit (hb_used hb' c) e)) ->
  Inv p (set_hb s hb' cur') held' hx'.
Proof.
  intros HI Hc Hh Hcur Hb Hnz Hbits.
  destruct HI as [Iown Inodup Ibound Imlen Ij Islot Ihead Icur Ibnd Inz Ibits Imat].
  unfold set_hb. constructor; sp; auto.
  intros x. rewrite Iown, !owned_cnt. sp. specialize (Hc x). lia.
Qed.

Lemma hb_remove_set hb c v : hb_remove (hb_set hb c v) c = hb_remove hb c.
Proof.
  induction hb as [|[r u] t IH]; cbn; auto.
  destruct (oeqb r c) eqn:E; cbn; rewrite E; congruence.
Qed.

Lemma Forall_hb_remove (P : option N * N -> Prop) hb c : Forall P hb -> Forall P (hb_remove hb c).
Proof. rewrite !Forall_forall. intros H b Hb. apply H. eapply hb_remove_In; eauto. Qed.

Lemma hcnt_cons h l x : hcnt (h :: l) x = ((if hslot_dec h x then 1 else 0) + hcnt l x)%nat.
Proof. cbn. destruct (hslot_dec h x); reflexivity. Qed.

(** * mzd_t_malloc *)
Definition same_but_hb (s s' : state) : Prop :=
  st_next s' = st_next s /\ st_heap s' = st_heap s /\ st_mmc s' = st_mmc s /\ st_j s' = st_j s /\
  st_mats s' = st_mats s.

Lemma same_but_hb_frame s s' : same_but_hb s s' -> evs_ok s [] s' /\ hrel s s'.
Proof.
  intros (A & B & _). split.
  - apply evs_ok_nil. unfold tst. congruence.
  - apply hrel_refl; congruence.
Qed.

Lemma take_slot_inv p s held hx c s' hd :
  Inv p s held hx -> In c (hkeys (st_hb s)) -> hb_used (st_hb s) c <> FULL ->
  take_slot s c = (s', hd) ->
  Inv p s' held (hd :: hx) /\ same_but_hb s s' /\ hdr_ids hd = [].
Proof.
  intros HI Hin Hne E. unfold take_slot in E. apply pair_equal_spec in E. destruct E as [<- <-].
  set (u := hb_used (st_hb s) c) in *. set (e := N.log2 (N.lxor u FULL)).
  assert (Hbu : bounded u).
  { pose proof (I_bnd _ _ _ _ HI) as H. rewrite Forall_forall in H. apply (H (c, u)). apply hb_used_In; auto. }
  destruct (free_entry u Hbu Hne) as [He Hbit]. fold e in He, Hbit.
  split; [|split; [repeat split|reflexivity]].
  apply (Inv_set_hb p s held hx _ _ held (HSlot c e :: hx) HI).
  - intros x. rewrite hb_ids_set. reflexivity.
  - destruct (I_head _ _ _ _ HI) as (u0 & rest & E & Hr). rewrite E. cbn [hb_set].
    destruct (oeqb_spec None c) as [<-|Hc]; eexists _, _; (split; [reflexivity|]); auto.
    apply Forall_hb_set; auto.
  - rewrite hkeys_set. auto.
  - apply Forall_hb_set; [apply (I_bnd _ _ _ _ HI)|]. apply bounded_setbit; auto.
  - apply Forall_hb_set; [apply (I_nz _ _ _ _ HI)|]. intros _. apply setbit_nz.
  - intros c' e'. rewrite hcnt_cons. pose proof (I_bits _ _ _ _ HI c' e') as Hold.
    destruct (oeqb_spec c c') as [<-|Hcc].
    + rewrite hb_used_set_same, setbit_spec by auto. fold u in Hold.
      destruct (N.eqb_spec e e') as [<-|Hee].
      * rewrite orb_true_r. rewrite Hbit in Hold. destruct (hslot_dec (HSlot c e) (HSlot c e)); [|congruence].
        cbn in *. lia.
      * rewrite orb_false_r. destruct (hslot_dec (HSlot c e) (HSlot c e')); [congruence|]. exact Hold.
    + rewrite hb_used_set_other by auto. destruct (hslot_dec (HSlot c e) (HSlot c' e')); [congruence|]. exact Hold.
Qed.

Lemma Inv_hx_malloc p s held hx i : Inv p s held hx <-> Inv p s held (HMalloc i :: hx).
Proof.
  split; intros H; eapply Inv_ext; eauto; intros c e; rewrite hcnt_cons;
    destruct (hslot_dec (HMalloc i) (HSlot c e)); try discriminate; reflexivity.
Qed.

Lemma mzd_t_malloc_inv p s held hx s' hd ev :
  Inv p s held hx -> mzd_t_malloc p s = (s', hd, ev) ->
  Inv p s' (hdr_ids hd ++ held) (hd :: hx) /\ evs_ok s ev s' /\ hrel s s' /\
  st_mmc s' = st_mmc s /\ st_j s' = st_j s /\ st_mats s' = st_mats s.
Proof.
  intros HI E. unfold mzd_t_malloc in E.
  assert (Htake : forall c, In c (hkeys (st_hb s)) -> hb_used (st_hb s) c <> FULL ->
            (let '(s1, hs) := take_slot s c in (s1, hs, @nil event)) = (s', hd, ev) ->
            Inv p s' (hdr_ids hd ++ held) (hd :: hx) /\ evs_ok s ev s' /\ hrel s s' /\
            st_mmc s' = st_mmc s /\ st_j s' = st_j s /\ st_mats s' = st_mats s).
  { intros c Hin Hne E0. destruct (take_slot s c) as [s1 hs] eqn:Et. injection E0 as <- <- <-.
    destruct (take_slot_inv _ _ _ _ _ _ _ HI Hin Hne Et) as (A & B & C).
    destruct (same_but_hb_frame _ _ B) as [F1 F2]. destruct B as (_ & _ & B3 & B4 & B5).
    rewrite C. cbn [app]. auto 10. }
  assert (Hplain : forall s0, Inv p s0 held hx -> st_next s0 = st_next s -> st_heap s0 = st_heap s -> st_mmc s0 = st_mmc s -> st_j s0 = st_j s ->
            st_mats s0 = st_mats s ->
            (let '(s1, b, ev) := sys_alloc s0 HDR_SIZE in (s1, HMalloc b, ev)) = (s', hd, ev) ->
            Inv p s' (hdr_ids hd ++ held) (hd :: hx) /\ evs_ok s ev s' /\ hrel s s' /\
            st_mmc s' = st_mmc s /\ st_j s' = st_j s /\ st_mats s' = st_mats s).
  { intros s0 HI0 T0 T1 M0 J0 A0 E0. destruct (sys_alloc s0 HDR_SIZE) as [[s1 b] ev1] eqn:E1. injection E0 as <- <- <-.
    destruct (sys_alloc_inv _ _ _ _ _ _ _ _ HI0 E1) as (HI1 & B1 & C1 & D1 & D2 & D3 & D4 & D5 & _).
    split; [apply Inv_hx_malloc; exact HI1|].
    split; [eapply evs_ok_tst; [|exact B1]; unfold tst; congruence|].
    split; [eapply hrel_eq; [| |exact C1]; congruence|].
    repeat split; congruence. }
  destruct (enable_mzd_cache p); [|apply (Hplain s); auto].
  destruct (N.eqb_spec (hb_used (st_hb s) (st_cur s)) FULL) as [Hfull|Hnf];
    [|apply (Htake (st_cur s)); auto; apply (I_cur _ _ _ _ HI)].
  pose proof (Inv_hb_nodup _ _ _ _ HI) as Hnd.
  destruct (hb_walk (st_hb s) (st_cur s) 0) as [[[c|] last] i] eqn:Ew.
  - destruct (hb_walk_some _ _ _ _ _ _ Ew Hnd) as [Hin Hne]. apply (Htake c); auto.
  - destruct (Nat.ltb i (CACHE_MAX p)).
    + (* a new header block *)
      destruct (sys_alloc s HBLOCK_SIZE) as [[s1 b] ev1] eqn:E1.
      destruct (sys_alloc_inv _ _ _ _ _ _ _ _ HI E1) as (HI1 & B1 & C1 & D1 & D2 & D3 & D4 & D5 & _ & Hb).
      assert (Hnotin : ~ In (Some b) (hkeys (st_hb s1))).
      { rewrite D3. intros H. apply (Inv_hb_key_bound _ _ _ _ _ HI) in H. lia. }
      set (v := N.lor 0 (N.shiftl 1 63)).
      assert (Et : take_slot (set_hb s1 (st_hb s1 ++ [(Some b, 0)]) (Some b)) (Some b)
                   = (set_hb s1 (st_hb s1 ++ [(Some b, v)]) (Some b), HSlot (Some b) 63)).
      { unfold take_slot, set_hb. sp. rewrite hb_used_app_zero, hb_used_notin by auto.
        change (N.log2 (N.lxor 0 FULL)) with 63. rewrite hb_set_snoc by auto. reflexivity. }
      rewrite Et in E. injection E as <- <- <-. cbn [hdr_ids app].
      split; [|split; [eapply evs_ok_tst; [|exact B1]; reflexivity|
               split; [eapply hrel_trans; [apply (I_bound _ _ _ _ HI)|exact C1|apply hrel_refl; reflexivity]|
               repeat split; assumption]]].
      apply (Inv_set_hb p s1 (b :: held) hx _ _ held (HSlot (Some b) 63 :: hx) HI1).
      * intros x. rewrite cnt_flat_map_app. change (flat_map hb_ids [(Some b, v)]) with [b].
        rewrite !cnt_cons. cbn [count_occ]. destruct (N.eq_dec b x); lia.
      * destruct (I_head _ _ _ _ HI1) as (u0 & rest & E & Hr). rewrite E.
        exists u0, (rest ++ [(Some b, v)]). split; [reflexivity|]. apply Forall_app. split; auto.
        constructor; [discriminate|constructor].
      * rewrite map_app. apply in_or_app. right. left. reflexivity.
      * apply Forall_app. split; [apply (I_bnd _ _ _ _ HI1)|]. constructor; [|constructor].
        apply bounded_setbit; [apply bounded_0|lia].
      * apply Forall_app. split; [apply (I_nz _ _ _ _ HI1)|]. constructor; [|constructor].
        intros _. apply setbit_nz.
      * intros c' e'. rewrite hb_used_snoc, hcnt_cons by auto.
        pose proof (I_bits _ _ _ _ HI1 c' e') as Hold.
        destruct (oeqb_spec (Some b) c') as [<-|Hcc].
        -- rewrite hb_used_notin, N.bits_0 in Hold by auto. unfold v. rewrite setbit_spec, N.bits_0.
           destruct (N.eqb_spec 63 e') as [<-|Hee].
           ++ destruct (hslot_dec (HSlot (Some b) 63) (HSlot (Some b) 63)); [|congruence]. cbn in *. lia.
           ++ destruct (hslot_dec (HSlot (Some b) 63) (HSlot (Some b) e')); [congruence|]. exact Hold.
        -- destruct (hslot_dec (HSlot (Some b) 63) (HSlot c' e')); [congruence|]. exact Hold.
    + (* plain malloc beyond CACHE_MAX blocks *)
      apply (Hplain (set_hb s (st_hb s) last)); auto.
      apply (Inv_set_hb p s held hx _ _ held hx HI); auto.
      * apply (I_head _ _ _ _ HI).
      * apply hb_walk_none in Ew. destruct Ew as [<-|H]; auto. apply (I_cur _ _ _ _ HI).
      * apply (I_bnd _ _ _ _ HI).
      * apply (I_nz _ _ _ _ HI).
      * apply (I_bits _ _ _ _ HI).
Qed.

(** * mzd_t_free *)
Lemma b2n_le b : (b2n b <= 1)%nat.
Proof. destruct b; cbn; lia. Qed.

Lemma mzd_t_free_inv p s held hx hd s' ev :
  Inv p s (hdr_ids hd ++ held) (hd :: hx) -> mzd_t_free p s hd = (s', ev) ->
  Inv p s' held hx /\ evs_ok s ev s' /\ hrel s s' /\
  st_mmc s' = st_mmc s /\ st_j s' = st_j s /\ st_mats s' = st_mats s.
Proof.
  intros HI E. destruct hd as [c e|i]; cbn [mzd_t_free hdr_ids app] in *.
  2:{ apply Inv_hx_malloc in HI.
      destruct (sys_free_inv _ _ _ _ _ _ _ HI E) as (A & B & C & D1 & D2 & D3 & D4 & D5 & _). auto 10. }
  set (u := hb_used (st_hb s) c) in *. set (u' := clearbit u e) in *.
  pose proof (Inv_hb_nodup _ _ _ _ HI) as Hnd.
  (* the slot is marked used, hence its block is linked *)
  assert (Hbit : N.testbit u e = true).
  { pose proof (I_bits _ _ _ _ HI c e) as H. rewrite hcnt_cons in H. fold u in H.
    destruct (hslot_dec (HSlot c e) (HSlot c e)); [|congruence]. destruct (N.testbit u e); auto. cbn in H. lia. }
  assert (Hin : In c (hkeys (st_hb s))).
  { destruct (in_dec (fun a b => reflect_dec _ _ (oeqb_spec a b)) c (hkeys (st_hb s))) as [|n]; auto.
    unfold u in Hbit. rewrite hb_used_notin, N.bits_0 in Hbit by auto. discriminate. }
  assert (Hbu : bounded u).
  { pose proof (I_bnd _ _ _ _ HI) as H. rewrite Forall_forall in H. apply (H (c, u)). apply hb_used_In; auto. }
  (* the counts once slot (c, e) is released *)
  assert (Hbits : forall c' e', (hcnt (live_hdrs s) (HSlot c' e') + hcnt hx (HSlot c' e'))%nat
                   = b2n (N.testbit (if oeqb c c' then u' else hb_used (st_hb s) c') e')).
  { intros c' e'. pose proof (I_bits _ _ _ _ HI c' e') as Hold. rewrite hcnt_cons in Hold.
    destruct (oeqb_spec c c') as [<-|Hcc].
    - fold u in Hold. unfold u'. rewrite clearbit_spec. destruct (N.eqb_spec e e') as [<-|Hee].
      + destruct (hslot_dec (HSlot c e) (HSlot c e)); [|congruence]. rewrite andb_false_r.
        pose proof (b2n_le (N.testbit u e)). cbn. lia.
      + destruct (hslot_dec (HSlot c e) (HSlot c e')); [congruence|]. rewrite andb_true_r. exact Hold.
    - destruct (hslot_dec (HSlot c e) (HSlot c' e')); [congruence|]. exact Hold. }
  (* case: the block stays linked *)
  assert (Hstay : forall cur', In cur' (hkeys (st_hb s)) -> (c <> None -> u' <> 0) ->
            Inv p (set_hb s (hb_set (st_hb s) c u') cur') held hx).
  { intros cur' Hcur Hnz.
    apply (Inv_set_hb p s held (HSlot c e :: hx) _ _ held hx HI).
    - intros x. rewrite hb_ids_set. reflexivity.
    - destruct (I_head _ _ _ _ HI) as (u0 & rest & E0 & Hr). rewrite E0. cbn [hb_set].
      destruct (oeqb_spec None c) as [<-|Hc]; eexists _, _; (split; [reflexivity|]); auto.
      apply Forall_hb_set; auto.
    - rewrite hkeys_set. auto.
    - apply Forall_hb_set; [apply (I_bnd _ _ _ _ HI)|]. apply bounded_clearbit; auto.
    - apply Forall_hb_set; [apply (I_nz _ _ _ _ HI)|]. exact Hnz.
    - intros c' e'. rewrite Hbits. destruct (oeqb_spec c c') as [<-|Hcc].
      + rewrite hb_used_set_same by auto. reflexivity.
      + rewrite hb_used_set_other by auto. reflexivity. }
  assert (Hframe : forall hb' cur', evs_ok s [] (set_hb s hb' cur') /\ hrel s (set_hb s hb' cur')).
  { intros. apply same_but_hb_frame. repeat split. }
  destruct (N.eqb_spec u' 0) as [Hz|Hnz].
  2:{ injection E as <- <-. destruct (Hframe (hb_set (st_hb s) c u') (st_cur s)) as [F1 F2].
      split; [apply Hstay; auto; apply (I_cur _ _ _ _ HI)|]. auto 10. }
  destruct c as [i|].
  2:{ injection E as <- <-. destruct (Hframe (hb_set (st_hb s) None u') None) as [F1 F2].
      split; [apply Hstay; [|congruence]|auto 10].
      destruct (I_head _ _ _ _ HI) as (u0 & rest & E0 & _). rewrite E0. left. reflexivity. }
  (* the emptied non-first block is unlinked and returned to the system *)
  rewrite hb_remove_set in E.
  set (cur' := if oeqb (Some i) (st_cur s) then hb_prev (hb_set (st_hb s) (Some i) u') (Some i) None else st_cur s) in *.
  assert (HIa : Inv p (set_hb s (hb_remove (st_hb s) (Some i)) cur') (i :: held) hx).
  { destruct (I_head _ _ _ _ HI) as (u0 & rest & E0 & Hr).
    assert (Hhead : exists rest', hb_remove (st_hb s) (Some i) = (None, u0) :: rest' /\
                                  Forall (fun b => fst b <> None) rest').
    { rewrite E0. cbn [hb_remove oeqb]. eexists. split; [reflexivity|]. apply Forall_hb_remove; auto. }
    apply (Inv_set_hb p s held (HSlot (Some i) e :: hx) _ _ (i :: held) hx HI).
    - intros x. pose proof (hb_ids_remove _ _ x Hin). rewrite cnt_cons. lia.
    - destruct Hhead as (rest' & H1 & H2). eauto.
    - unfold cur'. destruct (oeqb_spec (Some i) (st_cur s)) as [Hc|Hc].
      + pose proof (hb_prev_In (hb_set (st_hb s) (Some i) u') (Some i) None) as H.
        rewrite hb_remove_set in H. destruct H as [<-|H]; auto.
        destruct Hhead as (rest' & H1 & _). rewrite H1. left. reflexivity.
      + apply hkeys_remove_other; auto. apply (I_cur _ _ _ _ HI).
    - apply Forall_hb_remove. apply (I_bnd _ _ _ _ HI).
    - apply Forall_hb_remove. apply (I_nz _ _ _ _ HI).
    - intros c' e'. rewrite Hbits. destruct (oeqb_spec (Some i) c') as [<-|Hcc].
      + rewrite hb_used_notin by (apply hkeys_remove_notin; auto). rewrite Hz. reflexivity.
      + rewrite hb_used_remove_other by auto. reflexivity. }
  destruct (sys_free_inv _ _ _ _ _ _ _ HIa E) as (A & B & C & D1 & D2 & D3 & D4 & D5 & _).
  split; [exact A|]. split; [eapply evs_ok_tst; [|exact B]; reflexivity|].
  split; [eapply hrel_eq; [| |exact C]; reflexivity|]. auto.
Qed.

(** * Matrices: memset / user writes, creation and death of a handle *)
Definition mat_ok (hp : heap) (m : mat) : Prop :=
  m_win m = false ->
  match m_data m with
  | Some (i, off) => off = 0 /\ m_rows m * m_rowstride m * 8 <> 0 /\
                     (m_live m = true -> exists b, heap_find hp i = Some b /\
                                          b_size b = m_rows m * m_rowstride m * 8)
  | None => m_rows m * m_rowstride m * 8 = 0
  end.

Lemma find_fill_size h d v k b :
  heap_find h k = Some b -> exists b', heap_find (heap_fill h d v) k = Some b' /\ b_size b' = b_size b.
Proof.
  intros H. destruct (N.eq_dec k d) as [->|Hne].
  - rewrite (find_fill_same _ _ v _ H). eexists. split; reflexivity.
  - rewrite find_fill_other by auto. eauto.
Qed.

Lemma Inv_fill p s held hx d v :
  Inv p s held hx -> Inv p (set_heap s (heap_fill (st_heap s) d v)) held hx.
Proof.
  intros HI. destruct HI as [Iown Inodup Ibound Imlen Ij Islot Ihead Icur Ibnd Inz Ibits Imat].
  unfold set_heap. constructor; sp; auto; try (rewrite keys_fill; auto).
  - intros sl Hin Hsz. destruct (Islot sl Hin Hsz) as (i & b & H1 & H2 & H3).
    destruct (find_fill_size _ d v _ _ H2) as (b' & H4 & H5). exists i, b'. split; [|split]; congruence.
  - intros m Hin Hw. specialize (Imat m Hin Hw). destruct (m_data m) as [[i off]|]; auto.
    destruct Imat as (H1 & H2 & H3). split; [|split]; auto. intros Hl. destruct (H3 Hl) as (b & H4 & H5).
    destruct (find_fill_size _ d v _ _ H4) as (b' & H6 & H7). exists b'. split; congruence.
Qed.

Lemma Inv_push p s held hx m :
  Inv p s (mat_ids m ++ held) (live_hdr m ++ hx) -> mat_ok (st_heap s) m ->
  Inv p (push_mat s m) held hx.
Proof.
  intros HI Hm. destruct HI as [Iown Inodup Ibound Imlen Ij Islot Ihead Icur Ibnd Inz Ibits Imat].
  unfold push_mat, set_mats. constructor; sp; auto.
  - intros x. rewrite Iown, !owned_cnt. sp. rewrite cnt_flat_map_app. cbn [flat_map].
    rewrite app_nil_r, count_occ_app. lia.
  - intros c e. rewrite <- Ibits. unfold live_hdrs. sp.
    rewrite (cnt_flat_map_app _ _ hslot_dec live_hdr). cbn [flat_map]. rewrite app_nil_r, count_occ_app. lia.
  - intros m' Hin. apply in_app_or in Hin. destruct Hin as [Hin|[<-|[]]]; auto. apply Imat; auto.
Qed.

Lemma mat_ids_kill A : mat_ids (kill A) = [].
Proof. reflexivity. Qed.

Lemma Inv_kill p s held hx h A :
  Inv p s held hx -> nth_error (st_mats s) h = Some A ->
  Inv p (set_mats s (upd (st_mats s) h (kill A))) (mat_ids A ++ held) (live_hdr A ++ hx).
Proof.
  intros HI Hn. destruct HI as [Iown Inodup Ibound Imlen Ij Islot Ihead Icur Ibnd Inz Ibits Imat].
  unfold set_mats. constructor; sp; auto.
  - intros x. rewrite Iown, !owned_cnt. sp.
    pose proof (cnt_flat_map_upd _ _ N.eq_dec mat_ids _ _ _ (kill A) x Hn) as H. rewrite mat_ids_kill in H.
    cbn [count_occ] in H. rewrite count_occ_app. lia.
  - intros c e. rewrite <- Ibits. unfold live_hdrs. sp.
    pose proof (cnt_flat_map_upd _ _ hslot_dec live_hdr _ _ _ (kill A) (HSlot c e) Hn) as H.
    change (live_hdr (kill A)) with (@nil hslot) in H. cbn [count_occ] in H. rewrite count_occ_app. lia.
  - intros m Hin Hw. apply upd_In in Hin. destruct Hin as [->|Hin]; [|apply Imat; auto].
    assert (HA : In A (st_mats s)) by (eapply nth_error_In; eauto).
    specialize (Imat A HA Hw). cbn [kill m_data m_rows m_rowstride m_live].
    destruct (m_data A) as [[i off]|]; auto. destruct Imat as (H1 & H2 & _). split; [|split]; auto. discriminate.
Qed.

Lemma evs_ok_ret s e :
  match e with SysAlloc _ _ | SysFree _ => False | _ => True end -> evs_ok s [e] s.
Proof. unfold evs_ok, tst. destruct e; cbn; tauto. Qed.

Lemma evs_ok_same s ev s1 s2 : evs_ok s ev s1 -> tst s1 = tst s2 -> evs_ok s ev s2.
Proof. unfold evs_ok. congruence. Qed.

Lemma rowstride_of_nz c : c <> 0 -> rowstride_of c <> 0.
Proof.
  intros H. unfold rowstride_of, width_of.
  assert (1 <= (c + 63) / 64) by (apply N.div_le_lower_bound; lia).
  destruct (N.even ((c + 63) / 64)); lia.
Qed.

Lemma mmc_malloc_off p s sz : enable_mmc p = false -> mmc_malloc p s sz = sys_alloc s sz.
Proof. unfold mmc_malloc. intros ->. reflexivity. Qed.

Lemma mmc_free_off p s d sz : enable_mmc p = false -> mmc_free p s d sz = sys_free s d.
Proof. unfold mmc_free. intros ->. reflexivity. Qed.

Lemma sys_free_mmc s d : st_mmc (fst (sys_free s d)) = st_mmc s.
Proof. destruct d; reflexivity. Qed.

(** ** mzd_init *)
Lemma mzd_init_inv p s r c s' ev :
  Inv p s [] [] -> mzd_init p s r c = (s', ev) ->
  Inv p s' [] [] /\ evs_ok s ev s' /\ (enable_mmc p = false -> st_mmc s' = st_mmc s) /\
  exists m ev0,
    st_mats s' = st_mats s ++ [m] /\ m_live m = true /\ m_win m = false /\ m_root m = length (st_mats s) /\
    m_rows m = r /\ m_cols m = c /\ m_rowstride m = rowstride_of c /\
    ev = ev0 ++ [RetInit (length (st_mats s)) r c (rowstride_of c) (option_map fst (m_data m)) (m_hdr m) true] /\
    match m_data m with
    | Some (d, off) => r <> 0 /\ c <> 0 /\ off = 0 /\
                       heap_find (st_heap s') d = Some (mkBlk (r * rowstride_of c * 8) 0)
    | None => r = 0 \/ c = 0
    end.
Proof.
  intros HI E. unfold mzd_init in E.
  destruct (mzd_t_malloc p s) as [[s1 hd] ev1] eqn:E1.
  destruct (mzd_t_malloc_inv _ _ _ _ _ _ _ HI E1) as (HI1 & B1 & C1 & M1 & J1 & A1).
  destruct (N.eqb_spec r 0) as [Hr|Hr]; [|destruct (N.eqb_spec c 0) as [Hc|Hc]]; cbn [negb andb] in E.
  3:{ (* a data block *)
    set (rs := rowstride_of c) in *. set (sz := r * rs * 8) in *.
    assert (Hsz : sz <> 0) by (pose proof (rowstride_of_nz c Hc); unfold sz, rs; lia).
    destruct (mmc_malloc p s1 sz) as [[s2 d] ev2] eqn:E2.
    destruct (mmc_malloc_inv _ _ _ _ _ _ _ _ HI1 Hsz E2) as (HI2 & B2 & C2 & D1 & D2 & A2 & (b & Hb1 & Hb2)).
    set (s3 := set_heap s2 (heap_fill (st_heap s2) d 0)) in *.
    assert (HI3 : Inv p s3 (d :: hdr_ids hd ++ []) [hd]) by (apply Inv_fill; exact HI2).
    assert (Hf : heap_find (st_heap s3) d = Some (mkBlk sz 0)).
    { unfold s3, set_heap. sp. rewrite (find_fill_same _ _ 0 _ Hb1). congruence. }
    assert (Hz : (fill_of s3 (Some d) =? 0) = true).
    { unfold fill_of. rewrite Hf. reflexivity. }
    rewrite Hz in E. injection E as <- <-.
    set (m := mkMat r c rs (Some (d, 0)) hd false true (length (st_mats s))).
    split; [|split; [|split]].
    - apply Inv_push; [exact HI3|]. intros _. cbn. split; [reflexivity|]. split; [exact Hsz|].
      intros _. exists (mkBlk sz 0). split; [exact Hf|reflexivity].
    - eapply evs_ok_app; [exact B1|]. apply (evs_ok_app _ _ s3); [eapply evs_ok_same; [exact B2|]|].
      + unfold tst, s3, set_heap. sp. rewrite keys_fill. reflexivity.
      + eapply evs_ok_same; [apply evs_ok_ret; exact I|]. reflexivity.
    - intros Hoff. unfold push_mat, set_mats, s3, set_heap. sp.
      rewrite mmc_malloc_off in E2 by auto. unfold sys_alloc in E2. injection E2 as <- _ _. sp. exact M1.
    - exists m, (ev1 ++ ev2). unfold push_mat, set_mats. sp. unfold s3, set_heap at 1. sp. rewrite A2, A1.
      repeat (split; [reflexivity|]). split; [rewrite <- app_assoc; reflexivity|].
      cbn. repeat (split; [assumption || reflexivity|]). exact Hf. }
  all: injection E as <- <-;
    set (m := mkMat r c (rowstride_of c) None hd false true (length (st_mats s)));
    (split; [|split; [|split]]);
    [ apply Inv_push; [exact HI1|]; intros _; cbn; subst; cbn; try reflexivity; lia
    | eapply evs_ok_app; [exact B1|]; eapply evs_ok_same; [apply evs_ok_ret; exact I|]; reflexivity
    | intros _; exact M1
    | exists m, ev1; unfold push_mat, set_mats; sp; rewrite A1;
      repeat (split; [reflexivity|]); cbn; auto ].
Qed.

Lemma hrel_eq_r s s1 s' :
  hrel s s1 -> st_next s' = st_next s1 -> st_heap s' = st_heap s1 -> hrel s s'.
Proof. intros [A B C] H1 H2. split; rewrite ?H1, ?H2; auto. Qed.

(** ** mzd_init_window *)
Lemma mzd_init_window_inv p s h r0 c0 r1 c1 s' ev :
  Inv p s [] [] -> mzd_init_window p s h r0 c0 r1 c1 = (s', ev) ->
  Inv p s' [] [] /\ evs_ok s ev s' /\ hrel s s' /\ st_mmc s' = st_mmc s /\
  exists hd, let M := nth h (st_mats s) dummy_mat in
    st_mats s' = st_mats s ++
      [mkMat (N.min (r1 - r0) (m_rows M - r0)) (c1 - c0) (m_rowstride M)
             (match m_data M with Some (b, off) => Some (b, off + r0 * m_rowstride M + c0 / 64) | None => None end)
             hd true true (m_root M)].
Proof.
  intros HI E. unfold mzd_init_window in E.
  destruct (mzd_t_malloc p s) as [[s1 hd] ev1] eqn:E1.
  destruct (mzd_t_malloc_inv _ _ _ _ _ _ _ HI E1) as (HI1 & B1 & C1 & M1 & J1 & A1).
  injection E as <- <-. split; [|split; [|split; [|split]]].
  - apply Inv_push; [exact HI1|]. intros Hw. discriminate Hw.
  - eapply evs_ok_app; [exact B1|]. eapply evs_ok_same; [apply evs_ok_ret; exact I|]. reflexivity.
  - eapply hrel_eq_r; [exact C1| |]; reflexivity.
  - exact M1.
  - exists hd. unfold push_mat, set_mats. sp. rewrite A1. reflexivity.
Qed.

(** ** mzd_free *)
Lemma mzd_free_inv p s h A s' ev :
  Inv p s [] [] -> nth_error (st_mats s) h = Some A -> m_live A = true ->
  mzd_free p s h = (s', ev) ->
  Inv p s' [] [] /\ evs_ok s ev s' /\ hrel s s' /\ st_mats s' = upd (st_mats s) h (kill A) /\
  (enable_mmc p = false -> st_mmc s' = st_mmc s).
Proof.
  intros HI Hn Hl E. unfold mzd_free in E. rewrite (nth_error_nth _ _ dummy_mat Hn) in E.
  set (s0 := set_mats s (upd (st_mats s) h (kill A))) in *.
  pose proof (Inv_kill _ _ _ _ _ _ HI Hn) as HI0. fold s0 in HI0.
  unfold mat_ids, live_hdr in HI0. rewrite Hl in HI0.
  assert (HA : In A (st_mats s)) by (eapply nth_error_In; eauto).
  assert (Hstep1 : exists s1 ev1,
            (if m_win A then (s0, []) else mmc_free p s0 (option_map fst (m_data A)) (m_rows A * m_rowstride A * 8))
            = (s1, ev1) /\
            Inv p s1 (hdr_ids (m_hdr A) ++ []) (m_hdr A :: []) /\ evs_ok s0 ev1 s1 /\ hrel s0 s1 /\
            st_mats s1 = st_mats s0 /\ (enable_mmc p = false -> st_mmc s1 = st_mmc s0)).
  { unfold data_ids in HI0. destruct (m_win A) eqn:Hw.
    - exists s0, []. split; [reflexivity|]. split; [exact HI0|].
      split; [apply evs_ok_nil; reflexivity|]. split; [apply hrel_refl; reflexivity|]. auto.
    - destruct (mmc_free p s0 (option_map fst (m_data A)) (m_rows A * m_rowstride A * 8)) as [s1 ev1] eqn:Ef.
      exists s1, ev1. split; [reflexivity|].
      assert (Hd : match option_map fst (m_data A) with
                   | Some k => m_rows A * m_rowstride A * 8 <> 0 /\
                               exists b, heap_find (st_heap s0) k = Some b /\ b_size b = m_rows A * m_rowstride A * 8
                   | None => m_rows A * m_rowstride A * 8 = 0
                   end).
      { pose proof (I_mat _ _ _ _ HI A HA Hw) as H. destruct (m_data A) as [[k off]|]; cbn; auto.
        destruct H as (_ & H2 & H3). split; auto. }
      rewrite <- app_assoc in HI0.
      destruct (mmc_free_inv _ _ _ _ _ _ _ _ HI0 Hd Ef) as (A1 & B1 & C1 & D1 & D2 & D3).
      split; [exact A1|]. split; [exact B1|]. split; [exact C1|]. split; [exact D3|].
      intros Hoff. rewrite mmc_free_off in Ef by auto.
      pose proof (sys_free_mmc s0 (option_map fst (m_data A))) as H. rewrite Ef in H. exact H. }
  destruct Hstep1 as (s1 & ev1 & E1 & HI1 & B1 & C1 & A1 & M1). rewrite E1 in E.
  destruct (mzd_t_free p s1 (m_hdr A)) as [s2 ev2] eqn:E2. injection E as <- <-.
  destruct (mzd_t_free_inv _ _ _ _ _ _ _ HI1 E2) as (HI2 & B2 & C2 & M2 & J2 & A2).
  split; [exact HI2|]. split; [|split; [|split]].
  - apply (evs_ok_tst s s0); [reflexivity|]. eapply evs_ok_app; [exact B1|].
    eapply evs_ok_app; [exact B2|]. apply evs_ok_ret. exact I.
  - apply (hrel_eq s s0); [reflexivity|reflexivity|].
    eapply hrel_trans; [|exact C1|exact C2]. apply (I_bound _ _ _ _ HI0).
  - rewrite A2, A1. reflexivity.
  - intros Hoff. rewrite M2, (M1 Hoff). reflexivity.
Qed.

(** ** user writes and m4ri_fini *)
Lemma do_write_inv p s h v s' ev :
  Inv p s [] [] -> do_write s h v = (s', ev) ->
  Inv p s' [] [] /\ evs_ok s ev s' /\ st_mats s' = st_mats s /\ st_mmc s' = st_mmc s.
Proof.
  intros HI E. unfold do_write in E. destruct (m_data (nth h (st_mats s) dummy_mat)) as [[b off]|]; injection E as <- <-.
  - split; [apply Inv_fill; exact HI|]. split; [|split; reflexivity].
    eapply evs_ok_same; [apply evs_ok_ret; exact I|]. unfold tst, set_heap. sp. rewrite keys_fill. reflexivity.
  - split; [exact HI|]. split; [apply evs_ok_ret; exact I|]. split; reflexivity.
Qed.

Lemma fini_inv p s s' ev :
  Inv p s [] [] -> (let '(s1, ev) := mmc_cleanup p s in (s1, ev ++ [RetFini])) = (s', ev) ->
  Inv p s' [] [] /\ evs_ok s ev s' /\ hrel s s' /\ st_mats s' = st_mats s /\ st_hb s' = st_hb s /\
  (enable_mmc p = false -> st_mmc s' = st_mmc s) /\
  (enable_mmc p = true -> forall x, cnt (flat_map slot_ids (st_mmc s')) x = 0%nat).
Proof.
  intros HI E. destruct (mmc_cleanup p s) as [s1 ev1] eqn:E1. injection E as <- <-.
  destruct (mmc_cleanup_inv _ _ _ _ _ _ HI E1) as (A & B & C & D1 & D2 & D3 & D4).
  split; [exact A|]. split; [eapply evs_ok_app; [exact B|apply evs_ok_ret; exact I]|].
  split; [exact C|]. split; [exact D3|]. split; [exact D1|]. split; [|exact D4].
  intros Hoff. unfold mmc_cleanup in E1. rewrite Hoff in E1. injection E1 as <- _. reflexivity.
Qed.

(** * Histories *)
Lemma run_snoc p ops o :
  run p (ops ++ [o]) = let '(s, tr) := run p ops in let '(s', ev) := step p s o in (s', tr ++ ev).
Proof. unfold run, run_from. rewrite fold_left_app. reflexivity. Qed.

Lemma track_snoc ops o : track (ops ++ [o]) = op_track (track ops) o.
Proof. unfold track. rewrite fold_left_app. reflexivity. Qed.

Lemma wf_from_snoc hs ops o :
  wf_from hs (ops ++ [o]) = wf_from hs ops && op_ok (fold_left op_track ops hs) o.
Proof.
  revert hs; induction ops as [|a t IH]; intros hs; cbn.
  - rewrite andb_true_r. reflexivity.
  - rewrite IH, andb_assoc. reflexivity.
Qed.

Lemma wf_ops_snoc ops o : wf_ops (ops ++ [o]) = wf_ops ops && op_ok (track ops) o.
Proof. apply wf_from_snoc. Qed.

Definition mat_info (m : mat) : bool * nat := (m_live m, m_root m).

(* the part of a matrix record that mzd_free leaves alone *)
Definition root_ok (ms : list mat) (h : nat) (m : mat) : Prop :=
  (m_win m = false -> m_root m = h) /\
  exists r, nth_error ms (m_root m) = Some r /\ m_win r = false /\
            option_map fst (m_data m) = option_map fst (m_data r).

Record HInv (p : params) (ops : list op) (s : state) (tr : list event) : Prop := mkHInv {
  H_inv : Inv p s [] [];
  H_tr : tcheck (0, []) tr = Some (tst s);
  H_track : map mat_info (st_mats s) = track ops;
  H_mmc : enable_mmc p = false -> forall sl, In sl (st_mmc s) -> s_size sl = 0;
  H_root : forall h m, nth_error (st_mats s) h = Some m -> root_ok (st_mats s) h m
}.

Lemma Inv_init p : params_ok p -> Inv p (init_state p) [] [].
Proof.
  intros Hp. unfold init_state. constructor; sp.
  - intros x. rewrite owned_cnt. sp. cbn [flat_map count_occ app].
    rewrite cnt_flat_map_zero; [reflexivity|]. intros a Ha. apply repeat_spec in Ha. subst a. reflexivity.
  - intros x. cbn. lia.
  - intros x [].
  - apply repeat_length.
  - exact Hp.
  - intros sl Hin Hsz. apply repeat_spec in Hin. subst sl. cbn in Hsz. congruence.
  - exists 0, []. split; [reflexivity|constructor].
  - left. reflexivity.
  - constructor; [apply bounded_0|constructor].
  - constructor; [cbn; congruence|constructor].
  - intros c e. unfold live_hdrs. sp. cbn [flat_map count_occ hb_used].
    destruct (oeqb None c); rewrite N.bits_0; reflexivity.
  - intros m [].
Qed.

Lemma HInv_init p : params_ok p -> HInv p [] (init_state p) [].
Proof.
  intros Hp. constructor.
  - apply Inv_init; auto.
  - reflexivity.
  - reflexivity.
  - intros _ sl Hin. apply repeat_spec in Hin. subst sl. reflexivity.
  - intros [|h] m H; discriminate H.
Qed.

Lemma h_live_nth ops s h :
  map mat_info (st_mats s) = track ops -> h_live (track ops) h = true ->
  exists A, nth_error (st_mats s) h = Some A /\ m_live A = true /\ h_root (track ops) h = m_root A /\
            nth h (st_mats s) dummy_mat = A.
Proof.
  intros Ht Hl. unfold h_live, h_root in *. rewrite <- Ht in *. rewrite nth_error_map in *.
  destruct (nth_error (st_mats s) h) as [A|] eqn:E; cbn in *; [|discriminate].
  exists A. split; auto. destruct (m_live A); [|discriminate]. repeat split; auto.
  apply nth_error_nth; auto.
Qed.

Lemma map_upd A B (f : A -> B) l i v : map f (upd l i v) = upd (map f l) i (f v).
Proof. revert i; induction l as [|a l IH]; intros [|i]; cbn; auto. rewrite IH. reflexivity. Qed.

Lemma upd_kill_nth l h A k :
  nth_error l h = Some A ->
  nth_error (upd l h (kill A)) k = option_map (fun m => if Nat.eqb k h then kill m else m) (nth_error l k).
Proof.
  intros H. destruct (Nat.eq_dec k h) as [->|Hne].
  - rewrite upd_nth_same by (apply nth_error_Some; congruence). rewrite H. cbn. rewrite Nat.eqb_refl. reflexivity.
  - rewrite upd_nth_other by auto. destruct (nth_error l k); cbn; auto.
    apply Nat.eqb_neq in Hne. rewrite Hne. reflexivity.
Qed.

Lemma root_ok_kill l h A :
  nth_error l h = Some A -> (forall k m, nth_error l k = Some m -> root_ok l k m) ->
  forall k m, nth_error (upd l h (kill A)) k = Some m -> root_ok (upd l h (kill A)) k m.
Proof.
  intros Hn Hall k m Hk. rewrite (upd_kill_nth _ _ _ _ Hn) in Hk.
  destruct (nth_error l k) as [m0|] eqn:E0; [|discriminate]. cbn in Hk.
  destruct (Hall k m0 E0) as (R1 & r & R2 & R3 & R4).
  assert (Hm : m_win m = m_win m0 /\ m_root m = m_root m0 /\ m_data m = m_data m0).
  { destruct (Nat.eqb k h); injection Hk as <-; auto. }
  destruct Hm as (W & R & D). unfold root_ok. rewrite W, R, D. split; auto.
  rewrite (upd_kill_nth _ _ _ _ Hn), R2. cbn.
  eexists. split; [reflexivity|]. destruct (Nat.eqb (m_root m0) h); auto.
Qed.

Lemma root_ok_snoc l a :
  (forall k m, nth_error l k = Some m -> root_ok l k m) -> root_ok (l ++ [a]) (length l) a ->
  forall k m, nth_error (l ++ [a]) k = Some m -> root_ok (l ++ [a]) k m.
Proof.
  intros Hall Ha k m Hk. apply nth_error_snoc in Hk. destruct Hk as [Hk|[-> ->]]; auto.
  destruct (Hall k m Hk) as (R1 & r & R2 & R3 & R4). split; auto.
  exists r. split; auto. rewrite nth_error_app1; auto. apply nth_error_Some. congruence.
Qed.

Lemma nth_error_snoc_last A (l : list A) a : nth_error (l ++ [a]) (length l) = Some a.
Proof. rewrite nth_error_app2, Nat.sub_diag by lia. reflexivity. Qed.

Lemma step_HInv p ops s tr o s' ev :
  HInv p ops s tr -> op_ok (track ops) o = true -> step p s o = (s', ev) ->
  HInv p (ops ++ [o]) s' (tr ++ ev).
Proof.
  intros [HI Htr Htk Hmmc Hroot] Hok E.
  assert (Hlen : length (track ops) = length (st_mats s)) by (rewrite <- Htk; apply map_length).
  assert (Hgoal : Inv p s' [] [] /\ evs_ok s ev s' /\ (enable_mmc p = false -> st_mmc s' = st_mmc s) /\
                  map mat_info (st_mats s') = op_track (track ops) o /\
                  (forall h m, nth_error (st_mats s') h = Some m -> root_ok (st_mats s') h m)).
  { destruct o as [r c|h r0 c0 r1 c1|h|h v|]; cbn [step op_ok op_track] in *.
    - destruct (mzd_init_inv _ _ _ _ _ _ HI E) as (A & B & C & m & ev0 & D1 & D2 & D3 & D4 & _).
      split; [exact A|]. split; [exact B|]. split; [exact C|]. rewrite D1. split.
      + rewrite map_app, Htk. cbn. unfold mat_info. rewrite D2, D4, Hlen. reflexivity.
      + apply root_ok_snoc; auto. split; auto. rewrite D4. exists m. split; [apply nth_error_snoc_last|]. auto.
    - destruct (mzd_init_window_inv _ _ _ _ _ _ _ _ _ HI E) as (A & B & _ & C & hd & D).
      destruct (h_live_nth _ _ _ Htk Hok) as (M & Hn & _ & Hr & HM). cbn zeta in D. rewrite HM in D.
      split; [exact A|]. split; [exact B|]. split; [auto|]. rewrite D. split.
      + rewrite map_app, Htk. cbn. unfold mat_info. cbn. rewrite Hr. reflexivity.
      + apply root_ok_snoc; auto. split; [discriminate|]. cbn [m_root m_win m_data].
        destruct (Hroot _ _ Hn) as (_ & r & R2 & R3 & R4). exists r. split; [|split; auto].
        * rewrite nth_error_app1; auto. apply nth_error_Some. congruence.
        * rewrite <- R4. destruct (m_data M) as [[b off]|]; reflexivity.
    - destruct (h_live_nth _ _ _ Htk Hok) as (M & Hn & Hl & Hr & HM).
      destruct (mzd_free_inv _ _ _ _ _ _ HI Hn Hl E) as (A & B & _ & C & D).
      split; [exact A|]. split; [exact B|]. split; [exact D|]. rewrite C. split.
      + rewrite map_upd, Htk, Hr. reflexivity.
      + apply root_ok_kill; auto.
    - destruct (do_write_inv _ _ _ _ _ _ HI E) as (A & B & C & D).
      split; [exact A|]. split; [exact B|]. split; [auto|]. rewrite C. auto.
    - destruct (fini_inv _ _ _ _ HI E) as (A & B & _ & C & _ & D & _).
      split; [exact A|]. split; [exact B|]. split; [exact D|]. rewrite C. auto. }
  destruct Hgoal as (A & B & C & D & F). constructor; auto.
  - rewrite tcheck_app, Htr. exact B.
  - rewrite track_snoc. exact D.
  - intros Hoff. rewrite (C Hoff). auto.
Qed.

Theorem run_HInv p ops :
  params_ok p -> wf_ops ops = true -> HInv p ops (fst (run p ops)) (snd (run p ops)).
Proof.
  intros Hp. induction ops as [|o ops IH] using rev_ind; intros Hwf.
  - apply HInv_init; auto.
  - rewrite wf_ops_snoc in Hwf. apply andb_prop in Hwf. destruct Hwf as [Hwf Hok].
    rewrite run_snoc. specialize (IH Hwf). destruct (run p ops) as [s tr]. cbn [fst snd] in IH.
    destruct (step p s o) as [s' ev] eqn:E. cbn [fst snd]. eapply step_HInv; eauto.
Qed.

(** * The C14 theorems *)
Definition data_id (m : mat) : option N := option_map fst (m_data m).

(** ** 1. the invariant holds after every well-formed history; 5. the trace is that of a sane client
       of the system allocator *)
Theorem alloc_inv p ops : params_ok p -> wf_ops ops = true -> Inv p (fst (run p ops)) [] [].
Proof. intros Hp Hwf. apply (H_inv _ _ _ _ (run_HInv p ops Hp Hwf)). Qed.

Theorem trace_ok p ops :
  params_ok p -> wf_ops ops = true ->
  tcheck (0, []) (snd (run p ops)) = Some (st_next (fst (run p ops)), keys (st_heap (fst (run p ops)))).
Proof. intros Hp Hwf. apply (H_tr _ _ _ _ (run_HInv p ops Hp Hwf)). Qed.

(* what acceptance by [tcheck] means for a single free *)
Lemma tcheck_free st a i b st' :
  tcheck st (a ++ SysFree i :: b) = Some st' -> exists st1, tcheck st a = Some st1 /\ In i (snd st1).
Proof.
  rewrite tcheck_app. destruct (tcheck st a) as [[nx live]|]; [|discriminate]. cbn [tcheck tstep].
  destruct (existsb (N.eqb i) live) eqn:E; [|discriminate]. intros _. exists (nx, live). split; auto.
  apply existsb_exists in E. destruct E as (x & H1 & H2). apply N.eqb_eq in H2. subst. exact H1.
Qed.

Lemma tcheck_alloc st a i sz b st' :
  tcheck st (a ++ SysAlloc i sz :: b) = Some st' -> exists st1, tcheck st a = Some st1 /\ fst st1 <= i.
Proof.
  rewrite tcheck_app. destruct (tcheck st a) as [[nx live]|]; [|discriminate]. cbn [tcheck tstep].
  destruct (N.leb_spec nx i); [|discriminate]. intros _. exists (nx, live). split; auto.
Qed.

Theorem no_double_free p ops a i b :
  params_ok p -> wf_ops ops = true -> snd (run p ops) = a ++ SysFree i :: b ->
  exists nx live, tcheck (0, []) a = Some (nx, live) /\ In i live.
Proof.
  intros Hp Hwf E. pose proof (trace_ok p ops Hp Hwf) as H. rewrite E in H.
  destruct (tcheck_free _ _ _ _ _ H) as ([nx live] & H1 & H2). eauto.
Qed.

(** ** 2. a fresh matrix is all zero, whatever the cache handed back *)
Theorem fresh_zero p ops r c :
  params_ok p -> wf_ops ops = true ->
  let s := fst (run p ops) in
  let s' := fst (run p (ops ++ [Init r c])) in
  exists m ev0,
    st_mats s' = st_mats s ++ [m] /\ m_live m = true /\ m_win m = false /\ m_rows m = r /\ m_cols m = c /\
    snd (run p (ops ++ [Init r c]))
      = ev0 ++ [RetInit (length (st_mats s)) r c (rowstride_of c) (data_id m) (m_hdr m) true] /\
    fill_of s' (data_id m) = 0 /\
    match m_data m with
    | Some (d, off) => r <> 0 /\ c <> 0 /\ off = 0 /\
                       heap_find (st_heap s') d = Some (mkBlk (r * rowstride_of c * 8) 0)
    | None => r = 0 \/ c = 0
    end.
Proof.
  intros Hp Hwf. pose proof (H_inv _ _ _ _ (run_HInv p ops Hp Hwf)) as HI.
  cbn zeta. rewrite run_snoc. destruct (run p ops) as [s tr]. cbn [fst snd] in *. cbn [step].
  destruct (mzd_init p s r c) as [s' ev] eqn:E. cbn [fst snd].
  destruct (mzd_init_inv _ _ _ _ _ _ HI E) as (_ & _ & _ & m & ev0 & D1 & D2 & D3 & D4 & D5 & D6 & D7 & D8 & D9).
  exists m, (tr ++ ev0). repeat (split; [assumption|]). split; [rewrite D8, app_assoc; reflexivity|].
  split; [|exact D9]. unfold fill_of, data_id. destruct (m_data m) as [[d off]|]; [|reflexivity].
  destruct D9 as (_ & _ & _ & Hf). cbn. rewrite Hf. reflexivity.
Qed.

(** ** 3. live matrices are disjoint and sit in neither cache *)
Section Two.
  Variables (A B : Type) (dec : forall x y : B, {x = y} + {x <> y}).
  Lemma cnt_flat_map_two (f : A -> list B) l i j a b x :
    i <> j -> nth_error l i = Some a -> nth_error l j = Some b ->
    (count_occ dec (f a) x + count_occ dec (f b) x <= count_occ dec (flat_map f l) x)%nat.
  Proof.
    revert i j. induction l as [|y l IH]; intros [|i] [|j] Hne Hi Hj; cbn in *; try discriminate; try congruence;
      rewrite count_occ_app.
    - injection Hi as ->. apply nth_error_In in Hj.
      pose proof (cnt_flat_map_in _ _ dec f _ _ x Hj). lia.
    - injection Hj as ->. apply nth_error_In in Hi.
      pose proof (cnt_flat_map_in _ _ dec f _ _ x Hi). lia.
    - assert (i <> j) by congruence. specialize (IH i j H Hi Hj). lia.
  Qed.
End Two.

Lemma mat_ids_data m k : m_live m = true -> m_win m = false -> data_id m = Some k -> (1 <= cnt (mat_ids m) k)%nat.
Proof.
  intros Hl Hw Hd. unfold mat_ids, data_ids. unfold data_id in Hd. rewrite Hl, Hw, Hd, count_occ_app.
  pose proof (cnt_self_pos k []). cbn [olist]. lia.
Qed.

Lemma mat_ids_hdr m k : m_live m = true -> m_hdr m = HMalloc k -> (1 <= cnt (mat_ids m) k)%nat.
Proof.
  intros Hl Hh. unfold mat_ids. rewrite Hl, Hh, count_occ_app. pose proof (cnt_self_pos k []). cbn [hdr_ids]. lia.
Qed.

Lemma mat_ids_both m k :
  m_live m = true -> m_win m = false -> data_id m = Some k -> m_hdr m = HMalloc k -> (2 <= cnt (mat_ids m) k)%nat.
Proof.
  intros Hl Hw Hd Hh. unfold mat_ids, data_ids. unfold data_id in Hd. rewrite Hl, Hw, Hd, Hh, count_occ_app.
  pose proof (cnt_self_pos k []). cbn [olist hdr_ids]. lia.
Qed.

Lemma Inv_mats_le p s x :
  Inv p s [] [] ->
  (cnt (flat_map mat_ids (st_mats s)) x + cnt (flat_map slot_ids (st_mmc s)) x
   + cnt (flat_map hb_ids (st_hb s)) x <= 1)%nat.
Proof. intros HI. pose proof (Inv_excl _ _ _ _ x HI) as H. rewrite owned_cnt in H. cbn in H. lia. Qed.

Lemma hb_key_cnt hb i : In (Some i) (hkeys hb) -> (1 <= cnt (flat_map hb_ids hb) i)%nat.
Proof.
  intros H. apply in_map_iff in H. destruct H as ([r u] & H1 & H2). cbn in H1. subst r.
  pose proof (cnt_flat_map_in _ _ N.eq_dec hb_ids _ _ i H2) as H. cbn in H. destruct (N.eq_dec i i); [lia|congruence].
Qed.

Lemma slot_cnt l sl k : In sl l -> s_size sl <> 0 -> s_data sl = Some k -> (1 <= cnt (flat_map slot_ids l) k)%nat.
Proof.
  intros Hin Hsz Hd. pose proof (cnt_flat_map_in _ _ N.eq_dec slot_ids _ _ k Hin) as H.
  assert (E : slot_ids sl = [k]).
  { unfold slot_ids. destruct (N.eqb_spec (s_size sl) 0); [contradiction|]. rewrite Hd. reflexivity. }
  rewrite E in H. pose proof (cnt_self_pos k []). lia.
Qed.

Lemma Inv_live_disjoint p s :
  Inv p s [] [] ->
  (forall h1 h2 m1 m2, h1 <> h2 -> nth_error (st_mats s) h1 = Some m1 -> nth_error (st_mats s) h2 = Some m2 ->
     m_live m1 = true -> m_live m2 = true ->
     m_hdr m1 <> m_hdr m2 /\
     (m_win m1 = false -> m_win m2 = false -> forall k1 k2, data_id m1 = Some k1 -> data_id m2 = Some k2 -> k1 <> k2) /\
     (m_win m1 = false -> forall k, data_id m1 = Some k -> m_hdr m2 <> HMalloc k)) /\
  (forall h m, nth_error (st_mats s) h = Some m -> m_live m = true ->
     (m_win m = false -> forall k, data_id m = Some k ->
        In k (keys (st_heap s)) /\
        (forall sl, In sl (st_mmc s) -> s_size sl <> 0 -> s_data sl <> Some k) /\
        ~ In (Some k) (map fst (st_hb s)) /\ m_hdr m <> HMalloc k) /\
     match m_hdr m with
     | HSlot c e => In c (map fst (st_hb s)) /\ N.testbit (hb_used (st_hb s) c) e = true
     | HMalloc i => In i (keys (st_heap s)) /\
                    (forall sl, In sl (st_mmc s) -> s_size sl <> 0 -> s_data sl <> Some i) /\
                    ~ In (Some i) (map fst (st_hb s))
     end).
Proof.
  intros HI. split.
  - intros h1 h2 m1 m2 Hne H1 H2 L1 L2.
    assert (Htwo : forall k, (1 <= cnt (mat_ids m1) k)%nat -> (1 <= cnt (mat_ids m2) k)%nat -> False).
    { intros k K1 K2. pose proof (cnt_flat_map_two _ _ N.eq_dec mat_ids _ _ _ _ _ k Hne H1 H2).
      pose proof (Inv_mats_le _ _ k HI). lia. }
    split; [|split].
    + intros Heq. destruct (m_hdr m1) as [c e|k] eqn:E1.
      * pose proof (cnt_flat_map_two _ _ hslot_dec live_hdr _ _ _ _ _ (HSlot c e) Hne H1 H2) as H.
        assert (F1 : live_hdr m1 = [HSlot c e]) by (unfold live_hdr; rewrite L1, E1; reflexivity).
        assert (F2 : live_hdr m2 = [HSlot c e]) by (unfold live_hdr; rewrite L2, <- Heq; reflexivity).
        rewrite F1, F2, !hcnt_cons in H.
        destruct (hslot_dec (HSlot c e) (HSlot c e)); [|congruence].
        pose proof (I_bits _ _ _ _ HI c e) as Hb. pose proof (b2n_le (N.testbit (hb_used (st_hb s) c) e)).
        unfold live_hdrs in Hb. cbn [count_occ] in *. lia.
      * apply (Htwo k); apply mat_ids_hdr; auto.
    + intros W1 W2 k1 k2 D1 D2 <-. apply (Htwo k1); apply mat_ids_data; auto.
    + intros W1 k D1 Hh. apply (Htwo k); [apply mat_ids_data|apply mat_ids_hdr]; auto.
  - intros h m Hn Hl. apply nth_error_In in Hn.
    assert (Hone : forall k, (1 <= cnt (mat_ids m) k)%nat ->
              In k (keys (st_heap s)) /\
              (forall sl, In sl (st_mmc s) -> s_size sl <> 0 -> s_data sl <> Some k) /\
              ~ In (Some k) (map fst (st_hb s))).
    { intros k Hk. pose proof (cnt_flat_map_in _ _ N.eq_dec mat_ids _ _ k Hn) as H1.
      pose proof (Inv_mats_le _ _ k HI) as H2. split; [|split].
      - apply (Inv_in_keys _ _ _ _ k HI). rewrite owned_cnt. lia.
      - intros sl Hin Hsz Hd. pose proof (slot_cnt _ _ _ Hin Hsz Hd). lia.
      - intros Hin. pose proof (hb_key_cnt _ _ Hin). lia. }
    split.
    + intros Hw k Hd. destruct (Hone k (mat_ids_data _ _ Hl Hw Hd)) as (A & B & C).
      split; [exact A|]. split; [exact B|]. split; [exact C|]. intros Hh.
      pose proof (mat_ids_both _ _ Hl Hw Hd Hh). pose proof (cnt_flat_map_in _ _ N.eq_dec mat_ids _ _ k Hn).
      pose proof (Inv_mats_le _ _ k HI). lia.
    + destruct (m_hdr m) as [c e|i] eqn:Eh; [|apply Hone; apply mat_ids_hdr; auto].
      pose proof (cnt_flat_map_in _ _ hslot_dec live_hdr _ _ (HSlot c e) Hn) as H.
      assert (F1 : live_hdr m = [HSlot c e]) by (unfold live_hdr; rewrite Hl, Eh; reflexivity).
      rewrite F1, hcnt_cons in H. destruct (hslot_dec (HSlot c e) (HSlot c e)); [|congruence].
      pose proof (I_bits _ _ _ _ HI c e) as Hb. unfold live_hdrs in Hb.
      assert (Hbit : N.testbit (hb_used (st_hb s) c) e = true).
      { destruct (N.testbit (hb_used (st_hb s) c) e); auto. cbn [count_occ b2n] in *. lia. }
      split; auto.
      destruct (in_dec (fun a b => reflect_dec _ _ (oeqb_spec a b)) c (hkeys (st_hb s))) as [|n]; auto.
      rewrite hb_used_notin, N.bits_0 in Hbit by auto. discriminate.
Qed.

Theorem live_disjoint p ops :
  params_ok p -> wf_ops ops = true ->
  let s := fst (run p ops) in
  (forall h1 h2 m1 m2, h1 <> h2 -> nth_error (st_mats s) h1 = Some m1 -> nth_error (st_mats s) h2 = Some m2 ->
     m_live m1 = true -> m_live m2 = true ->
     m_hdr m1 <> m_hdr m2 /\
     (m_win m1 = false -> m_win m2 = false -> forall k1 k2, data_id m1 = Some k1 -> data_id m2 = Some k2 -> k1 <> k2) /\
     (m_win m1 = false -> forall k, data_id m1 = Some k -> m_hdr m2 <> HMalloc k)) /\
  (forall h m, nth_error (st_mats s) h = Some m -> m_live m = true ->
     (m_win m = false -> forall k, data_id m = Some k ->
        In k (keys (st_heap s)) /\
        (forall sl, In sl (st_mmc s) -> s_size sl <> 0 -> s_data sl <> Some k) /\
        ~ In (Some k) (map fst (st_hb s)) /\ m_hdr m <> HMalloc k) /\
     match m_hdr m with
     | HSlot c e => In c (map fst (st_hb s)) /\ N.testbit (hb_used (st_hb s) c) e = true
     | HMalloc i => In i (keys (st_heap s)) /\
                    (forall sl, In sl (st_mmc s) -> s_size sl <> 0 -> s_data sl <> Some i) /\
                    ~ In (Some i) (map fst (st_hb s))
     end).
Proof. intros Hp Hwf. apply (Inv_live_disjoint p). apply alloc_inv; auto. Qed.

(** ** 4. matrices may be freed in any order; freeing a view leaves the parent's block alone *)
Lemma wf_free_live p ops h :
  params_ok p -> wf_ops (ops ++ [Free h]) = true ->
  wf_ops ops = true /\
  exists A, nth_error (st_mats (fst (run p ops))) h = Some A /\ m_live A = true.
Proof.
  intros Hp Hwf. rewrite wf_ops_snoc in Hwf. apply andb_prop in Hwf. destruct Hwf as [Hwf Hok]. split; auto.
  pose proof (run_HInv p ops Hp Hwf) as HH. cbn [op_ok] in Hok.
  destruct (h_live_nth _ _ _ (H_track _ _ _ _ HH) Hok) as (A & H1 & H2 & _). eauto.
Qed.

Theorem free_any_order p ops h :
  params_ok p -> wf_ops (ops ++ [Free h]) = true ->
  let s := fst (run p ops) in
  let s' := fst (run p (ops ++ [Free h])) in
  Inv p s' [] [] /\
  forall h' m', h' <> h -> nth_error (st_mats s) h' = Some m' ->
    nth_error (st_mats s') h' = Some m' /\
    (m_live m' = true -> m_win m' = false -> forall k, data_id m' = Some k ->
       exists b, heap_find (st_heap s) k = Some b /\ heap_find (st_heap s') k = Some b).
Proof.
  intros Hp Hwf. pose proof (alloc_inv p _ Hp Hwf) as HI'.
  destruct (wf_free_live p ops h Hp Hwf) as (Hwf0 & A & Hn & Hl).
  pose proof (alloc_inv p _ Hp Hwf0) as HI. cbn zeta. split; [exact HI'|].
  revert HI'. rewrite run_snoc. destruct (run p ops) as [s tr]. cbn [fst snd step] in *.
  destruct (mzd_free p s h) as [s' ev] eqn:E. cbn [fst]. intros HI'.
  destruct (mzd_free_inv _ _ _ _ _ _ HI Hn Hl E) as (_ & _ & R & M & _).
  intros h' m' Hne Hm'.
  assert (Hm2 : nth_error (st_mats s') h' = Some m') by (rewrite M, upd_nth_other; auto).
  split; [exact Hm2|]. intros Hl' Hw' k Hd. unfold data_id in Hd.
  pose proof (I_mat _ _ _ _ HI m' (nth_error_In _ _ Hm') Hw') as H1.
  pose proof (I_mat _ _ _ _ HI' m' (nth_error_In _ _ Hm2) Hw') as H2.
  destruct (m_data m') as [[k0 off]|]; [|discriminate]. cbn in Hd. injection Hd as ->.
  destruct H1 as (_ & _ & H1). destruct H2 as (_ & _ & H2).
  destruct (H1 Hl') as (b & Hb & _). destruct (H2 Hl') as (b' & Hb' & _).
  exists b. split; auto. rewrite <- Hb. apply (R_find _ _ R); apply find_In; congruence.
Qed.

Theorem window_free_keeps_data p ops h W :
  params_ok p -> wf_ops (ops ++ [Free h]) = true ->
  let s := fst (run p ops) in
  let s' := fst (run p (ops ++ [Free h])) in
  nth_error (st_mats s) h = Some W -> m_win W = true ->
  exists P, m_root W <> h /\ nth_error (st_mats s) (m_root W) = Some P /\ m_win P = false /\
            data_id W = data_id P /\
            nth_error (st_mats s') (m_root W) = Some P /\
            (m_live P = true -> forall k, data_id P = Some k ->
               exists b, heap_find (st_heap s) k = Some b /\ heap_find (st_heap s') k = Some b).
Proof.
  intros Hp Hwf. cbn zeta. intros HW Hwin.
  destruct (wf_free_live p ops h Hp Hwf) as (Hwf0 & _).
  pose proof (run_HInv p ops Hp Hwf0) as HH.
  destruct (H_root _ _ _ _ HH h W HW) as (_ & P & R1 & R2 & R3).
  assert (Hne : m_root W <> h).
  { intros Heq. rewrite Heq, HW in R1. injection R1 as <-. congruence. }
  destruct (free_any_order p ops h Hp Hwf) as (_ & F). destruct (F _ _ Hne R1) as (F1 & F2).
  exists P. repeat (split; [assumption|]). intros Hl k Hk. apply F2; auto.
Qed.

(** ** 6. no retention: every handle freed, then m4ri_fini => the system heap is empty *)
Lemma hb_used_nodup hb c u : NoDup (hkeys hb) -> In (c, u) hb -> hb_used hb c = u.
Proof.
  induction hb as [|[r w] t IH]; cbn; [tauto|]. intros Hnd [H|H]; inversion Hnd; subst.
  - injection H as -> ->. destruct (oeqb_spec c c); congruence.
  - destruct (oeqb_spec r c) as [->|]; auto. exfalso. apply H2. apply in_map_iff. exists (c, u). auto.
Qed.

Lemma all_dead_ids ms x : (forall m, In m ms -> m_live m = false) -> cnt (flat_map mat_ids ms) x = 0%nat.
Proof. intros H. apply cnt_flat_map_zero. intros m Hm. unfold mat_ids. rewrite (H m Hm). reflexivity. Qed.

Lemma all_dead_hdrs ms x : (forall m, In m ms -> m_live m = false) -> hcnt (flat_map live_hdr ms) x = 0%nat.
Proof. intros H. apply cnt_flat_map_zero. intros m Hm. unfold live_hdr. rewrite (H m Hm). reflexivity. Qed.

(* with no live header, only the static header block is linked *)
Lemma Inv_no_live_hb p s x :
  Inv p s [] [] -> (forall m, In m (st_mats s) -> m_live m = false) -> cnt (flat_map hb_ids (st_hb s)) x = 0%nat.
Proof.
  intros HI Hdead. pose proof (Inv_hb_nodup _ _ _ _ HI) as Hnd.
  apply cnt_flat_map_zero. intros [c u] Hin. destruct c as [i|]; [|reflexivity]. exfalso.
  pose proof (I_nz _ _ _ _ HI) as Hnz. rewrite Forall_forall in Hnz. apply (Hnz _ Hin); [discriminate|].
  cbn [snd]. apply N.bits_inj_0. intros e.
  pose proof (I_bits _ _ _ _ HI (Some i) e) as Hb. rewrite (hb_used_nodup _ _ _ Hnd Hin) in Hb.
  unfold live_hdrs in Hb. rewrite all_dead_hdrs in Hb by auto. destruct (N.testbit u e); auto. discriminate.
Qed.

Lemma count_zero_nil (l : list N) : (forall x, cnt l x = 0%nat) -> l = [].
Proof. intros H. destruct l as [|a l]; auto. specialize (H a). pose proof (cnt_self_pos a l). lia. Qed.

Lemma all_freed_dead ops s :
  map mat_info (st_mats s) = track ops -> all_freed ops = true -> forall m, In m (st_mats s) -> m_live m = false.
Proof.
  intros Ht Hall m Hm. unfold all_freed in Hall. rewrite <- Ht, forallb_forall in Hall.
  specialize (Hall (mat_info m) (in_map _ _ _ Hm)). cbn in Hall. destruct (m_live m); auto.
Qed.

(* what m4ri_fini leaves allocated, for any history: the blocks of live matrices (data and malloc'd
   headers) and the linked non-static header blocks; nothing in the block cache *)
Theorem fini_retains p ops :
  params_ok p -> wf_ops ops = true ->
  let s' := fst (run p (ops ++ [Fini])) in
  forall x, cnt (keys (st_heap s')) x
            = (cnt (flat_map mat_ids (st_mats s')) x + cnt (flat_map hb_ids (st_hb s')) x)%nat.
Proof.
  intros Hp Hwf. pose proof (run_HInv p ops Hp Hwf) as HH. cbn zeta. rewrite run_snoc.
  destruct (run p ops) as [s tr]. cbn [fst snd step] in *.
  destruct (mmc_cleanup p s) as [s1 ev1] eqn:E1. cbn [fst].
  assert (E : (let '(s1, ev) := mmc_cleanup p s in (s1, ev ++ [RetFini])) = (s1, ev1 ++ [RetFini])) by (rewrite E1; reflexivity).
  destruct (fini_inv _ _ _ _ (H_inv _ _ _ _ HH) E) as (A & _ & _ & M & _ & Moff & Mon).
  intros x. rewrite (I_own _ _ _ _ A), owned_cnt. cbn [count_occ].
  assert (Hs : cnt (flat_map slot_ids (st_mmc s1)) x = 0%nat); [|lia].
  destruct (enable_mmc p) eqn:Em; [apply Mon; reflexivity|].
  rewrite (Moff eq_refl). apply cnt_flat_map_zero. intros sl Hsl.
  rewrite (slot_ids_empty sl (H_mmc _ _ _ _ HH Em sl Hsl)). reflexivity.
Qed.

Theorem no_retention p ops :
  params_ok p -> wf_ops ops = true -> all_freed ops = true ->
  keys (st_heap (fst (run p (ops ++ [Fini])))) = [].
Proof.
  intros Hp Hwf Hall. apply count_zero_nil. intros x. rewrite (fini_retains p ops Hp Hwf x).
  assert (Hwf' : wf_ops (ops ++ [Fini]) = true) by (rewrite wf_ops_snoc, Hwf; reflexivity).
  pose proof (run_HInv p _ Hp Hwf') as HH.
  assert (Hdead : forall m, In m (st_mats (fst (run p (ops ++ [Fini])))) -> m_live m = false).
  { apply (all_freed_dead (ops ++ [Fini])); [apply (H_track _ _ _ _ HH)|].
    unfold all_freed in *. rewrite track_snoc. exact Hall. }
  rewrite all_dead_ids by exact Hdead. rewrite (Inv_no_live_hb p _ x (H_inv _ _ _ _ HH) Hdead). reflexivity.
Qed.

(** * Non-vacuity: concrete histories at capacities NBLOCKS = 2, CACHE_MAX = 2, THRESHOLD = 1024 *)
Definition ex_p2 : params := mkParams 2 1024 2 true true.
Definition ex_p_off : params := mkParams 2 1024 2 false false.     (* the thread-safe configuration *)
Definition is_sys (e : event) : bool := match e with SysAlloc _ _ | SysFree _ => true | _ => false end.

Example ex_params_ok : params_ok ex_p2 /\ params_ok ex_p_off.
Proof. split; unfold params_ok; cbn; lia. Qed.

(* three blocks into a 2-slot cache: the third free evicts mm[0]; the next Init of 16 bytes is served
   from the cache with the dirty block 1 (fill 9), which the model hands out zeroed *)
Definition ex_evict : list op :=
  [Init 3 3; Write 0 7; Init 1 64; Write 1 9; Init 2 130; Free 0; Free 1; Free 2; Init 1 64].

Example ex_evict_trace :
  wf_ops ex_evict = true /\
  filter is_sys (snd (run ex_p2 ex_evict)) = [SysAlloc 0 48; SysAlloc 1 16; SysAlloc 2 64; SysFree 0] /\
  heap_find (st_heap (fst (run ex_p2 (firstn 8 ex_evict)))) 1 = Some (mkBlk 16 9) /\
  heap_find (st_heap (fst (run ex_p2 ex_evict))) 1 = Some (mkBlk 16 0) /\
  option_map m_data (nth_error (st_mats (fst (run ex_p2 ex_evict))) 3) = Some (Some (1, 0)).
Proof. vm_compute. repeat split. Qed.

(* 65 headers: the 65th spills into a new 4160-byte block, which is unlinked and freed when it empties;
   129 headers: two full blocks = CACHE_MAX, the 129th header is a plain 64-byte malloc *)
Example ex_spill_trace :
  wf_ops (repeat (Init 0 0) 65 ++ [Free 64]) = true /\
  filter is_sys (snd (run ex_p2 (repeat (Init 0 0) 65 ++ [Free 64]))) = [SysAlloc 0 4160; SysFree 0] /\
  filter is_sys (snd (run ex_p2 (repeat (Init 0 0) 129 ++ [Free 128]))) = [SysAlloc 0 4160; SysAlloc 1 64; SysFree 1] /\
  option_map m_hdr (nth_error (st_mats (fst (run ex_p2 (repeat (Init 0 0) 129)))) 128) = Some (HMalloc 1).
Proof. vm_compute. repeat split. Qed.

(* views: the parent is freed first, the view afterwards; everything freed, then fini *)
Definition ex_all : list op :=
  ex_evict ++ [Window 3 0 0 1 64; Free 3; Free 4; Init 65 64; Free 5].

Example ex_no_retention :
  wf_ops ex_all = true /\ all_freed ex_all = true /\
  keys (st_heap (fst (run ex_p2 ex_all))) = [2; 1] /\                (* two blocks sit in the cache ... *)
  keys (st_heap (fst (run ex_p2 (ex_all ++ [Fini])))) = [] /\        (* ... until m4ri_fini *)
  keys (st_heap (fst (run ex_p_off ex_all))) = [].                   (* cache disabled: nothing is kept *)
Proof. vm_compute. repeat split. Qed.

Example ex_free_window :
  wf_ops [Init 3 3; Write 0 7; Window 0 1 0 3 3; Free 1] = true /\
  heap_find (st_heap (fst (run ex_p2 [Init 3 3; Write 0 7; Window 0 1 0 3 3; Free 1]))) 0 = Some (mkBlk 48 7).
Proof. vm_compute. repeat split. Qed.
