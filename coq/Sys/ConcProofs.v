(* Sys/ConcProofs.v -- proofs about the concurrency models of Sys/Conc.v.

   PART 2 (C16) comes first because it is self-contained:
     tasks_commute, schedule_indep (every interleaving of per-thread task lists = sequential order),
     loop_perm_indep / parfor_indep (every permutation / chunked interleaving of an independent loop),
     mp_quadrants_disjoint (split arithmetic of mp.c => disjoint WORD rectangles),
     sections_commute, parfor_rows_indep, parfor_tables_indep (the instances for the C code).
   PART 1 (C15): interleave_indep, by a simulation between the shared state restricted to one
   thread's handles and that thread's solo state, up to a renaming of block identities. *)
From Coq Require Import List NArith Bool Arith Lia Permutation ZArith ZifyBool ZifyNat ZifyN.
From M4 Require Import Sys.Alloc Sys.Conc.
Import ListNotations.

(** * Generic list facts *)
Lemma upd_length' A (l : list A) i v : length (upd l i v) = length l.
Proof. revert i; induction l; intros [|i]; cbn; auto. Qed.

Lemma nth_error_split_upd A (l : list A) t x y :
  nth_error l t = Some x ->
  l = firstn t l ++ x :: skipn (S t) l /\ upd l t y = firstn t l ++ y :: skipn (S t) l.
Proof.
  revert t; induction l as [|a l IH]; intros [|t] H; cbn in *; try discriminate.
  - injection H as ->. auto.
  - destruct (IH t H) as [E1 E2]. split; [f_equal; exact E1 | f_equal; exact E2].
Qed.

Lemma upd_nth_error_same A (l : list A) i v : i < length l -> nth_error (upd l i v) i = Some v.
Proof. revert i; induction l; intros [|i] H; cbn in *; try lia; auto. apply IHl; lia. Qed.

Lemma upd_nth_error_other A (l : list A) i k v : i <> k -> nth_error (upd l i v) k = nth_error l k.
Proof. revert i k; induction l; intros [|i] [|k] H; cbn; auto; try congruence. Qed.

Lemma upd_nth_same A (l : list A) i v d : i < length l -> nth i (upd l i v) d = v.
Proof. revert i; induction l; intros [|i] H; cbn in *; try lia; auto. apply IHl; lia. Qed.

Lemma upd_nth_other A (l : list A) i k v d : i <> k -> nth k (upd l i v) d = nth k l d.
Proof. revert i k; induction l; intros [|i] [|k] H; cbn; auto; try congruence. Qed.

Lemma upd_out A (l : list A) i v : length l <= i -> upd l i v = l.
Proof. revert i; induction l; intros [|i] H; cbn in *; auto; try lia. f_equal. apply IHl. lia. Qed.

Lemma nth_error_firstn_some A (l : list A) t i x :
  nth_error (firstn t l) i = Some x -> nth_error l i = Some x /\ i < t.
Proof.
  revert t i; induction l as [|a l IH]; intros [|t] [|i] H; cbn in *; try discriminate.
  - split; [exact H | lia].
  - apply IH in H as [H1 H2]. split; [exact H1 | lia].
Qed.

Lemma NoDup_app_snoc A (l : list A) x : NoDup l -> ~ In x l -> NoDup (l ++ [x]).
Proof.
  induction l as [|a l IH]; cbn; intros Hnd Hx.
  - constructor; auto.
  - inversion Hnd as [|? ? Ha Hl]; subst. constructor.
    + intros Hin. apply in_app_or in Hin as [Hin|[E|[]]]; [auto | subst; tauto].
    + apply IH; auto.
Qed.

Lemma concat_all_nil A (l : list (list A)) : Forall (fun p => p = []) l -> concat l = [].
Proof. induction 1; cbn; auto. subst. auto. Qed.

(** * Interleavings *)
Lemma proj_app A t (l1 l2 : list (nat * A)) : proj t (l1 ++ l2) = proj t l1 ++ proj t l2.
Proof. unfold proj. rewrite filter_app, map_app. reflexivity. Qed.

Lemma proj_cons A t u (a : A) l :
  proj t ((u, a) :: l) = if Nat.eqb u t then a :: proj t l else proj t l.
Proof. unfold proj. cbn. destruct (Nat.eqb u t); reflexivity. Qed.

(* an interleaving, projected to a thread, is that thread's program *)
Lemma interleaving_proj A (sched : list (nat * A)) progs :
  interleaving sched progs -> forall t, proj t sched = nth t progs [].
Proof.
  induction 1 as [progs H | t a rest progs sched Hn _ IH]; intros u.
  - cbn. destruct (nth_in_or_default u progs []) as [Hin | ->]; auto.
    rewrite Forall_forall in H. symmetry. apply H, Hin.
  - rewrite proj_cons. assert (Ht : t < length progs) by (apply nth_error_Some; congruence).
    destruct (Nat.eqb_spec t u) as [<-|Hne].
    + rewrite IH. rewrite upd_nth_same by exact Ht. rewrite (nth_error_nth _ _ _ Hn). reflexivity.
    + rewrite IH. apply upd_nth_other. exact Hne.
Qed.

Lemma interleaving_threads A (sched : list (nat * A)) progs :
  interleaving sched progs -> forall x, In x sched -> fst x < length progs.
Proof.
  induction 1 as [progs H | t a rest progs sched Hn _ IH]; intros x [].
  - subst. cbn. apply nth_error_Some. congruence.
  - rewrite upd_length' in IH. auto.
Qed.

(* the executed sequence is a permutation of all the work *)
Lemma interleaving_perm A (sched : list (nat * A)) progs :
  interleaving sched progs -> Permutation (map snd sched) (concat progs).
Proof.
  induction 1 as [progs H | t a rest progs sched Hn _ IH].
  - rewrite concat_all_nil by exact H. constructor.
  - destruct (nth_error_split_upd _ _ _ _ rest Hn) as [E1 E2].
    rewrite E2 in IH. rewrite E1. rewrite concat_app in *. cbn [concat map snd] in *.
    cbn. apply Permutation_cons_app. exact IH.
Qed.

(** * PART 2: tasks with disjoint footprints *)
Section TaskProofs.
  Variables L V : Type.
  Notation mem := (mem L V).
  Notation task := (task L V).

  Lemma meq_refl (m : mem) : meq m m.
  Proof. intros l; reflexivity. Qed.
  Lemma meq_sym (m m' : mem) : meq m m' -> meq m' m.
  Proof. intros H l; symmetry; apply H. Qed.
  Lemma meq_trans (m1 m2 m3 : mem) : meq m1 m2 -> meq m2 m3 -> meq m1 m3.
  Proof. intros H1 H2 l; rewrite H1; apply H2. Qed.

  Lemma task_ok_meq (t : task) : task_ok t -> forall m m', meq m m' -> meq (t_run t m) (t_run t m').
  Proof.
    intros [Hw Hd] m m' E l. destruct (t_w t l) eqn:W.
    - apply Hd; auto.
    - rewrite !Hw by exact W. apply E.
  Qed.

  Lemma run_tasks_meq (ts : list task) :
    Forall task_ok ts -> forall m m', meq m m' -> meq (run_tasks ts m) (run_tasks ts m').
  Proof.
    induction 1 as [|t ts Ht _ IH]; intros m m' E; cbn; auto.
    apply IH, task_ok_meq; auto.
  Qed.

  Lemma run_tasks_app (l1 l2 : list task) m : run_tasks (l1 ++ l2) m = run_tasks l2 (run_tasks l1 m).
  Proof. apply fold_left_app. Qed.

  (* the generic lemma: tasks that do not write each other's write or dependency footprints commute *)
  Lemma tasks_commute (a b : task) :
    task_ok a -> task_ok b -> indep a b ->
    forall m, meq (t_run a (t_run b m)) (t_run b (t_run a m)).
  Proof.
    intros [Hwa Hda] [Hwb Hdb] I m l.
    destruct (t_w a l) eqn:Wa.
    - destruct (proj1 (I l) Wa) as [Wb _]. rewrite (Hwb _ _ Wb).
      apply Hda; auto. intros l' D. apply Hwb.
      destruct (t_w b l') eqn:Wb'; auto. destruct (proj2 (I l') Wb') as [_ D']. congruence.
    - rewrite (Hwa _ _ Wa). destruct (t_w b l) eqn:Wb.
      + symmetry. apply Hdb; auto. intros l' D. apply Hwa.
        destruct (t_w a l') eqn:Wa'; auto. destruct (proj1 (I l') Wa') as [_ D']. congruence.
      + rewrite !(Hwb _ _ Wb). symmetry. apply Hwa, Wa.
  Qed.

  Lemma run_move_front (a : task) pre post :
    task_ok a -> Forall task_ok pre -> Forall task_ok post -> Forall (indep a) pre ->
    forall m, meq (run_tasks (pre ++ a :: post) m) (run_tasks (a :: pre ++ post) m).
  Proof.
    intros Ha Hpre Hpost Hi. induction pre as [|b pre IH]; intros m; [apply meq_refl|].
    inversion Hpre as [|? ? Hb Hpre']; subst. inversion Hi as [|? ? Iab Hi']; subst.
    cbn [app run_tasks fold_left]. eapply meq_trans; [apply IH; auto|]. cbn [run_tasks fold_left].
    apply run_tasks_meq; [apply Forall_app; auto|]. apply tasks_commute; auto.
  Qed.

  Definition sections_indep (progs : list (list task)) : Prop :=
    forall i j pi pj, i <> j -> nth_error progs i = Some pi -> nth_error progs j = Some pj ->
                      forall a b, In a pi -> In b pj -> indep a b.

  (* every interleaving of per-thread task lists, the threads being pairwise independent, computes
     what the sequential order (thread 0's list, then thread 1's, ...) computes *)
  Theorem schedule_indep (progs : list (list task)) :
    Forall (Forall task_ok) progs -> sections_indep progs ->
    forall sched, interleaving sched progs ->
    forall m, meq (run_tasks (map snd sched) m) (run_tasks (concat progs) m).
  Proof.
    intros Hok Hind sched Hil. revert Hok Hind.
    induction Hil as [progs H | t a rest progs sched Hn _ IH]; intros Hok Hind m.
    - rewrite concat_all_nil by exact H. apply meq_refl.
    - destruct (nth_error_split_upd _ _ _ _ rest Hn) as [E1 E2].
      assert (Ht : t < length progs) by (apply nth_error_Some; congruence).
      assert (Hok_t : Forall task_ok (a :: rest)).
      { rewrite Forall_forall in Hok. apply Hok. eapply nth_error_In; eauto. }
      inversion Hok_t as [|? ? Ha Hrest]; subst.
      assert (Hok' : Forall (Forall task_ok) (upd progs t rest)).
      { rewrite E2. rewrite E1 in Hok. apply Forall_app in Hok as [H1 H2]. inversion H2; subst.
        apply Forall_app; split; auto. }
      assert (Hind' : sections_indep (upd progs t rest)).
      { intros i j pi pj Hij Hi Hj x y Hx Hy.
        destruct (Nat.eq_dec i t) as [->|Hit]; destruct (Nat.eq_dec j t) as [->|Hjt]; try congruence.
        - rewrite upd_nth_error_same in Hi by exact Ht. injection Hi as <-.
          rewrite upd_nth_error_other in Hj by auto.
          eapply (Hind t j); eauto. right; exact Hx.
        - rewrite upd_nth_error_same in Hj by exact Ht. injection Hj as <-.
          rewrite upd_nth_error_other in Hi by auto.
          eapply (Hind i t); eauto. right; exact Hy.
        - rewrite upd_nth_error_other in Hi, Hj by auto. eapply (Hind i j); eauto. }
      cbn [map snd run_tasks fold_left]. eapply meq_trans; [apply (IH Hok' Hind')|].
      assert (Ec : concat progs = concat (firstn t progs) ++ (a :: rest) ++ concat (skipn (S t) progs)).
      { rewrite E1 at 1. rewrite concat_app. reflexivity. }
      assert (Ec' : concat (upd progs t rest) = concat (firstn t progs) ++ rest ++ concat (skipn (S t) progs)).
      { rewrite E2, concat_app. reflexivity. }
      rewrite Ec, Ec'.
      apply meq_sym. eapply meq_trans.
      + apply (run_move_front a (concat (firstn t progs)) (rest ++ concat (skipn (S t) progs))); auto.
        * rewrite E1 in Hok. apply Forall_app in Hok as [H1 _]. apply Forall_concat. exact H1.
        * apply Forall_app; split; auto.
          rewrite E1 in Hok. apply Forall_app in Hok as [_ H2]. inversion H2; subst.
          apply Forall_concat; auto.
        * apply Forall_forall. intros b Hb. apply in_concat in Hb as [pi [Hpi Hb]].
          apply In_nth_error in Hpi as [i Hi].
          apply nth_error_firstn_some in Hi as [Hi' Hlt].
          eapply (Hind t i); eauto; try lia. left; reflexivity.
      + cbn [run_tasks fold_left]. apply meq_refl.
  Qed.

  (* a loop of pairwise independent iterations: any permutation of the iteration space *)
  Theorem loop_perm_indep (body : nat -> task) :
    (forall i, task_ok (body i)) -> (forall i j, i <> j -> indep (body i) (body j)) ->
    forall idx idx', NoDup idx -> Permutation idx idx' ->
    forall m, meq (run_loop body idx m) (run_loop body idx' m).
  Proof.
    intros Hok Hind idx idx' Hnd Hp. unfold run_loop.
    induction Hp as [|x l l' _ IH|x y l|l l' l'' H1 IH1 H2 IH2]; intros m.
    - apply meq_refl.
    - cbn. apply IH. inversion Hnd; auto.
    - cbn. apply run_tasks_meq.
      + apply Forall_forall. intros t Ht. apply in_map_iff in Ht as [i [<- _]]. apply Hok.
      + apply tasks_commute; auto. apply Hind. inversion Hnd as [|? ? Hy _]; subst.
        intros ->. apply Hy. left; reflexivity.
    - eapply meq_trans; [apply IH1; auto|]. apply IH2. eapply Permutation_NoDup; eauto.
  Qed.

  (* ... hence any partition of the iteration space into per-thread chunks and any interleaving of the
     chunks gives what the sequential loop over [idx] gives *)
  Theorem parfor_indep (body : nat -> task) :
    (forall i, task_ok (body i)) -> (forall i j, i <> j -> indep (body i) (body j)) ->
    forall idx chunks sched, NoDup idx -> Permutation idx (concat chunks) ->
    interleaving sched chunks ->
    forall m, meq (run_loop body (map snd sched) m) (run_loop body idx m).
  Proof.
    intros Hok Hind idx chunks sched Hnd Hp Hil m. apply meq_sym.
    apply loop_perm_indep; auto. eapply Permutation_trans; [exact Hp|].
    apply Permutation_sym, interleaving_perm, Hil.
  Qed.
End TaskProofs.

(** ** footprints of the C code *)
Ltac Zify.zify_post_hook ::= Z.div_mod_to_equations.

Definition wdisj (w w' : window) : bool :=
  Nat.leb (w_r1 w) (w_r0 w') || Nat.leb (w_r1 w') (w_r0 w) ||
  Nat.leb ((w_c1 w + 63) / 64) (w_c0 w' / 64) || Nat.leb ((w_c1 w' + 63) / 64) (w_c0 w / 64).

Lemma wdisj_words w w' i k : wdisj w w' = true -> in_words w i k = true -> in_words w' i k = false.
Proof.
  unfold wdisj, in_words. intros H1 H2.
  destruct (Nat.leb (w_r0 w') i && Nat.ltb i (w_r1 w') && Nat.leb (w_c0 w' / 64) k &&
            Nat.ltb k ((w_c1 w' + 63) / 64)) eqn:E; auto. exfalso.
  rewrite !andb_true_iff in *. rewrite !orb_true_iff in H1.
  rewrite ?Nat.leb_le, ?Nat.ltb_lt in *. lia.
Qed.

(* the split points of mp.c are multiples of 64, so the four quadrant windows own disjoint WORDS *)
Lemma mp_half_aligned a : exists h, mp_half a = h * 64.
Proof. unfold mp_half. eexists; reflexivity. Qed.

Lemma mp_quadrants_disjoint a c i j w w' :
  i <> j -> nth_error (mp_quadrants a c) i = Some w -> nth_error (mp_quadrants a c) j = Some w' ->
  wdisj w w' = true.
Proof.
  unfold mp_quadrants. destruct (mp_half_aligned a) as [ha ->]. destruct (mp_half_aligned c) as [hc ->].
  intros Hij Hi Hj.
  destruct i as [|[|[|[|i]]]]; cbn in Hi; try (destruct i; discriminate);
  destruct j as [|[|[|[|j]]]]; cbn in Hj; try (destruct j; discriminate); try congruence;
  injection Hi as <-; injection Hj as <-; unfold wdisj; cbn [w_r0 w_r1 w_c0 w_c1];
  rewrite !orb_true_iff, !Nat.leb_le; lia.
Qed.

Lemma mp_quadrants_words_disjoint a c i j w w' :
  i <> j -> nth_error (mp_quadrants a c) i = Some w -> nth_error (mp_quadrants a c) j = Some w' ->
  forall r k, in_words w r k = true -> in_words w' r k = false.
Proof. intros H1 H2 H3 r k. apply wdisj_words. eapply mp_quadrants_disjoint; eauto. Qed.

(* without the alignment the word footprints DO overlap: columns 0..99 and 100..199 share word 1 *)
Example unaligned_split_shares_a_word :
  in_words (mkWin 0 0 10 100) 0 1 = true /\ in_words (mkWin 0 100 10 200) 0 1 = true.
Proof. split; reflexivity. Qed.

Lemma region_eqb_eq x y : region_eqb x y = true <-> x = y.
Proof. destruct x, y; cbn; split; intros; congruence. Qed.

Lemma quadrant_tasks_indep V (w w' : window) (f g : mem wloc V -> mem wloc V) :
  wdisj w w' = true -> indep (quadrant_task w f) (quadrant_task w' g).
Proof.
  intros D [[r i] k]. assert (D' : wdisj w' w = true).
  { unfold wdisj in *. rewrite !orb_true_iff in *. tauto. }
  cbn. split; intros H; apply andb_true_iff in H as [Hr Hw]; apply region_eqb_eq in Hr; subst r; cbn.
  - rewrite (wdisj_words _ _ _ _ D Hw). auto.
  - rewrite (wdisj_words _ _ _ _ D' Hw). auto.
Qed.

Lemma nth_error_combine A B (l1 : list A) (l2 : list B) i x y :
  nth_error (combine l1 l2) i = Some (x, y) -> nth_error l1 i = Some x /\ nth_error l2 i = Some y.
Proof.
  revert l2 i; induction l1 as [|a l1 IH]; intros [|b l2] [|i] H; cbn in *; try discriminate.
  - injection H as -> ->. auto.
  - apply IH, H.
Qed.

Lemma mp_sections_indep V a c (bodies : list (list (mem wloc V -> mem wloc V))) :
  sections_indep wloc V (mp_sections a c bodies).
Proof.
  intros i j pi pj Hij Hi Hj x y Hx Hy. unfold mp_sections in *.
  rewrite nth_error_map in Hi, Hj.
  destruct (nth_error (combine (mp_quadrants a c) bodies) i) as [[w bs]|] eqn:Ei; [|discriminate].
  destruct (nth_error (combine (mp_quadrants a c) bodies) j) as [[w' bs']|] eqn:Ej; [|discriminate].
  cbn in Hi, Hj. injection Hi as <-. injection Hj as <-.
  apply in_map_iff in Hx as [f [<- _]]. apply in_map_iff in Hy as [g [<- _]].
  apply quadrant_tasks_indep. apply nth_error_combine in Ei as [Ei _]. apply nth_error_combine in Ej as [Ej _].
  eapply mp_quadrants_disjoint; eauto.
Qed.

(* C16, sections: for every shape (a rows of A, c columns of B), every list of kernel calls per
   section that respect the footprints of their quadrant windows (write only words of the quadrant,
   depend only on the quadrant, A and B), every interleaving of the four sections leaves the memory
   the sequential order (section 1, 2, 3, 4) leaves. *)
Theorem sections_commute V a c (bodies : list (list (mem wloc V -> mem wloc V))) :
  Forall (Forall task_ok) (mp_sections a c bodies) ->
  forall sched, interleaving sched (mp_sections a c bodies) ->
  forall m, meq (run_tasks (map snd sched) m) (run_tasks (concat (mp_sections a c bodies)) m).
Proof. intros Hok sched Hil m. apply schedule_indep; auto. apply mp_sections_indep. Qed.

Lemma row_tasks_indep V (f : nat -> mem wloc V -> mem wloc V) i j :
  i <> j -> indep (row_task f i) (row_task f j).
Proof.
  intros Hij [[r x] k]. cbn.
  split; intros H; apply andb_true_iff in H as [Hr Hx]; apply region_eqb_eq in Hr; subst r;
    apply Nat.eqb_eq in Hx; subst x; cbn.
  - destruct (Nat.eqb_spec i j); [congruence|]. auto.
  - destruct (Nat.eqb_spec j i); [congruence|]. auto.
Qed.

Lemma table_tasks_indep V (f : nat -> mem wloc V -> mem wloc V) i j :
  i <> j -> indep (table_task f i) (table_task f j).
Proof.
  intros Hij [[r x] k]. cbn.
  split; intros H; apply andb_true_iff in H as [Hr Hx]; apply region_eqb_eq in Hr; subst r;
    apply Nat.eqb_eq in Hx; subst x; cbn.
  - destruct (Nat.eqb_spec i j); [congruence|]. auto.
  - destruct (Nat.eqb_spec j i); [congruence|]. auto.
Qed.

(* C16, row loops (mzd_process_rows*, the row loop of _mzd_mul_m4rm): iteration j writes row j of the
   destination only and depends on row j, the sources and the tables; every partition of the rows
   [idx] into chunks and every interleaving of the chunks = the sequential loop *)
Theorem parfor_rows_indep V (f : nat -> mem wloc V -> mem wloc V) :
  (forall j, task_ok (row_task f j)) ->
  forall idx chunks sched, NoDup idx -> Permutation idx (concat chunks) -> interleaving sched chunks ->
  forall m, meq (run_loop (row_task f) (map snd sched) m) (run_loop (row_task f) idx m).
Proof. intros Hok. apply parfor_indep; auto. intros; apply row_tasks_indep; auto. Qed.

(* C16, table loop (brilliantrussian.c:1114-1118): iteration z builds table z from B *)
Theorem parfor_tables_indep V (f : nat -> mem wloc V -> mem wloc V) :
  (forall z, task_ok (table_task f z)) ->
  forall idx chunks sched, NoDup idx -> Permutation idx (concat chunks) -> interleaving sched chunks ->
  forall m, meq (run_loop (table_task f) (map snd sched) m) (run_loop (table_task f) idx m).
Proof. intros Hok. apply parfor_indep; auto. intros; apply table_tasks_indep; auto. Qed.

(** * PART 1: threads over the allocator model (C15) *)

(** ** the system heap *)
Lemma find_remove_other h i k : k <> i -> heap_find (heap_remove h i) k = heap_find h k.
Proof.
  intros Hk. induction h as [|[j b] h IH]; cbn; auto. destruct (N.eqb_spec j i) as [->|Hne]; cbn.
  - destruct (N.eqb_spec i k); congruence.
  - destruct (N.eqb j k); auto.
Qed.

Definition refill (v : N) (b : blk) : blk := mkBlk (b_size b) v.

Lemma find_fill h i v k :
  heap_find (heap_fill h i v) k = if N.eqb k i then option_map (refill v) (heap_find h i) else heap_find h k.
Proof.
  induction h as [|[j b] h IH]; cbn.
  - destruct (N.eqb k i); reflexivity.
  - destruct (N.eqb_spec j i) as [->|Hne]; cbn.
    + destruct (N.eqb_spec k i) as [E|Hki].
      * subst k. rewrite N.eqb_refl. reflexivity.
      * destruct (N.eqb_spec i k); [congruence|reflexivity].
    + destruct (N.eqb_spec j k) as [E|Hjk].
      * subst j. destruct (N.eqb_spec k i); [congruence|reflexivity].
      * exact IH.
Qed.

Definition hkeys (h : heap) : list N := map fst h.

Lemma find_none_notin h k : ~ In k (hkeys h) -> heap_find h k = None.
Proof.
  induction h as [|[j b] h IH]; cbn; auto. intros H. destruct (N.eqb_spec j k) as [->|Hne].
  - exfalso; apply H; auto.
  - apply IH. intros Hin; apply H; auto.
Qed.

Lemma hkeys_remove_in h i k : In k (hkeys (heap_remove h i)) -> In k (hkeys h).
Proof.
  induction h as [|[j b] h IH]; cbn; auto. destruct (N.eqb j i); cbn; intros H; auto. destruct H; auto.
Qed.

Lemma hkeys_remove_nodup h i : NoDup (hkeys h) -> NoDup (hkeys (heap_remove h i)) /\ ~ In i (hkeys (heap_remove h i)).
Proof.
  induction h as [|[j b] h IH]; cbn; intros H.
  - split; [constructor | tauto].
  - inversion H as [|? ? Hj Hh]; subst. destruct (N.eqb_spec j i) as [->|Hne].
    + split; auto.
    + destruct (IH Hh) as [H1 H2]. cbn. split.
      * constructor; auto. intros Hin. apply Hj. eapply hkeys_remove_in; eauto.
      * intros [E|Hin]; [congruence | tauto].
Qed.

Lemma hkeys_fill h i v : hkeys (heap_fill h i v) = hkeys h.
Proof. unfold hkeys. induction h as [|[j b] h IH]; cbn; auto. destruct (N.eqb j i); cbn; congruence. Qed.

Definition heap_ok (s : state) : Prop :=
  NoDup (hkeys (st_heap s)) /\ forall i, In i (hkeys (st_heap s)) -> (i < st_next s)%N.

(** ** state transformers the thread-safe configuration is made of *)
Definition salloc (s : state) (sz : N) : state := fst (fst (sys_alloc s sz)).
Definition sfill (s : state) (i v : N) : state := set_heap s (heap_fill (st_heap s) i v).
Definition sfree (s : state) (i : N) : state := set_heap s (heap_remove (st_heap s) i).
Definition skill (s : state) (h : nat) : state :=
  set_mats s (upd (st_mats s) h (kill (nth h (st_mats s) dummy_mat))).

Definition dblk (m : mat) : option N := option_map fst (m_data m).

Lemma ts_init p s r c : thread_safe p ->
  mzd_init p s r c =
  let n := st_next s in let h := length (st_mats s) in let rs := rowstride_of c in
  if negb (N.eqb r 0) && negb (N.eqb c 0) then
    let s3 := sfill (salloc (salloc s HDR_SIZE) (r * rs * 8)) (N.succ n) 0 in
    (push_mat s3 (mkMat r c rs (Some (N.succ n, 0%N)) (HMalloc n) false true h),
     [SysAlloc n HDR_SIZE; SysAlloc (N.succ n) (r * rs * 8);
      RetInit h r c rs (Some (N.succ n)) (HMalloc n) (N.eqb (fill_of s3 (Some (N.succ n))) 0)])
  else
    (push_mat (salloc s HDR_SIZE) (mkMat r c rs None (HMalloc n) false true h),
     [SysAlloc n HDR_SIZE; RetInit h r c rs None (HMalloc n) true]).
Proof.
  intros [H1 H2]. unfold mzd_init, mzd_t_malloc, mmc_malloc. rewrite H1, H2. cbn.
  destruct (negb (N.eqb r 0) && negb (N.eqb c 0)); reflexivity.
Qed.

Lemma ts_window p s h r0 c0 r1 c1 : thread_safe p ->
  mzd_init_window p s h r0 c0 r1 c1 =
  let M := nth h (st_mats s) dummy_mat in let n := st_next s in
  let nrows := N.min (r1 - r0) (m_rows M - r0) in
  let data := match m_data M with
              | Some (b, off) => Some (b, (off + r0 * m_rowstride M + c0 / 64)%N)
              | None => None
              end in
  (push_mat (salloc s HDR_SIZE) (mkMat nrows (c1 - c0) (m_rowstride M) data (HMalloc n) true true (m_root M)),
   [SysAlloc n HDR_SIZE; RetWindow (length (st_mats s)) nrows (c1 - c0) (m_rowstride M) data (HMalloc n)]).
Proof. intros [H1 H2]. unfold mzd_init_window, mzd_t_malloc. rewrite H2. reflexivity. Qed.

Definition ofree (s : state) (d : option N) : state := match d with Some i => sfree s i | None => s end.
Definition ofree_ev (d : option N) : list event := match d with Some i => [SysFree i] | None => [] end.

Lemma ts_free p s h i : thread_safe p -> m_hdr (nth h (st_mats s) dummy_mat) = HMalloc i ->
  mzd_free p s h =
  let A := nth h (st_mats s) dummy_mat in
  let d := if m_win A then None else dblk A in
  (sfree (ofree (skill s h) d) i, ofree_ev d ++ [SysFree i; RetFree h]).
Proof.
  intros [H1 H2] Hh. unfold mzd_free, mmc_free. rewrite H1, Hh. cbn [mzd_t_free sys_free].
  destruct (m_win (nth h (st_mats s) dummy_mat)); cbn; [reflexivity|].
  unfold dblk. destruct (option_map fst (m_data (nth h (st_mats s) dummy_mat))); reflexivity.
Qed.

Lemma ts_fini p s : thread_safe p -> step p s Fini = (s, [RetFini]).
Proof. intros [H1 _]. cbn. unfold mmc_cleanup. rewrite H1. reflexivity. Qed.

(** ** the simulation *)
Definition rn_hdr (rho : N -> N) (h : hslot) : hslot :=
  match h with HMalloc i => HMalloc (rho i) | HSlot b e => HSlot b e end.

Definition rn_data (rho : N -> N) (d : option (N * N)) : option (N * N) :=
  option_map (fun x => (rho (fst x), snd x)) d.

Definition rn_mat (rho : N -> N) (mu : list nat) (m : mat) : mat :=
  mkMat (m_rows m) (m_cols m) (m_rowstride m) (rn_data rho (m_data m)) (rn_hdr rho (m_hdr m))
        (m_win m) (m_live m) (nth (m_root m) mu O).

Definition hblk (m : mat) : option N := match m_hdr m with HMalloc i => Some i | HSlot _ _ => None end.
Definition olist (o : option N) : list N := match o with Some i => [i] | None => [] end.
Definition mat_blocks (m : mat) : list N := olist (dblk m) ++ olist (hblk m).

Definition mat_wf0 (n : N) (m : mat) : Prop :=
  (exists i, m_hdr m = HMalloc i) /\ forall i, In i (mat_blocks m) -> (i < n)%N.
Definition mat_wf (n : N) (len : nat) (m : mat) : Prop := mat_wf0 n m /\ m_root m < len.

Record Sim (G : state) (mu : list nat) (S : state) (rho : N -> N) : Prop := mkSim {
  s_len : length mu = length (st_mats S);
  s_rng : forall g, In g mu -> g < length (st_mats G);
  s_nd : NoDup mu;
  s_mat : forall k, k < length mu ->
          nth (nth k mu O) (st_mats G) dummy_mat = rn_mat rho mu (nth k (st_mats S) dummy_mat);
  s_inj : forall i j, (i < st_next S)%N -> (j < st_next S)%N -> rho i = rho j -> i = j;
  s_lt : forall i, (i < st_next S)%N -> (rho i < st_next G)%N;
  s_size : forall i, (i < st_next S)%N ->
           option_map b_size (heap_find (st_heap G) (rho i)) = option_map b_size (heap_find (st_heap S) i);
  s_data : forall k b off, k < length mu -> m_data (nth k (st_mats S) dummy_mat) = Some (b, off) ->
           heap_find (st_heap G) (rho b) = heap_find (st_heap S) b;
  s_wfS : forall k, k < length (st_mats S) ->
          mat_wf (st_next S) (length (st_mats S)) (nth k (st_mats S) dummy_mat);
  s_wfG : forall g, g < length (st_mats G) -> mat_wf0 (st_next G) (nth g (st_mats G) dummy_mat);
  s_for : forall g, g < length (st_mats G) -> ~ In g mu ->
          forall i, (i < st_next S)%N -> ~ In (rho i) (mat_blocks (nth g (st_mats G) dummy_mat));
  s_hG : heap_ok G;
  s_hS : heap_ok S
}.

Definition rext (rho : N -> N) (n g : N) : N -> N := fun j => if N.eqb j n then g else rho j.

Lemma rn_mat_ext rho rho' mu mu' m :
  (forall i, In i (mat_blocks m) -> rho i = rho' i) -> nth (m_root m) mu O = nth (m_root m) mu' O ->
  rn_mat rho mu m = rn_mat rho' mu' m.
Proof.
  intros H Hr. unfold rn_mat. rewrite Hr. f_equal.
  - unfold rn_data. destruct (m_data m) as [[b off]|] eqn:E; cbn; auto. rewrite H; auto.
    unfold mat_blocks, dblk. rewrite E. cbn. auto.
  - unfold rn_hdr. destruct (m_hdr m) as [|i] eqn:E; auto. rewrite H; auto.
    unfold mat_blocks, hblk. rewrite E. apply in_or_app. right. cbn. auto.
Qed.

Lemma mat_wf0_mono n n' m : (n <= n')%N -> mat_wf0 n m -> mat_wf0 n' m.
Proof. intros Hn [H1 H2]. split; auto. intros i Hi. specialize (H2 i Hi). lia. Qed.

Lemma mat_blocks_kill m : mat_blocks (kill m) = mat_blocks m.
Proof. reflexivity. Qed.

Lemma mat_blocks_rn rho mu m i : In i (mat_blocks (rn_mat rho mu m)) -> exists j, In j (mat_blocks m) /\ i = rho j.
Proof.
  unfold mat_blocks, dblk, hblk, rn_mat; cbn. intros H. apply in_app_or in H as [H|H].
  - destruct (m_data m) as [[b off]|]; cbn in *; [|tauto]. destruct H as [<-|[]]. exists b. split; auto.
  - destruct (m_hdr m) as [|j]; cbn in *; [tauto|]. destruct H as [<-|[]]. exists j. split; auto.
    apply in_or_app. right. cbn. auto.
Qed.

Lemma heap_ok_salloc s sz : heap_ok s -> heap_ok (salloc s sz).
Proof.
  intros [H1 H2]. split; cbn.
  - constructor; auto. intros Hin. apply H2 in Hin. lia.
  - intros i [<-|Hin]; [lia|]. apply H2 in Hin. lia.
Qed.

Lemma heap_ok_sfill s i v : heap_ok s -> heap_ok (sfill s i v).
Proof. intros [H1 H2]. split; cbn; rewrite hkeys_fill; auto. Qed.

Lemma heap_ok_sfree s i : heap_ok s -> heap_ok (sfree s i).
Proof.
  intros [H1 H2]. split; cbn.
  - apply hkeys_remove_nodup, H1.
  - intros k Hk. apply H2. eapply hkeys_remove_in; eauto.
Qed.

Lemma find_sfree_same s i : heap_ok s -> heap_find (st_heap (sfree s i)) i = None.
Proof. intros [H1 _]. cbn. apply find_none_notin. apply hkeys_remove_nodup, H1. Qed.

Lemma index_of_nth mu k : NoDup mu -> k < length mu -> index_of (nth k mu O) mu = k.
Proof.
  revert k; induction mu as [|x mu IH]; intros k Hnd Hk; cbn in *; [lia|].
  inversion Hnd as [|? ? Hx Hnd']; subst. destruct k as [|k].
  - rewrite Nat.eqb_refl. reflexivity.
  - destruct (Nat.eqb_spec x (nth k mu O)) as [->|Hne].
    + exfalso. apply Hx. apply nth_In. lia.
    + f_equal. apply IH; auto. lia.
Qed.

Lemma index_of_snoc mu g : ~ In g mu -> index_of g (mu ++ [g]) = length mu.
Proof.
  induction mu as [|x mu IH]; cbn; intros H.
  - rewrite Nat.eqb_refl. reflexivity.
  - destruct (Nat.eqb_spec x g) as [->|Hne]; [exfalso; auto|]. f_equal. apply IH. tauto.
Qed.

(** ** own primitives: the same transformer on the shared and on the solo state *)
Lemma sim_alloc_own G mu S rho sz : Sim G mu S rho ->
  Sim (salloc G sz) mu (salloc S sz) (rext rho (st_next S) (st_next G)).
Proof.
  intros H. destruct H. unfold rext.
  assert (Hold : forall i, (i < st_next S)%N -> N.eqb i (st_next S) = false).
  { intros i Hi. apply N.eqb_neq. lia. }
  constructor; cbn [salloc sys_alloc fst st_mats st_next st_heap]; auto.
  - intros k Hk. rewrite s_mat0 by exact Hk. apply rn_mat_ext; auto.
    intros i Hi. rewrite Hold; auto. apply (s_wfS0 k); [lia | exact Hi].
  - intros i j Hi Hj. destruct (N.eqb_spec i (st_next S)) as [->|Hi']; destruct (N.eqb_spec j (st_next S)) as [->|Hj']; auto.
    + intros E. assert (rho j < st_next G)%N by (apply s_lt0; lia). lia.
    + intros E. assert (rho i < st_next G)%N by (apply s_lt0; lia). lia.
    + apply s_inj0; lia.
  - intros i Hi. destruct (N.eqb_spec i (st_next S)) as [->|Hi']; [lia|].
    assert (rho i < st_next G)%N by (apply s_lt0; lia). lia.
  - intros i Hi. cbn [heap_find]. destruct (N.eqb_spec i (st_next S)) as [->|Hi'].
    + rewrite !N.eqb_refl. reflexivity.
    + assert (rho i < st_next G)%N by (apply s_lt0; lia).
      destruct (N.eqb_spec (st_next G) (rho i)); [lia|]. destruct (N.eqb_spec (st_next S) i); [lia|].
      apply s_size0. lia.
  - intros k b off Hk Hd. assert (Hb : (b < st_next S)%N).
    { apply (s_wfS0 k); [lia|]. unfold mat_blocks, dblk. rewrite Hd. cbn. auto. }
    cbn [heap_find]. rewrite Hold by exact Hb.
    assert (rho b < st_next G)%N by (apply s_lt0; lia).
    destruct (N.eqb_spec (st_next G) (rho b)); [lia|]. destruct (N.eqb_spec (st_next S) b); [lia|].
    eapply s_data0; eauto.
  - intros k Hk. destruct (s_wfS0 k Hk) as [W R]. split; auto. eapply mat_wf0_mono; [|exact W]. lia.
  - intros g Hg. eapply mat_wf0_mono; [|apply s_wfG0, Hg]. lia.
  - intros g Hg Hn i Hi. destruct (N.eqb_spec i (st_next S)) as [->|Hi'].
    + intros Hin. apply (s_wfG0 g Hg) in Hin. lia.
    + apply s_for0; auto. lia.
  - apply heap_ok_salloc; auto.
  - apply heap_ok_salloc; auto.
Qed.

Lemma opt_size_refill v (x y : option blk) :
  option_map b_size x = option_map b_size y -> option_map (refill v) x = option_map (refill v) y.
Proof. destruct x, y; cbn; intros H; try discriminate; auto. injection H as H. unfold refill. congruence. Qed.

Lemma opt_size_of_refill v (x : option blk) : option_map b_size (option_map (refill v) x) = option_map b_size x.
Proof. destruct x; reflexivity. Qed.

Lemma sim_fill_own G mu S rho b v : Sim G mu S rho -> (b < st_next S)%N ->
  Sim (sfill G (rho b) v) mu (sfill S b v) rho /\
  heap_find (st_heap (sfill G (rho b) v)) (rho b) = heap_find (st_heap (sfill S b v)) b.
Proof.
  intros H Hb. destruct H. split.
  - constructor; cbn [sfill set_heap st_mats st_next st_heap]; auto.
    + intros i Hi. rewrite !find_fill. destruct (N.eqb_spec i b) as [->|Hne].
      * rewrite N.eqb_refl. rewrite !opt_size_of_refill. auto.
      * destruct (N.eqb_spec (rho i) (rho b)) as [E|_]; [apply s_inj0 in E; auto; congruence|]. auto.
    + intros k b' off Hk Hd. assert (Hb' : (b' < st_next S)%N).
      { apply (s_wfS0 k); [lia|]. unfold mat_blocks, dblk. rewrite Hd. cbn. auto. }
      rewrite !find_fill. destruct (N.eqb_spec b' b) as [->|Hne].
      * rewrite N.eqb_refl. apply opt_size_refill. auto.
      * destruct (N.eqb_spec (rho b') (rho b)) as [E|_]; [apply s_inj0 in E; auto; congruence|]. eauto.
    + apply heap_ok_sfill; auto.
    + apply heap_ok_sfill; auto.
  - cbn. rewrite !find_fill, !N.eqb_refl. apply opt_size_refill. auto.
Qed.

Lemma sim_free_own G mu S rho b : Sim G mu S rho -> (b < st_next S)%N ->
  Sim (sfree G (rho b)) mu (sfree S b) rho.
Proof.
  intros H Hb. pose proof (find_sfree_same G (rho b) (s_hG _ _ _ _ H)) as FG.
  pose proof (find_sfree_same S b (s_hS _ _ _ _ H)) as FS. destruct H.
  constructor; auto; try (apply heap_ok_sfree; auto).
  - intros i Hi. destruct (N.eq_dec i b) as [->|Hne].
    + rewrite FG, FS. reflexivity.
    + cbn. rewrite !find_remove_other; auto; try (intros E; apply s_inj0 in E; auto).
  - intros k b' off Hk Hd. assert (Hb' : (b' < st_next S)%N).
    { apply (s_wfS0 k); [cbn in *; lia|]. unfold mat_blocks, dblk. cbn in Hd. rewrite Hd. cbn. auto. }
    destruct (N.eq_dec b' b) as [->|Hne].
    + rewrite FG, FS. reflexivity.
    + cbn. rewrite !find_remove_other; auto; try (intros E; apply s_inj0 in E; auto). eapply s_data0; eauto.
Qed.

Lemma sim_kill_own G mu S rho k : Sim G mu S rho -> k < length mu ->
  Sim (skill G (nth k mu O)) mu (skill S k) rho.
Proof.
  intros H Hk. destruct H.
  assert (Hg : nth k mu O < length (st_mats G)) by (apply s_rng0, nth_In, Hk).
  constructor; cbn [skill set_mats st_mats st_next st_heap]; rewrite ?upd_length'; auto.
  - intros k' Hk'. destruct (Nat.eq_dec k' k) as [->|Hne].
    + rewrite !upd_nth_same by lia. rewrite s_mat0 by exact Hk. reflexivity.
    + rewrite !upd_nth_other; auto. intros E. apply Hne.
      rewrite <- (index_of_nth mu k s_nd0 Hk), <- (index_of_nth mu k' s_nd0 Hk'). congruence.
  - intros k' b off Hk' Hd. destruct (Nat.eq_dec k' k) as [->|Hne].
    + rewrite upd_nth_same in Hd by lia. cbn in Hd. eauto.
    + rewrite upd_nth_other in Hd by auto. eauto.
  - intros k' Hk'. destruct (Nat.eq_dec k' k) as [->|Hne].
    + rewrite upd_nth_same by lia. apply (s_wfS0 k). lia.
    + rewrite upd_nth_other by auto. auto.
  - intros g Hg'. destruct (Nat.eq_dec g (nth k mu O)) as [->|Hne].
    + rewrite upd_nth_same by lia. apply (s_wfG0 _ Hg).
    + rewrite upd_nth_other by auto. auto.
  - intros g Hg' Hn. assert (g <> nth k mu O) by (intros ->; apply Hn, nth_In, Hk).
    rewrite upd_nth_other by auto. auto.
Qed.

Lemma sim_push_own G mu S rho mS : Sim G mu S rho ->
  mat_wf (st_next S) (Datatypes.S (length (st_mats S))) mS ->
  (forall b off, m_data mS = Some (b, off) -> heap_find (st_heap G) (rho b) = heap_find (st_heap S) b) ->
  Sim (push_mat G (rn_mat rho (mu ++ [length (st_mats G)]) mS)) (mu ++ [length (st_mats G)]) (push_mat S mS) rho.
Proof.
  intros H Hwf Hdat. destruct H.
  assert (Hnin : ~ In (length (st_mats G)) mu) by (intros Hin; apply s_rng0 in Hin; lia).
  constructor; cbn [push_mat set_mats st_mats st_next st_heap]; rewrite ?app_length; cbn [length]; auto.
  - intros g Hin. apply in_app_or in Hin as [Hin|[<-|[]]]; [apply s_rng0 in Hin|]; lia.
  - apply NoDup_app_snoc; auto.
  - intros k Hk. destruct (Nat.eq_dec k (length mu)) as [->|Hne].
    + rewrite (app_nth2 mu) by lia. rewrite Nat.sub_diag. cbn [nth].
      rewrite app_nth2 by lia. rewrite Nat.sub_diag. cbn [nth].
      rewrite s_len0. rewrite app_nth2 by lia. rewrite Nat.sub_diag. reflexivity.
    + assert (Hk' : k < length mu) by lia. rewrite (app_nth1 mu) by exact Hk'.
      rewrite app_nth1 by (apply s_rng0, nth_In, Hk'). rewrite (app_nth1 (st_mats S)) by lia.
      rewrite s_mat0 by exact Hk'. apply rn_mat_ext; auto.
      rewrite app_nth1; auto. destruct (s_wfS0 k); lia.
  - intros k b off Hk. destruct (Nat.eq_dec k (length mu)) as [->|Hne].
    + rewrite s_len0, app_nth2, Nat.sub_diag by lia. cbn [nth]. apply Hdat.
    + rewrite app_nth1 by lia. apply s_data0. lia.
  - intros k Hk. destruct (Nat.eq_dec k (length (st_mats S))) as [->|Hne].
    + rewrite app_nth2, Nat.sub_diag by lia. cbn [nth]. destruct Hwf. split; auto. lia.
    + rewrite app_nth1 by lia. destruct (s_wfS0 k) as [W R]; [lia|]. split; auto. lia.
  - intros g Hg. destruct (Nat.eq_dec g (length (st_mats G))) as [->|Hne].
    + rewrite app_nth2, Nat.sub_diag by lia. cbn [nth]. destruct Hwf as [[[i Hi] Hids] _]. split.
      * exists (rho i). cbn. rewrite Hi. reflexivity.
      * intros j Hj. apply mat_blocks_rn in Hj as [j' [Hj' ->]]. apply s_lt0, Hids, Hj'.
    + rewrite app_nth1 by lia. apply s_wfG0. lia.
  - intros g Hg Hn. assert (g <> length (st_mats G)) by (intros ->; apply Hn, in_or_app; right; cbn; auto).
    rewrite app_nth1 by lia. apply s_for0; [lia|]. intros Hin. apply Hn, in_or_app. auto.
Qed.

(** ** foreign primitives: another thread transforms the shared state; the solo state does not move *)
Lemma sim_alloc_for G mu S rho sz : Sim G mu S rho -> Sim (salloc G sz) mu S rho.
Proof.
  intros H. destruct H.
  constructor; cbn [salloc sys_alloc fst st_mats st_next st_heap]; auto.
  - intros i Hi. apply s_lt0 in Hi. lia.
  - intros i Hi. cbn [heap_find]. pose proof (s_lt0 i Hi).
    destruct (N.eqb_spec (st_next G) (rho i)); [lia|]. auto.
  - intros k b off Hk Hd. assert (Hb : (b < st_next S)%N).
    { apply (s_wfS0 k); [lia|]. unfold mat_blocks, dblk. rewrite Hd. cbn. auto. }
    cbn [heap_find]. pose proof (s_lt0 b Hb).
    destruct (N.eqb_spec (st_next G) (rho b)); [lia|]. eauto.
  - intros g Hg. eapply mat_wf0_mono; [|apply s_wfG0, Hg]. lia.
  - apply heap_ok_salloc; auto.
Qed.

Definition not_mine (S : state) (rho : N -> N) (j : N) : Prop := forall i, (i < st_next S)%N -> rho i <> j.

Lemma sim_fill_for G mu S rho j v : Sim G mu S rho -> not_mine S rho j -> Sim (sfill G j v) mu S rho.
Proof.
  intros H Hj. destruct H.
  constructor; cbn [sfill set_heap st_mats st_next st_heap]; auto.
  - intros i Hi. rewrite find_fill. destruct (N.eqb_spec (rho i) j) as [E|_]; [exfalso; eapply Hj; eauto|]. auto.
  - intros k b off Hk Hd. assert (Hb : (b < st_next S)%N).
    { apply (s_wfS0 k); [lia|]. unfold mat_blocks, dblk. rewrite Hd. cbn. auto. }
    rewrite find_fill. destruct (N.eqb_spec (rho b) j) as [E|_]; [exfalso; eapply Hj; eauto|]. eauto.
  - apply heap_ok_sfill; auto.
Qed.

Lemma sim_free_for G mu S rho j : Sim G mu S rho -> not_mine S rho j -> Sim (sfree G j) mu S rho.
Proof.
  intros H Hj. destruct H.
  constructor; cbn [sfree set_heap st_mats st_next st_heap]; auto.
  - intros i Hi. rewrite find_remove_other; auto.
  - intros k b off Hk Hd. assert (Hb : (b < st_next S)%N).
    { apply (s_wfS0 k); [lia|]. unfold mat_blocks, dblk. rewrite Hd. cbn. auto. }
    rewrite find_remove_other; eauto.
  - apply heap_ok_sfree; auto.
Qed.

Lemma sim_kill_for G mu S rho g : Sim G mu S rho -> ~ In g mu -> Sim (skill G g) mu S rho.
Proof.
  intros H Hg. destruct H.
  assert (Hne : forall k, k < length mu -> g <> nth k mu O) by (intros k Hk ->; apply Hg, nth_In, Hk).
  constructor; cbn [skill set_mats st_mats st_next st_heap]; rewrite ?upd_length'; auto.
  - intros k Hk. rewrite upd_nth_other by auto. auto.
  - intros g' Hg'. destruct (Nat.eq_dec g' g) as [->|Hn].
    + rewrite upd_nth_same by lia. apply (s_wfG0 _ Hg').
    + rewrite upd_nth_other by auto. auto.
  - intros g' Hg' Hn'. destruct (Nat.eq_dec g' g) as [->|Hn].
    + rewrite upd_nth_same by lia. rewrite mat_blocks_kill. auto.
    + rewrite upd_nth_other by auto. auto.
Qed.

Lemma sim_push_for G mu S rho m : Sim G mu S rho -> mat_wf0 (st_next G) m ->
  (forall i, (i < st_next S)%N -> ~ In (rho i) (mat_blocks m)) -> Sim (push_mat G m) mu S rho.
Proof.
  intros H Hwf Hm. destruct H.
  constructor; cbn [push_mat set_mats st_mats st_next st_heap]; rewrite ?app_length; cbn [length]; auto.
  - intros g Hin. apply s_rng0 in Hin. lia.
  - intros k Hk. rewrite app_nth1 by (apply s_rng0, nth_In, Hk). auto.
  - intros g Hg. destruct (Nat.eq_dec g (length (st_mats G))) as [->|Hne].
    + rewrite app_nth2, Nat.sub_diag by lia. exact Hwf.
    + rewrite app_nth1 by lia. apply s_wfG0. lia.
  - intros g Hg Hn. destruct (Nat.eq_dec g (length (st_mats G))) as [->|Hne].
    + rewrite app_nth2, Nat.sub_diag by lia. exact Hm.
    + rewrite app_nth1 by lia. apply s_for0; auto. lia.
Qed.

(** ** steps *)
Definition op_in_range (o : op) (n : nat) : Prop :=
  match o with
  | Window h _ _ _ _ | Free h | Write h _ => h < n
  | _ => True
  end.

Definition op_foreign (o : op) (G : state) (mu : list nat) : Prop :=
  match o with
  | Window g _ _ _ _ | Free g | Write g _ => g < length (st_mats G) /\ ~ In g mu
  | _ => True
  end.

Lemma sim_not_mine_fresh G mu S rho j : Sim G mu S rho -> (st_next G <= j)%N -> not_mine S rho j.
Proof. intros H Hj i Hi. pose proof (s_lt _ _ _ _ H i Hi). lia. Qed.

Lemma sim_not_mine_block G mu S rho g j : Sim G mu S rho -> g < length (st_mats G) -> ~ In g mu ->
  In j (mat_blocks (nth g (st_mats G) dummy_mat)) -> not_mine S rho j.
Proof. intros H Hg Hn Hj i Hi E. subst j. eapply (s_for _ _ _ _ H); eauto. Qed.

(* a step of ANOTHER thread (its op already translated to global handles) keeps thread t's relation *)
Lemma foreign_step p G mu S rho o : thread_safe p -> Sim G mu S rho -> op_foreign o G mu ->
  Sim (fst (step p G o)) mu S rho.
Proof.
  intros TS H Hf. destruct o as [r c|g r0 c0 r1 c1|g|g v|]; cbn [step].
  - (* Init *)
    rewrite (ts_init p G r c TS). cbv zeta.
    destruct (negb (N.eqb r 0) && negb (N.eqb c 0)); cbn [fst].
    + apply sim_push_for.
      * apply sim_fill_for; [apply sim_alloc_for, sim_alloc_for, H|].
        eapply sim_not_mine_fresh; [exact H | lia].
      * split; [eexists; reflexivity|]. cbn. intros i [<-|[<-|[]]]; lia.
      * intros i Hi. pose proof (s_lt _ _ _ _ H i Hi). cbn. intros [E|[E|[]]]; lia.
    + apply sim_push_for.
      * apply sim_alloc_for, H.
      * split; [eexists; reflexivity|]. cbn. intros i [<-|[]]; lia.
      * intros i Hi. pose proof (s_lt _ _ _ _ H i Hi). cbn. intros [E|[]]; lia.
  - (* Window *)
    destruct Hf as [Hg Hn]. rewrite (ts_window p G g r0 c0 r1 c1 TS). cbv zeta. cbn [fst].
    pose proof (s_wfG _ _ _ _ H g Hg) as [_ Hids].
    apply sim_push_for.
    + apply sim_alloc_for, H.
    + split; [eexists; reflexivity|]. cbn. unfold mat_blocks, dblk, hblk; cbn.
      intros i Hi. apply in_app_or in Hi as [Hi|[<-|[]]]; [|lia].
      assert (i < st_next G)%N; [|lia]. apply Hids. unfold mat_blocks, dblk. apply in_or_app. left.
      destruct (m_data (nth g (st_mats G) dummy_mat)) as [[b off]|]; cbn in *; auto.
    + intros i Hi. unfold mat_blocks, dblk, hblk; cbn. intros Hin.
      apply in_app_or in Hin as [Hin|[E|[]]].
      * eapply (s_for _ _ _ _ H g Hg Hn i Hi). unfold mat_blocks, dblk. apply in_or_app. left.
        destruct (m_data (nth g (st_mats G) dummy_mat)) as [[b off]|]; cbn in *; auto.
      * pose proof (s_lt _ _ _ _ H i Hi). lia.
  - (* Free *)
    destruct Hf as [Hg Hn]. pose proof (s_wfG _ _ _ _ H g Hg) as [[i Hi] _].
    rewrite (ts_free p G g i TS Hi). cbv zeta. cbn [fst].
    apply sim_free_for.
    + assert (H0 : Sim (skill G g) mu S rho) by (apply sim_kill_for; auto).
      destruct (m_win (nth g (st_mats G) dummy_mat)); cbn [ofree]; auto.
      destruct (dblk (nth g (st_mats G) dummy_mat)) as [b|] eqn:Eb; cbn [ofree]; auto.
      apply sim_free_for; auto. apply (sim_not_mine_block G mu S rho g b H Hg Hn).
      unfold mat_blocks. rewrite Eb. cbn. auto.
    + apply (sim_not_mine_block G mu S rho g i H Hg Hn). unfold mat_blocks, hblk. rewrite Hi. apply in_or_app. right. cbn. auto.
  - (* Write *)
    destruct Hf as [Hg Hn]. unfold do_write.
    destruct (m_data (nth g (st_mats G) dummy_mat)) as [[b off]|] eqn:Ed; cbn [fst]; auto.
    apply (sim_fill_for G mu S rho b v H). apply (sim_not_mine_block G mu S rho g b H Hg Hn).
    unfold mat_blocks, dblk. rewrite Ed. cbn. auto.
  - pose proof (ts_fini p G TS) as E. cbn [step] in E. rewrite E. exact H.
Qed.

Lemma rn_mat_data rho mu m : m_data (rn_mat rho mu m) = rn_data rho (m_data m).
Proof. reflexivity. Qed.

(* a step of thread t itself, on the shared state (handles translated) and on its solo state *)
Lemma own_step p G mu S rho o : thread_safe p -> Sim G mu S rho -> op_in_range o (length mu) ->
  let mu' := if creates o then mu ++ [length (st_mats G)] else mu in
  (exists rho', Sim (fst (step p G (translate mu o))) mu' (fst (step p S o)) rho') /\
  map (obs_ev (fun g => index_of g mu')) (snd (step p G (translate mu o))) =
  map (obs_ev (fun h => h)) (snd (step p S o)).
Proof.
  intros TS H Hr. destruct o as [r c|k r0 c0 r1 c1|k|k v|]; cbn [step translate creates]; cbv zeta.
  - (* Init *)
    rewrite (ts_init p G r c TS), (ts_init p S r c TS). cbv zeta.
    assert (Hnin : ~ In (length (st_mats G)) mu) by (intros Hin; apply (s_rng _ _ _ _ H) in Hin; lia).
    destruct (negb (N.eqb r 0) && negb (N.eqb c 0)); cbn [fst snd].
    + set (nS := st_next S). set (nG := st_next G).
      set (rho1 := rext rho nS nG). set (rho2 := rext rho1 (N.succ nS) (N.succ nG)).
      assert (H1 : Sim (salloc G HDR_SIZE) mu (salloc S HDR_SIZE) rho1) by (apply sim_alloc_own, H).
      assert (H2 : Sim (salloc (salloc G HDR_SIZE) (r * rowstride_of c * 8)) mu
                       (salloc (salloc S HDR_SIZE) (r * rowstride_of c * 8)) rho2) by (apply (sim_alloc_own _ _ _ _ _ H1)).
      assert (E2 : rho2 (N.succ nS) = N.succ nG) by (unfold rho2, rext; rewrite N.eqb_refl; reflexivity).
      assert (E1 : rho2 nS = nG).
      { unfold rho2, rho1, rext. destruct (N.eqb_spec nS (N.succ nS)); [lia|]. rewrite N.eqb_refl. reflexivity. }
      destruct (sim_fill_own _ _ _ _ (N.succ nS) 0%N H2) as [H3 F3]; [cbn; fold nS; lia|].
      rewrite E2 in H3, F3. split.
      * exists rho2.
        replace (mkMat r c (rowstride_of c) (Some (N.succ nG, 0%N)) (HMalloc nG) false true (length (st_mats G)))
          with (rn_mat rho2 (mu ++ [length (st_mats G)])
                  (mkMat r c (rowstride_of c) (Some (N.succ nS, 0%N)) (HMalloc nS) false true (length (st_mats S)))).
        2:{ unfold rn_mat; cbn. rewrite E1, E2. rewrite <- (s_len _ _ _ _ H), app_nth2, Nat.sub_diag by lia. reflexivity. }
        apply (sim_push_own _ _ _ _ _ H3).
        -- split; [split; [eexists; reflexivity|]|cbn; lia].
           cbn. fold nS. intros i [<-|[<-|[]]]; lia.
        -- cbn [m_data]. intros b off E. injection E as <- <-. rewrite E2. exact F3.
      * cbn [map obs_ev is_some]. rewrite index_of_snoc by exact Hnin. rewrite (s_len _ _ _ _ H).
        unfold fill_of. fold nS nG. rewrite F3. reflexivity.
    + set (nS := st_next S). set (nG := st_next G). set (rho1 := rext rho nS nG).
      assert (H1 : Sim (salloc G HDR_SIZE) mu (salloc S HDR_SIZE) rho1) by (apply sim_alloc_own, H).
      assert (E1 : rho1 nS = nG) by (unfold rho1, rext; rewrite N.eqb_refl; reflexivity).
      split.
      * exists rho1.
        replace (mkMat r c (rowstride_of c) None (HMalloc nG) false true (length (st_mats G)))
          with (rn_mat rho1 (mu ++ [length (st_mats G)])
                  (mkMat r c (rowstride_of c) None (HMalloc nS) false true (length (st_mats S)))).
        2:{ unfold rn_mat; cbn. rewrite E1. rewrite <- (s_len _ _ _ _ H), app_nth2, Nat.sub_diag by lia. reflexivity. }
        apply (sim_push_own _ _ _ _ _ H1).
        -- split; [split; [eexists; reflexivity|]|cbn; lia].
           cbn. fold nS. intros i [<-|[]]; lia.
        -- cbn [m_data]. discriminate.
      * cbn [map obs_ev is_some]. rewrite index_of_snoc by exact Hnin. rewrite (s_len _ _ _ _ H). reflexivity.
  - (* Window *)
    cbn in Hr. rewrite (ts_window p G _ r0 c0 r1 c1 TS), (ts_window p S k r0 c0 r1 c1 TS). cbv zeta. cbn [fst snd].
    assert (Hnin : ~ In (length (st_mats G)) mu) by (intros Hin; apply (s_rng _ _ _ _ H) in Hin; lia).
    rewrite (s_mat _ _ _ _ H k Hr).
    set (MS := nth k (st_mats S) dummy_mat). set (nS := st_next S). set (nG := st_next G). set (rho1 := rext rho nS nG).
    assert (HkS : k < length (st_mats S)) by (rewrite <- (s_len _ _ _ _ H); exact Hr).
    destruct (s_wfS _ _ _ _ H k HkS) as [[_ Hids] Hroot]. fold MS in Hids, Hroot.
    assert (H1 : Sim (salloc G HDR_SIZE) mu (salloc S HDR_SIZE) rho1) by (apply sim_alloc_own, H).
    assert (E1 : rho1 nS = nG) by (unfold rho1, rext; rewrite N.eqb_refl; reflexivity).
    assert (Eold : forall i, (i < nS)%N -> rho1 i = rho i).
    { intros i Hi. unfold rho1, rext. destruct (N.eqb_spec i nS); [lia|reflexivity]. }
    cbn [rn_mat m_rows m_cols m_rowstride m_data m_root].
    set (dS := match m_data MS with
               | Some (b, off) => Some (b, (off + r0 * m_rowstride MS + c0 / 64)%N)
               | None => None end).
    assert (Ed : match rn_data rho (m_data MS) with
                 | Some (b, off) => Some (b, (off + r0 * m_rowstride MS + c0 / 64)%N)
                 | None => None end = rn_data rho1 dS).
    { unfold dS, rn_data. destruct (m_data MS) as [[b off]|] eqn:E; cbn; auto.
      rewrite Eold; auto. apply Hids. unfold mat_blocks, dblk. rewrite E. cbn. auto. }
    rewrite Ed. split.
    + exists rho1.
      match goal with |- Sim (push_mat _ ?m) _ _ _ =>
        replace m with (rn_mat rho1 (mu ++ [length (st_mats G)])
          (mkMat (N.min (r1 - r0) (m_rows MS - r0)) (c1 - c0) (m_rowstride MS) dS (HMalloc nS) true true (m_root MS))) end.
      2:{ unfold rn_mat; cbn. rewrite E1. rewrite app_nth1 by (rewrite (s_len _ _ _ _ H); exact Hroot). reflexivity. }
      apply (sim_push_own _ _ _ _ _ H1).
      * split; [split; [eexists; reflexivity|]|cbn; lia].
        unfold mat_blocks, dblk, hblk. cbn. fold nS. intros i Hi. apply in_app_or in Hi as [Hi|[<-|[]]]; [|lia].
        assert (i < nS)%N; [|lia]. apply Hids. unfold mat_blocks, dblk. apply in_or_app. left.
        unfold dS in Hi. destruct (m_data MS) as [[b off]|]; cbn in *; auto.
      * cbn [m_data]. intros b off E. unfold dS in E. destruct (m_data MS) as [[b' off']|] eqn:E'; [|discriminate].
        injection E as <- _. eapply (s_data _ _ _ _ H1 k); eauto.
    + cbn [map obs_ev]. rewrite index_of_snoc by exact Hnin. rewrite (s_len _ _ _ _ H).
      unfold rn_data. destruct dS as [[b off]|]; reflexivity.
  - (* Free *)
    cbn in Hr. assert (HkS : k < length (st_mats S)) by (rewrite <- (s_len _ _ _ _ H); exact Hr).
    destruct (s_wfS _ _ _ _ H k HkS) as [[[i Hi] Hids] _].
    assert (HiG : m_hdr (nth (nth k mu O) (st_mats G) dummy_mat) = HMalloc (rho i)).
    { rewrite (s_mat _ _ _ _ H k Hr). cbn. rewrite Hi. reflexivity. }
    rewrite (ts_free p G _ _ TS HiG), (ts_free p S k i TS Hi). cbv zeta. cbn [fst snd].
    rewrite (s_mat _ _ _ _ H k Hr). cbn [rn_mat m_win].
    set (AS := nth k (st_mats S) dummy_mat) in *.
    assert (Hib : (i < st_next S)%N).
    { apply Hids. unfold mat_blocks, hblk. rewrite Hi. apply in_or_app. right. cbn. auto. }
    assert (H0 : Sim (skill G (nth k mu O)) mu (skill S k) rho) by (apply sim_kill_own; auto).
    assert (Edb : dblk (rn_mat rho mu AS) = option_map rho (dblk AS)).
    { unfold dblk. cbn. unfold rn_data. destruct (m_data AS) as [[b off]|]; reflexivity. }
    fold (rn_mat rho mu AS). rewrite Edb.
    destruct (m_win AS).
    + cbn [ofree ofree_ev app]. split.
      * exists rho. apply (sim_free_own _ _ _ _ i H0). exact Hib.
      * cbn [map obs_ev]. rewrite index_of_nth by (auto; apply (s_nd _ _ _ _ H)). reflexivity.
    + destruct (dblk AS) as [b|] eqn:Eb; cbn [option_map ofree ofree_ev app].
      * assert (Hbb : (b < st_next S)%N).
        { apply Hids. unfold mat_blocks. rewrite Eb. cbn. auto. }
        split.
        -- exists rho. apply (sim_free_own _ _ _ _ i); [|exact Hib]. apply (sim_free_own _ _ _ _ b H0). exact Hbb.
        -- cbn [map obs_ev]. rewrite index_of_nth by (auto; apply (s_nd _ _ _ _ H)). reflexivity.
      * split.
        -- exists rho. apply (sim_free_own _ _ _ _ i H0). exact Hib.
        -- cbn [map obs_ev]. rewrite index_of_nth by (auto; apply (s_nd _ _ _ _ H)). reflexivity.
  - (* Write *)
    cbn in Hr. assert (HkS : k < length (st_mats S)) by (rewrite <- (s_len _ _ _ _ H); exact Hr).
    destruct (s_wfS _ _ _ _ H k HkS) as [[_ Hids] _].
    unfold do_write. rewrite (s_mat _ _ _ _ H k Hr). cbn [rn_mat m_data]. unfold rn_data.
    destruct (m_data (nth k (st_mats S) dummy_mat)) as [[b off]|] eqn:Ed; cbn [option_map fst snd].
    + assert (Hb : (b < st_next S)%N).
      { apply Hids. unfold mat_blocks, dblk. rewrite Ed. cbn. auto. }
      split.
      * exists rho. apply (sim_fill_own _ _ _ _ b v H Hb).
      * cbn [map obs_ev]. rewrite index_of_nth by (auto; apply (s_nd _ _ _ _ H)). reflexivity.
    + split; [exists rho; exact H|].
      cbn [map obs_ev]. rewrite index_of_nth by (auto; apply (s_nd _ _ _ _ H)). reflexivity.
  - (* Fini *)
    pose proof (ts_fini p G TS) as EG. pose proof (ts_fini p S TS) as ES. cbn [step] in EG, ES.
    rewrite EG, ES. cbn [fst snd]. split; [exists rho; exact H | reflexivity].
Qed.

(** ** runs *)
Definition ncreate (l : list op) : nat := length (filter creates l).

Lemma ncreate_snoc l o : ncreate (l ++ [o]) = ncreate l + (if creates o then 1 else 0).
Proof. unfold ncreate. rewrite filter_app, app_length. cbn. destruct (creates o); reflexivity. Qed.

Lemma handles_from_app n l1 l2 :
  handles_from n (l1 ++ l2) = handles_from n l1 && handles_from (n + ncreate l1) l2.
Proof.
  revert n; induction l1 as [|o l1 IH]; intros n.
  - cbn. rewrite Nat.add_0_r. reflexivity.
  - cbn [app handles_from]. rewrite IH, andb_assoc. f_equal. f_equal.
    unfold ncreate. cbn [filter]. destruct (creates o); cbn [length]; lia.
Qed.

Lemma handles_from_one n o : handles_from n [o] = true -> op_in_range o n.
Proof.
  cbn. rewrite andb_true_r. destruct o; cbn; auto; intros H; apply Nat.ltb_lt, H.
Qed.

Lemma run_snoc p l o :
  run p (l ++ [o]) = (fst (step p (fst (run p l)) o), snd (run p l) ++ snd (step p (fst (run p l)) o)).
Proof.
  unfold run, run_from. rewrite fold_left_app. cbn [fold_left].
  destruct (fold_left _ l (init_state p, [])) as [s tr]. cbn [fst snd]. destruct (step p s o). reflexivity.
Qed.

Lemma crun_snoc p n sched x :
  crun p n (sched ++ [x]) =
  let r := crun p n sched in
  let c' := fst (cstep p (fst r) x) in
  (c', snd r ++ map (fun e => (fst x, obs_ev (fun g => index_of g (nth (fst x) (c_map c') [])) e))
                    (snd (cstep p (fst r) x))).
Proof.
  unfold crun, crun_from. rewrite fold_left_app. cbn [fold_left].
  destruct (fold_left _ sched (cinit p n, [])) as [c tr]. cbv zeta. cbn [fst snd]. destruct (cstep p c x). reflexivity.
Qed.

Lemma proj_snoc A t (l : list (nat * A)) u a :
  proj t (l ++ [(u, a)]) = proj t l ++ (if Nat.eqb u t then [a] else []).
Proof. rewrite proj_app, proj_cons. destruct (Nat.eqb u t); reflexivity. Qed.

Lemma proj_tagged A B t u (f : B -> A) (l : list B) :
  proj t (map (fun e => (u, f e)) l) = if Nat.eqb u t then map f l else [].
Proof.
  unfold proj. induction l as [|b l IH]; cbn.
  - destruct (Nat.eqb u t); reflexivity.
  - destruct (Nat.eqb u t) eqn:E; cbn; [f_equal|]; exact IH.
Qed.

Lemma sim_init p : Sim (init_state p) [] (init_state p) (fun i => i).
Proof.
  constructor; cbn; auto; try (intros; lia); try tauto.
  - constructor.
  - split; [constructor | intros i []].
  - split; [constructor | intros i []].
Qed.

Record GInv (p : params) (n : nat) (sched : list (nat * op)) (r : cstate * list (nat * obs)) : Prop := mkGInv {
  g_len : length (c_map (fst r)) = n;
  g_cnt : forall t, t < n -> length (nth t (c_map (fst r)) []) = ncreate (proj t sched);
  g_dis : forall t u, t < n -> u < n -> t <> u ->
          forall g, In g (nth t (c_map (fst r)) []) -> ~ In g (nth u (c_map (fst r)) []);
  g_sim : forall t, t < n ->
          exists rho, Sim (c_sys (fst r)) (nth t (c_map (fst r)) []) (fst (run p (proj t sched))) rho;
  g_obs : forall t, t < n -> proj t (snd r) = map (obs_ev (fun h => h)) (snd (run p (proj t sched)))
}.

Lemma translate_foreign mu_u mu_t G o :
  op_in_range o (length mu_u) -> (forall g, In g mu_u -> g < length (st_mats G)) ->
  (forall g, In g mu_u -> ~ In g mu_t) -> op_foreign (translate mu_u o) G mu_t.
Proof.
  intros Hr Hlt Hd. destruct o; cbn in *; auto; split; try (apply Hlt, nth_In, Hr); apply Hd, nth_In, Hr.
Qed.

Lemma crun_inv p n : thread_safe p -> forall sched,
  (forall x, In x sched -> fst x < n) -> (forall t, handles_ok (proj t sched) = true) ->
  GInv p n sched (crun p n sched).
Proof.
  intros TS sched. induction sched as [|[u o] sched IH] using rev_ind; intros Hthr Hok.
  - unfold crun, crun_from. cbn [fold_left]. constructor; cbn [fst snd cinit c_map c_sys].
    + apply repeat_length.
    + intros t Ht. rewrite nth_repeat. reflexivity.
    + intros t u' _ _ _ g. rewrite nth_repeat. intros [].
    + intros t Ht. rewrite nth_repeat. exists (fun i => i). apply sim_init.
    + intros t Ht. reflexivity.
  - assert (Hthr' : forall x, In x sched -> fst x < n) by (intros x Hx; apply Hthr, in_or_app; auto).
    assert (Hu : u < n) by (apply (Hthr (u, o)), in_or_app; right; cbn; auto).
    assert (Hok' : forall t, handles_ok (proj t sched) = true).
    { intros t. specialize (Hok t). unfold handles_ok in *. rewrite proj_snoc, handles_from_app in Hok.
      apply andb_true_iff in Hok. tauto. }
    specialize (IH Hthr' Hok'). destruct IH as [Ilen Icnt Idis Isim Iobs].
    assert (Hrange : op_in_range o (length (nth u (c_map (fst (crun p n sched))) []))).
    { specialize (Hok u). unfold handles_ok in Hok. rewrite proj_snoc, Nat.eqb_refl, handles_from_app in Hok.
      apply andb_true_iff in Hok as [_ Hok]. apply handles_from_one in Hok. rewrite Icnt by exact Hu. exact Hok. }
    rewrite crun_snoc. cbv zeta. destruct (crun p n sched) as [c tr]. cbn [fst snd] in *.
    set (mu := nth u (c_map c) []) in *. set (G := c_sys c) in *.
    destruct (Isim u Hu) as [rho_u Su]. fold mu in Su.
    pose proof (own_step p G mu _ rho_u o TS Su Hrange) as [[rho_u' Su'] Eobs]. cbv zeta in Su', Eobs.
    unfold cstep. cbn [fst snd]. fold mu G.
    destruct (step p G (translate mu o)) as [G' evG] eqn:EG. cbn [fst snd] in *.
    set (mu' := if creates o then mu ++ [length (st_mats G)] else mu) in *.
    assert (Hnth : forall t, nth t (upd (c_map c) u mu') [] = if Nat.eqb u t then mu' else nth t (c_map c) []).
    { intros t. destruct (Nat.eqb_spec u t) as [<-|Hne].
      - apply upd_nth_same. lia.
      - apply upd_nth_other. exact Hne. }
    assert (Hmu'_in : forall g, In g mu' -> In g mu \/ g = length (st_mats G)).
    { intros g. unfold mu'. destruct (creates o); auto. intros Hin. apply in_app_or in Hin as [|[<-|[]]]; auto. }
    constructor; cbn [fst snd c_map c_sys].
    + rewrite upd_length'. exact Ilen.
    + intros t Ht. rewrite Hnth, proj_snoc. destruct (Nat.eqb_spec u t) as [<-|Hne].
      * rewrite ncreate_snoc, <- Icnt by exact Hu. fold mu. unfold mu'.
        destruct (creates o); [rewrite app_length; cbn; lia | lia].
      * rewrite app_nil_r. apply Icnt, Ht.
    + intros t u' Ht Hu' Hne g. rewrite !Hnth.
      destruct (Nat.eqb_spec u t) as [<-|Hut]; destruct (Nat.eqb_spec u u') as [<-|Huu]; try congruence.
      * intros Hin. apply Hmu'_in in Hin as [Hin| ->]; [apply (Idis u u'); auto|].
        destruct (Isim u' Hu') as [rho' S']. intros Hin. apply (s_rng _ _ _ _ S') in Hin. fold G in Hin. lia.
      * intros Hin Hin'. apply Hmu'_in in Hin' as [Hin'| ->]; [apply (Idis t u Ht Hu Hne g); auto|].
        destruct (Isim t Ht) as [rho' S']. apply (s_rng _ _ _ _ S') in Hin. fold G in Hin. lia.
      * apply Idis; auto.
    + intros t Ht. rewrite Hnth, proj_snoc. destruct (Nat.eqb_spec u t) as [<-|Hne].
      * rewrite run_snoc. cbn [fst]. exists rho_u'. exact Su'.
      * rewrite app_nil_r. destruct (Isim t Ht) as [rho_t St]. exists rho_t.
        replace G' with (fst (step p G (translate mu o))) by (rewrite EG; reflexivity).
        apply foreign_step; auto. apply translate_foreign; auto.
        -- intros g Hg. apply (s_rng _ _ _ _ Su), Hg.
        -- intros g Hg. apply (Idis u t); auto.
    + intros t Ht. rewrite proj_app, proj_tagged, proj_snoc. rewrite Hnth, Nat.eqb_refl.
      destruct (Nat.eqb_spec u t) as [<-|Hne].
      * rewrite run_snoc. cbn [snd]. rewrite map_app, Iobs by exact Hu. f_equal. exact Eobs.
      * rewrite !app_nil_r. apply Iobs, Ht.
Qed.

(** ** views *)
Lemma view_sim G mu S rho : Sim G mu S rho ->
  map (fun g => view G (fun h => index_of h mu) (nth g (st_mats G) dummy_mat)) mu =
  map (view S (fun h => h)) (st_mats S).
Proof.
  intros H.
  apply (nth_ext _ _ (view G (fun h => index_of h mu) (nth O (st_mats G) dummy_mat)) (view S (fun h => h) dummy_mat)).
  - rewrite !map_length. apply (s_len _ _ _ _ H).
  - intros k Hk. rewrite map_length in Hk.
    rewrite (map_nth (fun g => view G (fun h => index_of h mu) (nth g (st_mats G) dummy_mat)) mu O k).
    rewrite (map_nth (view S (fun h => h))).
    rewrite (s_mat _ _ _ _ H k Hk). set (mS := nth k (st_mats S) dummy_mat).
    assert (HkS : k < length (st_mats S)) by (rewrite <- (s_len _ _ _ _ H); exact Hk).
    destruct (s_wfS _ _ _ _ H k HkS) as [[_ Hids] Hroot]. fold mS in Hids, Hroot.
    unfold view. cbn [rn_mat m_rows m_cols m_rowstride m_data m_hdr m_win m_live m_root]. f_equal.
    + unfold rn_data. destruct (m_data mS) as [[b off]|]; reflexivity.
    + apply index_of_nth; [apply (s_nd _ _ _ _ H)|]. rewrite (s_len _ _ _ _ H). exact Hroot.
    + unfold rn_data. destruct (m_data mS) as [[b off]|] eqn:E; cbn; auto. eapply (s_data _ _ _ _ H k); eauto.
    + unfold rn_hdr. destruct (m_hdr mS) as [|i] eqn:E; cbn; auto. apply (s_size _ _ _ _ H).
      apply Hids. unfold mat_blocks, hblk. rewrite E. apply in_or_app. right. cbn. auto.
Qed.

(** ** C15: every thread observes, in every interleaving, exactly what it observes running alone *)
Theorem interleave_indep p : thread_safe p ->
  forall progs sched, interleaving sched progs ->
  (forall t, handles_ok (nth t progs []) = true) ->
  forall t, t < length progs ->
  observe t (crun p (length progs) sched) = observe_solo (run p (nth t progs [])).
Proof.
  intros TS progs sched Hil Hok t Ht.
  pose proof (interleaving_proj _ _ _ Hil) as Hproj.
  assert (HG : GInv p (length progs) sched (crun p (length progs) sched)).
  { apply crun_inv; auto.
    - apply (interleaving_threads _ _ _ Hil).
    - intros u. rewrite Hproj. apply Hok. }
  destruct HG as [_ _ _ Isim Iobs]. unfold observe, observe_solo. rewrite <- Hproj.
  rewrite (Iobs t Ht). f_equal. destruct (Isim t Ht) as [rho St]. eapply view_sim; eauto.
Qed.

(* Alloc.wf_ops (no use after free, no double free, ...) implies the handle discipline assumed above *)
Lemma upd_len_hinfo (hs : hinfo) h v : length (upd hs h v) = length hs.
Proof. apply upd_length'. Qed.

Lemma h_live_lt hs h : h_live hs h = true -> h < length hs.
Proof.
  unfold h_live. destruct (nth_error hs h) eqn:E; [|discriminate]. intros _.
  apply nth_error_Some. congruence.
Qed.

Lemma wf_from_handles hs ops : wf_from hs ops = true -> handles_from (length hs) ops = true.
Proof.
  revert hs; induction ops as [|o ops IH]; intros hs; cbn [wf_from handles_from]; auto.
  intros H. apply andb_true_iff in H as [H1 H2]. apply IH in H2. apply andb_true_iff.
  destruct o as [r c|h r0 c0 r1 c1|h|h v|]; cbn [op_ok op_track creates] in *;
    rewrite ?app_length, ?upd_len_hinfo in H2; cbn [length] in H2; rewrite ?Nat.add_1_r in H2;
    (split; [|exact H2]); auto.
  - apply Nat.ltb_lt, h_live_lt, H1.
  - apply Nat.ltb_lt, h_live_lt, H1.
  - apply andb_true_iff in H1 as [H1 _]. apply Nat.ltb_lt, h_live_lt, H1.
Qed.

Corollary interleave_indep_wf p : thread_safe p ->
  forall progs sched, interleaving sched progs ->
  (forall t, wf_ops (nth t progs []) = true) ->
  forall t, t < length progs ->
  observe t (crun p (length progs) sched) = observe_solo (run p (nth t progs [])).
Proof.
  intros TS progs sched Hil Hwf. apply interleave_indep; auto.
  intros t. apply (wf_from_handles [] _ (Hwf t)).
Qed.

(** * Instances used by the non-vacuity examples of Properties_C15.v / Properties_C16.v *)
(* a kernel call on quadrant w: xors into every word of the quadrant a value read from A *)
Definition bump (w : window) (v : N) : mem wloc N -> mem wloc N :=
  fun m l => if foot_C w l then N.lxor (m l) (N.lxor v (m (RA, O, O))) else m l.

Lemma bump_ok w v : task_ok (quadrant_task w (bump w v)).
Proof.
  split; cbn; unfold bump.
  - intros m l ->. reflexivity.
  - intros m m' H l Hl. rewrite Hl. rewrite (H l), (H (RA, O, O)); auto. rewrite Hl. reflexivity.
Qed.

(* a row iteration: xors a table word into every word of row j *)
Definition row_bump (j : nat) : mem wloc N -> mem wloc N :=
  fun m l => if row_foot j l then N.lxor (m l) (m (RT, O, O)) else m l.

Lemma row_bump_ok j : task_ok (row_task row_bump j).
Proof.
  split; cbn; unfold row_bump.
  - intros m l ->. reflexivity.
  - intros m m' H l Hl. rewrite Hl. rewrite (H l), (H (RT, O, O)); auto. rewrite Hl. reflexivity.
Qed.

Definition table_fill (z : nat) : mem wloc N -> mem wloc N :=
  fun m l => if table_foot z l then m (RB, z, O) else m l.

Lemma table_fill_ok z : task_ok (table_task table_fill z).
Proof.
  split; cbn; unfold table_fill.
  - intros m l ->. reflexivity.
  - intros m m' H l Hl. rewrite Hl. apply H. reflexivity.
Qed.
