(* Sys/IOProofs.v — C18: proofs about the models of Sys/IO.v. *)
From Coq Require Import List NArith ZArith Arith Bool Lia ZifyBool ZifyNat ZifyN.
From M4 Require Import Base.Bits Lin.Mat Sys.IO.
Import ListNotations.
Ltac Zify.zify_post_hook ::= Z.div_mod_to_equations.
Local Open Scope nat_scope.

(** * Checked buffers *)
Fixpoint upd (i : nat) (v : N) (b : buf) : buf :=
  match b, i with
  | [], _ => []
  | _ :: t, 0 => v :: t
  | x :: t, S i' => x :: upd i' v t
  end.

Lemma bset_upd i v b : i < length b -> bset i v b = Some (upd i v b).
Proof.
  revert i; induction b as [|x b IH]; intros i Hi; cbn in Hi; [lia|].
  destruct i as [|i]; cbn; [reflexivity|]. rewrite IH by lia. reflexivity.
Qed.

Lemma bset_None i v b : length b <= i -> bset i v b = None.
Proof.
  revert i; induction b as [|x b IH]; intros i Hi; [now destruct i|].
  destruct i as [|i]; cbn in *; [lia|]. rewrite IH by lia. reflexivity.
Qed.

Lemma upd_length i v b : length (upd i v b) = length b.
Proof. revert i; induction b as [|x b IH]; intros [|i]; cbn; auto. Qed.

Lemma nth_upd i v b k d : i < length b -> nth k (upd i v b) d = if k =? i then v else nth k b d.
Proof.
  revert i k; induction b as [|x b IH]; intros i k Hi; cbn in Hi; [lia|].
  destruct i as [|i], k as [|k]; cbn [upd nth]; try reflexivity.
  rewrite IH by lia. destruct (Nat.eqb_spec k i), (Nat.eqb_spec (S k) (S i)); try lia; reflexivity.
Qed.

Fixpoint app_writes (l : list (nat * N)) (b : buf) : buf :=
  match l with [] => b | (i, v) :: r => app_writes r (upd i v b) end.

Lemma app_writes_length l : forall b, length (app_writes l b) = length b.
Proof. induction l as [|[i v] l IH]; intros b; cbn; [reflexivity|]. now rewrite IH, upd_length. Qed.

Lemma writes_ok l : forall b, (forall p, In p l -> fst p < length b) -> writes l b = Some (app_writes l b).
Proof.
  induction l as [|[i v] l IH]; intros b H; cbn; [reflexivity|].
  rewrite bset_upd by (apply (H (i, v)); now left).
  apply IH. intros p Hp. rewrite upd_length. apply H. now right.
Qed.

Lemma nth_word_writes j w ks : forall b i, (forall k, In k ks -> k < 8 /\ 8 * j + k < length b) ->
  nth i (app_writes (word_writes j w ks) b) 0%N =
  if (i / 8 =? j) && existsb (Nat.eqb (i mod 8)) ks then byte_of w (i mod 8) else nth i b 0%N.
Proof.
  induction ks as [|k ks IH]; intros b i H; cbn [word_writes map app_writes existsb].
  - now rewrite andb_false_r.
  - change (map (fun k0 => (8 * j + k0, byte_of w k0)) ks) with (word_writes j w ks).
    destruct (H k (or_introl eq_refl)) as [Hk8 Hkb].
    rewrite IH by (intros k' Hk'; rewrite upd_length; apply H; now right).
    rewrite nth_upd by assumption.
    destruct (Nat.eqb_spec (i / 8) j) as [Hj|Hj]; cbn [andb].
    + destruct (existsb (Nat.eqb (i mod 8)) ks); [now rewrite orb_true_r|]. rewrite orb_false_r.
      destruct (Nat.eqb_spec (i mod 8) k) as [Hk|Hk], (Nat.eqb_spec i (8 * j + k)) as [Hi|Hi];
        try reflexivity; try lia. now rewrite Hk.
    + destruct (Nat.eqb_spec i (8 * j + k)); [lia|reflexivity].
Qed.

(** * The tail switch selects the bytes [nb-1 .. 0] *)
Lemma switch_sel_tail c : c < 8 ->
  switch_sel c false tail_labels = rev (seq 0 (if c =? 0 then 8 else c)).
Proof. intros H. do 8 (destruct c as [|c]; [reflexivity|]). lia. Qed.

Lemma existsb_rev_seq x m : existsb (Nat.eqb x) (rev (seq 0 m)) = (x <? m).
Proof.
  destruct (Nat.ltb_spec x m) as [H|H].
  - apply existsb_exists. exists x. split; [|apply Nat.eqb_refl]. rewrite <- in_rev. apply in_seq. lia.
  - destruct (existsb (Nat.eqb x) (rev (seq 0 m))) eqn:E; [|reflexivity].
    apply existsb_exists in E as [y [Hy Hxy]]. rewrite <- in_rev in Hy. apply in_seq in Hy.
    apply Nat.eqb_eq in Hxy. lia.
Qed.

Lemma existsb_all8 x : existsb (Nat.eqb x) all8 = (x <? 8).
Proof. do 8 (destruct x as [|x]; [reflexivity|]). reflexivity. Qed.

Lemma existsb_rev8 x : existsb (Nat.eqb x) rev8 = (x <? 8).
Proof. do 8 (destruct x as [|x]; [reflexivity|]). reflexivity. Qed.

(** * Geometry *)
Definition tail_nb (n : nat) : nat := if tail_case n =? 0 then 8 else tail_case n.

Lemma rowbytes_eq n : rowbytes n = (n + 7) / 8.
Proof. unfold rowbytes. destruct (Nat.eqb_spec (n mod 8) 0); lia. Qed.

Lemma geometry n : 1 <= n ->
  1 <= width n /\ 1 <= tail_nb n <= 8 /\ rowbytes n = 8 * (width n - 1) + tail_nb n /\
  64 * (width n - 1) < n <= 64 * width n.
Proof.
  intros Hn. unfold tail_nb, tail_case. rewrite rowbytes_eq. unfold width.
  destruct (Nat.eqb_spec (((n + 7) / 8) mod 8) 0); lia.
Qed.

Lemma tail_case_lt n : tail_case n < 8.
Proof. unfold tail_case. lia. Qed.

Lemma tail_sel n x : existsb (Nat.eqb x) (switch_sel (tail_case n) false tail_labels) = (x <? tail_nb n).
Proof. rewrite switch_sel_tail by apply tail_case_lt. apply existsb_rev_seq. Qed.

Lemma tail_sel_In n k : In k (switch_sel (tail_case n) false tail_labels) -> k < tail_nb n.
Proof.
  intros H. rewrite switch_sel_tail in H by apply tail_case_lt. rewrite <- in_rev in H. apply in_seq in H.
  unfold tail_nb. lia.
Qed.

(** the buffers m4ri allocates are large enough for a 1-bit row *)
Lemma rowbytes_le_from n : rowbytes n <= from_png_bufsize n.
Proof. rewrite rowbytes_eq. unfold from_png_bufsize. lia. Qed.
Lemma rowbytes_le_to n : rowbytes n <= to_png_bufsize n.
Proof. rewrite rowbytes_eq. unfold to_png_bufsize. lia. Qed.

(** * mzd_to_png *)
Lemma all8_In k : In k all8 -> k < 8.
Proof. cbn. lia. Qed.

Lemma pack_main_spec cnt : forall j ws b, 8 * (j + cnt) <= length b ->
  exists b', pack_main cnt j ws b = Some b' /\ length b' = length b /\
    forall i, nth i b' 0%N =
      if (8 * j <=? i) && (i <? 8 * (j + cnt)) then byte_of (nth (i / 8) ws 0%N) (i mod 8) else nth i b 0%N.
Proof.
  induction cnt as [|cnt IH]; intros j ws b Hb; cbn [pack_main].
  - exists b. repeat split. intros i. destruct (Nat.leb_spec (8 * j) i), (Nat.ltb_spec i (8 * (j + 0))); cbn; try reflexivity; lia.
  - rewrite writes_ok.
    2:{ intros p Hp. apply in_map_iff in Hp as [k [<- Hk]]. apply all8_In in Hk. cbn [fst]. lia. }
    destruct (IH (S j) ws (app_writes (word_writes j (nth j ws 0%N) all8) b)) as [b' [E [Hl Hn]]].
    { rewrite app_writes_length. lia. }
    exists b'. split; [exact E|]. split; [now rewrite Hl, app_writes_length|].
    intros i. rewrite Hn, nth_word_writes by (intros k Hk; apply all8_In in Hk; lia).
    rewrite existsb_all8.
    destruct (Nat.leb_spec (8 * S j) i), (Nat.ltb_spec i (8 * (S j + cnt))), (Nat.leb_spec (8 * j) i),
      (Nat.ltb_spec i (8 * (j + S cnt))), (Nat.eqb_spec (i / 8) j), (Nat.ltb_spec (i mod 8) 8);
      cbn [andb]; try reflexivity; try lia.
    now subst j.
Qed.

Lemma pack_row_buf_spec n ws b : 1 <= n -> rowbytes n <= length b ->
  exists b', png_pack_row_buf n ws b = Some b' /\ length b' = length b /\
    forall i, nth i b' 0%N = if i <? rowbytes n then byte_of (nth (i / 8) ws 0%N) (i mod 8) else nth i b 0%N.
Proof.
  intros Hn Hb. destruct (geometry n Hn) as [Hw [Hnb [Hrb _]]]. unfold png_pack_row_buf.
  destruct (pack_main_spec (width n - 1) 0 ws b) as [b1 [E1 [Hl1 Hn1]]]; [lia|]. rewrite E1.
  rewrite writes_ok.
  2:{ intros p Hp. apply in_map_iff in Hp as [k [<- Hk]]. apply tail_sel_In in Hk. cbn [fst]. lia. }
  eexists. split; [reflexivity|]. split; [now rewrite app_writes_length|].
  intros i. rewrite nth_word_writes by (intros k Hk; apply tail_sel_In in Hk; lia).
  rewrite tail_sel, Hn1.
  destruct (Nat.eqb_spec (i / 8) (width n - 1)) as [Hj|Hj], (Nat.ltb_spec (i mod 8) (tail_nb n)),
    (Nat.leb_spec (8 * 0) i), (Nat.ltb_spec i (8 * (0 + (width n - 1)))), (Nat.ltb_spec i (rowbytes n));
    cbn [andb]; try reflexivity; try lia.
  now rewrite Hj.
Qed.

(** no store of mzd_to_png leaves the buffer, whatever the row contains; the bytes handed to libpng are
    the little-endian bytes of the words *)
Lemma png_pack_row_spec n ws : 1 <= n ->
  exists bytes, png_pack_row n ws = Some bytes /\ length bytes = rowbytes n /\
    forall i, i < rowbytes n -> nth i bytes 0%N = byte_of (nth (i / 8) ws 0%N) (i mod 8).
Proof.
  intros Hn. unfold png_pack_row.
  destruct (pack_row_buf_spec n ws (repeat 0%N (to_png_bufsize n)) Hn) as [b' [E [Hl Hnth]]].
  { rewrite repeat_length. apply rowbytes_le_to. }
  rewrite E. rewrite repeat_length in Hl. pose proof (rowbytes_le_to n).
  destruct (Nat.leb_spec (rowbytes n) (length b')); [|lia].
  eexists. split; [reflexivity|]. split; [rewrite firstn_length; lia|].
  intros i Hi. rewrite nth_firstn_lt by assumption. rewrite Hnth.
  destruct (Nat.ltb_spec i (rowbytes n)); [reflexivity|lia].
Qed.

(** the buffer is reused from row to row: its previous contents do not matter *)
Lemma png_pack_buf_indep n ws b : 1 <= n -> length b = to_png_bufsize n ->
  exists b', png_pack_row_buf n ws b = Some b' /\ png_pack_row n ws = Some (firstn (rowbytes n) b').
Proof.
  intros Hn Hb. pose proof (rowbytes_le_to n).
  destruct (pack_row_buf_spec n ws b Hn) as [b' [E [Hl Hnth]]]; [lia|].
  exists b'. split; [exact E|].
  destruct (png_pack_row_spec n ws Hn) as [bytes [E2 [Hl2 Hn2]]]. rewrite E2. f_equal.
  apply (list_ext_nth 0%N); [rewrite firstn_length; lia|].
  intros i Hi. rewrite nth_firstn_lt by lia. rewrite Hn2, Hnth by lia.
  destruct (Nat.ltb_spec i (rowbytes n)); [reflexivity|lia].
Qed.

(** * mzd_from_png *)
Lemma blit_ok src : forall i b, i + length src <= length b ->
  exists b', blit src i b = Some b' /\ length b' = length b /\
    forall k, nth k b' 0%N = if (i <=? k) && (k <? i + length src) then nth (k - i) src 0%N else nth k b 0%N.
Proof.
  induction src as [|x src IH]; intros i b H; cbn [blit length] in *.
  - exists b. repeat split. intros k. destruct (Nat.leb_spec i k), (Nat.ltb_spec k (i + 0)); cbn; try reflexivity; lia.
  - rewrite bset_upd by lia.
    destruct (IH (S i) (upd i x b)) as [b' [E [Hl Hn]]]; [rewrite upd_length; lia|].
    exists b'. split; [exact E|]. split; [now rewrite Hl, upd_length|].
    intros k. rewrite Hn, nth_upd by lia.
    destruct (Nat.leb_spec (S i) k), (Nat.ltb_spec k (S i + length src)), (Nat.leb_spec i k),
      (Nat.ltb_spec k (i + S (length src))), (Nat.eqb_spec k i); cbn [andb]; try reflexivity; try lia.
    + replace (k - i) with (S (k - S i)) by lia. reflexivity.
    + subst k. now rewrite Nat.sub_diag.
Qed.

(** more bytes than the buffer holds: libpng's store leaves the buffer *)
Lemma blit_overflow src : forall i b, i <= length b -> length b < i + length src -> blit src i b = None.
Proof.
  induction src as [|x src IH]; intros i b Hle H; cbn [blit length] in *; [lia|].
  destruct (Nat.lt_ge_cases i (length b)) as [Hi|Hi].
  - rewrite bset_upd by assumption. apply IH; rewrite upd_length; lia.
  - now rewrite bset_None.
Qed.

Fixpoint gather_val (j : nat) (ks : list nat) (b : buf) (tmp : N) : N :=
  match ks with
  | [] => tmp
  | k :: r => gather_val j r b (N.lor tmp (N.shiftl (nth (8 * j + k) b 0%N) (N.of_nat (8 * k))))
  end.

Lemma gather_ok j ks b : forall tmp, (forall k, In k ks -> 8 * j + k < length b) ->
  gather j ks b tmp = Some (gather_val j ks b tmp).
Proof.
  induction ks as [|k ks IH]; intros tmp H; cbn [gather gather_val]; [reflexivity|].
  unfold bget. rewrite (nth_error_nth' b 0%N) by (apply H; now left).
  apply IH. intros k' Hk'. apply H. now right.
Qed.

Definition bytes_ok (b : list N) : Prop := forall i, (nth i b 0 < 256)%N.

Lemma byte_high x q : (x < 256)%N -> 8 <= q -> N.testbit x (N.of_nat q) = false.
Proof. intros Hx Hq. apply (proj2 (bounded_lt 8 x)); [exact Hx|exact Hq]. Qed.

Lemma testbit_gather_val j ks b p : bytes_ok b -> forall tmp,
  N.testbit (gather_val j ks b tmp) (N.of_nat p) =
  N.testbit tmp (N.of_nat p) ||
  (existsb (Nat.eqb (p / 8)) ks && N.testbit (nth (8 * j + p / 8) b 0%N) (N.of_nat (p mod 8))).
Proof.
  intros Hb. induction ks as [|k ks IH]; intros tmp; cbn [gather_val existsb].
  - now rewrite orb_false_r.
  - rewrite IH, N.lor_spec, testbit_shiftl_nat, <- orb_assoc. f_equal.
    destruct (Nat.eqb_spec (p / 8) k) as [Hk|Hk]; cbn [orb andb].
    + subst k. destruct (Nat.leb_spec (8 * (p / 8)) p); [|lia]. cbn [andb].
      replace (p - 8 * (p / 8)) with (p mod 8) by lia.
      destruct (N.testbit (nth (8 * j + p / 8) b 0%N) (N.of_nat (p mod 8))); [reflexivity|].
      now rewrite andb_false_r.
    + destruct (Nat.leb_spec (8 * k) p); cbn [andb]; [|reflexivity].
      rewrite byte_high; [reflexivity|apply Hb|lia].
Qed.

Lemma rev8_In k : In k rev8 -> k < 8.
Proof. cbn. lia. Qed.

Lemma unpack_main_spec cnt : forall j b, 8 * (j + cnt) <= length b ->
  exists l, unpack_main cnt j b = Some l /\ length l = cnt /\
    forall i, i < cnt -> nth i l 0%N = not64 (gather_val (j + i) rev8 b 0%N).
Proof.
  induction cnt as [|cnt IH]; intros j b H; cbn [unpack_main].
  - exists []. repeat split. intros i Hi. lia.
  - rewrite gather_ok by (intros k Hk; apply rev8_In in Hk; lia).
    destruct (IH (S j) b) as [l [E [Hl Hn]]]; [lia|]. rewrite E.
    eexists. split; [reflexivity|]. split; [cbn; now rewrite Hl|].
    intros [|i] Hi; cbn [nth]; [now rewrite Nat.add_0_r|].
    rewrite Hn by lia. now rewrite Nat.add_succ_r.
Qed.

Lemma ones64_ones : ones64 = N.ones (N.of_nat 64).
Proof. reflexivity. Qed.

Lemma testbit_not64 x p : N.testbit (not64 x) (N.of_nat p) = xorb (N.testbit x (N.of_nat p)) (p <? 64).
Proof. unfold not64. now rewrite N.lxor_spec, ones64_ones, testbit_ones_nat. Qed.

Lemma testbit_high_bitmask n p : 1 <= n ->
  N.testbit (high_bitmask n) (N.of_nat p) = (p <? n - 64 * (width n - 1)).
Proof.
  intros Hn. destruct (geometry n Hn) as [Hw [_ [_ Hg]]]. unfold high_bitmask.
  rewrite testbit_shiftr_nat, ones64_ones, testbit_ones_nat. unfold width in *.
  destruct (Nat.ltb_spec (p + (64 - n mod 64) mod 64) 64), (Nat.ltb_spec p (n - 64 * ((n + 63) / 64 - 1)));
    try reflexivity; lia.
Qed.

(** what libpng must deliver for the reader to rebuild [ws]: the complemented matrix bits, LSB first
    within each byte; the padding bits of the last byte are arbitrary *)
Definition delivers (n : nat) (ws del : list N) : Prop :=
  length del = rowbytes n /\ bytes_ok del /\
  forall q, q < n ->
    N.testbit (nth (q / 8) del 0%N) (N.of_nat (q mod 8)) =
    negb (N.testbit (nth (q / 64) ws 0%N) (N.of_nat (q mod 64))).

Theorem png_unpack_spec n ws del : 1 <= n -> wf_row n ws -> delivers n ws del ->
  png_unpack_row n del = Some ws.
Proof.
  intros Hn [Hlen Hwf] [Hdl [Hdb Hbits]]. destruct (geometry n Hn) as [Hw [Hnb [Hrb Hg]]].
  pose proof (rowbytes_le_from n) as Hfb. pose proof (rowbytes_eq n) as Hre. unfold png_unpack_row.
  destruct (blit_ok del 0 (repeat 0%N (from_png_bufsize n))) as [b [E [Hl Hb]]]; [rewrite repeat_length; lia|].
  rewrite E. rewrite repeat_length in Hl.
  assert (Hbn : forall k, nth k b 0%N = if k <? rowbytes n then nth k del 0%N else 0%N).
  { intros k. rewrite Hb, Hdl, Nat.sub_0_r. destruct (Nat.leb_spec 0 k); [|lia]. cbn [andb plus].
    destruct (Nat.ltb_spec k (rowbytes n)); [reflexivity|].
    destruct (Nat.lt_ge_cases k (from_png_bufsize n)); [apply nth_repeat|].
    apply nth_overflow. now rewrite repeat_length. }
  assert (Hbok : bytes_ok b).
  { intros k. rewrite Hbn. destruct (k <? rowbytes n); [apply Hdb|reflexivity]. }
  unfold png_unpack_row_buf.
  destruct (unpack_main_spec (width n - 1) 0 b) as [main [Em [Hml Hmn]]]; [lia|]. rewrite Em.
  rewrite gather_ok by (intros k Hk; apply tail_sel_In in Hk; lia).
  f_equal. apply (list_ext_nth 0%N); [rewrite app_length, Hml; cbn [length]; lia|].
  intros i Hi. rewrite app_length, Hml in Hi. cbn [length] in Hi.
  apply bits_ext_nat. intros p.
  destruct (Nat.lt_ge_cases i (width n - 1)) as [Him|Him].
  - (* a full word *)
    rewrite app_nth1 by lia. rewrite Hmn by assumption. cbn [plus].
    rewrite testbit_not64, testbit_gather_val by assumption. rewrite N.bits_0, existsb_rev8. cbn [orb].
    destruct (Nat.ltb_spec p 64) as [Hp|Hp].
    + destruct (Nat.ltb_spec (p / 8) 8); [|lia]. cbn [andb].
      specialize (Hbits (64 * i + p) ltac:(lia)).
      replace ((64 * i + p) / 8) with (8 * i + p / 8) in Hbits by lia.
      replace ((64 * i + p) mod 8) with (p mod 8) in Hbits by lia.
      replace ((64 * i + p) / 64) with i in Hbits by lia.
      replace ((64 * i + p) mod 64) with p in Hbits by lia.
      rewrite Hbn. destruct (Nat.ltb_spec (8 * i + p / 8) (rowbytes n)); [|lia].
      rewrite Hbits. now destruct (N.testbit (nth i ws 0%N) (N.of_nat p)).
    + destruct (Nat.ltb_spec (p / 8) 8); [lia|]. cbn [andb xorb]. symmetry. apply Hwf. now left.
  - (* the last word *)
    assert (i = width n - 1) by lia. subst i.
    rewrite app_nth2 by lia. rewrite Hml, Nat.sub_diag. cbn [nth].
    rewrite N.lor_0_l, N.land_spec, testbit_not64, testbit_high_bitmask, testbit_gather_val by assumption.
    rewrite N.bits_0, tail_sel. cbn [orb].
    destruct (Nat.ltb_spec p (n - 64 * (width n - 1))) as [Hp|Hp].
    + destruct (Nat.ltb_spec p 64); [|lia]. destruct (Nat.ltb_spec (p / 8) (tail_nb n)); [|lia]. cbn [andb].
      specialize (Hbits (64 * (width n - 1) + p) ltac:(lia)).
      replace ((64 * (width n - 1) + p) / 8) with (8 * (width n - 1) + p / 8) in Hbits by lia.
      replace ((64 * (width n - 1) + p) mod 8) with (p mod 8) in Hbits by lia.
      replace ((64 * (width n - 1) + p) / 64) with (width n - 1) in Hbits by lia.
      replace ((64 * (width n - 1) + p) mod 64) with p in Hbits by lia.
      rewrite Hbn. destruct (Nat.ltb_spec (8 * (width n - 1) + p / 8) (rowbytes n)); [|lia].
      rewrite Hbits. now destruct (N.testbit (nth (width n - 1) ws 0%N) (N.of_nat p)).
    + rewrite andb_false_r. symmetry. apply Hwf. right. lia.
Qed.

(** * The libpng oracle composed: the two packswaps cancel, invert_mono remains *)
Lemma forallb_seq_lt (f : nat -> bool) m : forallb f (seq 0 m) = true -> forall k, k < m -> f k = true.
Proof. intros H k Hk. rewrite forallb_forall in H. apply H. apply in_seq. lia. Qed.

Lemma byte_cases (P : N -> bool) :
  forallb (fun k => P (N.of_nat k)) (seq 0 256) = true -> forall b, (b < 256)%N -> P b = true.
Proof. intros H b Hb. rewrite <- (N2Nat.id b). apply (forallb_seq_lt _ 256 H). lia. Qed.

Lemma channel_byte b : (b < 256)%N -> libpng_read_xform (libpng_write_xform b) = N.lxor b 255.
Proof.
  intros Hb. apply N.eqb_eq.
  apply (byte_cases (fun b => N.eqb (libpng_read_xform (libpng_write_xform b)) (N.lxor b 255))); [|exact Hb].
  vm_compute. reflexivity.
Qed.

Lemma lxor255_lt b : (b < 256)%N -> (N.lxor b 255 < 256)%N.
Proof.
  intros Hb. apply N.ltb_lt.
  apply (byte_cases (fun b => N.ltb (N.lxor b 255) 256)); [|exact Hb]. vm_compute. reflexivity.
Qed.

Lemma testbit_byte_of w k t :
  N.testbit (byte_of w k) (N.of_nat t) = (t <? 8) && N.testbit w (N.of_nat (8 * k + t)).
Proof.
  unfold byte_of. change 255%N with (N.ones (N.of_nat 8)).
  rewrite N.land_spec, testbit_shiftr_nat, testbit_ones_nat, andb_comm. do 2 f_equal. lia.
Qed.

Lemma byte_of_lt w k : (byte_of w k < 256)%N.
Proof.
  change 256%N with (2 ^ N.of_nat 8)%N. apply bounded_lt. unfold byte_of.
  change 255%N with (N.ones (N.of_nat 8)). apply bounded_land_r, bounded_ones.
Qed.

(** ** PNG row round trip, for every width and every well-formed row *)
Theorem png_roundtrip n ws : 1 <= n -> wf_row n ws ->
  exists bytes, png_pack_row n ws = Some bytes /\
                png_unpack_row n (png_delivered (png_file_row bytes)) = Some ws.
Proof.
  intros Hn Hwf. destruct (png_pack_row_spec n ws Hn) as [bytes [E [Hl Hnth]]].
  exists bytes. split; [exact E|]. apply png_unpack_spec; [assumption..|].
  assert (Hlt : forall x, In x bytes -> (x < 256)%N).
  { intros x Hx. destruct (In_nth _ _ 0%N Hx) as [i [Hi <-]]. rewrite Hnth by lia. apply byte_of_lt. }
  assert (Hdel : png_delivered (png_file_row bytes) = map (fun b => N.lxor b 255) bytes).
  { unfold png_delivered, png_file_row. rewrite map_map. apply map_ext_in. intros x Hx.
    apply channel_byte, Hlt, Hx. }
  rewrite Hdel. split; [now rewrite map_length|]. split.
  - intros i. destruct (Nat.lt_ge_cases i (length bytes)) as [Hi|Hi].
    + rewrite (nth_map_default _ _ _ 0%N) by assumption. apply lxor255_lt, Hlt, nth_In, Hi.
    + rewrite nth_overflow by now rewrite map_length. reflexivity.
  - intros q Hq. pose proof (rowbytes_eq n).
    rewrite (nth_map_default _ _ _ 0%N) by lia. rewrite Hnth by lia.
    rewrite N.lxor_spec, testbit_byte_of. change 255%N with (N.ones (N.of_nat 8)). rewrite testbit_ones_nat.
    destruct (Nat.ltb_spec (q mod 8) 8); [|lia]. cbn [andb].
    replace (q / 8 / 8) with (q / 64) by lia.
    replace (8 * ((q / 8) mod 8) + q mod 8) with (q mod 64) by lia.
    now destruct (N.testbit (nth (q / 64) ws 0%N) (N.of_nat (q mod 64))).
Qed.

(** ** Bounds.  Writer: every store and libpng's read of [rowbytes n] bytes stay inside the
    [n/8 + 8] buffer, for ANY row contents. *)
Theorem png_pack_bounds n ws : 1 <= n ->
  exists bytes, png_pack_row n ws = Some bytes /\ length bytes = rowbytes n /\
                length bytes <= to_png_bufsize n.
Proof.
  intros Hn. destruct (png_pack_row_spec n ws Hn) as [bytes [E [Hl _]]].
  exists bytes. repeat split; [exact E|exact Hl|]. rewrite Hl. apply rowbytes_le_to.
Qed.

Lemma png_rowbytes_depth1 n ct : ct = 0 \/ ct = 3 -> png_rowbytes_gen n 1 ct = rowbytes n.
Proof. intros [->| ->]; unfold png_rowbytes_gen; cbn [png_channels]; rewrite rowbytes_eq; f_equal; lia. Qed.

(** Reader, 1-bit image of width n: libpng's [rowbytes n] bytes fit the [n/8 + 1] buffer, and the loops
    read only indices below [rowbytes n] (they succeed on a buffer of exactly that length). *)
Theorem png_unpack_bounds n del : 1 <= n -> length del = png_rowbytes_gen n 1 0 ->
  length del <= from_png_bufsize n /\
  (exists ws, png_unpack_row n del = Some ws /\ length ws = width n) /\
  (exists ws, png_unpack_row_buf n del = Some ws).
Proof.
  intros Hn Hl. rewrite png_rowbytes_depth1 in Hl by now left.
  destruct (geometry n Hn) as [Hw [Hnb [Hrb Hg]]]. pose proof (rowbytes_le_from n) as Hfb.
  assert (Hbuf : forall b, rowbytes n <= length b -> exists ws, png_unpack_row_buf n b = Some ws /\ length ws = width n).
  { intros b Hb. unfold png_unpack_row_buf.
    destruct (unpack_main_spec (width n - 1) 0 b) as [main [Em [Hml _]]]; [lia|]. rewrite Em.
    rewrite gather_ok by (intros k Hk; apply tail_sel_In in Hk; lia).
    eexists. split; [reflexivity|]. rewrite app_length, Hml. cbn [length]. lia. }
  split; [lia|]. split.
  - unfold png_unpack_row.
    destruct (blit_ok del 0 (repeat 0%N (from_png_bufsize n))) as [b [E [Hlb _]]]; [rewrite repeat_length; lia|].
    rewrite E. apply Hbuf. rewrite Hlb, repeat_length. lia.
  - destruct (Hbuf del) as [ws [E _]]; [lia|]. now exists ws.
Qed.

(** ** The header checks.  With the bit-depth check every accepted image delivers rows that fit. *)
Theorem png_header_fits ih : png_header png_fixed ih = PAccept ->
  png_rowbytes_gen (ih_w ih) (ih_depth ih) (ih_ctype ih) <= from_png_bufsize (ih_w ih) /\
  (N.of_nat (ih_w ih) <= mzd_init_ncols_max)%N.
Proof.
  unfold png_header, png_fixed. cbn [pchk_depth pchk_dims andb].
  destruct (Nat.eqb_spec (ih_interlace ih) 0); cbn [negb]; [|discriminate].
  destruct (Nat.eqb_spec (ih_ctype ih) 0) as [Hc|Hc], (Nat.eqb_spec (ih_ctype ih) 3) as [Hc3|Hc3]; cbn [orb negb];
    try discriminate;
    (destruct (Nat.eqb_spec (ih_depth ih) 1) as [Hd|Hd]; cbn [negb]; [|discriminate]);
    (destruct (N.ltb_spec mzd_init_ncols_max (N.of_nat (ih_w ih))); [discriminate|]); intros _;
    (split; [|assumption]); rewrite Hd, png_rowbytes_depth1 by auto; apply rowbytes_le_from.
Qed.

(** The pinned code reads the bit depth and never checks it: an ordinary 8-bit grey image of width 2
    makes png_read_row store 2 bytes into the 1-byte row buffer. *)
Theorem png_depth_refuted :
  exists ih, png_valid_combo (ih_ctype ih) (ih_depth ih) = true /\ png_header png_pinned ih = PAccept /\
    forall del, length del = png_rowbytes_gen (ih_w ih) (ih_depth ih) (ih_ctype ih) ->
                png_unpack_row (ih_w ih) del = None.
Proof.
  exists {| ih_w := 2; ih_h := 1; ih_depth := 8; ih_ctype := 0; ih_interlace := 0 |}.
  split; [reflexivity|]. split; [reflexivity|]. cbn [ih_w ih_depth ih_ctype]. intros del Hl.
  unfold png_unpack_row. rewrite blit_overflow; [reflexivity|lia|].
  rewrite Hl. vm_compute. lia.
Qed.

(** a legal PNG width above INT_MAX - 63 reaches mzd_init, whose [(c + 63) / 64] overflows *)
Theorem png_dims_refuted :
  exists ih, png_valid_combo (ih_ctype ih) (ih_depth ih) = true /\ forall del, png_read png_pinned ih del = PBadInit.
Proof.
  exists {| ih_w := N.to_nat 2147483647; ih_h := 1; ih_depth := 1; ih_ctype := 0; ih_interlace := 0 |}.
  split; [reflexivity|]. intros del. unfold png_read, png_header. cbn [ih_w ih_h ih_depth ih_ctype ih_interlace].
  rewrite N2Nat.id. reflexivity.
Qed.

(** ** Rows as numbers *)
Lemma words_of_length w : forall r, length (words_of w r) = w.
Proof. induction w as [|w IH]; intros r; cbn; [reflexivity|]. now rewrite IH. Qed.

Lemma testbit_words_of w : forall r j p,
  N.testbit (nth j (words_of w r) 0%N) (N.of_nat p) = (j <? w) && (p <? 64) && N.testbit r (N.of_nat (64 * j + p)).
Proof.
  induction w as [|w IH]; intros r j p; cbn [words_of].
  - destruct j; cbn [nth]; now rewrite N.bits_0.
  - destruct j as [|j]; cbn [nth].
    + rewrite N.land_spec, ones64_ones, testbit_ones_nat. cbn [andb]. rewrite andb_comm. do 2 f_equal. 
    + rewrite IH. change 64%N with (N.of_nat 64). rewrite testbit_shiftr_nat.
      replace (64 * j + p + 64) with (64 * S j + p) by lia.
      destruct (Nat.ltb_spec j w), (Nat.ltb_spec (S j) (S w)); try lia; reflexivity.
Qed.

Lemma testbit_row_of ws : (forall j p, 64 <= p -> N.testbit (nth j ws 0%N) (N.of_nat p) = false) ->
  forall q, N.testbit (row_of ws) (N.of_nat q) = N.testbit (nth (q / 64) ws 0%N) (N.of_nat (q mod 64)).
Proof.
  induction ws as [|x ws IH]; intros H q; cbn [row_of].
  - destruct (q / 64); cbn [nth]; now rewrite !N.bits_0.
  - change 64%N with (N.of_nat 64). rewrite N.lor_spec, testbit_shiftl_nat.
    destruct (Nat.leb_spec 64 q) as [Hq|Hq]; cbn [andb].
    + pose proof (H 0 q Hq) as H0. cbn [nth] in H0. rewrite H0. cbn [orb]. rewrite IH by (intros j p Hp; apply (H (S j) p Hp)).
      replace (q / 64) with (S ((q - 64) / 64)) by lia. cbn [nth]. do 2 f_equal. lia.
    + rewrite orb_false_r. replace (q / 64) with 0 by lia. cbn [nth]. do 2 f_equal. lia.
Qed.

Lemma wf_row_words_of n r : bounded n r -> wf_row n (words_of (width n) r).
Proof.
  intros Hb. split; [apply words_of_length|]. intros j k H. rewrite testbit_words_of.
  destruct (Nat.ltb_spec j (width n)), (Nat.ltb_spec k 64); cbn [andb]; try reflexivity.
  destruct H as [H|H]; [lia|]. now apply Hb.
Qed.

Lemma row_of_words_of n r : bounded n r -> row_of (words_of (width n) r) = r.
Proof.
  intros Hb. apply bits_ext_nat. intros q. rewrite testbit_row_of.
  - rewrite testbit_words_of. replace (64 * (q / 64) + q mod 64) with q by lia.
    destruct (Nat.ltb_spec (q mod 64) 64); [|lia].
    destruct (Nat.ltb_spec (q / 64) (width n)) as [Hw|Hw]; cbn [andb]; [reflexivity|].
    symmetry. apply Hb. unfold width in Hw. lia.
  - intros j p Hp. rewrite testbit_words_of. destruct (Nat.ltb_spec p 64); [lia|]. now rewrite andb_false_r.
Qed.

(** ** Whole matrices: write as 1-bit PNG, read back, get the same matrix (both variants of the
    header checks accept what the writer produces). *)
Theorem png_roundtrip_mat chk M : wf M -> 1 <= nc M -> (N.of_nat (nc M) <= mzd_init_ncols_max)%N ->
  exists ih fr, png_write M = Some (ih, fr) /\ png_read chk ih (map png_delivered fr) = POk M.
Proof.
  destruct M as [r c rs]. unfold wf. cbn [nr nc rows]. intros [Hl Hb] Hc Hmax.
  assert (Hrows : exists fr, png_write_rows c rs = Some fr /\ png_read_rows c (map png_delivered fr) = Some rs).
  { clear Hl. induction Hb as [|x rs Hx Hb IH]; cbn [png_write_rows]; [now exists []|].
    destruct (png_roundtrip c (words_of (width c) x) Hc (wf_row_words_of c x Hx)) as [bytes [E1 E2]].
    rewrite E1. destruct IH as [fr [E3 E4]]. rewrite E3. eexists. split; [reflexivity|].
    cbn [map png_read_rows]. rewrite E2, E4, row_of_words_of by assumption. reflexivity. }
  destruct Hrows as [fr [E1 E2]]. unfold png_write. cbn [nr nc rows]. rewrite E1.
  do 2 eexists. split; [reflexivity|]. unfold png_read, png_header. cbn [ih_w ih_h ih_depth ih_ctype ih_interlace].
  rewrite !Nat.eqb_refl. cbn [negb orb andb]. rewrite andb_false_r.
  destruct (N.ltb_spec mzd_init_ncols_max (N.of_nat c)); [lia|]. now rewrite E2.
Qed.

(** with the repaired header checks no image whose rows libpng delivers at their declared length
    makes the reader leave its buffer or call mzd_init outside its domain *)
Theorem png_read_safe ih del : 1 <= ih_w ih ->
  Forall (fun d => length d = png_rowbytes_gen (ih_w ih) (ih_depth ih) (ih_ctype ih)) del ->
  png_read png_fixed ih del <> POutOfBounds /\ png_read png_fixed ih del <> PBadInit.
Proof.
  intros Hw Hdel. unfold png_read. destruct (png_header png_fixed ih) eqn:Eh; try (split; discriminate).
  - assert (Hd : ih_depth ih = 1 /\ (ih_ctype ih = 0 \/ ih_ctype ih = 3)).
    { revert Eh. unfold png_header, png_fixed. cbn [pchk_depth pchk_dims andb].
      destruct (Nat.eqb_spec (ih_interlace ih) 0); cbn [negb]; [|discriminate].
      destruct (Nat.eqb_spec (ih_ctype ih) 0), (Nat.eqb_spec (ih_ctype ih) 3); cbn [orb negb]; try discriminate;
        (destruct (Nat.eqb_spec (ih_depth ih) 1); cbn [negb]; [|discriminate]); auto. }
    destruct Hd as [Hd Hc]. rewrite Hd in Hdel.
    assert (Hr : exists rs, png_read_rows (ih_w ih) del = Some rs).
    { induction Hdel as [|d del Hd1 _ IH]; cbn [png_read_rows]; [now exists []|].
      rewrite png_rowbytes_depth1 in Hd1 by assumption.
      destruct (png_unpack_bounds (ih_w ih) d Hw) as [_ [[ws [E _]] _]].
      { now rewrite png_rowbytes_depth1 by now left. }
      rewrite E. destruct IH as [rs Er]. rewrite Er. eexists. reflexivity. }
    destruct Hr as [rs Er]. rewrite Er. split; discriminate.
  - exfalso. revert Eh. unfold png_header, png_fixed. cbn [pchk_depth pchk_dims andb].
    destruct (negb (ih_interlace ih =? 0)); [discriminate|].
    destruct (negb ((ih_ctype ih =? 0) || (ih_ctype ih =? 3))); [discriminate|].
    destruct (negb (ih_depth ih =? 1)); [discriminate|].
    destruct (mzd_init_ncols_max <? N.of_nat (ih_w ih))%N; discriminate.
Qed.

(** * mzd_from_jcf *)
Local Open Scope Z_scope.

Definition safe_outcome (o : outcome) : Prop :=
  match o with OutOfBounds _ _ | Overflow | InitPre => False | _ => True end.

Lemma to_int_id z : -2147483648 <= z < 2147483648 -> to_int z = z.
Proof. intros H. unfold to_int. lia. Qed.

Lemma set_row_spec rs : forall r c rs', set_row rs r c = Some rs' ->
  (r < length rs)%nat /\ length rs' = length rs /\
  forall a, nth a rs' 0%N =
            if (a =? r)%nat then N.lor (N.ldiff (nth a rs 0%N) (N.shiftl 1 c)) (N.shiftl 1 c) else nth a rs 0%N.
Proof.
  induction rs as [|x rs IH]; intros r c rs' H; cbn [set_row] in H; [discriminate|].
  destruct r as [|r].
  - injection H as <-. cbn [length]. repeat split; [lia|]. intros [|a]; reflexivity.
  - destruct (set_row rs r c) as [t'|] eqn:E; [|discriminate]. injection H as <-.
    destruct (IH r c t' E) as [Hr [Hl Hn]]. cbn [length]. repeat split; [lia|lia|].
    intros [|a]; cbn [nth]; [reflexivity|]. rewrite Hn.
    destruct (Nat.eqb_spec a r), (Nat.eqb_spec (S a) (S r)); try lia; reflexivity.
Qed.

Lemma set_row_ok rs : forall r c, (r < length rs)%nat -> exists rs', set_row rs r c = Some rs'.
Proof.
  induction rs as [|x rs IH]; intros r c H; cbn [length] in H; [lia|]. destruct r as [|r]; cbn [set_row].
  - eexists. reflexivity.
  - destruct (IH r c) as [t' E]; [lia|]. rewrite E. eexists. reflexivity.
Qed.

Lemma testbit_setbit x c (b : nat) : 0 <= c ->
  N.testbit (N.lor (N.ldiff x (N.shiftl 1 (Z.to_N c))) (N.shiftl 1 (Z.to_N c))) (N.of_nat b) =
  N.testbit x (N.of_nat b) || (Z.of_nat b =? c).
Proof.
  intros Hc. rewrite N.lor_spec, N.ldiff_spec, N.shiftl_1_l, N.pow2_bits_eqb.
  destruct (Z.eqb_spec (Z.of_nat b) c), (N.eqb_spec (Z.to_N c) (N.of_nat b)); try lia;
    destruct (N.testbit x (N.of_nat b)); reflexivity.
Qed.

(** ** denotation as a list, equivalent to the declarative [jcf_denotes] *)
Fixpoint den_from (i : Z) (toks : list Z) : list (Z * Z) :=
  match toks with
  | [] => []
  | t :: r => if t <? 0 then (i + 1, - t - 1) :: den_from (i + 1) r else (i, t - 1) :: den_from i r
  end.

Definition sgn_neg (t : Z) : Z := if t <? 0 then 1 else 0.

Lemma den_from_cons i t r :
  den_from i (t :: r) = (i + sgn_neg t, Z.abs t - 1) :: den_from (i + sgn_neg t) r.
Proof.
  cbn [den_from]. unfold sgn_neg. destruct (Z.ltb_spec t 0).
  - now replace (- t - 1) with (Z.abs t - 1) by lia.
  - rewrite Z.add_0_r. now replace (t - 1) with (Z.abs t - 1) by lia.
Qed.

Lemma den_from_spec toks : forall i a b,
  In (a, b) (den_from i toks) <->
  exists k t, nth_error toks k = Some t /\ b = Z.abs t - 1 /\ a = i + count_neg (firstn (S k) toks).
Proof.
  induction toks as [|t r IH]; intros i a b.
  - cbn [den_from In]. split; [tauto|]. intros [k [t [H _]]]. destruct k; discriminate.
  - rewrite den_from_cons. cbn [In]. rewrite IH. split.
    + intros [H|[k [t' [Hn [Hb Ha]]]]].
      * injection H as <- <-. exists 0%nat, t. cbn [nth_error firstn count_neg]. fold (sgn_neg t).
        repeat split. lia.
      * exists (S k), t'. cbn [nth_error]. repeat split; try assumption.
        change (firstn (S (S k)) (t :: r)) with (t :: firstn (S k) r). cbn [count_neg]. fold (sgn_neg t). lia.
    + intros [[|k] [t' [Hn [Hb Ha]]]].
      * left. cbn [nth_error] in Hn. injection Hn as <-. cbn [firstn count_neg] in Ha. fold (sgn_neg t) in Ha.
        f_equal; lia.
      * right. exists k, t'. cbn [nth_error] in Hn. repeat split; try assumption.
        change (firstn (S (S k)) (t :: r)) with (t :: firstn (S k) r) in Ha. cbn [count_neg] in Ha.
        fold (sgn_neg t) in Ha. lia.
Qed.

Lemma jcf_denotes_den toks i j : jcf_denotes toks i j <-> In (i, j) (den_from (-1) toks).
Proof.
  rewrite den_from_spec. unfold jcf_denotes.
  split; intros [k [t [H1 [H2 H3]]]]; exists k, t; repeat split; try assumption; lia.
Qed.

(** ** one loop iteration *)
Lemma jcf_step_inr chk m n rs i j o : jcf_step chk m n rs i j = inr o -> forall M, o <> Ok M.
Proof.
  unfold jcf_step, jcf_write. cbv zeta.
  repeat match goal with |- context [if ?c then _ else _] => destruct c end;
    try (intros H; injection H as <-; discriminate).
  destruct (set_row _ _ _); intros H; [discriminate|]. injection H as <-. discriminate.
Qed.

Lemma jcf_loop_cons chk m n i t rest rs M : jcf_loop chk m n i (t :: rest) rs = Ok M ->
  exists rs', jcf_step chk m n rs (i + sgn_neg t) (Z.abs t) = inl rs' /\
              jcf_loop chk m n (i + sgn_neg t) rest rs' = Ok M.
Proof.
  cbn [jcf_loop]. unfold sgn_neg. destruct (Z.ltb_spec t 0) as [Ht|Ht].
  - destruct (chk_negate chk && (t <? - n)); [discriminate|].
    destruct (t =? LONG_MIN); [discriminate|].
    rewrite (Z.abs_neq t) by lia.
    destruct (jcf_step chk m n rs (i + 1) (- t)) as [rs'|o] eqn:E.
    + intros H. now exists rs'.
    + intros H. exfalso. exact (jcf_step_inr _ _ _ _ _ _ _ E M H).
  - rewrite Z.abs_eq, Z.add_0_r by lia.
    destruct (jcf_step chk m n rs i t) as [rs'|o] eqn:E.
    + intros H. now exists rs'.
    + intros H. exfalso. exact (jcf_step_inr _ _ _ _ _ _ _ E M H).
Qed.

Lemma jcf_step_inl chk m n rs i j rs' : chk_row_hi chk = true -> chk_col_hi chk = true ->
  0 <= m <= INT_MAX -> 0 <= n <= INT_MAX - 63 -> -1 <= i -> 0 <= j ->
  jcf_step chk m n rs i j = inl rs' ->
  0 <= i < m /\ 0 <= j - 1 < n /\ set_row rs (Z.to_nat i) (Z.to_N (j - 1)) = Some rs'.
Proof.
  unfold INT_MAX. intros Hr Hc Hm Hn Hi Hj. unfold jcf_step. rewrite Hr, Hc. cbv zeta. cbn [andb].
  destruct (Z.leb_spec n (j - 1)), (Z.leb_spec m i); cbn [orb]; try discriminate.
  destruct (_ || _); [discriminate|].
  unfold jcf_write. cbv zeta. rewrite !to_int_id by lia.
  destruct (Z.leb_spec 0 i), (Z.ltb_spec i m), (Z.leb_spec 0 (j - 1)), (Z.ltb_spec (j - 1) n); cbn [andb];
    try discriminate.
  destruct (set_row rs (Z.to_nat i) (Z.to_N (j - 1))) as [r'|]; [|discriminate].
  intros Heq. injection Heq as <-. repeat split; lia.
Qed.

Lemma jcf_loop_exact chk m n : chk_row_hi chk = true -> chk_col_hi chk = true ->
  0 <= m <= INT_MAX -> 0 <= n <= INT_MAX - 63 ->
  forall toks i rs M, -1 <= i -> length rs = Z.to_nat m -> Forall (bounded (Z.to_nat n)) rs ->
  jcf_loop chk m n i toks rs = Ok M ->
  nr M = Z.to_nat m /\ nc M = Z.to_nat n /\ length (rows M) = Z.to_nat m /\
  Forall (bounded (Z.to_nat n)) (rows M) /\
  (forall p, In p (den_from i toks) -> 0 <= fst p < m /\ 0 <= snd p < n) /\
  (forall a b : nat, N.testbit (nth a (rows M) 0%N) (N.of_nat b) = true <->
     N.testbit (nth a rs 0%N) (N.of_nat b) = true \/ In (Z.of_nat a, Z.of_nat b) (den_from i toks)).
Proof.
  intros Hr Hc Hm Hn. induction toks as [|t rest IH]; intros i rs M Hi Hl Hb H.
  - cbn [jcf_loop] in H. injection H as <-. cbn [nr nc rows den_from In]. repeat split; try assumption; tauto.
  - apply jcf_loop_cons in H as [rs' [Hs Hloop]].
    assert (Hi' : -1 <= i + sgn_neg t) by (unfold sgn_neg; destruct (t <? 0); lia).
    apply jcf_step_inl in Hs as [Hri [Hrc Hset]]; try assumption; [|lia].
    apply set_row_spec in Hset as [Hlt [Hl' Hn']].
    assert (Hb' : Forall (bounded (Z.to_nat n)) rs').
    { apply Forall_forall. intros x Hx. destruct (In_nth _ _ 0%N Hx) as [a [Ha <-]]. rewrite Hn'.
      assert (Hba : bounded (Z.to_nat n) (nth a rs 0%N)).
      { rewrite Forall_forall in Hb. apply Hb, nth_In. lia. }
      destruct (a =? Z.to_nat (i + sgn_neg t))%nat; [|exact Hba].
      intros b Hbn. rewrite testbit_setbit by lia. rewrite (Hba b Hbn).
      destruct (Z.eqb_spec (Z.of_nat b) (Z.abs t - 1)); [lia|reflexivity]. }
    destruct (IH (i + sgn_neg t) rs' M Hi' ltac:(lia) Hb' Hloop) as [H1 [H2 [H3 [H4 [H5 H6]]]]].
    rewrite den_from_cons. repeat split; try assumption.
    + destruct H as [<-|H]; cbn [fst snd]; [lia|]. now apply H5.
    + destruct H as [<-|H]; cbn [fst snd]; [lia|]. now apply H5.
    + destruct H as [<-|H]; cbn [fst snd]; [lia|]. now apply H5.
    + destruct H as [<-|H]; cbn [fst snd]; [lia|]. now apply H5.
    + rewrite H6, Hn'. cbn [In].
      destruct (Nat.eqb_spec a (Z.to_nat (i + sgn_neg t))) as [Ha|Ha].
      * rewrite testbit_setbit by lia. rewrite orb_true_iff, Z.eqb_eq. intros [[H|H]|H]; auto.
        right. left. f_equal; lia.
      * intros [H|H]; auto.
    + rewrite H6, Hn'. cbn [In].
      destruct (Nat.eqb_spec a (Z.to_nat (i + sgn_neg t))) as [Ha|Ha].
      * rewrite testbit_setbit by lia. rewrite orb_true_iff, Z.eqb_eq. intros [H|[H|H]]; auto.
        injection H as H1' H2'. left. right. lia.
      * intros [H|[H|H]]; auto. injection H as H1' H2'. lia.
Qed.

Lemma bad_dims_false m n : bad_dims m n = false -> 0 <= m <= INT_MAX /\ 0 <= n <= INT_MAX - 63.
Proof. unfold bad_dims. lia. Qed.

Lemma jcf_parse_ok_inv chk h toks M : jcf_parse chk h toks = Ok M ->
  h_conv h = 4 /\ h_p h = 2 /\ bad_dims (h_m h) (h_n h) = false /\
  jcf_loop chk (h_m h) (h_n h) (-1) toks (repeat 0%N (Z.to_nat (h_m h))) = Ok M.
Proof.
  unfold jcf_parse.
  destruct (Z.eqb_spec (h_conv h) 4); cbn [negb]; [|discriminate].
  destruct (Z.eqb_spec (h_p h) 2); cbn [negb]; [|discriminate].
  destruct (bad_dims (h_m h) (h_n h)); [destruct (chk_dims chk); discriminate|]. auto.
Qed.

(** ** an accepted file yields exactly the matrix its text denotes (pinned and repaired code alike) *)
Theorem jcf_exact chk h toks M : chk_row_hi chk = true -> chk_col_hi chk = true ->
  jcf_parse chk h toks = Ok M ->
  h_conv h = 4 /\ h_p h = 2 /\ wf M /\ Z.of_nat (nr M) = h_m h /\ Z.of_nat (nc M) = h_n h /\
  jcf_valid (h_m h) (h_n h) toks /\
  forall a b : nat, get M a b = true <-> jcf_denotes toks (Z.of_nat a) (Z.of_nat b).
Proof.
  intros Hr Hc H. apply jcf_parse_ok_inv in H as [H1 [H2 [Hd Hloop]]].
  apply bad_dims_false in Hd as [Hm Hn].
  apply jcf_loop_exact in Hloop as [E1 [E2 [E3 [E4 [E5 E6]]]]]; try assumption; try lia.
  2:{ now rewrite repeat_length. }
  2:{ apply Forall_forall. intros x Hx. apply repeat_spec in Hx as ->. apply bounded_0. }
  repeat split; try assumption; try lia.
  - now rewrite E2.
  - apply jcf_denotes_den in H. apply E5 in H. cbn [fst] in H. lia.
  - apply jcf_denotes_den in H. apply E5 in H. cbn [fst] in H. lia.
  - apply jcf_denotes_den in H. apply E5 in H. cbn [snd] in H. lia.
  - apply jcf_denotes_den in H. apply E5 in H. cbn [snd] in H. lia.
  - unfold get, row. rewrite E6. intros [H|H]; [|now apply jcf_denotes_den].
    exfalso. destruct (Nat.lt_ge_cases a (Z.to_nat (h_m h))).
    + rewrite nth_repeat in H. now rewrite N.bits_0 in H.
    + rewrite nth_overflow in H by now rewrite repeat_length. now rewrite N.bits_0 in H.
  - unfold get, row. rewrite E6. intros H. right. now apply jcf_denotes_den.
Qed.

(** ** every valid text is accepted, whichever guards are present *)
Lemma jcf_loop_complete chk m n : 0 <= m <= INT_MAX -> 0 <= n <= INT_MAX - 63 ->
  forall toks i rs, -1 <= i -> length rs = Z.to_nat m ->
  (forall p, In p (den_from i toks) -> 0 <= fst p < m /\ 0 <= snd p < n) ->
  exists M, jcf_loop chk m n i toks rs = Ok M.
Proof.
  unfold INT_MAX. intros Hm Hn. induction toks as [|t rest IH]; intros i rs Hi Hl Hv.
  - eexists. reflexivity.
  - rewrite den_from_cons in Hv. pose proof (Hv _ (or_introl eq_refl)) as [Hvi Hvj]. cbn [fst snd] in Hvi, Hvj.
    assert (Hstep : exists rs', jcf_step chk m n rs (i + sgn_neg t) (Z.abs t) = inl rs' /\ length rs' = length rs).
    { unfold jcf_step. cbv zeta.
      destruct (Z.leb_spec n (Z.abs t - 1)); [lia|]. destruct (Z.leb_spec m (i + sgn_neg t)); [lia|].
      rewrite !andb_false_r. cbn [orb].
      destruct (Z.ltb_spec (i + sgn_neg t) 0); [lia|]. destruct (Z.ltb_spec (Z.abs t - 1) 0); [lia|].
      rewrite !andb_false_r. cbn [orb].
      unfold jcf_write. cbv zeta. rewrite !to_int_id by lia.
      destruct (Z.leb_spec 0 (i + sgn_neg t)), (Z.ltb_spec (i + sgn_neg t) m), (Z.leb_spec 0 (Z.abs t - 1)),
        (Z.ltb_spec (Z.abs t - 1) n); try lia. cbn [andb].
      destruct (set_row_ok rs (Z.to_nat (i + sgn_neg t)) (Z.to_N (Z.abs t - 1))) as [rs' E]; [lia|].
      rewrite E. exists rs'. split; [reflexivity|]. now apply set_row_spec in E. }
    destruct Hstep as [rs' [Hs Hl']].
    destruct (IH (i + sgn_neg t) rs') as [M HM]; [unfold sgn_neg; destruct (t <? 0); lia|lia| |].
    { intros p Hp. apply Hv. now right. }
    exists M. cbn [jcf_loop]. unfold sgn_neg in *. destruct (Z.ltb_spec t 0) as [Ht|Ht].
    + destruct (Z.ltb_spec t (- n)); [lia|]. rewrite andb_false_r.
      unfold LONG_MIN. destruct (Z.eqb_spec t (-9223372036854775808)); [lia|].
      rewrite (Z.abs_neq t) in Hs by lia. now rewrite Hs.
    + rewrite Z.abs_eq, Z.add_0_r in Hs by lia. rewrite Hs. now rewrite Z.add_0_r in HM.
Qed.

Theorem jcf_complete chk h toks : h_conv h = 4 -> h_p h = 2 ->
  0 <= h_m h <= INT_MAX -> 0 <= h_n h <= INT_MAX - 63 -> jcf_valid (h_m h) (h_n h) toks ->
  exists M, jcf_parse chk h toks = Ok M.
Proof.
  intros H1 H2 Hm Hn Hv. unfold jcf_parse. rewrite H1, H2. cbn [Z.eqb Pos.eqb negb].
  assert (Hd : bad_dims (h_m h) (h_n h) = false) by (unfold bad_dims, INT_MAX in *; lia). rewrite Hd.
  apply jcf_loop_complete; try assumption; try lia; [now rewrite repeat_length|].
  intros [a b] Hp. apply jcf_denotes_den in Hp. apply Hv in Hp. cbn [fst snd]. lia.
Qed.

(** ** memory safety of the repaired reader, for every header and every entry list *)
Lemma jcf_step_fixed m n rs i j : 0 <= m <= INT_MAX -> 0 <= n <= INT_MAX - 63 -> length rs = Z.to_nat m ->
  match jcf_step jcf_fixed m n rs i j with
  | inl rs' => length rs' = length rs
  | inr o => safe_outcome o
  end.
Proof.
  unfold INT_MAX. intros Hm Hn Hl. unfold jcf_step, jcf_fixed. cbv zeta.
  cbn [chk_row_hi chk_col_hi chk_row_neg chk_col_neg andb].
  destruct (Z.leb_spec n (j - 1)), (Z.leb_spec m i); cbn [orb safe_outcome]; try exact I.
  destruct (Z.ltb_spec i 0), (Z.ltb_spec (j - 1) 0); cbn [orb safe_outcome]; try exact I.
  unfold jcf_write. cbv zeta. rewrite !to_int_id by lia.
  destruct (Z.leb_spec 0 i), (Z.ltb_spec i m), (Z.leb_spec 0 (j - 1)), (Z.ltb_spec (j - 1) n); try lia. cbn [andb].
  destruct (set_row_ok rs (Z.to_nat i) (Z.to_N (j - 1))) as [rs' E]; [lia|]. rewrite E.
  now apply set_row_spec in E.
Qed.

Lemma jcf_loop_safe m n : 0 <= m <= INT_MAX -> 0 <= n <= INT_MAX - 63 ->
  forall toks i rs, length rs = Z.to_nat m -> safe_outcome (jcf_loop jcf_fixed m n i toks rs).
Proof.
  intros Hm Hn. induction toks as [|t rest IH]; intros i rs Hl; cbn [jcf_loop]; [exact I|].
  destruct (Z.ltb_spec t 0) as [Ht|Ht].
  - cbn [jcf_fixed chk_negate andb]. destruct (Z.ltb_spec t (- n)); [exact I|].
    unfold LONG_MIN, INT_MAX in *. destruct (Z.eqb_spec t (-9223372036854775808)); [lia|].
    pose proof (jcf_step_fixed m n rs (i + 1) (- t) Hm Hn Hl) as Hs.
    destruct (jcf_step jcf_fixed m n rs (i + 1) (- t)); [apply IH; lia|exact Hs].
  - pose proof (jcf_step_fixed m n rs i t Hm Hn Hl) as Hs.
    destruct (jcf_step jcf_fixed m n rs i t); [apply IH; lia|exact Hs].
Qed.

Theorem jcf_safe h toks : safe_outcome (jcf_parse jcf_fixed h toks).
Proof.
  unfold jcf_parse. destruct (negb (h_conv h =? 4)); [exact I|]. destruct (negb (h_p h =? 2)); [exact I|].
  destruct (bad_dims (h_m h) (h_n h)) eqn:Hd; [exact I|]. apply bad_dims_false in Hd as [Hm Hn].
  apply jcf_loop_safe; try assumption. now rewrite repeat_length.
Qed.

(** ** the pinned reader is NOT safe: one witness per missing guard *)
Definition hdr (m n : Z) : jcf_header := {| h_conv := 4; h_m := m; h_n := n; h_p := 2; h_nz := 1 |}.

Theorem jcf_safe_refuted_row : (* positive first entry: row -1 *)
  jcf_parse jcf_pinned (hdr 3 5) [2] = OutOfBounds (-1) 1.
Proof. vm_compute. reflexivity. Qed.
Theorem jcf_safe_refuted_col : (* index 0: column -1 (shift by -1) *)
  jcf_parse jcf_pinned (hdr 3 5) [-1; 0] = OutOfBounds 0 (-1).
Proof. vm_compute. reflexivity. Qed.
Theorem jcf_safe_refuted_negate : (* entry LONG_MIN: -j overflows *)
  jcf_parse jcf_pinned (hdr 3 5) [LONG_MIN] = Overflow.
Proof. vm_compute. reflexivity. Qed.
Theorem jcf_safe_refuted_negdim : (* negative dimension handed to mzd_init *)
  jcf_parse jcf_pinned (hdr 3 (-5)) [] = InitPre.
Proof. vm_compute. reflexivity. Qed.
Theorem jcf_safe_refuted_hugedim : (* ncols = INT_MAX: (c + 63) overflows in mzd_init *)
  jcf_parse jcf_pinned (hdr 1 INT_MAX) [] = InitPre.
Proof. vm_compute. reflexivity. Qed.

Theorem jcf_safe_refuted : exists h toks, ~ safe_outcome (jcf_parse jcf_pinned h toks).
Proof. exists (hdr 3 5), [2]. rewrite jcf_safe_refuted_row. intros H. exact H. Qed.

(** every guard of [jcf_fixed] is needed: dropping any single one re-opens a hole *)
Definition drop (k : nat) : jcf_checks :=
  {| chk_row_hi := negb (k =? 0)%nat; chk_col_hi := negb (k =? 1)%nat; chk_row_neg := negb (k =? 2)%nat;
     chk_col_neg := negb (k =? 3)%nat; chk_negate := negb (k =? 4)%nat; chk_dims := negb (k =? 5)%nat |}.

Theorem jcf_checks_necessary : forall k, (k < 6)%nat -> exists h toks, ~ safe_outcome (jcf_parse (drop k) h toks).
Proof.
  intros k Hk. destruct k as [|[|[|[|[|[|k]]]]]]; [| | | | | |lia].
  - exists (hdr 2 5), [-1; -1; -1]. vm_compute. tauto.       (* too many row markers *)
  - exists (hdr 3 5), [-1; 7]. vm_compute. tauto.            (* index > ncols *)
  - exists (hdr 3 5), [2]. vm_compute. tauto.
  - exists (hdr 3 5), [-1; 0]. vm_compute. tauto.
  - exists (hdr 3 5), [LONG_MIN]. vm_compute. tauto.
  - exists (hdr 3 (-5)), []. vm_compute. tauto.
Qed.

Local Close Scope Z_scope.

(** * mzd_from_str *)
Lemma testbit_write_bit w spot v b :
  N.testbit (write_bit w spot v) (N.of_nat b) = if b =? spot then v else N.testbit w (N.of_nat b).
Proof.
  unfold write_bit. rewrite N.lor_spec, N.ldiff_spec, N.shiftl_1_l, N.pow2_bits_eqb, testbit_shiftl_nat.
  destruct (Nat.eqb_spec b spot) as [->|Hne].
  - rewrite N.eqb_refl, Nat.leb_refl, Nat.sub_diag. cbn [negb andb]. rewrite andb_false_r. cbn [orb].
    destruct v; reflexivity.
  - destruct (N.eqb_spec (N.of_nat spot) (N.of_nat b)); [lia|]. cbn [negb]. rewrite andb_true_r.
    destruct (Nat.leb_spec spot b); cbn [andb]; [|now rewrite orb_false_r].
    replace (N.testbit (N.b2n v) (N.of_nat (b - spot))) with false; [now rewrite orb_false_r|].
    symmetry. destruct v; cbn [N.b2n]; [|apply N.bits_0].
    change 1%N with (2 ^ N.of_nat 0)%N. rewrite testbit_pow2_nat. destruct (Nat.eqb_spec 0 (b - spot)); [lia|reflexivity].
Qed.

Lemma str_get_in s idx : idx < length s -> str_get s idx = Some (nth idx s 0%N).
Proof.
  intros H. unfold str_get. destruct (Nat.ltb_spec idx (length s)); [|lia]. now apply nth_error_nth'.
Qed.

Lemma str_row_spec s cnt : forall j idx r, idx + cnt <= length s ->
  exists r', str_row cnt j idx s r = Some (r', idx + cnt) /\
    forall b, N.testbit r' (N.of_nat b) =
      if (j <=? b) && (b <? j + cnt) then (nth (idx + (b - j)) s 0 =? 49)%N else N.testbit r (N.of_nat b).
Proof.
  induction cnt as [|cnt IH]; intros j idx r H; cbn [str_row].
  - exists r. rewrite Nat.add_0_r. split; [reflexivity|]. intros b.
    destruct (Nat.leb_spec j b), (Nat.ltb_spec b (j + 0)); cbn [andb]; try reflexivity; lia.
  - rewrite str_get_in by lia.
    destruct (IH (S j) (S idx) (write_bit r j (nth idx s 0 =? 49)%N)) as [r' [E Hb]]; [lia|].
    exists r'. rewrite E. split; [f_equal; f_equal; lia|]. intros b. rewrite Hb, testbit_write_bit.
    destruct (Nat.leb_spec (S j) b), (Nat.ltb_spec b (S j + cnt)), (Nat.leb_spec j b), (Nat.ltb_spec b (j + S cnt)),
      (Nat.eqb_spec b j); cbn [andb]; try reflexivity; try lia.
    + do 2 f_equal. lia.
    + subst b. rewrite Nat.sub_diag, Nat.add_0_r. reflexivity.
Qed.

Lemma str_rows_spec s n cnt : forall idx, idx + cnt * n <= length s ->
  exists rs, str_rows cnt n idx s = Some rs /\ length rs = cnt /\
    forall i j, i < cnt -> N.testbit (nth i rs 0%N) (N.of_nat j) = (j <? n) && (nth (idx + i * n + j) s 0 =? 49)%N.
Proof.
  induction cnt as [|cnt IH]; intros idx H; cbn [str_rows].
  - exists []. repeat split. intros i j Hi. lia.
  - destruct (str_row_spec s n 0 idx 0%N) as [r [E Hb]]; [lia|]. rewrite E.
    destruct (IH (idx + n)) as [rs [E2 [Hl Hn]]]; [lia|]. rewrite E2.
    eexists. split; [reflexivity|]. split; [cbn; now rewrite Hl|].
    intros [|i] j Hi; cbn [nth].
    + rewrite Hb, N.bits_0. destruct (Nat.leb_spec 0 j); [|lia]. cbn [andb plus].
      destruct (Nat.ltb_spec j n); cbn [andb]; [|reflexivity]. do 2 f_equal. lia.
    + rewrite Hn by lia. do 3 f_equal. lia.
Qed.

(** the string constructor builds exactly the matrix the text denotes: entry (i,j) is 1 iff character
    i*n + j is '1' *)
Theorem from_str_exact m n s : length s = m * n ->
  exists M, from_str m n s = Some M /\ wf M /\ nr M = m /\ nc M = n /\
    forall i j, i < m -> j < n -> get M i j = (nth (i * n + j) s 0 =? 49)%N.
Proof.
  intros Hl. unfold from_str. destruct (str_rows_spec s n m 0) as [rs [E [Hlr Hn]]]; [lia|]. rewrite E.
  eexists. split; [reflexivity|]. cbn [nr nc]. repeat split.
  - exact Hlr.
  - cbn [rows nc]. apply Forall_forall. intros x Hx. destruct (In_nth _ _ 0%N Hx) as [i [Hi <-]].
    intros j Hj. rewrite Hn by lia. destruct (Nat.ltb_spec j n); [lia|reflexivity].
  - intros i j Hi Hj. unfold get, row. cbn [rows]. rewrite Hn by assumption.
    destruct (Nat.ltb_spec j n); [|lia]. reflexivity.
Qed.

(** a string shorter than m*n - 1 characters makes the constructor read past the terminating NUL *)
Theorem from_str_short_oob : from_str 2 2 [49; 48]%N = None.
Proof. vm_compute. reflexivity. Qed.
