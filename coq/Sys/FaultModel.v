(* C20 -- executable models of the allocation layer under a single allocation failure.

   1. the three checking wrappers of misc.h, as an interpreter of the statement lists that
      tools/alloc_sites.py translates their bodies into (Sys/GenSites.v, all three `#if` variants);
      the system allocator is an oracle argument that may answer NULL;
   2. the cache front end m4ri_mmc_malloc (mmc.c:44-77);
   3. the allocation-layer calls (mzd_init, mzd_init_window, mzp_init, mzp_init_window,
      ple_table_init, m4ri_build_all_codes, djb_init, djb_push_back, heap_init, heap_push, heap_pop)
      as sequences of micro operations -- request through a wrapper, block handed out by a cache,
      raw request whose result is stored unchecked, null test ending in m4ri_die, dereference --
      run with the i-th system request failing.

   Hand models (level 2 of DESIGN 2.2) except for the wrapper bodies, which are generated.  The tie
   of part 3 to the C code is the fault enumeration of tools/props/c20.py, which compares the fate
   of the real library with `predict` on the layer scenarios, and GenSites.v, which decides whether
   djb_push_back is modelled with or without its null test (`pb_checked`).

   Modelling decisions, all visible in the definitions below:
   * NULL is `None`; a register that was never assigned is not NULL (default `Some 0`): only results
     of allocation requests can be NULL here.
   * A request for 0 bytes is not a fault point and succeeds (glibc returns a unique pointer); what
     the wrappers do when the system answers NULL to a 0-byte request is stated separately
     (`wrapper_size0_*` in Fault.v).
   * Whether the header cache (mzd_t_malloc) and the block cache (m4ri_mmc_malloc) serve a request
     is an oracle carried by the call (`hroute`, `hit`): theorems quantified over histories
     therefore cover every cache state, without modelling it (C14 models the caches themselves).
   * `Stuck` is the error value of the model (wrapper body the translator could not read). *)
From Coq Require Import List NArith Bool String.
From M4 Require Import Sys.FaultTypes.
Import ListNotations.
Open Scope N_scope.

Definition ptr := N.

(* ------------------------------------------------------------------------------------------ *)
(** * 1. Wrappers                                                                               *)
(* ------------------------------------------------------------------------------------------ *)

Inductive wres := WRet (p : option ptr) | WDie | WDeref | WStuck.

(* [cur] = value of `newthing` (None = not yet assigned); [bytes] = size (count*size for calloc) *)
Fixpoint run_wbody (b : list wstmt) (bytes : N) (sysalloc : sysfn -> N -> option ptr)
         (cur : option (option ptr)) : wres :=
  match b with
  | [] => WStuck
  | WSys f :: r => run_wbody r bytes sysalloc (Some (sysalloc f bytes))
  | WIfNullDie g :: r =>
      match cur with
      | None => WStuck
      | Some None => if (if g then 0 <? bytes else true) then WDie else run_wbody r bytes sysalloc cur
      | Some (Some _) => run_wbody r bytes sysalloc cur
      end
  | WAlias :: r => run_wbody r bytes sysalloc cur
  | WMemset :: r =>
      match cur with
      | None => WStuck
      | Some None => if bytes =? 0 then run_wbody r bytes sysalloc cur else WDeref
      | Some (Some _) => run_wbody r bytes sysalloc cur
      end
  | WReturn :: _ => match cur with None => WStuck | Some p => WRet p end
  | WUnknown _ :: _ => WStuck
  end.

Definition run_wrapper (b : list wstmt) (bytes : N) (sysalloc : sysfn -> N -> option ptr) : wres :=
  run_wbody b bytes sysalloc None.

(* the shape every wrapper must have: one system request, immediately a null test that dies,
   then only aliasing / memset, then return *)
Fixpoint wf_tail (b : list wstmt) : bool :=
  match b with
  | [WReturn] => true
  | WAlias :: r => wf_tail r
  | WMemset :: r => wf_tail r
  | _ => false
  end.

Definition wf_body (b : list wstmt) : bool :=
  match b with
  | WSys _ :: WIfNullDie _ :: r => wf_tail r
  | _ => false
  end.

(* ------------------------------------------------------------------------------------------ *)
(** * 2. m4ri_mmc_malloc                                                                        *)
(* ------------------------------------------------------------------------------------------ *)

Record slot := mk_slot { sl_size : N; sl_data : option ptr }.

(* for (i..) if (mm[i].size == size) { ret = mm[i].data; mm[i].data = NULL; mm[i].size = 0; break; } *)
Fixpoint mmc_find (c : list slot) (n : N) : option (option ptr * list slot) :=
  match c with
  | [] => None
  | s :: r =>
      if sl_size s =? n then Some (sl_data s, mk_slot 0 None :: r)
      else match mmc_find r n with
           | Some (d, r') => Some (d, s :: r')
           | None => None
           end
  end.

(* the value of `ret` after the search, and the cache after it *)
Definition mmc_lookup (enabled : bool) (threshold : N) (cache : list slot) (n : N)
  : option ptr * list slot :=
  if enabled && (n <=? threshold) then
    match mmc_find cache n with
    | Some (d, c') => (d, c')
    | None => (None, cache)
    end
  else (None, cache).

(* if (ret) return ret; else return m4ri_mm_malloc(size);   -- [body] is the body of m4ri_mm_malloc *)
Definition mmc_malloc (enabled : bool) (threshold : N) (body : list wstmt) (cache : list slot) (n : N)
           (sysalloc : sysfn -> N -> option ptr) : wres * list slot :=
  let '(ret, cache') := mmc_lookup enabled threshold cache n in
  match ret with
  | Some p => (WRet (Some p), cache')
  | None => (run_wrapper body n sysalloc, cache')
  end.

(* ------------------------------------------------------------------------------------------ *)
(** * 3. Allocation layer                                                                       *)
(* ------------------------------------------------------------------------------------------ *)

Inductive outcome := Done | Die | DerefNull | Continue | Stuck.
(* Done      the run ended and the i-th system request was never made
   Die       m4ri_die
   DerefNull a NULL result was dereferenced
   Continue  the run ended normally although a request failed (NULL stored in an object)
   Stuck     model error value                                                            *)

Inductive reg := RTmp (n : nat) | RDjbZ | RDjbT | RDjbS | RDjbY | RHeapH | RHeapD.

Definition reg_eqb (a b : reg) : bool :=
  match a, b with
  | RTmp n, RTmp m => Nat.eqb n m
  | RDjbZ, RDjbZ | RDjbT, RDjbT | RDjbS, RDjbS | RDjbY, RDjbY | RHeapH, RHeapH | RHeapD, RHeapD => true
  | _, _ => false
  end.

Inductive book := BDjbNew | BDjbGrow | BDjbLen | BHeapNew | BHeapGrow | BHeapShrink | BHeapInc | BHeapDec.

Inductive uop :=
| UWrap (k : wkind) (dst : reg) (bytes : N)   (* dst = m4ri_mm_{malloc,calloc,malloc_aligned}(bytes)      *)
| UCached (dst : reg)                         (* dst = block/header served by a cache: no system request *)
| URaw (dst : reg) (bytes : N)                (* dst = malloc(bytes) / realloc(dst, bytes), stored as is  *)
| UCheck (rs : list reg)                      (* if (r1 == NULL || r2 == NULL ..) m4ri_die(..)            *)
| UUse (r : reg)                              (* read or write through r                                 *)
| UBook (b : book).                           (* counters of the DJB queue / heap                        *)

Record st := mk_st {
  nsys : N;            (* system requests (of non-zero size) made so far *)
  failed : bool;       (* the fault has been injected *)
  env : list (reg * option ptr);
  djb_live : bool; djb_len : N; djb_alloc : N;
  heap_live : bool; heap_count : N; heap_size : N
}.

Definition init_st : st := mk_st 0 false [] false 0 0 false 0 0.

Fixpoint lookup (r : reg) (e : list (reg * option ptr)) : option ptr :=
  match e with
  | [] => Some 0
  | (r', v) :: t => if reg_eqb r r' then v else lookup r t
  end.

Definition get_reg (r : reg) (s : st) : option ptr := lookup r (env s).

Definition set_reg (r : reg) (v : option ptr) (s : st) : st :=
  mk_st (nsys s) (failed s) ((r, v) :: env s) (djb_live s) (djb_len s) (djb_alloc s)
        (heap_live s) (heap_count s) (heap_size s).

Definition is_null (p : option ptr) : bool := match p with None => true | Some _ => false end.

Definition book_step (b : book) (s : st) : st :=
  match b with
  | BDjbNew => mk_st (nsys s) (failed s) (env s) true 0 64 (heap_live s) (heap_count s) (heap_size s)
  | BDjbGrow => mk_st (nsys s) (failed s) (env s) (djb_live s) (djb_len s) (djb_alloc s + 64)
                      (heap_live s) (heap_count s) (heap_size s)
  | BDjbLen => mk_st (nsys s) (failed s) (env s) (djb_live s) (djb_len s + 1) (djb_alloc s)
                     (heap_live s) (heap_count s) (heap_size s)
  | BHeapNew => mk_st (nsys s) (failed s) (env s) (djb_live s) (djb_len s) (djb_alloc s) true 0 4
  | BHeapGrow => mk_st (nsys s) (failed s) (env s) (djb_live s) (djb_len s) (djb_alloc s)
                       (heap_live s) (heap_count s) (heap_size s * 2)
  | BHeapShrink => mk_st (nsys s) (failed s) (env s) (djb_live s) (djb_len s) (djb_alloc s)
                         (heap_live s) (heap_count s) (heap_size s / 2)
  | BHeapInc => mk_st (nsys s) (failed s) (env s) (djb_live s) (djb_len s) (djb_alloc s)
                      (heap_live s) (heap_count s + 1) (heap_size s)
  | BHeapDec => mk_st (nsys s) (failed s) (env s) (djb_live s) (djb_len s) (djb_alloc s)
                      (heap_live s) (heap_count s - 1) (heap_size s)
  end.

(* the system allocator with the fault: the request numbered [i] (from 0, zero-size requests not
   numbered) answers NULL, every other request succeeds *)
Definition sys_req (fault : option N) (bytes : N) (s : st) : option ptr * st :=
  if bytes =? 0 then (Some 0, s)
  else
    let s1 f := mk_st (nsys s + 1) f (env s) (djb_live s) (djb_len s) (djb_alloc s)
                      (heap_live s) (heap_count s) (heap_size s) in
    if match fault with Some i => nsys s =? i | None => false end
    then (None, s1 true)
    else (Some (nsys s + 1), s1 (failed s)).

Record cfg := mk_cfg {
  wbody : wkind -> list wstmt;   (* bodies of the three wrappers in this build *)
  hdr_cache : bool;              (* __M4RI_ENABLE_MZD_CACHE *)
  mmc_on : bool;                 (* __M4RI_ENABLE_MMC *)
  pb_checked : bool              (* djb_push_back tests the results of its three reallocs *)
}.

Inductive res := Go (s : st) | Stop (o : outcome) (s : st).

Definition step (c : cfg) (fault : option N) (u : uop) (s : st) : res :=
  match u with
  | UWrap k dst bytes =>
      let '(a, s1) := sys_req fault bytes s in
      match run_wrapper (wbody c k) bytes (fun _ _ => a) with
      | WRet p => Go (set_reg dst p s1)
      | WDie => Stop Die s1
      | WDeref => Stop DerefNull s1
      | WStuck => Stop Stuck s1
      end
  | UCached dst => Go (set_reg dst (Some 0) s)
  | URaw dst bytes => let '(a, s1) := sys_req fault bytes s in Go (set_reg dst a s1)
  | UCheck rs => if existsb (fun r => is_null (get_reg r s)) rs then Stop Die s else Go s
  | UUse r => if is_null (get_reg r s) then Stop DerefNull s else Go s
  | UBook b => Go (book_step b s)
  end.

Fixpoint run_ops (c : cfg) (fault : option N) (us : list uop) (s : st) : res :=
  match us with
  | [] => Go s
  | u :: r => match step c fault u s with
              | Go s' => run_ops c fault r s'
              | stop => stop
              end
  end.

(** ** The calls *)

Inductive hroute := HSlot | HNewBlock | HSpill.

Inductive lcall :=
| LMzdInit (r c : N) (h : hroute) (hit : bool)
| LMzdWindow (h : hroute)
| LMzpInit (len : N)
| LMzpWindow
| LPleTable (k ncols : N) (h : hroute) (hit : bool)
| LCodebook (maxk : nat)
| LDjbInit
| LDjbPush
| LHeapInit
| LHeapPush
| LHeapPop.

(* mzd_t_malloc (mzd.c:76-111): slot of an existing block | new block of 64 headers
   (m4ri_mm_malloc_aligned + memset) | beyond __M4RI_MZD_T_CACHE_MAX blocks: m4ri_mm_malloc(64) *)
Definition hdr_ops (c : cfg) (h : hroute) (dst : reg) : list uop :=
  if hdr_cache c then
    match h with
    | HSlot => [UCached dst]
    | HNewBlock => [UWrap WAligned (RTmp 9) 4160; UUse (RTmp 9); UCached dst]
    | HSpill => [UWrap WMalloc dst 64]
    end
  else [UWrap WMalloc dst 64].

(* m4ri_mmc_malloc: hit | m4ri_mm_malloc *)
Definition mmc_ops (c : cfg) (hit : bool) (dst : reg) (bytes : N) : list uop :=
  if mmc_on c && hit then [UCached dst] else [UWrap WMalloc dst bytes].

Definition mzd_bytes (r c : N) : N := let w := (c + 63) / 64 in r * (w + w mod 2) * 8.

(* mzd_init (mzd.c:142-160); m4ri_mmc_calloc = m4ri_mmc_malloc + memset (mmc.h:74-79) *)
Definition mzd_init_ops (cf : cfg) (r c : N) (h : hroute) (hit : bool) (a d : reg) : list uop :=
  hdr_ops cf h a ++ [UUse a] ++
  (if (r =? 0) || (c =? 0) then []
   else mmc_ops cf hit d (mzd_bytes r c) ++ [UUse d; UUse a]).

(* m4ri_build_all_codes (graycode.c:52-62): entries k, k+1, .. (n of them) *)
Fixpoint codebook_entries (n : nat) (k : N) : list uop :=
  match n with
  | O => []
  | S n' => [UWrap WCalloc (RTmp 1) 16; UUse (RTmp 0);
             UWrap WCalloc (RTmp 2) (2 ^ k * 4); UUse (RTmp 1);
             UWrap WCalloc (RTmp 3) (2 ^ k * 4); UUse (RTmp 1);
             UUse (RTmp 2); UUse (RTmp 3)] ++ codebook_entries n' (k + 1)
  end.

Definition djb_regs : list reg := [RDjbT; RDjbS; RDjbY].

Definition expand (c : cfg) (s : st) (call : lcall) : list uop :=
  match call with
  | LMzdInit r cc h hit => mzd_init_ops c r cc h hit (RTmp 0) (RTmp 1)
  | LMzdWindow h => hdr_ops c h (RTmp 0) ++ [UUse (RTmp 0)]
  | LMzpInit len =>                                   (* mzp.c:27-33 *)
      [UWrap WMalloc (RTmp 0) 16; UWrap WMalloc (RTmp 1) (4 * len); UUse (RTmp 0)] ++
      (if len =? 0 then [] else [UUse (RTmp 1)])
  | LMzpWindow => [UWrap WMalloc (RTmp 0) 16; UUse (RTmp 0)]   (* mzp.c:40-46 *)
  | LPleTable k ncols h hit =>                        (* ple_russian.c:39-46 *)
      [UWrap WMalloc (RTmp 4) 32] ++ mzd_init_ops c (2 ^ k) ncols h hit (RTmp 0) (RTmp 1) ++
      [UUse (RTmp 4);
       UWrap WMalloc (RTmp 5) (2 ^ k * 4); UUse (RTmp 4);
       UWrap WMalloc (RTmp 6) (2 ^ k * 4); UUse (RTmp 4);
       UWrap WMalloc (RTmp 7) (2 ^ k * 8); UUse (RTmp 4)]
  | LCodebook maxk =>
      [UWrap WCalloc (RTmp 0) ((N.of_nat maxk + 1) * 8)] ++ codebook_entries maxk 1
  | LDjbInit =>                                       (* djb.h:58-73 *)
      [URaw RDjbZ 40; UCheck [RDjbZ]; UUse RDjbZ;
       URaw RDjbT 256; UUse RDjbZ; URaw RDjbS 256; UUse RDjbZ; URaw RDjbY 256; UUse RDjbZ;
       UCheck djb_regs; UBook BDjbNew]
  | LDjbPush =>                                       (* djb.h:97-110 *)
      if djb_live s then
        (if djb_alloc s <=? djb_len s then
           [UUse RDjbZ; UBook BDjbGrow;
            URaw RDjbT ((djb_alloc s + 64) * 4); URaw RDjbS ((djb_alloc s + 64) * 4);
            URaw RDjbY ((djb_alloc s + 64) * 4)] ++
           (if pb_checked c then [UCheck djb_regs] else [])
         else []) ++
        [UUse RDjbZ; UUse RDjbT; UUse RDjbS; UUse RDjbY; UBook BDjbLen]
      else []
  | LHeapInit =>                                      (* djb.c:52-58 *)
      [URaw RHeapH 16; UCheck [RHeapH]; URaw RHeapD 16; UUse RHeapH; UCheck [RHeapD]; UBook BHeapNew]
  | LHeapPush =>                                      (* djb.c:61-77 *)
      if heap_live s then
        [UUse RHeapH] ++
        (if heap_count s =? heap_size s then
           [UBook BHeapGrow; URaw RHeapD (heap_size s * 2 * 4); UCheck [RHeapD]]
         else []) ++
        [UUse RHeapD; UBook BHeapInc]
      else []
  | LHeapPop =>                                       (* djb.c:80-110 *)
      if heap_live s && (0 <? heap_count s) then
        [UUse RHeapH; UUse RHeapD; UBook BHeapDec] ++
        (if (heap_count s - 1 <=? heap_size s / 4) && (4 <? heap_size s) then
           [UBook BHeapShrink; URaw RHeapD (heap_size s / 2 * 4); UCheck [RHeapD]]
         else []) ++
        [UUse RHeapD]
      else []
  end.

Fixpoint run_hist (c : cfg) (fault : option N) (h : list lcall) (s : st) : res :=
  match h with
  | [] => Go s
  | call :: r => match run_ops c fault (expand c s call) s with
                 | Go s' => run_hist c fault r s'
                 | stop => stop
                 end
  end.

Definition final (r : res) : outcome * st :=
  match r with
  | Stop o s => (o, s)
  | Go s => (if failed s then Continue else Done, s)
  end.

Definition outcome_of (r : res) : outcome := fst (final r).
Definition injected (r : res) : bool := failed (snd (final r)).

(* the i-th (from 0) system request of the history fails, all others succeed *)
Definition run_faulty (c : cfg) (h : list lcall) (i : N) : res := run_hist c (Some i) h init_st.

(* number of system requests of the fault-free run *)
Definition count_sys (c : cfg) (h : list lcall) : N := nsys (snd (final (run_hist c None h init_st))).

(* "the i-th request of the history fails": the fault is actually injected *)
Definition fails_at (c : cfg) (h : list lcall) (i : N) : Prop := injected (run_faulty c h i) = true.

(* table used by the correspondence with the C library: outcome of failing request 0, 1, .., n-1 *)
Definition predict (c : cfg) (h : list lcall) : N * list outcome :=
  let n := count_sys c h in
  (n, map (fun i => outcome_of (run_faulty c h (N.of_nat i))) (seq 0 (N.to_nat n))).
