(* Sys/IO.v — C18: executable models of m4ri/io.c (no proofs here; see Sys/IOProofs.v).

   PNG.  Only what m4ri's OWN code does is modelled: the byte loops of mzd_to_png (io.c:256-285) and
   mzd_from_png (io.c:140-172) over a row buffer with CHECKED accesses (an access outside the buffer
   m4ri allocated is the outcome [None]), the tail [switch] with its fall-through, the manual
   inversion [~tmp] and the final masking with [high_bitmask].  libpng is an oracle: compression,
   chunks, and the two row transformations m4ri asks for (png_set_packswap on both sides,
   png_set_invert_mono on the write side only) are written down here as plain byte functions
   ([libpng_write_xform], [libpng_read_xform]) and are ASSUMED, not verified; the correspondence run
   compares them with the bytes really found in the files.

   JCF.  [jcf_parse] is the control flow of mzd_from_jcf (io.c:296-348) over the integers that the two
   fscanf formats produce; every write into the matrix is bounds-checked in the model, the
   precondition of mzd_init and the negation [j = -j] are checked as well.  The record [jcf_checks]
   says which guards the source has: [jcf_pinned] is the code as pinned, [jcf_fixed] has every guard.

   String constructor: [from_str]. *)
From Coq Require Import List NArith ZArith Arith Bool.
From M4 Require Import Base.Bits Lin.Mat.
Import ListNotations.
Local Open Scope nat_scope.

(** * Row buffers with checked accesses *)
Definition buf := list N.

Fixpoint bset (i : nat) (v : N) (b : buf) : option buf :=
  match b, i with
  | [], _ => None
  | _ :: t, 0 => Some (v :: t)
  | x :: t, S i' => match bset i' v t with Some t' => Some (x :: t') | None => None end
  end.

Definition bget (i : nat) (b : buf) : option N := nth_error b i.

(** sequential checked stores [(index, value)] *)
Fixpoint writes (l : list (nat * N)) (b : buf) : option buf :=
  match l with
  | [] => Some b
  | (i, v) :: r => match bset i v b with Some b' => writes r b' | None => None end
  end.

(** * Geometry of a row of [n] columns *)
Definition width (n : nat) : nat := (n + 63) / 64.                       (* mzd_init: (c + 63) / 64 *)
Definition rowbytes (n : nat) : nat := n / 8 + (if n mod 8 =? 0 then 0 else 1).
Definition tail_case (n : nat) : nat := rowbytes n mod 8.                (* the [switch] expression *)
Definition to_png_bufsize (n : nat) : nat := n / 8 + 8.                  (* io.c:256 calloc(1, ncols/8 + 8) *)
Definition from_png_bufsize (n : nat) : nat := n / 8 + 1.                (* io.c:142 calloc(1, n/8 + 1) *)
Definition ones64 : N := 18446744073709551615%N.
Definition not64 (w : N) : N := N.lxor w ones64.                         (* ~w on a 64-bit word *)
(* __M4RI_LEFT_BITMASK(n % 64) = ffff >> (64 - n%64) % 64 *)
Definition high_bitmask (n : nat) : N := N.shiftr ones64 (N.of_nat ((64 - n mod 64) mod 64)).

(** * The tail switch.  [(case label, byte index)] in source order; control enters at the label equal to
    the switch value and falls through to the end (there is no [break] and no [default]). *)
Definition tail_labels : list (nat * nat) :=
  [(0, 7); (7, 6); (6, 5); (5, 4); (4, 3); (3, 2); (2, 1); (1, 0)].

Fixpoint switch_sel (c : nat) (entered : bool) (cases : list (nat * nat)) : list nat :=
  match cases with
  | [] => []
  | (lbl, k) :: rest =>
      if entered || (lbl =? c) then k :: switch_sel c true rest else switch_sel c false rest
  end.

(** * mzd_to_png: one row *)
Definition byte_of (w : N) (k : nat) : N := N.land (N.shiftr w (N.of_nat (8 * k))) 255.
(* row[8*j + k] = (png_byte)((tmp >> 8k) & 0xff)  for k in [ks], in that order *)
Definition word_writes (j : nat) (w : N) (ks : list nat) : list (nat * N) :=
  map (fun k => (8 * j + k, byte_of w k)) ks.

Definition all8 : list nat := [0; 1; 2; 3; 4; 5; 6; 7].

(* for (j = j0; <cnt iterations>; j++) { tmp = rowptr[j]; row[8j+0..7] = ... } *)
Fixpoint pack_main (cnt j : nat) (ws : list N) (b : buf) : option buf :=
  match cnt with
  | 0 => Some b
  | S cnt' =>
      match writes (word_writes j (nth j ws 0%N) all8) b with
      | Some b' => pack_main cnt' (S j) ws b'
      | None => None
      end
  end.

(** the row buffer after the loops, starting from an arbitrary buffer (it is reused across rows) *)
Definition png_pack_row_buf (n : nat) (ws : list N) (b : buf) : option buf :=
  let w := width n in
  match pack_main (w - 1) 0 ws b with
  | None => None
  | Some b1 =>
      writes (word_writes (w - 1) (nth (w - 1) ws 0%N) (switch_sel (tail_case n) false tail_labels)) b1
  end.

(** what png_write_row is handed: the first [rowbytes n] bytes of the buffer (a read past the end of
    the buffer is [None] as well) *)
Definition png_pack_row (n : nat) (ws : list N) : option (list N) :=
  match png_pack_row_buf n ws (repeat 0%N (to_png_bufsize n)) with
  | None => None
  | Some b => if rowbytes n <=? length b then Some (firstn (rowbytes n) b) else None
  end.

(** * libpng as an oracle: the transformations requested by m4ri (trusted, compared with real files) *)
Definition bitrev8 (b : N) : N :=
  fold_left (fun acc k => if N.testbit b (N.of_nat k) then N.lor acc (N.shiftl 1 (N.of_nat (7 - k))) else acc)
            all8 0%N.
Definition libpng_write_xform (b : N) : N := N.lxor (bitrev8 b) 255.     (* packswap; invert_mono *)
Definition libpng_read_xform (b : N) : N := bitrev8 b.                   (* packswap *)
Definition png_file_row (bytes : list N) : list N := map libpng_write_xform bytes.
Definition png_delivered (filebytes : list N) : list N := map libpng_read_xform filebytes.

(** * mzd_from_png: one row *)
(* png_read_row stores the delivered bytes at row[0], row[1], ... *)
Fixpoint blit (src : list N) (i : nat) (b : buf) : option buf :=
  match src with
  | [] => Some b
  | x :: r => match bset i x b with Some b' => blit r (S i) b' | None => None end
  end.

(* tmp |= ((word)row[8*j + k]) << 8k   for k in [ks], in that order *)
Fixpoint gather (j : nat) (ks : list nat) (b : buf) (tmp : N) : option N :=
  match ks with
  | [] => Some tmp
  | k :: r =>
      match bget (8 * j + k) b with
      | Some x => gather j r b (N.lor tmp (N.shiftl x (N.of_nat (8 * k))))
      | None => None
      end
  end.

Definition rev8 : list nat := [7; 6; 5; 4; 3; 2; 1; 0].

Fixpoint unpack_main (cnt j : nat) (b : buf) : option (list N) :=
  match cnt with
  | 0 => Some []
  | S cnt' =>
      match gather j rev8 b 0%N with
      | None => None
      | Some tmp =>
          match unpack_main cnt' (S j) b with
          | Some r => Some (not64 tmp :: r)                               (* rowa[j] = ~tmp *)
          | None => None
          end
      end
  end.

Definition png_unpack_row_buf (n : nat) (b : buf) : option (list N) :=
  let w := width n in
  match unpack_main (w - 1) 0 b with
  | None => None
  | Some main =>
      match gather (w - 1) (switch_sel (tail_case n) false tail_labels) b 0%N with
      | None => None
      | Some tmp => Some (main ++ [N.lor 0 (N.land (not64 tmp) (high_bitmask n))])   (* rowa[j] |= ~tmp & mask *)
      end
  end.

(** [delivered] = the bytes libpng stores for one row (however many the image format implies) *)
Definition png_unpack_row (n : nat) (delivered : list N) : option (list N) :=
  match blit delivered 0 (repeat 0%N (from_png_bufsize n)) with
  | None => None
  | Some b => png_unpack_row_buf n b
  end.

(** * Rows as one number (Lin.Mat: column j = bit j) <-> 64-bit words *)
Fixpoint words_of (w : nat) (r : N) : list N :=
  match w with 0 => [] | S w' => N.land r ones64 :: words_of w' (N.shiftr r 64) end.
Fixpoint row_of (ws : list N) : N :=
  match ws with [] => 0%N | x :: t => N.lor x (N.shiftl (row_of t) 64) end.

(** well-formed word row: [width n] words, no bit at or above 64, excess bits zero *)
Definition wf_row (n : nat) (ws : list N) : Prop :=
  length ws = width n /\
  forall j k, (64 <= k \/ n <= 64 * j + k) -> N.testbit (nth j ws 0%N) (N.of_nat k) = false.
Definition wf_rowb (n : nat) (ws : list N) : bool :=
  (length ws =? width n) && boundedb n (row_of ws) && forallb (fun w => (w <? 2 ^ 64)%N) ws.

(** * Header handling of mzd_from_png *)
Record png_checks := { pchk_depth : bool;      (* bit depth other than 1 rejected *)
                       pchk_dims : bool }.     (* width > INT_MAX - 63 rejected before mzd_init *)
Definition png_pinned := {| pchk_depth := false; pchk_dims := false |}.
Definition png_fixed := {| pchk_depth := true; pchk_dims := true |}.

Record png_ihdr := { ih_w : nat; ih_h : nat; ih_depth : nat; ih_ctype : nat; ih_interlace : nat }.
Definition png_channels (ct : nat) : nat :=
  match ct with 0 => 1 | 2 => 3 | 3 => 1 | 4 => 2 | 6 => 4 | _ => 0 end.
(* the PNG specification's legal combinations *)
Definition png_valid_combo (ct depth : nat) : bool :=
  match ct with
  | 0 => existsb (Nat.eqb depth) [1; 2; 4; 8; 16]
  | 3 => existsb (Nat.eqb depth) [1; 2; 4; 8]
  | 2 | 4 | 6 => existsb (Nat.eqb depth) [8; 16]
  | _ => false
  end.
(* PNG_ROWBYTES(pixel_bits, width): what png_read_row stores *)
Definition png_rowbytes_gen (w depth ct : nat) : nat := (w * (depth * png_channels ct) + 7) / 8.
Definition mzd_init_ncols_max : N := 2147483584%N.   (* INT_MAX - 63: above it (c + 63) overflows int *)

Inductive png_hdr := PAccept | PReject | PInitPre.
Definition png_header (chk : png_checks) (ih : png_ihdr) : png_hdr :=
  if negb (ih_interlace ih =? 0) then PReject
  else if negb ((ih_ctype ih =? 0) || (ih_ctype ih =? 3)) then PReject
  else if pchk_depth chk && negb (ih_depth ih =? 1) then PReject
  else if (mzd_init_ncols_max <? N.of_nat (ih_w ih))%N then (if pchk_dims chk then PReject else PInitPre)
  else PAccept.

Inductive png_outcome := POk (M : mat) | PNull | PBadInit | POutOfBounds.

Fixpoint png_read_rows (n : nat) (del : list (list N)) : option (list N) :=
  match del with
  | [] => Some []
  | d :: r =>
      match png_unpack_row n d with
      | None => None
      | Some ws => match png_read_rows n r with Some rs => Some (row_of ws :: rs) | None => None end
      end
  end.

(** [del] = the rows as delivered by png_read_row (one list of bytes per row) *)
Definition png_read (chk : png_checks) (ih : png_ihdr) (del : list (list N)) : png_outcome :=
  match png_header chk ih with
  | PReject => PNull
  | PInitPre => PBadInit
  | PAccept =>
      match png_read_rows (ih_w ih) del with
      | None => POutOfBounds
      | Some rs => POk (mk (ih_h ih) (ih_w ih) rs)
      end
  end.

Fixpoint png_write_rows (n : nat) (rs : list N) : option (list (list N)) :=
  match rs with
  | [] => Some []
  | r :: t =>
      match png_pack_row n (words_of (width n) r) with
      | None => None
      | Some bytes => match png_write_rows n t with Some l => Some (png_file_row bytes :: l) | None => None end
      end
  end.

(** IHDR and the raw rows that end up in the file *)
Definition png_write (M : mat) : option (png_ihdr * list (list N)) :=
  match png_write_rows (nc M) (rows M) with
  | None => None
  | Some l => Some ({| ih_w := nc M; ih_h := nr M; ih_depth := 1; ih_ctype := 0; ih_interlace := 0 |}, l)
  end.

(** * mzd_from_jcf *)
Local Open Scope Z_scope.

Record jcf_checks := {
  chk_row_hi : bool;    (* i >= m       -> m4ri_die   (present in the pinned code) *)
  chk_col_hi : bool;    (* j - 1 >= n   -> m4ri_die   (present in the pinned code) *)
  chk_row_neg : bool;   (* i < 0        -> m4ri_die   (entry before the first row marker) *)
  chk_col_neg : bool;   (* j - 1 < 0    -> m4ri_die   (index 0) *)
  chk_negate : bool;    (* j < -n       -> m4ri_die before [j = -j] (covers LONG_MIN) *)
  chk_dims : bool       (* m < 0, n < 0 or n > INT_MAX - 63 -> return NULL before mzd_init *)
}.
Definition jcf_pinned := {| chk_row_hi := true; chk_col_hi := true; chk_row_neg := false;
                            chk_col_neg := false; chk_negate := false; chk_dims := false |}.
Definition jcf_fixed := {| chk_row_hi := true; chk_col_hi := true; chk_row_neg := true;
                           chk_col_neg := true; chk_negate := true; chk_dims := true |}.

(** what [fscanf(fh, "%d %d %ld\n%ld\n\n", &m, &n, &p, &nonzero)] returned and stored *)
Record jcf_header := { h_conv : Z; h_m : Z; h_n : Z; h_p : Z; h_nz : Z }.

Inductive outcome :=
| Ok (M : mat)              (* matrix returned *)
| Reject                    (* NULL returned *)
| Die (i j : Z)             (* m4ri_die("trying to write to (i,j) ...") *)
| OutOfBounds (i j : Z)     (* mzd_write_bit outside the m x n matrix *)
| Overflow                  (* signed overflow in [j = -j] *)
| InitPre.                  (* mzd_init called with a negative dimension or ncols > INT_MAX - 63 *)

Definition LONG_MIN : Z := - 9223372036854775808.
Definition LONG_MAX : Z := 9223372036854775807.
Definition INT_MAX : Z := 2147483647.
(* conversion long -> rci_t (int) at the call of mzd_write_bit (gcc: modulo 2^32) *)
Definition to_int (z : Z) : Z := (z + 2147483648) mod 4294967296 - 2147483648.

Definition bad_dims (m n : Z) : bool := (m <? 0) || (INT_MAX <? m) || (n <? 0) || (INT_MAX - 63 <? n).

(* mzd_write_bit(A, r, c, 1) on the list of rows; [None] = outside the matrix *)
Fixpoint set_row (rs : list N) (r : nat) (c : N) : option (list N) :=
  match rs, r with
  | [], _ => None
  | x :: t, O => Some (N.lor (N.ldiff x (N.shiftl 1 c)) (N.shiftl 1 c) :: t)
  | x :: t, S r' => match set_row t r' c with Some t' => Some (x :: t') | None => None end
  end.

Definition jcf_write (m n : Z) (rs : list N) (i c : Z) : list N + outcome :=
  let r := to_int i in
  let cc := to_int c in
  if (0 <=? r) && (r <? m) && (0 <=? cc) && (cc <? n) then
    match set_row rs (Z.to_nat r) (Z.to_N cc) with
    | Some rs' => inl rs'
    | None => inr (OutOfBounds r cc)
    end
  else inr (OutOfBounds r cc).

(* one iteration of the while loop after [j] has been made non-negative *)
Definition jcf_step (chk : jcf_checks) (m n : Z) (rs : list N) (i j : Z) : list N + outcome :=
  let c := j - 1 in
  if (chk_col_hi chk && (n <=? c)) || (chk_row_hi chk && (m <=? i)) then inr (Die i c)
  else if (chk_row_neg chk && (i <? 0)) || (chk_col_neg chk && (c <? 0)) then inr (Die i c)
  else jcf_write m n rs i c.

Fixpoint jcf_loop (chk : jcf_checks) (m n : Z) (i : Z) (toks : list Z) (rs : list N) : outcome :=
  match toks with
  | [] => Ok (mk (Z.to_nat m) (Z.to_nat n) rs)
  | t :: rest =>
      if t <? 0 then                                   (* if (j < 0) { i++, j = -j; } *)
        let i' := i + 1 in
        if chk_negate chk && (t <? - n) then Die i' (- (t + 1))
        else if t =? LONG_MIN then Overflow
        else match jcf_step chk m n rs i' (- t) with
             | inl rs' => jcf_loop chk m n i' rest rs'
             | inr o => o
             end
      else match jcf_step chk m n rs i t with
           | inl rs' => jcf_loop chk m n i rest rs'
           | inr o => o
           end
  end.

Definition jcf_parse (chk : jcf_checks) (h : jcf_header) (toks : list Z) : outcome :=
  if negb (h_conv h =? 4) then Reject
  else if negb (h_p h =? 2) then Reject
  else if bad_dims (h_m h) (h_n h) then (if chk_dims chk then Reject else InitPre)
  else jcf_loop chk (h_m h) (h_n h) (-1) toks (repeat 0%N (Z.to_nat (h_m h))).

(** ** What a JCF entry list denotes (independent of the parser): entry number [k] with value [t]
    stands for column [|t| - 1] of row [(number of negative entries among the first k+1) - 1]. *)
Fixpoint count_neg (l : list Z) : Z :=
  match l with [] => 0 | t :: r => (if t <? 0 then 1 else 0) + count_neg r end.
Definition jcf_denotes (toks : list Z) (i j : Z) : Prop :=
  exists k t, nth_error toks k = Some t /\ j = Z.abs t - 1 /\ i = count_neg (firstn (S k) toks) - 1.
(* the text is a valid description of an m x n matrix *)
Definition jcf_valid (m n : Z) (toks : list Z) : Prop :=
  forall i j, jcf_denotes toks i j -> 0 <= i < m /\ 0 <= j < n.

Local Close Scope Z_scope.

(** * mzd_from_str.  The C string is [s] followed by NUL; reading past the NUL is out of bounds. *)
Definition str_get (s : list N) (idx : nat) : option N :=
  if idx <? length s then nth_error s idx else if idx =? length s then Some 0%N else None.

(* __M4RI_WRITE_BIT(w, spot, value) *)
Definition write_bit (w : N) (spot : nat) (v : bool) : N :=
  N.lor (N.ldiff w (N.shiftl 1 (N.of_nat spot))) (N.shiftl (N.b2n v) (N.of_nat spot)).

(* for (j = j0; <cnt iterations>; j++) mzd_write_bit(A, i, j, str[idx++] == '1') *)
Fixpoint str_row (cnt j idx : nat) (s : list N) (r : N) : option (N * nat) :=
  match cnt with
  | 0 => Some (r, idx)
  | S cnt' =>
      match str_get s idx with
      | None => None
      | Some ch => str_row cnt' (S j) (S idx) s (write_bit r j (ch =? 49)%N)
      end
  end.

Fixpoint str_rows (cnt n idx : nat) (s : list N) : option (list N) :=
  match cnt with
  | 0 => Some []
  | S cnt' =>
      match str_row n 0 idx s 0%N with
      | None => None
      | Some (r, idx') =>
          match str_rows cnt' n idx' s with Some rs => Some (r :: rs) | None => None end
      end
  end.

Definition from_str (m n : nat) (s : list N) : option mat :=
  match str_rows m n 0 s with Some rs => Some (mk m n rs) | None => None end.

(** * Entry points of the correspondence run (tools/props/c18.py evaluates these with vm_compute) *)
Fixpoint bytes_to_N (l : list N) : N :=
  match l with [] => 0%N | x :: t => (x + 256 * bytes_to_N t)%N end.
Fixpoint N_to_bytes (cnt : nat) (x : N) : list N :=
  match cnt with 0 => [] | S c => N.land x 255 :: N_to_bytes c (N.shiftr x 8) end.

(* row [r] of [n] columns -> [1; packed buffer bytes; file bytes; row read back] or [0] *)
Definition png_case (n : nat) (r : N) : list N :=
  match png_pack_row n (words_of (width n) r) with
  | None => [0%N]
  | Some bytes =>
      let f := png_file_row bytes in
      match png_unpack_row n (png_delivered f) with
      | None => [2%N; bytes_to_N bytes; bytes_to_N f]
      | Some ws => [1%N; bytes_to_N bytes; bytes_to_N f; row_of ws]
      end
  end.

(* raw file row bytes (as one number, [len] bytes) of an image of width [n] -> [1; row] or [0] *)
Definition png_read_case (n len : nat) (f : N) : list N :=
  match png_unpack_row n (png_delivered (N_to_bytes len f)) with
  | None => [0%N]
  | Some ws => [1%N; row_of ws]
  end.

Definition png_header_case (d dm : bool) (w h depth ct il : nat) : N :=
  match png_header {| pchk_depth := d; pchk_dims := dm |}
                   {| ih_w := w; ih_h := h; ih_depth := depth; ih_ctype := ct; ih_interlace := il |} with
  | PAccept => if png_rowbytes_gen w depth ct <=? from_png_bufsize w then 0%N else 3%N
  | PReject => 1%N
  | PInitPre => 2%N
  end.

Definition show_outcome (o : outcome) : list Z :=
  match o with
  | Ok M => 0%Z :: Z.of_nat (nr M) :: Z.of_nat (nc M) :: map Z.of_N (rows M)
  | Reject => [1%Z]
  | Die i j => [2%Z; i; j]
  | OutOfBounds i j => [3%Z; i; j]
  | Overflow => [4%Z]
  | InitPre => [5%Z]
  end.

Definition jcf_case (c : list bool) (h : list Z) (toks : list Z) : list Z :=
  let b k := nth k c false in
  let z k := nth k h 0%Z in
  show_outcome (jcf_parse {| chk_row_hi := b 0; chk_col_hi := b 1; chk_row_neg := b 2; chk_col_neg := b 3;
                             chk_negate := b 4; chk_dims := b 5 |}
                          {| h_conv := z 0; h_m := z 1; h_n := z 2; h_p := z 3; h_nz := z 4 |} toks).

Definition str_case (m n : nat) (s : list N) : list N :=
  match from_str m n s with Some M => 1%N :: rows M | None => [0%N] end.
