(* Word/WRefine16.v — mzd_submatrix into a LARGER supplied destination (the `_partial` of C08):
   mzd_submatrix accepts any S with S->nrows >= nrows and S->ncols >= ncols (mzd.c:1615).
     * aligned path (startcol % 64 = 0): correct for EVERY larger S — the block lands in the top-left
       corner of S and no other bit of S (or of anything else) changes;
     * unaligned path: correct for every TALLER S of exactly the block's width; for a WIDER S it is
       false in the C code (tail merged under S->high_bitmask: Properties_C09.C09_submatrix_unaligned_wider_refuted).
   Proof device: the code only uses S through mzd_row(S, i) (and S->high_bitmask on the unaligned
   path), so it runs identically on the header of the top-left nrows x ncols window of S; the theorem
   for a destination of exactly the block's dimensions then applies to that window, and [window_paste]
   lifts the result to S.  No axioms. *)
From Coq Require Import List NArith Arith Lia Bool ZifyBool ZifyNat ZifyN ZArith.
From M4 Require Import Base.Bits Lin.Mat Lin.Ops Lin.OpsProofs Word.WMat Word.WOps Word.WOps2
  Word.WMatLemmas Word.WRefineLemmas Word.WRefine5 Word.WRefine14.
Import ListNotations.
Local Open Scope nat_scope.
Ltac Zify.zify_post_hook ::= Z.div_mod_to_equations.

(** header of the top-left r x c corner of S (same data pointer, same rowstride) *)
Definition sub_hdr (hS : hdr) (r c : nat) : hdr :=
  mkHdr r c ((c + 63) / 64) (h_rowstride hS) (h_off hS) (left_bitmask (c mod 64)) true.

Lemma sub_hdr_window hS r c : r <= h_nrows hS -> sub_hdr hS r c = window_hdr hS 0 0 r c.
Proof.
  intros Hr. unfold sub_hdr, window_hdr. rewrite !Nat.sub_0_r, Nat.min_l by assumption.
  f_equal; lia.
Qed.

(** the code of mzd_submatrix cannot tell S from its top-left corner *)
Lemma submatrix_sub_hdr hS hM sr sc er ec mem : hdr_ok hS ->
  er - sr <= h_nrows hS -> ec - sc <= h_ncols hS -> (sc mod 64 = 0 \/ h_ncols hS = ec - sc) ->
  w_submatrix_fixed hS hM sr sc er ec mem = w_submatrix_fixed (sub_hdr hS (er - sr) (ec - sc)) hM sr sc er ec mem.
Proof.
  intros [HW [HM _]] Hr Hc [Hal|Hcols].
  - unfold w_submatrix_fixed. cbn [sub_hdr h_nrows h_ncols]. rewrite !Nat.ltb_irrefl.
    destruct (Nat.ltb_spec (h_nrows hS) (er - sr)); [lia|]. destruct (Nat.ltb_spec (h_ncols hS) (ec - sc)); [lia|].
    cbn [orb]. destruct (Nat.eqb_spec (sc mod 64) 0); [reflexivity|lia].
  - assert (E : sub_hdr hS (er - sr) (ec - sc) =
                mkHdr (er - sr) (h_ncols hS) (h_width hS) (h_rowstride hS) (h_off hS) (h_hmask hS) true).
    { unfold sub_hdr. rewrite HW, HM, Hcols. reflexivity. }
    rewrite E. unfold w_submatrix_fixed, w_submatrix. cbn [h_nrows h_ncols]. rewrite !Nat.ltb_irrefl.
    destruct (Nat.ltb_spec (h_nrows hS) (er - sr)); [lia|]. destruct (Nat.ltb_spec (h_ncols hS) (ec - sc)); [lia|].
    cbn [orb]. reflexivity.
Qed.

Lemma wdisjoint_window h lowr lowc highr highc h' : hdr_ok h -> lowc mod 64 = 0 -> highc <= h_ncols h ->
  lowr <= h_nrows h -> wdisjoint h h' -> wdisjoint (window_hdr h lowr lowc highr highc) h'.
Proof.
  intros Hok Hlc Hhc Hlr Dj p H1 H2. apply (Dj p); [|exact H2]. destruct H1 as (i & k & Hi & Hk & ->).
  set (w := window_hdr h lowr lowc highr highc) in *.
  assert (Hokw : hdr_ok w) by now apply window_hdr_ok.
  apply (in_view_wview h _ 0 Hok). apply (window_in_view h lowr lowc highr highc); auto. fold w.
  apply in_view_word; auto; try lia. destruct Hokw as [Hw _]. rewrite Hw in Hk. lia.
Qed.

(** pasting at the origin is the "copy into the top-left corner" of Lin/Ops.v *)
Lemma mpaste_origin A B : wf A -> wf B -> nr B <= nr A -> nc B <= nc A -> mpaste A 0 0 B = mcopy_into A B.
Proof.
  intros HA HB Hr Hc. assert (HlA : length (rows A) = nr A) by now destruct HA.
  apply mat_ext; [apply wf_mpaste; auto|apply wf_mcopy_into; auto|reflexivity|reflexivity|].
  intros i j _ _. rewrite get_mpaste, get_mcopy_into by (auto; lia).
  cbn [Nat.add]. rewrite !Nat.sub_0_r. destruct (Nat.ltb_spec i (nr B)), (Nat.ltb_spec j (nc B)); reflexivity.
Qed.

(** mzd_submatrix(S, M, ...) for a supplied S that is LARGER than the block (current C text) *)
Theorem w2_submatrix_larger_ok hS hM sr sc er ec mem :
  valid hS mem -> valid hM mem -> er - sr <= h_nrows hS -> ec - sc <= h_ncols hS ->
  (sc mod 64 = 0 \/ h_ncols hS = ec - sc) ->
  sr <= er -> er <= h_nrows hM -> ec <= h_ncols hM -> sc < ec -> wdisjoint hS hM ->
  exists m', w2_submatrix hS hM sr sc er ec mem = Ok m' /\ length m' = length mem /\ mem_ok m' /\
    abs hS m' = msub_into (abs hS mem) (msub (abs hM mem) sr sc (er - sr) (ec - sc)) /\
    outside hS mem m'.
Proof.
  intros HvS HvM Hr Hc Hpath Hsr Her Hec Hsc Dj.
  pose proof (valid_hdr_ok _ _ HvS) as HokS. pose proof (valid_hdr_ok _ _ HvM) as HokM.
  rewrite w2_submatrix_eq, submatrix_sub_hdr by assumption.
  rewrite sub_hdr_window by assumption. set (w := window_hdr hS 0 0 (er - sr) (ec - sc)).
  assert (Hz : 0 mod 64 = 0) by reflexivity.
  assert (Hvw : valid w mem) by (apply window_valid; auto; lia).
  assert (Djw : wdisjoint w hM) by (apply wdisjoint_window; auto; lia).
  assert (Hnr : h_nrows w = er - sr) by (unfold w; cbn [window_hdr h_nrows]; lia).
  assert (Hnc : h_ncols w = ec - sc) by (unfold w; cbn [window_hdr h_ncols]; lia).
  destruct (w_submatrix_fixed_ok w hM sr sc er ec mem Hvw HvM Hnr Hnc Hsr Her Hec Hsc Djw)
    as (m' & E & L & O & A & Out).
  exists m'. split; [exact E|]. split; [assumption|]. split; [assumption|].
  pose proof (window_paste hS 0 0 (er - sr) (ec - sc) mem m' HokS Hz ltac:(lia) Hc ltac:(lia) Out) as A2.
  pose proof (outside_window_parent hS 0 0 (er - sr) (ec - sc) mem m' HokS Hz Hc ltac:(lia) Out) as A3.
  split; [|exact A3]. fold w in A2. rewrite A2, A. unfold msub_into. apply mpaste_origin.
  - apply abs_wf.
  - apply wf_msub. rewrite rows_abs_length. lia.
  - cbn [nr msub]. rewrite nr_abs. lia.
  - cbn [nc msub]. rewrite nc_abs. lia.
Qed.
