(* Word/WRefine10.v — refinement / frame / padding theorems, part 10: mzd_extract_l.
   The C code clears "to the end of the word" with mzd_clear_bits and then stores whole zero words up
   to width-1, i.e. it also clears the bits beyond the last column.  Hence:
     * refinement holds for every destination;
     * the frame holds on the view WIDENED to whole words, and on the view itself exactly when the
       bits beyond the last column were zero before (owned destinations: C10) — for a window with
       foreign bits in its last word it fails ([w_extract_l_frame_refuted] in Properties_C09).
   Proof device: the same kernels seen through the header [widen h] (ncols := 64 * width).  No axioms. *)
From Coq Require Import List NArith Arith Lia Bool ZifyBool ZifyNat ZifyN ZArith.
From M4 Require Import Base.Bits Lin.Mat Lin.Ops Lin.OpsProofs Word.WMat Word.WOps Word.WMatLemmas
  Word.WRefineLemmas Word.WRefine Word.WRefine2 Word.WRefine3 Word.WRefine5 Word.WRefine6 Word.WRefine9.
Import ListNotations.
Local Open Scope nat_scope.
Ltac Zify.zify_post_hook ::= Z.div_mod_to_equations.

Definition widen (h : hdr) : hdr :=
  mkHdr (h_nrows h) (64 * h_width h) (h_width h) (h_rowstride h) (h_off h) (left_bitmask 0) (h_windowed h).

Lemma widen_ok h : hdr_ok h -> hdr_ok (widen h).
Proof.
  intros [Hw [_ Hrs]]. unfold hdr_ok, widen. cbn [h_width h_ncols h_hmask h_rowstride].
  split; [lia|]. split; [|assumption]. f_equal. lia.
Qed.

Lemma widen_valid h mem : valid h mem -> valid (widen h) mem.
Proof. intros [H1 [H2 H3]]. split; [now apply widen_ok|]. split; [exact H2|exact H3]. Qed.

Lemma widen_row_addr h i : row_addr (widen h) i = row_addr h i. Proof. reflexivity. Qed.

Lemma rowval_widen h m i : hdr_ok h ->
  rowval h m i = N.land (rowval (widen h) m i) (N.ones (N.of_nat (h_ncols h))).
Proof.
  intros Hok. apply bits_ext_nat. intros j. rewrite N.land_spec, testbit_ones_nat.
  rewrite !testbit_rowval by auto using widen_ok. rewrite widen_row_addr. cbn [widen h_ncols].
  pose proof (ncols_width h Hok).
  destruct (Nat.ltb_spec j (h_ncols h)), (Nat.ltb_spec j (64 * h_width h)); cbn [andb]; try lia;
    now rewrite ?andb_true_r, ?andb_false_r.
Qed.

(** row i of mzd_extract_l, seen on the widened view *)
Lemma extract_l_row hL i mem : valid hL mem -> i + 1 < h_ncols hL -> i < h_nrows hL ->
  let hW := widen hL in
  exists m',
    (m1 <- (if negb (64 - (i + 1) mod 64 =? 0)
            then w_clear_bits hL i (i + 1) (64 - (i + 1) mod 64) mem else Ok mem) ;;
     forM (seq (i / 64 + 1) (h_width hL - (i / 64 + 1))) (fun j m => wr m (row_addr hL i + j) 0%N) m1) = Ok m' /\
    length m' = length mem /\ mem_ok m' /\ touched hW i 0 (h_ncols hW) mem m' /\
    rowval hW m' i = N.land (rowval hW mem i) (N.ones (N.of_nat (i + 1))).
Proof.
  intros Hv Hic Hi hW. pose proof (valid_hdr_ok _ _ Hv) as Hok. pose proof (valid_mem_ok _ _ Hv) as Hm.
  pose proof (widen_valid hL mem Hv) as HvW. pose proof (widen_ok hL Hok) as HokW. fold hW in HvW, HokW.
  pose proof (width_pos hL (i + 1) Hok Hic) as Hiw. set (W := h_width hL) in *.
  assert (EcW : h_ncols hW = 64 * W) by reflexivity.
  destruct (Nat.eqb_spec (64 - (i + 1) mod 64) 0); [lia|]. cbn [negb].
  change (w_clear_bits hL i (i + 1) (64 - (i + 1) mod 64) mem) with (w_clear_bits hW i (i + 1) (64 - (i + 1) mod 64) mem).
  destruct (w_clear_bits_ok hW mem i (i + 1) (64 - (i + 1) mod 64)) as (m1 & E1 & L1 & O1 & T1 & B1); auto; try lia.
  rewrite E1. cbn [bind].
  pose proof (valid_word hL mem i (W - 1) Hv Hi ltac:(lia)).
  destruct (forM_store (row_addr hL i) (i / 64 + 1) (W - (i / 64 + 1)) (fun _ => 0%N)
              (fun j m => wr m (row_addr hL i + j) 0%N) m1 O1 ltac:(lia)) as (m2 & E2 & L2 & O2 & D2).
  { reflexivity. }
  exists m2. split; [exact E2|]. split; [congruence|]. split; [assumption|].
  assert (D2' : desc m2 (stored (row_addr hW i + (i / 64 + 1)) 0 (W - (i / 64 + 1)) (fun _ => 0%N) m1)).
  { change (row_addr hW i) with (row_addr hL i).
    apply (desc_unshift (row_addr hL i) (i / 64 + 1) (W - (i / 64 + 1)) (fun _ => 0%N) m1 m2). exact D2. }
  destruct (row_kernel hW i (i / 64 + 1) (W - (i / 64 + 1)) (64 * (i / 64 + 1)) (64 * W) _ m1 m2 HokW
              ltac:(change (h_width hW) with W; lia) L2 D2') as [T2 B2].
  { intros k b Hk Hb Hn. lia. }
  split.
  - apply (touched_trans hW i 0 (h_ncols hW) mem m1 m2).
    + apply (touched_weaken hW i (i + 1) (i + 1 + (64 - (i + 1) mod 64))); [lia|rewrite EcW; lia|assumption].
    + apply (touched_weaken hW i (64 * (i / 64 + 1)) (64 * W)); [lia|rewrite EcW; lia|assumption].
  - apply bits_ext_nat. intros j. rewrite N.land_spec, testbit_ones_nat.
    destruct (Nat.lt_ge_cases j (64 * W)) as [Hj|Hj].
    2:{ rewrite !rowval_bounded by (rewrite EcW; lia). reflexivity. }
    rewrite B2 by (rewrite EcW; lia).
    destruct (Nat.leb_spec (i / 64 + 1) (j / 64)); cbn [andb].
    + destruct (Nat.ltb_spec (j / 64) (i / 64 + 1 + (W - (i / 64 + 1)))); [|lia].
      rewrite N.bits_0. destruct (Nat.ltb_spec j (i + 1)); [lia|]. now rewrite andb_false_r.
    + rewrite B1. f_equal.
      destruct (Nat.leb_spec (i + 1) j), (Nat.ltb_spec j (i + 1 + (64 - (i + 1) mod 64))), (Nat.ltb_spec j (i + 1));
        cbn [andb negb]; try reflexivity; lia.
Qed.

Lemma extract_l_tail hL m0 : valid hL m0 -> h_nrows hL = h_ncols hL ->
  exists m', forM (seq 0 (h_nrows hL - 1)) (fun i m =>
      let row := row_addr hL i in
      m1 <- (if negb (64 - (i + 1) mod 64 =? 0)
             then w_clear_bits hL i (i + 1) (64 - (i + 1) mod 64) m else Ok m) ;;
      forM (seq (i / 64 + 1) (h_width hL - (i / 64 + 1))) (fun j m => wr m (row + j) 0%N) m1) m0 = Ok m' /\
    length m' = length m0 /\ mem_ok m' /\
    abs hL m' = map_rows (fun i r => N.land r (N.ones (N.of_nat (S i)))) (abs hL m0) /\
    outside (widen hL) m0 m' /\
    (padding_zero hL m0 -> outside hL m0 m').
Proof.
  intros Hv Hsq. pose proof (valid_hdr_ok _ _ Hv) as Hok. pose proof (valid_mem_ok _ _ Hv) as Hm.
  pose proof (widen_ok hL Hok) as HokW. set (hW := widen hL) in *.
  destruct (rows_loop hW 0 0 (h_nrows hL - 1) 0 (h_ncols hW)
     (fun k => N.land (rowval hW m0 k) (N.ones (N.of_nat (k + 1))))
     (fun i m =>
        m1 <- (if negb (64 - (i + 1) mod 64 =? 0)
               then w_clear_bits hL i (i + 1) (64 - (i + 1) mod 64) m else Ok m) ;;
        forM (seq (i / 64 + 1) (h_width hL - (i / 64 + 1))) (fun j m => wr m (row_addr hL i + j) 0%N) m1) m0 HokW
     ltac:(cbn; lia) ltac:(lia) Hm) as (m' & E & L & O & Out & Done & Rest).
  - intros k m Hk Lm Om Outm Restm. cbn [Nat.add] in *.
    destruct (extract_l_row hL k m) as (m' & E & L' & O' & T & B);
      try (eapply valid_same_length; eassumption); try lia.
    exists m'. split; [exact E|]. split; [assumption|]. split; [assumption|].
    fold hW in B. rewrite B, Restm by lia. reflexivity.
  - cbn [Nat.add] in *.
    assert (Rows : forall i, i < h_nrows hL ->
              rowval hL m' i = N.land (rowval hL m0 i) (N.ones (N.of_nat (S i)))).
    { intros i Hi. rewrite !(rowval_widen hL) by assumption. fold hW.
      destruct (Nat.lt_ge_cases i (h_nrows hL - 1)) as [Hlt|Hge].
      - rewrite (Done i) by lia. replace (i + 1) with (S i) by lia.
        rewrite <- !N.land_assoc. f_equal. apply N.land_comm.
      - rewrite Rest by lia. apply bits_ext_nat. intros j. rewrite !N.land_spec, !testbit_ones_nat.
        destruct (Nat.ltb_spec j (h_ncols hL)), (Nat.ltb_spec j (S i)); try lia; now rewrite ?andb_true_r, ?andb_false_r. }
    exists m'. split; [exact E|]. do 2 (split; [assumption|]). split; [|split; [assumption|]].
    + apply abs_rows_ext; try reflexivity.
      * now rewrite rows_map_rows_length, rows_abs_length.
      * intros i Hi. rewrite row_map_rows by now rewrite rows_abs_length. rewrite row_abs by assumption.
        now apply Rows.
    + intros Pad. destruct Out as [Lo Ho]. split; [assumption|]. intros p b Hb Hn.
      destruct (in_viewb hW p b) eqn:Ev.
      * apply in_viewb_spec in Ev; [|assumption]. destruct Ev as (i & j & Hi & Hj & -> & ->).
        change (h_nrows hW) with (h_nrows hL) in Hi. change (h_ncols hW) with (64 * h_width hL) in Hj.
        change (row_addr hW i) with (row_addr hL i) in *.
        destruct (Nat.lt_ge_cases j (h_ncols hL)) as [Hjc|Hjc]; [exfalso; apply Hn; now apply in_view_intro|].
        pose proof (rowval_bit hW m' i j HokW Hj) as B1. pose proof (rowval_bit hW m0 i j HokW Hj) as B0.
        change (row_addr hW i) with (row_addr hL i) in B1, B0. rewrite B1, B0.
        destruct (Nat.lt_ge_cases i (h_nrows hL - 1)) as [Hlt|Hge].
        -- rewrite (Done i) by lia. rewrite N.land_spec, testbit_ones_nat.
           destruct (Nat.ltb_spec j (i + 1)); [lia|]. rewrite andb_false_r.
           rewrite <- B0. pose proof (ncols_width_lt hL Hok ltac:(lia)).
           replace (j / 64) with (h_width hL - 1) by lia. symmetry. apply Pad; try lia.
        -- now rewrite Rest by lia.
      * apply Ho; [assumption|]. intros Hin. apply in_viewb_spec in Hin; [congruence|assumption].
Qed.

(** mzd_extract_l over ANY submatrix step meeting the submatrix specification *)
Theorem w_extract_l_generic (sub : hdr -> hdr -> nat -> nat -> nat -> nat -> list N -> res (list N))
  hL hA mem m0 :
  let k := Nat.min (h_nrows hA) (h_ncols hA) in
  valid hL mem -> h_nrows hL = k -> h_ncols hL = k ->
  sub hL hA 0 0 k k mem = Ok m0 -> length m0 = length mem -> mem_ok m0 ->
  abs hL m0 = msub (abs hA mem) 0 0 k k -> outside hL mem m0 ->
  exists m', (m0 <- sub hL hA 0 0 k k mem ;;
              forM (seq 0 (h_nrows hL - 1)) (fun i m =>
                let row := row_addr hL i in
                m1 <- (if negb (64 - (i + 1) mod 64 =? 0)
                       then w_clear_bits hL i (i + 1) (64 - (i + 1) mod 64) m else Ok m) ;;
                forM (seq (i / 64 + 1) (h_width hL - (i / 64 + 1))) (fun j m => wr m (row + j) 0%N) m1) m0) = Ok m' /\
    length m' = length mem /\ mem_ok m' /\ abs hL m' = extract_l (abs hA mem) /\
    (padding_zero hL mem -> outside hL mem m' /\ padding_zero hL m').
Proof.
  intros k HvL Hr Hc Es L0 O0 A0 Out0. rewrite Es. cbn [bind].
  pose proof (valid_hdr_ok _ _ HvL) as Hok.
  destruct (extract_l_tail hL m0) as (m' & E & L & O & A & OutW & OutP).
  - eapply valid_same_length; eassumption.
  - lia.
  - exists m'. split; [exact E|]. split; [congruence|]. split; [assumption|]. split.
    + rewrite A, A0. reflexivity.
    + intros Pad. assert (Pad0 : padding_zero hL m0) by (eapply outside_padding; eassumption).
      assert (Out : outside hL mem m') by (eapply outside_trans; [eassumption|auto]).
      split; [assumption|]. eapply outside_padding; eassumption.
Qed.

Definition w_extract_l_fx (hL hA : hdr) (mem : list N) : res (list N) :=
  let k := Nat.min (h_nrows hA) (h_ncols hA) in
  m0 <- w_submatrix_fixed hL hA 0 0 k k mem ;;
  forM (seq 0 (h_nrows hL - 1)) (fun i m =>
    let row := row_addr hL i in
    m1 <- (if negb (64 - (i + 1) mod 64 =? 0)
           then w_clear_bits hL i (i + 1) (64 - (i + 1) mod 64) m else Ok m) ;;
    forM (seq (i / 64 + 1) (h_width hL - (i / 64 + 1))) (fun j m => wr m (row + j) 0%N) m1) m0.

Theorem w_extract_l_fx_ok hL hA mem :
  let k := Nat.min (h_nrows hA) (h_ncols hA) in
  valid hL mem -> valid hA mem -> 0 < k -> h_nrows hL = k -> h_ncols hL = k -> wdisjoint hL hA ->
  exists m', w_extract_l_fx hL hA mem = Ok m' /\ length m' = length mem /\ mem_ok m' /\
    abs hL m' = extract_l (abs hA mem) /\
    (padding_zero hL mem -> outside hL mem m' /\ padding_zero hL m').
Proof.
  intros k HvL HvA Hk Hr Hc Dj.
  destruct (w_submatrix_fixed_ok hL hA 0 0 k k mem) as (m0 & E0 & L0 & O0 & A0 & Out0); auto; try (subst k; lia).
  rewrite Nat.sub_0_r in A0.
  exact (w_extract_l_generic w_submatrix_fixed hL hA mem m0 HvL Hr Hc E0 L0 O0 A0 Out0).
Qed.

Theorem w_extract_l_ok_of_sub hL hA mem m0 :
  let k := Nat.min (h_nrows hA) (h_ncols hA) in
  valid hL mem -> h_nrows hL = k -> h_ncols hL = k ->
  w_submatrix hL hA 0 0 k k mem = Ok m0 -> length m0 = length mem -> mem_ok m0 ->
  abs hL m0 = msub (abs hA mem) 0 0 k k -> outside hL mem m0 ->
  exists m', w_extract_l hL hA mem = Ok m' /\ length m' = length mem /\ mem_ok m' /\
    abs hL m' = extract_l (abs hA mem) /\
    (padding_zero hL mem -> outside hL mem m' /\ padding_zero hL m').
Proof. intros k. exact (w_extract_l_generic w_submatrix hL hA mem m0). Qed.

Definition w_extract_l_fx_fresh (hA : hdr) (mem : list N) : res (list N * hdr) :=
  let k := Nat.min (h_nrows hA) (h_ncols hA) in
  let '(mem0, hL) := w_alloc mem k k in
  m <- w_extract_l_fx hL hA mem0 ;; Ok (m, hL).

Theorem w_extract_l_fx_fresh_ok hA mem : valid hA mem -> 0 < Nat.min (h_nrows hA) (h_ncols hA) ->
  exists m' hL, w_extract_l_fx_fresh hA mem = Ok (m', hL) /\ fresh_post mem (extract_l (abs hA mem)) m' hL.
Proof.
  intros HvA Hk. pose proof (valid_mem_ok _ _ HvA) as Hm. set (k := Nat.min (h_nrows hA) (h_ncols hA)) in *.
  destruct (fresh_generic (fun hL m => w_extract_l_fx hL hA m) [hA] k k mem (extract_l (abs hA mem)) Hm)
    as (m' & E & P).
  - intros h [<- |[]]. assumption.
  - intros hL mem0 HvL Hr Hc Pad Hs. destruct (Hs hA (or_introl eq_refl)) as (HvA0 & Dj & AA).
    rewrite <- AA. destruct (w_extract_l_fx_ok hL hA mem0) as (m' & E & L & O & A & F); auto.
    exists m'. do 4 (split; [assumption|]). now apply F.
  - unfold w_extract_l_fx_fresh. fold k. destruct (w_alloc mem k k) as [mem0 hL]. cbn [fst snd] in *.
    rewrite E. cbn [bind]. eauto.
Qed.
