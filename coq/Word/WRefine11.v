(* Word/WRefine11.v — refinement / frame / padding theorems, part 11: mzd_col_swap_in_rows (same-word
   and two-word forms).  No axioms. *)
From Coq Require Import List NArith Arith Lia Bool ZifyBool ZifyNat ZifyN ZArith.
From M4 Require Import Base.Bits Lin.Mat Lin.Ops Lin.OpsProofs Word.WMat Word.WOps Word.WMatLemmas
  Word.WRefineLemmas Word.WRefine.
Import ListNotations.
Local Open Scope nat_scope.
Ltac Zify.zify_post_hook ::= Z.div_mod_to_equations.

Lemma testbit_shl1 s c : N.testbit (shl 1 s) (N.of_nat c) = (c =? s) && (c <? 64).
Proof.
  rewrite testbit_shl, testbit_1.
  destruct (Nat.leb_spec s c), (Nat.eqb_spec (c - s) 0), (Nat.eqb_spec c s), (Nat.ltb_spec c 64);
    cbn [andb]; try reflexivity; lia.
Qed.

(** cm is the column with the smaller bit index inside its word, cM the other one *)
Section SwapRow.
  Variables (h : hdr) (i cm cM : nat) (mem : list N).
  Hypothesis (Hv : valid h mem) (Hi : i < h_nrows h) (Hcm : cm < h_ncols h) (HcM : cM < h_ncols h).
  Let off := cM mod 64 - cm mod 64.
  Let mask := shl 1 (cm mod 64).

  Lemma swap_same_word : cm / 64 = cM / 64 -> cm mod 64 < cM mod 64 ->
    let p := row_addr h i + cm / 64 in
    exists m',
      (x <- rd mem p ;;
       cur <- rd mem p ;;
       wr mem p (N.lxor cur (N.lor (N.land (N.lxor x (shr x off)) mask) (shl (N.land (N.lxor x (shr x off)) mask) off))))
      = Ok m' /\
      length m' = length mem /\ mem_ok m' /\ touched h i 0 (h_ncols h) mem m' /\
      forall j, N.testbit (rowval h m' i) (N.of_nat j) = N.testbit (rowval h mem i) (N.of_nat (transp cm cM j)).
  Proof.
    intros Ew Hlt p. pose proof (valid_hdr_ok _ _ Hv) as Hok. pose proof (valid_mem_ok _ _ Hv) as Hm.
    assert (Hp : p < length mem) by (apply valid_word; auto using width_pos).
    rewrite !rd_ok by assumption. cbn [bind]. rewrite wr_ok by assumption.
    set (x := word_at mem p).
    set (V := N.lxor x _).
    assert (VB : forall b, b < 64 -> N.testbit V (N.of_nat b) =
              if b =? cm mod 64 then N.testbit x (N.of_nat (cM mod 64))
              else if b =? cM mod 64 then N.testbit x (N.of_nat (cm mod 64))
              else N.testbit x (N.of_nat b)).
    { intros b Hb. unfold V. rewrite N.lxor_spec, N.lor_spec, testbit_shl, !N.land_spec, !N.lxor_spec, !testbit_shr.
      unfold mask. rewrite !testbit_shl1. unfold off.
      destruct (Nat.eqb_spec b (cm mod 64)) as [-> |N1].
      - destruct (Nat.ltb_spec (cm mod 64) 64); [|lia]. rewrite !andb_true_r.
        replace (cm mod 64 + (cM mod 64 - cm mod 64)) with (cM mod 64) by lia.
        destruct (Nat.leb_spec (cM mod 64 - cm mod 64) (cm mod 64)); cbn [andb].
        + destruct (Nat.eqb_spec (cm mod 64 - (cM mod 64 - cm mod 64)) (cm mod 64)); [lia|].
          cbn [andb]. rewrite andb_false_r, orb_false_r.
          now destruct (N.testbit x (N.of_nat (cm mod 64))), (N.testbit x (N.of_nat (cM mod 64))).
        + rewrite orb_false_r. now destruct (N.testbit x (N.of_nat (cm mod 64))), (N.testbit x (N.of_nat (cM mod 64))).
      - cbn [andb]. rewrite andb_false_r. cbn [orb].
        destruct (Nat.eqb_spec b (cM mod 64)) as [-> |N2].
        + destruct (Nat.leb_spec (cM mod 64 - cm mod 64) (cM mod 64)); [|lia]. cbn [andb].
          replace (cM mod 64 - (cM mod 64 - cm mod 64)) with (cm mod 64) by lia.
          rewrite Nat.eqb_refl. destruct (Nat.ltb_spec (cm mod 64) 64), (Nat.ltb_spec (cM mod 64) 64); try lia.
          cbn [andb]. rewrite !andb_true_r.
          replace (cm mod 64 + (cM mod 64 - cm mod 64)) with (cM mod 64) by lia.
          now destruct (N.testbit x (N.of_nat (cm mod 64))), (N.testbit x (N.of_nat (cM mod 64))).
        + destruct (Nat.leb_spec (cM mod 64 - cm mod 64) b); cbn [andb]; [|apply xorb_false_r].
          destruct (Nat.eqb_spec (b - (cM mod 64 - cm mod 64)) (cm mod 64)); [lia|].
          cbn [andb]. rewrite !andb_false_r. cbn [andb]. apply xorb_false_r. }
    eexists. split; [reflexivity|]. split; [apply upd_length|]. split; [now apply mem_ok_upd|]. split.
    - apply upd_word_touched; [assumption|]. intros b Hb Hn. rewrite VB by assumption.
      destruct (Nat.eqb_spec b (cm mod 64)); [lia|]. destruct (Nat.eqb_spec b (cM mod 64)); [lia|]. reflexivity.
    - intros j. unfold p. rewrite upd_word_rowval by assumption. fold p. unfold transp.
      destruct (Nat.eqb_spec (j / 64) (cm / 64)) as [E|E].
      + rewrite VB by lia. fold x.
        destruct (Nat.ltb_spec j (h_ncols h)) as [Hj|Hj]; cbn [andb].
        * destruct (Nat.eqb_spec j cm) as [-> |N1].
          -- rewrite Nat.eqb_refl. rewrite <- (rowval_bit h mem i cM) by assumption. unfold bit. now rewrite <- Ew.
          -- destruct (Nat.eqb_spec (j mod 64) (cm mod 64)); [lia|].
             destruct (Nat.eqb_spec j cM) as [-> |N2].
             ++ rewrite Nat.eqb_refl. rewrite <- (rowval_bit h mem i cm) by assumption. reflexivity.
             ++ destruct (Nat.eqb_spec (j mod 64) (cM mod 64)); [lia|].
                rewrite <- (rowval_bit h mem i j) by assumption. unfold bit. now rewrite E.
        * destruct (Nat.eqb_spec j cm); [lia|]. destruct (Nat.eqb_spec j cM); [lia|]. now rewrite rowval_bounded by lia.
      + destruct (Nat.eqb_spec j cm); [subst; lia|]. destruct (Nat.eqb_spec j cM); [subst; lia|]. reflexivity.
  Qed.

  Lemma swap_two_words : cm / 64 <> cM / 64 -> cm mod 64 <= cM mod 64 ->
    let pmin := row_addr h i + cm / 64 in
    let pmax := row_addr h i + cM / 64 in
    exists m',
      (lo <- rd mem pmin ;; hi <- rd mem pmax ;;
       lo' <- rd mem pmin ;; m1 <- wr mem pmin (N.lxor lo' (N.land (N.lxor lo (shr hi off)) mask)) ;;
       hi' <- rd m1 pmax ;; wr m1 pmax (N.lxor hi' (shl (N.land (N.lxor lo (shr hi off)) mask) off)))
      = Ok m' /\
      length m' = length mem /\ mem_ok m' /\ touched h i 0 (h_ncols h) mem m' /\
      forall j, N.testbit (rowval h m' i) (N.of_nat j) = N.testbit (rowval h mem i) (N.of_nat (transp cm cM j)).
  Proof.
    intros Ew Hle pmin pmax. pose proof (valid_hdr_ok _ _ Hv) as Hok. pose proof (valid_mem_ok _ _ Hv) as Hm.
    assert (Hpm : pmin < length mem) by (apply valid_word; auto using width_pos).
    assert (HpM : pmax < length mem) by (apply valid_word; auto using width_pos).
    rewrite !rd_ok by assumption. cbn [bind]. rewrite wr_ok by assumption. cbn [bind].
    rewrite rd_ok by (rewrite upd_length; assumption). cbn [bind]. rewrite wr_ok by (rewrite upd_length; assumption).
    rewrite (word_at_upd_neq pmin pmax) by (subst pmin pmax; lia).
    set (lo := word_at mem pmin). set (hi := word_at mem pmax).
    set (xv := N.land (N.lxor lo (shr hi off)) mask).
    assert (XV : forall c, N.testbit xv (N.of_nat c) =
               xorb (N.testbit lo (N.of_nat c)) (N.testbit hi (N.of_nat (c + off))) && ((c =? cm mod 64) && (c <? 64))).
    { intros c. unfold xv, mask. now rewrite N.land_spec, N.lxor_spec, testbit_shr, testbit_shl1. }
    assert (LB : forall b, b < 64 -> N.testbit (N.lxor lo xv) (N.of_nat b) =
               if b =? cm mod 64 then N.testbit hi (N.of_nat (cM mod 64)) else N.testbit lo (N.of_nat b)).
    { intros b Hb. rewrite N.lxor_spec, XV. destruct (Nat.eqb_spec b (cm mod 64)) as [-> |]; cbn [andb].
      - destruct (Nat.ltb_spec (cm mod 64) 64); [|lia]. rewrite andb_true_r. unfold off.
        replace (cm mod 64 + (cM mod 64 - cm mod 64)) with (cM mod 64) by lia.
        now destruct (N.testbit lo _), (N.testbit hi _).
      - rewrite andb_false_r. apply xorb_false_r. }
    assert (HB : forall b, b < 64 -> N.testbit (N.lxor hi (shl xv off)) (N.of_nat b) =
               if b =? cM mod 64 then N.testbit lo (N.of_nat (cm mod 64)) else N.testbit hi (N.of_nat b)).
    { intros b Hb. rewrite N.lxor_spec, testbit_shl, XV. unfold off.
      destruct (Nat.eqb_spec b (cM mod 64)) as [-> |N2].
      - destruct (Nat.leb_spec (cM mod 64 - cm mod 64) (cM mod 64)); [|lia]. cbn [andb].
        replace (cM mod 64 - (cM mod 64 - cm mod 64)) with (cm mod 64) by lia. rewrite Nat.eqb_refl.
        destruct (Nat.ltb_spec (cm mod 64) 64), (Nat.ltb_spec (cM mod 64) 64); try lia. cbn [andb]. rewrite !andb_true_r.
        replace (cm mod 64 + (cM mod 64 - cm mod 64)) with (cM mod 64) by lia.
        now destruct (N.testbit lo _), (N.testbit hi _).
      - destruct (Nat.leb_spec (cM mod 64 - cm mod 64) b); cbn [andb]; [|apply xorb_false_r].
        destruct (Nat.eqb_spec (b - (cM mod 64 - cm mod 64)) (cm mod 64)); [lia|].
        cbn [andb]. rewrite !andb_false_r. cbn [andb]. apply xorb_false_r. }
    set (m1 := upd pmin (trunc (N.lxor lo xv)) mem).
    assert (L1 : length m1 = length mem) by apply upd_length.
    eexists. split; [reflexivity|]. split; [now rewrite upd_length|]. split; [now apply mem_ok_upd, mem_ok_upd|].
    assert (T1 : touched h i 0 (h_ncols h) mem m1).
    { apply upd_word_touched; [assumption|]. intros b Hb Hn. rewrite LB by assumption.
      destruct (Nat.eqb_spec b (cm mod 64)); [lia|reflexivity]. }
    split.
    - apply (touched_trans h i 0 (h_ncols h) mem m1); [assumption|].
      apply upd_word_touched; [lia|]. intros b Hb Hn. rewrite HB by assumption.
      unfold m1. rewrite word_at_upd_neq by (subst pmin pmax; lia).
      destruct (Nat.eqb_spec b (cM mod 64)); [lia|reflexivity].
    - intros j. unfold pmax. rewrite upd_word_rowval by first [assumption | rewrite L1; assumption]. fold pmax. unfold transp.
      destruct (Nat.eqb_spec (j / 64) (cM / 64)) as [E|E].
      + rewrite HB by lia. destruct (Nat.eqb_spec j cm); [subst; lia|].
        destruct (Nat.ltb_spec j (h_ncols h)) as [Hj|Hj]; cbn [andb].
        * destruct (Nat.eqb_spec j cM) as [-> |N2].
          -- rewrite Nat.eqb_refl. now rewrite <- (rowval_bit h mem i cm) by assumption.
          -- destruct (Nat.eqb_spec (j mod 64) (cM mod 64)); [lia|].
             rewrite <- (rowval_bit h mem i j) by assumption. unfold bit. now rewrite E.
        * destruct (Nat.eqb_spec j cM); [lia|]. now rewrite rowval_bounded by lia.
      + unfold m1, pmin. rewrite upd_word_rowval by assumption. fold pmin.
        destruct (Nat.eqb_spec j cM); [subst; lia|].
        destruct (Nat.eqb_spec (j / 64) (cm / 64)) as [E2|E2].
        * rewrite LB by lia.
          destruct (Nat.ltb_spec j (h_ncols h)) as [Hj|Hj]; cbn [andb].
          -- destruct (Nat.eqb_spec j cm) as [-> |N1].
             ++ rewrite Nat.eqb_refl. now rewrite <- (rowval_bit h mem i cM) by assumption.
             ++ destruct (Nat.eqb_spec (j mod 64) (cm mod 64)); [lia|].
                rewrite <- (rowval_bit h mem i j) by assumption. unfold bit. now rewrite E2.
          -- destruct (Nat.eqb_spec j cm); [lia|]. now rewrite rowval_bounded by lia.
        * destruct (Nat.eqb_spec j cm); [subst; lia|]. reflexivity.
  Qed.
End SwapRow.

Lemma row_addr_plus h r0 k w : row_addr h r0 + w + k * h_rowstride h = row_addr h (r0 + k) + w.
Proof. unfold row_addr. lia. Qed.

Theorem w_col_swap_in_rows_ok h mem cola colb r0 r1 :
  valid h mem -> cola < h_ncols h -> colb < h_ncols h -> r0 <= r1 -> r1 <= h_nrows h ->
  exists m', w_col_swap_in_rows h cola colb r0 r1 mem = Ok m' /\ length m' = length mem /\ mem_ok m' /\
    abs h m' = col_swap_in_rows (abs h mem) cola colb r0 r1 /\ outside h mem m'.
Proof.
  intros Hv Ha Hb Hr0 Hr1. pose proof (valid_hdr_ok _ _ Hv) as Hok. pose proof (valid_mem_ok _ _ Hv) as Hm.
  unfold w_col_swap_in_rows.
  destruct (Nat.eqb_spec cola colb) as [Eab|Nab].
  { exists mem. split; [reflexivity|]. split; [reflexivity|]. split; [assumption|]. split; [|apply outside_refl].
    unfold col_swap_in_rows. now rewrite Eab, Nat.eqb_refl. }
  assert (Fin : forall m', length m' = length mem -> mem_ok m' -> outside h mem m' ->
     (forall k, k < r1 - r0 -> rowval h m' (r0 + k) = bit_swap (rowval h mem (r0 + k)) cola colb) ->
     (forall i, i < r0 \/ r1 <= i -> rowval h m' i = rowval h mem i) ->
     abs h m' = col_swap_in_rows (abs h mem) cola colb r0 r1).
  { intros m' L O Out Done Rest. apply abs_rows_ext.
    - now rewrite nr_col_swap_in_rows.
    - now rewrite nc_col_swap_in_rows.
    - now rewrite len_col_swap_in_rows, rows_abs_length.
    - intros i Hi. rewrite row_col_swap_in_rows. rewrite row_abs by assumption.
      destruct (Nat.leb_spec r0 i), (Nat.ltb_spec i r1); cbn [andb]; try (apply Rest; lia).
      replace i with (r0 + (i - r0)) by lia. apply Done. lia. }
  destruct (Nat.eqb_spec (r1 - r0) 0) as [E0|N0].
  { exists mem. split; [reflexivity|]. split; [reflexivity|]. split; [assumption|]. split; [|apply outside_refl].
    apply Fin; auto using outside_refl. intros; lia. }
  set (a_bit := cola mod 64). set (b_bit := colb mod 64).
  (* cm / cM: the column with the smaller / larger bit index *)
  set (cm := if a_bit <=? b_bit then cola else colb). set (cM := if a_bit <=? b_bit then colb else cola).
  assert (Emin : a_bit + b_bit - Nat.max a_bit b_bit = cm mod 64)
    by (subst cm a_bit b_bit; destruct (Nat.leb_spec (cola mod 64) (colb mod 64)); lia).
  assert (Eoff : Nat.max a_bit b_bit - cm mod 64 = cM mod 64 - cm mod 64)
    by (subst cm cM a_bit b_bit; destruct (Nat.leb_spec (cola mod 64) (colb mod 64)); lia).
  assert (Hcm : cm < h_ncols h) by (subst cm; destruct (_ <=? _); assumption).
  assert (HcM : cM < h_ncols h) by (subst cM; destruct (_ <=? _); assumption).
  assert (Hle : cm mod 64 <= cM mod 64)
    by (subst cm cM a_bit b_bit; destruct (Nat.leb_spec (cola mod 64) (colb mod 64)); lia).
  assert (Etr : forall j, transp cm cM j = transp cola colb j).
  { intros j. subst cm cM. destruct (_ <=? _); [reflexivity|apply transp_sym]. }
  rewrite Emin, Eoff.
  assert (Step : forall (body : nat -> list N -> res (list N)),
     (forall k m, k < r1 - r0 -> valid h m ->
        exists m', body k m = Ok m' /\ length m' = length m /\ mem_ok m' /\
          touched h (r0 + k) 0 (h_ncols h) m m' /\
          forall j, N.testbit (rowval h m' (r0 + k)) (N.of_nat j) =
                    N.testbit (rowval h m (r0 + k)) (N.of_nat (transp cm cM j))) ->
     exists m', forM (seq 0 (r1 - r0)) body mem = Ok m' /\ length m' = length mem /\ mem_ok m' /\
       abs h m' = col_swap_in_rows (abs h mem) cola colb r0 r1 /\ outside h mem m').
  { intros body Hbody.
    destruct (rows_loop h r0 0 (r1 - r0) 0 (h_ncols h)
                (fun k => bit_swap (rowval h mem (r0 + k)) cola colb) body mem Hok ltac:(lia) ltac:(lia) Hm)
      as (m' & E & L & O & Out & Done & Rest).
    - intros k m Hk Lm Om Outm Restm. cbn [Nat.add] in *.
      destruct (Hbody k m ltac:(lia) ltac:(eapply valid_same_length; eassumption)) as (m' & E & L' & O' & T & B).
      exists m'. split; [exact E|]. split; [assumption|]. split; [assumption|].
      apply bits_ext_nat. intros j. rewrite B, testbit_bit_swap, Etr. now rewrite Restm by lia.
    - exists m'. split; [exact E|]. do 2 (split; [assumption|]). split; [|assumption].
      apply Fin; auto.
      + intros k Hk. apply Done. lia.
      + intros i Hi. apply Rest. lia. }
  destruct (Nat.eqb_spec (cola / 64) (colb / 64)) as [Ew|Ew].
  - (* same word *)
    assert (Ewm : cm / 64 = cM / 64) by (subst cm cM; destruct (_ <=? _); lia).
    assert (Hlt : cm mod 64 < cM mod 64).
    { subst cm cM a_bit b_bit. destruct (Nat.leb_spec (cola mod 64) (colb mod 64)); lia. }
    apply Step. intros k m Hk Hvm. rewrite row_addr_plus.
    replace (cola / 64) with (cm / 64) by (subst cm; destruct (_ <=? _); lia).
    exact (swap_same_word h (r0 + k) cm cM m Hvm ltac:(lia) Hcm HcM Ewm Hlt).
  - assert (Ewm : cm / 64 <> cM / 64) by (subst cm cM; destruct (_ <=? _); lia).
    assert (Emw : (if cm mod 64 =? a_bit then cola / 64 else colb / 64) = cm / 64).
    { subst cm a_bit b_bit. destruct (Nat.leb_spec (cola mod 64) (colb mod 64)).
      - now rewrite Nat.eqb_refl.
      - destruct (Nat.eqb_spec (colb mod 64) (cola mod 64)); [lia|reflexivity]. }
    assert (EMw : (if cm mod 64 =? a_bit then colb / 64 else cola / 64) = cM / 64).
    { subst cm cM a_bit b_bit. destruct (Nat.leb_spec (cola mod 64) (colb mod 64)).
      - now rewrite Nat.eqb_refl.
      - destruct (Nat.eqb_spec (colb mod 64) (cola mod 64)); [lia|reflexivity]. }
    rewrite Emw, EMw.
    apply Step. intros k m Hk Hvm. rewrite !row_addr_plus.
    exact (swap_two_words h (r0 + k) cm cM m Hvm ltac:(lia) Hcm HcM Ewm Hle).
Qed.
