(* Word/WRefine17.v — the uniform kernel contract ([kernel_post] of Word/WRefineViews.v: same allocation
   size, 64-bit words, REFINEMENT, FRAME, PADDING, READ-ONLY OPERANDS; [= Ok m'] is the BOUNDS part: no
   out-of-bounds access, no undefined shift, no die) for the models of the CURRENT C text
   (Word/WOps2.v Part A), from Word/WRefine14.v / WRefine16.v.  No axioms. *)
From Coq Require Import List NArith Arith Lia Bool.
From M4 Require Import Base.Bits Lin.Mat Lin.Ops Lin.OpsProofs Lin.Observers Word.WMat Word.WOps Word.WOps2
  Word.WMatLemmas Word.WRefine9 Word.WRefine14 Word.WRefine16 Word.WRefineViews.
Import ListNotations.
Local Open Scope nat_scope.

Theorem w2_row_clear_offset_full h mem r co : valid h mem -> r < h_nrows h -> co < h_ncols h ->
  exists m', w2_row_clear_offset h r co mem = Ok m' /\
             kernel_post h mem (row_clear_offset (abs h mem) r co) m'.
Proof. intros. apply kernel_post_intro; auto. now apply w2_row_clear_offset_refines. Qed.

(** all dstrow, srcrow — dstrow = srcrow included *)
Theorem w2_row_add_offset_full h mem dst src co :
  valid h mem -> dst < h_nrows h -> src < h_nrows h -> co < h_ncols h ->
  exists m', w2_row_add_offset h dst src co mem = Ok m' /\
             kernel_post h mem (row_add_offset (abs h mem) dst src co) m'.
Proof. intros. apply kernel_post_intro; auto. now apply w2_row_add_offset_refines. Qed.

(** dstrow = srcrow: the result is the row cleared from coloffset on *)
Theorem w2_row_add_offset_same_row_full h mem r co : valid h mem -> r < h_nrows h -> co < h_ncols h ->
  exists m', w2_row_add_offset h r r co mem = Ok m' /\
             kernel_post h mem (row_clear_offset (abs h mem) r co) m' /\
             (forall j, co <= j -> get (abs h m') r j = false).
Proof.
  intros Hv Hr Hco.
  destruct (w2_row_add_offset_same_row h mem r co Hv Hr Hco) as (m' & E & L & O & B & Z & A & T & Out).
  destruct (kernel_post_intro h mem (row_clear_offset (abs h mem) r co) (w2_row_add_offset h r r co mem) Hv)
    as (m'' & E' & P); [exists m'; auto|].
  rewrite E in E'. injection E' as <-. exists m'. auto.
Qed.

Theorem w2_submatrix_full hS hM sr sc er ec mem :
  valid hS mem -> valid hM mem -> h_nrows hS = er - sr -> h_ncols hS = ec - sc ->
  sr <= er -> er <= h_nrows hM -> ec <= h_ncols hM -> sc < ec -> wdisjoint hS hM ->
  exists m', w2_submatrix hS hM sr sc er ec mem = Ok m' /\
             kernel_post hS mem (msub (abs hM mem) sr sc (er - sr) (ec - sc)) m'.
Proof. intros. apply kernel_post_intro; auto. now apply w2_submatrix_ok. Qed.

(** a supplied destination LARGER than the block: aligned path any larger S, unaligned path any taller
    S of the block's width — the block lands in the top-left corner, nothing else changes *)
Theorem w2_submatrix_larger_full hS hM sr sc er ec mem :
  valid hS mem -> valid hM mem -> er - sr <= h_nrows hS -> ec - sc <= h_ncols hS ->
  (sc mod 64 = 0 \/ h_ncols hS = ec - sc) ->
  sr <= er -> er <= h_nrows hM -> ec <= h_ncols hM -> sc < ec -> wdisjoint hS hM ->
  exists m', w2_submatrix hS hM sr sc er ec mem = Ok m' /\
             kernel_post hS mem (msub_into (abs hS mem) (msub (abs hM mem) sr sc (er - sr) (ec - sc))) m'.
Proof. intros. apply kernel_post_intro; auto. now apply w2_submatrix_larger_ok. Qed.

Theorem w2_concat_full hC hA hB mem :
  valid hC mem -> valid hA mem -> valid hB mem -> 0 < h_ncols hA ->
  h_nrows hA = h_nrows hC -> h_nrows hB = h_nrows hC -> h_ncols hC = h_ncols hA + h_ncols hB ->
  wdisjoint hC hA -> wdisjoint hC hB ->
  exists m', w2_concat hC hA hB mem = Ok m' /\ kernel_post hC mem (mconcat (abs hA mem) (abs hB mem)) m'.
Proof. intros. apply kernel_post_intro; auto. now apply w2_concat_ok. Qed.

Theorem w2_stack_full hC hA hB mem :
  valid hC mem -> valid hA mem -> valid hB mem -> 0 < h_ncols hC ->
  h_ncols hA = h_ncols hC -> h_ncols hB = h_ncols hC -> h_nrows hC = h_nrows hA + h_nrows hB ->
  wdisjoint hC hA -> wdisjoint hC hB ->
  exists m', w2_stack hC hA hB mem = Ok m' /\ kernel_post hC mem (mstack (abs hA mem) (abs hB mem)) m'.
Proof. intros. apply kernel_post_intro; auto. now apply w2_stack_ok. Qed.

Theorem w2_extract_u_full hU hA mem :
  let k := Nat.min (h_nrows hA) (h_ncols hA) in
  valid hU mem -> valid hA mem -> 0 < k -> h_nrows hU = k -> h_ncols hU = k -> wdisjoint hU hA ->
  exists m', w2_extract_u hU hA mem = Ok m' /\ kernel_post hU mem (extract_u (abs hA mem)) m'.
Proof. intros k **. apply kernel_post_intro; auto. now apply w2_extract_u_ok. Qed.

(** mzd_extract_l into a supplied window: the FULL contract, frame included (repaired F17) *)
Theorem w2_extract_l_full hL hA mem :
  let k := Nat.min (h_nrows hA) (h_ncols hA) in
  valid hL mem -> valid hA mem -> 0 < k -> h_nrows hL = k -> h_ncols hL = k -> wdisjoint hL hA ->
  exists m', w2_extract_l hL hA mem = Ok m' /\ kernel_post hL mem (extract_l (abs hA mem)) m'.
Proof. intros k **. apply kernel_post_intro; auto. now apply w2_extract_l_ok. Qed.

(** mzd_first_zero_row sees only the viewed block *)
Theorem w2_first_zero_row_view_only hA mem1 mem2 :
  valid hA mem1 -> valid hA mem2 -> 0 < h_ncols hA -> abs hA mem1 = abs hA mem2 ->
  w2_first_zero_row hA mem1 = w2_first_zero_row hA mem2.
Proof. intros V1 V2 Hc E. rewrite !w2_first_zero_row_ok by assumption. now rewrite E. Qed.
