(* Word/WRefineViews.v — the uniform "kernel contract" (DESIGN Appendix A) for every writing kernel:

     K … mem = Ok m'  /\  kernel_post hdst mem (Op (abs …)) m'

   where [kernel_post] packs: same allocation size, words stay 64-bit, REFINEMENT (abs hdst m' = Op …,
   C08), FRAME (outside hdst mem m': every bit of the allocation that is not an entry of the
   destination view is unchanged, including the bits sharing its last word, C09), PADDING (zero excess
   bits of the destination stay zero, C10) and READ-ONLY OPERANDS (every header that shares no word
   with the destination denotes the same matrix and has bit-for-bit the same words, C08/C09).
   Plus: views as standalone copies (windows of a parent), observers independent of the surroundings.
   No axioms. *)
From Coq Require Import List NArith Arith Lia Bool ZifyBool ZifyNat ZifyN ZArith.
From M4 Require Import Base.Bits Lin.Mat Lin.Ops Lin.OpsProofs Lin.Observers Word.WMat Word.WOps
  Word.WMatLemmas Word.WRefineLemmas Word.WRefine Word.WRefine2 Word.WRefine3 Word.WRefine4
  Word.WRefine5 Word.WRefine6 Word.WRefine7 Word.WRefine8 Word.WRefine9 Word.WRefine10 Word.WRefine11
  Word.WRefine12 Word.WRefine13.
Import ListNotations.
Local Open Scope nat_scope.

Definition kernel_post (h : hdr) (mem : list N) (M : mat) (m' : list N) : Prop :=
  length m' = length mem /\ mem_ok m' /\
  abs h m' = M /\
  outside h mem m' /\
  (padding_zero h mem -> padding_zero h m') /\
  (forall hS, wdisjoint h hS ->
     abs hS m' = abs hS mem /\ forall p, wview hS p -> word_at m' p = word_at mem p).

Lemma kernel_post_intro h mem M (r : res (list N)) : valid h mem ->
  (exists m', r = Ok m' /\ length m' = length mem /\ mem_ok m' /\ abs h m' = M /\ outside h mem m') ->
  exists m', r = Ok m' /\ kernel_post h mem M m'.
Proof.
  intros Hv (m' & E & L & O & A & Out). pose proof (valid_hdr_ok _ _ Hv) as Hok.
  pose proof (valid_mem_ok _ _ Hv) as Hm. exists m'. split; [exact E|].
  split; [assumption|]. split; [assumption|]. split; [assumption|]. split; [assumption|]. split.
  - now apply outside_padding.
  - intros hS Dj. destruct (outside_source_unchanged h hS mem m' Hok Hm O Out Dj) as [W A']. auto.
Qed.

(* ------------------------------------------------------------------------------------------ *)
(** * bit and row kernels (mzd.h) *)
Theorem w_write_bit_full h mem i j v : valid h mem -> i < h_nrows h -> j < h_ncols h ->
  exists m', w_write_bit h i j v mem = Ok m' /\ kernel_post h mem (write_bit (abs h mem) i j v) m'.
Proof. intros Hv Hi Hj. apply kernel_post_intro; auto. now apply w_write_bit_refines. Qed.

Theorem w_xor_bits_full h mem x y n values : valid h mem -> x < h_nrows h -> 1 <= n <= 64 ->
  y + n <= h_ncols h -> bounded n values ->
  exists m', w_xor_bits h x y n values mem = Ok m' /\ kernel_post h mem (xor_bits (abs h mem) x y n values) m'.
Proof. intros. apply kernel_post_intro; auto. now apply w_xor_bits_refines. Qed.

Theorem w_clear_bits_full h mem x y n : valid h mem -> x < h_nrows h -> 1 <= n <= 64 -> y + n <= h_ncols h ->
  exists m', w_clear_bits h x y n mem = Ok m' /\ kernel_post h mem (clear_bits (abs h mem) x y n) m'.
Proof. intros. apply kernel_post_intro; auto. now apply w_clear_bits_refines. Qed.

Theorem w_row_swap_full h mem a b : valid h mem -> a < h_nrows h -> b < h_nrows h ->
  exists m', w_row_swap h a b 0 mem = Ok m' /\ kernel_post h mem (row_swap (abs h mem) a b) m'.
Proof. intros. apply kernel_post_intro; auto. now apply w_row_swap_refines. Qed.

Theorem w_row_add_offset_full h mem dst src co :
  valid h mem -> dst < h_nrows h -> src < h_nrows h -> dst <> src -> co < h_ncols h ->
  exists m', w_row_add_offset h dst src co mem = Ok m' /\
             kernel_post h mem (row_add_offset (abs h mem) dst src co) m'.
Proof. intros. apply kernel_post_intro; auto. now apply w_row_add_offset_refines. Qed.

Theorem w_row_clear_offset_fixed2_full h mem r co : valid h mem -> r < h_nrows h -> co < h_ncols h ->
  exists m', w_row_clear_offset_fixed2 h r co mem = Ok m' /\
             kernel_post h mem (row_clear_offset (abs h mem) r co) m'.
Proof. intros. apply kernel_post_intro; auto. now apply w_row_clear_offset_fixed2_refines. Qed.

Theorem w_col_swap_in_rows_full h mem cola colb r0 r1 :
  valid h mem -> cola < h_ncols h -> colb < h_ncols h -> r0 <= r1 -> r1 <= h_nrows h ->
  exists m', w_col_swap_in_rows h cola colb r0 r1 mem = Ok m' /\
             kernel_post h mem (col_swap_in_rows (abs h mem) cola colb r0 r1) m'.
Proof. intros. apply kernel_post_intro; auto. now apply w_col_swap_in_rows_ok. Qed.

(* ------------------------------------------------------------------------------------------ *)
(** * addition and data movement (mzd.c) *)
Theorem w_mzd_add_full hC hA hB mem :
  valid hC mem -> valid hA mem -> valid hB mem -> 0 < h_ncols hC ->
  same_dims hA hC -> same_dims hB hC -> alias_ok hC hA -> alias_ok hC hB ->
  exists m', w_mzd_add hC hA hB mem = Ok m' /\ kernel_post hC mem (madd (abs hA mem) (abs hB mem)) m'.
Proof. intros. apply kernel_post_intro; auto. now apply w_mzd_add_ok. Qed.

Theorem w_add_full hC hA hB mem :
  valid hC mem -> valid hA mem -> valid hB mem -> 0 < h_ncols hC ->
  same_dims hA hC -> same_dims hB hC -> alias_ok hC hA -> alias_ok hC hB ->
  exists m', w_add hC hA hB mem = Ok m' /\ kernel_post hC mem (madd (abs hA mem) (abs hB mem)) m'.
Proof. intros. apply kernel_post_intro; auto. now apply w_add_ok. Qed.

Theorem w_copy_full hN hP mem :
  valid hN mem -> valid hP mem -> 0 < h_ncols hP ->
  h_nrows hP <= h_nrows hN -> h_ncols hP <= h_ncols hN -> alias_ok hN hP ->
  exists m', w_copy hN hP mem = Ok m' /\ kernel_post hN mem (mcopy_into (abs hN mem) (abs hP mem)) m'.
Proof. intros. apply kernel_post_intro; auto. now apply w_copy_ok. Qed.

Theorem w_copy_row_full hB i hA j mem :
  valid hB mem -> valid hA mem -> i < h_nrows hB -> j < h_nrows hA ->
  0 < h_ncols hA -> h_ncols hA <= h_ncols hB -> alias_ok hB hA ->
  exists m', w_copy_row hB i hA j mem = Ok m' /\ kernel_post hB mem (copy_row (abs hB mem) i (abs hA mem) j) m'.
Proof. intros. apply kernel_post_intro; auto. now apply w_copy_row_refines. Qed.

Theorem w_set_ui_full hA value mem : valid hA mem -> 0 < h_ncols hA ->
  exists m', w_set_ui hA value mem = Ok m' /\ kernel_post hA mem (set_ui (h_nrows hA) (h_ncols hA) value) m'.
Proof. intros. apply kernel_post_intro; auto. now apply w_set_ui_ok. Qed.

Theorem w_submatrix_fixed_full hS hM sr sc er ec mem :
  valid hS mem -> valid hM mem -> h_nrows hS = er - sr -> h_ncols hS = ec - sc ->
  sr <= er -> er <= h_nrows hM -> ec <= h_ncols hM -> sc < ec -> wdisjoint hS hM ->
  exists m', w_submatrix_fixed hS hM sr sc er ec mem = Ok m' /\
             kernel_post hS mem (msub (abs hM mem) sr sc (er - sr) (ec - sc)) m'.
Proof. intros. apply kernel_post_intro; auto. now apply w_submatrix_fixed_ok. Qed.

Theorem w_concat_fixed_full hC hA hB mem :
  valid hC mem -> valid hA mem -> valid hB mem -> 0 < h_ncols hA ->
  h_nrows hA = h_nrows hC -> h_nrows hB = h_nrows hC -> h_ncols hC = h_ncols hA + h_ncols hB ->
  wdisjoint hC hA -> wdisjoint hC hB ->
  exists m', w_concat_fixed hC hA hB mem = Ok m' /\ kernel_post hC mem (mconcat (abs hA mem) (abs hB mem)) m'.
Proof. intros. apply kernel_post_intro; auto. now apply w_concat_fixed_ok. Qed.

Theorem w_stack_fixed_full hC hA hB mem :
  valid hC mem -> valid hA mem -> valid hB mem -> 0 < h_ncols hC ->
  h_ncols hA = h_ncols hC -> h_ncols hB = h_ncols hC -> h_nrows hC = h_nrows hA + h_nrows hB ->
  wdisjoint hC hA -> wdisjoint hC hB ->
  exists m', w_stack_fixed hC hA hB mem = Ok m' /\ kernel_post hC mem (mstack (abs hA mem) (abs hB mem)) m'.
Proof. intros. apply kernel_post_intro; auto. now apply w_stack_fixed_ok. Qed.

Theorem w_extract_u_fx_full hU hA mem :
  let k := Nat.min (h_nrows hA) (h_ncols hA) in
  valid hU mem -> valid hA mem -> 0 < k -> h_nrows hU = k -> h_ncols hU = k -> wdisjoint hU hA ->
  exists m', w_extract_u_fx hU hA mem = Ok m' /\ kernel_post hU mem (extract_u (abs hA mem)) m'.
Proof. intros k **. apply kernel_post_intro; auto. now apply w_extract_u_fx_ok. Qed.

(* ------------------------------------------------------------------------------------------ *)
(** * a view is a standalone copy of the viewed block *)
(** Whatever a frame-preserving step does through a window [w] of a parent [h]: the window denotes the
    sub-block, the parent afterwards is the old parent with the new block pasted in, and the parent's
    frame is preserved as well. *)
Theorem window_standalone h lowr lowc highr highc m m' :
  hdr_ok h -> lowc mod 64 = 0 -> lowc <= highc -> highc <= h_ncols h -> lowr <= h_nrows h ->
  let w := window_hdr h lowr lowc highr highc in
  outside w m m' ->
  abs w m = msub (abs h m) lowr lowc (Nat.min (highr - lowr) (h_nrows h - lowr)) (highc - lowc) /\
  abs h m' = mpaste (abs h m) lowr lowc (abs w m') /\
  outside h m m'.
Proof.
  intros Hok Hlc Hlh Hhc Hlr w Out. split; [now apply abs_window|]. split.
  - now apply window_paste.
  - now apply (outside_window_parent h lowr lowc highr highc).
Qed.

(** showcase: in-place addition on windows, stated on the parents *)
Theorem w_mzd_add_on_windows hP hQ lowr lowc highr highc mem :
  valid hP mem -> valid hQ mem -> lowc mod 64 = 0 -> lowc < highc ->
  highc <= h_ncols hP -> highc <= h_ncols hQ -> lowr <= h_nrows hP -> h_nrows hQ = h_nrows hP ->
  wdisjoint hP hQ ->
  let wP := window_hdr hP lowr lowc highr highc in
  let wQ := window_hdr hQ lowr lowc highr highc in
  let r := Nat.min (highr - lowr) (h_nrows hP - lowr) in
  exists m', w_mzd_add wP wP wQ mem = Ok m' /\
    abs hP m' = mpaste (abs hP mem) lowr lowc
                  (madd (msub (abs hP mem) lowr lowc r (highc - lowc)) (msub (abs hQ mem) lowr lowc r (highc - lowc))) /\
    outside hP mem m' /\ abs hQ m' = abs hQ mem.
Proof.
  intros HvP HvQ Hlc Hlh HcP HcQ Hlr Er Dj wP wQ r.
  pose proof (valid_hdr_ok _ _ HvP) as HokP. pose proof (valid_hdr_ok _ _ HvQ) as HokQ.
  pose proof (valid_mem_ok _ _ HvP) as Hm.
  assert (HvwP : valid wP mem) by (apply window_valid; auto).
  assert (HvwQ : valid wQ mem) by (apply window_valid; auto; lia).
  assert (DjW : wdisjoint wP wQ).
  { intros p H1 H2. apply (Dj p).
    - destruct H1 as (i & k & Hi & Hk & ->). apply (in_view_wview hP _ 0 HokP).
      apply (window_in_view hP lowr lowc highr highc); auto. apply in_view_word; auto; try lia.
      pose proof (valid_hdr_ok _ _ HvwP) as [Hw _]. rewrite Hw in Hk. lia.
    - destruct H2 as (i & k & Hi & Hk & ->). apply (in_view_wview hQ _ 0 HokQ).
      apply (window_in_view hQ lowr lowc highr highc); auto; try lia. apply in_view_word; auto; try lia.
      pose proof (valid_hdr_ok _ _ HvwQ) as [Hw _]. rewrite Hw in Hk. lia. }
  destruct (w_mzd_add_ok wP wP wQ mem) as (m' & E & L & O & A & Out); auto.
  - unfold wP. cbn [window_hdr h_ncols]. lia.
  - split; reflexivity.
  - split; [unfold wP, wQ; cbn [window_hdr h_nrows]; lia|reflexivity].
  - now left.
  - now right.
  - exists m'. split; [exact E|].
    destruct (window_standalone hP lowr lowc highr highc mem m' HokP Hlc ltac:(lia) HcP Hlr Out) as (A1 & A2 & A3).
    split; [|split; [assumption|]].
    + rewrite A2. fold wP. rewrite A. f_equal. f_equal.
      * exact A1.
      * unfold wQ. rewrite abs_window by (auto; lia). unfold r. rewrite Er. reflexivity.
    + apply (outside_source_unchanged hP hQ mem m' HokP Hm O A3 Dj).
Qed.

(* ------------------------------------------------------------------------------------------ *)
(** * observers see only the viewed block: same view contents => same answer, whatever the
      surrounding allocation (even of a different size) *)
Theorem observers_view_only hA hB mem1 mem2 :
  valid hA mem1 -> valid hB mem1 -> valid hA mem2 -> valid hB mem2 -> 0 < h_ncols hA ->
  abs hA mem1 = abs hA mem2 -> abs hB mem1 = abs hB mem2 ->
  w_equal hA hB mem1 = w_equal hA hB mem2 /\ w_cmp hA hB mem1 = w_cmp hA hB mem2 /\
  w_is_zero hA mem1 = w_is_zero hA mem2 /\
  w_first_zero_row_fixed hA mem1 = w_first_zero_row_fixed hA mem2.
Proof.
  intros A1 B1 A2 B2 Hc EA EB.
  rewrite !w_equal_ok, !w_cmp_ok, !w_is_zero_ok, !w_first_zero_row_fixed_ok by assumption.
  now rewrite EA, EB.
Qed.

Theorem find_pivot_view_only hA mem1 mem2 r0 c0 : valid hA mem1 -> valid hA mem2 ->
  abs hA mem1 = abs hA mem2 -> w_find_pivot hA r0 c0 mem1 = w_find_pivot hA r0 c0 mem2.
Proof. intros V1 V2 E. rewrite !w_find_pivot_ok by assumption. now rewrite E. Qed.

(** ** the word model of mzd_init *)
Theorem alloc_zero_full mem r c : mem_ok mem ->
  let mem0 := fst (w_alloc mem r c) in let hN := snd (w_alloc mem r c) in
  valid hN mem0 /\ abs hN mem0 = mzero r c /\ padding_zero hN mem0 /\ owned hN = true.
Proof.
  intros Hm. cbv zeta. split; [now apply alloc_valid|]. split; [apply alloc_abs_zero|].
  split; [apply alloc_padding|reflexivity].
Qed.

Theorem alloc_old_full mem r c h : valid h mem ->
  valid h (fst (w_alloc mem r c)) /\ abs h (fst (w_alloc mem r c)) = abs h mem /\
  wdisjoint (snd (w_alloc mem r c)) h.
Proof.
  intros Hv. split; [now apply alloc_old_valid|]. split; [now apply alloc_old_abs|now apply alloc_disjoint].
Qed.

(** likewise for a writer: the result block depends only on the operand blocks (showcase: addition) *)
Theorem add_view_only hC hA hB mem1 mem2 m1 m2 :
  valid hC mem1 -> valid hA mem1 -> valid hB mem1 -> valid hC mem2 -> valid hA mem2 -> valid hB mem2 ->
  0 < h_ncols hC -> same_dims hA hC -> same_dims hB hC -> alias_ok hC hA -> alias_ok hC hB ->
  abs hA mem1 = abs hA mem2 -> abs hB mem1 = abs hB mem2 ->
  w_mzd_add hC hA hB mem1 = Ok m1 -> w_mzd_add hC hA hB mem2 = Ok m2 -> abs hC m1 = abs hC m2.
Proof.
  intros C1 A1 B1 C2 A2 B2 Hc DA DB AlA AlB EA EB E1 E2.
  destruct (w_mzd_add_ok hC hA hB mem1) as (m1' & F1 & _ & _ & R1 & _); auto.
  destruct (w_mzd_add_ok hC hA hB mem2) as (m2' & F2 & _ & _ & R2 & _); auto.
  rewrite E1 in F1. rewrite E2 in F2. inversion F1. inversion F2. subst. now rewrite R1, R2, EA, EB.
Qed.
