(* Word/WRefine7.v — refinement theorems, part 7: the observers mzd_equal, mzd_is_zero and the repaired
   mzd_first_zero_row, for arbitrary excess bits (windows with foreign bits in the last word): the
   word-level result equals the Lin/Ops.v observer on the viewed block.  Observers do not write, so
   frame and padding are trivial.  No axioms. *)
From Coq Require Import List NArith Arith Lia Bool ZifyBool ZifyNat ZifyN ZArith.
From M4 Require Import Base.Bits Lin.Mat Lin.Ops Lin.OpsProofs Lin.Observers Word.WMat Word.WOps
  Word.WMatLemmas Word.WRefineLemmas Word.WRefine2.
Import ListNotations.
Local Open Scope nat_scope.
Ltac Zify.zify_post_hook ::= Z.div_mod_to_equations.

(* ------------------------------------------------------------------------------------------ *)
(** * a row value in terms of the words of the row *)
Section Words.
  Variables (h : hdr) (mem : list N) (i : nat).
  Hypothesis (Hok : hdr_ok h) (Hm : mem_ok mem) (Hc0 : 0 < h_ncols h).
  Let W := h_width h.
  Let r := row_addr h i.

  Lemma row_word_bits k b : k < W -> b < 64 ->
    N.testbit (if k =? W - 1 then N.land (word_at mem (r + k)) (h_hmask h) else word_at mem (r + k)) (N.of_nat b) =
    N.testbit (rowval h mem i) (N.of_nat (64 * k + b)).
  Proof.
    intros Hk Hb. rewrite testbit_rowval_word by assumption. unfold bit. fold r.
    destruct (Nat.eqb_spec k (W - 1)) as [-> |Hne].
    - rewrite N.land_spec, testbit_hmask' by assumption. fold W. apply andb_comm.
    - pose proof (full_word_in h k b Hok ltac:(fold W; lia) Hb).
      destruct (Nat.ltb_spec (64 * k + b) (h_ncols h)); [reflexivity|lia].
  Qed.

  Lemma rowval_zero_iff : rowval h mem i = 0%N <->
    (forall k, k < W - 1 -> word_at mem (r + k) = 0%N) /\ N.land (word_at mem (r + (W - 1))) (h_hmask h) = 0%N.
  Proof.
    pose proof (width_pos_of_ncols h Hok Hc0) as HWp. fold W in HWp. split.
    - intros E. split.
      + intros k Hk. apply word_ext; [now apply mem_ok_word|reflexivity|]. intros b Hb.
        pose proof (row_word_bits k b ltac:(lia) Hb) as B. destruct (Nat.eqb_spec k (W - 1)); [lia|].
        rewrite B, E. now rewrite !N.bits_0.
      + apply bits_ext_nat. intros b. rewrite N.bits_0.
        destruct (Nat.lt_ge_cases b 64) as [Hb|Hb].
        * pose proof (row_word_bits (W - 1) b ltac:(lia) Hb) as B. rewrite Nat.eqb_refl in B.
          rewrite B, E. apply N.bits_0.
        * rewrite N.land_spec, (testbit_word_high (word_at mem (r + (W - 1)))) by (auto using mem_ok_word). reflexivity.
    - intros [Hw Hl]. apply bits_ext_nat. intros j. rewrite N.bits_0.
      destruct (Nat.lt_ge_cases j (h_ncols h)) as [Hj|Hj]; [|now apply rowval_bounded].
      pose proof (width_pos h j Hok Hj) as Hjw. fold W in Hjw.
      replace j with (64 * (j / 64) + j mod 64) by lia.
      rewrite <- (row_word_bits (j / 64) (j mod 64)) by lia.
      destruct (Nat.eqb_spec (j / 64) (W - 1)) as [E|E].
      + rewrite E, Hl. apply N.bits_0.
      + rewrite Hw by lia. apply N.bits_0.
  Qed.
End Words.

(** two rows (same number of columns) are equal iff their full words agree and the last words agree
    under the mask *)
Lemma rowval_eq_iff hA hB mem i : hdr_ok hA -> hdr_ok hB -> mem_ok mem -> 0 < h_ncols hA ->
  h_ncols hB = h_ncols hA ->
  rowval hA mem i = rowval hB mem i <->
  (forall k, k < h_width hA - 1 -> word_at mem (row_addr hA i + k) = word_at mem (row_addr hB i + k)) /\
  N.land (N.lxor (word_at mem (row_addr hA i + (h_width hA - 1))) (word_at mem (row_addr hB i + (h_width hA - 1))))
         (h_hmask hA) = 0%N.
Proof.
  intros HokA HokB Hm Hc0 Ec. destruct (same_ncols_width hB hA HokB HokA Ec) as [EW EM].
  pose proof (width_pos_of_ncols hA HokA Hc0) as HWp.
  assert (Hc0B : 0 < h_ncols hB) by lia. split.
  - intros E. split.
    + intros k Hk. apply word_ext; try now apply mem_ok_word. intros b Hb.
      pose proof (row_word_bits hA mem i HokA Hc0 k b ltac:(lia) Hb) as BA.
      pose proof (row_word_bits hB mem i HokB Hc0B k b ltac:(lia) Hb) as BB.
      rewrite EW in BB. destruct (Nat.eqb_spec k (h_width hA - 1)); [lia|]. now rewrite BA, BB, E.
    + apply bits_ext_nat. intros b. rewrite N.bits_0, N.land_spec, N.lxor_spec.
      destruct (Nat.lt_ge_cases b 64) as [Hb|Hb].
      * pose proof (row_word_bits hA mem i HokA Hc0 (h_width hA - 1) b ltac:(lia) Hb) as BA.
        pose proof (row_word_bits hB mem i HokB Hc0B (h_width hA - 1) b ltac:(lia) Hb) as BB.
        rewrite EW, EM, Nat.eqb_refl in BB. rewrite Nat.eqb_refl in BA.
        rewrite N.land_spec in BA, BB. rewrite E in BA. rewrite <- BB in BA.
        destruct (N.testbit (h_hmask hA) (N.of_nat b)); [|apply andb_false_r].
        rewrite !andb_true_r in BA. rewrite BA. now rewrite xorb_nilpotent.
      * rewrite !(testbit_word_high (word_at mem _)) by (auto using mem_ok_word). reflexivity.
  - intros [Hw Hl]. apply bits_ext_nat. intros j.
    destruct (Nat.lt_ge_cases j (h_ncols hA)) as [Hj|Hj].
    2:{ rewrite !rowval_bounded by lia. reflexivity. }
    pose proof (width_pos hA j HokA Hj) as Hjw.
    replace j with (64 * (j / 64) + j mod 64) by lia.
    rewrite <- (row_word_bits hA mem i HokA Hc0 (j / 64) (j mod 64)) by lia.
    rewrite <- (row_word_bits hB mem i HokB Hc0B (j / 64) (j mod 64)) by lia.
    rewrite EW, EM. destruct (Nat.eqb_spec (j / 64) (h_width hA - 1)) as [E|E].
    + rewrite E. apply (f_equal (fun x => N.testbit x (N.of_nat (j mod 64)))) in Hl.
      rewrite N.bits_0, N.land_spec, N.lxor_spec in Hl. rewrite !N.land_spec.
      destruct (N.testbit (h_hmask hA) (N.of_nat (j mod 64))); [|now rewrite !andb_false_r].
      rewrite !andb_true_r in *. revert Hl. now destruct (N.testbit _ _), (N.testbit _ _).
    + now rewrite Hw by lia.
Qed.

(* ------------------------------------------------------------------------------------------ *)
(** * loops of the observers *)
Lemma fold_first_forallb {R} (c : nat -> bool) (v : R) l :
  fold_right (fun k acc => match (if c k then None else Some v) with Some x => Some x | None => acc end) None l =
  if forallb c l then None else Some v.
Proof. induction l as [|x l IH]; cbn [fold_right forallb]; [reflexivity|]. destruct (c x); cbn [andb]; auto. Qed.

Lemma forallb_map_eqb0 (g : nat -> N) l :
  forallb (N.eqb 0%N) (map g l) = forallb (fun x => (g x =? 0)%N) l.
Proof. induction l as [|x l IH]; cbn; [reflexivity|]. now rewrite IH, N.eqb_sym. Qed.

(** OR-accumulation of the words r + a .. r + a + n - 1 *)
Fixpoint lor_words (mem : list N) (r a n : nat) (s : N) : N :=
  match n with 0 => s | S n' => lor_words mem r (S a) n' (N.lor s (word_at mem (r + a))) end.

Lemma forM_lor mem r a n s : r + a + n <= length mem ->
  forM (seq a n) (fun j st => x <- rd mem (r + j) ;; Ok (N.lor st x)) s = Ok (lor_words mem r a n s).
Proof.
  revert a s. induction n as [|n IH]; intros a s H; cbn [seq forM lor_words]; [reflexivity|].
  rewrite rd_ok by lia. cbn [bind]. apply IH. lia.
Qed.

Lemma lor_words_zero mem r a n s :
  lor_words mem r a n s = 0%N <-> s = 0%N /\ forall k, a <= k < a + n -> word_at mem (r + k) = 0%N.
Proof.
  revert a s. induction n as [|n IH]; intros a s; cbn [lor_words].
  - split; [intros ->; split; [reflexivity|intros; lia]|tauto].
  - rewrite IH, N.lor_eq_0_iff. split.
    + intros [[Hs Hw] Hr]. split; [assumption|]. intros k Hk.
      destruct (Nat.eq_dec k a) as [-> |]; [assumption|]. apply Hr. lia.
    + intros [Hs Hr]. split; [split; [assumption|apply Hr; lia]|]. intros k Hk. apply Hr. lia.
Qed.

(* ------------------------------------------------------------------------------------------ *)
(** * mzd_is_zero *)
Theorem w_is_zero_ok hA mem : valid hA mem -> 0 < h_ncols hA ->
  w_is_zero hA mem = Ok (is_zero (abs hA mem)).
Proof.
  intros Hv Hc0. pose proof (valid_hdr_ok _ _ Hv) as Hok. pose proof (valid_mem_ok _ _ Hv) as Hm.
  pose proof (width_pos_of_ncols hA Hok Hc0) as HWp.
  unfold w_is_zero. destruct (Nat.eqb_spec (h_width hA) 0); [lia|]. cbn [andb].
  rewrite (firstM_total _ (fun i => if (rowval hA mem i =? 0)%N then None else Some false)).
  - cbn [bind]. f_equal. rewrite fold_first_forallb. unfold is_zero, abs. cbn [rows].
    rewrite (forallb_map_eqb0 (rowval hA mem)). now destruct (forallb _ _).
  - intros i Hi. rewrite in_seq in Hi.
    pose proof (valid_word hA mem i (h_width hA - 1) Hv ltac:(lia) ltac:(lia)).
    rewrite (forM_lor mem (row_addr hA i) 0 (h_width hA - 1) 0) by lia. cbn [bind].
    rewrite rd_ok by lia. cbn [bind]. f_equal.
    destruct (N.eqb_spec (rowval hA mem i) 0) as [E|E].
    + apply (rowval_zero_iff hA mem i Hok Hm Hc0) in E. destruct E as [Ew El].
      rewrite El, N.lor_0_r. rewrite (proj2 (lor_words_zero mem (row_addr hA i) 0 (h_width hA - 1) 0)); [reflexivity|].
      split; [reflexivity|]. intros k Hk. apply Ew. lia.
    + destruct (N.eqb_spec (N.lor (lor_words mem (row_addr hA i) 0 (h_width hA - 1) 0)
                  (N.land (word_at mem (row_addr hA i + (h_width hA - 1))) (h_hmask hA))) 0) as [Z|Z]; [|reflexivity].
      exfalso. apply E. apply (rowval_zero_iff hA mem i Hok Hm Hc0).
      apply N.lor_eq_0_iff in Z. destruct Z as [Z1 Z2]. apply lor_words_zero in Z1. destruct Z1 as [_ Z1].
      split; [|assumption]. intros k Hk. apply Z1. lia.
Qed.

(* ------------------------------------------------------------------------------------------ *)
(** * mzd_equal *)
Lemma list_eqb_map_seq (f g : nat -> N) n :
  list_eqb (map f (seq 0 n)) (map g (seq 0 n)) = forallb (fun i => (f i =? g i)%N) (seq 0 n).
Proof. generalize 0. induction n as [|n IH]; intros a; cbn; [reflexivity|]. now rewrite IH. Qed.

Theorem w_equal_ok hA hB mem : valid hA mem -> valid hB mem -> 0 < h_ncols hA ->
  w_equal hA hB mem = Ok (mequal (abs hA mem) (abs hB mem)).
Proof.
  intros HvA HvB Hc0. pose proof (valid_hdr_ok _ _ HvA) as HokA. pose proof (valid_hdr_ok _ _ HvB) as HokB.
  pose proof (valid_mem_ok _ _ HvA) as Hm. pose proof (width_pos_of_ncols hA HokA Hc0) as HWp.
  unfold w_equal, mequal. rewrite !nr_abs, !nc_abs.
  destruct (Nat.eqb_spec (h_nrows hA) (h_nrows hB)) as [Er|Er]; cbn [negb andb]; [|reflexivity].
  destruct (Nat.eqb_spec (h_ncols hA) (h_ncols hB)) as [Ec|Ec]; cbn [negb andb]; [|reflexivity].
  destruct (hdr_eqb hA hB) eqn:Eq.
  { apply hdr_eqb_eq in Eq. subst hB. f_equal. symmetry. apply list_eqb_eq. reflexivity. }
  destruct (Nat.eqb_spec (h_width hA) 0); [lia|]. cbn [andb].
  destruct (same_ncols_width hB hA HokB HokA (eq_sym Ec)) as [EW EM].
  rewrite (firstM_total _ (fun i => if (rowval hA mem i =? rowval hB mem i)%N then None else Some false)).
  - cbn [bind]. f_equal. rewrite fold_first_forallb. unfold abs. cbn [rows]. rewrite <- Er.
    rewrite list_eqb_map_seq. now destruct (forallb _ _).
  - intros i Hi. rewrite in_seq in Hi.
    pose proof (valid_word hA mem i (h_width hA - 1) HvA ltac:(lia) ltac:(lia)).
    pose proof (valid_word hB mem i (h_width hA - 1) HvB ltac:(lia) ltac:(lia)).
    rewrite (firstM_total _ (fun j => if (word_at mem (row_addr hA i + j) =? word_at mem (row_addr hB i + j))%N
                                       then None else Some false)).
    2:{ intros j Hj. rewrite in_seq in Hj. rewrite !rd_ok by lia. cbn [bind]. f_equal.
        now destruct (N.eqb _ _). }
    cbn [bind]. rewrite fold_first_forallb.
    pose proof (rowval_eq_iff hA hB mem i HokA HokB Hm Hc0 (eq_sym Ec)) as Iff.
    destruct (forallb _ (seq 0 (h_width hA - 1))) eqn:Ef.
    + rewrite forallb_forall in Ef. rewrite !rd_ok by lia. cbn [bind]. f_equal.
      destruct (N.eqb_spec (rowval hA mem i) (rowval hB mem i)) as [E|E].
      * apply Iff in E. destruct E as [_ El]. rewrite El. reflexivity.
      * destruct (N.eqb_spec (N.land (N.lxor (word_at mem (row_addr hA i + (h_width hA - 1)))
                   (word_at mem (row_addr hB i + (h_width hA - 1)))) (h_hmask hA)) 0) as [Z|Z]; [|reflexivity].
        exfalso. apply E, Iff. split; [|assumption]. intros k Hk. apply N.eqb_eq, Ef, in_seq. lia.
    + f_equal. destruct (N.eqb_spec (rowval hA mem i) (rowval hB mem i)) as [E|E]; [|reflexivity].
      exfalso. apply Iff in E. destruct E as [Ew _].
      assert (forallb (fun j => (word_at mem (row_addr hA i + j) =? word_at mem (row_addr hB i + j))%N)
                (seq 0 (h_width hA - 1)) = true); [|congruence].
      apply forallb_forall. intros k Hk. rewrite in_seq in Hk. apply N.eqb_eq, Ew. lia.
Qed.

(* ------------------------------------------------------------------------------------------ *)
(** * mzd_first_zero_row, repaired *)
Lemma first_zero_row_aux_snoc l r i acc :
  first_zero_row_aux (l ++ [r]) i acc =
  if (r =? 0)%N then first_zero_row_aux l i acc else S (i + length l).
Proof.
  revert i acc. induction l as [|x l IH]; intros i acc; cbn [app first_zero_row_aux length].
  - rewrite Nat.add_0_r. now destruct (N.eqb r 0).
  - rewrite IH. destruct (N.eqb r 0); [reflexivity|]. f_equal. lia.
Qed.

Lemma first_zero_row_rev (f : nat -> N) n :
  first_zero_row_aux (map f (seq 0 n)) 0 0 =
  opt_default 0 (fold_right (fun k acc => match (if (f k =? 0)%N then None else Some (k + 1)) with
                                          | Some v => Some v | None => acc end) None (rev (seq 0 n))).
Proof.
  induction n as [|n IH]; [reflexivity|].
  rewrite seq_S, map_app, rev_app_distr. cbn [map rev app fold_right Nat.add].
  rewrite first_zero_row_aux_snoc, map_length, seq_length.
  destruct (N.eqb (f n) 0); [exact IH|]. cbn [opt_default]. lia.
Qed.

Theorem w_first_zero_row_fixed_ok hA mem : valid hA mem -> 0 < h_ncols hA ->
  w_first_zero_row_fixed hA mem = Ok (first_zero_row (abs hA mem)).
Proof.
  intros Hv Hc0. pose proof (valid_hdr_ok _ _ Hv) as Hok. pose proof (valid_mem_ok _ _ Hv) as Hm.
  pose proof (width_pos_of_ncols hA Hok Hc0) as HWp.
  assert (EM : left_bitmask (h_ncols hA mod 64) = h_hmask hA) by (destruct Hok as [_ [M _]]; now rewrite M).
  unfold w_first_zero_row_fixed. destruct (Nat.eqb_spec (h_width hA) 0); [lia|]. cbn [andb]. rewrite EM.
  rewrite (firstM_total _ (fun i => if (rowval hA mem i =? 0)%N then None else Some (i + 1))).
  - cbn [bind]. f_equal. unfold first_zero_row, abs. cbn [rows]. now rewrite first_zero_row_rev.
  - intros i Hi. rewrite <- in_rev, in_seq in Hi.
    pose proof (valid_word hA mem i (h_width hA - 1) Hv ltac:(lia) ltac:(lia)).
    set (e := h_width hA - 1) in *.
    assert (Acc : exists t,
       (tmp <- (if e =? 0 then Ok 0%N else rd mem (row_addr hA i)) ;;
        forM (seq 1 (e - 1)) (fun j t => x <- rd mem (row_addr hA i + j) ;; Ok (N.lor t x)) tmp) = Ok t /\
       (t = 0%N <-> forall k, k < e -> word_at mem (row_addr hA i + k) = 0%N)).
    { destruct (Nat.eqb_spec e 0) as [E0|E0]; cbn [bind].
      - rewrite E0. cbn [Nat.sub seq forM]. exists 0%N. split; [reflexivity|]. split; [intros; lia|reflexivity].
      - rewrite rd_ok by lia. cbn [bind]. rewrite (forM_lor mem (row_addr hA i) 1 (e - 1)) by lia.
        eexists. split; [reflexivity|]. rewrite lor_words_zero. split.
        + intros [H0 Hr] k Hk. destruct (Nat.eq_dec k 0) as [-> |]; [now rewrite Nat.add_0_r|]. apply Hr. lia.
        + intros Hall. split; [rewrite <- (Nat.add_0_r (row_addr hA i)); apply Hall; lia|].
          intros k Hk. apply Hall. lia. }
    destruct Acc as (t & Et & Zt).
    destruct (if e =? 0 then Ok 0%N else rd mem (row_addr hA i)) as [tmp0|err] eqn:E0; [|discriminate].
    cbn [bind] in Et |- *. rewrite Et. cbn [bind]. rewrite rd_ok by lia. cbn [bind]. f_equal.
    destruct (N.eqb_spec (rowval hA mem i) 0) as [E|E].
    + apply (rowval_zero_iff hA mem i Hok Hm Hc0) in E. destruct E as [Ew El]. fold e in Ew, El.
      rewrite El, N.lor_0_r. rewrite (proj2 Zt) by (intros; apply Ew; lia). reflexivity.
    + destruct (N.eqb_spec (N.lor t (N.land (word_at mem (row_addr hA i + e)) (h_hmask hA))) 0) as [Z|Z]; [|reflexivity].
      exfalso. apply E. apply (rowval_zero_iff hA mem i Hok Hm Hc0). fold e.
      apply N.lor_eq_0_iff in Z. destruct Z as [Z1 Z2]. split; [|assumption]. now apply Zt.
Qed.
