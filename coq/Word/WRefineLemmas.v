(* Word/WRefineLemmas.v — the "masked row store" pattern shared by most word kernels: a kernel that
   replaces the words [sb, sb+n) of ONE row of the destination view, described in the normal form
   [stored (row_addr h i + sb) 0 n f mem], is frame-preserving at row level ([touched]) as soon as the
   stored words agree with the old ones on the bits outside the columns [c0, c1).  No axioms. *)
From Coq Require Import List NArith Arith Lia Bool ZifyBool ZifyNat ZifyN ZArith.
From M4 Require Import Base.Bits Lin.Mat Lin.Ops Word.WMat Word.WOps Word.WMatLemmas.
Import ListNotations.
Local Open Scope nat_scope.
Ltac Zify.zify_post_hook ::= Z.div_mod_to_equations.

Ltac wsolve := bdestr; cbn [andb orb negb]; try lia; try reflexivity; try (f_equal; lia);
  try (do 2 f_equal; lia); try (do 3 f_equal; lia).
Ltac bfin := bsolve; rewrite ?andb_true_r, ?andb_false_r, ?orb_false_r, ?orb_true_r, ?xorb_false_r;
  try reflexivity.

(** a memory described word by word *)
Definition desc (m : list N) (F : nat -> N) : Prop := forall p, word_at m p = F p.

Lemma stored_out base a j f mem p : ~ (base + a <= p < base + j) -> stored base a j f mem p = word_at mem p.
Proof. intros H. unfold stored. wsolve. Qed.

Lemma stored_in base a j f mem p : base + a <= p < base + j -> stored base a j f mem p = trunc (f (p - base)).
Proof. intros H. unfold stored. wsolve. Qed.

Lemma stored_ext base a j f g mem p : (forall k, a <= k < j -> f k = g k) ->
  stored base a j f mem p = stored base a j g mem p.
Proof. intros H. unfold stored. destruct (_ && _) eqn:E; [|reflexivity]. rewrite H; [reflexivity|]. revert E. wsolve. Qed.

Lemma stored_empty base a f mem p : stored base a a f mem p = word_at mem p.
Proof. apply stored_out. lia. Qed.

(** one more store at index t <= j (overwriting an already stored word or extending the range) *)
Lemma stored_upd base a j f mem m t v : a <= t <= j -> base + t < length m ->
  desc m (stored base a j f mem) ->
  desc (upd (base + t) (trunc v) m)
       (stored base a (Nat.max j (S t)) (fun k => if k =? t then v else f k) mem).
Proof.
  intros Ht Hl D p. rewrite word_at_upd by assumption. rewrite D. unfold stored.
  destruct (Nat.eqb_spec p (base + t)) as [-> |Hne].
  - replace (base + t - base) with t by lia. rewrite Nat.eqb_refl. wsolve.
  - destruct (Nat.eqb_spec (p - base) t); wsolve.
Qed.

(** a second word loop continuing the first *)
Lemma desc_stored_stored base a j j' f g mem m0 m1 : a <= j -> j <= j' ->
  desc m0 (stored base a j f mem) -> desc m1 (stored base j j' g m0) ->
  desc m1 (stored base a j' (fun k => if k <? j then f k else g k) mem).
Proof.
  intros Ha Hj D0 D1 p. rewrite D1. unfold stored at 1.
  destruct ((base + j <=? p) && (p <? base + j')) eqn:E.
  - unfold stored. revert E. wsolve.
  - rewrite D0. unfold stored. revert E. wsolve.
Qed.

(** the single first store *)
Lemma desc_upd_first base a v mem : base + a < length mem ->
  desc (upd (base + a) (trunc v) mem) (stored base a (S a) (fun _ => v) mem).
Proof.
  intros Hl p. rewrite word_at_upd by assumption. unfold stored.
  destruct (Nat.eqb_spec p (base + a)) as [-> |Hne]; wsolve.
Qed.

Lemma desc_mem_ok mem m F : mem_ok mem -> desc m F -> (forall p, (F p < 2 ^ 64)%N) -> mem_ok m.
Proof. intros Hm D H. apply mem_ok_intro. intros p. rewrite D. apply H. Qed.

Lemma stored_lt base a j f mem p : mem_ok mem -> (stored base a j f mem p < 2 ^ 64)%N.
Proof. intros Hm. unfold stored. destruct (_ && _); [apply trunc_lt|now apply mem_ok_word]. Qed.

(* ------------------------------------------------------------------------------------------ *)
(** * the row-kernel rule *)
Lemma row_kernel h i sb n c0 c1 (f : nat -> N) mem m' :
  hdr_ok h -> sb + n <= h_width h -> length m' = length mem ->
  desc m' (stored (row_addr h i + sb) 0 n f mem) ->
  (forall k b, k < n -> b < 64 -> ~ (c0 <= 64 * (sb + k) + b < c1) ->
     N.testbit (f k) (N.of_nat b) = N.testbit (word_at mem (row_addr h i + (sb + k))) (N.of_nat b)) ->
  touched h i c0 c1 mem m' /\
  forall j, j < h_ncols h -> N.testbit (rowval h m' i) (N.of_nat j) =
    if (sb <=? j / 64) && (j / 64 <? sb + n) then N.testbit (f (j / 64 - sb)) (N.of_nat (j mod 64))
    else N.testbit (rowval h mem i) (N.of_nat j).
Proof.
  intros Hok Hn L D Hkeep. split.
  - apply touched_intro; [exact L|]. intros p b Hb Hnin. rewrite D. unfold stored.
    destruct ((row_addr h i + sb + 0 <=? p) && (p <? row_addr h i + sb + n)) eqn:E; [|reflexivity].
    rewrite andb_true_iff, Nat.leb_le, Nat.ltb_lt in E. rewrite testbit_trunc_lt by assumption.
    rewrite Hkeep; try lia.
    + f_equal. f_equal. lia.
    + intros Hc. apply (Hnin (sb + (p - (row_addr h i + sb)))); lia.
  - intros j Hj. rewrite !testbit_rowval by assumption.
    destruct (Nat.ltb_spec j (h_ncols h)); [|lia]. cbn [andb]. unfold bit. rewrite D. unfold stored.
    destruct (Nat.leb_spec sb (j / 64)), (Nat.ltb_spec (j / 64) (sb + n)); cbn [andb].
    + destruct (Nat.leb_spec (row_addr h i + sb + 0) (row_addr h i + j / 64)); [|lia].
      destruct (Nat.ltb_spec (row_addr h i + j / 64) (row_addr h i + sb + n)); [|lia]. cbn [andb].
      rewrite testbit_trunc_lt by lia. do 2 f_equal. lia.
    + destruct (Nat.ltb_spec (row_addr h i + j / 64) (row_addr h i + sb + n)); [lia|].
      now rewrite andb_false_r.
    + destruct (Nat.leb_spec (row_addr h i + sb + 0) (row_addr h i + j / 64)); [lia|]. reflexivity.
    + destruct (Nat.leb_spec (row_addr h i + sb + 0) (row_addr h i + j / 64)); [lia|]. reflexivity.
Qed.

(** sources seen through the partially written destination row *)
Lemma src_word_stored base n f mem q : (q < base \/ base + n <= q) ->
  stored base 0 n f mem q = word_at mem q.
Proof. intros H. apply stored_out. lia. Qed.

(** two address ranges of row words: same row of the same header or separated *)
Definition src_ok (dst src : nat) (n : nat) : Prop := src = dst \/ src + n <= dst \/ dst + n <= src.
